#include "pgm/pgm_index.hpp"
#include "pgm/pgm_index_variants.hpp"
#include <random>
#include <cstdio>
#include <set>
template<class K,size_t E,size_t ER> long mapped(uint64_t seed){
  std::mt19937_64 r(seed); long bad=0;
  for(int it=0;it<300;it++){
    size_t n=1+r()%200; std::vector<K> d(n); int range = it%3==0? 5: (it%3==1? 50: 100000);
    for(auto&x:d) x = K((long)(r()%range) - (std::is_signed_v<K>? range/2:0));
    std::sort(d.begin(),d.end());
    { FILE*f=fopen("/tmp/probe/raw.bin","wb"); fwrite(d.data(),sizeof(K),n,f); fclose(f);}
    pgm::MappedPGMIndex<K,E,ER> a(d.begin(),d.end(),"/tmp/probe/a.bin");
    pgm::MappedPGMIndex<K,E,ER> b(std::string("/tmp/probe/raw.bin"),std::string("/tmp/probe/b.bin"));
    pgm::MappedPGMIndex<K,E,ER> c(std::string("/tmp/probe/a.bin"));
    if(system("cmp -s /tmp/probe/a.bin /tmp/probe/b.bin")){ if(bad<3)printf("BAD files differ n=%zu it=%d\n",n,it); bad++; }
    auto chk=[&](auto&ix,const char*nm){
      if(ix.size()!=n || !std::equal(ix.begin(),ix.end(),d.begin())){ if(bad<5)printf("BAD content %s\n",nm); bad++; return;}
      for(long q=(long)d.front()-2;q<=(long)d.back()+2 && q<(long)d.front()+300;q++){ K k=K(q); if((long)k!=q) continue;
        size_t lb=std::lower_bound(d.begin(),d.end(),k)-d.begin(), ub=std::upper_bound(d.begin(),d.end(),k)-d.begin();
        size_t l2=ix.lower_bound(k)-ix.begin(), u2=ix.upper_bound(k)-ix.begin();
        if(lb!=l2||ub!=u2||ix.count(k)!=ub-lb||ix.contains(k)!=(ub>lb)){ if(bad<5)printf("BAD %s q=%ld lb %zu/%zu ub %zu/%zu n=%zu\n",nm,q,l2,lb,u2,ub,n); bad++; }
      }};
    chk(a,"range");chk(b,"raw");chk(c,"reopen");
  }
  return bad;
}
#ifdef MORTON_ND_BMI2_ENABLED
template<class T> long multi2(uint64_t seed){
  std::mt19937_64 r(seed); long bad=0;
  for(int it=0;it<300;it++){
    size_t n=1+r()%300; T u = it%2? 8: 40;
    std::vector<std::tuple<T,T>> d(n); for(auto&p:d) p={T(r()%u),T(r()%u)};
    pgm::MultidimensionalPGMIndex<2,T,4> ix(d.begin(),d.end());
    std::multiset<std::tuple<T,T>> s(d.begin(),d.end());
    for(T x=0;x<u+1;x++)for(T y=0;y<u+1;y+=3){ bool c=ix.contains({x,y}); if(c!=(s.count({x,y})>0)){ if(bad<3)printf("BAD contains (%lu,%lu) got %d\n",(unsigned long)x,(unsigned long)y,c); bad++; } }
    for(int t=0;t<30;t++){ T x0=r()%u,y0=r()%u,x1=x0+r()%(u-x0),y1=y0+r()%(u-y0);
      size_t exp=0; for(auto&p:d) exp += (std::get<0>(p)>=x0&&std::get<0>(p)<=x1&&std::get<1>(p)>=y0&&std::get<1>(p)<=y1);
      size_t got=0; for(auto i=ix.range({x0,y0},{x1,y1}); i!=ix.end() && got<n+5; ++i){ auto p=*i; if(!(std::get<0>(p)>=x0&&std::get<0>(p)<=x1&&std::get<1>(p)>=y0&&std::get<1>(p)<=y1)){bad++; if(bad<3)printf("BAD range outside\n");} got++; }
      if(got!=exp){ if(bad<5)printf("BAD range count %zu exp %zu n=%zu\n",got,exp,n); bad++; } }
  }
  return bad;
}
#endif
int main(int argc,char**argv){
  int sel=argc>1?atoi(argv[1]):0;
  if(sel==0){ printf("mapped u32 %ld\n",mapped<uint32_t,2,1>(1)); printf("mapped i32 %ld\n",mapped<int32_t,4,0>(2)); printf("mapped i64 %ld\n",mapped<int64_t,2,1>(3));printf("mapped u16 %ld\n",mapped<uint16_t,2,1>(3));}
  if(sel==1){ printf("multi u32 %ld\n",multi2<uint32_t>(1)); printf("multi u64 %ld\n",multi2<uint64_t>(2)); }
}

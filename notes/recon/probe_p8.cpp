#include "pgm/pgm_index.hpp"
#include "pgm/pgm_index_dynamic.hpp"
#include "pgm/pgm_index_variants.hpp"
#include <cstdio>
#include <typeinfo>
template<class F> void t(const char*nm,F f){ try{ f(); printf("%-40s no exception\n",nm);} catch(const std::invalid_argument&e){printf("%-40s invalid_argument\n",nm);} catch(const std::logic_error&e){printf("%-40s logic_error(%s)\n",nm,e.what());} catch(const std::runtime_error&e){printf("%-40s runtime_error\n",nm);} catch(const std::exception&e){printf("%-40s other %s\n",nm,typeid(e).name());} }
int main(){
  using K=uint32_t; K mx=std::numeric_limits<K>::max();
  std::vector<K> d{1,5,9,mx};
  t("PGM max",[&]{pgm::PGMIndex<K,4,2> i(d);});
  t("PGM<.,0> max",[&]{pgm::PGMIndex<K,4,0> i(d);});
  t("Compressed max",[&]{pgm::CompressedPGMIndex<K,4,2> i(d);});
  t("Bucketing max",[&]{pgm::BucketingPGMIndex<K,4,16> i(d);});
  t("EF max",[&]{pgm::EliasFanoPGMIndex<K,4> i(d);});
  t("Mapped max",[&]{pgm::MappedPGMIndex<K,4,2> i(d.begin(),d.end(),"/tmp/probe/m.bin");});
  std::vector<double> fd{1.0,2.0,std::numeric_limits<double>::infinity()};
  t("PGM double inf",[&]{pgm::PGMIndex<double,4,2> i(fd);});
  std::vector<K> d2{1,5,9,mx-1};
  t("Compressed max-1 (valid)",[&]{pgm::CompressedPGMIndex<K,4,2> i(d2);});
  std::vector<uint8_t> d3{1,5,9,254};
  t("Compressed u8 254 (valid)",[&]{pgm::CompressedPGMIndex<uint8_t,1,1> i(d3);});
  std::vector<std::pair<K,K>> b{{1,1},{5,1},{3,1}};
  t("Dyn unsorted",[&]{pgm::DynamicPGMIndex<K,K> x(b.begin(),b.end());});
  for(int base: {3,5,6,12,100,255}) { char nm[40]; sprintf(nm,"Dyn base %d",base); t(nm,[&]{pgm::DynamicPGMIndex<K,K> x(base);}); }
  t("Dyn tombstone value",[&]{pgm::DynamicPGMIndex<K,K> x; x.insert_or_assign(3,mx);});
  t("Dyn range lo>hi",[&]{pgm::DynamicPGMIndex<K,K> x; x.insert_or_assign(3,1); x.range(5,2);});
  std::vector<std::pair<K,K>> b2{{1,1},{5,mx}};
  t("Dyn bulk tombstone",[&]{pgm::DynamicPGMIndex<K,K> x(b2.begin(),b2.end());});
  t("PLA nonincreasing",[&]{pgm::internal::OptimalPiecewiseLinearModel<K,size_t> o(2); o.add_point(5,0); o.add_point(5,1);});
  t("PLA<int64 Y> neg eps",[&]{pgm::internal::OptimalPiecewiseLinearModel<K,int64_t> o(-1);});
  std::vector<std::tuple<uint32_t,uint32_t>> pts{{1,2},{1u<<15,3}};
  t("Multi coord 2^15 (FieldBits=16)",[&]{pgm::MultidimensionalPGMIndex<2,uint32_t,4> m(pts.begin(),pts.end());});
  std::vector<std::tuple<uint32_t,uint32_t>> pts2{{1,2},{(1u<<15)-1,3}};
  t("Multi coord 2^15-1",[&]{pgm::MultidimensionalPGMIndex<2,uint32_t,4> m(pts2.begin(),pts2.end());});
  // after rejected insert state unchanged
  { pgm::DynamicPGMIndex<K,K> x; x.insert_or_assign(3,1); try{x.insert_or_assign(4,mx);}catch(...){} printf("size after rejected insert: %zu find4=%d\n",x.size(), x.find(4)!=x.end()); }
}

import random, itertools
from fractions import Fraction as F
def sub(a,b): return (a[0]-b[0], a[1]-b[1])   # (dx,dy)
def lt(a,b): return a[1]*b[0] < a[0]*b[1]
def gt(a,b): return a[1]*b[0] > a[0]*b[1]
def cross(O,A,B):
    oa=sub(A,O); ob=sub(B,O); return oa[0]*ob[1]-oa[1]*ob[0]
class PLA:
    def __init__(s,eps): s.eps=eps; s.k=0; s.lower=[]; s.upper=[]; s.rect=[None]*4; s.pts=[]
    def add(s,x,y):
        eps=s.eps
        p1=(x,y+eps); p2=(x,max(0,y-eps))
        if s.k==0:
            s.first_x=x; s.rect[0]=p1; s.rect[1]=p2; s.upper=[p1]; s.lower=[p2]; s.k=1; s.pts=[(x,y)]; return True
        if s.k==1:
            s.rect[2]=p2; s.rect[3]=p1; s.upper.append(p1); s.lower.append(p2); s.k=2; s.pts.append((x,y)); return True
        r=s.rect
        slope1=sub(r[2],r[0]); slope2=sub(r[3],r[1])
        if lt(sub(p1,r[2]),slope1) or gt(sub(p2,r[3]),slope2):
            s.k=0; return False
        if lt(sub(p1,r[1]),slope2):
            mn=sub(s.lower[0],p1); mi=0
            for i in range(1,len(s.lower)):
                v=sub(s.lower[i],p1)
                if gt(v,mn): break
                mn=v; mi=i
            r[1]=s.lower[mi]; r[3]=p1; s.lower=s.lower[mi:]
            end=len(s.upper)
            while end>=2 and cross(s.upper[end-2],s.upper[end-1],p1)<=0: end-=1
            s.upper=s.upper[:end]+[p1]
        if gt(sub(p2,r[0]),slope1):
            mx=sub(s.upper[0],p2); mi=0
            for i in range(1,len(s.upper)):
                v=sub(s.upper[i],p2)
                if lt(v,mx): break
                mx=v; mi=i
            r[0]=s.upper[mi]; r[2]=p2; s.upper=s.upper[mi:]
            end=len(s.lower)
            while end>=2 and cross(s.lower[end-2],s.lower[end-1],p2)>=0: end-=1
            s.lower=s.lower[:end]+[p2]
        s.k+=1; s.pts.append((x,y)); return True
def line(a,b): # returns function
    sl=F(b[1]-a[1], b[0]-a[0]); return lambda x: a[1]+sl*(x-a[0])
def feasible_exists(pts,eps):
    U=[(x,y+eps) for x,y in pts]; L=[(x,max(0,y-eps)) for x,y in pts]
    if len(pts)<=1: return True
    # candidate lines: through U_i and L_j (i!=j), or horizontal-ish; LP in 2 vars: optimum at vertex => line touching two constraints
    cands=[]
    P=U+L
    for a,b in itertools.combinations(P,2):
        if a[0]!=b[0]: cands.append(line(a,b))
    for f in cands:
        if all(L[i][1] <= f(pts[i][0]) <= U[i][1] for i in range(len(pts))): return True
    return False
def check_inv(s):
    eps=s.eps; pts=s.pts; r=s.rect
    U=[(x,y+eps) for x,y in pts]; L=[(x,max(0,y-eps)) for x,y in pts]
    assert r[0] in U and r[3] in U and r[1] in L and r[2] in L
    assert r[0][0]<r[2][0] and r[1][0]<r[3][0], ("xorder",r)
    L1=line(r[0],r[2]); L2=line(r[1],r[3])
    for i,(x,y) in enumerate(pts):
        assert L[i][1]<=L1(x)<=U[i][1], "L1 infeasible"
        assert L[i][1]<=L2(x)<=U[i][1], "L2 infeasible"
    assert s.lower[0]==r[1] and s.lower[-1]==r[2], "lower ends"
    assert s.upper[0]==r[0] and s.upper[-1]==r[3], "upper ends"
    for ch,sgn in ((s.lower,-1),(s.upper,1)):
        for i in range(len(ch)-1): assert ch[i][0]<ch[i+1][0]
        for i in range(len(ch)-2): assert sgn*cross(ch[i],ch[i+1],ch[i+2])>0, "strict convexity"
    s1=F(r[2][1]-r[0][1], r[2][0]-r[0][0]); s2=F(r[3][1]-r[1][1], r[3][0]-r[1][0])
    assert s1<=s2
    # extended envelopes
    def env(ch,left_slope,right_slope,x):
        if x<=ch[0][0]: return ch[0][1]+left_slope*(x-ch[0][0])
        if x>=ch[-1][0]: return ch[-1][1]+right_slope*(x-ch[-1][0])
        for i in range(len(ch)-1):
            if ch[i][0]<=x<=ch[i+1][0]: return line(ch[i],ch[i+1])(x)
    for i,(x,y) in enumerate(pts):
        assert L[i][1] <= env(s.lower,s2,s1,x), ("lower dom",i)
        assert U[i][1] >= env(s.upper,s1,s2,x), ("upper dom",i)
    for ch in (s.lower,s.upper):
        for i in range(len(ch)-1):
            e=F(ch[i+1][1]-ch[i][1], ch[i+1][0]-ch[i][0]); assert s1<=e<=s2, "edge slope range"
def _selftest():
    random.seed(1)
    nrej=0;nacc=0
    for trial in range(60000):
        eps=random.choice([0,0,1,1,2,3,5])
        s=PLA(eps); x=random.randint(0,3); y=random.randint(0,6)
        n=random.randint(1,14)
        for t in range(n):
            prev=list(s.pts)
            ok=s.add(x,y)
            if not ok:
                nrej+=1
                assert not feasible_exists(prev+[(x,y)],eps), ("completeness",prev,(x,y),eps)
                s.add(x,y)
            else:
                nacc+=1
            if s.k>=2: check_inv(s)
            x+=random.choice([1,1,1,2,3,7,20]); y+=random.choice([0,1,1,1,2,4]) if random.random()<0.9 else random.choice([0,10])
    print("ok",nacc,nrej)
    

if __name__=="__main__": _selftest()

#include "pgm/pgm_index.hpp"
#include "pgm/pgm_index_variants.hpp"
#include <cstdio>
template<int D,class T,int B> void run(){
  using M=pgm::MultidimensionalPGMIndex<D,T,4>;
  T U = T(1)<<(D*B); long bad_out=0,bad_in=0,tot=0, bad_below=0, bad_above=0;
  auto dec=[&](T z,int d){ T v=0; for(int b=0;b<B;b++) v|=((z>>(b*D+d))&1)<<b; return v; };
  for(T zmin=0;zmin<U;zmin++) for(T zmax=0;zmax<U;zmax++){ bool okbox=true; for(int d=0;d<D;d++) if(dec(zmin,d)>dec(zmax,d)) okbox=false; if(!okbox) continue;
    for(T x=0;x<U;x++){ T exp=0; for(T z=x+1;z<U;z++){ bool in=true; for(int d=0;d<D;d++){ T c=dec(z,d); if(c<dec(zmin,d)||c>dec(zmax,d)) in=false; } if(in){exp=z;break;} }
      T got=M::bigmin(x,zmin,zmax); tot++;
      bool xin = M::box_zcontains(zmin,zmax,x);
      if(got!=exp){ if(xin) bad_in++; else if(x<zmin) bad_below++; else if(x>zmax) bad_above++; else { if(bad_out<3) printf("BAD D=%d x=%lu zmin=%lu zmax=%lu got=%lu exp=%lu\n",D,(unsigned long)x,(unsigned long)zmin,(unsigned long)zmax,(unsigned long)got,(unsigned long)exp); bad_out++; } } } }
  printf("D=%d B=%d total=%ld mismatches: x outside box & zmin<x<zmax: %ld ; x in box: %ld ; x<zmin: %ld ; x>zmax: %ld\n",D,B,tot,bad_out,bad_in,bad_below,bad_above);
}
int main(){ run<2,uint32_t,3>(); run<3,uint32_t,2>(); run<2,uint64_t,3>(); run<4,uint64_t,1>(); }

import random, bisect, sys
from fractions import Fraction as F
from pla import PLA
import os
FIX=os.environ.get('FIX','0')=='1'
KMAX=(1<<16)-1   # model a 16-bit unsigned key type: reserved = KMAX
def get_segment(o):
    if o.k==1: return dict(rect=[o.rect[0],o.rect[1],o.rect[0],o.rect[1]], first=o.first_x, one=True)
    r=list(o.rect); one=(r[0]==r[2] and r[1]==r[3])
    return dict(rect=r, first=o.first_x, one=one)
def fp_segment(cs, origin):
    r=cs['rect']
    if cs['one']: return (F(0), (r[0][1]+r[1][1])//2)
    dx=r[3][0]-r[1][0]; dy=r[3][1]-r[1][1]
    n_=dy*(origin-r[1][0]); d_=dx
    sgn = -1 if ((n_<0) ^ (d_<0)) else 1
    rt = int(F(sgn*d_,1)/2) if False else (abs(sgn*d_)//2)*(1 if sgn*d_>=0 else -1)  # trunc toward zero of (sgn*d)/2
    q=n_+rt; quo = abs(q)//abs(d_) * (1 if (q>=0)==(d_>0) else -1)
    return (F(dy,dx), quo + r[1][1])
def make_segmentation(n,start,end,eps,inf,out,fed):
    c=0; o=PLA(eps)
    def add(x,y):
        nonlocal c
        fed.append((x,y))
        if o.k>0 and x<=o.last_x: raise Exception("logic_error")
        ok=o.add(x,y); o.last_x=x
        if not ok:
            out(get_segment_saved[0]); o.add(x,y); c+=1
        get_segment_saved[0]=get_segment(o)
    get_segment_saved=[None]
    add(inf(start),start)
    for i in range(start+1,end-1):
        if inf(i)==inf(i-1):
            if inf(i)+1<inf(i+1): add(inf(i)+1,i)
        else: add(inf(i),i)
    if end>=start+2 and inf(end-1)!=inf(end-2): add(inf(end-1),end-1)
    if end<n and FIX:
        j=end-1
        while j+1<n and inf(j+1)==inf(end-1): j+=1
        run=(end>=start+2 and inf(end-1)==inf(end-2)) or j>end-1
        if j+1>=n: add(inf(n-1)+1,n)
        elif run and inf(j)+1<inf(j+1): add(inf(j)+1,j)
    if end==n: add(inf(n-1)+1,n)
    out(get_segment_saved[0]); return c+1
def make_segmentation_par(n,eps,inf,out,fed,par,thr):
    if par==1 or n<thr: return make_segmentation(n,0,n,eps,inf,out,fed)
    cs=n//par; c=0
    for i in range(par):
        first=i*cs; last=n if i==par-1 else first+cs
        if first>0:
            while first<last and inf(first)==inf(first-1): first+=1
            if first==last: continue
        c+=make_segmentation(n,first,last,eps,inf,out,fed)
    return c
class Index:
    def __init__(s,data,eps,epsr,par=1,thr=1<<15):
        s.n=len(data); s.first_key=data[0]; s.segs=[]; s.off=[0]; s.eps=eps; s.epsr=epsr; s.fed=[]
        sentinel=KMAX
        assert data[-1]!=sentinel
        def build_level(e,inf,last_n,fed):
            cnt=make_segmentation_par(last_n,e,inf,lambda cs: s.segs.append(mkseg(cs)),fed,par,thr)
            if s.segs[-1]['key']==sentinel: cnt-=1
            else:
                if evalseg(s.segs[-1],sentinel-1)<last_n: s.segs.append(dict(key=data[-1]+1,slope=F(0),ic=last_n))
                s.segs.append(dict(key=sentinel,slope=F(0),ic=last_n))
            return cnt
        def mkseg(cs):
            sl,ic=fp_segment(cs,cs['first']); assert ic>=0
            return dict(key=cs['first'],slope=sl,ic=ic)
        last_n=build_level(eps,lambda i:data[i],s.n,s.fed); s.off.append(len(s.segs))
        s.levelfed=[s.fed]
        while epsr and last_n>1:
            o=s.off[-2]; f=[]
            last_n=build_level(epsr,lambda i,o=o:s.segs[o+i]['key'],last_n,f); s.off.append(len(s.segs)); s.levelfed.append(f)
    def height(s): return len(s.off)-1
    def segcount(s): return s.off[1]-1
    def segment_for_key(s,key,trace):
        if s.epsr==0:
            keys=[x['key'] for x in s.segs[:s.segcount()]]
            return bisect.bisect_right(keys,key)-1
        it=s.off[-2]
        for l in range(s.height()-2,-1,-1):
            lb=s.off[l]
            pos=min(evalseg(s.segs[it],key), s.segs[it+1]['ic'])
            lo=lb+max(0,pos-(s.epsr+1)); start=lo
            while s.segs[lo+1]['key']<=key: lo+=1
            # true j
            keys=[x['key'] for x in s.segs[lb:s.off[l+1]-1]]
            j=bisect.bisect_right(keys,key)-1
            trace.append((l,pos,start-lb,lo-lb,j))
            it=lo
        return it
    def search(s,key,trace=None):
        if trace is None: trace=[]
        k=max(s.first_key,key)
        it=s.segment_for_key(k,trace)
        pos=min(evalseg(s.segs[it],k), s.segs[it+1]['ic'])
        lo=0 if pos<=s.eps else pos-s.eps
        hi=s.n if pos+s.eps+2>=s.n else pos+s.eps+2
        return pos,lo,hi
def evalseg(sg,k):
    v=sg['slope']*(k-sg['key']); assert v>=0
    return int(v)+sg['ic']
def gen(rng,n,mode):
    if mode==0: d=[rng.randrange(0,KMAX) for _ in range(n)]
    elif mode==1: d=[rng.randrange(0,max(2,n//3)) for _ in range(n)]
    elif mode==2: d=[rng.randrange(0,4*n+1) for _ in range(n)]
    elif mode==3:
        d=[];x=rng.randrange(0,50)
        while len(d)<n:
            run=rng.choice([1,1,1,2,3,5,9,20]); d+=[x]*run; x+=rng.choice([1,1,2,3,10,100,1000])
            if x>=KMAX: break
        d=d[:n]
    else:
        a=rng.choice([1,2,3,7]); d=[min(KMAX-1,a*i+rng.randrange(0,3)) for i in range(n)]
    d=[min(x,KMAX-1) for x in d]; d.sort(); return d
if __name__=="__main__":
    rng=random.Random(int(sys.argv[1]) if len(sys.argv)>1 else 1)
    stats=dict(cases=0,q=0,maxvisit=0,viol=[])
    for it in range(int(sys.argv[2]) if len(sys.argv)>2 else 400):
        n=rng.choice([1,2,3,4,5,8,13,30,60,150,400]); eps=rng.choice([1,1,2,3,4,8]); epsr=rng.choice([0,1,1,2,4])
        par=rng.choice([1,1,2,3,5]); thr=rng.choice([40,64,1<<15])
        d=gen(rng,n,it%5)
        try: ix=Index(d,eps,epsr,par,thr)
        except Exception as e: stats['viol'].append(('build',str(e),d,eps,epsr,par,thr)); continue
        stats['cases']+=1
        qs=set([0,KMAX-1,d[0]-1 if d[0]>0 else 0,d[-1]+1])
        for x in d: qs|={x,max(0,x-1),min(KMAX-1,x+1)}
        for _ in range(10): qs.add(rng.randrange(0,KMAX))
        for q in sorted(qs):
            tr=[]; pos,lo,hi=ix.search(q,tr); r=bisect.bisect_left(d,q); stats['q']+=1
            ok = lo<=r<=hi<=len(d) and hi-lo<=2*eps+2
            present = r<len(d) and d[r]==q
            if present: ok = ok and r<hi and (r-eps-1<=pos<=r+eps or pos>=r)  # pos may be capped weirdly
            if not ok: stats['viol'].append(('search',q,(pos,lo,hi),r,d if len(d)<40 else len(d),eps,epsr,par,thr))
            for (l,p,start,end,j) in tr:
                visits=end-start+1; stats['maxvisit']=max(stats['maxvisit'],visits-(2*epsr+3))
                if not (start<=j==end and visits<=2*epsr+3): stats['viol'].append(('route',q,l,p,start,end,j,epsr,par,thr,len(d)))
    print(stats['cases'],stats['q'],'max(visits-(2epsr+3))=',stats['maxvisit'],'violations',len(stats['viol']))
    for v in stats['viol'][:8]: print(v)

#include <cstring>
#include "pgm/pgm_index.hpp"
#include "pgm/pgm_index_variants.hpp"
#include <random>
#include <cstdio>
#include <algorithm>
template<class K> std::vector<K> gen(std::mt19937_64&r, size_t n, int mode){
  std::vector<K> v(n);
  K mx = std::numeric_limits<K>::max()-1;
  for(auto&x:v){
    switch(mode){
      case 0: x = K(r()% (uint64_t(mx)+1)); break;
      case 1: x = K(r()% std::min<uint64_t>(uint64_t(mx)+1, n/2+1)); break;
      case 2: x = K(r()% std::min<uint64_t>(uint64_t(mx)+1, 4*n+1)); break;
      case 3: { uint64_t s = r()%64; x = K((r()>>s) % (uint64_t(mx)+1)); break;}
    }
  }
  std::sort(v.begin(),v.end());
  return v;
}
template<class K, class I> int check(const char*name,const I& idx,const std::vector<K>&d, std::mt19937_64&r, size_t eps){
  int bad=0;
  std::vector<K> qs;
  for(auto x:d){qs.push_back(x); if(x>0)qs.push_back(x-1); if(x<std::numeric_limits<K>::max()-1)qs.push_back(x+1);}
  qs.push_back(0); qs.push_back(std::numeric_limits<K>::max()-1);
  for(int i=0;i<20;i++) qs.push_back(K(r()%(uint64_t(std::numeric_limits<K>::max()))));
  for(auto q:qs){
    auto a=idx.search(q);
    size_t lb=std::lower_bound(d.begin(),d.end(),q)-d.begin();
    bool ok = a.lo<=a.hi && a.hi<=d.size() && a.hi-a.lo<=2*eps+2;
    if(ok){ size_t l2=std::lower_bound(d.begin()+a.lo,d.begin()+a.hi,q)-d.begin(); ok = l2==lb; 
       if(ok && lb<d.size() && d[lb]==q) ok = a.lo<=lb && lb<a.hi; }
    if(!ok){ if(bad<3) printf("BAD %s n=%zu q=%llu lo=%zu hi=%zu pos=%zu lb=%zu\n",name,d.size(),(unsigned long long)q,a.lo,a.hi,a.pos,lb); bad++; }
  }
  return bad;
}
int SEL=-1;
template<class K> void run(const char* kn){
  std::mt19937_64 r(12345);
  long bad[8]={0};
  for(int it=0;it<3000;it++){
    size_t n = 1 + r()% (it%10==0? 3000: 60);
    auto d=gen<K>(r,n,it%4);
    if(SEL<0||SEL==0){ pgm::PGMIndex<K,1,1> i(d); bad[0]+=check<K>("PGM<1,1>",i,d,r,1); }
    if(SEL<0||SEL==1){ pgm::PGMIndex<K,4,0> i(d); bad[1]+=check<K>("PGM<4,0>",i,d,r,4); }
    if(SEL<0||SEL==2){ pgm::PGMIndex<K,2,200,double> i(d); bad[2]+=check<K>("PGM<2,200,dbl>",i,d,r,2); }
    if constexpr(std::is_unsigned_v<K>){
    if(SEL<0||SEL==3){ pgm::CompressedPGMIndex<K,2,1> i(d); bad[3]+=check<K>("Comp<2,1>",i,d,r,2); }
    if(SEL<0||SEL==4){ pgm::CompressedPGMIndex<K,4,0> i(d); bad[4]+=check<K>("Comp<4,0>",i,d,r,4); }
    if(SEL<0||SEL==5){ pgm::BucketingPGMIndex<K,2,16> i(d); bad[5]+=check<K>("Buck<2,16>",i,d,r,2); }
    if(SEL<0||SEL==6){ pgm::BucketingPGMIndex<K,2,10,0> i(d); bad[6]+=check<K>("Buck<2,10,0>",i,d,r,2); }
    if(SEL<0||SEL==7){ pgm::EliasFanoPGMIndex<K,2> i(d); bad[7]+=check<K>("EF<2>",i,d,r,2); }
    }
  }
  printf("%s:",kn); for(int i=0;i<8;i++)printf(" %ld",bad[i]); printf("\n");
}
int main(int argc,char**argv){ if(argc>1)SEL=atoi(argv[1]); const char* kt=argc>2?argv[2]:"";
#define R(T,N) if(!*kt||!strcmp(kt,N)) run<T>(N);
 R(uint32_t,"u32") R(uint64_t,"u64") R(uint16_t,"u16") R(int32_t,"i32") R(int64_t,"i64") R(uint8_t,"u8") R(int8_t,"i8") return 0;}
int main2(){ run<uint32_t>("u32"); run<uint64_t>("u64"); run<uint16_t>("u16"); run<int32_t>("i32"); run<int64_t>("i64"); run<uint8_t>("u8");run<int8_t>("i8");}

#include "pgm/pgm_index.hpp"
#include <cstdio>
#include <omp.h>
int main(){
  size_t n=1<<15; std::vector<uint64_t> d(n);
  printf("procs %d maxthr %d\n",omp_get_num_procs(),omp_get_max_threads());
  int P=std::min(std::min(omp_get_num_procs(),omp_get_max_threads()),20); size_t cs=n/P;
  uint64_t v=0; for(size_t i=0;i<n;i++){ if(i>=cs-8 && i<cs+40) {} else v+= (i==cs+40? 1000000: 10); d[i]=v; }
  pgm::PGMIndex<uint64_t,1,1> ix(d);
  long bad=0;
  for(size_t i=0;i<n;i++) for(int dlt=-1;dlt<=1;dlt++){ uint64_t q=d[i]+dlt; auto a=ix.search(q); size_t lb=std::lower_bound(d.begin(),d.end(),q)-d.begin();
    if(!(a.lo<=lb&&lb<=a.hi)){ if(bad<5)printf("BAD q=%lu lo=%zu hi=%zu lb=%zu (i=%zu)\n",q,a.lo,a.hi,lb,i); bad++; } }
  printf("bad=%ld segs=%zu\n",bad,ix.segments_count());
}

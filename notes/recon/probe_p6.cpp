#include "pgm/pgm_index.hpp"
#include "pgm/pgm_index_variants.hpp"
#include <random>
#include <cstdio>
#include <memory>
template<class I,class K> long chk(const I&ix,const std::vector<K>&d,size_t eps,const char*nm){ long bad=0;
  for(size_t i=0;i<d.size();i++) for(int dl=-1;dl<=1;dl++){ K q=d[i]+dl; if(q==std::numeric_limits<K>::max())continue; if (q < d[0]) continue; auto a=ix.search(q); size_t lb=std::lower_bound(d.begin(),d.end(),q)-d.begin();
    if(!(a.lo<=lb&&lb<=a.hi&&a.hi<=d.size()&&a.hi-a.lo<=2*eps+2)){ if(bad<3)printf("BAD %s q=%lu lo=%zu hi=%zu lb=%zu\n",nm,(unsigned long)q,a.lo,a.hi,lb); bad++; } }
  return bad; }
int main(int argc,char**argv){
  int sel=atoi(argv[1]);
  std::mt19937_64 r(7);
  if(sel==0){ // compressed, EpsRec=256 > threshold(128 for u32)
    for(int it=0;it<5;it++){ size_t n=200000; std::vector<uint32_t> d(n); for(auto&x:d)x=r()%4000000000u; std::sort(d.begin(),d.end());
      pgm::CompressedPGMIndex<uint32_t,2,256> ix(d); printf("comp<2,256> h=%zu segs=%zu bad=%ld\n",ix.height(),ix.segments_count(),chk(ix,d,2,"comp256")); 
      pgm::CompressedPGMIndex<uint32_t,2,4> iy(d); printf("comp<2,4> h=%zu bad=%ld\n",iy.height(),chk(iy,d,2,"comp4")); }
  }
  if(sel==1){ // copy then destroy source
    std::vector<uint32_t> d(5000); for(auto&x:d)x=r()%1000000; std::sort(d.begin(),d.end());
    { auto p=std::make_unique<pgm::CompressedPGMIndex<uint32_t,4,4>>(d); auto c=*p; p.reset(); printf("compressed copy bad=%ld\n",chk(c,d,4,"compcopy")); }
    { auto p=std::make_unique<pgm::EliasFanoPGMIndex<uint32_t,4>>(d); auto c=*p; p.reset(); printf("ef copy bad=%ld\n",chk(c,d,4,"efcopy")); }
    { auto p=std::make_unique<pgm::BucketingPGMIndex<uint32_t,4,64>>(d); auto c=*p; p.reset(); printf("bucket copy bad=%ld\n",chk(c,d,4,"bcopy")); }
  }
  if(sel==2){
    std::vector<uint32_t> d(5000); for(auto&x:d)x=r()%1000000; std::sort(d.begin(),d.end());
    { auto p=std::make_unique<pgm::CompressedPGMIndex<uint32_t,4,4>>(d); auto c=std::move(*p); p.reset(); printf("compressed move bad=%ld\n",chk(c,d,4,"compmove")); }
    { pgm::CompressedPGMIndex<uint32_t,4,4> c; { pgm::CompressedPGMIndex<uint32_t,4,4> t(d); c=t; } printf("compressed copy-assign bad=%ld\n",chk(c,d,4,"compassign")); }
  }
}

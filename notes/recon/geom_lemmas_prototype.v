From Coq Require Import QArith Lqa ZArith Lia Psatz.
Open Scope Q_scope.
Lemma affine_le_left (a b x0 x1 x : Q) : x0 < x1 -> a*x0+b <= 0 -> a*x1+b >= 0 -> x <= x0 -> a*x+b <= 0.
Proof. intros H0 H1 H2 H3.
  destruct (Qlt_le_dec a 0) as [Ha|Ha].
  - exfalso. assert (a*(x1-x0) < 0) by nra. lra.
  - assert (a*(x0-x) >= 0) by nra. lra.
Qed.
Lemma affine_ge_mid (a b x0 x1 x : Q) : x0 <= x <= x1 -> a*x0+b >= 0 -> a*x1+b >= 0 -> a*x+b >= 0.
Proof. intros [H0 H0'] H1 H2.
  destruct (Qlt_le_dec a 0) as [Ha|Ha].
  - assert (a*(x1-x) <= 0) by nra. lra.
  - assert (a*(x-x0) >= 0) by nra. lra.
Qed.
Open Scope Z_scope.
Definition cross (ox oy ax ay bx by_ : Z) := (ax-ox)*(by_-oy) - (ay-oy)*(bx-ox).
Lemma tangent_unimodal ax ay bx by_ cx cy px py :
  ax < bx -> bx < cx -> cx < px ->
  cross ax ay bx by_ cx cy < 0 ->
  cross ax ay px py bx by_ <= 0 ->
  cross ax ay px py cx cy <= 0.
Proof. unfold cross. intros.
  (* scale: (bx-ax) * cross(A,P,C) = (cx-ax)*cross(A,P,B) + (px-ax)*cross(A,B,C)  -- a Plücker-like identity *)
  assert (E: (bx-ax) * ((px-ax)*(cy-ay) - (py-ay)*(cx-ax)) = (cx-ax)*((px-ax)*(by_-ay) - (py-ay)*(bx-ax)) + (px-ax)*((bx-ax)*(cy-ay) - (by_-ay)*(cx-ax))) by ring.
  nia.
Qed.

import random, bisect, sys, os
os.environ['FIX']='1'
import idx
from idx import *
from pla import feasible_exists
rng=random.Random(5)
viol=[]; cases=0; tight=0; nonfinal=0
for it in range(400):
    n=rng.choice([1,2,3,5,8,13,30,60,120,200]); eps=rng.choice([0,1,1,2,3,5]); par=rng.choice([1,1,2,3,5]); thr=rng.choice([40,64,1<<15])
    d=gen(rng,n,it%5)
    segs=[]; fed=[]
    # instrument chunk ids: wrap inf to detect chunk via make_segmentation calls
    chunks=[]
    orig=idx.make_segmentation
    def ms(n_,start,end,e,inf,out,fed_):
        chunks.append((len(fed_),start,end)); return orig(n_,start,end,e,inf,out,fed_)
    idx.make_segmentation=ms
    try:
        cnt=idx.make_segmentation_par(n,eps,lambda i:d[i],lambda cs:segs.append(cs),fed,par,thr)
    finally: idx.make_segmentation=orig
    cases+=1
    c=len(chunks)
    assert cnt==len(segs)
    # partition fed by segment first
    firsts=[s['first'] for s in segs]
    assert firsts==sorted(set(firsts)), "increasing first keys"
    xs=[p[0] for p in fed]; assert xs==sorted(set(xs))
    bounds=[xs.index(f) for f in firsts]+[len(fed)]
    chunk_starts=set(ch[0] for ch in chunks)
    for i in range(len(segs)):
        blk=fed[bounds[i]:bounds[i+1]]
        assert feasible_exists(blk,eps) or len(blk)>14 , "block infeasible?"
        if bounds[i+1]<len(fed) and bounds[i+1] not in chunk_starts:
            nonfinal+=1
            nxt=fed[bounds[i+1]]
            if len(blk)<=12 and feasible_exists(blk+[nxt],eps): viol.append(('not maximal',d,eps,i))
            if not (nxt[1]-blk[0][1] > 2*eps): viol.append(('starts_apart',d,eps,i,blk[0],nxt))
            if nxt[1]-blk[0][1]==2*eps+1: tight+=1
    # count bounds: emitted <= floor(n/(2eps+1)) + c   (closing segment included in emitted when last chunk present)
    if cnt > n//(2*eps+1) + c: viol.append(('count',n,eps,c,cnt))
print(cases,'nonfinal segments',nonfinal,'tight',tight,'violations',len(viol)); print(viol[:5])

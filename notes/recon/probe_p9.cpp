#include "pgm/pgm_index.hpp"
#include <cstdio>
int main(){ size_t n=1<<15; std::vector<uint32_t> d(n); for(size_t i=0;i<n;i++) d[i]= i< n-2100? 5*i : 5*(n-2100);
  pgm::PGMIndex<uint32_t,1,1> ix(d); for(uint32_t q: {d.back()+1, d.back()+2, d.back()+1000, 4000000000u}){ auto a=ix.search(q); printf("q=%u lo=%zu hi=%zu n=%zu\n",q,a.lo,a.hi,n);} }

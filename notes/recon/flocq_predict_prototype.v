From Coq Require Import ZArith List.
From Flocq Require Import Core.Core IEEE754.BinarySingleNaN.
Open Scope Z_scope.
Definition f32 := binary_float 24 128.
Definition f64 := binary_float 53 1024.
Definition f80 := binary_float 64 16384.
Lemma p24: Prec_gt_0 24. Proof. reflexivity. Qed.
Lemma p53: Prec_gt_0 53. Proof. reflexivity. Qed.
Lemma p64: Prec_gt_0 64. Proof. reflexivity. Qed.
Lemma e24: Prec_lt_emax 24 128. Proof. reflexivity. Qed.
Lemma e53: Prec_lt_emax 53 1024. Proof. reflexivity. Qed.
Lemma e64: Prec_lt_emax 64 16384. Proof. reflexivity. Qed.
Definition ofZ80 (z:Z) : f80 := binary_normalize 64 16384 p64 e64 mode_NE z 0 false.
Definition div80 := Bdiv (prec:=64) (emax:=16384) (prec_gt_0_:=p64) (prec_lt_emax_:=e64) mode_NE.
Definition conv {p e} (x: binary_float p e) p2 e2 (H1:Prec_gt_0 p2) (H2: Prec_lt_emax p2 e2) : binary_float p2 e2 :=
  match x with
  | B754_finite s m ex _ => binary_normalize p2 e2 H1 H2 mode_NE (cond_Zopp s (Zpos m)) ex s
  | B754_zero s => B754_zero s
  | B754_infinity s => B754_infinity s
  | B754_nan => B754_nan
  end.
Definition mul64 := Bmult (prec:=53) (emax:=1024) (prec_gt_0_:=p53) (prec_lt_emax_:=e53) mode_NE.
Definition ofZ64 (z:Z) : f64 := binary_normalize 53 1024 p53 e53 mode_NE z 0 false.
Definition truncZ (x:f64) : Z := match x with B754_finite s m e _ => cond_Zopp s (match e with Zneg p => Z.shiftr (Zpos m) (Zpos p) | _ => Z.shiftl (Zpos m) e end) | _ => 0 end.
Definition predict (dy dx dk: Z) : Z :=
  let s80 := div80 (ofZ80 dy) (ofZ80 dx) in
  let s32 := conv s80 24 128 p24 e24 in
  let s64 := conv s32 53 1024 p53 e53 in
  truncZ (mul64 s64 (ofZ64 dk)).
Time Eval vm_compute in predict 1000 123456789 987654321.
Time Eval vm_compute in fold_left (fun a i => a + predict (1000+i) 123456789 (987654321+i)) (map Z.of_nat (seq 0 2000)) 0.
Require Import Extraction ExtrOcamlBasic.
Extraction "f.ml" predict.

#include "pgm/pgm_index.hpp"
#include "pgm/pgm_index_dynamic.hpp"
#include <random>
#include <map>
#include <cstdio>
using K=uint32_t; using V=uint32_t;
template<class PGM> long run(int base,int bl,int il,uint64_t seed,int nops,int keyrange,int bulk){
  std::mt19937_64 r(seed); long bad=0;
  std::vector<std::pair<K,V>> b;
  for(int i=0;i<bulk;i++) b.push_back({K(r()%keyrange),V(r()%1000)});
  std::sort(b.begin(),b.end(),[](auto&a,auto&c){return a.first<c.first;});
  std::map<K,V> m; for(auto&p:b) m.insert(p);
  pgm::DynamicPGMIndex<K,V,PGM> d(b.begin(),b.end(),base,bl,il);
  auto checkall=[&](int step){
    // find / lower_bound on all keys in range
    for(K k=0;k<(K)keyrange+2;k++){
      auto it=d.find(k); auto mi=m.find(k);
      bool ok = (it==d.end())==(mi==m.end()) && (mi==m.end()|| (it->first==k && it->second==mi->second));
      if(!ok){ if(bad<5)printf("BAD find k=%u step=%d base=%d\n",k,step,base); bad++; }
      auto lb=d.lower_bound(k); auto ml=m.lower_bound(k);
      ok = (lb==d.end())==(ml==m.end()) && (ml==m.end()|| (lb->first==ml->first && lb->second==ml->second));
      if(!ok){ if(bad<5)printf("BAD lb k=%u step=%d base=%d seed=%lu\n",k,step,base,seed); bad++; }
    }
    // iteration
    { auto it=d.begin(); auto mi=m.begin(); size_t c=0;
      while(it!=d.end() && mi!=m.end()){ if(it->first!=mi->first||it->second!=mi->second){ if(bad<5)printf("BAD iter at %zu step=%d\n",c,step); bad++; break;} ++it;++mi;++c; if(c>m.size()+5)break;}
      if((it==d.end())!=(mi==m.end())){ if(bad<5)printf("BAD iter len step=%d base=%d seed=%lu c=%zu msz=%zu\n",step,base,seed,c,m.size()); bad++; } }
    if(d.size()!=m.size()){ if(bad<5)printf("BAD size %zu vs %zu step=%d\n",d.size(),m.size(),step); bad++; }
    if(d.empty()!=m.empty()){ bad++; if(bad<5)printf("BAD empty\n"); }
    for(int t=0;t<5;t++){ K lo=r()%keyrange, hi=lo+r()%(keyrange/2+1); auto rr=d.range(lo,hi);
      std::vector<std::pair<K,V>> ex; for(auto mi=m.lower_bound(lo);mi!=m.end()&&mi->first<=hi;++mi) ex.push_back(*mi);
      if(rr!=ex){ if(bad<5)printf("BAD range [%u,%u] got %zu exp %zu step=%d\n",lo,hi,rr.size(),ex.size(),step); bad++; } }
    // iteration from lower_bound of each key
    for(K k=0;k<(K)keyrange;k+=3){ auto it=d.lower_bound(k); auto mi=m.lower_bound(k); int c=0;
      while(it!=d.end()&&mi!=m.end()&&c<6){ if(it->first!=mi->first){ if(bad<5)printf("BAD iter-from k=%u\n",k); bad++;break;} ++it;++mi;++c;}
      if(c<6 && (it==d.end())!=(mi==m.end())){ if(bad<5)printf("BAD iter-from-end k=%u step=%d\n",k,step); bad++; } }
  };
  checkall(-1);
  for(int s=0;s<nops;s++){
    K k=r()%keyrange; 
    if(r()%3==0){ d.erase(k); m.erase(k);} else { V v=r()%1000; d.insert_or_assign(k,v); m[k]=v; }
    if(s%7==0||s>nops-3) checkall(s);
  }
  return bad;
}
int main(){
  long tot=0;
  for(int base: {2,4,8}) for(int bl: {0,1,2}) for(int il: {0,1,2,3}) for(uint64_t seed=1;seed<=6;seed++){
    int kr = seed%2? 40: 300; int bulk = seed%3==0?0: (seed%3==1? 5: 100);
    long b=run<pgm::PGMIndex<K,2,1>>(base,bl,il,seed,300,kr,bulk);
    if(b) printf("cfg base=%d bl=%d il=%d seed=%lu bad=%ld\n",base,bl,il,seed,b);
    tot+=b;
  }
  printf("total bad %ld\n",tot);
}

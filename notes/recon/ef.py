import random, math
def get_params(universe, ones):
    lw=1
    if ones>0 and ones<=universe:
        ideal=math.log2(universe*math.log(2.0)/ones); lw=int(round(max(ideal,1.0)))
    buckets=universe>>lw
    if universe & ((1<<lw)-1): buckets+=1
    return lw, ones+buckets
def encode(S, wl=None):
    size=S[-1]+1; m=len(S)
    w,hsz=get_params(size,m)
    if wl is not None:
        w=wl; b=size>>w; b+= 1 if size&((1<<w)-1) else 0; hsz=m+b
    low=[]; high=[0]*hsz; last_high=0; highpos=0
    for p in S:
        ch=p>>w; highpos+=ch-last_high; last_high=ch; low.append(p&((1<<w)-1)); high[highpos]=1; highpos+=1
    return dict(size=size,wl=w,low=low,high=high)
class OOR(Exception): pass
def sel(high,bit,i):
    if i<1: raise OOR("select(0)")
    c=0
    for pos,b in enumerate(high):
        if b==bit:
            c+=1
            if c==i: return pos
    raise OOR("select beyond count")
def prev1(high,i):  # largest j<=i with high[j]==1
    while i>=0 and not high[i]: i-=1
    if i<0: raise OOR("prev")
    return i
def pred(ef,i,fix=False):
    wl=ef['wl']; low=ef['low']; high=ef['high']
    if (i >= ef['size']-1) if fix else (i>ef['size']):
        j=len(low); return j-1, low[j-1]+((sel(high,1,j)+1-j)<<wl)
    i+=1
    hv=i>>wl; sh=sel(high,0,hv+1); rank_hi=sh-hv
    if rank_hi==0: return 0, low[0]+(hv<<wl)
    rank_lo = 0 if hv==0 else sel(high,0,hv)-hv+1
    vl=i&((1<<wl)-1); count=rank_hi-rank_lo
    while count>0:
        step=count//2; mid=rank_lo+step
        if low[mid]<vl: rank_lo=mid+1; count-=step+1
        else: count=step
    rank_lo-=1
    sh-=rank_hi-rank_lo
    h = hv if high[sh] else prev1(high,sh)-rank_lo
    return rank_lo, low[rank_lo]+(h<<wl)
rng=random.Random(3)
for fix in (False,True):
    oor=0; wrong=0; tot=0; ex=None
    for t in range(3000):
        m=rng.choice([1,2,3,5,10,30]); span=rng.choice([1,2,5,50,1000,10**6])
        S=sorted(set([0]+[rng.randrange(0,span*m+1) for _ in range(m-1)]))
        wl=rng.choice([None,None,0,1,2,3,7])
        ef=encode(S,wl)
        for i in list(range(0,min(ef['size']+3,400)))+[ef['size']-1,ef['size'],ef['size']+1,ef['size']+2,ef['size']+10**6]:
            if i<0: continue
            tot+=1
            import bisect
            r=bisect.bisect_right(S,i)-1
            try:
                got=pred(ef,i,fix)
                if got!=(r,S[r]): wrong+=1; ex=ex or ('wrong',S,ef['wl'],i,got,(r,S[r]))
            except OOR as e:
                oor+=1; ex=ex or ('oor',S,ef['wl'],i,str(e))
    print('fix' if fix else 'orig','total',tot,'out-of-range select',oor,'wrong',wrong,ex)

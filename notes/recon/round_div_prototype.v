From Coq Require Import ZArith Lia Bool.
Open Scope Z_scope.
Ltac Zify.zify_post_hook ::= Z.quot_rem_to_equations.
(* rounding of the intercept in get_floating_point_segment, integer keys: d = slope.dx > 0 *)
Definition round_div (n d : Z) : Z :=
  let sgn := if xorb (n <? 0) (d <? 0) then -1 else 1 in
  let rt := Z.quot (sgn * d) 2 in
  Z.quot (n + rt) d.
Lemma round_div_half n d : 0 < d -> 2 * Z.abs (d * round_div n d - n) <= d.
Proof.
  intros Hd. unfold round_div.
  destruct (n <? 0) eqn:Hn; destruct (d <? 0) eqn:Hd'; try lia; cbn [xorb].
  - (* n<0 *) nia.
  - nia.
Qed.
Print Assumptions round_div_half.

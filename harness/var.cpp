// var.cpp — correspondence harness for BucketingPGMIndex (BKT cases) and EliasFanoPGMIndex (EFI cases).
#include "common.hpp"
#include "pgm/pgm_index_variants.hpp"
#include <algorithm>

template<typename K>
static std::vector<K> parse_keys(const std::vector<std::string> &toks) {
    std::vector<K> v; v.reserve(toks.size());
    for (auto &t : toks) v.push_back((K) parse_i128(t));
    return v;
}

template<typename Index, typename K>
static void run_bkt(const std::vector<std::vector<std::string>> &sec, std::ostream &out) {
    auto data = parse_keys<K>(sec.size() > 1 ? sec[1] : std::vector<std::string>());
    auto queries = parse_keys<K>(sec.size() > 2 ? sec[2] : std::vector<std::string>());
    Index *idx = nullptr;
    try { idx = new Index(data.begin(), data.end()); }
    catch (const std::exception &e) { out << "B throw " << exn_kind(e) << "\n"; return; }
    out << "B ok\n";
    out << "N " << idx->n << " " << zs(idx->first_key) << " " << zs(idx->last_key) << " " << zs(idx->step) << "\n";
    out << "P";
    for (size_t i = 0; i < idx->top_level.size(); ++i) out << " " << (uint64_t) idx->top_level[i];
    out << "\n";
    for (auto &s : idx->segments) out << "S " << zs(s.key) << " " << frepr((double) s.slope) << " " << s.intercept << "\n";
    for (auto q : queries) {
        auto r = idx->search(q);
        out << "Q " << zs(q) << " " << r.pos << " " << r.lo << " " << r.hi << "\n";
    }
    delete idx;
}

template<typename Index, typename K>
static void run_efi(const std::vector<std::vector<std::string>> &sec, std::ostream &out) {
    auto data = parse_keys<K>(sec.size() > 1 ? sec[1] : std::vector<std::string>());
    auto queries = parse_keys<K>(sec.size() > 2 ? sec[2] : std::vector<std::string>());
    Index *idx = nullptr;
    try { idx = new Index(data.begin(), data.end()); }
    catch (const std::exception &e) { out << "B throw " << exn_kind(e) << "\n"; return; }
    out << "B ok\n";
    out << "N " << idx->n << " " << zs(idx->first_key) << "\n";
    out << "W " << int(idx->ef.wl) << " " << idx->ef.size() << "\n";
    out << "L";
    for (size_t i = 0; i < idx->ef.low.size(); ++i) out << " " << (uint64_t) idx->ef.low[i];
    out << "\nH ";
    for (size_t i = 0; i < idx->ef.high.size(); ++i) out << (idx->ef.high[i] ? '1' : '0');
    out << "\n";
    for (auto &s : idx->segments) out << "S " << frepr((double) s.slope) << " " << s.intercept << "\n";
    out.flush();
    for (auto q : queries) {
        auto k = std::max(idx->first_key, q);
        auto pr = idx->pred(k - idx->first_key);
        out << "PR " << zs(K(k - idx->first_key)) << " " << pr.first << " " << pr.second << "\n";
        auto r = idx->search(q);
        out << "Q " << zs(q) << " " << r.pos << " " << r.lo << " " << r.hi << "\n";
    }
    delete idx;
}

int main(int argc, char **argv) {
    if (argc < 3) { std::cerr << "usage: var <cases> <out>\n"; return 2; }
    std::ifstream in(argv[1]);
    std::ofstream out(argv[2]);
    std::string line;
    while (std::getline(in, line)) {
        auto sec = sections(line);
        if (sec.empty() || sec[0].empty()) continue;
        auto &h = sec[0];
        if (h[0] == "BKT") {
            out << "C " << h[1] << "\n";
#define BK(nm, K, kb, E, T, B, F, fd) if (h[2] == #nm) run_bkt<pgm::BucketingPGMIndex<K, E, T, B, F>, K>(sec, out);
#include "var_configs.inc"
#undef BK
        } else if (h[0] == "EFI") {
            out << "C " << h[1] << "\n";
#define EF(nm, K, kb, E, F, fd) if (h[2] == #nm) run_efi<pgm::EliasFanoPGMIndex<K, E, F>, K>(sec, out);
#include "var_configs.inc"
#undef EF
        }
        out.flush();
    }
    return 0;
}

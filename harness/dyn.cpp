// dyn.cpp — correspondence harness for DynamicPGMIndex (DYN cases).
// DYN id cfg kbits ksigned vkind base buffer_level index_level eps epsrec | k:v k:v ... | ops ...
// ops: I:k:v E:k F:k C:k L:k R:lo:hi T:k B S M ; after every update the private state is dumped.
#include "common.hpp"
#include "pgm/pgm_index_dynamic.hpp"
#include <map>

template<typename V> struct ValCodec;
template<> struct ValCodec<uint32_t> {
    static uint32_t enc(uint64_t v) { return (uint32_t) v; }
    static std::string dec(const uint32_t &v) { return std::to_string(v); }
};
static uint32_t g_pool[1 << 16];
template<> struct ValCodec<uint32_t *> {
    static uint32_t *enc(uint64_t v) { return &g_pool[v & 0xffff]; }
    static std::string dec(uint32_t *const &v) { return std::to_string(v - g_pool); }
};
template<> struct ValCodec<std::string> {
    static std::string enc(uint64_t v) { return std::to_string(v); }
    static std::string dec(const std::string &v) { return v; }
};

template<typename Dyn, typename V>
static void dump(const Dyn &d, std::ostream &out) {
    out << "U " << int(d.used_levels) << " " << int(d.min_level) << " " << int(d.min_index_level) << " " << d.buffer_max_size
        << " " << d.levels.size() << " " << d.pgms.size() << "\n";
    for (size_t j = 0; j < d.levels.size(); ++j) {
        auto &l = d.levels[j];
        if (l.empty()) continue;
        out << "V " << (j + d.min_level);
        for (auto &it : l) {
            out << " " << zs(it.first) << ":";
            if (it.deleted()) out << "x"; else out << ValCodec<V>::dec(it.second);
        }
        out << "\n";
    }
    for (size_t j = 0; j < d.pgms.size(); ++j) {
        auto &p = d.pgms[j];
        out << "G " << (j + d.min_index_level) << " " << p.n << " " << p.segments.size() << " " << p.levels_offsets.size();
        for (auto &s : p.segments) out << " " << zs(s.key) << "," << s.intercept;
        out << "\n";
    }
}

template<typename K, typename V, typename PGM>
static void run_dyn(const std::vector<std::vector<std::string>> &sec, std::ostream &out) {
    using Dyn = pgm::DynamicPGMIndex<K, V, PGM>;
    auto &h = sec[0];
    int base = std::stoi(h[6]), bl = std::stoi(h[7]), il = std::stoi(h[8]);
    std::vector<std::pair<K, V>> bulk;
    bool has_bulk = sec.size() > 1 && !(sec[1].size() == 1 && sec[1][0] == "-");
    if (sec.size() > 1 && has_bulk)
        for (auto &t : sec[1]) {
            auto p = t.find(':');
            bulk.emplace_back((K) parse_i128(t.substr(0, p)), ValCodec<V>::enc(std::stoull(t.substr(p + 1))));
        }
    Dyn *d = nullptr;
    try {
        if (has_bulk || (sec.size() > 1 && sec[1].empty())) d = new Dyn(bulk.begin(), bulk.end(), (uint8_t) base, (uint8_t) bl, (uint8_t) il);
        else d = new Dyn((uint8_t) base, (uint8_t) bl, (uint8_t) il);
    } catch (const std::exception &e) {
        out << "B throw " << exn_kind(e) << "\n";
        return;
    }
    out << "B ok\n";
    dump<Dyn, V>(*d, out);
    auto show = [&](const typename Dyn::iterator &it) {
        if (it == d->end()) return std::string("end");
        return zs(it->first) + ":" + ValCodec<V>::dec(it->second);
    };
    if (sec.size() > 2)
        for (auto &op : sec[2]) {
            auto f = split(op, ':');
            try {
                if (f[0] == "I") {
                    // the reserved mapped value is passed through unencoded for arithmetic V
                    K k = (K) parse_i128(f[1]);
                    if constexpr (std::is_same_v<V, uint32_t>) d->insert_or_assign(k, (uint32_t) std::stoull(f[2]));
                    else d->insert_or_assign(k, ValCodec<V>::enc(std::stoull(f[2])));
                    out << "i ok\n"; dump<Dyn, V>(*d, out);
                } else if (f[0] == "E") {
                    d->erase((K) parse_i128(f[1]));
                    out << "e ok\n"; dump<Dyn, V>(*d, out);
                } else if (f[0] == "F") {
                    out << "f " << f[1] << " " << show(d->find((K) parse_i128(f[1]))) << "\n";
                } else if (f[0] == "C") {
                    out << "c " << f[1] << " " << d->count((K) parse_i128(f[1])) << "\n";
                } else if (f[0] == "L") {
                    out << "l " << f[1] << " " << show(d->lower_bound((K) parse_i128(f[1]))) << "\n";
                } else if (f[0] == "R") {
                    auto r = d->range((K) parse_i128(f[1]), (K) parse_i128(f[2]));
                    out << "r " << f[1] << " " << f[2];
                    for (auto &p : r) out << " " << zs(p.first) << ":" << ValCodec<V>::dec(p.second);
                    out << "\n";
                } else if (f[0] == "T" || f[0] == "B") {
                    auto it = f[0] == "B" ? d->begin() : d->lower_bound((K) parse_i128(f[1]));
                    out << (f[0] == "B" ? "b" : "t " + f[1]);
                    size_t guard = 0;
                    for (; it != d->end() && guard < 1000000; ++it, ++guard) out << " " << zs(it->first) << ":" << ValCodec<V>::dec(it->second);
                    if (guard >= 1000000) out << " NONTERMINATING";
                    out << "\n";
                } else if (f[0] == "S") {
                    out << "s " << d->size() << "\n";
                } else if (f[0] == "M") {
                    out << "m " << (d->empty() ? 1 : 0) << "\n";
                }
            } catch (const std::exception &e) {
                out << "x " << op << " throw " << exn_kind(e) << "\n";
                dump<Dyn, V>(*d, out);
            }
        }
    delete d;
}

int main(int argc, char **argv) {
    if (argc < 3) { std::cerr << "usage: dyn <cases> <out>\n"; return 2; }
    std::ifstream in(argv[1]);
    std::ofstream out(argv[2]);
    std::string line;
    while (std::getline(in, line)) {
        auto sec = sections(line);
        if (sec.empty() || sec[0].empty() || sec[0][0] != "DYN") continue;
        const std::string &cfg = sec[0][2];
        out << "C " << sec[0][1] << "\n";
#define D(name, K, V, E, ER) if (cfg == #name) run_dyn<K, V, pgm::PGMIndex<K, E, ER, float>>(sec, out);
#include "dyn_configs.inc"
#undef D
        out.flush();
    }
    return 0;
}

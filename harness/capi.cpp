// capi.cpp — correspondence harness for the C interface (c-interface/cpgm.{h,cpp}); only extern "C" entry points are used.
// CIX id type eps | keys | queries            type in int32 int64 uint32 uint64
// CDY id type | k:v ... or - | ops            ops: I:k:v E:k F:k T:k (lower_bound + iterator_next*) B (begin + iterator_next*) S
#include "common.hpp"
#include "cpgm.h"

#define RUN_FOR(type)                                                                                              \
static void cix_##type(const std::vector<std::vector<std::string>> &sec, std::ostream &out) {                       \
    std::vector<type##_t> data, queries;                                                                            \
    if (sec.size() > 1) for (auto &t : sec[1]) data.push_back((type##_t) parse_i128(t));                            \
    if (sec.size() > 2) for (auto &t : sec[2]) queries.push_back((type##_t) parse_i128(t));                         \
    size_t eps = std::stoull(sec[0][3]);                                                                            \
    auto *p = pgm_index_##type##_create(data.data(), data.size(), eps);                                             \
    if (!p) { out << "B null\n"; return; }                                                                          \
    out << "B ok\n";                                                                                                \
    for (auto q : queries) {                                                                                        \
        approx_pos_t r = pgm_index_##type##_search(p, q);                                                           \
        out << "Q " << zs(q) << " " << r.pos << " " << r.lo << " " << r.hi << "\n";                                 \
    }                                                                                                               \
    pgm_index_##type##_destroy(p);                                                                                  \
}                                                                                                                   \
static void cdy_##type(const std::vector<std::vector<std::string>> &sec, std::ostream &out) {                       \
    dynamic_pgm_index_##type##_t *d;                                                                                \
    bool use_bulk = !(sec.size() > 1 && sec[1].size() == 1 && sec[1][0] == "-");                                    \
    if (use_bulk) {                                                                                                 \
        std::vector<pair_##type##_t> bulk;                                                                          \
        if (sec.size() > 1) for (auto &t : sec[1]) { auto c = t.find(':');                                          \
            bulk.push_back({(type##_t) parse_i128(t.substr(0, c)), (type##_t) parse_i128(t.substr(c + 1))}); }      \
        d = dynamic_pgm_index_##type##_create(bulk.data(), bulk.size());                                            \
    } else d = dynamic_pgm_index_##type##_create_empty();                                                           \
    if (!d) { out << "B null\n"; return; }                                                                          \
    out << "B ok\n";                                                                                                \
    if (sec.size() > 2) for (auto &op : sec[2]) {                                                                   \
        auto f = split(op, ':');                                                                                    \
        if (f[0] == "I") { dynamic_pgm_index_##type##_insert_or_assign(d, (type##_t) parse_i128(f[1]), (type##_t) parse_i128(f[2])); out << "i ok\n"; } \
        else if (f[0] == "E") { dynamic_pgm_index_##type##_erase(d, (type##_t) parse_i128(f[1])); out << "e ok\n"; } \
        else if (f[0] == "F") { type##_t v = 0; bool ok = dynamic_pgm_index_##type##_find(d, (type##_t) parse_i128(f[1]), &v); \
            out << "f " << f[1] << " " << (ok ? f[1] + ":" + zs(v) : std::string("end")) << "\n"; }                 \
        else if (f[0] == "T" || f[0] == "B") {                                                                      \
            auto it = f[0] == "B" ? dynamic_pgm_index_##type##_begin(d) : dynamic_pgm_index_##type##_lower_bound(d, (type##_t) parse_i128(f[1])); \
            out << (f[0] == "B" ? std::string("b") : "t " + f[1]);                                                  \
            type##_t k, v; size_t guard = 0;                                                                        \
            while (guard++ < 1000000 && dynamic_pgm_index_##type##_iterator_next(d, it, &k, &v)) out << " " << zs(k) << ":" << zs(v); \
            out << "\n";                                                                                            \
            dynamic_pgm_index_##type##_iterator_destroy(it);                                                        \
        } else if (f[0] == "S") { out << "s " << dynamic_pgm_index_##type##_size(d) << "\n"; }                       \
    }                                                                                                               \
    dynamic_pgm_index_##type##_destroy(d);                                                                          \
}
RUN_FOR(int32) RUN_FOR(int64) RUN_FOR(uint32) RUN_FOR(uint64)

int main(int argc, char **argv) {
    if (argc < 3) { std::cerr << "usage: capi <cases> <out>\n"; return 2; }
    std::ifstream in(argv[1]);
    std::ofstream out(argv[2]);
    std::string line;
    while (std::getline(in, line)) {
        auto sec = sections(line);
        if (sec.empty() || sec[0].empty()) continue;
        auto &h = sec[0];
        if (h[0] != "CIX" && h[0] != "CDY") continue;
        out << "C " << h[1] << "\n";
        bool ix = h[0] == "CIX";
        if (h[2] == "int32") { if (ix) cix_int32(sec, out); else cdy_int32(sec, out); }
        if (h[2] == "int64") { if (ix) cix_int64(sec, out); else cdy_int64(sec, out); }
        if (h[2] == "uint32") { if (ix) cix_uint32(sec, out); else cdy_uint32(sec, out); }
        if (h[2] == "uint64") { if (ix) cix_uint64(sec, out); else cdy_uint64(sec, out); }
        out.flush();
    }
    return 0;
}

// own.cpp — run-time side of C19: copies/moves of every index class answer like the original, also after the
// source has been destroyed or modified. Built with AddressSanitizer.   OWN id seed n
#include "common.hpp"
#include "pgm/pgm_index.hpp"
#include "pgm/pgm_index_variants.hpp"
#include "pgm/pgm_index_dynamic.hpp"
#include <memory>
#include <random>

template<typename Index, typename Q>
static uint64_t digest(const Index &idx, const std::vector<uint64_t> &qs, Q q) {
    uint64_t h = 0;
    for (auto x : qs) { h ^= q(idx, x) + 0x9e3779b97f4a7c15ull + (h << 6) + (h >> 2); }
    return h;
}

// every order of {copy-construct, copy-assign, move-construct, move-assign} x {destroy source, keep}
template<typename Index, typename Make, typename Q>
static bool exercise(Make make, const std::vector<uint64_t> &qs, Q q) {
    bool ok = true;
    uint64_t want;
    { auto src = make(); want = digest(*src, qs, q); }
    { auto src = make(); Index cp(*src); src.reset(); ok &= digest(cp, qs, q) == want; }                       // copy-construct, destroy source
    { auto src = make(); Index cp(*src); ok &= digest(cp, qs, q) == want && digest(*src, qs, q) == want; }      // copy-construct, keep
    { auto src = make(); auto other = make(); *other = *src; src.reset(); ok &= digest(*other, qs, q) == want; } // copy-assign, destroy source
    { auto src = make(); Index mv(std::move(*src)); src.reset(); ok &= digest(mv, qs, q) == want; }             // move-construct, destroy source
    { auto src = make(); auto other = make(); *other = std::move(*src); src.reset(); ok &= digest(*other, qs, q) == want; } // move-assign
    { auto src = make(); Index a(*src); Index b(a); Index c(std::move(b)); src.reset(); { Index tmp(std::move(a)); } ok &= digest(c, qs, q) == want; } // chains
    { auto src = make(); std::vector<Index> v; v.push_back(*src); v.push_back(*src); v.emplace_back(std::move(*src)); src.reset();
      v.erase(v.begin()); ok &= digest(v[0], qs, q) == want && digest(v[1], qs, q) == want; }                    // relocation inside a vector
    return ok;
}

int main(int argc, char **argv) {
    if (argc < 3) { std::cerr << "usage: own <cases> <out>\n"; return 2; }
    std::ifstream in(argv[1]);
    std::ofstream out(argv[2]);
    std::string line;
    while (std::getline(in, line)) {
        auto sec = sections(line);
        if (sec.empty() || sec[0].empty() || sec[0][0] != "OWN") continue;
        auto &h = sec[0];
        uint64_t seed = std::stoull(h[2]); size_t n = std::stoull(h[3]);
        out << "C " << h[1] << "\n";
        std::mt19937_64 rng(seed);
        std::vector<uint64_t> data(n);
        for (auto &x : data) x = rng() % (n * 8);
        std::sort(data.begin(), data.end());
        std::vector<uint64_t> qs;
        for (size_t i = 0; i < 300; ++i) qs.push_back(i % 3 ? data[rng() % n] : rng() % (n * 9));
        auto sq = [](const auto &idx, uint64_t x) { auto r = idx.search(x); return uint64_t(r.pos * 31 + r.lo * 7 + r.hi); };
        auto report = [&](const char *name, bool ok) { out << "D " << name << " " << (ok ? "ok" : "mismatch") << "\n"; out.flush(); };
        { using I = pgm::PGMIndex<uint64_t, 16, 4>; report("PGMIndex", exercise<I>([&] { return std::make_unique<I>(data); }, qs, sq)); }
        { using I = pgm::CompressedPGMIndex<uint64_t, 16, 4>; report("CompressedPGMIndex", exercise<I>([&] { return std::make_unique<I>(data); }, qs, sq)); }
        { using I = pgm::BucketingPGMIndex<uint64_t, 16, 64>; report("BucketingPGMIndex", exercise<I>([&] { return std::make_unique<I>(data); }, qs, sq)); }
        { using I = pgm::EliasFanoPGMIndex<uint64_t, 16>; report("EliasFanoPGMIndex", exercise<I>([&] { return std::make_unique<I>(data); }, qs, sq)); }
        {
            using I = pgm::MultidimensionalPGMIndex<2, uint64_t, 16>;
            std::vector<std::tuple<uint64_t, uint64_t>> pts;
            for (size_t i = 0; i < n; ++i) pts.emplace_back(rng() % 256, rng() % 256);
            auto mq = [](const I &idx, uint64_t x) {
                auto &m = const_cast<I &>(idx);
                uint64_t a = x % 256, b = (x / 3) % 256, hsh = m.contains({a, b});
                size_t guard = 0;
                for (auto it = m.range({a / 2, b / 2}, {a / 2 + 12, b / 2 + 12}); it != m.end() && guard < 100000; ++it, ++guard)
                    hsh = hsh * 131 + std::get<0>(*it) * 1000 + std::get<1>(*it);
                return hsh; };
            report("MultidimensionalPGMIndex", exercise<I>([&] { return std::make_unique<I>(pts.begin(), pts.end()); }, qs, mq));
        }
        {
            using I = pgm::DynamicPGMIndex<uint64_t, uint32_t, pgm::PGMIndex<uint64_t, 8>>;
            std::vector<std::pair<uint64_t, uint32_t>> pairs;
            for (size_t i = 0; i < n; ++i) pairs.emplace_back(data[i], uint32_t(i));
            auto dq = [](const I &idx, uint64_t x) {
                uint64_t hsh = idx.count(x);
                auto f = idx.find(x); if (f != idx.end()) hsh = hsh * 131 + f->second;
                auto lb = idx.lower_bound(x); size_t steps = 0;
                for (; lb != idx.end() && steps < 4; ++lb, ++steps) hsh = hsh * 131 + lb->first * 13 + lb->second;
                return hsh; };
            auto make = [&] { auto p = std::make_unique<I>(pairs.begin(), pairs.end(), 4, 1, 2);
                              std::mt19937_64 r2(seed + 1);
                              for (size_t i = 0; i < n / 2; ++i) { if (i % 3) p->insert_or_assign(r2() % (n * 8), uint32_t(i)); else p->erase(data[r2() % n]); }
                              return p; };
            bool ok = true;
            uint64_t want;
            { auto src = make(); want = digest(*src, qs, dq); }
            { auto src = make(); I cp(*src); src.reset(); ok &= digest(cp, qs, dq) == want; }
            { auto src = make(); I cp(*src); for (size_t i = 0; i < 200; ++i) src->insert_or_assign(i * 7, 1u); for (auto k : data) src->erase(k);  // modify the source
              ok &= digest(cp, qs, dq) == want; }
            { auto src = make(); I mv(std::move(*src)); src.reset(); ok &= digest(mv, qs, dq) == want; }
            report("DynamicPGMIndex", ok);
        }
    }
    return 0;
}

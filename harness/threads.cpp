// threads.cpp — run-time side of C16: N reader threads issue query sequences against one shared instance of
// every index class; per-thread digests are compared with a sequential run. Built with clang -fsanitize=thread.
// THR id nthreads seed n
#include "common.hpp"
#include <sys/mman.h>
#include <sys/stat.h>
#include <fcntl.h>
#include <unistd.h>
#include <climits>
#include "pgm/pgm_index.hpp"
#include "pgm/pgm_index_variants.hpp"
#include "pgm/pgm_index_dynamic.hpp"
#include <random>
#include <thread>
#include <functional>

static uint64_t mix(uint64_t h, uint64_t v) { h ^= v + 0x9e3779b97f4a7c15ull + (h << 6) + (h >> 2); return h; }

template<typename F>
static bool run_threads(int nthreads, const std::vector<uint64_t> &queries, F f, uint64_t &seq) {
    seq = 0;
    for (auto q : queries) seq = mix(seq, f(q));
    std::vector<uint64_t> dig(nthreads, 0);
    std::vector<std::thread> ts;
    for (int t = 0; t < nthreads; ++t)
        ts.emplace_back([&, t] { uint64_t h = 0; for (auto q : queries) h = mix(h, f(q)); dig[t] = h; });
    for (auto &t : ts) t.join();
    for (auto d : dig) if (d != seq) return false;
    return true;
}

int main(int argc, char **argv) {
    if (argc < 3) { std::cerr << "usage: threads <cases> <out>\n"; return 2; }
    std::ifstream in(argv[1]);
    std::ofstream out(argv[2]);
    std::string line;
    while (std::getline(in, line)) {
        auto sec = sections(line);
        if (sec.empty() || sec[0].empty() || sec[0][0] != "THR") continue;
        auto &h = sec[0];
        int nthreads = std::stoi(h[2]); uint64_t seed = std::stoull(h[3]); size_t n = std::stoull(h[4]);
        out << "C " << h[1] << "\n";
        std::mt19937_64 rng(seed);
        std::vector<uint64_t> data(n);
        for (auto &x : data) x = rng() % (n * 8);
        std::sort(data.begin(), data.end());
        std::vector<uint64_t> queries;
        for (size_t i = 0; i < 400; ++i) queries.push_back(i % 3 ? data[rng() % n] : rng() % (n * 9));
        uint64_t seq;
        auto report = [&](const char *name, bool ok) { out << "D " << name << " " << (ok ? "ok" : "mismatch") << "\n"; out.flush(); };
        {
            pgm::PGMIndex<uint64_t, 16, 4> idx(data);
            report("PGMIndex", run_threads(nthreads, queries, [&](uint64_t q) { auto r = idx.search(q); return r.pos * 31 + r.lo * 7 + r.hi; }, seq));
        }
        {
            pgm::PGMIndex<uint64_t, 16, 0> idx(data);      // one-level variant (binary search over the segments)
            report("OneLevelPGMIndex", run_threads(nthreads, queries, [&](uint64_t q) { auto r = idx.search(q); return r.pos * 31 + r.lo * 7 + r.hi; }, seq));
        }
        {
            pgm::PGMIndex<uint64_t, 4, 64> idx(data);      // binary-search routing
            report("PGMIndexBinaryRouting", run_threads(nthreads, queries, [&](uint64_t q) { auto r = idx.search(q); return r.pos * 31 + r.lo * 7 + r.hi; }, seq));
        }
        {
            pgm::CompressedPGMIndex<uint64_t, 16, 4> idx(data);
            report("CompressedPGMIndex", run_threads(nthreads, queries, [&](uint64_t q) { auto r = idx.search(q); return r.pos * 31 + r.lo * 7 + r.hi; }, seq));
        }
        {
            pgm::BucketingPGMIndex<uint64_t, 16, 64> idx(data);
            report("BucketingPGMIndex", run_threads(nthreads, queries, [&](uint64_t q) { auto r = idx.search(q); return r.pos * 31 + r.lo * 7 + r.hi; }, seq));
        }
        {
            pgm::EliasFanoPGMIndex<uint64_t, 16> idx(data);
            report("EliasFanoPGMIndex", run_threads(nthreads, queries, [&](uint64_t q) { auto r = idx.search(q); return r.pos * 31 + r.lo * 7 + r.hi; }, seq));
        }
        {
            std::string fn = "/tmp/verif-thr-" + std::to_string(getpid()) + ".bin";
            {
                pgm::MappedPGMIndex<uint64_t, 16, 4> idx(data.begin(), data.end(), fn);
                report("MappedPGMIndex", run_threads(nthreads, queries, [&](uint64_t q) {
                    return uint64_t(idx.lower_bound(q) - idx.begin()) * 31 + uint64_t(idx.upper_bound(q) - idx.begin()) * 7 + idx.count(q) * 3 + idx.contains(q); }, seq));
            }
            unlink(fn.c_str());
        }
        {
            std::vector<std::tuple<uint64_t, uint64_t>> pts;
            for (size_t i = 0; i < n; ++i) pts.emplace_back(rng() % 512, rng() % 512);
            pgm::MultidimensionalPGMIndex<2, uint64_t, 16> idx(pts.begin(), pts.end());
            report("MultidimensionalPGMIndex", run_threads(nthreads, queries, [&](uint64_t q) {
                uint64_t x = q % 512, y = (q / 7) % 512, hsh = idx.contains({x, y});
                size_t guard = 0;
                for (auto it = idx.range({x / 2, y / 2}, {x / 2 + 20, y / 2 + 20}); it != idx.end() && guard < 100000; ++it, ++guard)
                    hsh = mix(hsh, std::get<0>(*it) * 1000 + std::get<1>(*it));
                return hsh; }, seq));
        }
        {
            std::vector<std::pair<uint64_t, uint32_t>> pairs;
            for (size_t i = 0; i < n; ++i) pairs.emplace_back(data[i], uint32_t(i));
            pgm::DynamicPGMIndex<uint64_t, uint32_t, pgm::PGMIndex<uint64_t, 8>> idx(pairs.begin(), pairs.end(), 4, 1, 2);
            for (size_t i = 0; i < n / 2; ++i) { if (i % 3) idx.insert_or_assign(rng() % (n * 8), uint32_t(i)); else idx.erase(data[rng() % n]); }
            report("DynamicPGMIndex", run_threads(nthreads, queries, [&](uint64_t q) {
                uint64_t hsh = idx.count(q);
                auto f = idx.find(q); if (f != idx.end()) hsh = mix(hsh, f->second);
                auto lb = idx.lower_bound(q); size_t steps = 0;
                for (; lb != idx.end() && steps < 5; ++lb, ++steps) hsh = mix(hsh, lb->first * 13 + lb->second);
                for (auto &p : idx.range(q, q + 50)) hsh = mix(hsh, p.first + p.second);
                return hsh; }, seq));
        }
    }
    return 0;
}

// idx.cpp — correspondence harness for PGMIndex (IDX cases) and the segmentation drivers (SEG cases).
// Built from /repo's working tree with -DPGM_INDEX_VERIF -fno-access-control -DIDX_GROUP={0,1,2}.
#include "common.hpp"
#include "pgm/pgm_index.hpp"
#include <algorithm>
#include <map>
#include <mutex>
#include <omp.h>

static std::mutex g_mu;
static std::map<size_t, std::vector<std::pair<long double, size_t>>> g_fed;   // by chunk start
static void rec_add_point(size_t chunk_start, long double x, size_t y) {
    std::lock_guard<std::mutex> g(g_mu);
    g_fed[chunk_start].emplace_back(x, y);
}
struct RouteRec { int level; size_t wlo, first, last; };
static thread_local std::vector<RouteRec> g_route;
static void rec_route(int level, size_t wlo, size_t first, size_t last) { g_route.push_back({level, wlo, first, last}); }

template<typename K>
static std::vector<K> parse_keys(const std::vector<std::string> &toks) {
    std::vector<K> v; v.reserve(toks.size());
    for (auto &t : toks) v.push_back((K) parse_i128(t));
    return v;
}

template<typename Index, typename K>
static void run_idx(const std::vector<std::vector<std::string>> &sec, std::ostream &out) {
    auto data = parse_keys<K>(sec.size() > 1 ? sec[1] : std::vector<std::string>());
    auto queries = parse_keys<K>(sec.size() > 2 ? sec[2] : std::vector<std::string>());
    int par = std::stoi(sec[0][8]);
    omp_set_num_threads(par);
    pgm::internal::verif::on_add_point = nullptr;
    pgm::internal::verif::on_route = nullptr;
    Index *idx = nullptr;
    try {
        idx = new Index(data.begin(), data.end());
    } catch (const std::exception &e) {
        out << "B throw " << exn_kind(e) << "\n";
        return;
    }
    out << "B ok\n";
    out << "N " << idx->n << " " << zs(idx->first_key) << "\n";
    out << "O";
    for (auto o : idx->levels_offsets) out << " " << o;
    out << "\n";
    for (auto &s : idx->segments)
        out << "S " << zs(s.key) << " " << frepr((double) s.slope) << " " << s.intercept << "\n";
    pgm::internal::verif::on_route = rec_route;
    for (auto q : queries) {
        g_route.clear();
        auto r = idx->search(q);
        out << "Q " << zs(q) << " " << r.pos << " " << r.lo << " " << r.hi << "\n";
        for (auto &t : g_route)
            out << "T " << zs(q) << " " << t.level << " " << t.wlo << " " << t.first << " " << t.last << "\n";
    }
    pgm::internal::verif::on_route = nullptr;
    delete idx;
}

template<typename K>
static void run_seg(const std::vector<std::vector<std::string>> &sec, std::ostream &out) {
    using Model = pgm::internal::OptimalPiecewiseLinearModel<K, size_t>;
    using CS = typename Model::CanonicalSegment;
    auto data = parse_keys<K>(sec.size() > 1 ? sec[1] : std::vector<std::string>());
    size_t eps = std::stoull(sec[0][4]);
    int par = std::stoi(sec[0][5]);
    omp_set_num_threads(par);
    g_fed.clear();
    pgm::internal::verif::on_add_point = rec_add_point;
    std::vector<CS> segs;
    size_t c = 0;
    try {
        auto in = [&](auto i) { return data[i]; };
        auto outf = [&](auto cs) { segs.emplace_back(cs); };
        c = pgm::internal::make_segmentation_par(data.size(), eps, in, outf);
    } catch (const std::exception &e) {
        pgm::internal::verif::on_add_point = nullptr;
        out << "B throw " << exn_kind(e) << "\n";
        return;
    }
    pgm::internal::verif::on_add_point = nullptr;
    out << "B ok\n";
    out << "N " << c << "\n";
    for (auto &kv : g_fed)
        for (auto &p : kv.second)
            out << "F " << str_i128((i128) p.first) << " " << p.second << "\n";
    for (auto &cs : segs) {
        out << "R " << zs(cs.first);
        for (int j = 0; j < 4; ++j) out << " " << zs(cs.rectangle[j].x) << " " << zs(cs.rectangle[j].y);
        auto [slope, icpt] = cs.get_floating_point_segment(cs.get_first_x());
        out << " " << frepr((double) (float) slope) << " " << frepr((double) slope) << " " << str_i128((i128) icpt) << "\n";
    }
}

// FLT id cfg | keys (decimal doubles) | queries     floating-point KEY types: judged only (not modelled)
// every key / query is printed as its order-preserving integer image so that the extracted judges apply
template<typename F> static long long order_image(F v) {
    double d = (double) v; int64_t b; std::memcpy(&b, &d, 8);
    return b >= 0 ? b : (int64_t) (0x8000000000000000ull - (uint64_t) b);   // monotone in the value (no NaN)
}
template<typename Index, typename K>
static void run_flt(const std::vector<std::vector<std::string>> &sec, std::ostream &out) {
    std::vector<K> data, queries;
    if (sec.size() > 1) for (auto &t : sec[1]) data.push_back((K) std::stod(t));
    if (sec.size() > 2) for (auto &t : sec[2]) queries.push_back((K) std::stod(t));
    std::sort(data.begin(), data.end());
    omp_set_num_threads(1);
    Index *idx = nullptr;
    try { idx = new Index(data.begin(), data.end()); }
    catch (const std::exception &e) { out << "B throw " << exn_kind(e) << "\n"; return; }
    out << "B ok\nKI";
    for (auto k : data) out << " " << order_image(k);
    out << "\n";
    for (auto q : queries) {
        auto r = idx->search(q);
        out << "QF " << order_image(q) << " " << r.pos << " " << r.lo << " " << r.hi << "\n";
    }
    delete idx;
}

// PLA id kbits signed eps | x:y ...   direct use of OptimalPiecewiseLinearModel<K, int64_t> (signed rank type)
template<typename K>
static void run_pla(const std::vector<std::vector<std::string>> &sec, std::ostream &out) {
    using Model = pgm::internal::OptimalPiecewiseLinearModel<K, int64_t>;
    int64_t eps = (int64_t) parse_i128(sec[0][4]);
    Model *m = nullptr;
    try { m = new Model(eps); }
    catch (const std::exception &e) { out << "B throw " << exn_kind(e) << "\n"; return; }
    out << "B ok\n";
    if (sec.size() > 1) for (auto &t : sec[1]) {
        auto c = t.find(':');
        K x = (K) parse_i128(t.substr(0, c)); int64_t y = (int64_t) parse_i128(t.substr(c + 1));
        try {
            bool ok = m->add_point(x, y);
            out << "A " << zs(x) << " " << y << " " << (ok ? 1 : 0) << "\n";
            if (!ok) m->add_point(x, y);
        } catch (const std::exception &e) { out << "A " << zs(x) << " " << y << " throw " << exn_kind(e) << "\n"; break; }
    }
    delete m;
}

int main(int argc, char **argv) {
    if (argc >= 2 && std::string(argv[1]) == "--probe") {
        volatile double big = 1e30, neg = -5.0;
        std::cout << "conv_big " << (size_t) big << "\nconv_neg " << (size_t) neg << "\nprocs " << omp_get_num_procs() << "\n";
        return 0;
    }
    if (argc < 3) { std::cerr << "usage: idx <cases> <out>\n"; return 2; }
    std::ifstream in(argv[1]);
    std::ofstream out(argv[2]);
    std::string line;
    while (std::getline(in, line)) {
        auto sec = sections(line);
        if (sec.empty() || sec[0].empty()) continue;
        auto &h = sec[0];
        if (h[0] == "IDX") {
            const std::string &name = h[2];
            bool done = false;
#define X(nm, K, kb, sg, E, ER, F, fd) \
            if (!done && name == #nm) { out << "C " << h[1] << "\n"; run_idx<pgm::PGMIndex<K, E, ER, F>, K>(sec, out); done = true; }
#include "idx_configs.inc"
#undef X
        } else if (h[0] == "FLT") {
#if IDX_GROUP == 0
            const std::string &name = h[2];
            out << "C " << h[1] << "\n";
            if (name == "f32_e16_r4") run_flt<pgm::PGMIndex<float, 16, 4, float>, float>(sec, out);
            if (name == "f64_e16_r4") run_flt<pgm::PGMIndex<double, 16, 4, float>, double>(sec, out);
            if (name == "f64_e4_r0_d") run_flt<pgm::PGMIndex<double, 4, 0, double>, double>(sec, out);
            if (name == "f32_e2_r1") run_flt<pgm::PGMIndex<float, 2, 1, float>, float>(sec, out);
#endif
        } else if (h[0] == "PLA") {
            int kb = std::stoi(h[2]); bool sg = h[3] == "1";
#if IDX_GROUP == 1
            if (kb == 32 && !sg) { out << "C " << h[1] << "\n"; run_pla<uint32_t>(sec, out); }
            if (kb == 32 && sg) { out << "C " << h[1] << "\n"; run_pla<int32_t>(sec, out); }
#elif IDX_GROUP == 2
            if (kb == 64 && !sg) { out << "C " << h[1] << "\n"; run_pla<uint64_t>(sec, out); }
            if (kb == 64 && sg) { out << "C " << h[1] << "\n"; run_pla<int64_t>(sec, out); }
#endif
        } else if (h[0] == "SEG") {
            int kb = std::stoi(h[2]); bool sg = h[3] == "1";
#if IDX_GROUP == 0
            if (kb == 8 && !sg) { out << "C " << h[1] << "\n"; run_seg<uint8_t>(sec, out); }
            if (kb == 8 && sg) { out << "C " << h[1] << "\n"; run_seg<int8_t>(sec, out); }
            if (kb == 16 && !sg) { out << "C " << h[1] << "\n"; run_seg<uint16_t>(sec, out); }
            if (kb == 16 && sg) { out << "C " << h[1] << "\n"; run_seg<int16_t>(sec, out); }
#elif IDX_GROUP == 1
            if (kb == 32 && !sg) { out << "C " << h[1] << "\n"; run_seg<uint32_t>(sec, out); }
            if (kb == 32 && sg) { out << "C " << h[1] << "\n"; run_seg<int32_t>(sec, out); }
#elif IDX_GROUP == 2
            if (kb == 64 && !sg) { out << "C " << h[1] << "\n"; run_seg<uint64_t>(sec, out); }
            if (kb == 64 && sg) { out << "C " << h[1] << "\n"; run_seg<int64_t>(sec, out); }
#endif
        }
    }
    return 0;
}

// map.cpp — correspondence harness for MappedPGMIndex (MAP cases): the three constructors, file bytes, queries.
#include <deque>
#include "common.hpp"
#include <sys/mman.h>
#include <sys/stat.h>
#include <fcntl.h>
#include <unistd.h>
#include <climits>
#include "pgm/pgm_index_variants.hpp"
#include <algorithm>

static std::string g_dir;

static std::string file_hex(const std::string &fn) {
    std::ifstream f(fn, std::ios::binary);
    std::string s((std::istreambuf_iterator<char>(f)), std::istreambuf_iterator<char>());
    static const char *d = "0123456789abcdef";
    std::string out; out.reserve(s.size() * 2);
    for (unsigned char ch : s) { out.push_back(d[ch >> 4]); out.push_back(d[ch & 15]); }
    return out;
}

template<typename Index, typename K>
static void queries_on(const Index &idx, const std::vector<K> &queries, const std::vector<K> &data, const char *tag, std::ostream &out) {
    out << "S" << tag << " " << idx.size() << " " << (std::equal(idx.begin(), idx.end(), data.begin(), data.end()) ? 1 : 0) << "\n";
    for (auto q : queries) {
        auto lb = idx.lower_bound(q) - idx.begin();
        auto ub = idx.upper_bound(q) - idx.begin();
        out << "Q" << tag << " " << zs(q) << " " << lb << " " << ub << " " << idx.count(q) << " " << (idx.contains(q) ? 1 : 0) << "\n";
    }
}

template<typename Index, typename K>
static void run_map(const std::vector<std::vector<std::string>> &sec, std::ostream &out) {
    std::vector<K> data, queries;
    if (sec.size() > 1) for (auto &t : sec[1]) data.push_back((K) parse_i128(t));
    if (sec.size() > 2) for (auto &t : sec[2]) queries.push_back((K) parse_i128(t));
    std::string fa = g_dir + "/a.bin", fb = g_dir + "/b.bin", fr = g_dir + "/raw.bin";
    {   // the output files may already exist with older, longer contents: what is written must still be the image alone
        static size_t ncase = 0; ++ncase;
        auto stale = [&](const std::string &f) {
            std::ofstream o(f, std::ios::binary);
            std::string junk(data.size() * sizeof(K) + 8192 + 37 * (ncase % 5), char(0xAB));
            o.write(junk.data(), junk.size());
        };
        if (ncase % 3 != 1) stale(fa);
        if (ncase % 3 != 2) stale(fb);
    }
    try {
        // every other case builds from a NON-contiguous random-access range (std::deque): the range constructor must read
        // the keys through the iterators, not assume one block of memory
        static size_t nrange = 0; ++nrange;
        std::deque<K> dq(data.begin(), data.end());
        Index a = (nrange % 2) ? Index(dq.begin(), dq.end(), fa) : Index(data.begin(), data.end(), fa);
        out << "BA ok\nFA " << file_hex(fa) << "\n";
        queries_on<Index, K>(a, queries, data, "A", out);
    } catch (const std::exception &e) { out << "BA throw " << exn_kind(e) << "\n"; unlink(fa.c_str()); }
    {
        std::ofstream r(fr, std::ios::binary);
        r.write((const char *) data.data(), data.size() * sizeof(K));
    }
    try {
        Index b(fr, fb);
        out << "BB ok\nFB " << file_hex(fb) << "\n";
        queries_on<Index, K>(b, queries, data, "B", out);
    } catch (const std::exception &e) { out << "BB throw " << exn_kind(e) << "\n"; unlink(fb.c_str()); }
    struct stat st;
    if (stat(fa.c_str(), &st) == 0 && st.st_size > 0) {
        auto before = file_hex(fa);
        try {
            Index c(fa);
            out << "BC ok\n";
            queries_on<Index, K>(c, queries, data, "C", out);
            { Index c2(fa); queries_on<Index, K>(c2, queries, data, "E", out); }
        } catch (const std::exception &e) { out << "BC throw " << exn_kind(e) << "\n"; }
        out << "UA " << (before == file_hex(fa) ? 1 : 0) << "\n";
    }
    if (stat(fb.c_str(), &st) == 0 && st.st_size > 0) {
        try {
            Index d(fb);
            out << "BD ok\n";
            queries_on<Index, K>(d, queries, data, "D", out);
        } catch (const std::exception &e) { out << "BD throw " << exn_kind(e) << "\n"; }
    }
    unlink(fa.c_str()); unlink(fb.c_str()); unlink(fr.c_str());
}

int main(int argc, char **argv) {
    if (argc < 3) { std::cerr << "usage: map <cases> <out>\n"; return 2; }
    char tmpl[] = "/tmp/verif-map-XXXXXX";
    g_dir = mkdtemp(tmpl);
    std::ifstream in(argv[1]);
    std::ofstream out(argv[2]);
    std::string line;
    while (std::getline(in, line)) {
        auto sec = sections(line);
        if (sec.empty() || sec[0].empty() || sec[0][0] != "MAP") continue;
        auto &h = sec[0];
        out << "C " << h[1] << "\n";
#define M(nm, K, kb, sg, E, ER, F, fd) if (h[2] == #nm) run_map<pgm::MappedPGMIndex<K, E, ER, F>, K>(sec, out);
#include "map_configs.inc"
#undef M
        out.flush();
    }
    rmdir(g_dir.c_str());
    return 0;
}

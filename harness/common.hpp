// common.hpp — shared by all correspondence harnesses. Compiled against /repo's working tree.
#pragma once
#include <cmath>
#include <cstdint>
#include <cstdio>
#include <cstdlib>
#include <cstring>
#include <fstream>
#include <iostream>
#include <limits>
#include <sstream>
#include <stdexcept>
#include <string>
#include <vector>

using i128 = __int128;

static inline i128 parse_i128(const std::string &s) {
    size_t i = 0; bool neg = false;
    if (i < s.size() && s[i] == '-') { neg = true; ++i; }
    i128 v = 0;
    for (; i < s.size(); ++i) v = v * 10 + (s[i] - '0');
    return neg ? -v : v;
}

static inline std::string str_i128(i128 v) {
    if (v == 0) return "0";
    bool neg = v < 0;
    unsigned __int128 u = neg ? -(unsigned __int128) v : (unsigned __int128) v;
    std::string s;
    while (u) { s.push_back('0' + int(u % 10)); u /= 10; }
    if (neg) s.push_back('-');
    return std::string(s.rbegin(), s.rend());
}

template<typename T> static inline std::string zs(T v) { return str_i128((i128) v); }

// canonical (odd mantissa, exponent) form of a finite float/double; matches Fp.frepr
static inline std::string frepr(double s) {
    if (std::isnan(s)) return "0 99999";
    if (std::isinf(s)) return s > 0 ? "1 99999" : "-1 99999";
    if (s == 0) return "0 0";
    int e; double m = std::frexp(s, &e);
    long long mi = (long long) std::ldexp(m, 53); e -= 53;
    while (mi % 2 == 0) { mi /= 2; ++e; }
    return std::to_string(mi) + " " + std::to_string(e);
}

static inline std::vector<std::string> split(const std::string &s, char sep = ' ') {
    std::vector<std::string> out; std::string cur;
    for (char ch : s) {
        if (ch == sep) { if (!cur.empty()) out.push_back(cur); cur.clear(); }
        else cur.push_back(ch);
    }
    if (!cur.empty()) out.push_back(cur);
    return out;
}

// "a b c | d e | f" -> sections of tokens
static inline std::vector<std::vector<std::string>> sections(const std::string &line) {
    std::vector<std::vector<std::string>> out(1);
    for (auto &t : split(line)) {
        if (t == "|") out.emplace_back();
        else out.back().push_back(t);
    }
    return out;
}

static inline const char *exn_kind(const std::exception &e) {
    if (dynamic_cast<const std::invalid_argument *>(&e)) return "invalid_argument";
    if (dynamic_cast<const std::overflow_error *>(&e)) return "overflow_error";
    if (dynamic_cast<const std::logic_error *>(&e)) return "logic_error";
    if (dynamic_cast<const std::runtime_error *>(&e)) return "runtime_error";
    return "exception";
}

// multi.cpp — correspondence harness for MultidimensionalPGMIndex (MUL cases).
// MUL id cfg dims tbits eps epsrec | points x:y[:z[:w]] | boxes min/max | contains points | bigmin triples x:zmin:zmax (codes)
#include "common.hpp"
#include "pgm/morton_nd.hpp"
#include "pgm/pgm_index_variants.hpp"
#include <array>
#include <tuple>

template<size_t D, typename T, size_t... I>
static auto make_tuple_from(const std::array<T, D> &a, std::index_sequence<I...>) { return std::make_tuple(a[I]...); }

template<size_t D, typename T>
static std::array<T, D> parse_point(const std::string &s) {
    std::array<T, D> a{};
    auto f = split(s, ':');
    for (size_t i = 0; i < D && i < f.size(); ++i) a[i] = (T) parse_i128(f[i]);
    return a;
}

template<typename Tup, size_t... I>
static std::string show_tuple(const Tup &t, std::index_sequence<I...>) {
    std::string s;
    ((s += (I ? ":" : "") + zs(std::get<I>(t))), ...);
    return s;
}

template<size_t D, typename T, size_t E, size_t ER>
static void run_multi(const std::vector<std::vector<std::string>> &sec, std::ostream &out) {
    using Index = pgm::MultidimensionalPGMIndex<D, T, E, ER, float>;
    using Tup = typename Index::value_type;
    auto seq = std::make_index_sequence<D>{};
    std::vector<Tup> pts;
    if (sec.size() > 1) for (auto &t : sec[1]) pts.push_back(make_tuple_from<D, T>(parse_point<D, T>(t), seq));
    Index *idx = nullptr;
    try { idx = new Index(pts.begin(), pts.end()); }
    catch (const std::exception &e) { out << "B throw " << exn_kind(e) << "\n"; return; }
    out << "B ok\nD";
    for (auto c : idx->data) out << " " << zs(c);
    out << "\n";
    if (sec.size() > 2) for (auto &b : sec[2]) {
        auto mm = split(b, '/');
        auto lo = make_tuple_from<D, T>(parse_point<D, T>(mm[0]), seq), hi = make_tuple_from<D, T>(parse_point<D, T>(mm[1]), seq);
        out << "R " << b;
        try {
            size_t guard = 0;
            for (auto it = idx->range(lo, hi); it != idx->end() && guard < 10000000; ++it, ++guard) out << " " << show_tuple(*it, seq);
            if (guard >= 10000000) out << " NONTERMINATING";
        } catch (const std::exception &e) { out << " throw " << exn_kind(e); }
        out << "\n";
    }
    if (sec.size() > 3) for (auto &p : sec[3]) {
        auto t = make_tuple_from<D, T>(parse_point<D, T>(p), seq);
        out << "K " << p << " " << (idx->contains(t) ? 1 : 0) << "\n";
    }
    if (sec.size() > 4) for (auto &g : sec[4]) {
        auto f = split(g, ':');
        T x = (T) parse_i128(f[0]), a = (T) parse_i128(f[1]), b = (T) parse_i128(f[2]);
        out << "G " << g << " " << zs(Index::bigmin(x, a, b)) << " " << (Index::box_zcontains(a, b, x) ? 1 : 0) << "\n";
    }
    delete idx;
}

int main(int argc, char **argv) {
    if (argc < 3) { std::cerr << "usage: multi <cases> <out>\n"; return 2; }
    std::ifstream in(argv[1]);
    std::ofstream out(argv[2]);
    std::string line;
    while (std::getline(in, line)) {
        auto sec = sections(line);
        if (sec.empty() || sec[0].empty() || sec[0][0] != "MUL") continue;
        auto &h = sec[0];
        out << "C " << h[1] << "\n";
#define MU(nm, D, T, tb, E, ER) if (h[2] == #nm) run_multi<D, T, E, ER>(sec, out);
#include "multi_configs.inc"
#undef MU
        out.flush();
    }
    return 0;
}

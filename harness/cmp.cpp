// cmp.cpp — correspondence harness for CompressedPGMIndex (CMP cases).
#include "common.hpp"
#include "pgm/pgm_index_variants.hpp"
#include <algorithm>

template<typename Index, typename K, size_t ER>
static void run_cmp(const std::vector<std::vector<std::string>> &sec, std::ostream &out) {
    std::vector<K> data, queries;
    if (sec.size() > 1) for (auto &t : sec[1]) data.push_back((K) parse_i128(t));
    if (sec.size() > 2) for (auto &t : sec[2]) queries.push_back((K) parse_i128(t));
    omp_set_num_threads(sec[0].size() > 7 ? std::stoi(sec[0][7]) : 1);
    Index *idx = nullptr;
    try { idx = new Index(data.begin(), data.end()); }
    catch (const std::exception &e) { out << "B throw " << exn_kind(e) << "\n"; return; }
    out << "B ok\n";
    out << "N " << idx->n << " " << zs(idx->first_key);
    if (ER > 0) out << " " << frepr((double) idx->root_slope) << " " << idx->root_intercept << " " << idx->root_range;   // unset when ER == 0
    out << "\n";
    out << "TB";
    for (auto s : idx->slopes_table) out << " " << frepr((double) s);
    out << "\n";
    for (auto &l : idx->levels) {
        out << "LK";
        for (auto k : l.keys) out << " " << zs(k);
        out << "\nLM";
        for (size_t i = 0; i < l.slopes_map.size(); ++i) out << " " << (uint64_t) l.slopes_map[i];
        out << "\nLI " << l.intercept_offset << " " << l.compressed_intercepts.size();
        for (size_t i = 0; i < l.keys.size(); ++i) out << " " << l.get_intercept(i);
        out << "\n";
    }
    out.flush();
    for (auto q : queries) {
        auto r = idx->search(q);
        out << "Q " << zs(q) << " " << r.pos << " " << r.lo << " " << r.hi << "\n";
    }
    delete idx;
}

int main(int argc, char **argv) {
    if (argc < 3) { std::cerr << "usage: cmp <cases> <out>\n"; return 2; }
    std::ifstream in(argv[1]);
    std::ofstream out(argv[2]);
    std::string line;
    while (std::getline(in, line)) {
        auto sec = sections(line);
        if (sec.empty() || sec[0].empty() || sec[0][0] != "CMP") continue;
        auto &h = sec[0];
        out << "C " << h[1] << "\n";
#define CP(nm, K, kb, E, ER, F, fd) if (h[2] == #nm) run_cmp<pgm::CompressedPGMIndex<K, E, ER, F>, K, ER>(sec, out);
#include "cmp_configs.inc"
#undef CP
        out.flush();
    }
    return 0;
}

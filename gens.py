"""gens.py — case generators. Every random choice derives from one random.Random(seed) per call.
A case is a text line: 'KIND id header... | section | section'.  Generators are aimed at the case
splits of the proofs (DESIGN.md 3.1): duplicate runs around 2*eps, band-tight data, chunk seams,
boundary keys, far queries."""
import random, re, os

ROOT = os.path.dirname(os.path.abspath(__file__))

def idx_configs():
    cfgs = []
    txt = open(os.path.join(ROOT, "harness", "idx_configs.inc")).read()
    group = None
    for line in txt.splitlines():
        m = re.match(r"#(?:el)?if IDX_GROUP == (\d+)", line)
        if m: group = int(m.group(1)); continue
        m = re.match(r"X\((\w+),\s*(\w+),\s*(\d+),\s*(\d),\s*(\d+),\s*(\d+),\s*(\w+),\s*(\d)\)", line)
        if m:
            cfgs.append(dict(name=m.group(1), kbits=int(m.group(3)), signed=int(m.group(4)), eps=int(m.group(5)),
                             epsrec=int(m.group(6)), fdouble=int(m.group(8)), group=group))
    return cfgs

def krange(kb, sg):
    lo = -(1 << (kb - 1)) if sg else 0
    hi = (1 << (kb - 1)) - 1 if sg else (1 << kb) - 1
    return lo, hi          # hi is the reserved sentinel

def gen_keys(rng, kb, sg, n, eps, style):
    """sorted key list (duplicates allowed), all < sentinel"""
    lo, hi = krange(kb, sg)
    top = hi - 1
    span = top - lo
    keys = []
    if style == "dense":
        base = rng.randint(lo, max(lo, top - 3 * n))
        keys = [min(top, base + rng.randint(0, 2 * n)) for _ in range(n)]
    elif style == "sparse":
        keys = [rng.randint(lo, top) for _ in range(n)]
    elif style == "clustered":
        centers = [rng.randint(lo, top) for _ in range(max(1, n // 40))]
        keys = [min(top, max(lo, rng.choice(centers) + rng.randint(-50, 50))) for _ in range(n)]
    elif style == "runs":          # duplicate runs of lengths around eps multiples, separated by gaps
        k = rng.randint(lo, lo + min(span // 2, 1000))
        while len(keys) < n:
            L = rng.choice([1, 1, 2, eps, 2 * eps, 2 * eps + 1, 2 * eps + 2, 2 * eps + 3, 4 * eps, rng.randint(1, 6 * eps + 3)])
            keys += [k] * L
            gap = rng.choice([1, 1, 2, 3, rng.randint(1, 20), rng.randint(1, max(1, span // (2 * n + 1)))])
            k = min(top, k + gap)
        keys = keys[:n]
    elif style == "band":          # arithmetic progression with jitter tight on the +-eps band
        a = rng.choice([1, 2, 3, 5, 7, 10, 100, rng.randint(1, 1000)])
        b = rng.choice([1, 1, 2, 3, 7, rng.randint(1, 50)])     # slope b/a ranks per key unit... keys at rank r: x = a*r/b + jitter
        x0 = rng.randint(lo, max(lo, top - (a * n) // b - 4 * eps * a - 10))
        for r in range(n):
            j = rng.choice([-eps, eps, -eps, eps, 0, rng.randint(-eps, eps)])
            keys.append(min(top, max(lo, x0 + (a * (r + j)) // b)))
    elif style == "steps":         # long flat runs then steep parts: steep slopes for far queries
        k = rng.randint(lo, lo + min(span // 4, 100))
        while len(keys) < n:
            if rng.random() < 0.5:
                keys += [k] * rng.randint(1, max(2, n // 3)); k = min(top, k + 1)
            else:
                for _ in range(rng.randint(1, 30)):
                    keys.append(k); k = min(top, k + rng.choice([1, 2, 1 << rng.randint(0, max(1, kb - 4))]))
        keys = keys[:n]
    elif style == "top":           # keys hugging the top of the type (sentinel-1, sentinel-2 ...)
        keys = [top - rng.randint(0, min(span, 3 * n)) for _ in range(n)]
        if rng.random() < 0.7: keys.append(top)
        keys = keys[:n] if len(keys) > n else keys
    elif style == "bottom":
        keys = [lo + rng.randint(0, min(span, 3 * n)) for _ in range(n)]
        if rng.random() < 0.7: keys[0] = lo
    keys = sorted(min(top, max(lo, k)) for k in keys)
    return keys

def gen_queries(rng, kb, sg, keys, limit, far=True):
    lo, hi = krange(kb, sg)
    top = hi - 1
    qs = set()
    ks = sorted(set(keys))
    pick = ks if len(ks) <= limit else rng.sample(ks, limit)
    for k in pick:
        qs.add(k)
        if k - 1 >= lo: qs.add(k - 1)
        if k + 1 <= top: qs.add(k + 1)
    for a, b in zip(ks, ks[1:]):
        if len(qs) > 4 * limit: break
        if b - a > 2: qs.add((a + b) // 2)
    qs.update([lo, min(top, lo + 1), top, max(lo, top - 1), ks[0], ks[-1]])
    if lo <= 0 <= top: qs.add(0)          # what a read just past a zero-filled / mapped tail would compare equal to
    if ks[0] - 1 >= lo: qs.add(ks[0] - 1)
    if ks[-1] + 1 <= top: qs.add(ks[-1] + 1)
    if far:
        for j in range(0, kb):
            v = ks[-1] + (1 << j)
            if v <= top: qs.add(v)
            v = ks[0] - (1 << j)
            if v >= lo: qs.add(v)
        if kb == 64 and not sg:
            # products slope*(q - key) just below 2^63 / 2^62: int64_t(p) + intercept must not overflow (saturation limits)
            anchors = {ks[-1], ks[0], ks[len(ks) // 2]}
            for m in (2, 50, 200, 1000):
                if len(keys) > m: anchors.add(keys[-m])
            for a in anchors:
                for lim in (1 << 63, 1 << 62):
                    for d in (0, 1, 512, 1024, 2048, 3072, 8192):
                        v = a + lim - d
                        if lo <= v <= top: qs.add(v)
            for m in (50, 200, 1000):
                if len(keys) > m and keys[-1] > keys[-m]:
                    for lim in (1 << 63, 1 << 62):
                        for t in (0, 700, 1500, 4000):
                            v = keys[-m] + ((lim - t) * (keys[-1] - keys[-m])) // (m - 1)
                            if lo <= v <= top: qs.add(v)
    return sorted(qs)

STYLES = ["dense", "sparse", "clustered", "runs", "band", "steps", "top", "bottom"]

def idx_case(cid, cfg, par, keys, qs):
    return "IDX %s %s %d %d %d %d %d %d | %s | %s" % (cid, cfg["name"], cfg["kbits"], cfg["signed"], cfg["eps"], cfg["epsrec"],
                                                    cfg["fdouble"], par, " ".join(map(str, keys)), " ".join(map(str, qs)))

def seg_case(cid, kb, sg, eps, par, keys):
    return "SEG %s %d %d %d %d | %s" % (cid, kb, sg, eps, par, " ".join(map(str, keys)))

def gen_idx(tier, seed, want_big=True):
    rng = random.Random(seed * 7919 + 1)
    cfgs = idx_configs()
    cases, stats = [], {"styles": {}, "n": {}, "par": {}}
    per_cfg = 6 if tier == "quick" else 60
    cid = 0
    for cfg in cfgs:
        for j in range(per_cfg):
            style = STYLES[(j + rng.randint(0, 7)) % len(STYLES)]
            n = rng.choice([1, 2, 3, 4, 5, 8, 17, rng.randint(1, 64), rng.randint(20, 400), rng.randint(100, 1500 if tier == "quick" else 4000)])
            if cfg["kbits"] == 8: n = min(n, rng.choice([3, 20, 100, 300]))
            keys = gen_keys(rng, cfg["kbits"], cfg["signed"], n, cfg["eps"], style)
            if not keys: continue
            qs = gen_queries(rng, cfg["kbits"], cfg["signed"], keys, 40 if tier == "quick" else 150)
            cid += 1
            cases.append(idx_case("i%d" % cid, cfg, 1, keys, qs))
            stats["styles"][style] = stats["styles"].get(style, 0) + 1
            b = "n<=4" if len(keys) <= 4 else "n<=64" if len(keys) <= 64 else "n<=1024" if len(keys) <= 1024 else "n>1024"
            stats["n"][b] = stats["n"].get(b, 0) + 1
    # steep last segment (long duplicate run) + far queries: out-of-range float-to-integer conversions
    for cfg in [c for c in cfgs if c["kbits"] >= 32]:
        lo, hi = krange(cfg["kbits"], cfg["signed"])
        base = rng.choice([858, max(lo, 0) + rng.randint(0, 10 ** 6), lo + 3])
        m = rng.choice([45, 300, 2 * cfg["eps"] + 40])
        keys = [base] * m + [base + 6] * 2
        if rng.random() < 0.5 and base - 3 * 2600 > lo:
            # a few thousand distinct keys first, so that the steep last segment has an intercept above the granularity (2048)
            # of a double near 2^64: a wrapped "prediction + intercept" then lands far below the right position
            keys = [base - 3 * (2600 - i) for i in range(2600)] + keys
        qs = set([base, base + 1, base + 6, base + 7, hi - 1, hi - 2] + [base + (1 << j) for j in range(3, cfg["kbits"]) if base + (1 << j) <= hi - 1])
        # slope of the run segment is about m/6: queries whose predicted position slope*(q-key) lands just below 2^64 / 2^63 / 2^62
        for lim in (1 << 64, 1 << 63, 1 << 62):
            for d in (1, 600, 2100, 5000, 70000):
                for mm in (m, m - 1, m + 1, m + 2):
                    v = base + ((lim - d) * 6) // mm
                    if lo <= v <= hi - 1: qs.add(v)
        qs = sorted(qs)
        cid += 1
        cases.append(idx_case("f%d" % cid, cfg, 1, keys, qs))
        stats["styles"]["steep+far"] = stats["styles"].get("steep+far", 0) + 1
    # binary-search routing (EpsilonRecursive above the threshold): rough data, levels larger than the window, every key queried
    for cfg in [c for c in cfgs if c["epsrec"] > 512 // (c["kbits"] // 8 + (8 if c["fdouble"] else 4) + 4) and c["eps"] <= 8]:
        lo, hi = krange(cfg["kbits"], cfg["signed"])
        for j in range(1 if tier == "quick" else 8):
            n = 2500 if tier == "quick" else 6000
            x, keys = max(lo, 0) + 10, []
            for _ in range(n):
                x += 1 + int(rng.paretovariate(0.9)) % (1 << 20); keys.append(min(hi - 1, x))
            keys = sorted(keys)
            cid += 1
            cases.append(idx_case("w%d" % cid, cfg, 1, keys, sorted(set(keys))))
            stats["styles"]["bsearch-routing"] = stats["styles"].get("bsearch-routing", 0) + 1
    # floating-point KEY types (judged only, not modelled): moderate densities, duplicates, negative keys
    for name, eps in (("f32_e16_r4", 16), ("f64_e16_r4", 16), ("f64_e4_r0_d", 4), ("f32_e2_r1", 2)):
        for j in range(3 if tier == "quick" else 30):
            n = rng.choice([1, 2, 5, 40, 300, 1500])
            scale = rng.choice([1.0, 0.25, 8.0, 1000.0])
            base = rng.choice([0.0, -500.0, 1.0e6 if name.startswith("f64") else 1000.0])
            vals = sorted(base + scale * rng.randint(0, 4 * n) + rng.choice([0.0, 0.5, 0.25]) * scale for _ in range(n))
            qs = sorted(set(rng.sample(vals, min(len(vals), 25)) + [v + 0.125 * scale for v in rng.sample(vals, min(len(vals), 10))] + [vals[0] - 10 * scale, vals[-1] + 10 * scale, vals[-1] * 4 + 1e7]))
            cid += 1
            cases.append("FLT g%d %s %d | %s | %s" % (cid, name, eps, " ".join(repr(v) for v in vals), " ".join(repr(v) for v in qs)))
            stats["styles"]["float-keys"] = stats["styles"].get("float-keys", 0) + 1
    if want_big:
        # chunked construction: n >= 2^15, 2..16 threads, duplicate runs placed on chunk seams
        bigs = [c for c in cfgs if c["kbits"] >= 32]
        nbig = 4 if tier == "quick" else 24
        for j in range(nbig):
            cfg = bigs[rng.randrange(len(bigs))]
            par = rng.choice([2, 3, 5, 8, 16]) if j else 16
            n = (1 << 15) + rng.randint(0, 600)
            if j % 4 == 3 and n % par == 0: n += 1       # all keys distinct (big_keys mode 3) and a remainder for the last chunk
            keys = big_keys(rng, cfg, n, par, j)
            ks = sorted(set(keys))
            qs = set()
            cs = n // par
            for i in range(1, par):          # around every seam
                for d in range(-3, 4):
                    k = keys[min(n - 1, max(0, i * cs + d))]
                    qs.update([k, k + 1, max(krange(cfg["kbits"], cfg["signed"])[0], k - 1)])
            qs.update(rng.sample(ks, min(len(ks), 60)))
            qs.update([ks[-1], ks[-1] + 1, ks[0]])
            top = krange(cfg["kbits"], cfg["signed"])[1] - 1
            qs = sorted(q for q in qs if q <= top)
            cid += 1
            cases.append(idx_case("b%d" % cid, cfg, par, keys, qs))
            stats["par"][par] = stats["par"].get(par, 0) + 1
            stats["n"]["n>=2^15"] = stats["n"].get("n>=2^15", 0) + 1
    return cases, stats

def big_keys(rng, cfg, n, par, variant):
    lo, hi = krange(cfg["kbits"], cfg["signed"])
    top = hi - 1
    eps = cfg["eps"]
    cs = n // par
    keys, k = [], max(lo, 0) + rng.randint(0, 1000)
    mode = variant % 4
    i = 0
    seams = set(j * cs for j in range(1, par))
    while len(keys) < n:
        pos = len(keys)
        nearest = min(seams, key=lambda s: abs(s - pos)) if seams else 0
        if mode in (0, 1) and 0 <= nearest - pos < 8 and rng.random() < 0.8:
            # a duplicate run straddling / ending at the seam
            L = (nearest - pos) + rng.choice([0, 1, 2, eps, 2 * eps + 3, 40])
            keys += [k] * max(1, L)
            k += rng.choice([1, 2, 50, 1000])
        elif mode == 2 and pos > n - 2500 and rng.random() < 0.9:
            keys += [k] * (n - pos)       # one run reaching n-1 from an earlier chunk
        else:
            L = 1 if mode == 3 else rng.choice([1, 1, 1, 2, rng.randint(1, 2 * eps + 3)])     # mode 3: all keys distinct
            keys += [k] * L
            k += rng.choice([1, 1, 2, 3, rng.randint(1, 100)])
        k = min(top, k)
    return sorted(keys[:n])

def gen_seg(tier, seed):
    rng = random.Random(seed * 104729 + 3)
    cases, stats = [], {"styles": {}, "eps": {}, "n": {}}
    count = 150 if tier == "quick" else 2500
    for j in range(count):
        kb, sg = rng.choice([(8, 0), (8, 1), (16, 0), (16, 1), (32, 0), (32, 1), (64, 0), (64, 1)])
        eps = rng.choice([0, 0, 1, 1, 2, 3, 4, 8, 16, 64, rng.randint(0, 130), 1024])
        style = rng.choice(STYLES)
        n = rng.choice([1, 2, 3, 4, 5, rng.randint(1, 40), rng.randint(10, 300), rng.randint(100, 1200 if tier == "quick" else 5000)])
        if kb == 8: n = min(n, 250)
        keys = gen_keys(rng, kb, sg, n, max(1, eps), style)
        if not keys: continue
        cases.append(seg_case("s%d" % j, kb, sg, eps, 1, keys))
        stats["styles"][style] = stats["styles"].get(style, 0) + 1
        stats["eps"][str(eps) if eps in (0, 1, 2) else "3..16" if eps <= 16 else ">16"] = stats["eps"].get(str(eps) if eps in (0, 1, 2) else "3..16" if eps <= 16 else ">16", 0) + 1
    nbig = 4 if tier == "quick" else 20
    for j in range(nbig):
        kb, sg = rng.choice([(32, 0), (64, 0), (64, 1), (32, 1)])
        eps = rng.choice([1, 2, 8, 64])
        par = rng.choice([2, 4, 7, 16])
        n = (1 << 15) + rng.randint(0, 500)
        if j % 4 == 3 and n % par == 0: n += 1           # distinct keys, a remainder for the last chunk
        keys = big_keys(rng, dict(kbits=kb, signed=sg, eps=eps), n, par, j)
        cases.append(seg_case("sb%d" % j, kb, sg, eps, par, keys))
        stats["n"]["n>=2^15"] = stats["n"].get("n>=2^15", 0) + 1
    return cases, stats

# ---------------------------------------------------------------- DynamicPGMIndex histories
def dyn_configs():
    out = []
    for line in open(os.path.join(ROOT, "harness", "dyn_configs.inc")):
        m = re.match(r"D\((\w+),\s*(\w+),\s*([\w: \*]+),\s*(\d+),\s*(\d+)\)", line)
        if m:
            name = m.group(1)
            kb = 64 if "64" in m.group(2) else 32
            sg = 1 if m.group(2).startswith("int") else 0
            vk = name.split("_")[1]
            out.append(dict(name=name, kbits=kb, signed=sg, vkind=vk, eps=int(m.group(4)), epsrec=int(m.group(5))))
    return out

def gen_dyn(tier, seed, reject=False):
    rng = random.Random(seed * 15485863 + 11)
    cfgs = dyn_configs()
    cases, stats = [], {"ops": {}, "base": {}, "bulk": {}, "len": {}}
    count = 70 if tier == "quick" else 900
    for j in range(count):
        cfg = cfgs[j % len(cfgs)]
        lo, hi = krange(cfg["kbits"], cfg["signed"])
        base = rng.choice([2, 2, 4, 4, 8, 16, 32, 128])
        bl = rng.choice([0, 1, 1, 2, 3]) if base <= 8 else rng.choice([0, 1])
        il = rng.choice([0, 1, 2, 3, 4])
        # keep the buffer small enough that merges cascade within a few hundred operations
        if bl == 0 and rng.random() < 0.7: bl = 1
        universe = rng.choice([12, 40, 150, 1000])
        origin = rng.choice([lo, 0, lo + 5, hi - universe - 3, hi - universe]) if rng.random() < 0.35 else rng.randint(lo, hi - universe - 2)
        origin = max(lo, min(origin, hi - universe))          # keys may reach max-1 (the largest admissible key)
        key = lambda: origin + rng.randrange(universe)
        nbulk = rng.choice([0, 0, 1, 3, 20, 100, 400])
        mode = rng.random()
        if mode < 0.25: bulk = ["-"]; stats["bulk"]["none"] = stats["bulk"].get("none", 0) + 1
        else:
            ks = sorted(key() for _ in range(nbulk))
            bulk = ["%d:%d" % (k, rng.randrange(60000)) for k in ks]
            stats["bulk"]["n=%d" % nbulk] = stats["bulk"].get("n=%d" % nbulk, 0) + 1
        nops = rng.choice([20, 60, 150, 300]) if tier == "quick" else rng.choice([50, 200, 600, 1500])
        ops = []
        pdel = rng.choice([0.1, 0.3, 0.5])
        for t in range(nops):
            r = rng.random()
            if r < 0.55:
                if rng.random() < pdel: ops.append("E:%d" % key()); o = "E"
                else: ops.append("I:%d:%d" % (key(), rng.randrange(60000))); o = "I"
            elif r < 0.67: ops.append("F:%d" % key()); o = "F"
            elif r < 0.72: ops.append("C:%d" % key()); o = "C"
            elif r < 0.82: ops.append("L:%d" % min(hi - 1, max(lo, rng.choice([key(), key() - 1, origin - 1, origin + universe + 1, lo])))); o = "L"
            elif r < 0.88:
                a, b = sorted([key(), key()]); ops.append("R:%d:%d" % (a, b)); o = "R"
            elif r < 0.93: ops.append("T:%d" % key()); o = "T"
            elif r < 0.96: ops.append("B"); o = "B"
            elif r < 0.98: ops.append("S"); o = "S"
            else: ops.append("M"); o = "M"
            stats["ops"][o] = stats["ops"].get(o, 0) + 1
            if reject and cfg["vkind"] == "a" and rng.random() < 0.05:
                ops.append("I:%d:4294967295" % key()); stats["ops"]["Ireserved"] = stats["ops"].get("Ireserved", 0) + 1
            if reject and rng.random() < 0.02:
                a, b = sorted([key(), key() + 1]); ops.append("R:%d:%d" % (b, a)); stats["ops"]["Rrev"] = stats["ops"].get("Rrev", 0) + 1
        if origin + universe >= hi:
            # the largest admissible key (max-1) stored, then iterators started exactly on it and just below it and advanced
            ops += ["I:%d:%d" % (hi - 1, rng.randrange(60000)), "T:%d" % (hi - 1), "T:%d" % (hi - 2), "F:%d" % (hi - 1), "L:%d" % (hi - 1),
                    "R:%d:%d" % (hi - 3, hi - 1)]
            stats["ops"]["at_max_minus_1"] = stats["ops"].get("at_max_minus_1", 0) + 1
        ops += ["B", "S", "M"]
        # finally erase everything in some cases so that "empty" and end-of-iteration paths are reached
        if rng.random() < 0.2:
            ops += ["E:%d" % (origin + i) for i in range(universe)] if universe <= 40 else []
            ops += ["B", "S", "M", "L:%d" % origin]
        stats["base"][base] = stats["base"].get(base, 0) + 1
        cases.append("DYN d%d %s %d %d %s %d %d %d %d %d | %s | %s" % (j, cfg["name"], cfg["kbits"], cfg["signed"], cfg["vkind"], base, bl, il,
                                                                   cfg["eps"], cfg["epsrec"], " ".join(bulk), " ".join(ops)))
    # a large indexed level (several segments, index of height >= 2) whose last key is max-1, with iterators started on it
    for j in range(3 if tier == "quick" else 20):
        cfg = cfgs[(j * 5 + seed) % len(cfgs)]
        lo, hi = krange(cfg["kbits"], cfg["signed"])
        if cfg["kbits"] <= 8: continue
        base = rng.choice([4, 8]); bl = 1; il = 2
        n0 = rng.choice([300, 600, 1200])
        span = min(hi - 1 - lo, rng.choice([5000, 60000, 10 ** 7]))
        ks = sorted(set([hi - 1] + [hi - 1 - rng.randrange(1, span) for _ in range(n0)]))
        bulk = ["%d:%d" % (k, i % 60000) for i, k in enumerate(ks)]
        ops = ["T:%d" % (hi - 1), "T:%d" % (ks[-2] + 1 if ks[-2] + 1 < hi - 1 else hi - 1), "F:%d" % (hi - 1), "L:%d" % (hi - 1), "T:%d" % ks[-3],
               "I:%d:7" % (ks[5] + 1), "E:%d" % ks[7], "T:%d" % (hi - 1), "E:%d" % (hi - 1), "T:%d" % ks[-2], "I:%d:9" % (hi - 1), "T:%d" % (hi - 1), "B", "S", "M"]
        stats["ops"]["big_level_at_max_minus_1"] = stats["ops"].get("big_level_at_max_minus_1", 0) + 1
        stats["base"][base] = stats["base"].get(base, 0) + 1
        cases.append("DYN dm%d %s %d %d %s %d %d %d %d %d | %s | %s" % (j, cfg["name"], cfg["kbits"], cfg["signed"], cfg["vkind"], base, bl, il,
                                                                    cfg["eps"], cfg["epsrec"], " ".join(bulk), " ".join(ops)))
    # churn histories: levels that own an index (low index level), then rounds of "erase m live keys, insert m fresh keys":
    # merges into the last level that drop as many pairs as they add (same size, different keys), every live key looked up after
    # each round; aimed at stale per-level indexes and tombstone bookkeeping
    nchurn = 12 if tier == "quick" else 150
    for j in range(nchurn):
        cfg = cfgs[(j * 7 + seed) % len(cfgs)]
        lo, hi = krange(cfg["kbits"], cfg["signed"])
        base = rng.choice([4, 4, 8, 16]); bl = rng.choice([1, 2]) if base == 4 else 1; il = rng.choice([1, 2, 3])
        step = rng.choice([1, 3, 10])
        n0 = rng.choice([6, 12, 20, 40, 64]) if cfg["kbits"] > 8 else rng.choice([6, 12, 20])
        rounds = rng.choice([4, 8, 12]) if cfg["kbits"] > 8 else 4
        span = (n0 + rounds * 8 + 4) * step
        origin = max(lo, min(rng.choice([lo, 0, 10, rng.randint(lo, hi - span - 2)]), hi - span - 2))
        live = [origin + step * i for i in range(n0)]
        nxt = origin + step * n0
        if rng.random() < 0.5:
            bulk = ["%d:%d" % (k, i % 60000) for i, k in enumerate(live)]; ops = []
        else:
            bulk = ["-"]; ops = ["I:%d:%d" % (k, i % 60000) for i, k in enumerate(live)]
        dead = []
        for r in range(rounds):
            m = rng.choice([1, 2, 3, 3, 4, 6])
            vict = rng.sample(live, min(m, len(live) - 1)) if rng.random() < 0.6 else live[:min(m, len(live) - 1)]
            for k in vict: ops.append("E:%d" % k); live.remove(k); dead.append(k)
            for _ in range(len(vict)):
                ops.append("I:%d:%d" % (nxt, rng.randrange(60000))); live.append(nxt); nxt += step
            probe = live if len(live) <= 24 else rng.sample(live, 24)
            ops += ["F:%d" % k for k in probe] + ["F:%d" % k for k in dead[-4:]] + ["L:%d" % rng.choice(live), "S"]
            stats["ops"]["churn_round"] = stats["ops"].get("churn_round", 0) + 1
        ops += ["B", "S", "M"]
        stats["base"][base] = stats["base"].get(base, 0) + 1
        cases.append("DYN dc%d %s %d %d %s %d %d %d %d %d | %s | %s" % (j, cfg["name"], cfg["kbits"], cfg["signed"], cfg["vkind"], base, bl, il,
                                                                    cfg["eps"], cfg["epsrec"], " ".join(bulk), " ".join(ops)))
    return cases, stats

# ---------------------------------------------------------------- Bucketing / Elias-Fano variants
def var_configs(kind):
    out = []
    for line in open(os.path.join(ROOT, "harness", "var_configs.inc")):
        if kind == "BK":
            m = re.match(r"BK\((\w+),\s*(\w+),\s*(\d+),\s*(\d+),\s*(\d+),\s*(\d+),\s*(\w+),\s*(\d)\)", line)
            if m: out.append(dict(name=m.group(1), kbits=int(m.group(3)), signed=0, eps=int(m.group(4)), tls=int(m.group(5)), tlbs=int(m.group(6)), fdouble=int(m.group(8))))
        else:
            m = re.match(r"EF\((\w+),\s*(\w+),\s*(\d+),\s*(\d+),\s*(\w+),\s*(\d)\)", line)
            if m: out.append(dict(name=m.group(1), kbits=int(m.group(3)), signed=0, eps=int(m.group(4)), fdouble=int(m.group(6))))
    return out

def gen_var(tier, seed, kind):
    rng = random.Random(seed * 32452843 + (5 if kind == "BK" else 9))
    cfgs = var_configs(kind)
    cases, stats = [], {"styles": {}, "n": {}}
    per_cfg = 10 if tier == "quick" else 120
    cid = 0
    for cfg in cfgs:
        for j in range(per_cfg):
            style = STYLES[(j + rng.randint(0, 7)) % len(STYLES)]
            n = rng.choice([1, 2, 3, 5, 9, rng.randint(1, 64), rng.randint(20, 400), rng.randint(100, 1200 if tier == "quick" else 4000)])
            if cfg["kbits"] == 8: n = min(n, rng.choice([3, 20, 100, 250]))
            keys = gen_keys(rng, cfg["kbits"], 0, n, cfg["eps"], style)
            if not keys: continue
            qs = gen_queries(rng, cfg["kbits"], 0, keys, 40 if tier == "quick" else 120)
            cid += 1
            if kind == "BK":
                cases.append("BKT k%d %s %d %d %d %d %d | %s | %s" % (cid, cfg["name"], cfg["kbits"], cfg["eps"], cfg["tls"], cfg["tlbs"], cfg["fdouble"],
                                                                    " ".join(map(str, keys)), " ".join(map(str, qs))))
            else:
                cases.append("EFI f%d %s %d %d %d | %s | %s" % (cid, cfg["name"], cfg["kbits"], cfg["eps"], cfg["fdouble"],
                                                              " ".join(map(str, keys)), " ".join(map(str, qs))))
            stats["styles"][style] = stats["styles"].get(style, 0) + 1
            b = "n<=4" if len(keys) <= 4 else "n<=64" if len(keys) <= 64 else "n<=1024" if len(keys) <= 1024 else "n>1024"
            stats["n"][b] = stats["n"].get(b, 0) + 1
        # keys spanning (almost) the whole universe with several segments starting in the last cells of the top-level table:
        # products i*step / rebased keys close to the maximum of K (overflow handling of the bucket bounds, widest low parts)
        lo, hi = krange(cfg["kbits"], 0)
        for j in range(2 if tier == "quick" else 12):
            m = rng.choice([20, 60, 200])
            span_top = min(hi // 4, 1 << rng.choice([8, 20, 30, 40]))
            bottom = sorted(rng.randrange(0, min(hi // 4, 1 << 20) + 1) for _ in range(m))
            middle = sorted(rng.randrange(0, hi - 1) for _ in range(rng.choice([0, 5, m])))
            top, x = [], hi - 1 - rng.choice([0, 1, 5, 1000])
            for _ in range(m):
                top.append(x); x -= rng.choice([0, 1, 1, 2, 7, max(1, span_top // (m * rng.choice([1, 3, 50])))])
                if x <= hi // 2: break
            keys = sorted(k for k in bottom + middle + top if lo <= k <= hi - 1)
            qs = gen_queries(rng, cfg["kbits"], 0, keys, 60 if tier == "quick" else 150)
            cid += 1
            if kind == "BK":
                cases.append("BKT k%d %s %d %d %d %d %d | %s | %s" % (cid, cfg["name"], cfg["kbits"], cfg["eps"], cfg["tls"], cfg["tlbs"], cfg["fdouble"],
                                                                    " ".join(map(str, keys)), " ".join(map(str, qs))))
            else:
                cases.append("EFI f%d %s %d %d %d | %s | %s" % (cid, cfg["name"], cfg["kbits"], cfg["eps"], cfg["fdouble"],
                                                              " ".join(map(str, keys)), " ".join(map(str, qs))))
            stats["styles"]["fullspan"] = stats["styles"].get("fullspan", 0) + 1
        # Elias-Fano: hundreds of segment keys clustered at the bottom of the universe, a few far above, so that the high
        # bit vector has runs of hundreds of empty buckets (several 64-bit words of zeros) and the queries inside the gap
        # make pred() scan back over all of them (seeded change C10e: back-scan limited to two words)
        if kind != "BK" and cfg["kbits"] >= 32 and cfg["eps"] <= 8:
            for j in range(1 if tier == "quick" else 3):
                c, S = 2 * cfg["eps"] + 4, rng.choice([200, 330])
                G = rng.choice([3, 10]) * c
                keys = [s * (c + G) + t for s in range(S) for t in range(c)]
                end = keys[-1]
                far0 = end * rng.choice([150, 1000, 40000]) + rng.randrange(0, 1000)
                far = sorted(far0 + rng.randrange(0, end) for _ in range(rng.choice([1, 3, 40])))
                keys = sorted(k for k in keys + far if k <= hi - 1)
                gapq = [end + 1 + (far0 - end) * t // 97 for t in range(1, 97)] + [far[-1] + 1, far[-1] + end]
                qs = [q for q in gapq if q <= hi - 1] + gen_queries(rng, cfg["kbits"], 0, keys, 30)
                cid += 1
                cases.append("EFI f%d %s %d %d %d | %s | %s" % (cid, cfg["name"], cfg["kbits"], cfg["eps"], cfg["fdouble"],
                                                              " ".join(map(str, keys)), " ".join(map(str, qs))))
                stats["styles"]["emptyrun"] = stats["styles"].get("emptyrun", 0) + 1
    return cases, stats


# ---------------------------------------------------------------- MappedPGMIndex
def map_configs():
    out = []
    for line in open(os.path.join(ROOT, "harness", "map_configs.inc")):
        m = re.match(r"M\((\w+),\s*(\w+),\s*(\d+),\s*(\d),\s*(\d+),\s*(\d+),\s*(\w+),\s*(\d)\)", line)
        if m: out.append(dict(name=m.group(1), kbits=int(m.group(3)), signed=int(m.group(4)), eps=int(m.group(5)), epsrec=int(m.group(6)), fdouble=int(m.group(8))))
    return out

def gen_map(tier, seed):
    rng = random.Random(seed * 49979687 + 21)
    cfgs = map_configs()
    cases, stats = [], {"styles": {}, "first_key": {}, "n": {}}
    per_cfg = 8 if tier == "quick" else 100
    cid = 0
    for cfg in cfgs:
        lo, hi = krange(cfg["kbits"], cfg["signed"])
        for j in range(per_cfg):
            style = rng.choice(["runs", "runs", "steps", "dense", "clustered", "bottom", "top", "sparse"])
            n = rng.choice([1, 2, 3, 7, rng.randint(1, 64), rng.randint(20, 300), rng.randint(100, 900 if tier == "quick" else 2500)])
            eps = cfg["eps"]
            keys = gen_keys(rng, cfg["kbits"], cfg["signed"], n, eps, style)
            if style == "runs" and rng.random() < 0.6:
                # runs of every length relative to the search range, around powers of two, ending at n
                keys, k = [], rng.randint(lo, lo + 1000) if rng.random() < 0.5 else rng.randint(-50, 50) if cfg["signed"] else rng.randint(0, 50)
                k = max(lo, k)
                while len(keys) < n:
                    L = rng.choice([1, 2, 3, 2 * eps + 1, 2 * eps + 2, 2 * eps + 3, 4 * (2 * eps + 2) + 3, 1 << rng.randint(0, 7), (1 << rng.randint(1, 7)) + rng.choice([-1, 1])])
                    keys += [k] * L; k = min(hi - 1, k + rng.choice([1, 1, 2, 5, 100]))
                keys = sorted(keys[:max(1, n)])
            if not keys: continue
            qs = gen_queries(rng, cfg["kbits"], cfg["signed"], keys, 30 if tier == "quick" else 100, far=False)
            cid += 1
            cases.append("MAP m%d %s %d %d %d %d %d | %s | %s" % (cid, cfg["name"], cfg["kbits"], cfg["signed"], cfg["eps"], cfg["epsrec"], cfg["fdouble"],
                                                                " ".join(map(str, keys)), " ".join(map(str, qs))))
            stats["styles"][style] = stats["styles"].get(style, 0) + 1
            fk = "zero" if keys[0] == 0 else "positive" if keys[0] > 0 else "negative"
            stats["first_key"][fk] = stats["first_key"].get(fk, 0) + 1
        # several segments and levels, so that the header length varies (number of segments odd and even: the key array
        # starts at an offset that is not always a multiple of the key size)
        for j in range(3 if tier == "quick" else 12):
            n = rng.choice([300, 700, 1500, 2500]) + j
            keys = gen_keys(rng, cfg["kbits"], cfg["signed"], n, 1, rng.choice(["sparse", "clustered", "steps"]))
            if not keys: continue
            qs = gen_queries(rng, cfg["kbits"], cfg["signed"], keys, 25 if tier == "quick" else 80, far=False)
            cid += 1
            cases.append("MAP m%d %s %d %d %d %d %d | %s | %s" % (cid, cfg["name"], cfg["kbits"], cfg["signed"], cfg["eps"], cfg["epsrec"], cfg["fdouble"],
                                                                " ".join(map(str, keys)), " ".join(map(str, qs))))
            stats["styles"]["many-segments"] = stats["styles"].get("many-segments", 0) + 1
            fk = "zero" if keys[0] == 0 else "positive" if keys[0] > 0 else "negative"
            stats["first_key"][fk] = stats["first_key"].get(fk, 0) + 1
        # exactly a multiple of 4096 keys (I/O block sizes, powers of two: seeded change C12e wrote the keys in blocks of 4096
        # and lost the last block when n was a multiple of the block size)
        if cfg["kbits"] >= 32 and (tier != "quick" or cfg["epsrec"] > 0):
            n, d = rng.choice([4096, 8192]), rng.choice([1, 2, 3])
            k0 = rng.randint(-5000, 5000) if cfg["signed"] else rng.randint(0, 5000)
            keys = [k0 + (i // d) * 3 for i in range(n)]
            qs = sorted(set([keys[0], keys[-1], keys[-1] + 1, keys[n // 2], keys[n - 4096], keys[4095], keys[0] - 1 if keys[0] > lo else keys[0]]))
            cid += 1
            cases.append("MAP m%d %s %d %d %d %d %d | %s | %s" % (cid, cfg["name"], cfg["kbits"], cfg["signed"], cfg["eps"], cfg["epsrec"], cfg["fdouble"],
                                                                " ".join(map(str, keys)), " ".join(map(str, qs))))
            stats["styles"]["block-multiple"] = stats["styles"].get("block-multiple", 0) + 1
            fk = "zero" if keys[0] == 0 else "positive" if keys[0] > 0 else "negative"
            stats["first_key"][fk] = stats["first_key"].get(fk, 0) + 1
        if cfg["signed"]:
            # every stored key negative, 0 absent: the predicted position of query 0 is n (one past the last element)
            for j in range(2 if tier == "quick" else 10):
                n = rng.choice([1, 3, 40, 300])
                near = rng.random() < 0.5
                keys = sorted((-rng.randint(1, 50) if near else rng.randint(max(lo, -10 ** 6), -1)) for _ in range(n))
                qs = sorted(set([0, 1, -1, keys[0], keys[-1], keys[-1] + 1, keys[len(keys) // 2]]))
                cid += 1
                cases.append("MAP m%d %s %d %d %d %d %d | %s | %s" % (cid, cfg["name"], cfg["kbits"], cfg["signed"], cfg["eps"], cfg["epsrec"], cfg["fdouble"],
                                                                    " ".join(map(str, keys)), " ".join(map(str, qs))))
                stats["styles"]["all-negative"] = stats["styles"].get("all-negative", 0) + 1
                stats["first_key"]["negative"] = stats["first_key"].get("negative", 0) + 1
    return cases, stats


# ---------------------------------------------------------------- MultidimensionalPGMIndex
def multi_configs():
    out = []
    for line in open(os.path.join(ROOT, "harness", "multi_configs.inc")):
        m = re.match(r"MU\((\w+),\s*(\d+),\s*(\w+),\s*(\d+),\s*(\d+),\s*(\d+)\)", line)
        if m: out.append(dict(name=m.group(1), dims=int(m.group(2)), tbits=int(m.group(4)), eps=int(m.group(5)), epsrec=int(m.group(6))))
    return out

def morton(dims, p):
    c = 0
    for i, x in enumerate(p):
        b = 0
        while x:
            if x & 1: c |= 1 << (b * dims + i)
            x >>= 1; b += 1
    return c

def gen_multi(tier, seed):
    rng = random.Random(seed * 67867967 + 31)
    cfgs = multi_configs()
    cases, stats = [], {"kind": {}, "boxes": 0, "n": {}}
    per_cfg = 8 if tier == "quick" else 90
    cid = 0
    for cfg in cfgs:
        D = cfg["dims"]
        fb = cfg["tbits"] // D
        cmax = (1 << (fb - 1)) - 1
        for j in range(per_cfg):
            kind = rng.choice(["grid", "grid", "thin", "random", "clusters", "big"])
            side = rng.choice([2, 3, 4, 6, 8]) if D >= 3 else rng.choice([4, 8, 12, 20, 30])
            side = min(side, cmax + 1)
            org = [rng.choice([0, 0, rng.randint(0, max(0, cmax - side))]) for _ in range(D)]
            pts = []
            if kind == "grid":        # dense grid: every cell occupied, some duplicates -> many consecutive hits
                def rec(pfx):
                    if len(pfx) == D: pts.append(list(pfx)); return
                    for v in range(side): rec(pfx + [org[len(pfx)] + v])
                rec([])
                pts += [rng.choice(pts) for _ in range(len(pts) // 5)]
            elif kind == "thin":      # points on a thin slab: long runs of misses between hits (> 64 misses)
                n = rng.randint(100, 600)
                for _ in range(n):
                    p = [org[i] + rng.randrange(side * 4 if i else 2) for i in range(D)]
                    pts.append([min(cmax, x) for x in p])
            elif kind == "clusters":
                for _ in range(rng.randint(3, 8)):
                    ctr = [rng.randint(0, cmax) for _ in range(D)]
                    for _ in range(rng.randint(5, 60)):
                        pts.append([min(cmax, max(0, x + rng.randint(-4, 4))) for x in ctr])
            elif kind == "big":
                for _ in range(rng.randint(200, 800 if tier == "quick" else 3000)):
                    pts.append([rng.randint(0, min(cmax, 1 << rng.choice([4, 8, fb - 1]))) for _ in range(D)])
            else:
                for _ in range(rng.randint(1, 200)):
                    pts.append([rng.randint(0, min(cmax, 64)) for _ in range(D)])
            heavy = None
            if pts and rng.random() < 0.4:
                # one heavily duplicated cell: more copies than the search window is wide (2*Epsilon+2), used below as the
                # max corner / min corner / single cell of boxes
                heavy = list(rng.choice(pts))
                pts += [list(heavy) for _ in range(rng.choice([2 * cfg["eps"] + 3, 4 * cfg["eps"] + 10, 100]))]
                stats["kind"]["heavy-duplicate"] = stats["kind"].get("heavy-duplicate", 0) + 1
            rng.shuffle(pts)
            allp = pts
            boxes = []
            if heavy is not None:
                hs = ":".join(map(str, heavy))
                boxes.append(hs + "/" + hs)
                boxes.append(":".join(map(str, [max(0, x - rng.randint(0, 6)) for x in heavy])) + "/" + hs)
                boxes.append(hs + "/" + ":".join(map(str, [min(cmax, x + rng.randint(0, 6)) for x in heavy])))
            for _ in range(10 if tier == "quick" else 25):
                a = rng.choice(allp); b = rng.choice(allp)
                mode = rng.random()
                if mode < 0.2: lo, hi = a, a                                         # single cell at a stored point
                elif mode < 0.35: lo, hi = [0] * D, [cmax] * D                         # full space
                elif mode < 0.5:                                                       # one-cell-thick slab
                    lo = [min(x, y) for x, y in zip(a, b)]; hi = [max(x, y) for x, y in zip(a, b)]
                    k = rng.randrange(D); hi[k] = lo[k]
                elif mode < 0.6:                                                       # box with no point: beyond everything
                    mx = [max(p[i] for p in allp) for i in range(D)]
                    lo = [min(cmax, x + 1) for x in mx]; hi = [min(cmax, x + 3) for x in mx]
                else:
                    lo = [min(x, y) for x, y in zip(a, b)]; hi = [max(x, y) for x, y in zip(a, b)]
                    if rng.random() < 0.3: hi = [min(cmax, h + rng.randint(0, 5)) for h in hi]
                boxes.append(":".join(map(str, lo)) + "/" + ":".join(map(str, hi)))
            # the box reaching the largest stored code
            top = max(allp, key=lambda p: morton(D, p))
            boxes.append(":".join(map(str, [max(0, x - 2) for x in top])) + "/" + ":".join(map(str, top)))
            cont = []
            for _ in range(12 if tier == "quick" else 40):
                p = list(rng.choice(allp))
                r = rng.random()
                if r < 0.5: pass
                elif r < 0.7: p[rng.randrange(D)] = min(cmax, p[rng.randrange(D)] + 1)
                elif r < 0.8: p = [0] * D
                elif r < 0.9: p = [cmax] * D
                else: p = [rng.randint(0, cmax) for _ in range(D)]
                cont.append(":".join(map(str, p)))
            big = []
            for _ in range(15 if tier == "quick" else 60):
                small = rng.random() < 0.7
                lim = 7 if small else min(cmax, 200)
                lo = [rng.randint(0, lim) for _ in range(D)]; hi = [rng.randint(l, min(cmax, l + (3 if small else 20))) for l in lo]
                zmin, zmax = morton(D, lo), morton(D, hi)
                x = rng.choice([rng.randint(0, zmax + 5), rng.randint(zmin, zmax), max(0, zmin - 1), zmax, zmin])
                big.append("%d:%d:%d" % (x, zmin, zmax))
            cid += 1
            cases.append("MUL u%d %s %d %d %d %d | %s | %s | %s | %s" % (cid, cfg["name"], D, cfg["tbits"], cfg["eps"], cfg["epsrec"],
                         " ".join(":".join(map(str, p)) for p in pts), " ".join(boxes), " ".join(cont), " ".join(big)))
            stats["kind"][kind] = stats["kind"].get(kind, 0) + 1
            stats["boxes"] += len(boxes)
    return cases, stats


# ---------------------------------------------------------------- C interface
CTYPES = {"int32": (32, 1), "int64": (64, 1), "uint32": (32, 0), "uint64": (64, 0)}
def gen_capi(tier, seed):
    rng = random.Random(seed * 86028121 + 41)
    cases, stats = [], {"cix": 0, "cdy": 0, "eps": {}, "ops": {}}
    cid = 0
    for ty, (kb, sg) in CTYPES.items():
        for j in range(12 if tier == "quick" else 120):
            eps = rng.choice([1, 1, 2, 3, 7, 64, 4096, rng.randint(1, 300)])
            style = STYLES[(j + rng.randint(0, 7)) % len(STYLES)]
            n = rng.choice([1, 2, 3, 9, rng.randint(1, 64), rng.randint(20, 400), rng.randint(100, 1500 if tier == "quick" else 5000)])
            keys = gen_keys(rng, kb, sg, n, eps, style)
            if not keys: continue
            if rng.random() < 0.08: keys[-1] = krange(kb, sg)[1]          # reserved value: create must return NULL
            qs = gen_queries(rng, kb, sg, [k for k in keys if k < krange(kb, sg)[1]] or [0], 40 if tier == "quick" else 120)
            cid += 1
            cases.append("CIX c%d %s %d | %s | %s" % (cid, ty, eps, " ".join(map(str, keys)), " ".join(map(str, qs))))
            stats["cix"] += 1; stats["eps"][eps if eps in (1, 2, 3, 7, 64, 4096) else "other"] = stats["eps"].get(eps if eps in (1, 2, 3, 7, 64, 4096) else "other", 0) + 1
        lo, hi = krange(kb, sg)
        for j in range(4 if tier == "quick" else 14):
            universe = rng.choice([50, 2000, 100000])
            origin = rng.randint(lo, hi - universe - 2)
            key = lambda: origin + rng.randrange(universe)
            val = lambda: rng.randint(max(lo, -1000), min(hi - 1, 1000000))
            nb = rng.choice([0, 0, 5, 300, 2000])
            bulk = ["-"] if rng.random() < 0.3 else ["%d:%d" % (k, val()) for k in sorted(key() for _ in range(nb))]
            ops = []
            nops = rng.choice([100, 700, 1500]) if tier == "quick" else rng.choice([300, 1500, 3000])
            for t in range(nops):
                r = rng.random()
                if r < 0.62: ops.append("I:%d:%d" % (key(), val())); o = "I"
                elif r < 0.80: ops.append("E:%d" % key()); o = "E"
                elif r < 0.94: ops.append("F:%d" % key()); o = "F"
                elif r < 0.97: ops.append("T:%d" % key()); o = "T"
                elif r < 0.985: ops.append("S"); o = "S"
                else: ops.append("B"); o = "B"
                stats["ops"][o] = stats["ops"].get(o, 0) + 1
            ops += ["B", "S"]
            cid += 1
            cases.append("CDY c%d %s | %s | %s" % (cid, ty, " ".join(bulk), " ".join(ops)))
            stats["cdy"] += 1
    return cases, stats


# ---------------------------------------------------------------- C20: the malformed stream
def gen_reject(tier, seed):
    """inputs violating one documented precondition, at every position where the violation can occur, mixed with valid ones"""
    rng = random.Random(seed * 122949829 + 51)
    cases, stats = [], {"kind": {}}
    def add(kind, line):
        cases.append(line); stats["kind"][kind] = stats["kind"].get(kind, 0) + 1
    reps = 2 if tier == "quick" else 12
    cid = 0
    for rep in range(reps):
        # static indexes: reserved value (sorted data => it is last; also with duplicates of it)
        for cfg in idx_configs()[::3]:
            lo, hi = krange(cfg["kbits"], cfg["signed"])
            n = rng.choice([1, 2, 5, 40, 300])
            keys = gen_keys(rng, cfg["kbits"], cfg["signed"], n, cfg["eps"], rng.choice(STYLES))
            bad = keys[:-1] + [hi] * rng.choice([1, 1, 3]) if rng.random() < 0.7 else keys
            cid += 1; add("idx", idx_case("j%d" % cid, cfg, 1, sorted(bad), [bad[0]]))
        for cfg in var_configs("BK")[::2]:
            lo, hi = krange(cfg["kbits"], 0)
            keys = gen_keys(rng, cfg["kbits"], 0, rng.choice([1, 3, 50]), cfg["eps"], "dense")
            bad = sorted(keys + [hi]) if rng.random() < 0.7 else keys
            cid += 1; add("bkt", "BKT j%d %s %d %d %d %d %d | %s | %s" % (cid, cfg["name"], cfg["kbits"], cfg["eps"], cfg["tls"], cfg["tlbs"], cfg["fdouble"], " ".join(map(str, bad)), bad[0]))
        for cfg in var_configs("EF")[::2]:
            lo, hi = krange(cfg["kbits"], 0)
            keys = gen_keys(rng, cfg["kbits"], 0, rng.choice([1, 3, 50]), cfg["eps"], "sparse")
            bad = sorted(keys + [hi]) if rng.random() < 0.7 else keys
            cid += 1; add("efi", "EFI j%d %s %d %d %d | %s | %s" % (cid, cfg["name"], cfg["kbits"], cfg["eps"], cfg["fdouble"], " ".join(map(str, bad)), bad[0]))
        for cfg in map_configs()[::2]:
            lo, hi = krange(cfg["kbits"], cfg["signed"])
            keys = gen_keys(rng, cfg["kbits"], cfg["signed"], rng.choice([1, 4, 60]), cfg["eps"], "clustered")
            bad = sorted(keys + [hi]) if rng.random() < 0.7 else keys
            cid += 1; add("map", "MAP j%d %s %d %d %d %d %d | %s | %s" % (cid, cfg["name"], cfg["kbits"], cfg["signed"], cfg["eps"], cfg["epsrec"], cfg["fdouble"], " ".join(map(str, bad)), bad[0]))
        for ty, (kb, sg) in CTYPES.items():
            lo, hi = krange(kb, sg)
            keys = gen_keys(rng, kb, sg, rng.choice([1, 5, 80]), 4, "dense")
            bad = sorted(keys + [hi]) if rng.random() < 0.7 else keys
            cid += 1; add("cix", "CIX j%d %s %d | %s | %s" % (cid, ty, rng.choice([1, 4, 64]), " ".join(map(str, bad)), bad[0]))
        # multidimensional: a coordinate too wide for the encoder, at every position of the point list / tuple
        for cfg in multi_configs():
            D = cfg["dims"]; fb = cfg["tbits"] // D; cmax = (1 << (fb - 1)) - 1
            pts = [[rng.randint(0, min(cmax, 50)) for _ in range(D)] for _ in range(rng.randint(1, 12))]
            if rng.random() < 0.75:
                i, j = rng.randrange(len(pts)), rng.randrange(D)
                pts[i][j] = rng.choice([cmax + 1, (1 << fb) - 1, cmax + rng.randint(1, 1000)])
            cid += 1; add("mul", "MUL j%d %s %d %d %d %d | %s | 0:0/1:1 | %s |" % (cid, cfg["name"], D, cfg["tbits"], cfg["eps"], cfg["epsrec"], " ".join(":".join(map(str, p)) for p in pts), ":".join(["0"] * D)))
        # dynamic: unsorted pair anywhere in the bulk range, base not a power of two, reserved mapped value anywhere in a history, lo > hi
        for cfg in dyn_configs():
            lo, hi = krange(cfg["kbits"], cfg["signed"])
            n = rng.choice([2, 3, 10, 60])
            ks = sorted(rng.randint(lo, lo + 500) for _ in range(n))
            mode = rng.choice(["unsorted", "base", "reserved_bulk", "ok"])
            base, bulk = rng.choice([2, 4, 8, 16]), ["%d:%d" % (k, rng.randrange(1000)) for k in ks]
            if mode == "unsorted":
                i = rng.randrange(n - 1)
                if ks[i] == ks[i + 1]: ks[i + 1] += 1
                ks[i], ks[i + 1] = ks[i + 1], ks[i]
                bulk = ["%d:%d" % (k, rng.randrange(1000)) for k in ks]
            elif mode == "base": base = rng.choice([3, 5, 6, 7, 12, 100, 255])
            elif mode == "reserved_bulk" and cfg["vkind"] == "a":
                ks = sorted(set(ks)); bulk = ["%d:%d" % (k, rng.randrange(1000)) for k in ks]
                i = rng.randrange(len(ks)); bulk[i] = "%d:4294967295" % ks[i]
            cid += 1
            add("dyn-" + mode, "DYN j%d %s %d %d %s %d %d %d %d %d | %s | F:%d B" % (cid, cfg["name"], cfg["kbits"], cfg["signed"], cfg["vkind"], base, 1, 2, cfg["eps"], cfg["epsrec"], " ".join(bulk), ks[0]))
        # the builder: non-increasing key at EVERY position of short point lists (second point of a segment included),
        # equal and smaller keys, several epsilons; negative epsilon
        for kb, sg in ((32, 0), (64, 1), (64, 0), (32, 1)):
            lo, hi = krange(kb, sg)
            for n in (2, 3, 5, 9):
                for i in range(1, n):
                    base = max(lo, -1000) + rng.randint(8, 100)          # room for the "smaller key" (x - 7) inside the key type
                    xs = [base + 10 * j + rng.randint(0, 5) for j in range(n)]
                    pts = [(x, rng.choice([j, 3 * j, j * j])) for j, x in enumerate(xs)]   # steep ranks force rejections -> new segments
                    pts[i] = (pts[i - 1][0] - rng.choice([0, 0, 1, 7]), pts[i][1])
                    cid += 1; add("pla", "PLA j%d %d %d %d | %s" % (cid, kb, sg, rng.choice([0, 1, 4]), " ".join("%d:%d" % p for p in pts)))
            n = rng.randint(2, 30)
            xs = sorted(rng.sample(range(max(lo, -1000), max(lo, -1000) + 5000), n))
            cid += 1; add("pla", "PLA j%d %d %d %d | %s" % (cid, kb, sg, rng.choice([-1, -7, 0, 64]), " ".join("%d:%d" % (x, j) for j, x in enumerate(xs))))
    d, _ = gen_dyn(tier, seed + 17, reject=True)
    for l in d[: (12 if tier == "quick" else 200)]:
        t = l.split(" ", 2); t[1] = "jh" + t[1]
        add("dyn-history", " ".join(t))
    return cases, stats

def gen_all(tier, seed, scale=None):
    """a slice of every component's stream (for the cross-cutting properties C16/C17/C19); the thorough slice is kept to a size
    the sanitizer builds and the extracted model get through in well under an hour"""
    if scale is None: scale = 0.34 if tier == "quick" else 0.08
    rng = random.Random(seed)
    out, stats = [], {}
    def dyn_stream():
        if tier == "quick": return gen_dyn(tier, seed)
        # thorough: several quick-sized streams (short histories: the full private state is dumped after every operation, so the
        # long thorough histories would produce gigabytes here; C05/C06/C15's own thorough tiers run those)
        cs = []
        for i in range(3):
            c, st = gen_dyn("quick", seed + 101 * i)
            for l in c:
                t = l.split(" ", 2); t[1] = "%s_%d" % (t[1], i); cs.append(" ".join(t))
        return cs, {}
    for name, (cs, st) in (("idx", gen_idx(tier, seed, want_big=False)), ("seg", gen_seg(tier, seed)), ("dyn", dyn_stream()),
                           ("bkt", gen_var(tier, seed, "BK")), ("efi", gen_var(tier, seed, "EF")), ("map", gen_map(tier, seed)),
                           ("mul", gen_multi(tier, seed)), ("capi", gen_capi(tier, seed)), ("reject", gen_reject(tier, seed))):
        k = max(6, int(len(cs) * (scale if not (name == "dyn" and tier != "quick") else 0.34)))
        pick = cs if len(cs) <= k else rng.sample(cs, k)
        # boundary cases aimed at memory safety are always kept (iterators started on max-1 over an indexed level)
        must = [c for c in cs if c.split(" ", 2)[1].startswith("dm") and c not in pick][: (3 if tier == "quick" else 6)]
        pick = pick + must
        out += pick; stats[name] = len(pick)
    return out, stats


# ---------------------------------------------------------------- concurrent readers (C16)
def gen_thr(tier, seed):
    rng = random.Random(seed * 141650939 + 61)
    cases = []
    for j in range(6 if tier == "quick" else 60):
        cases.append("THR h%d %d %d %d" % (j, rng.choice([2, 3, 4, 8, 16]), rng.randrange(1 << 30), rng.choice([50, 700, 3000, 20000])))
    return cases, {"threads": [c.split()[2] for c in cases]}


# ---------------------------------------------------------------- copies / moves (C19)
def gen_own(tier, seed):
    rng = random.Random(seed * 160481183 + 71)
    cases = []
    for j in range(5 if tier == "quick" else 50):
        cases.append("OWN w%d %d %d" % (j, rng.randrange(1 << 30), rng.choice([3, 40, 600, 3000, 9000])))
    return cases, {"n": [c.split()[3] for c in cases]}


# ---------------------------------------------------------------- CompressedPGMIndex
def cmp_configs():
    out = []
    for line in open(os.path.join(ROOT, "harness", "cmp_configs.inc")):
        m = re.match(r"CP\((\w+),\s*(\w+),\s*(\d+),\s*(\d+),\s*(\d+),\s*(\w+),\s*(\d)\)", line)
        if m: out.append(dict(name=m.group(1), kbits=int(m.group(3)), signed=0, eps=int(m.group(4)), epsrec=int(m.group(5)), fdouble=int(m.group(7))))
    return out

def gen_cmp(tier, seed):
    rng = random.Random(seed * 179424673 + 81)
    cfgs = cmp_configs()
    cases, stats = [], {"styles": {}, "n": {}}
    per_cfg = 8 if tier == "quick" else 100
    cid = 0
    for cfg in cfgs:
        for j in range(per_cfg):
            style = STYLES[(j + rng.randint(0, 7)) % len(STYLES)]
            n = rng.choice([1, 2, 3, 5, 9, rng.randint(1, 64), rng.randint(20, 400), rng.randint(100, 1500 if tier == "quick" else 5000)])
            if cfg["kbits"] == 8: n = min(n, rng.choice([3, 20, 100, 250]))
            keys = gen_keys(rng, cfg["kbits"], 0, n, cfg["eps"], style)
            if not keys: continue
            qs = gen_queries(rng, cfg["kbits"], 0, keys, 40 if tier == "quick" else 120)
            cid += 1
            cases.append("CMP z%d %s %d %d %d %d | %s | %s" % (cid, cfg["name"], cfg["kbits"], cfg["eps"], cfg["epsrec"], cfg["fdouble"],
                                                              " ".join(map(str, keys)), " ".join(map(str, qs))))
            stats["styles"][style] = stats["styles"].get(style, 0) + 1
    # chunked construction (n >= 2^15, 16 threads): short segments at chunk ends, all keys after every seam queried
    bigs = [c for c in cfgs if c["kbits"] >= 32 and 4 <= c["eps"] <= 8]
    for j in range(2 if tier == "quick" else 12):
        cfg = bigs[j % len(bigs)]
        par = 16
        n = (1 << 15) + rng.randint(0, 3000)
        x, keys = 1000, []
        for _ in range(n):
            x += 1 + int(rng.lognormvariate(2.0, 1.5)); keys.append(x)
        cs = n // par
        qs = set(rng.sample(keys, 200) + [keys[0], keys[-1], keys[-1] + 1])
        for i in range(1, par):
            qs.update(keys[i * cs - 10: i * cs + 90])
        cid += 1
        cases.append("CMP zb%d %s %d %d %d %d %d | %s | %s" % (cid, cfg["name"], cfg["kbits"], cfg["eps"], cfg["epsrec"], cfg["fdouble"], par,
                                                                " ".join(map(str, keys)), " ".join(map(str, sorted(qs)))))
        stats["n"]["chunked"] = stats["n"].get("chunked", 0) + 1
    if tier != "quick":
        # one level with > 50000 segments (Epsilon 1, irregular gaps) and one very long segment inside (a run of consecutive
        # keys): the Elias-Fano intercept vector then exceeds 100000 bits and sdsl's select support takes its large-vector
        # construction path (long superblocks), which smaller indexes never reach
        cfg = next((c for c in cfgs if c["eps"] == 1 and c["kbits"] == 32 and c["epsrec"] == 0), None) or next(c for c in cfgs if c["eps"] == 1)
        keys, k = [], 1000
        R = 6000                                              # (a run long enough for a LONG superblock needs millions of keys:
                                                              #  too slow for the list-based judge, see DESIGN 9.6, seed C08d)
        for i in range(190000 + R):
            if 90000 <= i < 90000 + R: k += 1                 # a long consecutive run = one long segment
            else: k += rng.choice([1, 2, 3, 5, 9, 14, 22])
            keys.append(k)
        qs = sorted(set(rng.sample(keys, 300) + keys[89990:90010] + keys[90000 + R - 10:90000 + R + 10] + keys[93000:93005]
                        + [keys[0], keys[-1], keys[-1] + 5]))
        cid += 1
        cases.append("CMP zh%d %s %d %d %d %d 1 | %s | %s" % (cid, cfg["name"], cfg["kbits"], cfg["eps"], cfg["epsrec"], cfg["fdouble"],
                                                              " ".join(map(str, keys)), " ".join(map(str, qs))))
        stats["n"]["huge-level"] = 1
    return cases, stats


# ---------------------------------------------------------------- domain guard
_CT = {"uint32": (32, 0), "uint64": (64, 0), "int32": (32, 1), "int64": (64, 1)}
def out_of_domain(line):
    """None if every key / query / operand of the case lies inside its key type (the reserved maximum included: rejection cases
    use it on purpose); otherwise a short description.  The harness would silently convert such a literal to the key type while
    the model takes it as written, so a generator slip here must never reach the comparison (it would look like a violation)."""
    secs = line.split(" | "); h = secs[0].split()
    kind = h[0]
    try:
        if kind in ("IDX", "MAP", "DYN"): kb, sg = int(h[3]), int(h[4])
        elif kind in ("SEG", "PLA"): kb, sg = int(h[2]), int(h[3])
        elif kind in ("BKT", "EFI", "CMP"): kb, sg = int(h[3]), 0
        elif kind in ("CIX", "CDY"): kb, sg = _CT[h[2].replace("_t", "")]
        else: return None
    except (ValueError, KeyError, IndexError):
        return None
    lo, hi = krange(kb, sg)
    for sec in secs[1:]:
        for tok in sec.split():
            parts = tok.split(":")
            if kind in ("DYN", "CDY"):
                if parts[0] in ("I", "E", "F", "C", "L", "T"): ks = parts[1:2]
                elif parts[0] == "R": ks = parts[1:3]
                elif parts[0] in ("B", "S", "M", "-"): ks = []
                else: ks = parts[0:1]
            else: ks = parts[0:1]
            for k in ks:
                try: v = int(k)
                except ValueError: continue
                if v < lo or v > hi: return "%s outside [%d, %d]" % (tok, lo, hi)
    return None

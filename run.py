#!/usr/bin/env python3
"""run.py — orchestration of one property check (DESIGN.md 2.3).

  python3 run.py --property C01 --tier quick|thorough
  python3 run.py --setup                 build everything once (MANIFEST.setup_cmd)
  python3 run.py --property C01 --replay evidence/replay/C01-0.case

Steps: lint -> translate (T1..T3) -> prove (make + coqc Properties_<id>.v) -> extract + build the
OCaml driver -> build the C++ harness from /repo's working tree -> correspond -> judge -> verdict
-> evidence/<id>.json.  Exit 0 iff the property held on everything explored.
"""
import argparse, fcntl, hashlib, json, os, random, re, shutil, subprocess, sys, time

ROOT = os.path.dirname(os.path.abspath(__file__))
REPO = os.environ.get("PGM_REPO", "/repo")
COQ = os.path.join(ROOT, "coq")
BUILD = os.path.join(ROOT, "build")
EVID = os.path.join(ROOT, "evidence")
sys.path.insert(0, os.path.join(ROOT, "gen"))
sys.path.insert(0, ROOT)

ALLOWED_AXIOMS = {
    # standard-library axioms only (DESIGN.md section 5)
    "ClassicalDedekindReals.sig_forall_dec", "ClassicalDedekindReals.sig_not_dec",
    "FunctionalExtensionality.functional_extensionality_dep", "Classical_Prop.classic",
    "functional_extensionality_dep", "sig_forall_dec", "sig_not_dec", "classic",
    "Eqdep.Eq_rect_eq.eq_rect_eq", "ProofIrrelevance.proof_irrelevance", "JMeq.JMeq_eq",
    "PropExtensionality.propositional_extensionality",
}

def sh(cmd, timeout=None, cwd=None, env=None, check=False):
    r = subprocess.run(cmd, shell=isinstance(cmd, str), capture_output=True, text=True, timeout=timeout, cwd=cwd, env=env)
    if check and r.returncode:
        raise RuntimeError("command failed: %s\n%s\n%s" % (cmd, r.stdout[-2000:], r.stderr[-2000:]))
    return r

class Lock:
    def __init__(self, name):
        os.makedirs(BUILD, exist_ok=True)
        self.path = os.path.join(BUILD, name + ".lock")
    def __enter__(self):
        self.f = open(self.path, "w"); fcntl.flock(self.f, fcntl.LOCK_EX); return self
    def __exit__(self, *a):
        fcntl.flock(self.f, fcntl.LOCK_UN); self.f.close()

# ------------------------------------------------------------------ lint
FORBIDDEN = re.compile(r"\b(Admitted|admit|Axiom|Axioms|Parameter|Parameters|Conjecture|Conjectures|Admit Obligations)\b|Unset Guard|bypass_check|type-in-type|impredicative-set|Unset Positivity|Unset Universe Checking")
def strip_comments(txt):
    out, depth, i = [], 0, 0
    while i < len(txt):
        if txt.startswith("(*", i): depth += 1; i += 2; continue
        if txt.startswith("*)", i) and depth: depth -= 1; i += 2; continue
        if not depth: out.append(txt[i])
        i += 1
    return "".join(out)

def lint():
    bad = []
    for fn in sorted(os.listdir(COQ)):
        if not fn.endswith(".v"): continue
        txt = strip_comments(open(os.path.join(COQ, fn)).read())
        for m in FORBIDDEN.finditer(txt):
            bad.append("%s: %s" % (fn, m.group(0)))
        # Variable/Hypothesis only inside a Section
        depth = 0
        for line in txt.splitlines():
            s = line.strip()
            if re.match(r"Section\b", s): depth += 1
            elif re.match(r"End\b", s) and depth: depth -= 1
            elif depth == 0 and re.match(r"(Variable|Variables|Hypothesis|Hypotheses|Context)\b", s):
                bad.append("%s: %s outside a Section" % (fn, s.split()[0]))
    for fn in ("_CoqProject",):
        t = open(os.path.join(COQ, fn)).read()
        if FORBIDDEN.search(t): bad.append(fn + ": forbidden flag")
    return bad

# ------------------------------------------------------------------ translate + prove
def translate():
    msgs = []
    for tool, out in (("leaf_translate.py", "GenLeaf.v"), ("effects_translate.py", "GenFootprints.v"), ("layout_translate.py", "GenLayout.v")):
        p = os.path.join(ROOT, "tools", tool)
        if not os.path.exists(p): continue
        tmp = os.path.join(COQ, out + ".new")
        r = sh([sys.executable, p, tmp], timeout=600)
        if r.returncode:
            msgs.append("%s failed: %s" % (tool, (r.stderr or r.stdout).strip()[-500:]))
            if os.path.exists(tmp): os.remove(tmp)
            continue
        dst = os.path.join(COQ, out)
        if not os.path.exists(dst) or open(dst).read() != open(tmp).read():
            os.replace(tmp, dst)           # only touch when changed: keeps make incremental
        else:
            os.remove(tmp)
    return msgs

def coq_make(targets, timeout=3000):
    if not os.path.exists(os.path.join(COQ, "Makefile")) or os.path.getmtime(os.path.join(COQ, "Makefile")) < os.path.getmtime(os.path.join(COQ, "_CoqProject")):
        sh("coq_makefile -f _CoqProject -o Makefile", cwd=COQ, check=True)
    r = sh("timeout %d make -k -j16 %s" % (timeout, " ".join(targets)), cwd=COQ)
    return r.returncode == 0, (r.stdout + r.stderr)

def theorem_names(vfile):
    txt = strip_comments(open(vfile).read())
    return re.findall(r"^\s*(?:Theorem|Lemma|Corollary)\s+([A-Za-z0-9_']+)", txt, re.M)

def prove(pid):
    """returns dict(obligations, discharged, failed[], assumptions{thm: [axioms]}, bad_axioms[], log)"""
    vf = os.path.join(COQ, "Properties_%s.v" % pid)
    res = dict(obligations=0, discharged=0, failed=[], assumptions={}, bad_axioms=[], log="")
    if not os.path.exists(vf):
        res["failed"].append("Properties_%s.v missing" % pid); return res
    thms = theorem_names(vf)
    res["obligations"] = len(thms)
    ok, log = coq_make(["Properties_%s.vo" % pid, "Extract.vo"])
    res["log"] = log[-3000:]
    # re-run coqc on the properties file itself to read the Print Assumptions output
    r = sh("timeout 600 coqc -R . PGM Properties_%s.v" % pid, cwd=COQ)
    out = r.stdout + r.stderr
    if r.returncode != 0:
        # theorems stated at or after the last theorem header preceding the error line are not discharged
        m = re.search(r'line (\d+)', out)
        line = int(m.group(1)) if m else 0
        src = open(vf).read().splitlines()
        starts = []
        for i, l in enumerate(src):
            mm = re.match(r"\s*(Theorem|Lemma|Corollary)\s+([A-Za-z0-9_']+)", l)
            if mm: starts.append((i + 1, mm.group(2)))
        before = [t for (ln, t) in starts if ln <= line]
        closed = before[:-1] if before else []
        res["failed"] = [t for t in thms if t not in closed] or thms
        res["discharged"] = len(closed)
        res["log"] += "\n" + out[-3000:]
        return res
    # parse assumptions: blocks following "Print Assumptions" in order of theorems
    blocks = re.split(r"(?m)^(?=Closed under the global context|Axioms:)", out)
    blocks = [b for b in blocks if b.startswith("Closed under") or b.startswith("Axioms:")]
    pa = re.findall(r"Print Assumptions\s+([A-Za-z0-9_']+)", strip_comments(open(vf).read()))
    for name, b in zip(pa, blocks):
        axs = []
        if b.startswith("Axioms:"):
            for l in b.splitlines()[1:]:
                m = re.match(r"^([A-Za-z0-9_'.]+)\s*:", l)
                if m: axs.append(m.group(1))
        res["assumptions"][name] = axs
        for a in axs:
            if a not in ALLOWED_AXIOMS and a.split(".")[-1] not in ALLOWED_AXIOMS:
                res["bad_axioms"].append("%s depends on %s" % (name, a))
    res["discharged"] = len(thms)
    if not ok:
        res["failed"].append("make failed (dependency of Properties_%s or Extract)" % pid)
    return res

# ------------------------------------------------------------------ builds (content-hash cached)
def tree_hash(paths, extra=""):
    h = hashlib.sha256(extra.encode())
    for p in paths:
        if os.path.isdir(p):
            for d, _, fs in sorted(os.walk(p)):
                for f in sorted(fs):
                    fp = os.path.join(d, f)
                    h.update(fp.encode()); h.update(open(fp, "rb").read())
        elif os.path.exists(p):
            h.update(p.encode()); h.update(open(p, "rb").read())
    return h.hexdigest()[:16]

def build_driver():
    with Lock("driver"):
        ml, mli = os.path.join(COQ, "model.ml"), os.path.join(COQ, "model.mli")
        if not os.path.exists(ml): raise RuntimeError("extraction did not produce model.ml")
        hv = tree_hash([ml, mli, os.path.join(ROOT, "ocaml")])
        d = os.path.join(BUILD, "driver-" + hv)
        exe = os.path.join(d, "driver")
        if not os.path.exists(exe):
            os.makedirs(d, exist_ok=True)
            for f in (ml, mli): shutil.copy(f, d)
            for f in os.listdir(os.path.join(ROOT, "ocaml")): shutil.copy(os.path.join(ROOT, "ocaml", f), d)
            sh("ocamlfind ocamlopt -package zarith -linkpkg -w -a -O3 model.mli model.ml driver.ml -o driver", cwd=d, check=True, timeout=600)
            for old in os.listdir(BUILD):
                if old.startswith("driver-") and old != "driver-" + hv: shutil.rmtree(os.path.join(BUILD, old), ignore_errors=True)
        return exe

CXXFLAGS = "-std=c++17 -O2 -DNDEBUG -march=native -fopenmp -fno-access-control -DPGM_INDEX_VERIF -w"
SANFLAGS = "-std=c++17 -O1 -g -DNDEBUG -march=native -fopenmp -fno-access-control -DPGM_INDEX_VERIF -w -fsanitize=address,undefined -fno-sanitize=alignment,shift,float-cast-overflow -fno-sanitize-recover=all"

def repo_hash():
    return tree_hash([os.path.join(REPO, "include"), os.path.join(REPO, "c-interface")])

def build_harness(targets, san=False, flags=None, cxx="g++"):
    """targets: list of (exe_name, source, extra_flags). Returns dict exe_name -> path (None if build failed), log"""
    with Lock("harness"):
        hv = tree_hash([os.path.join(ROOT, "harness")], repo_hash() + ("san" if san else "") + (flags or "") + cxx)
        d = os.path.join(BUILD, ("hsan-" if san else "h-") + hv)
        os.makedirs(d, exist_ok=True)
        procs, out, log = [], {}, ""
        for name, src, extra in targets:
            exe = os.path.join(d, name)
            out[name] = exe
            if os.path.exists(exe): continue
            cmd = cxx + " %s %s -I%s/include -I%s/c-interface -I%s/harness %s -o %s.tmp && mv %s.tmp %s" % (
                flags or (SANFLAGS if san else CXXFLAGS), extra, REPO, REPO, ROOT, os.path.join(ROOT, "harness", src), exe, exe, exe)
            procs.append((name, subprocess.Popen(cmd, shell=True, stdout=subprocess.PIPE, stderr=subprocess.STDOUT, text=True)))
        for name, p in procs:
            o, _ = p.communicate(timeout=1800)
            if p.returncode:
                log += "build of %s failed:\n%s\n" % (name, o[-3000:]); out[name] = None
        # drop stale caches (keep disk small)
        pref = "hsan-" if san else "h-"
        for old in os.listdir(BUILD):
            if old.startswith(pref) and old != pref + hv: shutil.rmtree(os.path.join(BUILD, old), ignore_errors=True)
        return out, log

# ------------------------------------------------------------------ running cases
def blocks(fn):
    d, cur = {}, None
    if not os.path.exists(fn): return d
    for l in open(fn, errors="replace"):
        l = l.rstrip("\n")
        if l.startswith("C "):
            cur = l[2:]; d[cur] = []
        elif cur is not None:
            d[cur].append(l)
    return d

def run_component(comp, cases, workdir, tag, exes, driver, env_flags, timeout=3000):
    """cases: list of text lines. Returns (impl_blocks, model_blocks, jfails{prop:[(id,what)]}, jsum{prop:(n,f)}, crashed[])"""
    os.makedirs(workdir, exist_ok=True)
    cf = os.path.join(workdir, tag + ".cases")
    open(cf, "w").write("\n".join(cases) + "\n")
    procs = []
    for i, exe in enumerate(exes):
        of = os.path.join(workdir, "%s.impl%d" % (tag, i))
        if os.path.exists(of): os.remove(of)
        procs.append((exe, of, subprocess.Popen([exe, cf, of], stdout=subprocess.PIPE, stderr=subprocess.STDOUT, text=True, env=env_flags.get("env"))))
    crashed = []
    impl_all = os.path.join(workdir, tag + ".impl")
    with open(impl_all, "w") as w:
        for exe, of, p in procs:
            try:
                o, _ = p.communicate(timeout=timeout)
            except subprocess.TimeoutExpired:
                p.kill(); o = "timeout"
            if p.returncode != 0:
                last = None
                if os.path.exists(of):
                    for l in open(of, errors="replace"):
                        if l.startswith("C "): last = l[2:].strip()
                crashed.append((os.path.basename(exe), p.returncode, (o or "")[-1500:], last))
            if os.path.exists(of): w.write(open(of, errors="replace").read())
    mf, jf = os.path.join(workdir, tag + ".model"), os.path.join(workdir, tag + ".judge")
    # the extracted code recurses on lists (not always tail-recursively): give it the whole stack for multi-million-key cases
    import shlex
    r = sh("ulimit -s unlimited 2>/dev/null || ulimit -s 4000000 2>/dev/null; exec " +
           " ".join(shlex.quote(x) for x in [driver, comp, cf, impl_all, mf, jf, env_flags.get("conv", "avx512")]), timeout=timeout)
    if r.returncode:
        raise RuntimeError("driver failed: " + (r.stderr or r.stdout)[-2000:])
    jfails, jsum = {}, {}
    for l in open(jf):
        t = l.rstrip("\n").split(" ", 3)
        if t[0] == "JFAIL": jfails.setdefault(t[1], []).append((t[2], t[3] if len(t) > 3 else ""))
        elif t[0] == "JSUM":
            a = l.split(); jsum[a[1]] = (int(a[2]), int(a[3]))
    return blocks(impl_all), blocks(mf), jfails, jsum, crashed

def diff_blocks(impl, model, ids, ignore_prefixes=()):
    diffs = []
    for cid in ids:
        a = [l for l in impl.get(cid, ["<missing>"]) if not l.startswith(ignore_prefixes)] if ignore_prefixes else impl.get(cid, ["<missing>"])
        b = [l for l in model.get(cid, ["<missing>"]) if not l.startswith(ignore_prefixes)] if ignore_prefixes else model.get(cid, ["<missing>"])
        if a != b:
            first = next(((x, y) for x, y in zip(a, b) if x != y), (("<len %d>" % len(a)), ("<len %d>" % len(b))))
            diffs.append((cid, first[0], first[1]))
    return diffs

# ------------------------------------------------------------------ known findings
def load_known():
    out = []
    p = os.path.join(ROOT, "known_findings.txt")
    if os.path.exists(p):
        for l in open(p):
            l = l.strip()
            if l.startswith("finding:"):
                m = re.match(r"finding:\s+property=(\S+)\s+key=(\S+)\s+(.*)$", l)
                if m: out.append(dict(prop=m.group(1), key=m.group(2), text=m.group(3)))
    return out

# ------------------------------------------------------------------ main
def main():
    ap = argparse.ArgumentParser()
    ap.add_argument("--property"); ap.add_argument("--tier", default=os.environ.get("VERIF_TIER", "quick"))
    ap.add_argument("--setup", action="store_true"); ap.add_argument("--replay")
    ap.add_argument("--no-prove", action="store_true")
    a = ap.parse_args()
    os.makedirs(BUILD, exist_ok=True); os.makedirs(EVID, exist_ok=True)
    import props
    if a.setup:
        with Lock("coq"):
            msgs = translate()
            ok, log = coq_make([], timeout=7000)
        print(log[-1500:])
        if msgs: print("\n".join(msgs))
        if not ok: sys.exit(1)
        build_driver()
        targets = []
        for comp in props.COMPONENTS.values():
            targets += comp["targets"]
        out, log = build_harness(sorted(set(targets)))
        print(log)
        sys.exit(0 if all(out.values()) else 1)
    pid = a.property
    seed = int(os.environ.get("VERIF_SEED", "20260930"))
    t0 = time.time()
    try:
        rc = props.check(pid, a.tier, seed, a, t0)
    except Exception:
        # the machinery itself failed (e.g. the implementation's output could not be interpreted): the property is no
        # longer shown to hold on this tree
        import traceback
        rd = os.path.join(EVID, "replay"); os.makedirs(rd, exist_ok=True)
        rp = os.path.join(rd, "%s-machinery.txt" % pid)
        open(rp, "w").write("the check could not complete:\n" + traceback.format_exc())
        traceback.print_exc()
        print("VIOLATION property=%s replay=%s no-failing-input-found" % (pid, rp))
        rc = 1
    sys.exit(rc)

if __name__ == "__main__":
    main()

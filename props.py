"""props.py — per-property check definitions and the generic verdict logic (DESIGN.md 2.3)."""
import json, os, random, re, sys, time, shutil
import run as R
import gens

ROOT = R.ROOT

# ---------------------------------------------------------------- components
COMPONENTS = {
    "idx": dict(driver_mode="idx",
                targets=[("idx0", "idx.cpp", "-DIDX_GROUP=0"), ("idx1", "idx.cpp", "-DIDX_GROUP=1"), ("idx2", "idx.cpp", "-DIDX_GROUP=2")]),
    "dyn": dict(driver_mode="dyn", targets=[("dyn", "dyn.cpp", "")]),
    "var": dict(driver_mode="var", targets=[("var", "var.cpp", "")]),
    "map": dict(driver_mode="map", targets=[("map", "map.cpp", "")]),
    "mul": dict(driver_mode="mul", targets=[("multi", "multi.cpp", "")]),
    "capi": dict(driver_mode="capi", targets=[("capi", "capi.cpp", R.REPO + "/c-interface/cpgm.cpp")]),
}
COMPONENTS["cmp"] = dict(driver_mode="cmp", targets=[("cmp", "cmp.cpp", "")])
COMPONENTS["thr"] = dict(driver_mode="thr", targets=[("threads", "threads.cpp", "-lpthread")])
COMPONENTS["own"] = dict(driver_mode="own", targets=[("own", "own.cpp", "")])
# composite component: every harness reads the same case file and answers only the kinds it knows
COMPONENTS["all"] = dict(driver_mode="all", targets=[t for k in ("idx", "dyn", "var", "map", "mul", "capi") for t in COMPONENTS[k]["targets"]])

TRUSTED_COMMON = [
    "Coq 8.16.1 kernel (coqc); vm_compute used in Examples only; no native_compute",
    "extraction: Require Extraction + ExtrOcamlBasic only (bool/option/unit/list/prod/sumbool/sumor mapped to OCaml types, andb/orb inlined); Z/positive/N/nat stay extracted inductives",
    "OCaml 4.13.1, zarith (decimal I/O only), ocaml/driver.ml",
    "C++ correspondence harness (harness/*.cpp, built from /repo's working tree with -DPGM_INDEX_VERIF -fno-access-control), case generators gens.py, run.py/props.py",
    "translator tools/leaf_translate.py (macros PGM_SUB_EPS/PGM_ADD_EPS/CEIL_INT_DIV/BIT_WIDTH and constants regenerated into coq/GenLeaf.v on every run)",
    "Flocq 4.1.0 as the definition of IEEE-754 arithmetic (executable model only); g++ 12 x86-64 evaluates float/double in SSE2 and long double in x87, validated bit-exactly by the correspondence",
    "modelled, not verified: libstdc++ containers/algorithms, OpenMP scheduling, sdsl internals, mmap/file system, the C++ object model",
]

# ---------------------------------------------------------------- classifiers for known findings
def no_classifier(case, what): return False

def cmp_tiny_input(case, what):
    """CompressedPGMIndex over fewer keys than Epsilon: the intercept universe prev_level_size - offset + 2 is smaller than the
    number of intercepts and sdsl's builder throws runtime_error"""
    t = case.split("|")
    h = t[0].split()
    if h[0] != "CMP" or "threw runtime_error" not in what: return False
    n, eps = len(t[1].split()), int(h[4])
    return n < eps

def cmp_chunked_clamp(case, what):
    """CompressedPGMIndex built in chunks (n >= 2^15, >= 2 threads): the short segments at chunk ends have intercepts
    closer than 1 and the strictly-increasing clamp of CompressedLevel moves them by more than the slack"""
    t = case.split("|")
    h = t[0].split()
    if h[0] != "CMP" or len(h) < 8: return False
    return int(h[7]) >= 2 and len(t[1].split()) >= (1 << 15) and ("present" in what or "lower_bound" in what)

def c07_scan_beyond_last(case, what):
    """linear-scan routing, query above the last key, exactly one read more than 2*eps_r+3 (the real segment opened by the
    closing point and the extra (last+1) segment share a key) -- Coq: IdxGapRefute.C07_refuted / C07_route_trace_wide"""
    t = case.split("|")
    h = t[0].split()
    if h[0] != "IDX": return False
    m, mq = re.search(r"touched=(\d+)", what), re.search(r"\bq=(-?\d+)", what)
    if not (m and mq): return False
    epsrec, kbits, fdouble = int(h[6]), int(h[3]), int(h[7])
    threshold = 512 // (kbits // 8 + (8 if fdouble else 4) + 4)
    keys = t[1].split()
    return epsrec <= threshold and int(m.group(1)) == 2 * epsrec + 4 and int(mq.group(1)) > int(keys[-1])

CLASSIFIERS = {"cmp_tiny_input_runtime_error": cmp_tiny_input, "cmp_chunked_clamp": cmp_chunked_clamp, "c07_scan_beyond_last": c07_scan_beyond_last}

# ---------------------------------------------------------------- property table
def P(**kw): return kw

def gen_c04(tier, seed):
    """segmentation cases + whole-index builds (upper levels are segmentations with EpsilonRecursive: judged per level),
    preferring configurations with EpsilonRecursive > Epsilon"""
    cases, stats = gens.gen_seg(tier, seed)
    idx, st2 = gens.gen_idx(tier, seed, want_big=False) if "want_big" in gens.gen_idx.__code__.co_varnames else gens.gen_idx(tier, seed)
    def hdr(l): h = l.split(" | ")[0].split(); return int(h[5]), int(h[6])        # Epsilon, EpsilonRecursive
    idx = [l for l in idx if l.startswith("IDX ") and len(l) < 400000]
    pick = [l for l in idx if hdr(l)[1] > hdr(l)[0]] + [l for l in idx if 0 < hdr(l)[1] <= hdr(l)[0]][: (20 if tier == "quick" else 200)]
    stats["index_builds"] = len(pick)
    return cases + pick, stats

PROPS = {
    "C01": P(comp="idx", gen=lambda t, s: gens.gen_idx(t, s), judges=["C01"], kinds=("IDX", "FLT"),
             nontrivial=lambda line: len(line.split("|")[1].split()) >= 2),
    "C02": P(comp="idx", gen=lambda t, s: gens.gen_idx(t, s + 1), judges=["C02"], kinds=("IDX", "FLT"),
             nontrivial=lambda line: len(line.split("|")[1].split()) >= 2),
    "C07": P(comp="idx", gen=lambda t, s: gens.gen_idx(t, s + 2), judges=["C07"], kinds=("IDX",),
             nontrivial=lambda line: len(line.split("|")[1].split()) >= 64),
    "C05": P(comp="dyn", gen=lambda t, s: gens.gen_dyn(t, s), judges=["C05"], kinds=("DYN",),
             nontrivial=lambda line: len(line.split("|")[2].split()) >= 10),
    "C06": P(comp="dyn", gen=lambda t, s: gens.gen_dyn(t, s + 3), judges=["C06"], kinds=("DYN",),
             nontrivial=lambda line: len(line.split("|")[2].split()) >= 10),
    "C15": P(comp="dyn", gen=lambda t, s: gens.gen_dyn(t, s + 6), judges=["C15"], kinds=("DYN",),
             nontrivial=lambda line: len(line.split("|")[2].split()) >= 10),
    "C08": P(comp="cmp", gen=lambda t, s: gens.gen_cmp(t, s), judges=["C08"], kinds=("CMP",), certq="C08certq",
             nontrivial=lambda line: len(line.split("|")[1].split()) >= 2),
    "C09": P(comp="var", gen=lambda t, s: gens.gen_var(t, s, "BK"), judges=["C09"], kinds=("BKT",),
             nontrivial=lambda line: len(line.split("|")[1].split()) >= 2),
    "C10": P(comp="var", gen=lambda t, s: gens.gen_var(t, s, "EF"), judges=["C10"], kinds=("EFI",),
             nontrivial=lambda line: len(line.split("|")[1].split()) >= 2),
    "C11": P(comp="map", gen=lambda t, s: gens.gen_map(t, s), judges=["C11"], kinds=("MAP",),
             nontrivial=lambda line: len(line.split("|")[1].split()) >= 3),
    "C12": P(comp="map", gen=lambda t, s: gens.gen_map(t, s + 4), judges=["C12"], kinds=("MAP",),
             nontrivial=lambda line: len(line.split("|")[1].split()) >= 3),
    "C13": P(comp="mul", gen=lambda t, s: gens.gen_multi(t, s), judges=["C13"], kinds=("MUL",),
             nontrivial=lambda line: len(line.split("|")[1].split()) >= 3),
    "C14": P(comp="mul", gen=lambda t, s: gens.gen_multi(t, s + 8), judges=["C14"], kinds=("MUL",),
             nontrivial=lambda line: len(line.split("|")[1].split()) >= 3),
    "C18": P(comp="capi", gen=lambda t, s: gens.gen_capi(t, s), judges=["C18"], kinds=("CIX", "CDY"),
             nontrivial=lambda line: len(line.split("|")[1].split()) >= 2),
    "C20": P(comp="all", gen=lambda t, s: gens.gen_reject(t, s), judges=["C20"], kinds=("IDX", "BKT", "EFI", "MAP", "CIX", "MUL", "DYN", "PLA"),
             nontrivial=lambda line: True),
    "C17": P(comp="all", gen=lambda t, s: gens.gen_all(t, s, 0.25 if t == "quick" else 1.0), judges=["C17"], san=True,
             kinds=("IDX", "SEG", "BKT", "EFI", "MAP", "CIX", "CDY", "MUL", "DYN", "PLA"), nontrivial=lambda line: True),
    "C19": P(comp="own", gen=lambda t, s: gens.gen_own(t, s), judges=["C19"], kinds=("OWN",), san=True, nontrivial=lambda line: True),
    "C16": P(comp="thr", gen=lambda t, s: gens.gen_thr(t, s), judges=["C16"], kinds=("THR",), san=True, cxx="clang++",
             flags="-std=c++17 -O1 -g -DNDEBUG -march=native -w -fsanitize=thread", nontrivial=lambda line: True),
    "C03": P(comp="idx", gen=lambda t, s: gens.gen_seg(t, s), judges=["C03"], kinds=("SEG",),
             nontrivial=lambda line: len(line.split("|")[1].split()) >= 3),
    "C04": P(comp="idx", gen=lambda t, s: gen_c04(t, s + 5), judges=["C04"], kinds=("SEG", "IDX"),
             nontrivial=lambda line: len(line.split("|")[1].split()) >= 3),
}

# ---------------------------------------------------------------- helpers
def case_id(line): return line.split()[1]

def load_corpus(pid, kinds):
    d = os.path.join(ROOT, "corpus", pid)
    out = []
    if os.path.isdir(d):
        for fn in sorted(os.listdir(d)):
            for l in open(os.path.join(d, fn)):
                l = l.strip()
                if l and not l.startswith("#") and l.split()[0] in kinds:
                    t = l.split(); t[1] = "corpus_%s_%d" % (re.sub(r"\W", "_", fn), len(out)); out.append(" ".join(t))
    return out

def probe_env(exe):
    r = R.sh([exe, "--probe"], timeout=60)
    conv = "avx512"
    for l in r.stdout.splitlines():
        if l.startswith("conv_big"):
            conv = "avx512" if l.split()[1] == str(2 ** 64 - 1) else "sse"
    return dict(conv=conv)

def shrink(pid, spec, line, fails, ctx, full=True):
    """Greedy delta-debugging on the sections of a failing case line. `fails(line)` re-runs both sides."""
    head, *secs = [s.strip() for s in line.split("|")]
    secs = [s.split() for s in secs]
    budget = [60]
    deadline = time.time() + 90
    m = re.search(r"\bq=(-?\d+)", ctx or "")
    if m and len(secs) >= 2 and m.group(1) in secs[-1]:
        trial = [list(s) for s in secs]; trial[-1] = [m.group(1)]
        try:
            if fails(" | ".join([head] + [" ".join(s) for s in trial])): secs = trial
        except Exception: pass
    if not full:
        return " | ".join([head] + [" ".join(s) for s in secs])
    deadline = time.time() + 60
    def build(ss): return " | ".join([head] + [" ".join(s) for s in ss])
    def still(ss):
        if budget[0] <= 0 or time.time() > deadline: return False
        budget[0] -= 1
        try: return fails(build(ss))
        except Exception: return False
    for si in range(len(secs) - 1, -1, -1):
        chunk = max(1, len(secs[si]) // 2)
        while chunk >= 1 and budget[0] > 0:
            i, changed = 0, False
            while i < len(secs[si]) and budget[0] > 0:
                trial = [list(s) for s in secs]
                del trial[si][i:i + chunk]
                if (si != 0 or trial[si]) and still(trial):
                    secs = trial; changed = True
                else:
                    i += chunk
            if chunk == 1 and not changed: break
            chunk = max(1, chunk // 2) if chunk > 1 else (1 if changed else 0)
            if chunk == 0: break
    return build(secs)

# ---------------------------------------------------------------- generic check
def check(pid, tier, seed, args, t0):
    if pid not in PROPS:
        print("unknown property", pid); return 2
    spec = PROPS[pid]
    comp = COMPONENTS[spec["comp"]]
    notes, violations, known_hits = [], [], []
    replay_dir = os.path.join(R.EVID, "replay"); os.makedirs(replay_dir, exist_ok=True)
    for f in os.listdir(replay_dir):
        if f.startswith(pid + "-") and not args.replay: os.remove(os.path.join(replay_dir, f))

    # 1-3 lint / translate / prove
    lint_bad = R.lint()
    with R.Lock("coq"):
        tmsgs = R.translate()
        pr = R.prove(pid) if not args.no_prove else dict(obligations=1, discharged=1, failed=[], assumptions={}, bad_axioms=[], log="")
        model_ok = os.path.exists(os.path.join(R.COQ, "Extract.vo"))     # make's status (in prove) tells whether it is current
        driver = R.build_driver() if os.path.exists(os.path.join(R.COQ, "model.ml")) else None
    coqchk_note = None
    if tier == "thorough" and not args.no_prove and not pr["failed"]:
        # independent re-check of the compiled property file and everything it depends on
        r = R.sh("timeout 5400 coqchk -silent -o -R . PGM PGM.Properties_%s" % pid, cwd=R.COQ)
        tail = (r.stdout + r.stderr)[-1500:]
        coqchk_note = "coqchk exit %d: %s" % (r.returncode, " ".join(tail.split())[-700:])
        if r.returncode != 0: pr["failed"].append("coqchk rejected Properties_%s.vo" % pid)
    broken = []
    if lint_bad: broken.append("lint: " + "; ".join(lint_bad[:5]))
    if tmsgs: broken.append("translator: " + "; ".join(tmsgs))
    if pr["failed"]: broken.append("proof obligations not discharged: " + ", ".join(pr["failed"]))
    if pr["bad_axioms"]: broken.append("axioms outside the allowed list: " + "; ".join(pr["bad_axioms"]))
    if pr["obligations"] == 0: broken.append("no theorem found in Properties_%s.v" % pid)
    if not model_ok: broken.append("the model no longer compiles against the regenerated Gen*.v (Extract.vo stale)")

    # 4 harness
    exes, blog = R.build_harness(comp["targets"], san=bool(spec.get("san")), flags=spec.get("flags"), cxx=spec.get("cxx", "g++"))
    if blog:
        # the repository no longer compiles with the harness: nothing can be executed
        print(blog[-2000:])
        rp = os.path.join(replay_dir, "%s-build.txt" % pid)
        open(rp, "w").write("harness build against /repo failed:\n" + blog)
        print("VIOLATION property=%s replay=%s no-failing-input-found" % (pid, rp))
        write_evidence(pid, tier, seed, pr, 0, 0, {}, [], ["harness build failed"], 1, t0, spec, broken)
        return 1
    exelist = [exes[t[0]] for t in comp["targets"]]
    env = probe_env(exelist[0]) if spec.get("comp") not in ("thr", "own") else dict(conv="avx512")
    if spec.get("san"):
        e2 = dict(os.environ); e2["ASAN_OPTIONS"] = "detect_leaks=0:abort_on_error=0"; e2["UBSAN_OPTIONS"] = "print_stacktrace=1"
        e2["TSAN_OPTIONS"] = "halt_on_error=1"; env["env"] = e2

    # 5-6 correspond + judge
    os.environ["PGM_CERT_MAXN"] = "3000" if tier == "quick" else "60000"      # size limit for the run-time certificate (C08)
    if args.replay:
        cases = [l.strip() for l in open(args.replay) if l.strip() and not l.startswith("#") and l.split()[0] in spec["kinds"]]
        stats = {"replay": args.replay}
    else:
        cases, stats = spec["gen"](tier, seed)
        dropped = [(c, gens.out_of_domain(c)) for c in cases]
        cases = [c for c, why in dropped if why is None]
        dropped = [(c, why) for c, why in dropped if why is not None]
        if dropped:
            notes.append("generator produced %d case(s) with a literal outside the key type; dropped before execution (first: %s: %s)" % (
                len(dropped), dropped[0][0][:60], dropped[0][1]))
        cases = load_corpus(pid, spec["kinds"]) + cases
    work = os.path.join(R.BUILD, "work-%s-%d" % (pid, os.getpid()))
    try:
        impl, model, jfails, jsum, crashed = R.run_component(comp["driver_mode"], cases, work, "main", exelist, driver, env)
        by_id = {case_id(l): l for l in cases}
        diffs = R.diff_blocks(impl, model, [case_id(l) for l in cases])
        fails = []
        for j in spec["judges"]:
            fails += [(cid, what, j) for cid, what in jfails.get(j, [])]
        other = ["%s on %s: %s" % (j, cid, what[:160]) for j in sorted(jfails) if j not in spec["judges"] and not j.startswith("C08c") and j != "C08struct"
                 for cid, what in jfails[j][:2]]
        if other:
            notes.append("judges of OTHER properties failed on these cases (decided by those properties' own checks): " + " | ".join(other[:6]))
        if spec.get("certq"):
            # queries named by a failed certificate (model side): run them through the implementation and the ordinary judge
            follow = []
            for cid, what in jfails.get(spec["certq"], []):
                line = by_id.get(cid)
                if line is None: continue
                secs = line.split(" | ")
                if len(secs) != 3: continue
                hd = secs[0].split(" "); hd[1] = hd[1] + "_cq"
                follow.append(" | ".join([" ".join(hd), secs[1], what]))
            if follow:
                i4, m4, jf4, js4, cr4 = R.run_component(comp["driver_mode"], follow, work, "certq", exelist, driver, env)
                for l in follow: by_id[case_id(l)] = l
                for j in spec["judges"]:
                    fails += [(cid, what, j) for cid, what in jf4.get(j, [])]
                notes.append("certificate follow-up: %d cases re-run on the queries named by the failed certificate" % len(follow))
        for exe, rc, out, last in crashed:
            # the crashing case is the last one the executable started
            notes.append("harness %s exited with %s on case %s: %s" % (exe, rc, last, out[-300:]))
        def rerun_fails(line):
            i2, m2, jf2, _, cr2 = R.run_component(comp["driver_mode"], [line], work, "shrink", exelist, driver, env, timeout=300)
            return any(jf2.get(j) for j in spec["judges"]) or bool(cr2)
        def rerun_diff(line):
            i2, m2, jf2, _, cr2 = R.run_component(comp["driver_mode"], [line], work, "shrink", exelist, driver, env, timeout=300)
            return bool(R.diff_blocks(i2, m2, [case_id(line)])) or bool(cr2)
        known = [k for k in R.load_known() if k["prop"] == pid]
        seen_classes = set()
        nrep = 0
        for cid, what, j in fails[:400]:
            line = by_id.get(cid)
            if line is None: continue
            hit = next((k for k in known if CLASSIFIERS.get(k["key"], no_classifier)(line, what)), None)
            if hit:
                if hit["key"] not in seen_classes:
                    seen_classes.add(hit["key"]); known_hits.append(hit)
                continue
            if nrep >= 3: continue
            small = shrink(pid, spec, line, rerun_fails, what, full=(nrep == 0 and len(line) < 100000))
            rp = os.path.join(replay_dir, "%s-%d.case" % (pid, nrep)); nrep += 1
            open(rp, "w").write("# property %s judge %s failed on the implementation's output: %s\n# replay: python3 run.py --property %s --replay %s\n%s\n" % (pid, j, what, pid, rp, small))
            violations.append((rp, False))
        if crashed and not violations:
            for ci, (exe, rc, out, last) in enumerate(crashed[:3]):
                rp = os.path.join(replay_dir, "%s-crash%d.case" % (pid, ci))
                rep = "\n".join("# " + l for l in out.splitlines()[-25:])
                open(rp, "w").write("# the implementation (harness %s) terminated abnormally (exit %s) on this case\n%s\n%s\n" % (exe, rc, rep, by_id.get(last, "\n".join(cases[:20]))))
                violations.append((rp, False))
        if (broken or diffs) and not violations:
            # proof or correspondence broken, judge found nothing: widen the search once
            extra, _ = spec["gen"]("thorough" if tier == "quick" else "thorough", seed + 977)
            extra = [c for c in extra if gens.out_of_domain(c) is None][:4000]
            i3, m3, jf3, js3, cr3 = R.run_component(comp["driver_mode"], extra, work, "search", exelist, driver, env)
            by3 = {case_id(l): l for l in extra}
            f3 = []
            for j in spec["judges"]:
                f3 += [(cid, what, j) for cid, what in jf3.get(j, [])]
            for j, (n, f) in js3.items():
                a, b = jsum.get(j, (0, 0)); jsum[j] = (a + n, b + f)
            if f3:
                cid, what, j = f3[0]
                small = shrink(pid, spec, by3[cid], rerun_fails, what)
                rp = os.path.join(replay_dir, "%s-0.case" % pid)
                open(rp, "w").write("# property %s judge %s failed: %s\n%s\n" % (pid, j, what, small))
                violations.append((rp, False))
            else:
                rp = os.path.join(replay_dir, "%s-nofail.txt" % pid)
                with open(rp, "w") as w:
                    w.write("# property %s is no longer shown to hold; no failing input found by the judge\n" % pid)
                    for b in broken: w.write("broken: %s\n" % b)
                    for cid, x, y in diffs[:5]:
                        small = shrink(pid, spec, by_id[cid], rerun_diff, None) if len(by_id[cid]) < 200000 else by_id[cid]
                        w.write("correspondence differs on case %s\n  impl : %s\n  model: %s\n%s\n" % (cid, x, y, small))
                    if pr.get("log") and pr["failed"]: w.write("\n--- coq log ---\n" + pr["log"][-3000:])
                violations.append((rp, True))
    finally:
        shutil.rmtree(work, ignore_errors=True)

    for k in known_hits:
        print("KNOWN-FINDING: property=%s %s" % (pid, k["text"]))
    for rp, nofail in violations:
        print("VIOLATION property=%s replay=%s%s" % (pid, rp, " no-failing-input-found" if nofail else ""))
    ncases = len(cases)
    nontriv = len(set(l.split(" ", 2)[2] for l in cases if spec["nontrivial"](l)))
    write_evidence(pid, tier, seed, pr, ncases, nontriv, dict(stats=stats, judge=jsum, diffs=len(diffs), env=env),
                   [c[:300] for c in cases[:3]], notes + broken + ([coqchk_note] if coqchk_note else []), len(violations), t0, spec, broken, known_hits)
    print("%s: %d cases, %d correspondence diffs, judge %s, obligations %d/%d, violations %d, %.1fs" % (
        pid, ncases, len(diffs), jsum, pr["discharged"], pr["obligations"], len(violations), time.time() - t0))
    return 1 if violations else 0

def write_evidence(pid, tier, seed, pr, ncases, nontriv, extra, samples, notes, nviol, t0, spec, broken, known_hits=()):
    axioms = sorted(set(a for v in pr.get("assumptions", {}).values() for a in v))
    ev = {
        "property_id": pid, "tier": "thorough" if tier == "thorough" else "quick", "seed": seed, "level": "proof",
        "coverage": {
            "obligations": pr["obligations"], "discharged": pr["discharged"] if not pr["failed"] else min(pr["discharged"], pr["obligations"] - 1),
            "checker_cmd": "cd /verif/coq && coq_makefile -f _CoqProject -o Makefile && make -j16 && coqc -R . PGM Properties_%s.v  (full .vo build; Print Assumptions parsed per theorem)" % pid,
            "trusted_base": TRUSTED_COMMON + ["axioms reported by Print Assumptions: " + (", ".join(axioms) if axioms else "none (closed under the global context)")],
            "theorems": pr.get("assumptions", {}),
            "evaluations": ncases, "distinct_nontrivial": nontriv,
            "rule": "correspondence cases generated by gens.py from VERIF_SEED (styles dense/sparse/clustered/runs/band/steps/top/bottom, boundary and far queries, chunked n>=2^15); a case is non-trivial when its input section is long enough to exercise more than one segment/level; distinct = distinct (configuration, input) text",
            "samples": samples or ["<none>"],
            "traces_validated_against_impl": ncases,
            "correspondence": extra,
        },
        "assumptions": notes + ["model tied to /repo by differential correspondence (build-level and query-level) and by regenerated GenLeaf.v"],
        "wall_s": round(time.time() - t0, 2),
        "violations": nviol,
        "known_findings": [k["text"] for k in known_hits],
    }
    json.dump(ev, open(os.path.join(R.EVID, pid + ".json"), "w"), indent=1)

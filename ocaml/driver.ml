(* driver.ml — runs the extracted model (module Model) and the extracted judges on case files.
   Numbers cross the boundary as decimal strings through Zarith; Z stays the extracted type inside. *)
module ZA = Z
open Model

(* ---- conversions between Zarith integers and the extracted binary integers ---- *)
let rec pos_of_zz (v : ZA.t) : positive =
  if ZA.equal v ZA.one then XH
  else if ZA.testbit v 0 then XI (pos_of_zz (ZA.shift_right v 1))
  else XO (pos_of_zz (ZA.shift_right v 1))
let z_of_zz (v : ZA.t) : z =
  let s = ZA.sign v in
  if s = 0 then Z0 else if s > 0 then Zpos (pos_of_zz v) else Zneg (pos_of_zz (ZA.neg v))
let rec zz_of_pos (p : positive) : ZA.t =
  match p with
  | XH -> ZA.one
  | XO q -> ZA.shift_left (zz_of_pos q) 1
  | XI q -> ZA.succ (ZA.shift_left (zz_of_pos q) 1)
let zz_of_z (v : z) : ZA.t =
  match v with Z0 -> ZA.zero | Zpos p -> zz_of_pos p | Zneg p -> ZA.neg (zz_of_pos p)
let zin (s : string) : z = z_of_zz (ZA.of_string s)
let zout (v : z) : string = ZA.to_string (zz_of_z v)
let zi (i : int) : z = z_of_zz (ZA.of_int i)
let iz (v : z) : int = ZA.to_int (zz_of_z v)

let err_name = function
  | ThrowInvalidArgument -> "throw invalid_argument"
  | ThrowLogicError -> "throw logic_error"
  | ThrowOverflowError -> "throw overflow_error"
  | ThrowRuntimeError -> "throw runtime_error"
  | OutOfBounds -> "err out_of_bounds"
  | UBShift -> "err ub_shift"
  | UBSelect -> "err ub_select"
  | UBDerefEnd -> "err ub_deref_end"
  | UBDivZero -> "err ub_div_zero"
  | OutOfFuel -> "err out_of_fuel"

(* ---- case-file parsing: "TAG a b c | d e | f" ---- *)
let sections (line : string) : string list list =
  let toks = List.filter (fun s -> s <> "") (String.split_on_char ' ' line) in
  let rec go cur acc = function
    | [] -> List.rev (List.rev cur :: acc)
    | "|" :: t -> go [] (List.rev cur :: acc) t
    | x :: t -> go (x :: cur) acc t in
  go [] [] toks

let nth_sec secs i = try List.nth secs i with _ -> []

let read_lines (fn : string) : string list =
  let ic = open_in fn in
  let rec go acc = match input_line ic with
    | l -> go (l :: acc)
    | exception End_of_file -> close_in ic; List.rev acc in
  go []

(* implementation output: blocks introduced by "C <id>" *)
let impl_blocks (fn : string) : (string, string list list) Hashtbl.t =
  let h = Hashtbl.create 1024 in
  if fn <> "-" then begin
    let cur = ref "" and acc = ref [] in
    let flush () = if !cur <> "" then Hashtbl.replace h !cur (List.rev !acc) in
    List.iter (fun l ->
      match String.split_on_char ' ' l with
      | "C" :: id :: _ -> flush (); cur := id; acc := []
      | toks -> acc := toks :: !acc) (read_lines fn);
    flush ()
  end;
  h

let pr = Printf.fprintf
let fr (m, e) = zout m ^ " " ^ zout e

(* judge bookkeeping *)
let jcount : (string, int * int) Hashtbl.t = Hashtbl.create 16
let judge (oc : out_channel) (prop : string) (id : string) (what : string) (ok : bool) =
  let (n, f) = try Hashtbl.find jcount prop with Not_found -> (0, 0) in
  Hashtbl.replace jcount prop (n + 1, if ok then f else f + 1);
  if not ok then pr oc "JFAIL %s %s %s\n" prop id what

let avx512 = ref true

(* C20: a build either throws exactly the expected exception when the input violates the precondition, or succeeds *)
let judge_reject jo id lines (tag : string) (violates : bool) (expected_kind : string) =
  List.iter (fun toks -> match toks with
    | [t; "throw"; kind] when t = tag -> judge jo "C20" id (tag ^ " threw " ^ kind ^ " (precondition violated: " ^ string_of_bool violates ^ ")") (violates && kind = expected_kind)
    | [t; "ok"] when t = tag -> judge jo "C20" id (tag ^ ": invalid input was accepted") (not violates)
    | [t; "null"] when t = tag -> judge jo "C20" id (tag ^ ": NULL returned (precondition violated: " ^ string_of_bool violates ^ ")") violates
    | _ -> ()) lines

let ends_with_reserved kt data = match List.rev data with l :: _ -> zout l = zout (kmax kt) | [] -> false


(* ---- IDX: PGMIndex build + search ---- *)
let run_idx mo jo impl secs =
  match secs with
  | ("IDX" :: id :: _name :: kb :: sg :: eps :: epsrec :: fd :: par :: _) :: _ ->
    let cfg = { c_kt = { kbits = zin kb; ksigned = (sg = "1") }; c_eps = zin eps; c_epsrec = zin epsrec;
                c_fdouble = (fd = "1"); c_par = zin par; c_avx512 = !avx512 } in
    let data = List.map zin (nth_sec secs 1) in
    let queries = List.map zin (nth_sec secs 2) in
    pr mo "C %s\n" id;
    (match build cfg data with
     | Err e -> pr mo "B %s\n" (err_name e)
     | Ok ix ->
       pr mo "B ok\n";
       pr mo "N %s %s\n" (zout ix.ix_n) (zout ix.ix_first_key);
       pr mo "O%s\n" (String.concat "" (List.map (fun o -> " " ^ zout o) ix.ix_offsets));
       List.iter (fun s -> pr mo "S %s %s %s\n" (zout s.sg_key) (fr (frepr64 s.sg_slope)) (zout s.sg_icpt)) ix.ix_segments;
       List.iter (fun q ->
         match search_tr cfg ix q with
         | Err e -> pr mo "Q %s %s\n" (zout q) (err_name e)
         | Ok (a, tr) ->
           pr mo "Q %s %s %s %s\n" (zout q) (zout a.a_pos) (zout a.a_lo) (zout a.a_hi);
           List.iter (fun (((l, wlo), first), last) ->
             pr mo "T %s %s %s %s %s\n" (zout q) (zout l) (zout wlo) (zout first) (zout last)) (List.rev tr)) queries);
    (* judge the implementation's own answers *)
    (match Hashtbl.find_opt impl id with
     | None -> ()
     | Some lines ->
       let sentinel = kmax cfg.c_kt in
       let reserved = List.exists (fun d -> zout d = zout sentinel) data && (match List.rev data with l :: _ -> zout l = zout sentinel | [] -> false) in
       List.iter (fun toks -> match toks with
         | ["B"; "throw"; kind] -> judge jo "C20" id ("build threw " ^ kind) (kind = "invalid_argument" && reserved)
         | ["B"; "ok"] -> judge jo "C20" id "data ending with the reserved value was indexed" (not reserved)
         | _ -> ()) lines;
       let present = Hashtbl.create 1024 in
       List.iter (fun d -> Hashtbl.replace present (zout d) ()) data;
       let epsrec = iz cfg.c_epsrec in
       (* level layout of the implementation's own index, for the routing judge *)
       let offs = Array.of_list (List.concat_map (function "O" :: t -> List.map int_of_string t | _ -> []) lines) in
       let segk = Array.of_list (List.filter_map (function ["S"; k; _; _; _] -> Some (zz_of_z (zin k)) | _ -> None) lines) in
       let fkey = List.fold_left (fun a l -> match l with ["N"; _; f] -> ZA.of_string f | _ -> a) ZA.zero lines in
       List.iter (fun toks ->
         match toks with
         | ["T"; q; l; wlo; _first; last] when Array.length offs > 1 ->
           (* the responsible segment of level l (rightmost with key <= max(q, first_key)) lies inside the window *)
           let li = int_of_string l in
           if li + 1 < Array.length offs then begin
             let k = let qq = ZA.of_string q in if ZA.lt qq fkey then fkey else qq in
             let b = offs.(li) and e = offs.(li + 1) - 1 in        (* the last slot of a level is its sentinel *)
             let t = ref b in
             for i = b to e - 1 do if ZA.leq segk.(i) k then t := i done;
             judge jo "C07" id ("q=" ^ q ^ " level " ^ l ^ ": responsible segment " ^ string_of_int !t ^ " outside the window [" ^ wlo ^ "," ^ last ^ "]")
               (int_of_string wlo <= !t && !t <= int_of_string last)
           end
         | _ -> ()) lines;
       (* C04 on the upper levels of the implementation's own index: level l+1 is a segmentation of level l's segment keys
          with EpsilonRecursive, so it has (up to the closing/extra-segment bookkeeping) the minimum number of segments, which
          the model's segmentation of those keys attains (C04_sequential_optimal / C04_chunked_near_optimal) *)
       if Array.length offs > 2 && epsrec > 0 then begin
         for l = 0 to Array.length offs - 3 do
           let b = offs.(l) and e = offs.(l + 1) - 1 in
           let keys = List.filter (fun k -> ZA.lt k (zz_of_z sentinel)) (Array.to_list (Array.sub segk b (max 0 (e - b)))) in
           let have = offs.(l + 2) - offs.(l + 1) - 1 in
           (match keys with
            | [] -> ()
            | _ ->
              let zkeys = List.map z_of_zz keys in
              (match make_segmentation_par cfg.c_kt par_threshold cfg.c_par (zi (List.length zkeys)) cfg.c_epsrec zkeys with
               | Ok ((_, _), cnt) ->
                 judge jo "C04" id ("level " ^ string_of_int (l + 1) ^ " of the index has " ^ string_of_int have ^
                                    " segments; a minimal segmentation of level " ^ string_of_int l ^ "'s keys with EpsilonRecursive has " ^ zout cnt)
                   (have <= iz cnt + 1 + (iz cfg.c_par - 1))
               | Err _ -> ()))
         done
       end;
       List.iter (fun toks ->
         match toks with
         | ["Q"; q; pos; lo; hi] ->
           let qz = zin q in
           let a = { a_pos = zin pos; a_lo = zin lo; a_hi = zin hi } in
           if Hashtbl.mem present q then
             judge jo "C01" id ("q=" ^ q ^ " pos=" ^ pos ^ " lo=" ^ lo ^ " hi=" ^ hi) (c01_pred_b cfg.c_eps data qz a);
           if zout sentinel <> q then
             judge jo "C02" id ("q=" ^ q ^ " pos=" ^ pos ^ " lo=" ^ lo ^ " hi=" ^ hi) (c02_pred_b data qz a)
         | ["T"; q; _l; wlo; first; last] ->
           let touched = int_of_string last - int_of_string first + 1 in
           judge jo "C07" id ("q=" ^ q ^ " touched=" ^ string_of_int touched ^ " wlo=" ^ wlo)
             (touched <= 2 * epsrec + 3 && int_of_string first >= int_of_string wlo
              && int_of_string last <= int_of_string wlo + 2 * epsrec + 3)
         | _ -> ()) lines)
  | _ -> ()

(* ---- SEG: make_segmentation_par on raw keys ---- *)
module QA = Q
let q_of_z (v : z) = QA.of_bigint (zz_of_z v)

(* untrusted search for a C04 witness; the extracted checkers cert4_b / line_ok_b decide *)
let c04_segment (eps : z) (pts : (z * z) array) : [ `Infeasible | `Feasible of string | `Undecided ] =
  let m = Array.length pts in
  let lo = Array.map (fun (_, y) -> q_of_z (band_lo eps y)) pts in
  let hi = Array.map (fun (_, y) -> q_of_z (band_hi eps y)) pts in
  let xs = Array.map (fun (x, _) -> q_of_z x) pts in
  (* slope >= (lo_j - hi_i)/(xj - xi), slope <= (hi_j - lo_i)/(xj - xi) for i<j *)
  let amin = ref None and amax = ref None in
  for i = 0 to m - 2 do
    for j = i + 1 to m - 1 do
      let dx = QA.sub xs.(j) xs.(i) in
      if QA.sign dx > 0 then begin
        let l = QA.div (QA.sub lo.(j) hi.(i)) dx and u = QA.div (QA.sub hi.(j) lo.(i)) dx in
        (match !amin with Some (v, _, _) when QA.geq v l -> () | _ -> amin := Some (l, i, j));
        (match !amax with Some (v, _, _) when QA.leq v u -> () | _ -> amax := Some (u, i, j))
      end
    done
  done;
  match !amin, !amax with
  | Some (l, i, j), Some (u, k, l2) ->
    if QA.gt l u then
      (if cert4_b eps pts.(i) pts.(j) pts.(k) pts.(l2) then `Infeasible else `Undecided)
    else begin
      (* a feasible slope exists: take a = l, b = max_i (lo_i - a x_i) and let the checker decide *)
      let a = l in
      let b = ref (QA.sub lo.(0) (QA.mul a xs.(0))) in
      Array.iteri (fun t _ -> let v = QA.sub lo.(t) (QA.mul a xs.(t)) in if QA.gt v !b then b := v) pts;
      let an = z_of_zz (QA.num a) and ad = z_of_zz (QA.den a) and bn = z_of_zz (QA.num !b) and bd = z_of_zz (QA.den !b) in
      if line_ok_b eps an ad bn bd (Array.to_list pts) then `Feasible (QA.to_string a ^ "*x+" ^ QA.to_string !b) else `Undecided
    end
  | _ -> `Undecided

let run_seg mo jo impl secs =
  match secs with
  | ("SEG" :: id :: kb :: sg :: eps :: par :: _) :: _ ->
    let kt = { kbits = zin kb; ksigned = (sg = "1") } in
    let data = List.map zin (nth_sec secs 1) in
    let n = zi (List.length data) in
    let epsz = zin eps in
    pr mo "C %s\n" id;
    (match make_segmentation_par kt par_threshold (zin par) n epsz data with
     | Err e -> pr mo "B %s\n" (err_name e)
     | Ok ((segs, fed), c) ->
       pr mo "B ok\nN %s\n" (zout c);
       List.iter (fun (x, y) -> pr mo "F %s %s\n" (zout x) (zout y)) fed;
       let cf = { c_kt = kt; c_eps = epsz; c_epsrec = Z0; c_fdouble = false; c_par = zin par; c_avx512 = !avx512 } in
       let cd = { cf with c_fdouble = true } in
       List.iter (fun cs ->
         let (sl, icpt) = cseg_line cs cs.c_first in
         let p (a, b) = zout a ^ " " ^ zout b in
         let onep = one_point cs in
         let s32 = if onep then (Z0, Z0) else frepr64 (slope_to_floating cf sl) in
         let s64 = if onep then (Z0, Z0) else frepr64 (slope_to_floating cd sl) in
         pr mo "R %s %s %s %s %s %s %s %s\n" (zout cs.c_first) (p cs.c_r0) (p cs.c_r1) (p cs.c_r2) (p cs.c_r3)
           (fr s32) (fr s64) (zout icpt)) segs);
    (* ---- judges on the implementation's own output ---- *)
    (match Hashtbl.find_opt impl id with
     | None -> ()
     | Some lines ->
       let fed = List.filter_map (function ["F"; x; y] -> Some (zin x, zin y) | _ -> None) lines in
       let segs = List.filter_map (function
           | "R" :: first :: r0x :: r0y :: r1x :: r1y :: r2x :: r2y :: r3x :: r3y :: _ :: _ :: _ :: _ :: icpt :: _ ->
             Some ({ c_r0 = (zin r0x, zin r0y); c_r1 = (zin r1x, zin r1y); c_r2 = (zin r2x, zin r2y);
                     c_r3 = (zin r3x, zin r3y); c_first = zin first }, zin icpt)
           | _ -> None) lines in
       let count = List.fold_left (fun a l -> match l with ["N"; c] -> int_of_string c | _ -> a) (-1) lines in
       if segs <> [] then begin
         let zlt a b = ZA.lt (zz_of_z a) (zz_of_z b) in
         (* C03: first keys increase, fed abscissae increase, blocks non-empty and start at the segment's first key *)
         let rec increasing = function a :: (b :: _ as t) -> zlt a b && increasing t | _ -> true in
         judge jo "C03" id "segments not in increasing first-key order" (increasing (List.map (fun (c, _) -> c.c_first) segs));
         judge jo "C03" id "fed abscissae not strictly increasing" (increasing (List.map fst fed));
         judge jo "C04" id ("count " ^ string_of_int count ^ " <> emitted segments") (count = List.length segs);
         (* split fed points into blocks by segment first keys *)
         let sega = Array.of_list segs in
         let ns = Array.length sega in
         let blocks = Array.make ns [] in
         let j = ref 0 in
         List.iter (fun (x, y) ->
           while !j + 1 < ns && not (zlt x (fst sega.(!j + 1)).c_first) do j := !j + 1 done;
           blocks.(!j) <- (x, y) :: blocks.(!j)) fed;
         Array.iteri (fun t b -> blocks.(t) <- List.rev b) blocks;
         Array.iteri (fun t (c, icpt) ->
           let b = blocks.(t) in
           judge jo "C03" id ("segment " ^ string_of_int t ^ " covers no point or does not start at its first point")
             (match b with (x, _) :: _ -> zout x = zout c.c_first | [] -> false);
           (* the reported line: exact slope of the rectangle, the implementation's own intercept *)
           let (sl, _) = cseg_line c c.c_first in
           List.iter (fun p ->
             judge jo "C03" id ("point " ^ zout (fst p) ^ "," ^ zout (snd p) ^ " farther than eps+1/2 from segment " ^ string_of_int t)
               (line_close_b epsz (fst sl) (snd sl) c.c_first icpt p)) b) sega;
         (* C03: each distinct key is fed at its first-occurrence rank *)
         let fedh = Hashtbl.create 1024 in
         List.iter (fun (x, y) -> Hashtbl.replace fedh (zout x ^ "," ^ zout y) ()) fed;
         let prev = ref None in
         List.iteri (fun i k ->
           (match !prev with
            | Some pk when zout pk = zout k -> ()
            | _ -> judge jo "C03" id ("key " ^ zout k ^ " not fed at its first-occurrence rank " ^ string_of_int i)
                     (Hashtbl.mem fedh (zout k ^ "," ^ string_of_int i)));
           prev := Some k) data;
         (* C04: maximality of every segment closed by a rejection; starts more than 2 eps ranks apart; count bound *)
         let nn = List.length data and pari = int_of_string par and epsi = int_of_string eps in
         let dataa = Array.of_list data in
         let chunk_starts = Hashtbl.create 16 in
         if pari > 1 && nn >= iz par_threshold then begin
           let cs = nn / pari in
           for i = 1 to pari - 1 do
             let f = ref (i * cs) in
             let last = if i = pari - 1 then nn else i * cs + cs in
             while !f < last && zout dataa.(!f) = zout dataa.(!f - 1) do f := !f + 1 done;
             Hashtbl.replace chunk_starts !f ()
           done
         end;
         let nchunks = 1 + Hashtbl.length chunk_starts in
         judge jo "C04" id ("segments " ^ string_of_int ns ^ " exceed n/(2eps+1)+c+1")
           (ns <= nn / (2 * epsi + 1) + nchunks + 1);
         for t = 0 to ns - 2 do
           match blocks.(t), blocks.(t + 1) with
           | ((_, y0) :: _ as b), (nx :: _) ->
             let y1 = iz (snd nx) in
             if not (Hashtbl.mem chunk_starts y1) then begin
               judge jo "C04" id ("segments " ^ string_of_int t ^ " and next start only " ^ string_of_int (y1 - iz y0) ^ " ranks apart")
                 (y1 - iz y0 > 2 * epsi);
               let pts = Array.of_list (b @ [nx]) in
               if Array.length pts <= 400 then begin
                 match c04_segment epsz pts with
                 | `Infeasible -> judge jo "C04" id "maximal" true
                 | `Feasible w -> judge jo "C04" id ("segment " ^ string_of_int t ^ " not maximal: line " ^ w ^ " fits it plus the next point") false
                 | `Undecided -> judge jo "C04U" id ("segment " ^ string_of_int t ^ ": no certificate and no witness passed the checkers") false
               end
             end
           | _ -> ()
         done
       end)
  | _ -> ()

(* ---- FLT: floating-point KEY types are NOT modelled; the implementation's answers are judged on the
   order-preserving integer images of keys and queries (the model column just echoes the implementation) ---- *)
let run_flt mo jo impl secs =
  match secs with
  | ("FLT" :: id :: _name :: eps :: _) :: _ ->
    pr mo "C %s\n" id;
    (match Hashtbl.find_opt impl id with
     | None -> ()
     | Some lines ->
       List.iter (fun toks -> pr mo "%s\n" (String.concat " " toks)) lines;
       let data = List.concat_map (function "KI" :: t -> List.map zin t | _ -> []) lines in
       let present = Hashtbl.create 64 in
       List.iter (fun d -> Hashtbl.replace present (zout d) ()) data;
       List.iter (fun toks -> match toks with
         | ["QF"; q; pos; lo; hi] ->
           let a = { a_pos = zin pos; a_lo = zin lo; a_hi = zin hi } in
           let what = "float key image q=" ^ q ^ " pos=" ^ pos ^ " lo=" ^ lo ^ " hi=" ^ hi in
           if Hashtbl.mem present q then judge jo "C01" id what (c01_pred_b (zin eps) data (zin q) a);
           judge jo "C02" id what (c02_pred_b data (zin q) a)
         | ["B"; "throw"; kind] -> judge jo "C01" id ("floating-key build threw " ^ kind) false
         | _ -> ()) lines)
  | _ -> ()

(* ---- PLA: direct use of the builder with a signed rank type (rejections, C20) ---- *)
let run_pla mo jo impl secs =
  match secs with
  | ("PLA" :: id :: _kb :: _sg :: eps :: _) :: _ ->
    let yt = { ymin = zin "-9223372036854775808"; ymax = zin "9223372036854775807" } in
    pr mo "C %s\n" id;
    (match pla_init (zin eps) with
     | Err e -> pr mo "B %s\n" (err_name e)
     | Ok s0 ->
       pr mo "B ok\n";
       let s = ref s0 and stop = ref false in
       List.iter (fun t -> if not !stop then
         match String.split_on_char ':' t with
         | [x; y] ->
           (match add_point yt !s (zin x) (zin y) with
            | Ok (ok, s1) ->
              pr mo "A %s %s %d\n" x y (if ok then 1 else 0);
              if ok then s := s1 else (match add_point yt s1 (zin x) (zin y) with Ok (_, s2) -> s := s2 | Err _ -> ())
            | Err e -> pr mo "A %s %s %s\n" x y (err_name e); stop := true)
         | _ -> ()) (nth_sec secs 1));
    (match Hashtbl.find_opt impl id with
     | None -> ()
     | Some lines ->
       let prevx = ref None in
       List.iter (fun toks -> match toks with
         | ["B"; "throw"; kind] -> judge jo "C20" id ("negative epsilon rejected with " ^ kind) (kind = "invalid_argument" && ZA.sign (ZA.of_string eps) < 0)
         | ["B"; "ok"] -> judge jo "C20" id "negative epsilon accepted" (ZA.sign (ZA.of_string eps) >= 0)
         | ["A"; x; _; "throw"; kind] ->
           judge jo "C20" id ("non-increasing key rejected with " ^ kind)
             (kind = "logic_error" && (match !prevx with Some p -> ZA.leq (ZA.of_string x) p | None -> false))
         | ["A"; x; _; r] ->
           (* accepted or segment-closing: the key must exceed its predecessor inside a segment *)
           (match !prevx with
            | Some p when r = "1" -> judge jo "C20" id ("key " ^ x ^ " not above its predecessor was accepted") (ZA.gt (ZA.of_string x) p)
            | _ -> ());
           prevx := Some (ZA.of_string x)
         | _ -> ()) lines)
  | _ -> ()

(* ---- DYN: DynamicPGMIndex histories ---- *)
let split_colon (t : string) = String.split_on_char ':' t

let run_dyn mo jo impl secs =
  match secs with
  | ("DYN" :: id :: _cfg :: kb :: sg :: vkind :: base :: bl :: il :: eps :: epsrec :: _) :: _ ->
    let kt = { kbits = zin kb; ksigned = (sg = "1") } in
    let cfg = { c_kt = kt; c_eps = zin eps; c_epsrec = zin epsrec; c_fdouble = false; c_par = zi 1; c_avx512 = !avx512 } in
    let ops = idx_ops cfg in
    let tomb = if vkind = "a" then Some (zin "4294967295") else None in
    let kmaxv = kmax kt and kminv = kmin kt in
    let bulk_toks = nth_sec secs 1 in
    let use_bulk = not (bulk_toks = ["-"]) in
    let pairs = if use_bulk then List.map (fun t -> match split_colon t with [k; v] -> (zin k, zin v) | _ -> failwith "pair") bulk_toks else [] in
    let show_item = function
      | None -> "end"
      | Some ((_, _), e) -> zout e.it_key ^ ":" ^ (match e.it_val with Some v -> zout v | None -> "x") in
    let kv (k, v) = " " ^ zout k ^ ":" ^ zout v in
    let dump (d : index dyn) =
      pr mo "U %s %s %s %s %d %d\n" (zout d.d_used) (zout d.d_min_level) (zout d.d_min_index_level) (zout d.d_buffer_max)
        (List.length d.d_levels) (List.length d.d_pgms);
      List.iteri (fun j l ->
        if l <> [] then begin
          pr mo "V %d" (j + iz d.d_min_level);
          List.iter (fun e -> pr mo " %s:%s" (zout e.it_key) (match e.it_val with Some v -> zout v | None -> "x")) l;
          pr mo "\n" end) d.d_levels;
      List.iteri (fun j (p : index) ->
        pr mo "G %d %s %d %d" (j + iz d.d_min_index_level) (zout p.ix_n) (List.length p.ix_segments) (List.length p.ix_offsets);
        List.iter (fun sg -> pr mo " %s,%s" (zout sg.sg_key) (zout sg.sg_icpt)) p.ix_segments;
        pr mo "\n") d.d_pgms in
    pr mo "C %s\n" id;
    let d0 = if use_bulk then dyn_bulk ops tomb kmaxv pairs (zin base) (zin bl) (zin il)
             else dyn_ctor tomb kmaxv (zin base) (zin bl) (zin il) in
    (match d0 with
     | Err e -> pr mo "B %s\n" (err_name e)
     | Ok d0 ->
       pr mo "B ok\n"; dump d0;
       let d = ref d0 in
       List.iter (fun op ->
         let f = split_colon op in
         let fail e = pr mo "x %s %s\n" op (err_name e); dump !d in
         match f with
         | ["I"; k; v] -> (match insert_or_assign ops !d (zin k) (zin v) with Ok d1 -> d := d1; pr mo "i ok\n"; dump !d | Err e -> fail e)
         | ["E"; k] -> (match erase ops !d (zin k) with Ok d1 -> d := d1; pr mo "e ok\n"; dump !d | Err e -> fail e)
         | ["F"; k] -> (match dfind ops !d (zin k) with Ok r -> pr mo "f %s %s\n" k (show_item r) | Err e -> fail e)
         | ["C"; k] -> (match count ops !d (zin k) with Ok r -> pr mo "c %s %s\n" k (zout r) | Err e -> fail e)
         | ["L"; k] -> (match lower_bound ops !d (zin k) with Ok r -> pr mo "l %s %s\n" k (show_item r) | Err e -> fail e)
         | ["R"; lo; hi] -> (match range ops !d (zin lo) (zin hi) with
             | Ok r -> pr mo "r %s %s%s\n" lo hi (String.concat "" (List.map kv r)) | Err e -> fail e)
         | ["T"; k] -> (match lower_bound ops !d (zin k) with
             | Ok r -> (match to_list_from ops !d (iter_of r) with
                 | Ok l -> pr mo "t %s%s\n" k (String.concat "" (List.map kv l)) | Err e -> fail e)
             | Err e -> fail e)
         | ["B"] -> (match dyn_begin ops !d kminv with
             | Ok b -> (match to_list_from ops !d b with Ok l -> pr mo "b%s\n" (String.concat "" (List.map kv l)) | Err e -> fail e)
             | Err e -> fail e)
         | ["S"] -> (match dyn_size ops !d kminv with Ok r -> pr mo "s %s\n" (zout r) | Err e -> fail e)
         | ["M"] -> (match dyn_empty ops !d kminv with Ok r -> pr mo "m %d\n" (if r then 1 else 0) | Err e -> fail e)
         | _ -> ()) (nth_sec secs 2));
    (* ---- judges: the abstract map (C05, C06), the invariants on the dumped state (C15), rejections (C20) ---- *)
    (match Hashtbl.find_opt impl id with
     | None -> ()
     | Some lines ->
       let b = iz (zin base) in
       let unsorted = let rec go = function (a, _) :: ((c, _) :: _ as t) -> ZA.gt (zz_of_z a) (zz_of_z c) || go t | _ -> false in go pairs in
       let bad_value = tomb <> None && List.exists (fun (_, v) -> zout v = "4294967295") pairs in
       if b >= 2 then judge_reject jo id lines "B" ((b land (b - 1)) <> 0 || unsorted || bad_value) "invalid_argument";
       let m = ref (am_bulk pairs) in
       let opsl = ref (nth_sec secs 2) in
       let next_op () = match !opsl with o :: t -> opsl := t; split_colon o | [] -> [] in
       let show_kv = function None -> "end" | Some (k, v) -> zout k ^ ":" ^ zout v in
       let listing l = String.concat " " (List.map (fun (k, v) -> zout k ^ ":" ^ zout v) l) in
       (* dumped state accumulators *)
       let cur_u = ref [] and cur_levels = ref [] and cur_pgms = ref [] and cur_segkeys = ref [] and have_dump = ref false in
       let prev_dump = ref "" and this_dump = Buffer.create 256 in
       let after_reject = ref false in
       let flush_dump () =
         if !have_dump then begin
           (match !cur_u with
            | [used; minl; minil; bufmax; _; _] ->
              judge jo "C15" id ("invariants violated in dumped state: " ^ Buffer.contents this_dump)
                (inv_b (zin base) (zin minl) (zin minil) (zin bufmax) (zin used) (List.rev !cur_levels) (List.rev !cur_pgms))
            | _ -> ());
              List.iter (fun (lv, ks) ->
                judge jo "C15" id ("the index of level " ^ zout lv ^ " is not built over that level's current keys: " ^ Buffer.contents this_dump)
                  (pgm_keys_ok_b (List.rev !cur_levels) lv ks)) !cur_segkeys;
           if !after_reject then
             judge jo "C20" id "a rejected insert changed the container" (Buffer.contents this_dump = !prev_dump);
           after_reject := false;
           prev_dump := Buffer.contents this_dump;
           Buffer.clear this_dump; cur_levels := []; cur_pgms := []; cur_segkeys := []; have_dump := false
         end in
       let parse_item t = match split_colon t with
         | [k; "x"] -> { it_key = zin k; it_val = None }
         | [k; v] -> { it_key = zin k; it_val = Some (zin v) }
         | _ -> failwith "item" in
       List.iter (fun toks ->
         (match toks with
          | "U" :: rest -> flush_dump (); have_dump := true; cur_u := rest; Buffer.add_string this_dump (String.concat " " toks ^ ";")
          | "V" :: lv :: items -> cur_levels := (zin lv, List.map parse_item items) :: !cur_levels; Buffer.add_string this_dump (String.concat " " toks ^ ";")
          | "G" :: lv :: n :: nsegs :: _ :: segs ->
            cur_pgms := ((zin lv, zin n), zin nsegs) :: !cur_pgms;
            cur_segkeys := (zin lv, List.filter_map (fun t -> match String.split_on_char ',' t with k :: _ :: [] -> Some (zin k) | _ -> None) segs) :: !cur_segkeys;
            Buffer.add_string this_dump (String.concat " " toks ^ ";")
          | _ -> flush_dump ());
         match toks with
         | ["i"; "ok"] -> (match next_op () with
             | ["I"; k; v] ->
               (* an insert of the reserved (tombstone) value must be rejected, whatever the history *)
               if tomb <> None && v = "4294967295" then
                 judge jo "C20" id ("insert_or_assign(" ^ k ^ ", reserved value) was accepted instead of throwing invalid_argument") false
               else m := am_insert (zin k) (zin v) !m
             | _ -> ())
         | ["e"; "ok"] -> (match next_op () with ["E"; k] -> m := am_erase (zin k) !m | _ -> ())
         | "x" :: op :: "throw" :: kind :: _ ->
           ignore (next_op ());
           (match split_colon op with
            | ["I"; _; v] when tomb <> None && v = "4294967295" ->
              judge jo "C20" id ("reserved value rejected with " ^ kind) (kind = "invalid_argument"); after_reject := true
            | ["R"; lo; hi] when ZA.gt (ZA.of_string lo) (ZA.of_string hi) ->
              judge jo "C20" id ("range lo>hi rejected with " ^ kind) (kind = "invalid_argument")
            | _ -> judge jo "C05" id ("unexpected exception on " ^ op) false)
         | ["f"; k; res] -> ignore (next_op ());
           let exp = match am_find (zin k) !m with Some v -> k ^ ":" ^ zout v | None -> "end" in
           judge jo "C05" id ("find " ^ k ^ " = " ^ res ^ " expected " ^ exp) (res = exp)
         | ["c"; k; res] -> ignore (next_op ());
           let exp = match am_find (zin k) !m with Some _ -> "1" | None -> "0" in
           judge jo "C05" id ("count " ^ k ^ " = " ^ res ^ " expected " ^ exp) (res = exp)
         | ["l"; k; res] -> ignore (next_op ());
           let exp = show_kv (am_lower_bound (zin k) !m) in
           judge jo "C05" id ("lower_bound " ^ k ^ " = " ^ res ^ " expected " ^ exp) (res = exp)
         | "r" :: lo :: hi :: res -> ignore (next_op ());
           let exp = listing (am_range (zin lo) (zin hi) !m) in
           judge jo "C06" id ("range " ^ lo ^ " " ^ hi ^ " = [" ^ String.concat " " res ^ "] expected [" ^ exp ^ "]") (String.concat " " res = exp)
         | "t" :: k :: res -> ignore (next_op ());
           let exp = listing (am_from (zin k) !m) in
           judge jo "C06" id ("iteration from " ^ k ^ " = [" ^ String.concat " " res ^ "] expected [" ^ exp ^ "]") (String.concat " " res = exp)
         | "b" :: res -> ignore (next_op ());
           let exp = listing !m in
           judge jo "C06" id ("begin..end = [" ^ String.concat " " res ^ "] expected [" ^ exp ^ "]") (String.concat " " res = exp)
         | ["s"; res] -> ignore (next_op ());
           judge jo "C06" id ("size = " ^ res ^ " expected " ^ string_of_int (List.length !m)) (res = string_of_int (List.length !m))
         | ["m"; res] -> ignore (next_op ());
           judge jo "C06" id ("empty = " ^ res) (res = (if !m = [] then "1" else "0"))
         | _ -> ()) lines;
       flush_dump ())
  | _ -> ()

(* ---- BKT / EFI: BucketingPGMIndex and EliasFanoPGMIndex ---- *)
let judge_search jo prop id eps data sentinel toks =
  match toks with
  | ["Q"; q; pos; lo; hi] ->
    let qz = zin q in
    let a = { a_pos = zin pos; a_lo = zin lo; a_hi = zin hi } in
    let what = "q=" ^ q ^ " pos=" ^ pos ^ " lo=" ^ lo ^ " hi=" ^ hi in
    if List.exists (fun d -> ZA.equal (zz_of_z d) (ZA.of_string q)) data then judge jo prop id ("present " ^ what) (c01_pred_b eps data qz a);
    if zout sentinel <> q then judge jo prop id ("lower_bound " ^ what) (c02_pred_b data qz a)
  | _ -> ()

let run_bkt mo jo impl secs =
  match secs with
  | ("BKT" :: id :: _name :: kb :: eps :: tls :: tlbs :: fd :: _) :: _ ->
    let kt = { kbits = zin kb; ksigned = false } in
    let c = { c_kt = kt; c_eps = zin eps; c_epsrec = Z0; c_fdouble = (fd = "1"); c_par = zi 1; c_avx512 = !avx512 } in
    let bc = { b_cfg = c; b_tls = zin tls; b_tlbs = zin tlbs } in
    let data = List.map zin (nth_sec secs 1) and queries = List.map zin (nth_sec secs 2) in
    pr mo "C %s\n" id;
    (match bucketing_build bc data with
     | Err e -> pr mo "B %s\n" (err_name e)
     | Ok b ->
       pr mo "B ok\nN %s %s %s %s\n" (zout b.bk_n) (zout b.bk_first) (zout b.bk_last) (zout b.bk_step);
       pr mo "P%s\n" (String.concat "" (List.map (fun t -> " " ^ zout t) b.bk_top));
       List.iter (fun s -> pr mo "S %s %s %s\n" (zout s.sg_key) (fr (frepr64 s.sg_slope)) (zout s.sg_icpt)) b.bk_segments;
       List.iter (fun q -> match bucketing_search bc b q with
         | Ok a -> pr mo "Q %s %s %s %s\n" (zout q) (zout a.a_pos) (zout a.a_lo) (zout a.a_hi)
         | Err e -> pr mo "Q %s %s\n" (zout q) (err_name e)) queries);
    (match Hashtbl.find_opt impl id with
     | None -> ()
     | Some lines ->
       let sentinel = kmax kt in
       (* a fixed TopLevelBitSize too narrow for the number of segments is a documented precondition (invalid_argument) *)
       let too_narrow = (not (ends_with_reserved kt data)) && iz bc.b_tlbs > 0 &&
                        (match bucketing_build bc data with Err ThrowInvalidArgument -> true | _ -> false) in
       judge_reject jo id lines "B" (ends_with_reserved kt data || too_narrow) "invalid_argument";
       let nn = zi (List.length data) in
       let first = (match data with x :: _ -> x | [] -> Z0) and last = List.fold_left (fun _ x -> x) Z0 data in
       let top = List.concat_map (function "P" :: t -> List.map int_of_string t | _ -> []) lines in
       let segkeys = List.filter_map (function ["S"; k; _; _; _] -> Some (zz_of_z (zin k)) | _ -> None) lines in
       let step = List.fold_left (fun a l -> match l with ["N"; _; _; _; st] -> ZA.of_string st | _ -> a) ZA.one lines in
       let topa = Array.of_list top and seg = Array.of_list segkeys in
       List.iter (fun toks ->
         judge_search jo "C09" id c.c_eps data sentinel toks;
         match toks with
         | ["Q"; q; pos; lo; hi] ->
           let qz = ZA.of_string q in
           if ZA.lt qz (zz_of_z first) then judge jo "C09" id ("below first: " ^ pos ^ " " ^ lo ^ " " ^ hi) (pos = "0" && lo = "0" && hi = "0")
           else if ZA.gt qz (zz_of_z last) then judge jo "C09" id ("above last: " ^ pos) (pos = zout nn && lo = zout nn && hi = zout nn)
           else begin
             (* the bucket's slice contains the rightmost segment starting at or before the key *)
             let d = ZA.sub qz (zz_of_z first) in
             let j = if pow_two bc.b_tls then ZA.to_int (ZA.shift_right d (iz (top_shift bc))) else ZA.to_int (ZA.div d step) in
             let t = ref (-1) in
             Array.iteri (fun i k -> if ZA.leq k qz && i < Array.length seg - 1 then t := i) seg;
             judge jo "C09" id ("bucket " ^ string_of_int j ^ " slice misses segment " ^ string_of_int !t ^ " for q=" ^ q)
               (j + 1 < Array.length topa && !t >= 0 && topa.(j) <= !t + 1 && !t + 1 <= topa.(j + 1))
           end
         | _ -> ()) lines)
  | _ -> ()

let run_efi mo jo impl secs =
  match secs with
  | ("EFI" :: id :: _name :: kb :: eps :: fd :: _) :: _ ->
    let kt = { kbits = zin kb; ksigned = false } in
    let c = { c_kt = kt; c_eps = zin eps; c_epsrec = Z0; c_fdouble = (fd = "1"); c_par = zi 1; c_avx512 = !avx512 } in
    let data = List.map zin (nth_sec secs 1) and queries = List.map zin (nth_sec secs 2) in
    let lines = match Hashtbl.find_opt impl id with Some l -> l | None -> [] in
    (* the low width chosen by sdsl's get_params (double log2) is read from the implementation *)
    let wl = List.fold_left (fun a l -> match l with ["W"; w; _] -> zin w | _ -> a) (zi 1) lines in
    pr mo "C %s\n" id;
    (match ef_index_build c wl data with
     | Err e -> pr mo "B %s\n" (err_name e)
     | Ok x ->
       pr mo "B ok\nN %s %s\n" (zout x.ei_n) (zout x.ei_first);
       pr mo "W %s %s\n" (zout x.ei_ef.ef_wl) (zout x.ei_ef.ef_size);
       pr mo "L%s\n" (String.concat "" (List.map (fun t -> " " ^ zout t) x.ei_ef.ef_low));
       pr mo "H %s\n" (String.concat "" (List.map (fun b -> if b then "1" else "0") x.ei_ef.ef_high));
       List.iter (fun s -> pr mo "S %s %s\n" (fr (frepr64 s.es_slope)) (zout s.es_icpt)) x.ei_segments;
       List.iter (fun q ->
         let k = if ZA.lt (zz_of_z q) (zz_of_z x.ei_first) then x.ei_first else q in
         let i = wrapK kt (z_of_zz (ZA.sub (zz_of_z k) (zz_of_z x.ei_first))) in
         (match ef_pred x.ei_ef i with
          | Ok (r, o) -> pr mo "PR %s %s %s\n" (zout i) (zout r) (zout o)
          | Err e -> pr mo "PR %s %s\n" (zout i) (err_name e));
         match ef_search c x q with
         | Ok a -> pr mo "Q %s %s %s %s\n" (zout q) (zout a.a_pos) (zout a.a_lo) (zout a.a_hi)
         | Err e -> pr mo "Q %s %s\n" (zout q) (err_name e)) queries;
       (* judge pred on the implementation's answers: rightmost stored key <= i *)
       let stored = Array.of_list (List.map zz_of_z (ef_values x.ei_ef)) in
       List.iter (fun toks -> match toks with
         | ["PR"; i; r; o] ->
           let iv = ZA.of_string i in
           let t = ref (-1) in
           Array.iteri (fun j v -> if ZA.leq v iv then t := j) stored;
           judge jo "C10" id ("pred(" ^ i ^ ") = (" ^ r ^ "," ^ o ^ ") expected segment " ^ string_of_int !t)
             (!t >= 0 && r = string_of_int !t && o = ZA.to_string stored.(!t))
         | _ -> ()) lines);
    let sentinel = kmax kt in
    judge_reject jo id lines "B" (ends_with_reserved kt data) "invalid_argument";
    List.iter (fun toks -> judge_search jo "C10" id c.c_eps data sentinel toks) lines
  | _ -> ()

(* ---- CMP: CompressedPGMIndex ---- *)
let run_cmp mo jo impl secs =
  match secs with
  | ("CMP" :: id :: _name :: kb :: eps :: epsrec :: fd :: rest) :: _ ->
    let kt = { kbits = zin kb; ksigned = false } in
    let par = match rest with p :: _ -> zin p | [] -> zi 1 in
    let c = { c_kt = kt; c_eps = zin eps; c_epsrec = zin epsrec; c_fdouble = (fd = "1"); c_par = par; c_avx512 = !avx512 } in
    let data = List.map zin (nth_sec secs 1) and queries = List.map zin (nth_sec secs 2) in
    pr mo "C %s\n" id;
    (* beyond this size the executable model (quadratic insertion sort of the slope ranges) is too slow: the case is JUDGED ONLY --
       the implementation's own lines are echoed so that the correspondence has nothing to compare, the judges below still apply *)
    let model_maxn = match Sys.getenv_opt "PGM_MODEL_MAXN" with Some v -> int_of_string v | None -> 70000 in
    if List.length data > model_maxn then
      (match Hashtbl.find_opt impl id with
       | Some lines -> List.iter (fun toks -> pr mo "%s\n" (String.concat " " toks)) lines
       | None -> ())
    else
    (match compressed_build c data with
     | Err e -> pr mo "B %s\n" (err_name e)
     | Ok cp ->
       if epsrec = "0" then pr mo "B ok\nN %s %s\n" (zout cp.cp_n) (zout cp.cp_first_key)
       else pr mo "B ok\nN %s %s %s %s %s\n" (zout cp.cp_n) (zout cp.cp_first_key) (fr (frepr64 cp.cp_root_slope)) (zout cp.cp_root_intercept) (zout cp.cp_root_range);
       pr mo "TB%s\n" (String.concat "" (List.map (fun s -> " " ^ fr (frepr64 s)) cp.cp_table));
       List.iter (fun l ->
         pr mo "LK%s\n" (String.concat "" (List.map (fun k -> " " ^ zout k) l.cl_keys));
         pr mo "LM%s\n" (String.concat "" (List.map (fun k -> " " ^ zout k) l.cl_slopes_map));
         pr mo "LI %s %s%s\n" (zout l.cl_offset) (zout l.cl_max)
           (String.concat "" (List.mapi (fun i _ -> " " ^ (match cl_get_intercept l (zi i) with Ok v -> zout v | Err e -> err_name e)) l.cl_vals))) cp.cp_levels;
       List.iter (fun q -> match compressed_search c cp q with
         | Ok a -> pr mo "Q %s %s %s %s\n" (zout q) (zout a.a_pos) (zout a.a_lo) (zout a.a_hi)
         | Err e -> pr mo "Q %s %s\n" (zout q) (err_name e)) queries;
       (* the certificate (CmpCertDefs.cmp_cert_b, sound for ALL queries by CmpCertProofs.cmp_cert_sound) on the built index:
          the dump compared line by line above is the implementation's, so this is the implementation's structure *)
       let maxn = match Sys.getenv_opt "PGM_CERT_MAXN" with Some v -> int_of_string v | None -> 3000 in
       if List.length data <= maxn && Hashtbl.mem impl id then begin
         let ok = cmp_cert_b c data cp in
         judge jo "C08cert" id "certificate false" ok;
         if not ok then begin
           judge jo "C08struct" id "structural part of the certificate false" (cmp_struct_b c data cp);
           let rec take n = function x :: t when n > 0 -> x :: take (n - 1) t | _ -> [] in
           match take 12 (cmp_cert_failing c data cp) with
           | [] -> ()
           | qs -> judge jo "C08certq" id (String.concat " " (List.map zout qs)) false
         end
       end);
    (match Hashtbl.find_opt impl id with
     | None -> ()
     | Some lines ->
       let sentinel = kmax kt in
       judge_reject jo id lines "B" (ends_with_reserved kt data) "invalid_argument";
       List.iter (function
         | ["B"; "throw"; kind] when not (ends_with_reserved kt data) ->
           judge jo "C08" id ("constructor threw " ^ kind ^ " on valid data n=" ^ string_of_int (List.length data) ^ " eps=" ^ eps) false
         | _ -> ()) lines;
       List.iter (fun toks -> judge_search jo "C08" id c.c_eps data sentinel toks) lines)
  | _ -> ()

(* ---- MAP: MappedPGMIndex ---- *)
let hex_of_bytes (bs : z list) : string =
  let b = Buffer.create (2 * List.length bs) in
  List.iter (fun v -> Buffer.add_string b (Printf.sprintf "%02x" (iz v))) bs; Buffer.contents b

let run_map mo jo impl secs =
  match secs with
  | ("MAP" :: id :: _name :: kb :: sg :: eps :: epsrec :: fd :: _) :: _ ->
    let kt = { kbits = zin kb; ksigned = (sg = "1") } in
    let c = { c_kt = kt; c_eps = zin eps; c_epsrec = zin epsrec; c_fdouble = (fd = "1"); c_par = zi 1; c_avx512 = !avx512 } in
    let data = List.map zin (nth_sec secs 1) and queries = List.map zin (nth_sec secs 2) in
    pr mo "C %s\n" id;
    let queries_on (m : mapped) tag =
      pr mo "S%s %d %d\n" tag (List.length m.mp_data) (if List.map zout m.mp_data = List.map zout data then 1 else 0);
      List.iter (fun q ->
        let s = function Ok v -> zout v | Err e -> err_name e in
        pr mo "Q%s %s %s %s %s %s\n" tag (zout q) (s (mapped_lower_bound c m q)) (s (mapped_upper_bound c m q)) (s (mapped_count c m q))
          (match mapped_contains c m q with Ok b -> if b then "1" else "0" | Err e -> err_name e)) queries in
    let a = from_range c data in
    (match a with
     | Ok m -> pr mo "BA ok\nFA %s\n" (hex_of_bytes m.mp_file); queries_on m "A"
     | Err e -> pr mo "BA %s\n" (err_name e));
    let b = from_raw c (raw_file c data) in
    (match b with
     | Ok m -> pr mo "BB ok\nFB %s\n" (hex_of_bytes m.mp_file); queries_on m "B"
     | Err e -> pr mo "BB %s\n" (err_name e));
    (match a with
     | Ok m when m.mp_file <> [] ->
       (match reopen c m.mp_file with
        | Ok r -> pr mo "BC ok\n"; queries_on r "C"; queries_on r "E"
        | Err e -> pr mo "BC %s\n" (err_name e));
       pr mo "UA 1\n"
     | _ -> ());
    (match b with
     | Ok m when m.mp_file <> [] ->
       (match reopen c m.mp_file with
        | Ok r -> pr mo "BD ok\n"; queries_on r "D"
        | Err e -> pr mo "BD %s\n" (err_name e))
     | _ -> ());
    (* judges on the implementation's output *)
    (match Hashtbl.find_opt impl id with
     | None -> ()
     | Some lines ->
       let nn = List.length data in
       let sentinel = zout (kmax kt) in
       judge_reject jo id lines "BA" (ends_with_reserved kt data) "invalid_argument";
       judge_reject jo id lines "BB" (ends_with_reserved kt data) "invalid_argument";
       let fa = ref "" and fb = ref "" in
       let answers = Hashtbl.create 64 in
       List.iter (fun toks -> match toks with
         | ["FA"; h] -> fa := h
         | ["FB"; h] -> fb := h
         | ["UA"; u] -> judge jo "C12" id "reopening altered the file" (u = "1")
         | [tag; sz; eq] when String.length tag = 2 && tag.[0] = 'S' ->
           judge jo (if tag = "SA" then "C11" else "C12") id ("container " ^ tag ^ " exposes size " ^ sz ^ " / sequence equal " ^ eq) (sz = string_of_int nn && eq = "1")
         | [tag; q; l; u; cnt; cont] when String.length tag = 2 && tag.[0] = 'Q' ->
           if q <> sentinel then begin
             let qz = zin q in
             let el = zout (lb data qz) and eu = zout (ub data qz) in
             let ec = string_of_int (iz (ub data qz) - iz (lb data qz)) in
             let econt = if ec = "0" then "0" else "1" in
             let prop = if tag = "QA" then "C11" else "C12" in
             judge jo prop id (tag ^ " q=" ^ q ^ " lower_bound=" ^ l ^ " upper_bound=" ^ u ^ " count=" ^ cnt ^ " contains=" ^ cont ^
                               " expected " ^ el ^ " " ^ eu ^ " " ^ ec ^ " " ^ econt) (l = el && u = eu && cnt = ec && cont = econt);
             (* identical answers across the construction paths *)
             let key = q in
             (match Hashtbl.find_opt answers key with
              | None -> Hashtbl.replace answers key (l, u, cnt, cont)
              | Some prev -> judge jo "C12" id (tag ^ " q=" ^ q ^ " answers differ between containers") (prev = (l, u, cnt, cont)))
           end
         | _ -> ()) lines;
       if !fa <> "" || !fb <> "" then judge jo "C12" id "range constructor and raw-file constructor wrote different files" (!fa = !fb))
  | _ -> ()

(* ---- MUL: MultidimensionalPGMIndex ---- *)
let run_mul mo jo impl secs =
  match secs with
  | ("MUL" :: id :: _name :: dims :: tbits :: eps :: epsrec :: _) :: _ ->
    let kt = { kbits = zin tbits; ksigned = false } in
    let c = { c_kt = kt; c_eps = zin eps; c_epsrec = zin epsrec; c_fdouble = false; c_par = zi 1; c_avx512 = !avx512 } in
    let m = { m_dims = zin dims; m_tbits = zin tbits; m_cfg = c } in
    let pt s = List.map zin (String.split_on_char ':' s) in
    let show p = String.concat ":" (List.map zout p) in
    let points = List.map pt (nth_sec secs 1) in
    pr mo "C %s\n" id;
    (match multi_build m points with
     | Err e -> pr mo "B %s\n" (err_name e)
     | Ok mu ->
       pr mo "B ok\nD%s\n" (String.concat "" (List.map (fun x -> " " ^ zout x) mu.mu_data));
       List.iter (fun b ->
         match String.split_on_char '/' b with
         | [lo; hi] ->
           (match multi_range m mu (pt lo) (pt hi) with
            | Ok l -> pr mo "R %s%s\n" b (String.concat "" (List.map (fun p -> " " ^ show p) l))
            | Err e -> pr mo "R %s %s\n" b (err_name e))
         | _ -> ()) (nth_sec secs 2);
       List.iter (fun p -> match multi_contains m mu (pt p) with
         | Ok r -> pr mo "K %s %d\n" p (if r then 1 else 0)
         | Err e -> pr mo "K %s %s\n" p (err_name e)) (nth_sec secs 3);
       List.iter (fun g -> match List.map zin (String.split_on_char ':' g) with
         | [x; a; b] -> pr mo "G %s %s %d\n" g (zout (bigmin m x a b)) (if box_zcontains m a b x then 1 else 0)
         | _ -> ()) (nth_sec secs 4));
    (* judges *)
    (match Hashtbl.find_opt impl id with
     | None -> ()
     | Some lines ->
       let fb = iz m.m_tbits / iz m.m_dims in
       let wide = List.exists (fun p -> List.exists (fun x -> ZA.numbits (zz_of_z x) >= fb) p) points in
       judge_reject jo id lines "B" wide "runtime_error";
       let codes = List.concat_map (function "D" :: t -> List.map zin t | _ -> []) lines in
       let inbox lo hi p = List.for_all2 (fun (a, b) x -> ZA.leq (zz_of_z a) (zz_of_z x) && ZA.leq (zz_of_z x) (zz_of_z b)) (List.combine lo hi) p in
       let pset = Hashtbl.create 256 in
       List.iter (fun p -> Hashtbl.replace pset (show p) ()) points;
       (* the stored codes are the sorted encodings of the points *)
       let expect_codes = List.sort ZA.compare (List.map (fun p -> zz_of_z (encode m p)) points) in
       if List.exists (function "D" :: _ -> true | _ -> false) lines then
         judge jo "C13" id "stored codes are not the sorted Morton codes of the points" (List.map zz_of_z codes = expect_codes);
       List.iter (fun toks -> match toks with
         | "R" :: b :: res ->
           (match String.split_on_char '/' b with
            | [lo; hi] ->
              let lo = pt lo and hi = pt hi in
              if List.for_all2 (fun a b -> ZA.leq (zz_of_z a) (zz_of_z b)) lo hi then begin
                let exp = List.filter_map (fun cde -> let p = decode m cde in if inbox lo hi p then Some (show p) else None) codes in
                judge jo "C13" id ("range " ^ b ^ " returned [" ^ String.concat " " res ^ "] expected [" ^ String.concat " " exp ^ "]") (res = exp)
              end
            | _ -> ())
         | ["K"; p; r] -> judge jo "C14" id ("contains " ^ p ^ " = " ^ r) ((r = "1") = Hashtbl.mem pset (show (pt p)))
         | ["G"; g; bm; _] ->
           (match List.map zin (String.split_on_char ':' g) with
            | [x; a; b] ->
              let lo = decode m a and hi = decode m b in
              let vol = List.fold_left2 (fun acc l h -> if acc > 5000 then acc else acc * (max 0 (iz h - iz l + 1))) 1 lo hi in
              if vol > 0 && vol <= 5000 then begin
                (* brute force: least code of a box point that is greater than x (0 if none) *)
                let best = ref None in
                let rec enum acc lo hi = match lo, hi with
                  | [], [] ->
                    (* independent native Morton encoding for the oracle *)
                    let d = iz m.m_dims in
                    let cdi = ref 0 in
                    List.iteri (fun i v -> let x = ref (iz v) and b = ref 0 in
                      while !x <> 0 do (if !x land 1 = 1 then cdi := !cdi lor (1 lsl (!b * d + i))); x := !x lsr 1; incr b done) (List.rev acc);
                    let cd = ZA.of_int !cdi in
                    if ZA.gt cd (zz_of_z x) then (match !best with Some v when ZA.leq v cd -> () | _ -> best := Some cd)
                  | l :: lt, h :: ht -> for v = iz l to iz h do enum (zi v :: acc) lt ht done
                  | _ -> () in
                enum [] lo hi;
                let exp = match !best with Some v -> ZA.to_string v | None -> "0" in
                judge jo "C13" id ("bigmin " ^ g ^ " = " ^ bm ^ " expected " ^ exp) (bm = exp)
              end
            | _ -> ())
         | _ -> ()) lines)
  | _ -> ()

(* ---- CIX / CDY: the C interface ---- *)
let ctype = function
  | "int32" -> { kbits = zi 32; ksigned = true } | "int64" -> { kbits = zi 64; ksigned = true }
  | "uint32" -> { kbits = zi 32; ksigned = false } | _ -> { kbits = zi 64; ksigned = false }

let run_cix mo jo impl secs =
  match secs with
  | ("CIX" :: id :: ty :: eps :: _) :: _ ->
    let kt = ctype ty in
    let c = { c_kt = kt; c_eps = zin eps; c_epsrec = c_epsilon_recursive; c_fdouble = false; c_par = zi 1; c_avx512 = !avx512 } in
    let data = List.map zin (nth_sec secs 1) and queries = List.map zin (nth_sec secs 2) in
    pr mo "C %s\n" id;
    (match build c data with
     | Err ThrowInvalidArgument -> pr mo "B null\n"
     | Err e -> pr mo "B %s\n" (err_name e)
     | Ok ix ->
       pr mo "B ok\n";
       List.iter (fun q -> match search c ix q with
         | Ok a -> pr mo "Q %s %s %s %s\n" (zout q) (zout a.a_pos) (zout a.a_lo) (zout a.a_hi)
         | Err e -> pr mo "Q %s %s\n" (zout q) (err_name e)) queries);
    (match Hashtbl.find_opt impl id with
     | None -> ()
     | Some lines ->
       let sentinel = kmax kt in
       let has_reserved = List.exists (fun d -> zout d = zout sentinel) data in
       judge_reject jo id lines "B" (ends_with_reserved kt data) "invalid_argument";
       List.iter (fun toks -> match toks with
         | ["B"; r] -> judge jo "C18" id ("create returned " ^ r ^ " (reserved value present: " ^ string_of_bool has_reserved ^ ")") ((r = "null") = has_reserved)
         | _ -> judge_search jo "C18" id c.c_eps data sentinel toks) lines)
  | _ -> ()

let run_cdy mo jo impl secs =
  match secs with
  | ("CDY" :: id :: ty :: _) :: _ ->
    let kt = ctype ty in
    let cfg = { c_kt = kt; c_eps = zi 16; c_epsrec = zi 4; c_fdouble = false; c_par = zi 1; c_avx512 = !avx512 } in
    let ops = idx_ops cfg in
    let kmaxv = kmax kt and kminv = kmin kt in
    let tomb = Some kmaxv in
    let bulk_toks = nth_sec secs 1 in
    let use_bulk = not (bulk_toks = ["-"]) in
    let pairs = if use_bulk then List.map (fun t -> match split_colon t with [k; v] -> (zin k, zin v) | _ -> failwith "pair") bulk_toks else [] in
    let kv (k, v) = " " ^ zout k ^ ":" ^ zout v in
    pr mo "C %s\n" id;
    let d0 = if use_bulk then dyn_bulk ops tomb kmaxv pairs (zi 8) Z0 Z0 else dyn_ctor tomb kmaxv (zi 8) Z0 Z0 in
    (match d0 with
     | Err ThrowInvalidArgument -> pr mo "B null\n"
     | Err e -> pr mo "B %s\n" (err_name e)
     | Ok d0 ->
       pr mo "B ok\n";
       let d = ref d0 in
       List.iter (fun op ->
         let fail e = pr mo "x %s %s\n" op (err_name e) in
         match split_colon op with
         | ["I"; k; v] -> (match insert_or_assign ops !d (zin k) (zin v) with Ok d1 -> d := d1; pr mo "i ok\n" | Err e -> fail e)
         | ["E"; k] -> (match erase ops !d (zin k) with Ok d1 -> d := d1; pr mo "e ok\n" | Err e -> fail e)
         | ["F"; k] -> (match dfind ops !d (zin k) with
             | Ok (Some ((_, _), e)) -> pr mo "f %s %s:%s\n" k (zout e.it_key) (match e.it_val with Some v -> zout v | None -> "x")
             | Ok None -> pr mo "f %s end\n" k | Err e -> fail e)
         | ["T"; k] -> (match lower_bound ops !d (zin k) with
             | Ok r -> (match to_list_from ops !d (iter_of r) with
                 | Ok l -> pr mo "t %s%s\n" k (String.concat "" (List.map kv l)) | Err e -> fail e)
             | Err e -> fail e)
         | ["B"] -> (match dyn_begin ops !d kminv with
             | Ok b -> (match to_list_from ops !d b with Ok l -> pr mo "b%s\n" (String.concat "" (List.map kv l)) | Err e -> fail e)
             | Err e -> fail e)
         | ["S"] -> (match dyn_size ops !d kminv with Ok r -> pr mo "s %s\n" (zout r) | Err e -> fail e)
         | _ -> ()) (nth_sec secs 2));
    (match Hashtbl.find_opt impl id with
     | None -> ()
     | Some lines ->
       let m = ref (am_bulk pairs) in
       let opsl = ref (nth_sec secs 2) in
       let next_op () = match !opsl with o :: t -> opsl := t; split_colon o | [] -> [] in
       let listing l = String.concat " " (List.map (fun (k, v) -> zout k ^ ":" ^ zout v) l) in
       List.iter (fun toks -> match toks with
         | ["i"; "ok"] -> (match next_op () with ["I"; k; v] -> m := am_insert (zin k) (zin v) !m | _ -> ())
         | ["e"; "ok"] -> (match next_op () with ["E"; k] -> m := am_erase (zin k) !m | _ -> ())
         | ["f"; k; res] -> ignore (next_op ());
           let exp = match am_find (zin k) !m with Some v -> k ^ ":" ^ zout v | None -> "end" in
           judge jo "C18" id ("find " ^ k ^ " = " ^ res ^ " expected " ^ exp) (res = exp)
         | "t" :: k :: res -> ignore (next_op ());
           let exp = listing (am_from (zin k) !m) in
           judge jo "C18" id ("lower_bound+next from " ^ k ^ " = [" ^ String.concat " " res ^ "] expected [" ^ exp ^ "]") (String.concat " " res = exp)
         | "b" :: res -> ignore (next_op ());
           judge jo "C18" id ("begin+next = [" ^ String.concat " " res ^ "] expected [" ^ listing !m ^ "]") (String.concat " " res = listing !m)
         | ["s"; res] -> ignore (next_op ());
           judge jo "C18" id ("size = " ^ res ^ " expected " ^ string_of_int (List.length !m)) (res = string_of_int (List.length !m))
         | _ -> ()) lines)
  | _ -> ()

(* ---- OWN: copies / moves (run-time side of C19) ---- *)
let run_own mo jo impl secs =
  match secs with
  | ("OWN" :: id :: _) :: _ ->
    pr mo "C %s\n" id;
    List.iter (fun c -> pr mo "D %s ok\n" c)
      ["PGMIndex"; "CompressedPGMIndex"; "BucketingPGMIndex"; "EliasFanoPGMIndex"; "MultidimensionalPGMIndex"; "DynamicPGMIndex"];
    (match Hashtbl.find_opt impl id with
     | None -> ()
     | Some lines -> List.iter (function
         | ["D"; c; r] -> judge jo "C19" id ("a copy/move of " ^ c ^ " answers differently from its source") (r = "ok")
         | _ -> ()) lines)
  | _ -> ()

(* ---- THR: concurrent readers (run-time side of C16); the expected outcome is that every thread's digest
   equals the sequential digest for every class ---- *)
let run_thr mo jo impl secs =
  match secs with
  | ("THR" :: id :: _) :: _ ->
    pr mo "C %s\n" id;
    List.iter (fun c -> pr mo "D %s ok\n" c)
      ["PGMIndex"; "OneLevelPGMIndex"; "PGMIndexBinaryRouting"; "CompressedPGMIndex"; "BucketingPGMIndex"; "EliasFanoPGMIndex"; "MappedPGMIndex"; "MultidimensionalPGMIndex"; "DynamicPGMIndex"];
    (match Hashtbl.find_opt impl id with
     | None -> ()
     | Some lines -> List.iter (function
         | ["D"; c; r] -> judge jo "C16" id ("concurrent readers on " ^ c ^ ": a thread's answers differ from the sequential run") (r = "ok")
         | _ -> ()) lines)
  | _ -> ()

let () =
  let mode = Sys.argv.(1) in
  let cases = Sys.argv.(2) and implf = Sys.argv.(3) and modelf = Sys.argv.(4) and judgef = Sys.argv.(5) in
  if Array.length Sys.argv > 6 then avx512 := (Sys.argv.(6) = "avx512");
  let impl = impl_blocks implf in
  let mo = open_out modelf and jo = open_out judgef in
  List.iter (fun line ->
    let secs = sections line in
    try match mode with
    | "idx" -> run_idx mo jo impl secs; run_seg mo jo impl secs; run_pla mo jo impl secs; run_flt mo jo impl secs
    | "dyn" -> run_dyn mo jo impl secs
    | "var" -> run_bkt mo jo impl secs; run_efi mo jo impl secs
    | "map" -> run_map mo jo impl secs
    | "mul" -> run_mul mo jo impl secs
    | "capi" -> run_cix mo jo impl secs; run_cdy mo jo impl secs
    | "thr" -> run_thr mo jo impl secs
    | "own" -> run_own mo jo impl secs
    | "cmp" -> run_cmp mo jo impl secs
    | "all" -> run_idx mo jo impl secs; run_seg mo jo impl secs; run_pla mo jo impl secs; run_flt mo jo impl secs; run_dyn mo jo impl secs; run_bkt mo jo impl secs; run_efi mo jo impl secs;
      run_map mo jo impl secs; run_mul mo jo impl secs; run_cix mo jo impl secs; run_cdy mo jo impl secs; run_cmp mo jo impl secs
    | _ -> failwith "unknown mode"
    with Failure m when m <> "unknown mode" -> pr jo "JERR %s malformed implementation output (%s)\n" (match secs with (_ :: id :: _) :: _ -> id | _ -> "?") m
       | Invalid_argument m -> pr jo "JERR %s malformed implementation output (%s)\n" (match secs with (_ :: id :: _) :: _ -> id | _ -> "?") m
       | Not_found -> pr jo "JERR %s malformed implementation output\n" (match secs with (_ :: id :: _) :: _ -> id | _ -> "?")) (read_lines cases);
  Hashtbl.iter (fun prop (n, f) -> pr jo "JSUM %s %d %d\n" prop n f) jcount;
  close_out mo; close_out jo

(* driver.ml — runs the extracted model (module Model) and the extracted judges on case files.
   Numbers cross the boundary as decimal strings through Zarith; Z stays the extracted type inside. *)
module ZA = Z
open Model

(* ---- conversions between Zarith integers and the extracted binary integers ---- *)
let rec pos_of_zz (v : ZA.t) : positive =
  if ZA.equal v ZA.one then XH
  else if ZA.testbit v 0 then XI (pos_of_zz (ZA.shift_right v 1))
  else XO (pos_of_zz (ZA.shift_right v 1))
let z_of_zz (v : ZA.t) : z =
  let s = ZA.sign v in
  if s = 0 then Z0 else if s > 0 then Zpos (pos_of_zz v) else Zneg (pos_of_zz (ZA.neg v))
let rec zz_of_pos (p : positive) : ZA.t =
  match p with
  | XH -> ZA.one
  | XO q -> ZA.shift_left (zz_of_pos q) 1
  | XI q -> ZA.succ (ZA.shift_left (zz_of_pos q) 1)
let zz_of_z (v : z) : ZA.t =
  match v with Z0 -> ZA.zero | Zpos p -> zz_of_pos p | Zneg p -> ZA.neg (zz_of_pos p)
let zin (s : string) : z = z_of_zz (ZA.of_string s)
let zout (v : z) : string = ZA.to_string (zz_of_z v)
let zi (i : int) : z = z_of_zz (ZA.of_int i)
let iz (v : z) : int = ZA.to_int (zz_of_z v)

let err_name = function
  | ThrowInvalidArgument -> "throw invalid_argument"
  | ThrowLogicError -> "throw logic_error"
  | ThrowOverflowError -> "throw overflow_error"
  | ThrowRuntimeError -> "throw runtime_error"
  | OutOfBounds -> "err out_of_bounds"
  | UBShift -> "err ub_shift"
  | UBSelect -> "err ub_select"
  | UBDerefEnd -> "err ub_deref_end"
  | UBDivZero -> "err ub_div_zero"
  | OutOfFuel -> "err out_of_fuel"

(* ---- case-file parsing: "TAG a b c | d e | f" ---- *)
let sections (line : string) : string list list =
  let toks = List.filter (fun s -> s <> "") (String.split_on_char ' ' line) in
  let rec go cur acc = function
    | [] -> List.rev (List.rev cur :: acc)
    | "|" :: t -> go [] (List.rev cur :: acc) t
    | x :: t -> go (x :: cur) acc t in
  go [] [] toks

let nth_sec secs i = try List.nth secs i with _ -> []

let read_lines (fn : string) : string list =
  let ic = open_in fn in
  let rec go acc = match input_line ic with
    | l -> go (l :: acc)
    | exception End_of_file -> close_in ic; List.rev acc in
  go []

(* implementation output: blocks introduced by "C <id>" *)
let impl_blocks (fn : string) : (string, string list list) Hashtbl.t =
  let h = Hashtbl.create 1024 in
  if fn <> "-" then begin
    let cur = ref "" and acc = ref [] in
    let flush () = if !cur <> "" then Hashtbl.replace h !cur (List.rev !acc) in
    List.iter (fun l ->
      match String.split_on_char ' ' l with
      | "C" :: id :: _ -> flush (); cur := id; acc := []
      | toks -> acc := toks :: !acc) (read_lines fn);
    flush ()
  end;
  h

let pr = Printf.fprintf
let fr (m, e) = zout m ^ " " ^ zout e

(* judge bookkeeping *)
let jcount : (string, int * int) Hashtbl.t = Hashtbl.create 16
let judge (oc : out_channel) (prop : string) (id : string) (what : string) (ok : bool) =
  let (n, f) = try Hashtbl.find jcount prop with Not_found -> (0, 0) in
  Hashtbl.replace jcount prop (n + 1, if ok then f else f + 1);
  if not ok then pr oc "JFAIL %s %s %s\n" prop id what

let avx512 = ref true

(* ---- IDX: PGMIndex build + search ---- *)
let run_idx mo jo impl secs =
  match secs with
  | ("IDX" :: id :: _name :: kb :: sg :: eps :: epsrec :: fd :: par :: _) :: _ ->
    let cfg = { c_kt = { kbits = zin kb; ksigned = (sg = "1") }; c_eps = zin eps; c_epsrec = zin epsrec;
                c_fdouble = (fd = "1"); c_par = zin par; c_avx512 = !avx512 } in
    let data = List.map zin (nth_sec secs 1) in
    let queries = List.map zin (nth_sec secs 2) in
    pr mo "C %s\n" id;
    (match build cfg data with
     | Err e -> pr mo "B %s\n" (err_name e)
     | Ok ix ->
       pr mo "B ok\n";
       pr mo "N %s %s\n" (zout ix.ix_n) (zout ix.ix_first_key);
       pr mo "O%s\n" (String.concat "" (List.map (fun o -> " " ^ zout o) ix.ix_offsets));
       List.iter (fun s -> pr mo "S %s %s %s\n" (zout s.sg_key) (fr (frepr64 s.sg_slope)) (zout s.sg_icpt)) ix.ix_segments;
       List.iter (fun q ->
         match search_tr cfg ix q with
         | Err e -> pr mo "Q %s %s\n" (zout q) (err_name e)
         | Ok (a, tr) ->
           pr mo "Q %s %s %s %s\n" (zout q) (zout a.a_pos) (zout a.a_lo) (zout a.a_hi);
           List.iter (fun (((l, wlo), first), last) ->
             pr mo "T %s %s %s %s %s\n" (zout q) (zout l) (zout wlo) (zout first) (zout last)) (List.rev tr)) queries);
    (* judge the implementation's own answers *)
    (match Hashtbl.find_opt impl id with
     | None -> ()
     | Some lines ->
       let sentinel = kmax cfg.c_kt in
       let present = Hashtbl.create 1024 in
       List.iter (fun d -> Hashtbl.replace present (zout d) ()) data;
       let epsrec = iz cfg.c_epsrec in
       List.iter (fun toks ->
         match toks with
         | ["Q"; q; pos; lo; hi] ->
           let qz = zin q in
           let a = { a_pos = zin pos; a_lo = zin lo; a_hi = zin hi } in
           if Hashtbl.mem present q then
             judge jo "C01" id ("q=" ^ q ^ " pos=" ^ pos ^ " lo=" ^ lo ^ " hi=" ^ hi) (c01_pred_b cfg.c_eps data qz a);
           if zout sentinel <> q then
             judge jo "C02" id ("q=" ^ q ^ " pos=" ^ pos ^ " lo=" ^ lo ^ " hi=" ^ hi) (c02_pred_b data qz a)
         | ["T"; q; _l; wlo; first; last] ->
           let touched = int_of_string last - int_of_string first + 1 in
           judge jo "C07" id ("q=" ^ q ^ " touched=" ^ string_of_int touched ^ " wlo=" ^ wlo)
             (touched <= 2 * epsrec + 3 && int_of_string first >= int_of_string wlo
              && int_of_string last <= int_of_string wlo + 2 * epsrec + 3)
         | _ -> ()) lines)
  | _ -> ()

(* ---- SEG: make_segmentation_par on raw keys ---- *)
let run_seg mo _jo _impl secs =
  match secs with
  | ("SEG" :: id :: kb :: sg :: eps :: par :: _) :: _ ->
    let kt = { kbits = zin kb; ksigned = (sg = "1") } in
    let data = List.map zin (nth_sec secs 1) in
    let n = zi (List.length data) in
    pr mo "C %s\n" id;
    (match make_segmentation_par kt par_threshold (zin par) n (zin eps) data with
     | Err e -> pr mo "B %s\n" (err_name e)
     | Ok ((segs, fed), c) ->
       pr mo "B ok\nN %s\n" (zout c);
       List.iter (fun (x, y) -> pr mo "F %s %s\n" (zout x) (zout y)) fed;
       let cf = { c_kt = kt; c_eps = zin eps; c_epsrec = Z0; c_fdouble = false; c_par = zin par; c_avx512 = !avx512 } in
       let cd = { cf with c_fdouble = true } in
       List.iter (fun cs ->
         let (sl, icpt) = cseg_line cs cs.c_first in
         let p (a, b) = zout a ^ " " ^ zout b in
         let onep = one_point cs in
         let s32 = if onep then (Z0, Z0) else frepr64 (slope_to_floating cf sl) in
         let s64 = if onep then (Z0, Z0) else frepr64 (slope_to_floating cd sl) in
         pr mo "R %s %s %s %s %s %s %s %s\n" (zout cs.c_first) (p cs.c_r0) (p cs.c_r1) (p cs.c_r2) (p cs.c_r3)
           (fr s32) (fr s64) (zout icpt)) segs)
  | _ -> ()

let () =
  let mode = Sys.argv.(1) in
  let cases = Sys.argv.(2) and implf = Sys.argv.(3) and modelf = Sys.argv.(4) and judgef = Sys.argv.(5) in
  if Array.length Sys.argv > 6 then avx512 := (Sys.argv.(6) = "avx512");
  let impl = impl_blocks implf in
  let mo = open_out modelf and jo = open_out judgef in
  List.iter (fun line ->
    let secs = sections line in
    match mode with
    | "idx" -> run_idx mo jo impl secs; run_seg mo jo impl secs
    | _ -> failwith "unknown mode") (read_lines cases);
  Hashtbl.iter (fun prop (n, f) -> pr jo "JSUM %s %d %d\n" prop n f) jcount;
  close_out mo; close_out jo

import sys, re
sys.path.insert(0, '/verif')
import gens
CT = {"uint32": (32,0), "uint64": (64,0), "int32": (32,1), "int64": (64,1)}
def rng_of(kb, sg): return (-(1 << (kb-1)), (1 << (kb-1)) - 1) if sg else (0, (1 << kb) - 1)
def check(line):
    secs = line.split(" | "); h = secs[0].split()
    kind = h[0]
    try:
        if kind in ("IDX", "MAP"): kb, sg = int(h[3]), int(h[4])
        elif kind in ("SEG", "PLA"): kb, sg = int(h[2]), int(h[3])
        elif kind == "DYN": kb, sg = int(h[3]), int(h[4])
        elif kind in ("BKT", "EFI", "CMP"): kb, sg = int(h[3]), 0
        elif kind in ("CIX", "CDY"): kb, sg = CT[h[2]] if h[2] in CT else CT[h[2].replace("_t","")]
        else: return None
    except Exception as e:
        return "header? " + secs[0][:60]
    lo, hi = rng_of(kb, sg)
    bad = []
    for sec in secs[1:]:
        for tok in sec.split():
            parts = tok.split(":")
            if kind in ("DYN", "CDY"):
                # ops: X:key[:val] ; bulk: key:val
                if parts[0] in ("I","E","F","C","L","T"): ks = parts[1:2]
                elif parts[0] == "R": ks = parts[1:3]
                elif parts[0] in ("B","S","M","-"): ks = []
                else: ks = parts[0:1]
            elif kind == "PLA": ks = parts[0:1]
            else: ks = parts[0:1]
            for k in ks:
                try: v = int(k)
                except: continue
                if v < lo or v > hi: bad.append(tok)
    return ("out of type range %s: %s" % ((lo,hi), bad[:3])) if bad else None
G = [("idx", lambda t,s: gens.gen_idx(t,s)), ("seg", lambda t,s: gens.gen_seg(t,s)), ("dyn", lambda t,s: gens.gen_dyn(t,s)), ("dynr", lambda t,s: gens.gen_dyn(t,s,reject=True)),
     ("bk", lambda t,s: gens.gen_var(t,s,"BK")), ("ef", lambda t,s: gens.gen_var(t,s,"EF")), ("cmp", lambda t,s: gens.gen_cmp(t,s)), ("map", lambda t,s: gens.gen_map(t,s)),
     ("capi", lambda t,s: gens.gen_capi(t,s)), ("reject", lambda t,s: gens.gen_reject(t,s))]
tier = sys.argv[1]; seeds = range(int(sys.argv[2]), int(sys.argv[3]))
tot = 0
for name, g in G:
    nb = 0
    for s in seeds:
        for off in (0, 1, 2, 3, 5, 6, 20260930):
            cases, _ = g(tier, s + off)
            for l in cases:
                tot += 1
                r = check(l)
                if r:
                    nb += 1
                    if nb <= 3: print(name, "seed", s + off, l[:70], "->", r)
    print(name, "bad:", nb)
print("checked", tot)

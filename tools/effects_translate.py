#!/usr/bin/env python3
"""T2: regenerate coq/GenFootprints.v (C16) and coq/GenLayout.v (C19, through layout_translate.py's entry
point below) from clang's JSON AST of /repo's current headers.

For every query entry point (instantiated in a small translation unit) the translator lists the write
effects whose l-value is rooted in `*this`, in a pointee of a member, or in a namespace/static
variable: assignments, compound assignments, ++/--, calls of known mutating container methods, plus
`mutable` members, `const_cast` and function-local statics.  Writes rooted in an ITERATOR object
(RangeIterator, DynamicPGMIndex::Iterator) are classified thread-local: each thread owns its iterator;
writes reached through the iterator's pointer to the container (`super->...`) are shared.
Anything unexpected makes the translator fail loudly (exit 2)."""
import json, os, re, subprocess, sys, concurrent.futures

REPO = os.environ.get("PGM_REPO", "/repo")
ROOT = os.path.join(os.path.dirname(os.path.abspath(__file__)), "..")

TU = r'''
#include "pgm/pgm_index.hpp"
#include "pgm/pgm_index_variants.hpp"
#include "pgm/pgm_index_dynamic.hpp"
template class pgm::PGMIndex<uint64_t, 64, 4, float>;
template class pgm::PGMIndex<uint64_t, 64, 0, float>;
template class pgm::CompressedPGMIndex<uint64_t, 64, 4, float>;
template class pgm::BucketingPGMIndex<uint64_t, 64, 16, 32, float>;
template class pgm::EliasFanoPGMIndex<uint64_t, 64, float>;
template class pgm::MappedPGMIndex<uint64_t, 64, 4, float>;
pgm::MultidimensionalPGMIndex<2, uint64_t, 16, 4, float> g_multi;
pgm::DynamicPGMIndex<uint64_t, uint32_t, pgm::PGMIndex<uint64_t, 16>> g_dyn;
void touch() {
    auto it = g_multi.range({0, 0}, {1, 1}); ++it; g_multi.contains({0, 0}); (void) g_multi.begin(); (void) g_multi.end();
    auto di = g_dyn.begin(); ++di; (void) g_dyn.size(); (void) g_dyn.empty(); (void) g_dyn.range(0, 1);
    (void) g_dyn.find(1); (void) g_dyn.count(1); (void) g_dyn.lower_bound(1); (void) g_dyn.end();
    pgm::CompressedPGMIndex<uint64_t, 64, 4, float> c; (void) c.search(1);
}
'''

# class -> entry points (query operations of the properties' quantifier)
ENTRY = {
    "PGMIndex": ["search", "segment_for_key", "segments_count", "height", "operator()"],
    "CompressedPGMIndex": ["search", "operator()", "get_slope", "get_intercept", "size", "segments_count", "height"],
    "BucketingPGMIndex": ["search", "segment_for_key"],
    "EliasFanoPGMIndex": ["search", "pred", "operator()"],
    "MappedPGMIndex": ["lower_bound", "upper_bound", "count", "contains", "begin", "end", "size"],
    "MultidimensionalPGMIndex": ["contains", "range", "begin", "end", "advance", "operator++", "operator*", "encode", "bigmin", "load", "box_zcontains"],
    "DynamicPGMIndex": ["find", "count", "lower_bound", "range", "begin", "end", "size", "empty", "lazy_initialize", "advance", "operator++",
                        "min_source", "lower_bound_bl", "level", "pgm", "has_pgm"],
}
ITERATOR_CLASSES = ("RangeIterator", "Iterator", "LoserTree", "Cursor")
MUTATING_CALLS = {"push_back", "emplace_back", "resize", "clear", "insert", "erase", "reserve", "assign", "swap", "pop_back", "emplace",
                  "shrink_to_fit", "init", "insert_start", "delete_min_insert"}

def docs(text):
    dec, i, n = json.JSONDecoder(), 0, len(text)
    while i < n:
        while i < n and text[i].isspace(): i += 1
        if i >= n: break
        obj, j = dec.raw_decode(text, i)
        yield obj
        i = j

def dump(flt, tu_path):
    r = subprocess.run(["clang++", "-std=c++17", "-march=native", "-I", REPO + "/include", "-fsyntax-only", "-w",
                        "-Xclang", "-ast-dump=json", "-Xclang", "-ast-dump-filter=" + flt, tu_path],
                       capture_output=True, text=True, timeout=900)
    if r.returncode: raise RuntimeError("clang failed for %s: %s" % (flt, r.stderr[-500:]))
    return list(docs(r.stdout))

def walk(n):
    yield n
    for c in n.get("inner", []) or []:
        if isinstance(c, dict): yield from walk(c)

def root_of(e, path=None):
    """follow an l-value down to its root; returns (kind, name, via) kind in this|var|other"""
    path = path or []
    k = e.get("kind")
    if k == "CXXThisExpr": return ("this", path[-1] if path else "*this", path)
    if k == "DeclRefExpr":
        d = e.get("referencedDecl", {})
        return ("var", d.get("name", "?"), path + [d.get("kind", "")])
    if k == "MemberExpr":
        return root_of(e["inner"][0], path + [e.get("name", "?")]) if e.get("inner") else ("other", "?", path)
    if k in ("ImplicitCastExpr", "ParenExpr", "CStyleCastExpr", "CXXStaticCastExpr", "CXXConstCastExpr", "CXXFunctionalCastExpr", "MaterializeTemporaryExpr",
             "ExprWithCleanups", "CXXBindTemporaryExpr", "UnaryOperator", "ArraySubscriptExpr", "CXXOperatorCallExpr", "CXXMemberCallExpr", "CallExpr"):
        inner = [c for c in e.get("inner", []) if isinstance(c, dict)]
        if k in ("CXXOperatorCallExpr", "CallExpr") and len(inner) >= 2: return root_of(inner[1], path)     # inner[0] is the callee
        if inner: return root_of(inner[0], path)
    return ("other", k or "?", path)

ASSIGN = {"=", "+=", "-=", "*=", "/=", "%=", "<<=", ">>=", "&=", "|=", "^="}

def effects_of(method, cls_is_iter):
    shared, local = [], []
    local_ids = set(n.get("id") for n in walk(method) if n.get("kind") in ("VarDecl", "ParmVarDecl", "BindingDecl", "DecompositionDecl"))
    def root_id(e):
        for m in walk(e):
            if m.get("kind") == "DeclRefExpr": return m.get("referencedDecl", {}).get("id")
        return None
    def record(e, what):
        kind, name, path = root_of(e)
        if kind == "var" and "VarDecl" in path and root_id(e) not in local_ids:
            shared.append("%s global %s" % (what, name)); return
        if kind == "this":
            # through the iterator's pointer to the container -> shared
            if cls_is_iter and "super" not in path: local.append("%s this->%s" % (what, name))
            else: shared.append("%s this->%s" % (what, name))
        elif kind == "var":
            pass  # locals/parameters (a by-reference alias of a member is covered by the const-ness of the method and the iterator rule)
    statics = []
    for n in walk(method):
        k = n.get("kind")
        inner = [c for c in n.get("inner", []) if isinstance(c, dict)]
        if k in ("BinaryOperator", "CompoundAssignOperator") and n.get("opcode") in ASSIGN and inner: record(inner[0], "assign")
        elif k == "UnaryOperator" and n.get("opcode") in ("++", "--") and inner: record(inner[0], "incdec")
        elif k == "CXXOperatorCallExpr" and len(inner) >= 2:
            callee = inner[0]
            nm = ""
            for m in walk(callee):
                if m.get("kind") == "DeclRefExpr": nm = m.get("referencedDecl", {}).get("name", ""); break
            if nm in ("operator=", "operator++", "operator--", "operator+=", "operator-="): record(inner[1], nm)
        elif k == "CXXMemberCallExpr" and inner and inner[0].get("kind") == "MemberExpr" and inner[0].get("name") in MUTATING_CALLS:
            if inner[0].get("inner"): record(inner[0]["inner"][0], "call " + inner[0].get("name"))
        elif k == "CXXConstCastExpr": shared.append("const_cast")
        elif k == "VarDecl" and n.get("storageClass") == "static" and not n.get("constexpr") \
                and not n.get("type", {}).get("qualType", "").startswith("const "): statics.append(n.get("name", "?"))
    for s in statics: shared.append("static local " + s)
    return shared, local

def is_const_method(m):
    t = m.get("type", {}).get("qualType", "")
    return bool(re.search(r"\)\s*const\b", t))

def collect(cls, tu_path):
    out = {}
    mut_fields = []
    for doc in dump("pgm::" + cls, tu_path) + (dump("pgm::internal::LoserTree", tu_path) if cls == "DynamicPGMIndex" else []):
        for n in walk(doc):
            if n.get("kind") == "FieldDecl" and n.get("mutable"): mut_fields.append(n.get("name"))
        # methods may appear as top-level filtered docs or nested in the class
        stack = [(doc, "")]
        while stack:
            n, owner = stack.pop()
            k = n.get("kind")
            if k in ("CXXRecordDecl", "ClassTemplateSpecializationDecl", "ClassTemplateDecl"):
                owner = "<lambda>" if n.get("definitionData", {}).get("isLambda") else n.get("name", owner)
            if owner == "<lambda>": continue          # closures inside constructors are not query entry points
            if k in ("CXXMethodDecl", "CXXConstructorDecl", "FunctionDecl") and n.get("name") in ENTRY[cls] and any(
                    isinstance(c, dict) and c.get("kind") == "CompoundStmt" for c in n.get("inner", [])):
                is_iter = owner in ITERATOR_CLASSES or any(x in n.get("mangledName", "") for x in ("RangeIterator", "8Iterator", "LoserTree"))
                sh, lo = effects_of(n, is_iter)
                key = (owner or cls, n["name"])
                prev = out.get(key, (True, [], []))
                out[key] = (prev[0] and (is_const_method(n) or n.get("storageClass") == "static"), sorted(set(prev[1] + sh)), sorted(set(prev[2] + lo)))
            for c in n.get("inner", []) or []:
                if isinstance(c, dict): stack.append((c, owner))
    return cls, out, sorted(set(mut_fields))

def coq_str(s): return '"' + s.replace('"', "'") + '"'

def main(outpath):
    tu = os.path.join(ROOT, "build", "effects_tu_%d.cpp" % os.getpid())
    os.makedirs(os.path.dirname(tu), exist_ok=True)
    open(tu, "w").write(TU)
    try:
        with concurrent.futures.ThreadPoolExecutor(max_workers=8) as ex:
            results = list(ex.map(lambda c: collect(c, tu), list(ENTRY)))
    finally:
        os.remove(tu)
    L = ["(* GENERATED by tools/effects_translate.py from %s -- do not edit, not committed. *)" % REPO,
         "From Coq Require Import String List. Import ListNotations. Open Scope string_scope.", "",
         "Record footprint := mkFp { fp_class : string; fp_method : string; fp_const : bool;",
         "                           fp_shared_writes : list string; fp_threadlocal_writes : list string }.", "",
         "Definition footprints : list footprint := ["]
    rows, missing = [], []
    for cls, out, mut in results:
        found = set(m for (_, m) in out)
        for m in ENTRY[cls]:
            if m not in found and m not in ("operator()", "operator*", "operator++", "encode", "bigmin", "load", "box_zcontains", "level", "pgm", "has_pgm",
                                            "lower_bound_bl", "min_source", "get_slope", "get_intercept", "size", "segments_count", "height", "begin", "end"):
                missing.append("%s::%s" % (cls, m))
        for (owner, m), (c, sh, lo) in sorted(out.items()):
            rows.append("  mkFp %s %s %s [%s] [%s]" % (coq_str(owner), coq_str(m), "true" if c else "false",
                                                       "; ".join(coq_str(x) for x in sh), "; ".join(coq_str(x) for x in lo)))
        for f in mut:
            rows.append("  mkFp %s %s false [%s] []" % (coq_str(cls), coq_str("<mutable member " + f + ">"), coq_str("mutable " + f)))
    if missing: raise RuntimeError("entry points not found in the AST: " + ", ".join(missing))
    if not rows: raise RuntimeError("no entry point found")
    L.append(";\n".join(rows))
    L.append("].")
    open(outpath, "w").write("\n".join(L) + "\n")

if __name__ == "__main__":
    try:
        main(sys.argv[1] if len(sys.argv) > 1 else os.path.join(ROOT, "coq", "GenFootprints.v"))
    except Exception as ex:
        print("effects_translate: " + str(ex), file=sys.stderr)
        sys.exit(2)

#!/usr/bin/env python3
"""prints the markdown table of DESIGN.md 9.6 from seeded/*/meta.json"""
import json, os, glob, re
ROOT = os.path.join(os.path.dirname(os.path.abspath(__file__)), "..")
rows = []
for f in sorted(glob.glob(os.path.join(ROOT, "seeded", "*", "meta.json"))):
    m = json.load(open(f))
    desc = " ".join(m.get("description", "").split())
    desc = re.sub(r"\s+", " ", desc)[:230]
    c = m["check"]
    how = "judge on the implementation's output (replay = shrunk failing input)"
    if c.get("no_failing_input_found") == "yes": how = "proof obligation / correspondence broken (no-failing-input-found)"
    if "crash" in c.get("output", ""): how = "implementation crashed / sanitizer report (replay = the case)"
    fa = m.get("first_attempt")
    first = "-" if not fa else ("missed" if fa["detected"] != "yes" else "detected, no failing input" if fa["no_failing_input_found"] == "yes" else "detected")
    rows.append("| %s | %s | %s | %s | %s | %s |" % (m["name"], m["property"], desc.replace("|", "/"), c["detected"], how if c["detected"] == "yes" else "-", first))
print("| seed | property | change (from the sub-agent's description) | detected by the property's quick check | how | before the machinery was strengthened |")
print("|---|---|---|---|---|---|")
print("\n".join(rows))

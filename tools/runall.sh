#!/bin/bash
# run every registered quick check sequentially; summary at the end
cd "$(dirname "$0")/.."
rc=0
for p in $(grep -v '^#' tools/ready.txt); do
  out=$(python3 run.py --property $p --tier ${1:-quick} 2>&1); r=$?
  echo "$out" | grep -E "VIOLATION|KNOWN-FINDING|^$p:" 
  [ $r -ne 0 ] && rc=1
done
exit $rc

#!/bin/bash
# confirm_seed.sh <ID> [<name>] — confirm a seeded breaking change produced by an independent sub-agent:
#  1. fresh scratch worktree of /repo + the patch: library and test suite compile, the unedited suite passes;
#  2. the demonstration fails with the patch and passes without it;
#  3. the registered check for property <ID> is run against the patched tree (PGM_REPO) and its verdict recorded.
# Writes /verif/seeded/<name>/{patch.diff,demo.cpp,meta.json}; removes the scratch worktree.
ID=$1; NAME=${2:-$ID}
VERIF=${VERIF:-/verif}
SRC=/tmp/mut; W=/tmp/seedchk/$NAME; OUT=$VERIF/seeded/$NAME
mkdir -p $OUT; rm -rf $W; git -C /repo worktree prune
git -C /repo worktree add -q --detach $W HEAD || exit 2
cp $SRC/$NAME.patch.diff $OUT/patch.diff; cp $SRC/$NAME.demo.cpp $OUT/demo.cpp
DEMOFLAGS="-std=c++17 -O2 -march=native -fopenmp -w -fno-access-control"
EXTRA=""; grep -q "cpgm.h" $OUT/demo.cpp && EXTRA="c-interface/cpgm.cpp"
# clean demo
( cd $W && g++ $DEMOFLAGS -Iinclude -Ic-interface $OUT/demo.cpp $EXTRA -o $W/demo_clean -lpthread ) > $OUT/.log 2>&1
timeout 900 $W/demo_clean > $OUT/.clean.out 2>&1; CLEAN_RC=$?
git -C $W apply $OUT/patch.diff 2>/dev/null || ( cd $W && patch -p1 -F3 -s < $OUT/patch.diff ) || { echo "patch does not apply"; exit 2; }
( cd $W && g++ $DEMOFLAGS -Iinclude -Ic-interface $OUT/demo.cpp $EXTRA -o $W/demo_mut -lpthread ) >> $OUT/.log 2>&1
timeout 900 $W/demo_mut > $OUT/.mut.out 2>&1; MUT_RC=$?
# existing suite with the change
( cmake -G Ninja -B $W/_build -S $W -DCMAKE_BUILD_TYPE=RelWithDebInfo -DBUILD_EXAMPLES=OFF -DBUILD_PGM_TUNER=OFF -DBUILD_PGM_BENCHMARK=OFF > /dev/null && cmake --build $W/_build --target tests -- -j6 > /dev/null 2>&1 && timeout 1800 $W/_build/test/tests | tail -2 ) > $OUT/.tests.out 2>&1; TEST_RC=$?
rm -rf $W/_build
# the check against the patched tree
( cd $VERIF && PGM_REPO=$W python3 run.py --property $ID 2>&1 | grep -E "VIOLATION|KNOWN-FINDING|^$ID:" ) > $OUT/.check.out 2>&1
DET=no; grep -q "^VIOLATION property=$ID" $OUT/.check.out && DET=yes
NOFAIL=no; grep -q "no-failing-input-found" $OUT/.check.out && NOFAIL=yes
python3 - <<PY
import json
meta = {
 "property": "$ID", "name": "$NAME",
 "description": open("$SRC/$NAME.meta.txt").read() if __import__("os").path.exists("$SRC/$NAME.meta.txt") else "",
 "confirmed": {"demo_clean_exit": $CLEAN_RC, "demo_with_change_exit": $MUT_RC, "existing_suite_with_change": open("$OUT/.tests.out").read().strip()[-200:], "suite_exit": $TEST_RC},
 "check": {"command": "PGM_REPO=<scratch worktree with patch> python3 run.py --property $ID --tier quick", "detected": "$DET", "no_failing_input_found": "$NOFAIL",
           "output": open("$OUT/.check.out").read().strip()[-1500:]},
}
json.dump(meta, open("$OUT/meta.json", "w"), indent=1)
print("$NAME: demo clean=$CLEAN_RC mutated=$MUT_RC suite=$TEST_RC detected=$DET nofail=$NOFAIL")
PY
rm -f $OUT/.log $OUT/.clean.out $OUT/.mut.out $OUT/.tests.out $OUT/.check.out
git -C /repo worktree remove --force $W

#!/usr/bin/env python3
"""mkmanifest.py — writes MANIFEST.json from the table below (authoring-time helper)."""
import json, os
ROOT = os.path.join(os.path.dirname(os.path.abspath(__file__)), "..")
props = [json.loads(l)["id"] for l in open(os.path.join(ROOT, "properties.jsonl"))]
NOTE = ("Trusted: Coq 8.16.1 kernel; extraction (ExtrOcamlBasic only) + ocaml/driver.ml; the C++ harness, generators and run.py; "
        "translator tools/leaf_translate.py; Flocq as the IEEE-754 definition for the executable model. The model is hand-written and tied to "
        "/repo on every run by differential correspondence on identical inputs (build-level and query-level observables compared exactly) and by "
        "regenerating GenLeaf.v from the source; the judge (extracted boolean form of the property) is applied to the implementation's own outputs. ")
CLAIMS = {
 "C01": ("proof", "Partial proof + checked tie. Theorems (all eps, n, positions, unbounded): window arithmetic on the regenerated macros, and 'eps-feasible line + float product within 1/2 => first occurrence inside [lo,hi)'. The composition with build/routing is not yet proved; it is covered by bit-exact model/implementation correspondence on generated inputs and by the extracted judge C01_pred_b on every present key.", "6.1"),
 "C02": ("proof", "Partial proof + checked tie. Theorems: lb_range_eq (the property's wording, all sorted lists), window arithmetic for absent keys, shape of the range for every pos. Composition with build/routing covered by correspondence (incl. chunked builds with 2..16 threads, runs on chunk seams) and the extracted judge C02_pred_b on present, absent, boundary and far queries.", "6.2"),
 "C03": ("proof", "Soundness of the hull builder (every fed point within eps+1/2 of its segment's reported line), proved for all strictly increasing integer point lists; judge in exact arithmetic on the implementation's rectangles/intercepts; fed points captured through hook H1.", "6.3"),
 "C04": ("proof", "Proved for all inputs (integer keys, any eps>=0): a rejection implies infeasibility of the block plus the rejected point (after any accepted history), the drivers emit greedy partitions, greedy partitions are minimal, c chunks cost at most c-1 more, rejected-closed segments span > 2eps ranks; certificate checkers of the judge proved sound. Judge: per emitted segment an infeasibility certificate or a feasible line, both checked by extracted Coq checkers.", "6.4"),
 "C07": ("proof", "Partial proof + checked tie. Theorems: routing-window arithmetic (scan reads <= 2eps_r+3 keys, binary-search window contains the segment) on the regenerated macros, position prediction from an eps_r-feasible upper-level line. Per-level reads recorded by hook H2 and judged against 2*eps_r+3 and the window on every query; level-size/height bound judged on every built index.", "6.7"),
 "C09": ("proof", "Proved for all inputs: the bucketing table build succeeds under explicit side conditions, the bucket index is inside the table, the bucket's slice contains the rightmost segment with key <= query, and segment_for_key returns it without any out-of-range read (all key widths, power-of-two and other table sizes, both cell modes). The range contract is inherited from C01/C02 (EpsilonRecursive = 0 build) and judged per query; the judge also checks the slice property on the implementation's dumped table.", "6.9"),
 "C10": ("proof", "Proved for every low width wl, every strictly increasing rebased key list and every query: the model of pred() returns the rightmost stored key <= i and never selects beyond the population or reads outside low/high; the structure stores exactly the keys. Model tied by comparing wl/low/high/segments and pred()/search() outputs exactly. Range contract inherited from C01/C02 and judged per query (including far queries).", "6.10"),
 "C11": ("proof", "Proved for every sorted list with any duplicate structure, every query and every range satisfying the index contract: lower_bound/upper_bound (with the exponential search past the range)/count/contains equal the std algorithms. Judge: lb/ub/count/membership computed by the extracted counting functions on every query.", "6.11"),
 "C12": ("proof", "Byte-level round trip load(serialize) proved for all well-formed indexes and key lists; raw-file constructor proved equal to the range constructor; reopen returns the same data/file and an equal index (full equality incl. slopes for double). Judge: file bytes of both constructors compared with the model's bytes and with each other, answers of all four containers compared, file unchanged by reopen checked by the harness.", "6.12"),
 "C16": ("proof", "Partial by nature. Proved in general (any thread count, any schedule): no shared write => no conflicting accesses in any interleaving and an unchanged shared memory (each call returns what it returns alone). The premise is discharged by a vm_compute check over the write-effect footprints of every query entry point REGENERATED from the clang AST of the current source on every run. Trusted: completeness of the AST effect extraction and the C++ memory model. Run-time side (finding replays only): ThreadSanitizer harness, 2..16 reader threads on each class, per-thread digests vs sequential.", "6.16"),
 "C17": ("proof", "Partial by nature. Proved: on the model, where every indexed read is checked, the query/update operations of the Elias-Fano, bucketing, mapped and dynamic classes return Ok on every in-domain input (no out-of-bounds read, no select beyond the population, no end() dereference). Not provable in this family: heap lifetime, allocator, library internals; the run-time side executes every engine's cases on the real code under AddressSanitizer/UBSan and reports any report as a violation with the case as replay.", "6.17"),
 "C18": ("proof", "The C entry points are driven directly (extern C only). Theorems are the general ones instantiated at run-time eps and the translated EPSILON_RECURSIVE: create returns NULL iff the data ends with the reserved value (equivalence proved), range arithmetic for every eps, dynamic wrappers refine the ordered map (C05). Partial like C01/C02 for the build/routing composition; judged per query and per call.", "6.18"),
 "C20": ("proof", "Decision rules proved as equivalences/implications on the models for every input (build rejects iff reserved last value; base rejected iff not a power of two; unsorted pair anywhere; reserved mapped value; lo>hi; too-wide coordinate anywhere; non-increasing key; negative epsilon). The malformed input stream places each violation at every position; exception kinds and the container state after a rejected insert are compared with the implementation.", "6.20"),
 "C05": ("proof", "Refinement of the executable LSM model to an ordered map (insert/erase/bulk/find/count/lower_bound) for all histories and configurations under the per-level index contract; model tied to the implementation by comparing the full private state after every operation; judge = abstract map.", "6.5"),
 "C06": ("proof", "Traversal/range/size/empty of the model (LoserTree, iterator, range merge) against the abstract map; full output sequences compared with the implementation.", "6.6"),
 "C13": ("proof", "Proved for all inputs: Morton coding round trip and box test (pdep/pext bit level), the general BIGMIN specification for every width (induction on the bit index), the iterator (range) yields exactly the stored codes in the box with multiplicity, in order, terminating -- relative to the inner index's C02 contract; capstone theorem from multi_build. Judge: filter of the sorted codes by the coordinate-wise box test, bigmin against brute force on small boxes.", "6.13"),
 "C14": ("proof", "Proved for all inputs relative to the inner index's C02 contract: contains(p) is true iff p is a stored point (encode injective). Judge: set membership on every query point (present, absent below/between/above all codes).", "6.14"),
 "C19": ("proof", "Partial by nature. Proved: in an abstract store, re-bound pointer members => a copy/move refers to no storage of its source; the decision procedure over the member layout REGENERATED from the clang AST holds for all six classes. Trusted: the translator's coverage of pointer-like members, the C++ object model. Run-time side: every order of copy/move construct/assign x destroy/mutate source x query under AddressSanitizer.", "6.19"),
 "C15": ("proof", "LSM invariants proved inductive over all histories; the boolean form inv_b is evaluated on the implementation's dumped private state after every update.", "6.15"),
}
TECH = "machine-checked proof in Coq 8.16 (model + theorems) with extraction-based differential correspondence and extracted judges"
ready = [l.strip() for l in open(os.path.join(ROOT, "tools", "ready.txt")) if l.strip() and not l.startswith("#")]
checks, na = [], []
for p in props:
    if p in ready and p in CLAIMS:
        cat, text, ref = CLAIMS[p]
        checks.append({"property_id": p, "quick_cmd": "python3 run.py --property %s --tier quick" % p,
                       "thorough_cmd": "python3 run.py --property %s --tier thorough" % p,
                       "evidence_file": "evidence/%s.json" % p,
                       "replay_cmd_template": "python3 run.py --property %s --replay {path}" % p,
                       "engine": "coq-model+correspondence",
                       "level_claimed": {"category": cat, "text": text, "design_ref": "DESIGN.md " + ref},
                       "level_note": NOTE, "technique": TECH})
    else:
        na.append({"property_id": p, "reason": "check not registered yet (model/proofs in progress; see DESIGN.md section 8)"})
m = {"version": 1,
     "setup_cmd": "python3 run.py --setup",
     "hooks": {"guard": "PGM_INDEX_VERIF", "enable": "harness builds pass -DPGM_INDEX_VERIF (run.py CXXFLAGS); hooks H1 (add_point recorder) and H2 (per-level routing recorder)",
               "baseline_off_cmd": "cmake -G Ninja -B /repo/_build -S /repo -DCMAKE_BUILD_TYPE=RelWithDebInfo && cmake --build /repo/_build && ctest --test-dir /repo/_build -j8 --timeout 900",
               "source_commits": ["d1dcdd1", "f431b07"], "add_only": True},
     "engines": [{"name": "coq-model+correspondence", "path": "run.py", "serves_properties": ready,
                  "kind_free_text": "Coq 8.16 proofs over a hand-written executable Gallina model; model extracted to OCaml and run against the C++ implementation compiled from /repo's working tree on identical generated inputs; extracted boolean judges applied to the implementation's outputs"}],
     "checks": checks, "not_applicable": na,
     "notes": "See DESIGN.md. known_findings.txt lists fixed and known findings."}
json.dump(m, open(os.path.join(ROOT, "MANIFEST.json"), "w"), indent=1)
print("checks:", [c["property_id"] for c in checks])

TABLE = {
 "C04": dict(
   header="""   C04 — segments are maximal, so their number is minimal.
   Proved for integer keys (exact arithmetic), every eps >= 0, no bound on n or on coordinates:
   * C04_builder_complete: a rejection by add_point after ANY accepted history proves that no line fits
     the segment's points plus the rejected one (feasible = exists rational line within the clamped band);
   * C04_segmentation_maximal: the segmentation driver (any chunk) emits a greedy partition of the fed
     points: every block but the last is maximal;
   * C04_greedy_optimal / C04_chunked_bound: a greedy partition into feasible blocks has the minimum
     number of blocks; c chunks cost at most c-1 more;
   * C04_reject_spans: a segment closed by a rejection spans more than 2*eps ranks (starts apart);
   * C04_cert4_sound / C04_line_ok_sound: the run-time judge's certificate checkers are sound.
   Not proved here (see DESIGN.md 6.4): the closed-form count bound floor(n/(2eps+1))+c+1, and the
   instantiation "every emitted block is feasible" which is C03's soundness theorem.""",
   imports=["Base", "PlaModel", "PlaSpec", "PlaCert", "Greedy", "PlaComplete"],
   entries=[("C04_builder_complete", "PlaComplete.v", "builder_complete"),
            ("C04_segmentation_maximal", "PlaComplete.v", "make_segmentation_chunk_maximal"),
            ("C04_greedy_optimal", "Greedy.v", "feasible_greedy_optimal", "nat"),
            ("C04_chunked_bound", "Greedy.v", "feasible_chunked_greedy_bound", "nat"),
            ("C04_reject_spans", "PlaComplete.v", "builder_reject_spans"),
            ("C04_cert4_sound", "PlaCert.v", "cert4_b_sound"),
            ("C04_line_ok_sound", "PlaCert.v", "line_ok_b_sound")],
   examples="""(* non-vacuity: a concrete rejection (eps = 1; the fourth point leaves the band of any line) *)
Example C04_rejection_happens :
  exists s0 s s', pla_init 1 = Ok s0 /\\ feed_all y_size_t s0 [(0,0); (1,1); (2,2)] = Ok s /\\
                  add_point y_size_t s 3 9 = Ok (false, s').
Proof. eexists; eexists; eexists. repeat split; vm_compute; reflexivity. Qed.
"""),
 "C01": dict(
   header="""   C01 — a present key's first occurrence lies inside the returned range.  PARTIAL (DESIGN.md 6.1):
   proved here is the arithmetic core, on the macros regenerated from the source (GenLeaf.v) and on the
   model's transcription of the intercept rounding:
   * C01_window_present: pos within [r-eps-1, r+eps] of the rank r gives lo <= hi <= n, hi-lo <= 2eps+2,
     lo <= pos, r in [lo,hi)  -- for every eps >= 0, n, pos, r;
   * C01_pos_from_feasible_line: a segment line that is eps-feasible at (k, r) (what C03 proves of every
     fed point), evaluated as the C++ does (truncated product + rounded intercept) with a floating-point
     product within 1/2 of the exact one (ev_close), predicts pos in [r-eps-1, r+eps];
   * C01_core: the two combined with the cap by the next intercept.
   NOT proved: that build/segment_for_key deliver such a segment for every present key (routing,
   capping, first-occurrence feeding: stated in DESIGN.md 6.1 (i),(iii),(v)) and the instantiation of
   ev_close by the Flocq model; these are tied by the correspondence check and judged per query.""",
   imports=["Base", "PlaModel", "PlaSpec", "GenLeaf", "IndexModel", "IndexProofs"],
   entries=[("C01_window_present", "IndexProofs.v", "window_present"),
            ("C01_pos_from_feasible_line", "IndexProofs.v", "pos_from_feasible_line"),
            ("C01_core", "IndexProofs.v", "C01_core"),
            ("C01_round_div_half", "IndexProofs.v", "round_div_half")],
   examples="""(* non-vacuity: eps = 2, line through (10,3) with slope 1/2, key 14 at rank 5, exact product 2 *)
Example C01_core_instance :
  line_in_band 2 10 3 2 1 (14, 5) /\ band_hi 2 5 = 7 /\ ev_close 2 1 (14 - 10) 2.
Proof. unfold line_in_band, ev_close. vm_compute. repeat split; intro; discriminate. Qed.
"""),
 "C02": dict(
   header="""   C02 — lower_bound inside the returned range equals the global lower_bound.  PARTIAL (DESIGN.md 6.2):
   * C02_lb_range_eq: the property's wording -- whenever the global lower bound lies in [lo,hi] and
     hi <= n, std::lower_bound restricted to [lo,hi) returns it (all sorted lists, all queries);
   * C02_window_absent: pos within [r-eps-2, r+eps] of the lower bound r (the bound an absent key
     gets from the guard point after a duplicate run) gives lo <= r <= hi <= n;
   * C02_window_shape: 0 <= lo, hi <= n, hi-lo <= 2eps+2, lo <= pos for EVERY pos (no hypothesis);
   * C02_judge_complete: the judge's boolean accepts exactly under those bounds.
   NOT proved: that search delivers such a pos for every query (see C01's header).""",
   imports=["Base", "PlaModel", "PlaSpec", "GenLeaf", "IndexModel", "IndexProofs"],
   entries=[("C02_lb_range_eq", "IndexProofs.v", "lb_range_eq"),
            ("C02_window_absent", "IndexProofs.v", "window_absent"),
            ("C02_window_shape", "IndexProofs.v", "window_shape"),
            ("C02_judge_complete", "IndexProofs.v", "C02_pred_b_of_bounds")],
   examples="""Example C02_lb_range_instance : lb_range [1;3;3;7;9] 1 4 3 = lb [1;3;3;7;9] 3.
Proof. vm_compute. reflexivity. Qed.
"""),
 "C07": dict(
   header="""   C07 — bounded work per level.  PARTIAL (DESIGN.md 6.7):
   * C07_route_window_scan: if the responsible segment j is within eps_r+1 of the predicted position, the
     linear scan starting at pos-(eps_r+1) reads at most 2*eps_r+3 keys before stopping at j;
   * C07_route_window_bsearch: the binary-search window [lo,hi) then contains j and has at most
     2*eps_r+3 elements;
   * C07_route_pos: an eps_r-feasible upper-level line (C03 for that level) evaluated as the C++ does
     predicts a position within eps_r+1 of j.
   NOT proved: level-size recurrence and height bound; that the cap by the next intercept preserves
   the window for keys between two upper-level segments.""",
   imports=["Base", "PlaModel", "PlaSpec", "GenLeaf", "IndexModel", "IndexProofs"],
   entries=[("C07_route_window_scan", "IndexProofs.v", "route_window_scan"),
            ("C07_route_window_bsearch", "IndexProofs.v", "route_window_bsearch"),
            ("C07_route_pos", "IndexProofs.v", "route_pos_from_feasible_line")]),
}

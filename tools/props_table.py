TABLE = {
 "C04": dict(
   header="""   C04 — segments are maximal, so their number is minimal.
   Proved for integer keys (exact arithmetic), every eps >= 0, no bound on n or on coordinates:
   * C04_builder_complete: a rejection by add_point after ANY accepted history proves that no line fits
     the segment's points plus the rejected one (feasible = exists rational line within the clamped band);
   * C04_segmentation_maximal: the segmentation driver (any chunk) emits a greedy partition of the fed
     points: every block but the last is maximal;
   * C04_greedy_optimal / C04_chunked_bound: a greedy partition into feasible blocks has the minimum
     number of blocks; c chunks cost at most c-1 more;
   * C04_reject_spans: a segment closed by a rejection spans more than 2*eps ranks (starts apart);
   * C04_cert4_sound / C04_line_ok_sound: the run-time judge's certificate checkers are sound.
   * C04_sequential_optimal / C04_chunked_near_optimal: closed theorems about make_segmentation /
     make_segmentation_par: at most as many segments as ANY partition of the fed points into
     eps-feasible blocks (+ par-1 for the chunked driver).
   Not proved here (DESIGN.md 6.4): the closed-form count bound floor(n/(2eps+1))+c+1 (judged).""",
   imports=["Base", "PlaModel", "PlaSpec", "PlaCert", "Greedy", "PlaComplete", "PlaSound"],
   entries=[("C04_builder_complete", "PlaComplete.v", "builder_complete"),
            ("C04_segmentation_maximal", "PlaComplete.v", "make_segmentation_chunk_maximal"),
            ("C04_greedy_optimal", "Greedy.v", "feasible_greedy_optimal", "nat"),
            ("C04_chunked_bound", "Greedy.v", "feasible_chunked_greedy_bound", "nat"),
            ("C04_reject_spans", "PlaComplete.v", "builder_reject_spans"),
            ("C04_sequential_optimal", "PlaSound.v", "make_segmentation_optimal_closed"),
            ("C04_chunked_near_optimal", "PlaSound.v", "make_segmentation_par_near_optimal_closed"),
            ("C04_cert4_sound", "PlaCert.v", "cert4_b_sound"),
            ("C04_line_ok_sound", "PlaCert.v", "line_ok_b_sound")],
   examples="""(* non-vacuity: a concrete rejection (eps = 1; the fourth point leaves the band of any line) *)
Example C04_rejection_happens :
  exists s0 s s', pla_init 1 = Ok s0 /\\ feed_all y_size_t s0 [(0,0); (1,1); (2,2)] = Ok s /\\
                  add_point y_size_t s 3 9 = Ok (false, s').
Proof. eexists; eexists; eexists. split; [vm_compute; reflexivity | split; [vm_compute; reflexivity | vm_compute; reflexivity]]. Qed.
"""),
 "C01": dict(
   header="""   C01 — a present key's first occurrence lies inside the returned range.
   PROVED END TO END on the model (build + segment_for_key + search), for every sorted integer-key array,
   every Epsilon >= 1, every EpsilonRecursive >= 0 (0, linear scan, binary search), every chunk count:
   * C01_search: build c data = Ok ix, q in data  ==>  search c ix q = Ok a with lo <= hi <= n,
     hi - lo <= 2*eps + 2, lo <= pos and lo <= lb data q < hi;
   * C01_search0: the EpsilonRecursive = 0 instance (also the base of the Bucketing/Elias-Fano/Mapped variants).
   Hypotheses: keys within the key type, last key below the sentinel, n < 2^32 (uint32 intercept), and the
   ONLY non-structural one: float_ok c data k -- every floating-point product evaluated on the routing path of
   this query is within 1/2 of the exact product before truncation (eval_ok; DESIGN.md 4.2).
   * C01_eval_ok_float / _double / _zero: eval_ok PROVED from Flocq's IEEE-754 semantics by a rounding-error
     analysis whenever the exact position dy*(k-key)/dx is below 2^22 (float slopes) or 2^50 (double slopes) --
     "a single segment spans < 2^22 positions" -- and for the slope-0 segments; so float_ok holds for every index
     whose segments stay below that span.  (The assembly 'span bound for all segments => float_ok' is not stated
     as one closed theorem.)
   * C01_search_lo_tie / _hi_tie: the range expressions of search() regenerated from the source equal the model's.
   Also kept: the arithmetic core lemmas the composition rests on.""",
   imports=["Base", "PlaModel", "PlaSpec", "GenLeaf", "IndexModel", "IndexProofs", "IdxFed", "IdxSeg", "IdxBlock", "IdxLevel", "IdxSearch0", "IdxRoute", "IdxChain", "IdxMain", "IdxBeyond", "IdxFuel", "IdxGapPla", "IdxGap", "IdxGapChain", "IdxGapMain", "IdxGapRefute", "IdxGapHeight", "LeafTie", "FloatOkLemmas", "FloatOk"],
   entries=[("C01_search", "@check", "C01_search"),
            ("C01_search0", "@check", "C01_search0"),
            ("C01_eval_ok_float", "@check", "eval_ok_float_std"),
            ("C01_eval_ok_double", "@check", "eval_ok_double_std"),
            ("C01_eval_ok_zero", "@check", "eval_ok_zero_bounded"),
            ("C01_search_lo_tie", "LeafTie.v", "search_lo_tie"),
            ("C01_search_hi_tie", "LeafTie.v", "search_hi_tie"),
            ("C01_window_present", "IndexProofs.v", "window_present"),
            ("C01_pos_from_feasible_line", "IndexProofs.v", "pos_from_feasible_line"),
            ("C01_round_div_half", "IndexProofs.v", "round_div_half")]),
 "C02": dict(
   header="""   C02 — lower_bound inside the returned range equals the global lower_bound.
   PROVED END TO END on the model for every sorted integer-key array, Epsilon >= 1, EVERY EpsilonRecursive (0, linear
   scan, binary search), any chunk count, EVERY query below the sentinel:
   * C02_search: build c data = Ok ix, q < sentinel ==> search c ix q = Ok a with 0 <= lo <= lb data q <= hi <= n,
     hi - lo <= 2*eps + 2, lo <= pos  (below the first key, present, in a gap, after a run of duplicates, above the last key);
   Earlier partial results are kept:
   * C02_search0: EpsilonRecursive = 0, EVERY query below the sentinel (below the first key, present, in a gap,
     after a run of duplicates, above the last key): 0 <= lo <= lb data q <= hi <= n, hi-lo <= 2eps+2;
   * C02_search_scan: every EpsilonRecursive on the linear-scan path (<= the translated threshold), EVERY query;
   * C02_search_partial: every EpsilonRecursive (incl. the binary-search path), every query q <= last key;
   * C02_lb_range_eq: hence lower_bound restricted to [lo,hi) IS the global lower_bound (the property's wording).
   Same hypotheses as C01 (float_ok is the only non-structural one).
   The only non-structural hypothesis is float_ok (see C01).""",
   imports=["Base", "PlaModel", "PlaSpec", "GenLeaf", "IndexModel", "IndexProofs", "IdxFed", "IdxSeg", "IdxBlock", "IdxLevel", "IdxSearch0", "IdxRoute", "IdxChain", "IdxMain", "IdxBeyond", "IdxFuel", "IdxGapPla", "IdxGap", "IdxGapChain", "IdxGapMain", "IdxGapRefute", "IdxGapHeight", "LeafTie", "FloatOkLemmas", "FloatOk"],
   entries=[("C02_search", "@check", "C02_search"),
            ("C02_search0", "@check", "C02_search0"),
            ("C02_search_scan", "@check", "C02_search_scan"),
            ("C02_search_partial", "@check", "C02_search_partial"),
            ("C02_lb_range_eq", "IndexProofs.v", "lb_range_eq"),
            ("C02_search_lo_tie", "LeafTie.v", "search_lo_tie"),
            ("C02_search_hi_tie", "LeafTie.v", "search_hi_tie"),
            ("C02_window_absent", "IndexProofs.v", "window_absent"),
            ("C02_judge_complete", "IndexProofs.v", "C02_pred_b_of_bounds")],
   examples="""Example C02_lb_range_instance : lb_range [1;3;3;7;9] 1 4 3 = lb [1;3;3;7;9] 3.
Proof. vm_compute. reflexivity. Qed.
"""),
 "C07": dict(
   header="""   C07 — bounded work per level, logarithmic height.
   PROVED on the model for every input and every EpsilonRecursive >= 1 (linear scan AND binary search):
   * C07_route_trace_partial: for every query q <= last key, every per-level entry of the routing trace
     (the same trace hook H2 records in the implementation) reads at most 2*eps_r+3 segments, never before the
     window start, and routing never fails (no scan past the sentinel);
   * C07_upper_count: a level built over m keys has cnt segments with cnt*(2eps_r+1) <= m + (2eps_r+1)
     (+ (par-1)(2eps_r+1) when chunked), i.e. at most floor(m/(2eps_r+1)) + c;
   * C07_build_level_shrinks / C07_build_never_out_of_fuel: every upper level is strictly smaller than the one
     below and the level loop terminates -- this uses the translated 2^15 threshold and the cap of 20 chunks;
   * the window arithmetic on the translated macros.
   * C07_route_trace_bsearch: on the binary-search routing path the bound 2*eps_r+3 holds for EVERY query;
   * C07_route_trace_wide: on both paths, every query: 2*eps_r+3, except queries above the last key on the
     linear-scan path, where 2*eps_r+4 is proved;
   * C07_refuted: that exception is REAL -- a concrete index (uint16 keys, Epsilon = EpsilonRecursive = 1, n = 140,
     last key = max-2, q = last+1) on which level 1 reads 6 = 2*eps_r+4 segments; witness evaluated by vm_compute on the
     model with every hypothesis (float_ok included) checked, and reproduced on the real code through hook H2.
     Recorded as known finding c07_scan_beyond_last (the answer is still correct: C02_search);
   * C07_height_closed_form: sequential builds: (2eps_r+1)^(height-2) + (2eps_r+1) <= (n+1)*2eps_r.""",
   imports=["Base", "PlaModel", "PlaSpec", "GenLeaf", "IndexModel", "IndexProofs", "IdxFed", "IdxSeg", "IdxBlock", "IdxLevel", "IdxSearch0", "IdxRoute", "IdxChain", "IdxMain", "IdxBeyond", "IdxFuel", "IdxGapPla", "IdxGap", "IdxGapChain", "IdxGapMain", "IdxGapRefute", "IdxGapHeight", "LeafTie", "FloatOkLemmas", "FloatOk"],
   entries=[("C07_route_trace_partial", "@check", "C07_route_trace_partial"),
            ("C07_route_trace_bsearch", "@check", "C07_route_trace_bsearch"),
            ("C07_route_trace_wide", "@check", "C07_route_trace_wide"),
            ("C07_refuted", "IdxGapRefute.v", "C07_refuted"),
            ("C07_height_closed_form", "@check", "height_closed_form"),
            ("C07_upper_count", "@check", "upper_count"),
            ("C07_build_level_shrinks", "@check", "build_level_shrinks"),
            ("C07_build_never_out_of_fuel", "IdxFuel.v", "build_never_out_of_fuel"),
            ("C07_route_lo_tie", "LeafTie.v", "route_lo_tie"),
            ("C07_route_hi_tie", "LeafTie.v", "route_hi_tie"),
            ("C07_route_window_scan", "IndexProofs.v", "route_window_scan"),
            ("C07_route_window_bsearch", "IndexProofs.v", "route_window_bsearch")]),
 "C03": dict(
   header="""   C03 — every constraint point is within epsilon (+1/2 for the rounded intercept) of its segment.
   Proved for integer keys in exact arithmetic, every eps >= 0, no bound on n or on coordinates
   (ranks below 2^64-1-eps), sequential and chunked driver with any number of chunks:
   * C03_feed_all_sound: after any accepted history both extreme lines of the canonical segment stay
     inside the (clamped) band of EVERY fed point -- the O'Rourke hull invariant, by induction;
   * C03_reported_line_sound: the line actually reported (slope r3-r1, intercept rounded with the C++
     truncating division) is within eps + 1/2 of every such point;
   * C03_segmentation_sound / C03_segmentation_par_sound: the segments emitted by make_segmentation /
     make_segmentation_par correspond one-to-one, in order, to consecutive non-empty blocks of the fed
     points (every fed point covered by exactly one segment), each block starting at the segment's first
     key and lying within eps + 1/2 of the segment's reported line (blocks_ok).
   * C03_fed_props / C03_fed_props_par: the fed points are EXACTLY, in increasing order: each distinct key at
     its first-occurrence rank, the successor of a duplicated key at the rank of the last duplicate when a gap
     follows, and the closing point (last+1 -> n) -- identical for the sequential and the chunked driver.
   NOT covered: floating-point KEYS (the C++ then works in long double with rounding) are outside the model.""",
   imports=["Base", "PlaModel", "PlaSpec", "PlaCert", "Greedy", "PlaComplete", "PlaSound", "IdxFed"],
   entries=[("C03_feed_all_sound", "PlaSound.v", "feed_all_sound"),
            ("C03_reported_line_sound", "PlaSound.v", "reported_line_sound"),
            ("C03_feed_all_reported_line", "PlaSound.v", "feed_all_reported_line"),
            ("C03_segmentation_sound", "PlaSound.v", "make_segmentation_sound"),
            ("C03_segmentation_par_sound", "PlaSound.v", "make_segmentation_par_sound"),
            ("C03_fed_props", "IdxFed.v", "make_segmentation_fed_props"),
            ("C03_fed_props_par", "IdxFed.v", "make_segmentation_par_fed_props")],
   examples="""(* non-vacuity: three accepted points with eps = 1 *)
Example C03_instance : exists s0 s, pla_init 1 = Ok s0 /\\ feed_all y_size_t s0 [(0,0); (2,1); (5,2)] = Ok s.
Proof. eexists; eexists. split; [vm_compute; reflexivity | vm_compute; reflexivity]. Qed.
"""),
 "C09": dict(
   header="""   C09 — BucketingPGMIndex: the top-level table always maps a key to a bucket whose segment slice
   contains the rightmost segment starting at or before the key.  Proved for every unsigned key width,
   every TopLevelSize (power of two or not), both cell modes, all segment key lists and all keys in
   [first_key, last_key]:
   * C09_build_top_level_ok: the table build succeeds under the stated side conditions (no UB shift,
     cell width large enough);
   * C09_bucket_index_in_table: the bucket index j and j+1 are inside the table;
   * C09_bucket_slice_spec: top[j] <= t+1 <= top[j+1] with t the rightmost segment with key <= query;
   * C09_segment_for_key_spec: the model's segment_for_key returns exactly t (never Err: no read outside
     the table or the segment array).
   The search contract itself (range brackets the lower bound) is C01/C02's, on the segments built by
   PGMIndex::build with EpsilonRecursive = 0; it is judged on every query by the correspondence check.
   Finding recorded: TopLevelSize = 1 (allowed by the static_assert) never builds (shift by the key
   width / division by zero) -- BucketTop.build_top_level_tls1; outside the property's quantifier (2..4096).""",
   imports=["Base", "PlaModel", "GenLeaf", "IndexModel", "VariantsModel", "EfPred", "BucketTop"],
   entries=[("C09_build_top_level_ok", "@check", "build_top_level_ok"),
            ("C09_bucket_index_in_table", "@check", "bucket_index_in_table"),
            ("C09_bucket_slice_spec", "@check", "bucket_slice_spec"),
            ("C09_segment_for_key_spec", "@check", "bucketing_segment_for_key_spec")]),
 "C10": dict(
   header="""   C10 — EliasFanoPGMIndex: the succinct predecessor structure always selects the rightmost segment
   starting at or before the key.  Proved for EVERY low width wl >= 0 (so for whatever sdsl's get_params
   chooses), every strictly increasing key list starting at 0 (keys are rebased to the first key) and
   every query i >= 0, on the statement-by-statement model of pred() (after the fix of the select
   beyond the population):
   * C10_ef_pred_spec: pred returns (ub vals i - 1, vals[ub vals i - 1]) -- never an error: no select
     beyond the number of zeros/ones, no read outside low/high, binary search within its fuel;
   * C10_ef_pred_rightmost: the same as a rightmost-element characterisation;
   * C10_ef_values_build: the structure stores exactly the given values.
   The search contract (estimate, cap, widen) is C01/C02's and is judged per query.""",
   imports=["Base", "PlaModel", "GenLeaf", "IndexModel", "VariantsModel", "EfPred"],
   entries=[("C10_ef_pred_spec", "EfPred.v", "ef_pred_spec"),
            ("C10_ef_pred_no_error", "EfPred.v", "ef_pred_no_error"),
            ("C10_ef_pred_rightmost", "EfPred.v", "ef_pred_rightmost"),
            ("C10_ef_values_build", "EfPred.v", "ef_values_build_strict")]),
 "C11": dict(
   header="""   C11 — MappedPGMIndex answers multiset queries exactly like the std algorithms.  Proved for every
   sorted key list (any duplicate structure), every query, and every approximate range that satisfies
   the index contract range_ok (0 <= lo <= lb <= hi <= n, and lb < hi for present keys -- C01/C02):
   lower_bound, upper_bound (range search + exponential search past the range + binary search),
   count and contains return lb, ub, ub - lb and membership.  n < 2^62 for the exponential search's fuel.
   The axioms listed come from Flocq's definitions inside the index model (mapped_range calls search),
   not from these proofs.""",
   imports=["Base", "PlaModel", "GenLeaf", "IndexModel", "MappedModel", "MappedQueries"],
   entries=[("C11_lower_bound_spec", "@check", "lower_bound_spec"),
            ("C11_upper_bound_spec", "@check", "upper_bound_spec"),
            ("C11_count_spec", "@check", "count_spec"),
            ("C11_contains_spec", "@check", "contains_spec"),
            ("C11_gallop_spec", "MappedQueries.v", "gallop_spec")]),
 "C12": dict(
   header="""   C12 — creating from a range, from a raw key file, and reopening are equivalent.  Proved on the
   byte-level model of the file layout (header_bytes | n | first_key | levels_offsets | segments | keys):
   * C12_load_serialize: load (serialize ix keys) returns the same keys and an index equal field by field
     (slopes compared through their bit patterns) for every well-formed index -- all sizes;
   * C12_load_serialize_double: full equality, slopes included, for Floating = double;
   * C12_reopen_from_range: reopening the file written by the range constructor gives the same data,
     the same file and an equal index;
   * C12_from_raw_eq_from_range: the raw-file constructor on the raw bytes of the keys IS the range
     constructor (same state, same file bytes) -- after the fix of the unset first_key.
   'Reopening never alters the file' is an OS-level fact: checked by the harness (file bytes before/after).""",
   imports=["Base", "PlaModel", "GenLeaf", "IndexModel", "MappedModel", "MappedFile", "MappedSlopes"],
   entries=[("C12_load_serialize", "MappedFile.v", "load_serialize"),
            ("C12_reopen_from_range", "MappedFile.v", "reopen_from_range"),
            ("C12_from_raw_eq_from_range", "MappedFile.v", "from_raw_raw_file"),
            ("C12_load_serialize_double", "MappedSlopes.v", "load_serialize_double"),
            ("C12_slope_ok_finite", "MappedSlopes.v", "slope_ok_finite")]),
 "C05": dict(
   header="""   C05 — DynamicPGMIndex: point queries agree with an ordered map after any history.
   Proved on the statement-by-statement model (DynModel.v) for ALL histories (any bulk-load followed by any
   finite sequence of insert_or_assign / erase), all configurations (base, buffer_level, index_level) and an
   abstract per-level index assumed only to satisfy the search contract pgm_contract (C01/C02) and to
   return the empty index on the empty range:
   * C05_insert_refines / C05_erase_refines / C05_bulk_refines: each update commutes with the abstraction
     function abs (newest level first, tombstone = absent);
   * C05_hist_represents: after any guarded history the state represents the abstract map;
   * C05_find / C05_count / C05_lower_bound: the query results equal am_find / am_lower_bound on the map;
   * C05_insert_total / C05_erase_total: operations on valid input never fail (non-vacuity).
   Side conditions (DynCore.v): ghist = hist + guards (constructor arguments in range, keys < max K,
   used_levels < 255 before each update); sizes_ok (used_levels * log2(base) <= 63) for totality.""",
   imports=["Base", "GenLeaf", "DynModel", "DynSpec", "DynCoreLemmas", "DynCoreInv", "DynCoreRefine", "DynCoreQuery", "DynCoreTotal", "DynCoreLB", "DynCore"],
   entries=[("C05_insert_refines", "@check", "insert_refines"),
            ("C05_erase_refines", "@check", "erase_refines"),
            ("C05_bulk_refines", "@check", "bulk_refines"),
            ("C05_hist_represents", "@check", "hist_represents"),
            ("C05_find", "@check", "C05_find"),
            ("C05_count", "@check", "C05_count"),
            ("C05_lower_bound", "@check", "C05_lower_bound"),
            ("C05_insert_total", "@check", "insert_total"),
            ("C05_erase_total", "@check", "erase_total"),
            ("C05_ghist_is_hist", "@check", "ghist_is_hist")]),
 "C15": dict(
   header="""   C15 — DynamicPGMIndex keeps its levels within the LSM invariants after every update.
   Proved by induction over ALL histories and configurations (same model and side conditions as C05):
   * C15_ctor / C15_bulk: the constructors establish wf_state;
   * C15_insert: Inv is preserved by every insert_or_assign / erase (Inv = wf_state + six bookkeeping facts,
     because wf_state alone is not inductive);
   * C15_hist: after any guarded history lsm_props holds: every level strictly sorted; buffer within
     buffer_max; level i within base^i; no data beyond used_levels; every non-empty level at or above the
     index level owns an index built over exactly its current keys; an emptied level's index is reset.
   The boolean form inv_b is evaluated on the implementation's dumped private state after every update.""",
   imports=["Base", "GenLeaf", "DynModel", "DynSpec", "DynCoreLemmas", "DynCoreInv", "DynCoreRefine", "DynCoreQuery", "DynCoreTotal", "DynCoreLB", "DynCore"],
   entries=[("C15_ctor", "@check", "C15_ctor"),
            ("C15_bulk", "@check", "C15_bulk"),
            ("C15_insert", "@check", "C15_insert"),
            ("C15_Inv_wf", "@check", "Inv_wf"),
            ("C15_Inv_lsm", "@check", "Inv_lsm"),
            ("C15_hist", "@check", "C15_hist")]),
 "C17": dict(
   header="""   C17 — no operation touches memory outside its own structures.  PARTIAL BY NATURE (DESIGN.md 6.17).
   What is proved is the part that is logic: in the model EVERY indexed read is a checked read
   (nth_res -> Err OutOfBounds, select -> Err UBSelect, end() dereference -> Err UBDerefEnd), so a theorem
   'the operation returns Ok' is 'no access outside the structures' at the model level:
   * C17_no_oob_ef_pred, C17_no_oob_bucketing: succinct predecessor and bucket table lookups;
   * C17_no_oob_mapped: the exponential search past the range never reads at or beyond end();
   * C17_no_oob_dyn_find / _lower_bound / _insert: every query and update of the dynamic container.
   (C03/C04/C13/C14 theorems have the same '= Ok' shape for the builder and the multidimensional paths.)
   NOT modelled: heap lifetime, allocator behaviour, alignment, library internals.  The run-time side
   (finding replays) runs every engine's cases under AddressSanitizer/UBSan on the real code.""",
   imports=["Base", "Fp", "PlaModel", "GenLeaf", "IndexModel", "VariantsModel", "EfPred", "BucketTop", "MappedModel", "MappedQueries", "MappedFile",
            "DynModel", "DynSpec", "DynCoreLemmas", "DynCoreInv", "DynCoreRefine", "DynCoreQuery", "DynCoreTotal", "DynCoreLB", "DynCore", "Bounds"],
   entries=[("C17_no_oob_ef_pred", "Bounds.v", "no_oob_ef_pred"),
            ("C17_no_oob_bucketing", "Bounds.v", "no_oob_bucketing_segment_for_key"),
            ("C17_no_oob_mapped", "Bounds.v", "no_oob_mapped_upper_bound"),
            ("C17_no_oob_dyn_find", "@check", "no_oob_dyn_find"),
            ("C17_no_oob_dyn_lower_bound", "@check", "no_oob_dyn_lower_bound"),
            ("C17_no_oob_dyn_insert", "@check", "no_oob_dyn_insert")]),
 "C18": dict(
   header="""   C18 — the C interface gives the same guarantees as the C++ classes it wraps.
   The wrapper is the C++ PGMIndex with Epsilon chosen at run time and EpsilonRecursive = the translated
   EPSILON_RECURSIVE, and DynamicPGMIndex<T,T> with default arguments; the model is IndexModel / DynModel
   at those parameters, so the theorems are the general ones instantiated (they quantify over every eps):
   * C18_create_null_iff_reserved: create returns NULL exactly when the data ends with the reserved value;
   * C18_window_present / C18_window_absent / C18_lb_range_eq: the range arithmetic at run-time eps;
   * C18_dyn_find / C18_dyn_lower_bound: the dynamic wrappers against the ordered map (C05).
   PARTIAL like C01/C02: the composition with build/routing is tied by the correspondence check, which
   drives ONLY the extern "C" entry points of cpgm.h.""",
   imports=["Base", "PlaModel", "PlaSpec", "GenLeaf", "IndexModel", "IndexProofs", "LeafTie", "DynModel", "DynSpec", "DynCoreLemmas", "DynCoreInv",
            "DynCoreRefine", "DynCoreQuery", "DynCoreTotal", "DynCoreLB", "DynCore", "MultiModel", "VariantsModel", "MappedModel", "Reject"],
   entries=[("C18_create_null_iff_reserved", "Reject.v", "build_rejects_iff"),
            ("C18_c_search_lo_tie", "LeafTie.v", "c_search_lo_tie"),
            ("C18_c_search_hi_tie", "LeafTie.v", "c_search_hi_tie"),
            ("C18_window_present", "IndexProofs.v", "window_present"),
            ("C18_window_absent", "IndexProofs.v", "window_absent"),
            ("C18_lb_range_eq", "IndexProofs.v", "lb_range_eq"),
            ("C18_dyn_find", "@check", "C05_find"),
            ("C18_dyn_lower_bound", "@check", "C05_lower_bound")]),
 "C20": dict(
   header="""   C20 — reserved values and invalid arguments are rejected, never silently indexed.  Decision rules
   proved as equivalences / implications on the models, for every input:
   * C20_build_rejects_iff: PGMIndex::build (hence every static class and the C create) fails with
     invalid_argument IF AND ONLY IF the data is non-empty and ends with the reserved largest value;
   * C20_bucketing / _ef / _mapped_rejects_reserved: the variants inherit it;
   * C20_dyn_ctor_rejects_base / _accepts_pow2: base >= 2 is rejected iff it is not a power of two;
   * C20_dyn_bulk_rejects_unsorted: an unsorted pair ANYWHERE in the bulk-load range is rejected;
   * C20_insert_rejects_tombstone: the reserved mapped value is rejected (the functional model returns
     no new state, i.e. the container is exactly as it was; the harness compares the dumped state);
   * C20_range_rejects: lo > hi is rejected;  C20_multi_rejects_wide: a coordinate too wide anywhere;
   * C20_add_point_rejects_iff: the builder raises logic_error iff the key does not exceed its predecessor
     inside a segment;  C20_pla_init_rejects_iff: negative epsilon.""",
   imports=["Base", "Fp", "PlaModel", "GenLeaf", "IndexModel", "DynModel", "DynSpec", "MultiModel", "VariantsModel", "MappedModel", "Reject"],
   entries=[("C20_build_rejects_iff", "Reject.v", "build_rejects_iff"),
            ("C20_bucketing_rejects_reserved", "Reject.v", "bucketing_rejects_reserved"),
            ("C20_ef_rejects_reserved", "Reject.v", "ef_rejects_reserved"),
            ("C20_mapped_rejects_reserved", "Reject.v", "mapped_range_ctor_rejects_reserved"),
            ("C20_dyn_ctor_rejects_base", "@checki", "dyn_ctor_rejects_base"),
            ("C20_dyn_ctor_accepts_pow2", "@checki", "dyn_ctor_accepts_pow2"),
            ("C20_dyn_bulk_rejects_unsorted", "@checki", "dyn_bulk_rejects_unsorted"),
            ("C20_insert_rejects_tombstone", "@check", "insert_rejects_tombstone"),
            ("C20_range_rejects", "@check", "range_rejects_iff_gt"),
            ("C20_multi_rejects_wide", "Reject.v", "multi_rejects_wide"),
            ("C20_add_point_rejects_iff", "Reject.v", "add_point_rejects_iff"),
            ("C20_pla_init_rejects_iff", "Reject.v", "pla_init_rejects_iff")]),
 "C16": dict(
   header="""   C16 — concurrent read-only queries on one index are race-free and consistent.  PARTIAL BY NATURE.
   Proved (general, any number of threads, any schedule):
   * C16_race_free: threads that perform no write on shared locations have no two conflicting accesses
     in ANY interleaving;
   * C16_shared_memory_unchanged: under the same condition the shared memory is the same at every point
     of every interleaving, so every read returns what it returns when the thread runs alone;
   * C16_queries_read_only: the write effects of EVERY query entry point (search, segment_for_key, pred,
     lower/upper_bound, count, contains, range, iterator ++, find, ...) extracted from the clang AST of the
     CURRENT source (GenFootprints.v, regenerated on every run) contain no write rooted in *this, in a pointee
     of a member, in a namespace/static variable, no mutable member, no const_cast; iterator objects are
     written only by the thread that owns them;
   * C16_entry_points_present: the extraction is not vacuous.
   Trusted: completeness of the AST effect extraction (calls into libstdc++/sdsl are summarised by a list of
   mutating member names), the C++ memory model.  Run-time side: a ThreadSanitizer harness with 2..16 reader
   threads per class; per-thread digests compared with a sequential run.""",
   imports=["GenFootprints", "Effects", "EffectsQueries"],
   entries=[("C16_race_free", "Effects.v", "race_free"),
            ("C16_shared_memory_unchanged", "Effects.v", "shared_memory_unchanged"),
            ("C16_queries_read_only", "EffectsQueries.v", "queries_read_only"),
            ("C16_entry_points_present", "EffectsQueries.v", "entry_points_present"),
            ("C16_read_only_threads", "EffectsQueries.v", "read_only_footprints_give_read_only_threads")]),
 "C13": dict(
   header="""   C13 — MultidimensionalPGMIndex::range enumerates exactly the points inside the box.
   Proved for every dimension count D >= 1 and width with D*field_bits <= 64 (in particular D in {2,3,4},
   T in {uint32,uint64}), every multiset of encodable points and every box:
   * C13_decode_encode / C13_box_zcontains_spec: Morton coding through pdep/pext round-trips, and the masked
     per-dimension comparison is exactly the coordinate-wise box test;
   * C13_bigmin_spec_general: BIGMIN (Tropf-Herzog) returns the least code inside the box greater than x, for
     ALL widths, by induction on the bit index (plus exhaustive vm_compute instances as a cross-check);
   * C13_range_spec: iterating range(min,max) to end() yields exactly the stored codes inside the box, with
     multiplicity, in increasing Morton order, and terminates within its fuel -- relative to the inner
     index's range contract (C02) as hypothesis Hrange;
   * C13_multi_index_correct: the capstone: stored data = sorted encodings of the points; contains and
     range are exact (after the two fixes recorded in known_findings.txt).
   The listed axioms come from Flocq's definitions inside the inner index model.""",
   imports=["Base", "PlaModel", "GenLeaf", "IndexModel", "MultiModel", "MultiMorton", "MultiRange", "MultiBigmin"],
   entries=[("C13_decode_encode", "MultiMorton.v", "decode_encode"),
            ("C13_box_zcontains_spec", "MultiMorton.v", "box_zcontains_spec"),
            ("C13_bigmin_spec_general", "MultiBigmin.v", "bigmin_spec_general"),
            ("C13_bigmin_spec_2d_3bit", "MultiBigmin.v", "bigmin_spec_2d_3bit"),
            ("C13_range_spec", "@check", "range_spec"),
            ("C13_range_spec_points", "@check", "range_spec_points"),
            ("C13_multi_index_correct", "MultiBigmin.v", "multi_index_correct")]),
 "C14": dict(
   header="""   C14 — MultidimensionalPGMIndex::contains is exact set membership.  Proved for every multiset of
   encodable points and every encodable query point, relative to the inner index's range contract (C02):
   * C14_contains_spec: contains(p) = true iff encode(p) is among the stored codes;
   * C14_encode_injective / C14_decode_encode: so iff p is one of the stored points;
   * C14_multi_index_correct: the capstone statement (b = true <-> In p points).""",
   imports=["Base", "PlaModel", "GenLeaf", "IndexModel", "MultiModel", "MultiMorton", "MultiRange", "MultiBigmin"],
   entries=[("C14_contains_spec", "@check", "contains_spec"),
            ("C14_encode_injective", "MultiMorton.v", "encode_injective"),
            ("C14_decode_encode", "MultiMorton.v", "decode_encode"),
            ("C14_multi_index_correct", "MultiBigmin.v", "multi_index_correct")]),
 "C19": dict(
   header="""   C19 — index objects are independent values.  PARTIAL BY NATURE (DESIGN.md 6.19).
   Proved: in an abstract store where an object is a set of storage nodes with pointer members that are either
   re-bound by the class's copy/move operations or copied verbatim,
   * C19_indep_sound: if every pointer member is re-bound, a copy/move into fresh storage is well formed and
     refers to NO node of its source (whatever is later done to the source);
   * C19_verbatim_pointer_dangles: conversely a verbatim-copied pointer member still points into the source;
   * C19_all_classes_indep: the decision procedure indep_b holds of PGMIndex, CompressedPGMIndex,
     BucketingPGMIndex, EliasFanoPGMIndex, MultidimensionalPGMIndex, DynamicPGMIndex and every class reachable
     through their members, on the member layout REGENERATED from the clang AST of the current source
     (GenLayout.v): vector/value members deep-copy, sd_vector re-targets its own supports (checked in
     sdsl.hpp), CompressedLevel::sel1 is re-bound by user-provided copy/move operations;
   * C19_layout_nonvacuous: the translator saw the classes and the members that matter.
   Trusted: that the translator sees every pointer-like member (it flags raw pointers, references and sdsl
   support classes) and the C++ object model.  Run-time side: all copy/move/destroy/mutate orders under ASan.""",
   imports=["GenLayout", "Ownership"],
   entries=[("C19_indep_sound", "Ownership.v", "indep_sound"),
            ("C19_verbatim_pointer_dangles", "Ownership.v", "verbatim_pointer_dangles"),
            ("C19_all_classes_indep", "Ownership.v", "all_classes_indep"),
            ("C19_layout_nonvacuous", "Ownership.v", "layout_nonvacuous")]),
 "C06": dict(
   header="""   C06 — DynamicPGMIndex: traversal, range, size and empty agree with an ordered map.
   Proved on the statement-by-statement model for ALL guarded histories and configurations (same side
   conditions as C05), with the CONCRETE loser tree (tree_iface_holds), not an abstract selection function:
   * C06_range: range(lo,hi) returns exactly the live pairs with lo <= key <= hi, in order;
   * C06_iter: iterating with ++ from any lower_bound result visits exactly the live keys >= q in strictly
     increasing order, each once, with current values, and reaches end() (never out of fuel);
   * C06_begin / C06_size / C06_empty: begin()..end() is the whole map, size() its cardinality, empty() iff none.
   Keys below max K (the tree's sentinel), kmin <= every key for begin().
   Note: LoserTree(0) (first ++ on the greatest key) evaluates 1 << 64 in C++ (undefined; x86 masks the count);
   the model states that masking explicitly (DynModel.lt_new).""",
   imports=["Base", "GenLeaf", "DynModel", "DynSpec", "DynCoreLemmas", "DynCoreInv", "DynCoreRefine", "DynCoreQuery", "DynCoreTotal", "DynCoreLB", "DynCore",
            "DynIterRange", "DynIterTree", "DynIter"],
   entries=[("C06_range", "@check", "C06_range"),
            ("C06_iter", "@check", "C06_iter"),
            ("C06_begin", "@check", "C06_begin"),
            ("C06_size", "@check", "C06_size"),
            ("C06_empty", "@check", "C06_empty"),
            ("C06_tree_iface_holds", "@check", "tree_iface_holds")]),
 "C08": dict(
   header="""   C08 — CompressedPGMIndex honours the same search contract as PGMIndex.  PARTIAL (DESIGN.md 6.8).
   The executable model covers the whole class bit-exactly, including the x87 long double arithmetic of
   get_slope_range / get_intersection / merge_slopes and the float products (validated on every run).
   Proved:
   * C08_merge_slope_feasible: in exact arithmetic, ANY slope between a segment's two extreme slopes, through
     the intersection point of its two extreme lines, stays inside the band wherever both extreme lines do
     (C03 proves both extreme lines feasible) -- the reason slopes may be shared between segments;
   * C08_mid_in_range: the table slope (min+max)/2 of a group lies inside the group's intersected range;
   * C08_intercepts_increasing / C08_get_intercept_in_bounds: the clamped intercepts stored by a successfully
     built level strictly increase below the bitvector size, and get_intercept never reads outside them;
   * C08_clamp_*: clamping facts; C08_window_*: the range arithmetic shared with C01/C02.
   NOT proved: the floating-point error of the intersection point, of the rounded table slope and of the float
   product (named hypothesis compressed_fp_close in DESIGN.md), and the composition with routing.
   These are tied by the exact correspondence and judged per query (C01/C02 predicates, all key widths,
   EpsilonRecursive 0, small, and above the linear-search threshold, far queries, last key = max-1).""",
   imports=["Base", "Fp", "PlaModel", "PlaSpec", "GenLeaf", "IndexModel", "IndexProofs", "CompressedModel", "CompressedProofs"],
   entries=[("C08_merge_slope_feasible", "CompressedProofs.v", "merge_slope_feasible"),
            ("C08_mid_in_range", "CompressedProofs.v", "mid_in_range"),
            ("C08_intercepts_increasing", "CompressedProofs.v", "clevel_intercepts_increasing"),
            ("C08_get_intercept_in_bounds", "CompressedProofs.v", "get_intercept_in_bounds"),
            ("C08_clamp_bounds", "CompressedProofs.v", "clamp_bounds"),
            ("C08_clamp_monotone", "CompressedProofs.v", "clamp_monotone"),
            ("C08_window_present", "IndexProofs.v", "window_present"),
            ("C08_window_absent", "IndexProofs.v", "window_absent")]),
}

# ---- ties to the expressions regenerated from the source by T1 (LeafTie.v), added per property ----
def _add(pid, entries, imports=("GenLeaf", "LeafTie")):
    t = TABLE[pid]
    for i in imports:
        if i not in t["imports"]: t["imports"].append(i)
    t["entries"] += entries

_add("C08", [("C08_search0_lo_tie", "LeafTie.v", "cmp_search0_lo_tie"), ("C08_search0_hi_tie", "LeafTie.v", "cmp_search0_hi_tie"),
             ("C08_route_lo_tie", "LeafTie.v", "cmp_route_lo_tie"), ("C08_route_hi_tie", "LeafTie.v", "cmp_route_hi_tie"),
             ("C08_search_lo_tie", "LeafTie.v", "cmp_search_lo_tie"), ("C08_search_hi_tie", "LeafTie.v", "cmp_search_hi_tie"),
             ("C08_max_intercept_tie", "LeafTie.v", "cmp_max_intercept_tie"), ("C08_intercepts_count_tie", "LeafTie.v", "cmp_intercepts_count_tie"),
             ("C08_clamp_tie", "LeafTie.v", "cmp_clamp_tie")])
_add("C09", [("C09_search_lo_tie", "LeafTie.v", "bkt_search_lo_tie"), ("C09_search_hi_tie", "LeafTie.v", "bkt_search_hi_tie"),
             ("C09_step_tie", "LeafTie.v", "bkt_step_tie"), ("C09_pow2_top_size_tie", "LeafTie.v", "bkt_pow2_top_size_tie"),
             ("C09_pow2_shift_tie", "LeafTie.v", "bkt_pow2_shift_tie"), ("C09_ceil_int_div_spec", "LeafTie.v", "ceil_int_div_spec")])
_add("C10", [("C10_search_lo_tie", "LeafTie.v", "efi_search_lo_tie"), ("C10_search_hi_tie", "LeafTie.v", "efi_search_hi_tie")])
_add("C15", [("C15_bulk_used_levels_tie", "LeafTie.v", "dyn_bulk_used_levels_tie"), ("C15_bulk_levels_count_tie", "LeafTie.v", "dyn_bulk_levels_count_tie")])
_add("C08", [("C08_level_far_double", "SatTie.v", "cmp_level_far_double"), ("C08_level_far_float", "SatTie.v", "cmp_level_far_float"),
             ("C08_root_far_double", "SatTie.v", "cmp_root_far_double"), ("C08_root_far_float", "SatTie.v", "cmp_root_far_float"),
             ("C08_below_limit_no_overflow", "SatTie.v", "below_limit_no_overflow")], imports=("Fp", "GenLeaf", "SatTie"))
_add("C10", [("C10_far_double", "SatTie.v", "efi_far_double"), ("C10_far_float", "SatTie.v", "efi_far_float"),
             ("C10_below_limit_no_overflow", "SatTie.v", "below_limit_no_overflow")], imports=("Fp", "GenLeaf", "SatTie"))
_add("C01", [("C01_too_far_value", "SatTie.v", "pgm_too_far_value")], imports=("Fp", "GenLeaf", "SatTie"))

# ---- end-to-end compositions (Compose*.v), float hypothesis discharge (FloatOkFar/FloatOkAll), count bound (CountBound.v),
# ---- run-time certificate for the compressed index (CmpCert*.v); statements obtained with Check (closed over their sections)
_IDXC = ("Fp", "MappedQueries", "FloatOkFar", "FloatOkAll", "ComposeIdx", "ComposeBuild", "ComposeFloat")
_add("C01", [("C01_build_total", "@check", "build_total"), ("C01_search_contract", "@check", "search_contract"),
             ("C01_build_search_contract", "@check", "build_search_contract"),
             ("C01_float_ok_double", "@check", "float_ok_double"), ("C01_float_ok_of_exact", "@check", "float_ok_of_exact"),
             ("C01_float_ok_of_small_span", "@check", "float_ok_of_small_span"), ("C01_float_ok_of_small_partial", "@check", "float_ok_of_small_partial"),
             ("C01_index_contract_double", "@check", "index_contract_double"), ("C01_index_contract_small_span", "@check", "index_contract_small_span"),
             ("C01_float_ok_not_general_for_float", "@check", "cx_not_float_ok")], imports=_IDXC)
_add("C02", [("C02_search_contract_valid", "@check", "search_contract_valid"), ("C02_index_contract_double", "@check", "index_contract_double"),
             ("C02_index_contract_small_span", "@check", "index_contract_small_span"), ("C02_eval_ok_double_all", "@check", "eval_ok_double_all"),
             ("C02_eval_ok_far", "@check", "eval_ok_far")], imports=_IDXC)
_add("C04", [("C04_segments_count_bound_tight", "@check", "segments_count_bound_tight"), ("C04_segments_count_bound", "@check", "segments_count_bound"),
             ("C04_build_segments_count_bound", "@check", "build_segments_count_bound")],
     imports=("Fp", "GenLeaf", "IndexModel", "IndexProofs", "IdxFed", "IdxSeg", "IdxLevel", "IdxChain", "CountBound"))
_DYNC = ("Fp", "IdxChain", "DynExec", "FloatOkAll", "ComposeIdx", "ComposeBuild", "ComposeDyn", "ComposeDynGood", "ComposeFloat")
_add("C05", [("C05_gops_contract", "@check", "gops_contract"), ("C05_find_idx", "@check", "C05_find_idx"),
             ("C05_lower_bound_idx", "@check", "C05_lower_bound_idx"), ("C05_find_typed", "@check", "C05_find_typed"),
             ("C05_lower_bound_typed", "@check", "C05_lower_bound_typed"), ("C05_find_double", "@check", "C05_find_double"),
             ("C05_lower_bound_double", "@check", "C05_lower_bound_double")], imports=_DYNC)
_add("C06", [("C06_range_idx", "@check", "C06_range_idx"), ("C06_iter_typed", "@check", "C06_iter_typed"), ("C06_iter_double", "@check", "C06_iter_double")], imports=_DYNC)
_add("C15", [("C15_hist_idx", "@check", "C15_hist_idx"), ("C15_ihist", "@check", "C15_ihist"), ("C15_typed", "@check", "C15_typed")], imports=_DYNC)
_add("C09", [("C09_bucketing_search_contract", "@check", "bucketing_search_contract"), ("C09_bucketing_contract_total", "@check", "bucketing_contract_total")],
     imports=("Fp", "MappedQueries", "ComposeIdx", "ComposeBuild", "ComposeBucket"))
_add("C11", [("C11_mapped_at", "@check", "C11_mapped_at"), ("C11_mapped_total", "@check", "C11_mapped_total"), ("C11_mapped_double", "@check", "C11_mapped_double")],
     imports=("Fp", "IdxChain", "FloatOkAll", "ComposeIdx", "ComposeBuild", "ComposeMapped", "ComposeFloat"))
_add("C13", [("C13_inner_contract", "@check", "multi_inner_contract"), ("C13_end_to_end_partial", "@check", "multi_index_end_to_end_partial")],
     imports=("Fp", "IdxChain", "ComposeIdx", "ComposeBuild", "ComposeMulti"))
_add("C14", [("C14_inner_contract", "@check", "multi_inner_contract")], imports=("Fp", "IdxChain", "ComposeIdx", "ComposeBuild", "ComposeMulti"))
_add("C18", [("C18_search_contract_e2e", "@check", "C18_search_contract"), ("C18_create_null_iff", "@check", "C18_create_null_iff"),
             ("C18_create_search", "@check", "C18_create_search")], imports=("Fp", "IdxChain", "Reject", "ComposeIdx", "ComposeBuild", "ComposeCapi"))
_add("C08", [("C08_cert_sound", "@check", "cmp_cert_sound"), ("C08_cert_sound_build", "@check", "cmp_cert_sound_build"),
             ("C08_search_trace_iff", "@check", "compressed_search_trace_iff"), ("C08_cert_fast_is_spec", "@check", "cmp_cert_b_spec"),
             ("C08_fmul_mono", "@check", "fmul_to_i64_mono"), ("C08_fmul_presat", "@check", "fmul_to_i64_presat"),
             ("C08_cl_eval_mono", "@check", "cl_eval_mono"), ("C08_root_pos_mono", "@check", "croot_pos_mono")],
     imports=("Fp", "FloatOkLemmas", "CmpCertDefs", "CmpMono", "CmpCertFast", "CmpCertProofs"))

def _hdr(pid, text): TABLE[pid]["header"] += "\n" + text

_hdr("C01", """   Added (Compose*/FloatOk*): * C01_build_total: for every valid configuration and sorted data of at most 2^30 keys the
     build SUCCEEDS (no exception) with fewer than 2^32 segments; * C01_build_search_contract: build + contract under float_ok_valid;
   * C01_index_contract_double: UNCONDITIONAL end-to-end theorem for Floating = double (float_ok discharged from Flocq for every key,
     C01_float_ok_double); * C01_index_contract_small_span / C01_float_ok_of_small_span / _small_partial: either Floating type when the
     positions stay below the precision threshold (2^22 float, 2^50 double); * C01_float_ok_not_general_for_float: the hypothesis
     float_ok itself is FALSE for some float configurations (6 keys; the capped position is still right) -- which is why the float
     case keeps float_ok as a hypothesis and is judged per query at run time;
   * C01_too_far_value: the saturation limit of Segment::operator() regenerated from the source is the model's 2^63.""")
_hdr("C02", """   Added: C02_search_contract_valid, C02_index_contract_double (unconditional for Floating = double), C02_index_contract_small_span,
     C02_eval_ok_double_all / C02_eval_ok_far (one evaluation: every key difference for double; far keys for either type).""")
_hdr("C04", """   Added (CountBound.v): the closed-form count bound IS now proved: C04_segments_count_bound_tight
     (count <= n/(2eps+1) + (1 if sequential else par)), C04_segments_count_bound (+ par + 1, the documented form),
     C04_build_segments_count_bound (for PGMIndex::segments_count()).""")
_hdr("C05", """   Added (ComposeDyn/ComposeDynGood/ComposeFloat): the abstract contract assumed of the per-level index is DISCHARGED for the real
     PGMIndex model: C05_gops_contract (guarded instance), C05_find_idx / C05_lower_bound_idx (histories whose levels stay within the
     index's size limits), C05_find_typed / C05_lower_bound_typed (checkable per-step premises: key in type, capacity <= 2^30),
     C05_find_double / C05_lower_bound_double (Floating = double: no floating-point hypothesis left).""")
_hdr("C06", """   Added: C06_range_idx, C06_iter_typed, C06_iter_double: range/iteration with the real PGMIndex model as the per-level index.""")
_hdr("C15", """   Added: C15_hist_idx / C15_ihist / C15_typed: the invariants for the container instantiated with the real PGMIndex model;
     C15_bulk_*_tie: the bulk-load level arithmetic regenerated from the source equals the model's.  The run-time judge now also
     checks that every dumped per-level index is built over that level's CURRENT keys (pgm_keys_ok_b).""")
_hdr("C08", """   Added (CmpCert*.v, CmpMono.v): RUN-TIME CERTIFICATE with a soundness theorem.  C08_cert_sound: if the boolean certificate
     cmp_cert_b c data cp holds (structural bounds + the contract at the representative queries {every key, both ends of every gap,
     below the first / above the last key} + equal routing traces at the two ends of each gap) then compressed_search satisfies the
     C08 contract for EVERY query below the sentinel.  The lifting from the representatives to all 2^64 queries is by monotonicity
     of one level step in the key for a fixed segment (C08_fmul_mono: Flocq; C08_cl_eval_mono; C08_root_pos_mono).  The check
     evaluates cmp_cert_b on every generated index (judge C08cert in the evidence); a false certificate names failing queries,
     which are then run through the implementation.  C08_cert_fast_is_spec: the one-pass form that is executed equals the naive
     specification.  C08_*_tie / C08_*_far_*: windows, clamp bounds, bit-vector sizes and saturation limits regenerated from the
     source equal the model's; C08_below_limit_no_overflow: below the (new) limit the int64 sum cannot overflow.""")
_hdr("C09", """   Added (ComposeBucket.v): C09_bucketing_search_contract: the search contract for EVERY query (early exits outside [first,last],
     the one-level index inside); C09_bucketing_contract_total: construction succeeds and the contract holds.  C09_*_tie: step,
     table size and shift regenerated from the source; C09_ceil_int_div_spec.""")
_hdr("C11", """   Added (ComposeMapped.v): C11_mapped_at / C11_mapped_total: all four queries exact with the REAL index model underneath
     (construction succeeds for n <= 2^30); C11_mapped_double: no floating-point hypothesis for Floating = double.""")
_hdr("C13", """   Added (ComposeMulti.v): C13_inner_contract: the inner index's contract is proved for the sorted Morton codes (q < sentinel);
     C13_end_to_end_partial keeps one hypothesis for query codes at or above the sentinel (all-ones code when dims*bits = width).""")
_hdr("C18", """   Added (ComposeCapi.v): C18_search_contract_e2e, C18_create_null_iff, C18_create_search: wrapper configuration
     (EpsilonRecursive = 4, run-time epsilon) composed with the index theorems.""")
_add("C07", [("C07_pos_cap_tie", "LeafTie.v", "pgm_pos_cap_tie")])
_add("C01", [("C01_pos_cap_tie", "LeafTie.v", "pgm_pos_cap_tie")])
_add("C02", [("C02_pos_cap_tie", "LeafTie.v", "pgm_pos_cap_tie")])
_add("C08", [("C08_pos_cap_tie", "LeafTie.v", "cmp_pos_cap_tie")])
_add("C09", [("C09_pos_cap_tie", "LeafTie.v", "bkt_pos_cap_tie")])
_add("C10", [("C10_pos_cap_tie", "LeafTie.v", "efi_pos_cap_tie")])
_add("C18", [("C18_pos_cap_tie", "LeafTie.v", "capi_pos_cap_tie")])
_FLT = ("Fp", "MappedQueries", "FloatOkFar", "FloatOkAll", "FloatOkCap", "ComposeIdx", "ComposeBuild", "ComposeFloat", "ComposeFloat32")
_add("C01", [("C01_index_contract_float", "@check", "index_contract_float"), ("C01_index_contract_std", "@check", "index_contract_std"),
             ("C01_float_ok_cap_float", "@check", "float_ok_cap_float"), ("C01_eval_ok_cap_float", "@check", "eval_ok_cap_float"),
             ("C01_contract_where_float_ok_fails", "@check", "cx_contract")], imports=_FLT)
_add("C02", [("C02_index_contract_float", "@check", "index_contract_float"), ("C02_index_contract_std", "@check", "index_contract_std"),
             ("C02_build_search_contract_cap", "@check", "build_search_contract_cap")], imports=_FLT)
_add("C11", [("C11_mapped_float", "@check", "C11_mapped_float")], imports=("FloatOkCap", "ComposeFloat32"))
_hdr("C01", """   CLOSED for Floating = float as well (FloatOkCap.v, ComposeFloat32.v): C01_index_contract_float: for every sorted input with
     n + Epsilon <= 2^22 - 1 and n + 1 + EpsilonRecursive <= 2^22 - 1 the build succeeds and EVERY query satisfies the contract,
     with NO floating-point hypothesis (the chain proofs now consume the weaker interface float_ok_cap: an evaluation is either
     within rounding distance of the exact line or both it and the exact value are above the level's cap; proved from Flocq for
     every evaluation); C01_index_contract_std: float and double in one statement; C01_contract_where_float_ok_fails: the contract
     derived from the theorem on the very instance where float_ok is false.  C01_pos_cap_tie: the type argument of
     std::min<size_t> at the capping sites, regenerated from the source, does not narrow the prediction.""")
_hdr("C02", """   CLOSED for Floating = float under the same size bound: C02_index_contract_float / C02_index_contract_std (no floating-point
     hypothesis, every query below the sentinel, every EpsilonRecursive).""")

# ---- float closure for the dynamic container (ComposeDynN/ComposeDynGoodN/ComposeDyn32) and the multidimensional index
# ---- without the residual hypothesis (MultiRange2/ComposeMulti2)
_D32 = ("Fp", "IdxChain", "DynExec", "FloatOkAll", "FloatOkCap", "ComposeIdx", "ComposeBuild", "ComposeDyn", "ComposeDynGood", "ComposeFloat",
        "ComposeFloat32", "ComposeDynN", "ComposeDynGoodN", "ComposeDyn32")
_add("C05", [("C05_find_float", "@check", "C05_find_float"), ("C05_count_float", "@check", "C05_count_float"),
             ("C05_lower_bound_float", "@check", "C05_lower_bound_float"), ("C05_find_std", "@check", "C05_find_std"),
             ("C05_lower_bound_std", "@check", "C05_lower_bound_std"), ("C05_cap22_of_21", "@checki", "cap22_of_21")], imports=_D32)
_add("C06", [("C06_range_float", "@check", "C06_range_float"), ("C06_iter_float", "@check", "C06_iter_float"),
             ("C06_size_float", "@check", "C06_size_float"), ("C06_empty_float", "@check", "C06_empty_float"),
             ("C06_iter_std", "@check", "C06_iter_std"), ("C06_range_std", "@check", "C06_range_std")], imports=_D32)
_add("C15", [("C15_float", "@check", "C15_float"), ("C15_std", "@check", "C15_std")], imports=_D32)
_M2 = ("Fp", "IdxChain", "ComposeIdx", "ComposeBuild", "ComposeFloat32", "ComposeMulti", "MultiRange2", "ComposeMulti2", "ComposeMulti2Ex")
_add("C13", [("C13_end_to_end", "@check", "multi_index_end_to_end"), ("C13_inner_contract_std", "@check", "multi_inner_contract_std"),
             ("C13_skip_below_sentinel", "@check", "skip_below_sentinel"), ("C13_top_code_reserved", "@check", "top_code_reserved"),
             ("C13_top_not_stored", "@check", "top_not_stored")], imports=_M2)
_add("C14", [("C14_contains_end_to_end", "@check", "multi_contains_end_to_end"), ("C14_top_code_reserved", "@check", "top_code_reserved")], imports=_M2)
_hdr("C05", """   CLOSED for Floating = float (ComposeDyn32.v): C05_find_float / C05_count_float / C05_lower_bound_float: typed histories whose
     level capacity stays within 2^22 - 1 - max(eps, eps_r + 1) (checkable: C05_cap22_of_21), NO floating-point hypothesis;
     C05_find_std / C05_lower_bound_std: float or double in one statement.  (The earlier _idx/_typed forms assume float_ok_valid,
     which is unsatisfiable for float slopes; they remain for double.)""")
_hdr("C06", """   CLOSED for Floating = float under the same capacity bound: C06_range_float, C06_iter_float, C06_size_float, C06_empty_float;
     C06_iter_std / C06_range_std for either Floating type.""")
_hdr("C15", """   C15_float / C15_std: the invariants over the real index model for float slopes / either Floating type.""")
_hdr("C13", """   END TO END (MultiRange2.v, ComposeMulti2.v): C13_end_to_end: from multi_build = Ok, with NO hypothesis on the inner index and NO
     floating-point hypothesis (double: n <= 2^30; float: n within the 2^22 bounds): range(min,max) = the stored points inside the box,
     with multiplicity, in code order, for every box whose min corner is not the all-ones point (no exclusion for 3 dimensions).  The
     inner contract is only needed at the queries actually issued (encode of the min corner, BIGMIN values), all proved below the
     sentinel (C13_skip_below_sentinel).  C13_top_code_reserved: for 2 and 4 dimensions the all-ones point's code IS the reserved
     maximum; C13_top_not_stored: it can never be stored (outside the property's domain: coordinates must be < 2^(bits-1));
     querying it reads past the segments (model: Err OutOfBounds; real code: heap-buffer-overflow under ASan) -- noted in DESIGN 9.4.""")
_hdr("C14", """   END TO END: C14_contains_end_to_end: contains(p) answers, and is true iff p is stored, for every encodable p other than the
     all-ones point in 2/4 dimensions (whose code is the reserved maximum, C14_top_code_reserved), no hypothesis on the inner index.""")

# ---- Elias-Fano end to end (EfLevel/EfFloat/ComposeEf/ComposeEfFloat)
_EFC = ("Fp", "MappedQueries", "IdxBlock", "FloatOkCap", "ComposeIdx", "ComposeBuild", "EfLevel", "EfFloat", "ComposeEf", "ComposeEfFloat", "ComposeEfExample")
_add("C10", [("C10_ef_search_contract", "@check", "ef_search_contract"), ("C10_ef_contract_total", "@check", "ef_contract_total"),
             ("C10_ef_search_contract_double", "@check", "ef_search_contract_double"), ("C10_ef_search_contract_float", "@check", "ef_search_contract_float"),
             ("C10_ef_search_eq_search", "@check", "ef_search_eq_search")], imports=_EFC)
_hdr("C10", """   END TO END (ComposeEf.v, ComposeEfFloat.v): C10_ef_contract_total: for every sorted unsigned data set the construction succeeds and
     EVERY query below the sentinel gets 0 <= lo <= lb <= hi <= n, hi - lo <= 2eps+2, present keys strictly inside, for every low
     width wl, with NO floating-point hypothesis (double: n + eps < 2^31, by reduction to the one-level search -- the two saturation
     rules agree below the cap; float: n + eps <= 2^21 - 1, by a direct Flocq analysis of the three-rounding float product).
     C10_*_tie / C10_far_*: search window, cap type and saturation limit regenerated from the source equal the model's.""")

# ---- Bucketing / C wrapper without float_ok_valid (ComposeBucket32.v, ComposeCapi32.v)
_add("C09", [("C09_bucketing_search_contract_std", "@check", "bucketing_search_contract_std"), ("C09_bucketing_contract_total_std", "@check", "bucketing_contract_total_std")],
     imports=("Fp", "MappedQueries", "FloatOkCap", "ComposeIdx", "ComposeBuild", "ComposeFloat32", "ComposeBucket", "ComposeBucket32"))
_add("C18", [("C18_search_contract_std", "@check", "C18_search_contract_std"), ("C18_create_search_std", "@check", "C18_create_search_std")],
     imports=("Fp", "IdxChain", "Reject", "FloatOkCap", "ComposeIdx", "ComposeBuild", "ComposeFloat32", "ComposeCapi", "ComposeCapi32"))
_hdr("C09", """   CLOSED without floating-point hypothesis (ComposeBucket32.v): C09_bucketing_contract_total_std / C09_bucketing_search_contract_std
     (float: n + eps <= 2^22 - 1; double: n <= 2^30); the earlier forms assume float_ok_valid, which holds for double only.""")
_hdr("C18", """   CLOSED without floating-point hypothesis (ComposeCapi32.v): C18_create_search_std / C18_search_contract_std for every run-time
     eps >= 1 (float: n + eps, n + 5 <= 2^22 - 1); the wrapper's float configuration is exactly one where float_ok_valid is false
     (cw_not_float_ok_valid) and the contract is nevertheless derived.""")

# ---- the structural half of the C08 certificate holds for every built index (CmpStruct*.v)
_add("C08", [("C08_struct_of_build", "@check", "cmp_struct_of_build"), ("C08_struct_of_build_std", "@check", "cmp_struct_of_build_std"),
             ("C08_merge_slopes_ok", "@check", "merge_slopes_ok")],
     imports=("Fp", "FloatOkLemmas", "CmpCertDefs", "CmpStructDefs", "CmpStructSeg", "CmpStructFp", "CmpStructBuild"))
_hdr("C08", """   C08_struct_of_build: the STRUCTURAL half of the certificate (cmp_struct_b) is proved for every index compressed_build returns
     (sizes, root and level intercepts within the no-overflow bound, every table slope finite and non-negative -- Flocq facts about the
     x87 slope merging, C08_merge_slopes_ok); what remains checked per index at run time is the contract at the representatives and
     the equal-trace condition (cmp_pass_b).""")
_add("C02", [("C02_too_far_value", "SatTie.v", "pgm_too_far_value")], imports=("Fp", "GenLeaf", "SatTie"))
_add("C07", [("C07_too_far_value", "SatTie.v", "pgm_too_far_value")], imports=("Fp", "GenLeaf", "SatTie"))
_add("C11", [("C11_too_far_value", "SatTie.v", "pgm_too_far_value")], imports=("Fp", "GenLeaf", "SatTie"))

# ---- clarifications after an independent audit of claims vs statements
_DOUBLE_ONLY = """   NOTE (audit): the theorems above that assume `float_ok_valid c` (or `float_ok`) are usable for Floating = double only -- that
     hypothesis is REFUTED for float slopes (cx_not_float_ok, cw_not_float_ok_valid, bx_contract); the `_std` / `_float` / `_cap` forms
     are the ones that cover the default Floating = float."""
for _p in ("C01", "C02", "C05", "C06", "C09", "C11", "C13", "C14", "C18"): _hdr(_p, _DOUBLE_ONLY)
_hdr("C05", """   NOTE (audit): the capacity guard of the typed histories is LITERAL: after every step 2^(used_levels * ceil_log2 base) <= N, i.e.
     base^used_levels <= N with N = 2^30 (double) or 2^22 - 1 - max(eps, eps_r + 1) (float) -- one factor of `base` above the largest
     level; the constructor also needs buffer_level <= 31.  Histories beyond that are covered by the abstract-contract theorems and by
     the run-time correspondence only.""")
_hdr("C06", """   NOTE (audit): same capacity guard as C05 for the theorems over the real index.""")
_hdr("C15", """   NOTE (audit): C15_hist_idx needs no capacity bound; the `_std`/`_float` forms carry the C05 capacity guard.""")
_hdr("C07", """   NOTE (audit): C07_route_trace_partial / _bsearch / _wide assume float_ok (true for double, refuted for float on some inputs);
     their float_ok_cap forms are closed without any floating-point hypothesis by the `_std` theorems (ComposeTrace.v) when present.""")
_hdr("C04", """   NOTE (audit): C04_reject_spans states the existence of two fed points of the closed segment whose RANKS differ by more than
     2*eps (ranks are increasing along the segment, so these are its first and the rejected point).""")
_hdr("C17", """   NOTE (audit): "every indexed read is a checked read" refers to the QUERY and UPDATE paths (nth_res); the builders use
     defaulting accessors (nth/last) at sites whose indexes are structurally in range (build_upper offsets, segments_count, the
     compressed table) -- those are covered by the sanitizer runs, not by the `= Ok` theorems.  in_bounds admits Throw*/OutOfFuel
     results (documented rejections, excluded fuel), never OutOfBounds/UB*.""")
_hdr("C16", """   NOTE (audit): the bridge from the regenerated footprint list to Effects.thread (and, for C19, from the regenerated layout to
     Ownership objects) is the decision procedure evaluated on that list; that the list faithfully describes the C++ methods is the
     translator's job (trusted base), not a theorem.""")
_hdr("C19", """   NOTE (audit): see C16's note: the layout-to-object bridge is the translator (trusted), the theorem is about the abstract store.""")
_hdr("C12", """   NOTE (audit): the round-trip / reopen theorems assume wf_index of the built index (checked on examples; derived from the build
     by MappedWf.v when present); for Floating = float the reopened index is related by index_eq (bit patterns of the reread slopes).""")
_hdr("C20", """   NOTE (audit): static rule stated as `last_z data = sentinel`; with sorted in-type data that is "contains the reserved value"
     (corollaries in Reject2.v when present).  "A rejected insert leaves the container unchanged" holds by construction of the pure
     model (an Err result carries no state) and is CHECKED on the implementation by the dump comparison after every rejected call.""")

# ---- closures after the audit: C07 without fp hypothesis, lo <= pos kept, bucketing early exits, C12 closed, C20 generalised,
# ---- multidimensional build totality
_add("C07", [("C07_route_trace_wide_std", "@check", "C07_route_trace_wide_std"), ("C07_route_trace_partial_std", "@check", "C07_route_trace_partial_std"),
             ("C07_route_trace_bsearch_std", "@check", "C07_route_trace_bsearch_std")],
     imports=("Fp", "FloatOkAll", "FloatOkCap", "ComposeIdx", "ComposeBuild", "ComposeFloat32", "ComposeTrace"))
_hdr("C07", """   CLOSED (ComposeTrace.v): C07_route_trace_wide_std / _partial_std / _bsearch_std: build succeeds and the per-level trace bound
     holds for every query below the sentinel with NO floating-point hypothesis and no segment-count hypothesis (double: n <= 2^30;
     float: n + eps, n + 1 + eps_r <= 2^22 - 1).""")
_add("C01", [("C01_index_contract_std_pos", "@check", "index_contract_std_pos"), ("C01_index_judges_std", "@check", "index_judges_std")],
     imports=("ComposeTrace", "ComposeIdx2"))
_hdr("C01", """   C01_index_contract_std_pos keeps lo <= pos (and the position band lb - eps - 2 <= pos <= lb + eps, lo/hi as the window of pos);
     C01_index_judges_std: the run-time judge C01_pred_b is TRUE end to end for every present key.""")
_add("C02", [("C02_index_contract_std_pos", "@check", "index_contract_std_pos")], imports=("ComposeTrace", "ComposeIdx2"))
_add("C09", [("C09_early_exits", "@check", "bucketing_early_exits"), ("C09_contract_total_std_exits", "@check", "bucketing_contract_total_std_exits")],
     imports=("ComposeBucket32", "ComposeBucket2"))
_hdr("C09", """   C09_early_exits / C09_contract_total_std_exits: keys below the first key get the empty range at 0, keys above the last key the
     empty range at n (with lb = 0 / n), together with the window contract.""")
_add("C12", [("C12_wf_index_of_build", "@check", "wf_index_of_build"), ("C12_reopen_eq", "@check", "C12_reopen_eq"),
             ("C12_reopen_from_range_closed", "@check", "C12_reopen_from_range_closed"), ("C12_reopen_answers", "@check", "C12_reopen_answers"),
             ("C12_three_constructors", "@check", "C12_three_constructors"), ("C12_index_eq_not_enough", "@check", "index_eq_not_enough")],
     imports=("Fp", "GenLeaf", "IndexModel", "IndexProofs", "ComposeIdx", "ComposeBuild", "MappedQueries", "MappedWf", "MappedEq", "ComposeMapped2"))
_hdr("C12", """   CLOSED (MappedWf.v, MappedEq.v, ComposeMapped2.v): well-formedness of the built index is now DERIVED from the build
     (C12_wf_index_of_build); every stored slope is canonical (a finite double, or the image of a finite float), so writing and
     re-reading it is the identity for BOTH Floating types: C12_reopen_eq (reopen (file of m) = Ok m, Leibniz equality),
     C12_reopen_answers (all four queries identical on the reopened container), C12_three_constructors (range ctor, raw-file ctor and
     reopen all succeed and agree; n <= 2^30).  C12_index_eq_not_enough: bit-pattern equality alone would NOT give equal answers.""")
_add("C13", [("C13_build_total", "@check", "multi_build_total"), ("C13_total_end_to_end", "@check", "multi_index_total_end_to_end"),
             ("C13_build_outcome", "@check", "multi_build_outcome")],
     imports=("ComposeMulti2", "ComposeMulti2Ex", "Reject", "Reject2", "ComposeMulti3"))
_add("C14", [("C14_total_end_to_end", "@check", "multi_contains_total_end_to_end")], imports=("ComposeMulti2", "ComposeMulti2Ex", "Reject", "Reject2", "ComposeMulti3"))
_hdr("C13", """   TOTALITY (ComposeMulti3.v): C13_build_total: the build succeeds for every non-empty multiset of points that fit the encoder
     (n <= 2^30); C13_build_outcome: otherwise runtime_error; C13_total_end_to_end: existence of the index plus the range theorem.""")
_add("C20", [("C20_dyn_bulk_unsorted_anywhere", "@checki", "dyn_bulk_rejects_unsorted_anywhere"),
             ("C20_dyn_bulk_reserved_value_anywhere", "@checki", "dyn_bulk_rejects_reserved_value_anywhere"),
             ("C20_dyn_bulk_invalid_iff", "@checki", "dyn_bulk_invalid_iff"),
             ("C20_build_rejects_contains_iff", "@check", "build_rejects_contains_iff"),
             ("C20_bucketing_rejects_contains", "@check", "bucketing_rejects_contains"), ("C20_ef_rejects_contains_iff", "@check", "ef_rejects_contains_iff"),
             ("C20_mapped_rejects_contains_iff", "@check", "mapped_range_ctor_rejects_contains_iff"),
             ("C20_compressed_rejects_contains_iff", "@check", "compressed_rejects_contains_iff"),
             ("C20_multi_invalid_iff", "@check", "multi_invalid_iff"), ("C20_multi_reserved_code_rejected", "@check", "multi_reserved_code_rejected")],
     imports=("Fp", "GenLeaf", "PlaModel", "IndexModel", "VariantsModel", "MappedModel", "CompressedModel", "MultiModel", "DynModel", "DynSpec", "DynExec",
              "ComposeMulti2", "Reject2", "ComposeMulti3"))
_hdr("C20", """   GENERALISED (Reject2.v, ComposeMulti3.v): an unsorted pair ANYWHERE (also between the first two pairs) and the reserved mapped
     value anywhere (in the first pair of its key group: a shadowed duplicate is never constructed, in the model and in the C++) are
     rejected by the bulk constructor, with the exact iff (C20_dyn_bulk_invalid_iff); the static rule in the property's wording
     (sorted in-type data CONTAINING the reserved key) for PGMIndex / Elias-Fano / Mapped / Compressed (iff) and Bucketing
     (implication: a too-narrow TopLevelBitSize is a second documented source); MultidimensionalPGMIndex never raises
     invalid_argument: a point whose code is the reserved value has a too-wide coordinate and gets runtime_error.""")

# ---- update totality over the real index, guarded runs, C06 begin/size/empty for either Floating type (ComposeDynTotal/ComposeDynStd2)
_DT = _D32 + ("ComposeDynTotal", "ComposeDynStd2")
_add("C05", [("C05_insert_total_std", "@checki", "insert_total_std"), ("C05_erase_total_std", "@checki", "erase_total_std"),
             ("C05_bulk_total_std", "@checki", "bulk_total_std"), ("C05_ctor_total_std", "@checki", "ctor_total_std"),
             ("C05_shist_run", "@checki", "shist_run"), ("C05_shist_iff_run", "@checki", "shist_iff_run"),
             ("C05_cap_after_exact", "@checki", "cap_after_exact"), ("C05_capN_meaning", "@checki", "shist_capN_meaning"),
             ("C05_default_float_guard", "@checki", "default_float_guard"), ("C05_default_double_guard", "@checki", "default_double_guard"),
             ("C05_default_float_no_index", "@checki", "default_float_no_index")], imports=_DT)
_add("C06", [("C06_begin_std", "@check", "C06_begin_std"), ("C06_size_shist", "@check", "C06_size_shist"), ("C06_empty_shist", "@check", "C06_empty_shist")], imports=_DT)
_add("C15", [("C15_shist_run", "@checki", "shist_run")], imports=_DT)
_hdr("C05", """   TOTALITY over the real index (ComposeDynTotal.v): C05_insert_total_std / C05_erase_total_std / C05_bulk_total_std /
     C05_ctor_total_std: an update with a typed key below the sentinel and a non-tombstone value RETURNS Ok and the new state is
     again a typed history, under the capacity guard evaluated BEFORE the step (cap_after, proved to be exactly the guard on the
     result: C05_cap_after_exact); C05_shist_run: every finite list of operations that passes the boolean guard runs to Ok at every
     step; C05_shist_iff_run: the typed histories ARE the guarded runs from a constructor state -- no `= Ok` premise is left.
     The guard, literally (C05_capN_meaning): base^used_levels <= 2^30 (double) / 2^22 - 1 - max(eps, eps_r+1) (float).  For the
     DEFAULT configuration (base 8, PGMIndex<K,16>): used_levels <= 7 for float (about 3*10^5 items; C05_default_float_guard) and
     <= 10 for double (about 1.5*10^8 items).  C05_default_float_no_index: with the default index level (2^24 items) the float
     theorems never reach a level that owns an index -- they exercise a real per-level index only for a smaller index_level /
     base, as the examples and the run-time cases do.""")
_hdr("C06", """   C06_begin_std / C06_size_shist / C06_empty_shist: begin(), size(), empty() over the real index for either Floating type.""")

#!/usr/bin/env python3
"""T3: regenerate coq/GenLayout.v (C19) from clang's JSON AST of /repo's current headers.

For every index class of the property and every class reachable through its members the translator lists
the data members with a kind:
  Value            arithmetic / enum / std::string / sdsl int_vector, bit_vector (deep-copying value types)
  Owning <class>   std::vector<class> (deep copy of the elements)
  SelfRebinding    sdsl::sd_vector: owns supports that point into itself and whose user-provided copy/move
                   operations re-target them (checked in sdsl.hpp: set_vector(&m_high) in every such operation)
  Support <field>  an sdsl rank/select support object: holds a pointer to a sibling member
  RawPtr / Ref     any other pointer or reference member
and, per class, whether it has user-provided copy/move operations that re-bind each Support member
(`<support>.set_vector(&<sibling>)` or `init_support(<support>, &<sibling>)` in the body of every user-provided
copy/move constructor and assignment). Unknown member types make the translator fail loudly (exit 2)."""
import json, os, re, subprocess, sys
sys.path.insert(0, os.path.dirname(os.path.abspath(__file__)))
from effects_translate import dump, walk, TU, REPO, ROOT

CLASSES = ["PGMIndex", "CompressedPGMIndex", "BucketingPGMIndex", "EliasFanoPGMIndex", "MultidimensionalPGMIndex", "DynamicPGMIndex"]

def classify(ty):
    t = ty.replace("const ", "").strip()
    if re.search(r"select_[01]_type|rank_[01]_type", t) or re.match(r"(sdsl::)?(select_support|rank_support)", t): return ("Support", "")
    if re.match(r"(sdsl::)?sd_vector<", t): return ("SelfRebinding", "")
    if t.endswith("&"): return ("Ref", "")
    if t.endswith("*"): return ("RawPtr", "")
    m = re.match(r"std::vector<(.*)>$", t)
    if m:
        el = m.group(1).split(",")[0].strip()
        return ("Owning", el)
    if re.search(r"sd_vector", t): return ("SelfRebinding", "")
    if re.search(r"int_vector|bit_vector", t): return ("Value", "")
    if re.match(r"(unsigned |signed )?(char|short|int|long|long long|float|double|bool|size_t|uint\d+_t|int\d+_t|K|T|V|Floating|std::string|std::(__cxx11::)?basic_string.*)$", t): return ("Value", "")
    if re.match(r"(typename )?.*::(value_type|size_type)$", t) or t in ("std::tuple<unsigned long, unsigned long>",): return ("Value", "")
    return ("Class", t)           # a nested class held by value: classified through its own layout

def fields_of(doc_nodes, clsname):
    """fields + user-provided special members of the (first fully defined) record named clsname"""
    for n in doc_nodes:
        for r in walk(n):
            if r.get("kind") in ("CXXRecordDecl", "ClassTemplateSpecializationDecl") and r.get("name") == clsname and r.get("completeDefinition"):
                fs, special = [], []
                for c in r.get("inner", []):
                    if c.get("kind") == "FieldDecl": fs.append((c.get("name"), c.get("type", {}).get("qualType", "")))
                    if c.get("kind") in ("CXXConstructorDecl", "CXXMethodDecl") and not c.get("isImplicit"):
                        qt = c.get("type", {}).get("qualType", "")
                        if c.get("kind") == "CXXConstructorDecl" and re.search(r"\((const )?%s ?&&?\)" % re.escape(clsname), qt): special.append(("ctor", qt))
                        if c.get("name") == "operator=": special.append(("assign", qt))
                if fs: return fs, special
    return None, None

def balanced_body(txt, start):
    i = txt.index("{", start); depth, j = 0, i
    while True:
        if txt[j] == "{": depth += 1
        elif txt[j] == "}":
            depth -= 1
            if depth == 0: return txt[i:j + 1]
        j += 1

def sd_vector_rebinds():
    """every user-provided copy/move operation of sdsl::sd_vector re-targets both supports (directly or by delegating)"""
    txt = open(os.path.join(REPO, "include/pgm/sdsl.hpp")).read()
    cls = txt[txt.index("class sd_vector {"):]
    heads = [r"sd_vector\(const sd_vector& \w+\)", r"sd_vector\(sd_vector&& \w+\)", r"sd_vector& operator=\(const sd_vector& \w+\)", r"sd_vector& operator=\(sd_vector&& \w+\)"]
    for h in heads:
        m = re.search(h, cls)
        if not m: return False
        body = balanced_body(cls, m.end())
        direct = body.count("set_vector(&m_high)") >= 2
        delegates = "*this = std::move(" in body or "sd_vector tmp(" in body
        if not (direct or delegates): return False
    return True

def rebinding(clsname, support, sibling_candidates):
    """does the source text of class clsname re-bind `support` in every user-provided copy/move operation?"""
    txt = open(os.path.join(REPO, "include/pgm/pgm_index_variants.hpp")).read()
    m = re.search(r"struct [\w<>, :]*%s \{(.*?)\n\};" % re.escape(clsname), txt, re.S)
    if not m: return False
    body = m.group(1)
    ops = re.findall(r"%s\((?:const )?%s ?&&? ?\w*\)[^{]*\{(.*?)\n    \}" % (clsname, clsname), body, re.S) + \
          re.findall(r"%s &operator=\([^)]*\) \{(.*?)\n    \}" % clsname, body, re.S)
    if len(ops) < 3: return False
    pat = re.compile(r"(%s\.set_vector\(&(\w+)\)|init_support\(%s, &(\w+)\))" % (support, support))
    return all(pat.search(b) for b in ops)

def main(outpath):
    tu = os.path.join(ROOT, "build", "layout_tu_%d.cpp" % os.getpid())
    os.makedirs(os.path.dirname(tu), exist_ok=True)
    open(tu, "w").write(TU)
    try:
        docs = {}
        for c in CLASSES: docs[c] = dump("pgm::" + c, tu)
        docs["LoserTree"] = dump("pgm::internal::LoserTree", tu)
    finally:
        os.remove(tu)
    allnodes = [d for v in docs.values() for d in v]
    rows, todo, seen = [], list(CLASSES), set()
    sdok = sd_vector_rebinds()
    while todo:
        c = todo.pop(0)
        short = c.split("::")[-1].split("<")[0].strip()
        if short in seen: continue
        seen.add(short)
        fs, special = fields_of(allnodes, short)
        if fs is None:
            raise RuntimeError("no layout found for class " + c)
        for name, ty in fs:
            kind, arg = classify(ty)
            if kind == "Owning" or kind == "Class":
                el = arg.split("::")[-1].split("<")[0].strip()
                if re.match(r"(unsigned |signed )?(char|short|int|long|float|double|bool|size_t|uint\d+_t|int\d+_t|K|T|V|Floating)$", arg.replace("const ", "")) or \
                   re.match(r"std::(pair|tuple)<", arg): kind, el = ("Value", "")
                else:
                    el = {"Level": "Item", "PGMType": "PGMIndex", "Item": "Item"}.get(el, el)
                    if el in ("ItemA", "ItemB", "Item"): kind, el = ("Value", "")      # K + V (+ flag) records
                    elif el in ("decltype(multidimensional_pgm_type::data)::const_iterator", "level_iterator", "internal_iterator"): kind, el = ("Value", "")
                    else: todo.append(el)
                rows.append((short, name, "Owning" if kind != "Value" else "Value", el))
            elif kind == "Support":
                rows.append((short, name, "Support" if not rebinding(short, name, [f for f, _ in fs]) else "ReboundSupport", ""))
            elif kind == "SelfRebinding":
                rows.append((short, name, "SelfRebinding" if sdok else "Support", ""))
            else:
                rows.append((short, name, kind, ""))
    L = ["(* GENERATED by tools/layout_translate.py from %s -- do not edit, not committed. *)" % REPO,
         "From Coq Require Import String List. Import ListNotations. Open Scope string_scope.", "",
         "Inductive fkind := Value | Owning (elem : string) | SelfRebinding | Support | ReboundSupport | RawPtr | Ref.",
         "Record field := mkField { f_class : string; f_name : string; f_kind : fkind }.", "",
         "Definition layout : list field := ["]
    def k(kind, el): return "Owning \"%s\"" % el if kind == "Owning" else kind
    L.append(";\n".join("  mkField \"%s\" \"%s\" (%s)" % (c, n, k(kd, el)) for c, n, kd, el in rows))
    L.append("].")
    L.append("Definition index_classes : list string := [%s]." % "; ".join('"%s"' % c for c in CLASSES))
    open(outpath, "w").write("\n".join(L) + "\n")

if __name__ == "__main__":
    try:
        main(sys.argv[1] if len(sys.argv) > 1 else os.path.join(ROOT, "coq", "GenLayout.v"))
    except Exception as ex:
        print("layout_translate: " + str(ex), file=sys.stderr)
        sys.exit(2)

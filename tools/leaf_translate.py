#!/usr/bin/env python3
"""T1: regenerate coq/GenLeaf.v from /repo's current source.

Leaf arithmetic the proofs are most sensitive to is translated from the source text instead of
being transcribed by hand: preprocessor macros (through `g++ -E -dM`) and a fixed list of
one-line constant / constexpr definitions (located in the source by a regular expression and
parsed by the small C expression parser below).  Anything the parser does not understand makes
the translator fail loudly (exit 2) -- the check then reports the tie as broken.

Supported expression language: integer literals (with u/l suffixes), identifiers, unary - ! ~,
binary * / % + - << >> < <= > >= == != & | && ||, ?:, parentheses, sizeof(T) for the types in
SIZEOF, casts `T(e)`/`(T)e` to fixed-width integers (-> explicit wrap), calls to known functions.
"""
import re, subprocess, sys, os

REPO = os.environ.get("PGM_REPO", "/repo")

class TErr(Exception):
    pass

TOK = re.compile(r"\s*(?:(\d+)(?:ull|ULL|ul|UL|u|U|l|L|ll|LL)?|([A-Za-z_][A-Za-z_0-9:]*)|(<<|>>|<=|>=|==|!=|&&|\|\||[-+*/%<>?:()!~&|,]))")

def tokenize(s):
    out, i = [], 0
    s = s.strip()
    while i < len(s):
        m = TOK.match(s, i)
        if not m or m.end() == i:
            raise TErr("cannot tokenize at: " + s[i:i + 20])
        if m.group(1) is not None: out.append(("num", m.group(1)))
        elif m.group(2) is not None: out.append(("id", m.group(2)))
        else: out.append(("op", m.group(3)))
        i = m.end()
        while i < len(s) and s[i].isspace(): i += 1
    return out

PREC = [["?"], ["||"], ["&&"], ["|"], ["&"], ["==", "!="], ["<", "<=", ">", ">="], ["<<", ">>"], ["+", "-"], ["*", "/", "%"]]
INT_TYPES = {"uint8_t": (8, False), "uint16_t": (16, False), "uint32_t": (32, False), "uint64_t": (64, False),
             "size_t": (64, False), "int": (32, True), "int64_t": (64, True), "Source": (8, False)}

class P:
    def __init__(self, toks, sizeof_env):
        self.t, self.i, self.sz = toks, 0, sizeof_env
    def peek(self): return self.t[self.i] if self.i < len(self.t) else ("eof", "")
    def eat(self, v=None):
        k = self.peek()
        if v is not None and k[1] != v: raise TErr("expected %s got %s" % (v, k))
        self.i += 1
        return k
    def expr(self, lvl=0):
        if lvl == len(PREC): return self.unary()
        if PREC[lvl] == ["?"]:
            c = self.expr(lvl + 1)
            if self.peek() == ("op", "?"):
                self.eat(); a = self.expr(0); self.eat(":"); b = self.expr(0)
                return ("ite", c, a, b)
            return c
        a = self.expr(lvl + 1)
        while self.peek()[0] == "op" and self.peek()[1] in PREC[lvl]:
            op = self.eat()[1]; b = self.expr(lvl + 1); a = ("bin", op, a, b)
        return a
    def unary(self):
        k = self.peek()
        if k == ("op", "-"): self.eat(); return ("neg", self.unary())
        if k == ("op", "!"): self.eat(); return ("not", self.unary())
        if k == ("op", "("):
            # cast or parenthesised expression
            if self.i + 2 < len(self.t) and self.t[self.i + 1][0] == "id" and self.t[self.i + 1][1] in INT_TYPES and self.t[self.i + 2] == ("op", ")"):
                self.eat(); ty = self.eat()[1]; self.eat(")")
                return ("cast", ty, self.unary())
            self.eat(); e = self.expr(0); self.eat(")"); return e
        if k[0] == "num": self.eat(); return ("num", int(k[1]))
        if k[0] == "id":
            self.eat()
            name = k[1]
            if name == "sizeof":
                self.eat("(")
                depth, words = 1, []
                while depth:
                    t = self.eat()
                    if t[1] == "(": depth += 1
                    elif t[1] == ")": depth -= 1
                    if depth: words.append(t[1])
                ty = " ".join(words)
                if ty not in self.sz: raise TErr("sizeof(%s) unknown" % ty)
                return self.sz[ty]
            if self.peek() == ("op", "("):
                self.eat(); args = []
                if self.peek() != ("op", ")"):
                    args.append(self.expr(0))
                    while self.peek() == ("op", ","): self.eat(); args.append(self.expr(0))
                self.eat(")")
                if name in INT_TYPES and len(args) == 1: return ("cast", name, args[0])
                return ("call", name, args)
            return ("var", name)
        raise TErr("unexpected token %s" % (k,))

BOOL_OPS = {"<": "<?", "<=": "<=?", ">": ">?", ">=": ">=?", "==": "=?", "!=": None}
CALLS = {"__builtin_clzll": "clzll", "ceil_log2": "ceil_log2", "std::min": "Z.min", "std::max": "Z.max",
         "PGM_SUB_EPS": "PGM_SUB_EPS", "PGM_ADD_EPS": "PGM_ADD_EPS", "CEIL_INT_DIV": "CEIL_INT_DIV", "BIT_WIDTH": "BIT_WIDTH"}

def coq(e, as_bool=False):
    k = e[0]
    if as_bool:
        if k == "bin" and e[1] in BOOL_OPS:
            a, b = coq(e[2]), coq(e[3])
            if e[1] == "!=": return "(negb (%s =? %s))" % (a, b)
            return "(%s %s %s)" % (a, BOOL_OPS[e[1]], b)
        if k == "bin" and e[1] == "&&": return "(%s && %s)%%bool" % (coq(e[2], True), coq(e[3], True))
        if k == "bin" and e[1] == "||": return "(%s || %s)%%bool" % (coq(e[2], True), coq(e[3], True))
        if k == "not": return "(negb %s)" % coq(e[1], True)
        return "(negb (%s =? 0))" % coq(e)
    if k == "num": return str(e[1])
    if k == "var": return e[1].replace("::", "_")
    if k == "neg": return "(- %s)" % coq(e[1])
    if k == "ite": return "(if %s then %s else %s)" % (coq(e[1], True), coq(e[2]), coq(e[3]))
    if k == "cast":
        w, s = INT_TYPES[e[1]]
        return "(%s %d %s)" % ("wrapS" if s else "wrapU", w, coq(e[2]))
    if k == "call":
        if e[1] not in CALLS: raise TErr("unknown function " + e[1])
        return "(%s %s)" % (CALLS[e[1]], " ".join(coq(a) for a in e[2]))
    if k == "bin":
        op = e[1]
        if op in BOOL_OPS or op in ("&&", "||"):
            return "(if %s then 1 else 0)" % coq(e, True)
        a, b = coq(e[2]), coq(e[3])
        if op in "+-*": return "(%s %s %s)" % (a, op, b)
        if op == "/": return "(Z.quot %s %s)" % (a, b)      # C++ integer division truncates
        if op == "%": return "(Z.rem %s %s)" % (a, b)
        if op == "<<": return "(Z.shiftl %s %s)" % (a, b)
        if op == ">>": return "(Z.shiftr %s %s)" % (a, b)
        if op == "&": return "(Z.land %s %s)" % (a, b)
        if op == "|": return "(Z.lor %s %s)" % (a, b)
    raise TErr("cannot translate %s" % (e,))

def translate(src, sizeof_env=None):
    src = src.replace("std::numeric_limits<int64_t>::max()", str(2**63 - 1)).replace("std::numeric_limits<size_t>::max()", str(2**64 - 1))
    src = re.sub(r"std::(min|max)<\s*\w+\s*>", r"std::\1", src)        # std::min<size_t>(a, b) -> std::min(a, b)
    p = P(tokenize(src), sizeof_env or {})
    e = p.expr(0)
    if p.peek()[0] != "eof": raise TErr("trailing tokens in: " + src)
    return coq(e)

def macros():
    r = subprocess.run(["g++", "-std=c++17", "-march=native", "-fopenmp", "-I", REPO + "/include", "-E", "-dM", "-x", "c++",
                        REPO + "/include/pgm/pgm_index_variants.hpp"], capture_output=True, text=True)
    if r.returncode: raise TErr("preprocessor failed: " + r.stderr[-400:])
    out = {}
    for line in r.stdout.splitlines():
        m = re.match(r"#define (PGM_SUB_EPS|PGM_ADD_EPS|CEIL_INT_DIV|BIT_WIDTH)\(([^)]*)\) (.*)$", line)
        if m: out[m.group(1)] = ([a.strip() for a in m.group(2).split(",")], m.group(3))
    return out

def grab(path, pattern, what):
    txt = open(os.path.join(REPO, path)).read()
    ms = re.findall(pattern, txt, re.S)
    if len(ms) != 1: raise TErr("%s: expected exactly one match in %s, got %d" % (what, path, len(ms)))
    return ms[0]

def main(outpath):
    L = ["(* GENERATED by tools/leaf_translate.py from %s -- do not edit, not committed. *)" % REPO,
         "From Coq Require Import ZArith Bool.", "Require Import Base.", "Local Open Scope Z_scope.", "",
         "Definition clzll (x : Z) : Z := 63 - Z.log2 x.   (* __builtin_clzll for 0 < x < 2^64 *)", ""]
    ms = macros()
    for name in ("PGM_SUB_EPS", "PGM_ADD_EPS", "CEIL_INT_DIV", "BIT_WIDTH"):
        if name not in ms: raise TErr("macro %s not found" % name)
        args, body = ms[name]
        L.append("(* #define %s(%s) %s *)" % (name, ", ".join(args), body))
        L.append("Definition %s (%s : Z) : Z := %s." % (name, " ".join(args), translate(body)))
    L.append("")
    V, D = "include/pgm/pgm_index_variants.hpp", "include/pgm/pgm_index_dynamic.hpp"
    I, S = "include/pgm/pgm_index.hpp", "include/pgm/piecewise_linear_model.hpp"
    # linear_search_threshold (PGMIndex: 8*64/sizeof(Segment); Compressed: 8*64/sizeof(K))
    e = grab(I, r"static constexpr size_t linear_search_threshold = ([^;]*);", "PGMIndex linear_search_threshold")
    L.append("(* pgm_index.hpp: linear_search_threshold = %s *)" % e)
    L.append("Definition pgm_linear_search_threshold (sizeof_Segment : Z) : Z := %s." % translate(e, {"Segment": ("var", "sizeof_Segment")}))
    e = grab(V, r"static constexpr size_t linear_search_threshold = ([^;]*);", "Compressed linear_search_threshold")
    L.append("(* pgm_index_variants.hpp: linear_search_threshold = %s *)" % e)
    L.append("Definition compressed_linear_search_threshold (sizeof_K : Z) : Z := %s." % translate(e, {"K": ("var", "sizeof_K")}))
    # the window / range expressions of segment_for_key and search (pgm_index.hpp) and of the C wrapper (cpgm.cpp)
    e = grab(I, r"auto lo = level_begin \+ ([^;]*);", "routing window lo")
    L.append("(* pgm_index.hpp segment_for_key: lo = level_begin + %s *)" % e)
    L.append("Definition pgm_route_lo (pos EpsilonRecursive : Z) : Z := %s." % translate(e))
    e = grab(I, r"auto hi = level_begin \+ ([^;]*);", "routing window hi")
    L.append("(* pgm_index.hpp segment_for_key: hi = level_begin + %s *)" % e)
    L.append("Definition pgm_route_hi (pos EpsilonRecursive level_size : Z) : Z := %s." % translate(e))
    body = grab(I, r"ApproxPos search\(const K &key\) const \{(.*?)\n    \}", "PGMIndex::search body")
    m1 = re.search(r"auto lo = ([^;]*);", body); m2 = re.search(r"auto hi = ([^;]*);", body)
    if not (m1 and m2): raise TErr("PGMIndex::search: lo/hi not found")
    L.append("(* pgm_index.hpp search: lo = %s ; hi = %s *)" % (m1.group(1), m2.group(1)))
    L.append("Definition pgm_search_lo (pos Epsilon : Z) : Z := %s." % translate(m1.group(1)))
    L.append("Definition pgm_search_hi (pos Epsilon n : Z) : Z := %s." % translate(m2.group(1)))
    body = grab("c-interface/cpgm.cpp", r"approx_pos_t search\(const K &key\) const \{(.*?)\n    \}", "PGMWrapper::search body")
    m1 = re.search(r"auto lo = ([^;]*);", body); m2 = re.search(r"auto hi = ([^;]*);", body)
    if not (m1 and m2): raise TErr("PGMWrapper::search: lo/hi not found")
    L.append("(* cpgm.cpp PGMWrapper::search: lo = %s ; hi = %s *)" % (m1.group(1), m2.group(1)))
    L.append("Definition c_search_lo (pos epsilon : Z) : Z := %s." % translate(m1.group(1)))
    L.append("Definition c_search_hi (pos epsilon n : Z) : Z := %s." % translate(m2.group(1).replace("this->n", "n")))
    # CompressedPGMIndex::search: EpsilonRecursive == 0 branch, routing window, final range
    body = grab(V, r"ApproxPos search\(const K &key\) const \{\n        auto k = std::max\(first_key, key\);\n\n        if constexpr \(EpsilonRecursive == 0\)(.*?)\n    \}\n", "CompressedPGMIndex::search body")
    los = re.findall(r"auto lo = ([^;]*);", body); his = re.findall(r"auto hi = ([^;]*);", body)
    if len(los) != 3 or len(his) != 3: raise TErr("CompressedPGMIndex::search: expected three lo and three hi definitions, got %d/%d" % (len(los), len(his)))
    strip = lambda e: re.sub(r"^level\.keys\.begin\(\) \+ ", "", e).replace("level.size()", "level_size")
    L.append("(* pgm_index_variants.hpp CompressedPGMIndex::search: lo/hi of the EpsilonRecursive == 0 branch, of the routing loop, of the result *)")
    L.append("Definition cmp_search0_lo (pos Epsilon : Z) : Z := %s." % translate(los[0]))
    L.append("Definition cmp_search0_hi (pos Epsilon n : Z) : Z := %s." % translate(his[0]))
    if not los[1].startswith("level.keys.begin() + ") or not his[1].startswith("level.keys.begin() + "):
        raise TErr("CompressedPGMIndex::search: routing window no longer relative to level.keys.begin()")
    L.append("Definition cmp_route_lo (pos EpsilonRecursive : Z) : Z := %s." % translate(strip(los[1])))
    L.append("Definition cmp_route_hi (pos EpsilonRecursive level_size : Z) : Z := %s." % translate(strip(his[1])))
    L.append("Definition cmp_search_lo (pos Epsilon : Z) : Z := %s." % translate(los[2]))
    L.append("Definition cmp_search_hi (pos Epsilon n : Z) : Z := %s." % translate(his[2]))
    # the capped position `pos = std::min<T>(prediction, next intercept)` of every search/routing site: both arguments are
    # converted to T before the comparison, so T is part of the semantics (a narrower T wraps large predictions)
    def min_sites(path, cls_pat, what, expect):
        txt = open(os.path.join(REPO, path)).read()
        if cls_pat:
            m = re.search(cls_pat, txt, re.S)
            if not m: raise TErr("%s: class not found" % what)
            txt = m.group(1)
        found = re.findall(r"(?:auto )?pos = std::min<([^>]*)>\(", txt)
        if len(found) != expect: raise TErr("%s: expected %d `pos = std::min<T>(` sites, got %d" % (what, expect, len(found)))
        out = []
        for t in found:
            t = t.strip()
            if t == "size_t": out.append(64)
            elif t in INT_TYPES and not INT_TYPES[t][1]: out.append(INT_TYPES[t][0])
            else: raise TErr("%s: std::min<%s>: type not understood (unsigned fixed-width integer types and size_t only)" % (what, t))
        return out
    sites = [("pgm", I, None, 2), ("cmp", V, r"\nclass CompressedPGMIndex \{(.*?)\n\};\n", 3), ("bkt", V, r"\nclass BucketingPGMIndex \{(.*?)\n\};\n", 1),
             ("efi", V, r"\nclass EliasFanoPGMIndex \{(.*?)\n\};\n", 1), ("capi", "c-interface/cpgm.cpp", None, 1)]
    L.append("(* pos = std::min<T>(prediction, next intercept) at every routing/search site: T = the listed unsigned widths *)")
    for nm, path, pat, expect in sites:
        ws = min_sites(path, pat, nm, expect)
        for j, w in enumerate(ws):
            L.append("Definition %s_pos_cap_%d (e i : Z) : Z := Z.min (wrapU %d e) (wrapU %d i)." % (nm, j, w, w))
    # saturation limits of the three evaluation sites (argument of the Floating(...) conversion) and of Segment::operator()
    e = grab(V, r"auto p = root_pos >= Floating\(([^?]*)\) \? std::numeric_limits<int64_t>::max\(\)", "compressed root saturation limit")
    L.append("Definition cmp_root_far_arg : Z := %s." % translate(e))
    es = re.findall(r"if \(p >= Floating\(([^;{]*)\)\)\n\s*return std::numeric_limits<int64_t>::max\(\);", open(os.path.join(REPO, V)).read())
    if len(es) != 2: raise TErr("expected two `if (p >= Floating(..)) return INT64_MAX;` sites in %s, got %d" % (V, len(es)))
    L.append("(* CompressedLevel::operator() / EliasFanoPGMIndex::SegmentData::operator(): if (p >= Floating(<arg>)) return INT64_MAX *)")
    L.append("Definition cmp_level_far_arg : Z := %s." % translate(es[0]))
    L.append("Definition efi_far_arg : Z := %s." % translate(es[1]))
    e = grab(I, r"constexpr auto too_far = ([^;]*);", "Segment::operator() too_far")
    L.append("(* pgm_index.hpp Segment::operator(): too_far = %s ; if (pos >= double(too_far)) return too_far *)" % e)
    L.append("Definition pgm_too_far : Z := %s." % translate(e))
    # CompressedLevel constructor: bitvector size, number of set bits, clamped intercept
    e = grab(V, r"auto max_intercept = ([^;]*);", "max_intercept")
    L.append("(* CompressedLevel ctor: max_intercept = %s *)" % e)
    L.append("Definition cmp_max_intercept (prev_level_size intercept_offset : Z) : Z := %s." % translate(e))
    e = grab(V, r"auto intercepts_count = std::distance\(first_intercept, last_intercept\) \+ ([^;]*);", "intercepts_count")
    L.append("(* CompressedLevel ctor: intercepts_count = distance + %s *)" % e)
    L.append("Definition cmp_intercepts_count (distance need_extra_segment : Z) : Z := distance + %s." % translate(e))
    e = grab(V, r"builder\.set\(std::clamp<int64_t>\(\*it, ([^;]*)\) - intercept_offset\);", "clamped intercept")
    a, b = split_top(e)
    L.append("(* CompressedLevel ctor: builder.set(std::clamp<int64_t>(*it, %s, %s) - intercept_offset) *)" % (a.strip(), b.strip()))
    L.append("Definition cmp_clamp_lo (prev : Z) : Z := %s." % translate(a.replace("*(it - 1)", "prev")))
    L.append("Definition cmp_clamp_hi (prev_level_size : Z) : Z := %s." % translate(b))
    # BucketingPGMIndex / EliasFanoPGMIndex search ranges, bucketing step
    for cls, nm in (("BucketingPGMIndex", "bkt"), ("EliasFanoPGMIndex", "efi")):
        m = re.search(r"\nclass %s \{(.*?)\n\};\n" % cls, open(os.path.join(REPO, V)).read(), re.S)
        if not m: raise TErr("class %s not found" % cls)
        sb = re.findall(r"ApproxPos search\(const K &key\) const \{(.*?)\n    \}", m.group(1), re.S)
        if len(sb) != 1: raise TErr("%s::search: expected one body, got %d" % (cls, len(sb)))
        m1 = re.search(r"auto lo = ([^;]*);", sb[0]); m2 = re.search(r"auto hi = ([^;]*);", sb[0])
        if not (m1 and m2): raise TErr("%s::search: lo/hi not found" % cls)
        L.append("(* %s::search: lo = %s ; hi = %s *)" % (cls, m1.group(1), m2.group(1)))
        L.append("Definition %s_search_lo (pos Epsilon : Z) : Z := %s." % (nm, translate(m1.group(1))))
        L.append("Definition %s_search_hi (pos Epsilon n : Z) : Z := %s." % (nm, translate(m2.group(1))))
    e = grab(V, r"\} else\n            step = ([^;]*);", "bucketing step (non power of two)")
    L.append("(* BucketingPGMIndex::build_top_level: step = %s  (the std::max<K> conversion is applied by the model) *)" % e)
    a, b = split_top(re.match(r"std::max<K>\((.*)\)$", e.strip()).group(1))
    L.append("Definition bkt_step_arg (last_key first_key TopLevelSize : Z) : Z := %s." % translate(a))
    L.append("Definition bkt_step_min : Z := %s." % translate(b))
    e = grab(V, r"actual_top_level_size = (CEIL_INT_DIV[^;]*);", "bucketing top level size (power of two)")
    L.append("Definition bkt_pow2_top_size (last_key first_key step : Z) : Z := %s." % translate(e))
    e = grab(V, r"step = K\(1\) << \(([^;]*)\);", "bucketing pow2 shift")
    L.append("(* step = K(1) << (%s) *)" % e)
    L.append("Definition bkt_pow2_shift (sizeof_K TopLevelSize : Z) : Z := %s." % translate(e.replace("CHAR_BIT", "8"), {"K": ("var", "sizeof_K")}))
    e = grab(V, r"static constexpr auto miss_threshold = ([^;]*);", "miss_threshold")
    L.append("Definition miss_threshold : Z := %s." % translate(e))
    e = grab(S, r"if \(parallelism == 1 \|\| n < ([^)]*)\)", "chunk threshold")
    L.append("(* piecewise_linear_model.hpp: sequential when n < %s *)" % e)
    L.append("Definition par_threshold : Z := %s." % translate(e))
    e = grab(S, r"std::min\(std::min\(omp_get_num_procs\(\), omp_get_max_threads\(\)\), ([^)]*)\)", "parallelism cap")
    L.append("Definition par_cap : Z := %s." % translate(e))
    e = grab("c-interface/cpgm.cpp", r"#define EPSILON_RECURSIVE ([^\n]*)\n", "EPSILON_RECURSIVE")
    L.append("Definition c_epsilon_recursive : Z := %s." % translate(e))
    # DynamicPGMIndex helpers
    e = grab(D, r"constexpr static uint8_t ceil_log2\(size_t n\) \{ return ([^;]*); \}", "ceil_log2")
    L.append("(* pgm_index_dynamic.hpp: ceil_log2(n) = %s *)" % e)
    L.append("Definition ceil_log2 (n : Z) : Z := wrapU 8 %s." % translate(e, {"long long": ("num", 8)}))
    e = grab(D, r"size_t max_size\(uint8_t level\) const \{ return ([^;]*); \}", "max_size")
    L.append("Definition dyn_max_size (base level : Z) : Z := %s." % translate(e))
    e = grab(D, r"uint8_t max_fully_allocated_level\(\) const \{ return ([^;]*); \}", "max_fully_allocated_level")
    L.append("Definition dyn_max_fully_allocated_level (min_level : Z) : Z := wrapU 8 %s." % translate(e))
    e = grab(D, r"uint8_t ceil_log_base\(size_t n\) const \{ return ([^;]*); \}", "ceil_log_base")
    L.append("Definition dyn_ceil_log_base (base n : Z) : Z := wrapU 8 %s." % translate(e))
    e = grab(D, r"min_level\(([^\n]*)\),\n", "min_level initialiser")
    L.append("(* min_level(%s) *)" % e)
    L.append("Definition dyn_min_level (base buffer_level : Z) : Z := wrapU 8 %s." %
             translate(e).replace("(ceil_log_base ", "(dyn_ceil_log_base base "))
    e = grab(D, r"min_index_level\(std::max<size_t>\(([^\n]*)\)\),\n", "min_index_level initialiser")
    L.append("(* min_index_level(std::max<size_t>(%s)) *)" % e)
    a, b = split_top(e)
    L.append("Definition dyn_min_index_level (base min_level index_level : Z) : Z := wrapU 8 (Z.max %s %s)." %
             (translate(a), translate(b).replace("(ceil_log_base ", "(dyn_ceil_log_base base ")))
    e = grab(D, r"static uint64_t next_pow2\(uint64_t x\) \{\s*return ([^;]*);", "next_pow2")
    L.append("(* LoserTree::next_pow2(x) = %s *)" % e)
    L.append("Definition next_pow2 (x : Z) : Z := %s." % translate(e, {"unsigned long long": ("num", 8)}))
    # DynamicPGMIndex bulk-load constructor: used_levels and the number of allocated levels
    e = grab(D, r"used_levels = (std::max<uint8_t>\(ceil_log_base\(n\), min_level\) \+ 1);", "bulk-load used_levels")
    L.append("(* DynamicPGMIndex(first,last,...): used_levels = %s *)" % e)
    L.append("Definition dyn_bulk_used_levels (base n min_level : Z) : Z := wrapU 8 %s." % translate(e).replace("(ceil_log_base ", "(dyn_ceil_log_base base "))
    e = grab(D, r"levels\.resize\((std::max<uint8_t>\(used_levels, \d+\) - min_level \+ 1)\);\n        level\(min_level\)\.reserve\(buffer_max_size\);\n        for \(uint8_t i = min_level \+ 1; i < max_fully", "bulk-load levels.resize")
    L.append("Definition dyn_bulk_levels_count (used_levels min_level : Z) : Z := %s." % translate(e))
    def safe(line):      # C++ text quoted inside a Coq comment must not open or close comments itself
        if line.startswith("(* ") and line.endswith(" *)"):
            return "(* " + line[3:-3].replace("(*", "( *").replace("*)", "* )") + " *)"
        return line
    open(outpath, "w").write("\n".join(safe(l) for l in L) + "\n")

CALLS["ceil_log_base"] = "ceil_log_base"

def split_top(s):
    d = 0
    for i, ch in enumerate(s):
        if ch == "(": d += 1
        elif ch == ")": d -= 1
        elif ch == "," and d == 0: return s[:i], s[i + 1:]
    raise TErr("no top-level comma in " + s)

if __name__ == "__main__":
    try:
        main(sys.argv[1] if len(sys.argv) > 1 else os.path.join(os.path.dirname(__file__), "..", "coq", "GenLeaf.v"))
    except TErr as ex:
        print("leaf_translate: " + str(ex), file=sys.stderr)
        sys.exit(2)

(* ComposeDynGood.v — the premise level_good of ComposeDyn.ihist derived from what a caller controls:
   the inserted keys are values of the key type, and the capacity of the used levels is at most 2^30. *)
Require Import Base Fp PlaModel GenLeaf IndexModel IndexProofs IdxFed IdxChain DynModel DynSpec DynExec
  DynCoreLemmas DynCoreInv DynCoreRefine DynCoreQuery DynCore DynIter ComposeIdx ComposeBuild ComposeDyn.
From Coq Require Import ZifyBool.
Local Open Scope Z_scope.

Section Items.
  Context {P : Type} (ops : pgmops P) (kmax : Z).
  Hypothesis Hempty : forall p, pg_build ops [] = Ok p -> p = pg_empty ops.
  Variable Q : item -> Prop.

  (* every item stored in the container satisfies Q *)
  Definition itemsQ (d : @dyn P) : Prop := forall j l e, level d j = Ok l -> In e l -> Q e.

  Lemma itemsQ_set_level d i l d' : itemsQ d -> (forall e, In e l -> Q e) -> set_level d i l = Ok d' -> itemsQ d'.
  Proof.
    intros Hq Hl H j l' e Hj He. destruct (set_level_spec d i l d' H) as (_ & _ & _ & _ & _ & _ & Hlev & _).
    rewrite Hlev in Hj. destruct (j =? i); [injection Hj as <-; apply Hl; exact He|]. exact (Hq j l' e Hj He).
  Qed.

  Lemma itemsQ_set_used d u : itemsQ d -> itemsQ (set_used d u).
  Proof. intros Hq j l e Hj He. exact (Hq j l e Hj He). Qed.

  Lemma itemsQ_grow d i : Inv ops kmax d -> d_used d < 255 -> itemsQ d -> itemsQ (grow ops d i).
  Proof.
    intros HI Hu Hq. unfold grow. destruct (i =? d_used d) eqn:E; [|exact Hq].
    assert (i = d_used d) by lia. subst i.
    pose proof (wf_levels_len ops d (iv_wf _ _ d HI)) as [Hl1 _].
    pose proof (wf_levels_order ops d (iv_wf _ _ d HI)) as [Ho _].
    destruct (grow_spec ops d Hu ltac:(lia)) as (_ & _ & _ & Hlev & _).
    unfold grow in Hlev. rewrite Z.eqb_refl in Hlev.
    intros j l e Hj He. rewrite Hlev in Hj. destruct (j - d_min_level d =? zlen (d_levels d)).
    - injection Hj as <-. contradiction.
    - exact (Hq j l e Hj He).
  Qed.

  Lemma levels_from_level (d : @dyn P) s n l : d_min_level d <= s -> In l (levels_from d s n) -> exists j, level d j = Ok l.
  Proof.
    intros Hs Hin. unfold levels_from in Hin. apply In_firstn in Hin.
    assert (Hin' : In l (d_levels d)).
    { revert Hin. generalize (Z.to_nat (s - d_min_level d)) as k. generalize (d_levels d) as L.
      induction L as [|a t IH]; intros k Hk; [destruct k; contradiction|].
      destruct k; [exact Hk|]. right. exact (IH k Hk). }
    destruct (In_nth_res _ _ Hin') as (i & Hi & Ei). exists (i + d_min_level d). unfold level.
    replace (i + d_min_level d - d_min_level d) with i by lia. exact Ei.
  Qed.

  Lemma itemsQ_pairwise d x t ip d' :
    0 <= d_min_level d < t -> t <= 255 -> itemsQ d -> Q x ->
    pairwise_merge ops d x t ip = Ok d' -> itemsQ d'.
  Proof.
    intros Ht1 Ht2 Hq Hx H.
    destruct (pairwise_merge_spec ops d x t ip d' Ht1 Ht2 H) as (buf & lt & out & Hb & Hlt & Hrest).
    cbv zeta in Hrest. destruct Hrest as (Eout & _ & _ & _ & _ & _ & Hlev & _).
    intros j l e Hj He. rewrite Hlev in Hj. destruct (j =? t).
    - injection Hj as <-. rewrite Eout in He. apply mrun_in in He. destruct He as [He|(l0 & Hl0 & He)].
      + apply insert_at_in in He. destruct He as [->|He]; [exact Hx|]. exact (Hq _ _ _ Hb He).
      + apply levels_from_level in Hl0; [|lia]. destruct Hl0 as (j0 & Hj0). exact (Hq _ _ _ Hj0 He).
    - destruct ((j =? d_min_level d) || cleared d (merge_n d t lt) j).
      + injection Hj as <-. contradiction.
      + exact (Hq _ _ _ Hj He).
  Qed.

  Theorem itemsQ_insert d x d' :
    Inv ops kmax d -> size_ok d -> itemsQ d -> Q x -> insert ops d x = Ok d' -> itemsQ d'.
  Proof.
    intros HI Hsz Hq Hx H. apply (insert_cases ops kmax) in H; [|exact HI].
    pose proof (wf_levels_order ops d (iv_wf _ _ d HI)) as [Ho _].
    destruct H as [buf e Hb Hn He Hset | buf d1 Hb Hn Hz Hset -> | buf i sr Hb Hn Hfull Hf Hpm].
    - refine (itemsQ_set_level d _ _ d' Hq _ Hset).
      intros e0 He0. apply set_nth_in in He0. destruct He0 as [->|He0]; [exact Hx|exact (Hq _ _ _ Hb He0)].
    - apply itemsQ_set_used. refine (itemsQ_set_level d _ _ d1 Hq _ Hset).
      intros e0 He0. apply insert_at_in in He0. destruct He0 as [->|He0]; [exact Hx|exact (Hq _ _ _ Hb He0)].
    - destruct (merge_case_facts ops kmax d buf i sr HI Hb Hfull Hf) as [Hmu [Hi _]].
      pose proof (iv_used _ _ d HI) as Hu. unfold size_ok in Hsz.
      assert (Hgq : itemsQ (grow ops d i)) by (apply itemsQ_grow; assumption).
      refine (itemsQ_pairwise (grow ops d i) x i _ d' _ _ Hgq Hx Hpm).
      + assert (Em : d_min_level (grow ops d i) = d_min_level d) by (unfold grow; destruct (i =? d_used d); reflexivity).
        rewrite Em. lia.
      + lia.
  Qed.
End Items.

Lemma itemsQ_of_levels {P} (Q : item -> Prop) (d : @dyn P) :
  (forall l, In l (d_levels d) -> forall e, In e l -> Q e) -> itemsQ Q d.
Proof. intros H j l e Hj He. apply (H l); [|exact He]. exact (nth_res_In _ _ _ Hj). Qed.

Lemma itemsQ_ctor {P} (Q : item -> Prop) tomb kmax base bl il (d : @dyn P) :
  dyn_ctor tomb kmax base bl il = Ok d -> itemsQ Q d.
Proof.
  intros H. apply dyn_ctor_eq in H. destruct H as [_ H]. cbv zeta in H. subst d.
  apply itemsQ_of_levels. cbn [d_levels]. intros l Hl e He. apply repeat_spec in Hl. subst l. contradiction.
Qed.

Lemma itemsQ_bulk {P} (ops : pgmops P) (Qk : Z -> Prop) tomb kmax pairs base bl il d :
  Forall (fun p => Qk (fst p)) pairs ->
  dyn_bulk ops tomb kmax pairs base bl il = Ok d -> itemsQ (fun e => Qk (it_key e)) d.
Proof.
  intros Hp H. unfold dyn_bulk in H.
  destruct (dyn_ctor tomb kmax base bl il) as [d0|e] eqn:E0; cbn [bind] in H; [|discriminate].
  destruct pairs as [|[k0 v0] tl].
  - injection H as <-. apply itemsQ_set_used.
    apply itemsQ_of_levels. cbn [d_levels]. intros l Hl e He. apply repeat_spec in Hl. subst l. contradiction.
  - destruct (dedup_sorted k0 tl) as [rest|e] eqn:Ed; cbn [bind] in H; [|discriminate].
    destruct (check_values tomb (mkItem k0 (Some v0) :: rest)); [discriminate|].
    match type of H with context [set_level ?a ?b ?l] => destruct (set_level a b l) as [d2|e] eqn:E2 end;
      cbn [bind] in H; [|discriminate].
    assert (Hd2 : forall l, In l (d_levels d2) -> forall e, In e l -> Qk (it_key e)).
    { destruct (set_level_spec _ _ _ _ E2) as (_ & _ & _ & _ & _ & EL & _). rewrite EL. cbn [d_levels].
      intros l Hl e He. apply set_nth_in in Hl. destruct Hl as [->|Hl]; [|apply repeat_spec in Hl; subst l; contradiction].
      inversion Hp as [|p0 l0 Hk0 Htl]; subst. destruct He as [<-|He]; [exact Hk0|].
      destruct (dedup_sorted_spec tl k0 rest Ed) as (_ & _ & _ & Hsrc & _).
      destruct (Hsrc e He) as (v & Hin & _). rewrite Forall_forall in Htl. exact (Htl _ Hin). }
    destruct (has_pgm d2 _).
    + destruct (pg_build ops _) as [p|e]; cbn [bind] in H; [|discriminate].
      apply itemsQ_of_levels. rewrite (set_pgm_levels _ _ _ _ H). cbn [d_levels]. exact Hd2.
    + injection H as <-. apply itemsQ_of_levels. exact Hd2.
Qed.

(* capacity: every used level holds at most 2^30 items *)
Definition cap30 {P} (d : @dyn P) : Prop := d_used d * ceil_log2 (d_base d) <= 30.

Lemma cap30_levels {P} (ops : pgmops P) kmax (d : @dyn P) i l :
  DynCoreInv.Inv ops kmax d -> cap30 d -> level d i = Ok l -> zlen l <= 2 ^ 30.
Proof.
  intros HI Hs Hl. unfold cap30 in Hs.
  pose proof (wf_levels_order ops d (iv_wf _ _ d HI)) as [H0 _].
  pose proof (wf_levels_len ops d (iv_wf _ _ d HI)) as [Hl1 _].
  pose proof (iv_b _ _ d HI) as Hb.
  assert (Hpow : forall j, 0 <= j <= d_used d -> dyn_max_size (d_base d) j <= 2 ^ 30).
  { intros j Hj. rewrite max_size_pow. apply Z.pow_le_mono_r; [lia|nia]. }
  destruct (Z_le_dec (d_used d) i) as [Hge|Hlt].
  - assert (l = []). { eapply lp_unused; [apply HI| |eauto]. lia. } subst. cbn. lia.
  - apply level_nth_error in Hl as Hr. destruct Hr as [Hr _].
    destruct (Z.eq_dec i (d_min_level d)) as [->|Hne].
    + pose proof (lp_buffer ops d (wf_lsm ops d (iv_wf _ _ d HI)) l Hl) as Hbuf.
      rewrite (iv_bufmax _ _ d HI) in Hbuf.
      pose proof (buffer_sum_geom (d_base d) (Z.to_nat (d_min_level d + 1)) Hb) as Hg.
      rewrite Z2Nat.id in Hg by lia. specialize (Hpow (d_min_level d + 1) ltac:(lia)). lia.
    + pose proof (lp_sizes ops d (wf_lsm ops d (iv_wf _ _ d HI)) i l ltac:(lia) Hl).
      specialize (Hpow i ltac:(lia)). lia.
Qed.

(* level_good from typed keys and capacity *)
Lemma level_good_of (ops : pgmops index) c kmax (d : @dyn index) :
  DynCoreInv.Inv ops kmax d -> cap30 d ->
  itemsQ (fun e => in_ktype (c_kt c) (it_key e) = true) d -> level_good c d.
Proof.
  intros HI Hc Hq. unfold level_good. apply Forall_forall. intros l Hl.
  destruct (In_nth_res _ _ Hl) as (i & Hi & Ei).
  assert (Hlev : level d (i + d_min_level d) = Ok l).
  { unfold level. replace (i + d_min_level d - d_min_level d) with i by lia. exact Ei. }
  unfold goodb. apply andb_true_intro. split.
  - apply forallb_forall. intros x Hx. apply in_map_iff in Hx. destruct Hx as (e & <- & He).
    exact (Hq _ _ _ Hlev He).
  - pose proof (cap30_levels ops kmax d _ l HI Hc Hlev) as Hz.
    assert (zlen (map it_key l) = zlen l) by (unfold zlen; rewrite map_length; reflexivity). lia.
Qed.

(* histories whose keys are values of the key type and whose used levels hold at most 2^30 items *)
Inductive thist (c : cfg) : @dyn index -> amap -> Prop :=
| th_ctor : forall tomb base bl il d,
    ctor_ok base bl il -> dyn_ctor tomb (sentinel c) base bl il = Ok d -> thist c d []
| th_bulk : forall tomb pairs base bl il d,
    bulk_ok base bl il pairs ->
    Forall (fun p => in_ktype (c_kt c) (fst p) = true) pairs -> Forall (fun p => fst p < sentinel c) pairs ->
    dyn_bulk (idx_ops c) tomb (sentinel c) pairs base bl il = Ok d -> cap30 d ->
    thist c d (am_bulk pairs)
| th_ins : forall d m k v d',
    thist c d m -> size_ok d -> in_ktype (c_kt c) k = true -> k < sentinel c ->
    insert_or_assign (idx_ops c) d k v = Ok d' -> cap30 d' -> thist c d' (am_insert k v m)
| th_del : forall d m k d',
    thist c d m -> size_ok d -> in_ktype (c_kt c) k = true -> k < sentinel c ->
    erase (idx_ops c) d k = Ok d' -> cap30 d' -> thist c d' (am_erase k m).

Lemma idx_Hempty c : forall p, pg_build (idx_ops c) [] = Ok p -> p = pg_empty (idx_ops c).
Proof. intros p H. cbn in H. injection H as <-. reflexivity. Qed.

Theorem thist_ihist c d m : thist c d m ->
  ihist c d m /\ itemsQ (fun e => in_ktype (c_kt c) (it_key e) = true) d.
Proof.
  set (Q := fun e : item => in_ktype (c_kt c) (it_key e) = true).
  assert (Hstep : forall d m x d', ihist c d m -> itemsQ Q d -> size_ok d -> Q x ->
            insert (idx_ops c) d x = Ok d' -> itemsQ Q d').
  { intros d0 m0 x d1 Hh Hq Hsz Hx Hi.
    pose proof (ghist_Inv (idx_ops c) (sentinel c) (idx_Hempty c) d0 m0 (ihist_ghist c d0 m0 Hh)) as HI.
    exact (itemsQ_insert (idx_ops c) (sentinel c) Q d0 x d1 HI Hsz Hq Hx Hi). }
  induction 1 as [tomb base bl il d Hc Hd | tomb pairs base bl il d Hb Hk1 Hk2 Hd Hcap
                  | d m k v d' Hh [IH1 IH2] Hsz Hk1 Hk2 Hi Hcap | d m k d' Hh [IH1 IH2] Hsz Hk1 Hk2 Hi Hcap].
  - split; [eapply ih_ctor; eassumption|]. exact (itemsQ_ctor Q _ _ _ _ _ d Hd).
  - pose proof (itemsQ_bulk (idx_ops c) (fun k => in_ktype (c_kt c) k = true) _ _ _ _ _ _ d Hk1 Hd) as Hq.
    split; [|exact Hq]. eapply ih_bulk; try eassumption.
    apply (level_good_of (idx_ops c) c (sentinel c)); [|exact Hcap|exact Hq].
    apply (ghist_Inv (idx_ops c) (sentinel c) (idx_Hempty c) d (am_bulk pairs)). eapply gh_bulk; eassumption.
  - assert (Hq : itemsQ Q d').
    { unfold insert_or_assign in Hi. destruct (match d_tomb d with Some t => v =? t | None => false end); [discriminate|].
      exact (Hstep d m (mkItem k (Some v)) d' IH1 IH2 Hsz Hk1 Hi). }
    split; [|exact Hq]. eapply ih_ins; try eassumption.
    apply (level_good_of (idx_ops c) c (sentinel c)); [|exact Hcap|exact Hq].
    apply (ghist_Inv (idx_ops c) (sentinel c) (idx_Hempty c) d' (am_insert k v m)).
    eapply gh_ins; try eassumption. apply ihist_ghist. exact IH1.
  - assert (Hq : itemsQ Q d') by exact (Hstep d m (mkItem k None) d' IH1 IH2 Hsz Hk1 Hi).
    split; [|exact Hq]. eapply ih_del; try eassumption.
    apply (level_good_of (idx_ops c) c (sentinel c)); [|exact Hcap|exact Hq].
    apply (ghist_Inv (idx_ops c) (sentinel c) (idx_Hempty c) d' (am_erase k m)).
    eapply gh_del; try eassumption. apply ihist_ghist. exact IH1.
Qed.

(* ---------------- C05 / C06 / C15 for DynamicPGMIndex over the concrete PGMIndex ---------------- *)
Section DynTyped.
  Variable c : cfg.
  Hypothesis Hc : idx_ok c.
  Hypothesis Hf : float_ok_valid c.
  Hypothesis Hsm : cfg_small c.
  Variables (d : @dyn index) (m : amap).
  Hypothesis Hh : thist c d m.
  Hypothesis Hsz : DynCoreQuery.sizes_ok d.

  Let Hi := proj1 (thist_ihist c d m Hh).

  Theorem C15_typed : wf_state (idx_ops c) d /\ lsm_props (idx_ops c) d.
  Proof. exact (C15_ihist c d m Hi). Qed.

  Theorem C05_find_typed q : q < sentinel c ->
    exists r, dfind (idx_ops c) d q = Ok r /\ obs r = option_map (fun v => (q, v)) (am_find q m).
  Proof. exact (C05_find_idx c Hc Hf Hsm d m Hi Hsz q). Qed.

  Theorem C05_count_typed q : q < sentinel c ->
    count (idx_ops c) d q = Ok (match am_find q m with Some _ => 1 | None => 0 end).
  Proof. exact (C05_count_idx c Hc Hf Hsm d m Hi Hsz q). Qed.

  Theorem C05_lower_bound_typed q : q < sentinel c ->
    exists r, lower_bound (idx_ops c) d q = Ok r /\ obs r = am_lower_bound q m.
  Proof. exact (C05_lower_bound_idx c Hc Hf Hsm d m Hi Hsz q). Qed.

  Theorem C06_range_typed lo hi : lo <= hi -> hi < sentinel c -> range (idx_ops c) d lo hi = Ok (am_range lo hi m).
  Proof. exact (C06_range_idx c Hc Hf Hsm d m Hi Hsz lo hi). Qed.

  Theorem C06_iter_typed q : q < sentinel c ->
    exists r, lower_bound (idx_ops c) d q = Ok r /\ to_list_from (idx_ops c) d (iter_of r) = Ok (am_from q m).
  Proof. exact (C06_iter_idx c Hc Hf Hsm d m Hi Hsz q). Qed.

  Theorem C06_size_typed kmin_ : kmin_ < sentinel c -> Forall (fun p => kmin_ <= fst p) m ->
    dyn_size (idx_ops c) d kmin_ = Ok (zlen m).
  Proof. exact (C06_size_idx c Hc Hf Hsm d m Hi Hsz kmin_). Qed.

  Theorem C06_empty_typed kmin_ : kmin_ < sentinel c -> Forall (fun p => kmin_ <= fst p) m ->
    dyn_empty (idx_ops c) d kmin_ = Ok (match m with [] => true | _ => false end).
  Proof. exact (C06_empty_idx c Hc Hf Hsm d m Hi Hsz kmin_). Qed.
End DynTyped.

Print Assumptions thist_ihist.
Print Assumptions C05_find_typed.
Print Assumptions C05_lower_bound_typed.
Print Assumptions C06_iter_typed.
Print Assumptions C15_typed.

(* ---- non-vacuity: a typed history (bulk load of 7 pairs building a real index, one insert, one erase) ---- *)
Definition ex_c := mkCfg (mkK 32 false) 2 4 false 1 false.
Definition ex_pairs : list (Z * Z) := [(1,10);(5,50);(9,90);(12,120);(40,400);(41,410);(70,700)].

Definition opt_eqb (a b : option (Z * Z)) : bool :=
  match a, b with
  | Some (x, y), Some (x', y') => (x =? x') && (y =? y')
  | None, None => true
  | _, _ => false
  end.
Lemma opt_eqb_eq a b : opt_eqb a b = true -> a = b.
Proof.
  destruct a as [[x y]|], b as [[x' y']|]; cbn; intros H; try discriminate; [|reflexivity].
  apply andb_prop in H. destruct H. f_equal. f_equal; lia.
Qed.

Definition find_obs (d : @dyn index) (q : Z) : option (Z * Z) :=
  match dfind (idx_ops ex_c) d q with Ok r => obs r | Err _ => Some (-1, -1) end.

Definition shape_ok (d : @dyn index) : bool := (d_used d =? 3) && (d_base d =? 4).

Definition ex_check : bool :=
  match dyn_bulk (idx_ops ex_c) None (sentinel ex_c) ex_pairs 4 1 2 with
  | Ok d0 =>
      match insert_or_assign (idx_ops ex_c) d0 7 77 with
      | Ok d1 =>
          match erase (idx_ops ex_c) d1 5 with
          | Ok d2 => shape_ok d0 && shape_ok d1 && shape_ok d2 &&
                     opt_eqb (find_obs d2 7) (Some (7, 77)) && opt_eqb (find_obs d2 5) None &&
                     opt_eqb (find_obs d2 40) (Some (40, 400))
          | Err _ => false
          end
      | Err _ => false
      end
  | Err _ => false
  end.

Lemma ex_checked : ex_check = true.
Proof. vm_compute. reflexivity. Qed.

Lemma shape_cap (d : @dyn index) : shape_ok d = true -> cap30 d /\ size_ok d /\ DynCoreQuery.sizes_ok d.
Proof.
  unfold shape_ok. intros H. apply andb_prop in H. destruct H as [H1 H2].
  assert (Hu : d_used d = 3) by lia. assert (Hb : d_base d = 4) by lia.
  unfold cap30, size_ok, DynCoreQuery.sizes_ok. rewrite Hu, Hb. vm_compute. repeat split; discriminate.
Qed.

Example thist_instance :
  exists d, thist ex_c d (am_erase 5 (am_insert 7 77 (am_bulk ex_pairs))) /\ DynCoreQuery.sizes_ok d /\
            find_obs d 7 = Some (7, 77) /\ find_obs d 5 = None /\ find_obs d 40 = Some (40, 400).
Proof.
  pose proof ex_checked as H. unfold ex_check in H.
  destruct (dyn_bulk (idx_ops ex_c) None (sentinel ex_c) ex_pairs 4 1 2) as [d0|e] eqn:E0; [|discriminate].
  destruct (insert_or_assign (idx_ops ex_c) d0 7 77) as [d1|e] eqn:E1; [|discriminate].
  destruct (erase (idx_ops ex_c) d1 5) as [d2|e] eqn:E2; [|discriminate].
  do 5 (apply andb_prop in H; destruct H as [H ?H]).
  destruct (shape_cap d0 H) as (C0 & S0 & _). destruct (shape_cap d1 H4) as (C1 & S1 & _).
  destruct (shape_cap d2 H3) as (C2 & _ & Z2).
  exists d2. split; [|split; [exact Z2|]].
  - apply (th_del ex_c d1 _ 5 d2); [|exact S1|reflexivity|reflexivity|exact E2|exact C2].
    apply (th_ins ex_c d0 _ 7 77 d1); [|exact S0|reflexivity|reflexivity|exact E1|exact C1].
    apply (th_bulk ex_c None ex_pairs 4 1 2 d0); [| | |exact E0|exact C0].
    + unfold bulk_ok, ctor_ok. vm_compute. repeat split; discriminate.
    + repeat constructor.
    + unfold ex_pairs. repeat constructor.
  - split; [apply opt_eqb_eq; assumption|]. split; apply opt_eqb_eq; assumption.
Qed.

(* MultiMorton.v — bit-level correctness of the Morton coding of MultiModel.v:
   pdep/pext on the regular masks selector << i, decode ∘ encode = id, injectivity,
   the box test as a coordinate-wise comparison, and monotonicity of the code. *)
Require Import Base Fp PlaModel GenLeaf IndexModel MultiModel.
From Coq Require Import ZifyBool.
Local Open Scope Z_scope.

(* ---- pdep / pext with the output position factored out ---- *)
Fixpoint pdep0 (fuel : nat) (src mask : Z) : Z :=
  match fuel with
  | O => 0
  | S f => if mask =? 0 then 0
           else if Z.odd mask then Z.b2z (Z.odd src) + 2 * pdep0 f (Z.div2 src) (Z.div2 mask)
           else 2 * pdep0 f src (Z.div2 mask)
  end.
Fixpoint pext0 (fuel : nat) (src mask : Z) : Z :=
  match fuel with
  | O => 0
  | S f => if mask =? 0 then 0
           else if Z.odd mask then Z.b2z (Z.odd src) + 2 * pext0 f (Z.div2 src) (Z.div2 mask)
           else pext0 f (Z.div2 src) (Z.div2 mask)
  end.

Lemma pdep_aux_pos f : forall src mask pos, 0 <= pos ->
  pdep_aux f src mask pos = 2 ^ pos * pdep0 f src mask.
Proof.
  induction f as [|f IH]; intros src mask pos Hp; cbn [pdep_aux pdep0]; [lia|].
  destruct (mask =? 0); [lia|].
  destruct (Z.odd mask).
  - rewrite IH by lia. rewrite Z.pow_add_r by lia. change (2 ^ 1) with 2.
    destruct (Z.odd src); cbn [Z.b2z]; ring.
  - rewrite IH by lia. rewrite Z.pow_add_r by lia. change (2 ^ 1) with 2. ring.
Qed.

Lemma pext_aux_pos f : forall src mask pos, 0 <= pos ->
  pext_aux f src mask pos = 2 ^ pos * pext0 f src mask.
Proof.
  induction f as [|f IH]; intros src mask pos Hp; cbn [pext_aux pext0]; [lia|].
  destruct (mask =? 0); [lia|].
  destruct (Z.odd mask).
  - rewrite IH by lia. rewrite Z.pow_add_r by lia. change (2 ^ 1) with 2.
    destruct (Z.odd src); cbn [Z.b2z]; ring.
  - rewrite IH by lia. reflexivity.
Qed.

Lemma pdep_pdep0 src mask : pdep src mask = pdep0 64 src mask.
Proof. unfold pdep. rewrite pdep_aux_pos by lia. change (2 ^ 0) with 1. lia. Qed.
Lemma pext_pext0 src mask : pext src mask = pext0 64 src mask.
Proof. unfold pext. rewrite pext_aux_pos by lia. change (2 ^ 0) with 1. lia. Qed.

Lemma pdep0_zero f src : pdep0 f src 0 = 0.
Proof. destruct f; reflexivity. Qed.
Lemma pext0_zero f src : pext0 f src 0 = 0.
Proof. destruct f; reflexivity. Qed.

Lemma odd_double x : Z.odd (2 * x) = false.
Proof. rewrite Z.odd_mul. reflexivity. Qed.
Lemma div2_double x : Z.div2 (2 * x) = x.
Proof. rewrite Z.div2_div, Z.mul_comm, Z.div_mul; lia. Qed.
Lemma odd_succ_double x : Z.odd (1 + 2 * x) = true.
Proof. rewrite Z.odd_add_mul_2. reflexivity. Qed.
Lemma div2_succ_double x : Z.div2 (1 + 2 * x) = x.
Proof. rewrite Z.div2_div. symmetry. apply (Z.div_unique (1 + 2 * x) 2 x 1); lia. Qed.
Lemma pow2_S (i : nat) : 2 ^ Z.of_nat (S i) = 2 * 2 ^ Z.of_nat i.
Proof. rewrite Nat2Z.inj_succ, Z.pow_succ_r; lia. Qed.

(* a mask shifted left by i: pdep shifts its result, pext shifts its source *)
Lemma pdep0_shift (i : nat) : forall f src s,
  pdep0 (i + f) src (2 ^ Z.of_nat i * s) = 2 ^ Z.of_nat i * pdep0 f src s.
Proof.
  induction i as [|i IH]; intros f src s.
  - cbn [Nat.add]. change (2 ^ Z.of_nat 0) with 1. rewrite !Z.mul_1_l. reflexivity.
  - rewrite pow2_S. destruct (Z.eq_dec s 0) as [->|Hs].
    + rewrite Z.mul_0_r, !pdep0_zero. lia.
    + cbn [Nat.add pdep0].
      assert (Hp : 0 < 2 ^ Z.of_nat i) by (apply Z.pow_pos_nonneg; lia).
      assert (E : 2 * 2 ^ Z.of_nat i * s =? 0 = false) by nia. rewrite E.
      rewrite <- !Z.mul_assoc. rewrite odd_double, div2_double, IH. reflexivity.
Qed.

Lemma pext0_shift (i : nat) : forall f src s,
  pext0 (i + f) src (2 ^ Z.of_nat i * s) = pext0 f (src / 2 ^ Z.of_nat i) s.
Proof.
  induction i as [|i IH]; intros f src s.
  - cbn [Nat.add]. change (2 ^ Z.of_nat 0) with 1. rewrite Z.mul_1_l, Z.div_1_r. reflexivity.
  - rewrite pow2_S. destruct (Z.eq_dec s 0) as [->|Hs].
    + rewrite Z.mul_0_r, !pext0_zero. lia.
    + cbn [Nat.add pext0].
      assert (Hp : 0 < 2 ^ Z.of_nat i) by (apply Z.pow_pos_nonneg; lia).
      assert (E : 2 * 2 ^ Z.of_nat i * s =? 0 = false) by nia. rewrite E.
      rewrite <- !Z.mul_assoc. rewrite odd_double, div2_double, IH.
      rewrite Z.div2_div, Z.div_div by lia. reflexivity.
Qed.

(* ---- the selector mask and the two digit-spreading functions ---- *)
Lemma lor_double_1 a : 0 <= a -> Z.lor (2 * a) 1 = 1 + 2 * a.
Proof. intros Ha. destruct a as [|p|p]; [reflexivity|reflexivity|lia]. Qed.

Lemma selector_aux_nonneg n d : 0 <= d -> 0 <= selector_aux n d.
Proof.
  intros Hd. induction n as [|n IH]; [cbn; lia|].
  cbn [selector_aux]. destruct n as [|k]; [lia|].
  apply Z.lor_nonneg. split; [|lia]. apply Z.shiftl_nonneg. exact IH.
Qed.

Lemma selector_aux_S n d : 1 <= d -> selector_aux (S n) d = 1 + 2 ^ d * selector_aux n d.
Proof.
  intros Hd. destruct n as [|k]; [cbn [selector_aux]; lia|].
  change (selector_aux (S (S k)) d) with (Z.lor (Z.shiftl (selector_aux (S k) d) d) 1).
  pose proof (selector_aux_nonneg (S k) d ltac:(lia)) as Hnn.
  rewrite Z.shiftl_mul_pow2 by lia.
  replace (selector_aux (S k) d * 2 ^ d) with (2 * (2 ^ (d - 1) * selector_aux (S k) d)).
  - rewrite lor_double_1; [|apply Z.mul_nonneg_nonneg; [|lia]; apply Z.pow_nonneg; lia].
    replace (2 ^ d) with (2 ^ 1 * 2 ^ (d - 1)) by (rewrite <- Z.pow_add_r by lia; f_equal; lia).
    change (2 ^ 1) with 2. ring.
  - replace (2 ^ d) with (2 ^ 1 * 2 ^ (d - 1)) by (rewrite <- Z.pow_add_r by lia; f_equal; lia).
    change (2 ^ 1) with 2. ring.
Qed.

(* spread d n x: bit j of x goes to bit j*d (j < n); gather d n c: bit j*d of c goes to bit j *)
Fixpoint spread (d : Z) (n : nat) (x : Z) : Z :=
  match n with O => 0 | S k => Z.b2z (Z.odd x) + 2 ^ d * spread d k (Z.div2 x) end.
Fixpoint gather (d : Z) (n : nat) (c : Z) : Z :=
  match n with O => 0 | S k => Z.b2z (Z.odd c) + 2 * gather d k (c / 2 ^ d) end.

Lemma pdep0_step (d : nat) f src s : (1 <= d)%nat -> 0 <= s ->
  pdep0 (d + f) src (1 + 2 ^ Z.of_nat d * s) = Z.b2z (Z.odd src) + 2 ^ Z.of_nat d * pdep0 f (Z.div2 src) s.
Proof.
  intros Hd Hs. destruct d as [|d']; [lia|]. rewrite pow2_S.
  cbn [Nat.add pdep0].
  assert (Hp : 0 < 2 ^ Z.of_nat d') by (apply Z.pow_pos_nonneg; lia).
  assert (E : 1 + 2 * 2 ^ Z.of_nat d' * s =? 0 = false) by nia. rewrite E.
  rewrite <- !Z.mul_assoc. rewrite odd_succ_double, div2_succ_double, pdep0_shift. ring.
Qed.

Lemma pext0_step (d : nat) f src s : (1 <= d)%nat -> 0 <= s ->
  pext0 (d + f) src (1 + 2 ^ Z.of_nat d * s) = Z.b2z (Z.odd src) + 2 * pext0 f (src / 2 ^ Z.of_nat d) s.
Proof.
  intros Hd Hs. destruct d as [|d']; [lia|]. rewrite pow2_S.
  cbn [Nat.add pext0].
  assert (Hp : 0 < 2 ^ Z.of_nat d') by (apply Z.pow_pos_nonneg; lia).
  assert (E : 1 + 2 * 2 ^ Z.of_nat d' * s =? 0 = false) by nia. rewrite E.
  rewrite <- !Z.mul_assoc. rewrite odd_succ_double, div2_succ_double, pext0_shift.
  rewrite Z.div2_div, Z.div_div by lia. reflexivity.
Qed.

Lemma pdep0_selector (d : nat) (n : nat) : (1 <= d)%nat -> forall f src,
  pdep0 (n * d + S f) src (selector_aux (S n) (Z.of_nat d)) = spread (Z.of_nat d) (S n) src.
Proof.
  intros Hd. induction n as [|n IH]; intros f src.
  - cbn [Nat.mul Nat.add selector_aux pdep0 spread]. change (1 =? 0) with false. change (Z.odd 1) with true.
    cbn match. change (Z.div2 1) with 0. rewrite pdep0_zero. lia.
  - rewrite (selector_aux_S (S n)) by lia.
    replace (S n * d + S f)%nat with (d + (n * d + S f))%nat by lia.
    rewrite pdep0_step; [|lia|apply selector_aux_nonneg; lia].
    rewrite IH. reflexivity.
Qed.

Lemma pext0_selector (d : nat) (n : nat) : (1 <= d)%nat -> forall f src,
  pext0 (n * d + S f) src (selector_aux (S n) (Z.of_nat d)) = gather (Z.of_nat d) (S n) src.
Proof.
  intros Hd. induction n as [|n IH]; intros f src.
  - cbn [Nat.mul Nat.add selector_aux pext0 gather]. change (1 =? 0) with false. change (Z.odd 1) with true.
    cbn match. change (Z.div2 1) with 0. rewrite pext0_zero. lia.
  - rewrite (selector_aux_S (S n)) by lia.
    replace (S n * d + S f)%nat with (d + (n * d + S f))%nat by lia.
    rewrite pext0_step; [|lia|apply selector_aux_nonneg; lia].
    rewrite IH. reflexivity.
Qed.

(* the regular masks: selector_aux (S n) d << i, with (n*d + i) < 64 *)
Lemma pdep_regmask (d n i : nat) src : (1 <= d)%nat -> (n * d + i < 64)%nat ->
  pdep src (2 ^ Z.of_nat i * selector_aux (S n) (Z.of_nat d)) = 2 ^ Z.of_nat i * spread (Z.of_nat d) (S n) src.
Proof.
  intros Hd Hb. rewrite pdep_pdep0.
  replace 64%nat with (i + (n * d + S (63 - n * d - i)))%nat by lia.
  rewrite pdep0_shift, pdep0_selector by lia. reflexivity.
Qed.

Lemma pext_regmask (d n i : nat) src : (1 <= d)%nat -> (n * d + i < 64)%nat ->
  pext src (2 ^ Z.of_nat i * selector_aux (S n) (Z.of_nat d)) = gather (Z.of_nat d) (S n) (src / 2 ^ Z.of_nat i).
Proof.
  intros Hd Hb. rewrite pext_pext0.
  replace 64%nat with (i + (n * d + S (63 - n * d - i)))%nat by lia.
  rewrite pext0_shift, pext0_selector by lia. reflexivity.
Qed.

(* ---- bits of spread / gather ---- *)
Lemma bit_cons_bits b a k : 0 <= k ->
  Z.testbit (Z.b2z b + 2 * a) k = if k =? 0 then b else Z.testbit a (k - 1).
Proof.
  intros Hk. rewrite Z.add_comm. destruct (k =? 0) eqn:E.
  - assert (k = 0) by lia. subst k. apply Z.testbit_0_r.
  - replace k with (Z.succ (k - 1)) at 1 by lia. apply Z.testbit_succ_r. lia.
Qed.

Lemma spread_S_bits d n x k : 1 <= d -> 0 <= k ->
  Z.testbit (spread d (S n) x) k =
  if k =? 0 then Z.odd x else Z.testbit (spread d n (Z.div2 x)) (k - d).
Proof.
  intros Hd Hk. cbn [spread].
  replace (2 ^ d * spread d n (Z.div2 x)) with (2 * (spread d n (Z.div2 x) * 2 ^ (d - 1))).
  - rewrite bit_cons_bits by lia. destruct (k =? 0) eqn:E; [reflexivity|].
    rewrite Z.mul_pow2_bits by lia. f_equal. lia.
  - replace (2 ^ d) with (2 ^ 1 * 2 ^ (d - 1)) by (rewrite <- Z.pow_add_r by lia; f_equal; lia).
    change (2 ^ 1) with 2. ring.
Qed.

Lemma spread_bits d n : 1 <= d -> forall x j r, 0 <= j -> 0 <= r < d ->
  Z.testbit (spread d n x) (j * d + r) = (r =? 0) && (j <? Z.of_nat n) && Z.testbit x j.
Proof.
  intros Hd. induction n as [|n IH]; intros x j r Hj Hr.
  - cbn [spread]. rewrite Z.testbit_0_l. destruct (r =? 0); cbn; [|reflexivity].
    change (Z.of_nat 0) with 0. replace (j <? 0) with false by lia. reflexivity.
  - rewrite spread_S_bits by nia.
    destruct (j * d + r =? 0) eqn:E.
    + assert (j = 0 /\ r = 0) as [-> ->] by nia. rewrite Z.bit0_odd. change (0 =? 0) with true.
      replace (0 <? Z.of_nat (S n)) with true by lia. reflexivity.
    + destruct (Z.eq_dec j 0) as [->|Hj0].
      * rewrite Z.testbit_neg_r by lia. replace (r =? 0) with false by lia. reflexivity.
      * replace (j * d + r - d) with ((j - 1) * d + r) by ring.
        rewrite IH by lia. rewrite Z.div2_spec, Z.shiftr_spec by lia. replace (j - 1 + 1) with j by lia.
        replace (j - 1 <? Z.of_nat n) with (j <? Z.of_nat (S n)) by lia. reflexivity.
Qed.

Lemma gather_bits d n : 1 <= d -> forall c j, 0 <= j ->
  Z.testbit (gather d n c) j = (j <? Z.of_nat n) && Z.testbit c (j * d).
Proof.
  intros Hd. induction n as [|n IH]; intros c j Hj.
  - cbn [gather]. rewrite Z.testbit_0_l. replace (j <? Z.of_nat 0) with false by lia. reflexivity.
  - cbn [gather]. rewrite bit_cons_bits by lia. destruct (j =? 0) eqn:E.
    + assert (j = 0) by lia. subst j. change (0 * d) with 0. rewrite Z.bit0_odd.
      replace (0 <? Z.of_nat (S n)) with true by lia. reflexivity.
    + rewrite IH by lia. rewrite Z.div_pow2_bits by nia.
      replace ((j - 1) * d + d) with (j * d) by ring.
      replace (j - 1 <? Z.of_nat n) with (j <? Z.of_nat (S n)) by lia. reflexivity.
Qed.

Lemma shift_spread_bits d n x i j r : 1 <= d -> 0 <= i < d -> 0 <= r < d -> 0 <= j ->
  Z.testbit (2 ^ i * spread d n x) (j * d + r) = (r =? i) && (j <? Z.of_nat n) && Z.testbit x j.
Proof.
  intros Hd Hi Hr Hj. rewrite Z.mul_comm, Z.mul_pow2_bits by lia.
  destruct (Z_le_gt_dec i r) as [Hir|Hir].
  - replace (j * d + r - i) with (j * d + (r - i)) by ring.
    rewrite spread_bits by lia. replace (r - i =? 0) with (r =? i) by lia. reflexivity.
  - replace (r =? i) with false by lia. cbn [andb].
    destruct (Z.eq_dec j 0) as [->|Hj0].
    + apply Z.testbit_neg_r. lia.
    + replace (j * d + r - i) with ((j - 1) * d + (d + r - i)) by ring.
      rewrite spread_bits by lia. replace (d + r - i =? 0) with false by lia. reflexivity.
Qed.

Lemma selector_aux_spread n d : 1 <= d -> selector_aux n d = spread d n (-1).
Proof.
  intros Hd. induction n as [|n IH]; [reflexivity|].
  rewrite selector_aux_S by lia. cbn [spread]. change (Z.div2 (-1)) with (-1).
  change (Z.odd (-1)) with true. cbn [Z.b2z]. rewrite IH. reflexivity.
Qed.

(* an integer whose bits at and above w vanish is its own residue mod 2^w *)
Lemma mod_pow2_id_bits w x : 0 <= w ->
  (forall k, w <= k -> Z.testbit x k = false) -> x mod 2 ^ w = x.
Proof.
  intros Hw H. apply Z.bits_inj'. intros k Hk.
  destruct (Z_lt_ge_dec k w) as [Hlt|Hge].
  - apply Z.mod_pow2_bits_low. lia.
  - rewrite Z.mod_pow2_bits_high by lia. symmetry. apply H. lia.
Qed.

Lemma bits_bound w x : 0 <= w -> 0 <= x ->
  (forall k, w <= k -> Z.testbit x k = false) -> x < 2 ^ w.
Proof.
  intros Hw Hx H. rewrite <- (mod_pow2_id_bits w x Hw H).
  apply Z.mod_pos_bound. apply Z.pow_pos_nonneg; lia.
Qed.

(* every k >= 0 is j*d + r *)
Lemma split_pos d k : 1 <= d -> 0 <= k -> k = (k / d) * d + k mod d /\ 0 <= k / d /\ 0 <= k mod d < d.
Proof.
  intros Hd Hk. pose proof (Z.div_mod k d ltac:(lia)). pose proof (Z.mod_pos_bound k d ltac:(lia)).
  pose proof (Z.div_pos k d Hk ltac:(lia)). split; [lia|]. split; lia.
Qed.

(* ---- configurations ---- *)
Definition wf_mcfg (m : mcfg) : Prop := 1 <= m_dims m /\ m_dims m <= m_tbits m /\ m_tbits m <= 64.
Definition valid_mcfg (m : mcfg) : Prop :=
  (m_dims m = 2 \/ m_dims m = 3 \/ m_dims m = 4) /\ (m_tbits m = 32 \/ m_tbits m = 64).
Lemma valid_wf m : valid_mcfg m -> wf_mcfg m.
Proof. unfold valid_mcfg, wf_mcfg. lia. Qed.

(* the mask of dimension i: bits i, i+D, ..., i+(F-1)D *)
Definition fmask (m : mcfg) (i : Z) : Z := 2 ^ i * spread (m_dims m) (Z.to_nat (field_bits m)) (-1).

Section Cfg.
  Variable m : mcfg.
  Hypothesis Hwf : wf_mcfg m.
  Local Notation D := (m_dims m).
  Local Notation F := (field_bits m).
  Local Notation T := (m_tbits m).

  Lemma F_pos : 1 <= F.
  Proof. unfold field_bits. destruct Hwf as (H1 & H2 & H3). apply Z.div_le_lower_bound; lia. Qed.
  Lemma DF_le_T : D * F <= T.
  Proof. unfold field_bits. destruct Hwf as (H1 & H2 & H3). apply Z.mul_div_le. lia. Qed.
  Lemma D_pos : 1 <= D.
  Proof. destruct Hwf; lia. Qed.

  Lemma shl_selector i : 0 <= i -> Z.shiftl (selector m) i = fmask m i.
  Proof.
    intros Hi. pose proof D_pos. rewrite Z.shiftl_mul_pow2 by lia. unfold selector, fmask.
    rewrite selector_aux_spread by lia. ring.
  Qed.

  Lemma fmask_bits i j r : 0 <= i < D -> 0 <= r < D -> 0 <= j ->
    Z.testbit (fmask m i) (j * D + r) = (r =? i) && (j <? F).
  Proof.
    intros Hi Hr Hj. pose proof D_pos. pose proof F_pos. unfold fmask.
    rewrite shift_spread_bits by lia. rewrite Z.bits_m1 by lia. rewrite Z2Nat.id by lia.
    rewrite andb_true_r. reflexivity.
  Qed.

  Lemma fmask_high i k : 0 <= i < D -> D * F <= k -> Z.testbit (fmask m i) k = false.
  Proof.
    intros Hi Hk. pose proof D_pos. pose proof F_pos.
    destruct (split_pos D k ltac:(lia) ltac:(nia)) as (E & Hq & Hr).
    rewrite E, fmask_bits by lia.
    assert (F <= k / D) by (apply Z.div_le_lower_bound; lia).
    replace (k / D <? F) with false by lia. apply andb_false_r.
  Qed.

  Lemma fmask_nonneg i : 0 <= i -> 0 <= fmask m i.
  Proof.
    intros Hi. rewrite <- shl_selector by lia. apply Z.shiftl_nonneg.
    apply selector_aux_nonneg. pose proof D_pos. lia.
  Qed.

  Lemma wrapT_fmask i : 0 <= i < D -> wrapT m (fmask m i) = fmask m i.
  Proof.
    intros Hi. unfold wrapT, wrapU. pose proof DF_le_T. pose proof D_pos. pose proof F_pos.
    apply mod_pow2_id_bits; [nia|]. intros k Hk. apply fmask_high; lia.
  Qed.
  Lemma wrap64_fmask i : 0 <= i < D -> wrapU 64 (fmask m i) = fmask m i.
  Proof.
    intros Hi. unfold wrapU. pose proof DF_le_T. destruct Hwf as (H1 & H2 & H3).
    apply mod_pow2_id_bits; [lia|]. intros k Hk. apply fmask_high; lia.
  Qed.

  Lemma fmask_regmask i : 0 <= i ->
    fmask m i = 2 ^ Z.of_nat (Z.to_nat i) *
                selector_aux (S (Z.to_nat F - 1)) (Z.of_nat (Z.to_nat D)).
  Proof.
    intros Hi. pose proof D_pos. pose proof F_pos. unfold fmask.
    rewrite !Z2Nat.id by lia. rewrite selector_aux_spread by lia.
    replace (S (Z.to_nat F - 1)) with (Z.to_nat F) by lia. reflexivity.
  Qed.

  Lemma regmask_fuel i : 0 <= i < D -> ((Z.to_nat F - 1) * Z.to_nat D + Z.to_nat i < 64)%nat.
  Proof.
    intros Hi. pose proof DF_le_T. pose proof F_pos. destruct Hwf as (H1 & H2 & H3).
    apply Nat2Z.inj_lt. rewrite Nat2Z.inj_add, Nat2Z.inj_mul, Nat2Z.inj_sub by lia.
    rewrite !Z2Nat.id by lia. change (Z.of_nat 64) with 64. change (Z.of_nat 1) with 1. nia.
  Qed.

  Lemma pdep_fmask src i : 0 <= i < D ->
    pdep src (fmask m i) = 2 ^ i * spread D (Z.to_nat F) src.
  Proof.
    intros Hi. pose proof D_pos. pose proof F_pos.
    rewrite fmask_regmask by lia. rewrite pdep_regmask; [|lia|apply regmask_fuel; lia].
    rewrite !Z2Nat.id by lia. replace (S (Z.to_nat F - 1)) with (Z.to_nat F) by lia. reflexivity.
  Qed.

  Lemma pext_fmask src i : 0 <= i < D ->
    pext src (fmask m i) = gather D (Z.to_nat F) (src / 2 ^ i).
  Proof.
    intros Hi. pose proof D_pos. pose proof F_pos.
    rewrite fmask_regmask by lia. rewrite pext_regmask; [|lia|apply regmask_fuel; lia].
    rewrite !Z2Nat.id by lia. replace (S (Z.to_nat F - 1)) with (Z.to_nat F) by lia. reflexivity.
  Qed.

  (* only the low F bits of a coordinate matter *)
  Lemma spread_ext d n x y : 1 <= d ->
    (forall j, 0 <= j < Z.of_nat n -> Z.testbit x j = Z.testbit y j) -> spread d n x = spread d n y.
  Proof.
    intros Hd H. apply Z.bits_inj'. intros k Hk.
    destruct (split_pos d k Hd Hk) as (E & Hq & Hr). rewrite E, !spread_bits by lia.
    destruct (k mod d =? 0); cbn [andb]; [|reflexivity].
    destruct (k / d <? Z.of_nat n) eqn:E2; cbn [andb]; [|reflexivity]. apply H. lia.
  Qed.

  Lemma spread_wrapT c : spread D (Z.to_nat F) (wrapT m c) = spread D (Z.to_nat F) c.
  Proof.
    pose proof D_pos. pose proof F_pos. pose proof DF_le_T.
    apply spread_ext; [lia|]. intros j Hj. unfold wrapT, wrapU.
    apply Z.mod_pow2_bits_low. nia.
  Qed.

  Lemma encode_aux_cons c rest i : 0 <= i < D ->
    encode_aux m (c :: rest) i = Z.lor (2 ^ i * spread D (Z.to_nat F) c) (encode_aux m rest (i + 1)).
  Proof.
    intros Hi. cbn [encode_aux]. rewrite shl_selector by lia.
    rewrite wrapT_fmask, pdep_fmask, spread_wrapT by lia. reflexivity.
  Qed.

  Lemma encode_aux_bits : forall p i0 j r, 0 <= i0 -> i0 + zlen p <= D -> 0 <= r < D -> 0 <= j ->
    Z.testbit (encode_aux m p i0) (j * D + r) =
    (i0 <=? r) && (r <? i0 + zlen p) && (j <? F) && Z.testbit (nth (Z.to_nat (r - i0)) p 0) j.
  Proof.
    pose proof D_pos as HD. pose proof F_pos as HF.
    induction p as [|c rest IH]; intros i0 j r Hi0 Hlen Hr Hj.
    - cbn [encode_aux]. rewrite Z.testbit_0_l. unfold zlen; cbn [length].
      replace (r <? i0 + Z.of_nat 0) with (r <? i0) by lia.
      destruct (i0 <=? r) eqn:E1; destruct (r <? i0) eqn:E2; try reflexivity; lia.
    - unfold zlen in Hlen; cbn [length] in Hlen.
      rewrite encode_aux_cons by lia. rewrite Z.lor_spec, shift_spread_bits by lia.
      rewrite IH by (unfold zlen; lia). rewrite Z2Nat.id by lia.
      unfold zlen; cbn [length].
      destruct (Z.eq_dec r i0) as [->|Hne].
      + replace (i0 - i0) with 0 by lia. cbn [Z.to_nat nth].
        replace (i0 =? i0) with true by lia. replace (i0 + 1 <=? i0) with false by lia.
        replace (i0 <=? i0) with true by lia. replace (i0 <? i0 + Z.of_nat (S (length rest))) with true by lia.
        cbn [andb]. rewrite orb_false_r. reflexivity.
      + replace (r =? i0) with false by lia. cbn [andb orb].
        destruct (i0 + 1 <=? r) eqn:E1.
        * replace (i0 <=? r) with true by lia.
          replace (Z.to_nat (r - i0)) with (S (Z.to_nat (r - (i0 + 1)))) by lia. cbn [nth].
          replace (r <? i0 + 1 + Z.of_nat (length rest)) with (r <? i0 + Z.of_nat (S (length rest))) by lia.
          reflexivity.
        * replace (i0 <=? r) with false by lia. reflexivity.
  Qed.

  Lemma encode_bits p j r : zlen p = D -> 0 <= r < D -> 0 <= j ->
    Z.testbit (encode m p) (j * D + r) = (j <? F) && Z.testbit (nth (Z.to_nat r) p 0) j.
  Proof.
    intros Hl Hr Hj. unfold encode. rewrite encode_aux_bits by lia.
    replace (0 <=? r) with true by lia. replace (r <? 0 + zlen p) with true by lia.
    rewrite Z.sub_0_r. reflexivity.
  Qed.

  Lemma encode_high p k : zlen p = D -> D * F <= k -> Z.testbit (encode m p) k = false.
  Proof.
    intros Hl Hk. pose proof D_pos. pose proof F_pos.
    destruct (split_pos D k ltac:(lia) ltac:(nia)) as (E & Hq & Hr).
    rewrite E, encode_bits by lia.
    assert (F <= k / D) by (apply Z.div_le_lower_bound; lia).
    replace (k / D <? F) with false by lia. reflexivity.
  Qed.

  Lemma spread_nonneg d n : 0 <= d -> forall x, 0 <= spread d n x.
  Proof.
    intros Hd. induction n as [|n IH]; intros x; cbn [spread]; [lia|].
    specialize (IH (Z.div2 x)). assert (0 <= 2 ^ d) by (apply Z.pow_nonneg; lia).
    destruct (Z.odd x); cbn [Z.b2z]; nia.
  Qed.

  Lemma encode_aux_nonneg p : forall i, 0 <= i -> i + zlen p <= D -> 0 <= encode_aux m p i.
  Proof.
    pose proof D_pos. induction p as [|c rest IH]; intros i Hi Hl; [cbn; lia|].
    unfold zlen in Hl; cbn [length] in Hl.
    rewrite encode_aux_cons by lia. apply Z.lor_nonneg. split.
    - apply Z.mul_nonneg_nonneg; [apply Z.pow_nonneg; lia|apply spread_nonneg; lia].
    - apply IH; unfold zlen; lia.
  Qed.

  Lemma encode_range p : zlen p = D -> 0 <= encode m p < 2 ^ (D * F).
  Proof.
    intros Hl. pose proof D_pos. pose proof F_pos.
    assert (0 <= encode m p) by (apply encode_aux_nonneg; lia).
    split; [assumption|]. apply bits_bound; [nia|assumption|].
    intros k Hk. apply encode_high; assumption.
  Qed.

  Lemma zseq_length s n : length (zseq s n) = n.
  Proof. revert s. induction n as [|n IH]; intros s; cbn [zseq length]; [reflexivity|]. rewrite IH. reflexivity. Qed.

  Lemma map_zseq_nth {A} (f : Z -> A) d : forall n s k, (k < n)%nat ->
    nth k (map f (zseq s n)) d = f (s + Z.of_nat k).
  Proof.
    induction n as [|n IH]; intros s k Hk; [lia|].
    cbn [zseq map]. destruct k as [|k]; cbn [nth].
    - f_equal. lia.
    - rewrite IH by lia. f_equal. lia.
  Qed.

  Lemma in_zseq n : forall s x, In x (zseq s n) <-> s <= x < s + Z.of_nat n.
  Proof.
    induction n as [|n IH]; intros s x; cbn [zseq In]; [lia|].
    rewrite IH. lia.
  Qed.

  Lemma decode_length c : length (decode m c) = Z.to_nat D.
  Proof. unfold decode. rewrite map_length, zseq_length. reflexivity. Qed.

  Lemma decode_nth c i : 0 <= i < D ->
    nth (Z.to_nat i) (decode m c) 0 = gather D (Z.to_nat F) (c / 2 ^ i).
  Proof.
    intros Hi. unfold decode. rewrite map_zseq_nth by lia.
    rewrite Z2Nat.id by lia. cbn [Z.add]. rewrite shl_selector, wrapT_fmask, pext_fmask by lia.
    reflexivity.
  Qed.

  Lemma decode_nth_bits c i j : 0 <= i < D -> 0 <= j ->
    Z.testbit (nth (Z.to_nat i) (decode m c) 0) j = (j <? F) && Z.testbit c (j * D + i).
  Proof.
    intros Hi Hj. pose proof D_pos. pose proof F_pos.
    rewrite decode_nth by lia. rewrite gather_bits by lia.
    rewrite Z2Nat.id by lia. rewrite Z.div_pow2_bits by nia. reflexivity.
  Qed.

  Lemma small_bits_high w x j : 0 <= w -> 0 <= x < 2 ^ w -> w <= j -> Z.testbit x j = false.
  Proof. intros Hw Hx Hj. rewrite <- (Z.mod_small x (2 ^ w)) by lia. apply Z.mod_pow2_bits_high. lia. Qed.

  Definition coords_ok (w : Z) (p : list Z) : Prop := Forall (fun x => 0 <= x < 2 ^ w) p.

  Lemma coords_ok_nth w p i : coords_ok w p -> 0 <= i < zlen p -> 0 <= nth (Z.to_nat i) p 0 < 2 ^ w.
  Proof.
    intros Hp Hi. unfold coords_ok in Hp. rewrite Forall_forall in Hp. apply Hp.
    apply nth_In. unfold zlen in Hi. lia.
  Qed.

  Theorem decode_encode_wf p : zlen p = D -> coords_ok F p -> decode m (encode m p) = p.
  Proof.
    intros Hl Hp. pose proof D_pos. pose proof F_pos.
    apply (nth_ext _ _ 0 0).
    - rewrite decode_length. unfold zlen in Hl. lia.
    - intros n Hn. rewrite decode_length in Hn.
      replace n with (Z.to_nat (Z.of_nat n)) by lia. set (i := Z.of_nat n).
      assert (Hi : 0 <= i < D) by lia.
      apply Z.bits_inj'. intros j Hj.
      rewrite decode_nth_bits, encode_bits by lia.
      destruct (j <? F) eqn:E; cbn [andb]; [reflexivity|].
      symmetry. apply (small_bits_high F); [lia| |lia].
      apply coords_ok_nth; [assumption|lia].
  Qed.

  Theorem encode_decode_wf c : 0 <= c < 2 ^ (D * F) -> encode m (decode m c) = c.
  Proof.
    intros Hc. pose proof D_pos. pose proof F_pos.
    assert (Hl : zlen (decode m c) = D) by (unfold zlen; rewrite decode_length; lia).
    apply Z.bits_inj'. intros k Hk.
    destruct (split_pos D k ltac:(lia) Hk) as (E & Hq & Hr).
    rewrite E at 1. rewrite encode_bits, decode_nth_bits by lia. rewrite <- E.
    destruct (k / D <? F) eqn:E2; cbn [andb]; [reflexivity|].
    symmetry. apply (small_bits_high (D * F)); [nia|lia|nia].
  Qed.

  Theorem encode_injective_wf p q : zlen p = D -> zlen q = D -> coords_ok F p -> coords_ok F q ->
    encode m p = encode m q -> p = q.
  Proof.
    intros Hp Hq Cp Cq E. rewrite <- (decode_encode_wf p Hp Cp), <- (decode_encode_wf q Hq Cq), E.
    reflexivity.
  Qed.

  (* spread is strictly monotone on n-bit values: the heart of the masked comparison *)
  Lemma spread_lt d n : 1 <= d -> forall x y, 0 <= x < 2 ^ Z.of_nat n -> 0 <= y < 2 ^ Z.of_nat n ->
    x < y -> spread d n x < spread d n y.
  Proof.
    intros Hd. induction n as [|n IH]; intros x y Hx Hy Hxy.
    - change (2 ^ Z.of_nat 0) with 1 in *. lia.
    - rewrite pow2_S in Hx, Hy. cbn [spread].
      pose proof (Z.div2_odd x) as Ex. pose proof (Z.div2_odd y) as Ey.
      assert (Hbx : 0 <= Z.b2z (Z.odd x) <= 1) by (destruct (Z.odd x); cbn; lia).
      assert (Hby : 0 <= Z.b2z (Z.odd y) <= 1) by (destruct (Z.odd y); cbn; lia).
      assert (Hp : 2 <= 2 ^ d).
      { change 2 with (2 ^ 1) at 1. apply Z.pow_le_mono_r; lia. }
      pose proof (spread_nonneg d n ltac:(lia) (Z.div2 x)) as Nx.
      destruct (Z_lt_ge_dec (Z.div2 x) (Z.div2 y)) as [Hlt|Hge].
      + specialize (IH (Z.div2 x) (Z.div2 y) ltac:(lia) ltac:(lia) Hlt). nia.
      + assert (Z.div2 x = Z.div2 y) by lia. rewrite H. lia.
  Qed.

  Lemma spread_le_iff d n x y : 1 <= d -> 0 <= x < 2 ^ Z.of_nat n -> 0 <= y < 2 ^ Z.of_nat n ->
    (spread d n x <= spread d n y <-> x <= y).
  Proof.
    intros Hd Hx Hy. split; intros H.
    - destruct (Z_le_gt_dec x y) as [|Hgt]; [assumption|].
      pose proof (spread_lt d n Hd y x Hy Hx ltac:(lia)). lia.
    - destruct (Z.eq_dec x y) as [->|Hne]; [lia|].
      pose proof (spread_lt d n Hd x y Hx Hy ltac:(lia)). lia.
  Qed.

  Lemma gather_range d n : forall c, 0 <= gather d n c < 2 ^ Z.of_nat n.
  Proof.
    induction n as [|n IH]; intros c; cbn [gather].
    - change (2 ^ Z.of_nat 0) with 1. lia.
    - rewrite pow2_S. specialize (IH (c / 2 ^ d)). destruct (Z.odd c); cbn [Z.b2z]; lia.
  Qed.

  Lemma decode_nth_range c i : 0 <= i < D -> 0 <= nth (Z.to_nat i) (decode m c) 0 < 2 ^ F.
  Proof.
    intros Hi. pose proof F_pos as HF. rewrite decode_nth by lia.
    pose proof (gather_range D (Z.to_nat F) (c / 2 ^ i)) as H. rewrite Z2Nat.id in H by lia. exact H.
  Qed.

  (* masking any code with the mask of dimension i isolates the spread i-th decoded coordinate *)
  Lemma land_fmask c i : 0 <= i < D ->
    Z.land c (fmask m i) = 2 ^ i * spread D (Z.to_nat F) (nth (Z.to_nat i) (decode m c) 0).
  Proof.
    intros Hi. pose proof D_pos. pose proof F_pos.
    apply Z.bits_inj'. intros k Hk.
    destruct (split_pos D k ltac:(lia) Hk) as (E & Hq & Hr).
    rewrite E. rewrite Z.land_spec, fmask_bits, shift_spread_bits by lia.
    rewrite Z2Nat.id by lia. rewrite decode_nth_bits by lia.
    destruct (Z.eq_dec (k mod D) i) as [Er|Hne].
    - rewrite Er. replace (i =? i) with true by lia. cbn [andb].
      destruct (k / D <? F); cbn [andb]; [apply andb_true_r|apply andb_false_r].
    - replace (k mod D =? i) with false by lia. cbn [andb]. apply andb_false_r.
  Qed.

  Lemma masked_le a b i : 0 <= i < D ->
    (Z.land a (fmask m i) <=? Z.land b (fmask m i)) =
    (nth (Z.to_nat i) (decode m a) 0 <=? nth (Z.to_nat i) (decode m b) 0).
  Proof.
    intros Hi. pose proof D_pos. pose proof F_pos as HF.
    rewrite !land_fmask by lia.
    pose proof (decode_nth_range a i Hi) as Ra. pose proof (decode_nth_range b i Hi) as Rb.
    set (x := nth (Z.to_nat i) (decode m a) 0) in *. set (y := nth (Z.to_nat i) (decode m b) 0) in *.
    assert (Hp : 0 < 2 ^ i) by (apply Z.pow_pos_nonneg; lia).
    pose proof (spread_le_iff D (Z.to_nat F) x y ltac:(lia)) as Hiff.
    rewrite Z2Nat.id in Hiff by lia. specialize (Hiff Ra Rb).
    destruct (x <=? y) eqn:E.
    - apply Z.leb_le. apply Z.mul_le_mono_nonneg_l; [lia|]. apply Hiff. lia.
    - apply Z.leb_gt. apply Z.mul_lt_mono_pos_l; [lia|].
      destruct (Z_le_gt_dec (spread D (Z.to_nat F) x) (spread D (Z.to_nat F) y)) as [Hle|]; [|lia].
      apply Hiff in Hle. lia.
  Qed.

  (* the box test on arbitrary codes = coordinate-wise comparison of the decoded points *)
  Theorem box_zcontains_decode zmin zmax c :
    box_zcontains m zmin zmax c = true <->
    (forall i, 0 <= i < D ->
       nth (Z.to_nat i) (decode m zmin) 0 <= nth (Z.to_nat i) (decode m c) 0 <= nth (Z.to_nat i) (decode m zmax) 0).
  Proof.
    pose proof D_pos. unfold box_zcontains. rewrite forallb_forall. split.
    - intros Hb i Hi. specialize (Hb i). rewrite in_zseq in Hb. specialize (Hb ltac:(lia)).
      cbv zeta in Hb. rewrite shl_selector, wrap64_fmask, !masked_le in Hb by lia. lia.
    - intros Hc i Hi. rewrite in_zseq in Hi. specialize (Hc i ltac:(lia)).
      cbv zeta. rewrite shl_selector, wrap64_fmask, !masked_le by lia. lia.
  Qed.

  (* additive form of the code, and monotonicity in every coordinate *)
  Lemma lor_disjoint_add a b : Z.land a b = 0 -> Z.lor a b = a + b.
  Proof. intros H. rewrite (Z.add_nocarry_lxor a b H). symmetry. apply Z.lxor_lor. exact H. Qed.

  Lemma encode_aux_cons_add c rest i : 0 <= i -> i + zlen (c :: rest) <= D ->
    encode_aux m (c :: rest) i = 2 ^ i * spread D (Z.to_nat F) c + encode_aux m rest (i + 1).
  Proof.
    intros Hi Hl. pose proof D_pos. pose proof F_pos.
    unfold zlen in Hl; cbn [length] in Hl.
    rewrite encode_aux_cons by lia. apply lor_disjoint_add.
    apply Z.bits_inj'. intros k Hk. rewrite Z.bits_0.
    destruct (split_pos D k ltac:(lia) Hk) as (E & Hq & Hr).
    rewrite E, Z.land_spec, shift_spread_bits, encode_aux_bits by (unfold zlen; lia).
    destruct (k mod D =? i) eqn:E1; cbn [andb]; [|reflexivity].
    replace (i + 1 <=? k mod D) with false by lia. cbn [andb]. apply andb_false_r.
  Qed.

  Lemma F2_length {A B} (R : A -> B -> Prop) l1 l2 : Forall2 R l1 l2 -> length l1 = length l2.
  Proof. intros H. induction H; cbn [length]; congruence. Qed.

  Lemma encode_aux_mono : forall p q i, 0 <= i -> i + zlen p <= D ->
    Forall2 (fun x y => 0 <= x < 2 ^ F /\ 0 <= y < 2 ^ F /\ x <= y) p q ->
    encode_aux m p i <= encode_aux m q i.
  Proof.
    pose proof D_pos. pose proof F_pos as HF.
    intros p q i Hi Hl H2. revert i Hi Hl.
    induction H2 as [|x y p q (Hx & Hy & Hxy) H2 IH]; intros i Hi Hl; [cbn; lia|].
    pose proof (F2_length _ _ _ H2) as El.
    rewrite !encode_aux_cons_add by (unfold zlen in *; cbn [length] in *; lia).
    unfold zlen in Hl; cbn [length] in Hl.
    specialize (IH (i + 1) ltac:(lia) ltac:(unfold zlen; lia)).
    pose proof (spread_le_iff D (Z.to_nat F) x y ltac:(lia)) as Hiff.
    rewrite Z2Nat.id in Hiff by lia. specialize (Hiff Hx Hy).
    assert (Hp : 0 < 2 ^ i) by (apply Z.pow_pos_nonneg; lia).
    assert (spread D (Z.to_nat F) x <= spread D (Z.to_nat F) y) by (apply Hiff; lia).
    nia.
  Qed.

  Lemma Forall2_nth_intro (R : Z -> Z -> Prop) : forall p q, length p = length q ->
    (forall k, (k < length p)%nat -> R (nth k p 0) (nth k q 0)) -> Forall2 R p q.
  Proof.
    induction p as [|x p IH]; intros q Hl H; destruct q as [|y q]; cbn [length] in Hl; try lia.
    - constructor.
    - constructor.
      + apply (H O). cbn [length]. lia.
      + apply IH; [lia|]. intros k Hk. apply (H (S k)). cbn [length]. lia.
  Qed.

  Lemma Forall2_nth_elim (R : Z -> Z -> Prop) p q : Forall2 R p q ->
    forall k, (k < length p)%nat -> R (nth k p 0) (nth k q 0).
  Proof.
    intros H. induction H as [|x y p q Hxy H IH]; intros k Hk; cbn [length] in Hk; [lia|].
    destruct k as [|k]; cbn [nth]; [assumption|]. apply IH. lia.
  Qed.

  Theorem code_le_of_coords a b : 0 <= a < 2 ^ (D * F) -> 0 <= b < 2 ^ (D * F) ->
    (forall i, 0 <= i < D -> nth (Z.to_nat i) (decode m a) 0 <= nth (Z.to_nat i) (decode m b) 0) ->
    a <= b.
  Proof.
    intros Ha Hb H. pose proof D_pos.
    rewrite <- (encode_decode_wf a Ha), <- (encode_decode_wf b Hb). unfold encode.
    apply encode_aux_mono; [lia|unfold zlen; rewrite decode_length; lia|].
    apply Forall2_nth_intro; [rewrite !decode_length; reflexivity|].
    intros k Hk. rewrite decode_length in Hk.
    replace k with (Z.to_nat (Z.of_nat k)) by lia.
    pose proof (decode_nth_range a (Z.of_nat k) ltac:(lia)).
    pose proof (decode_nth_range b (Z.of_nat k) ltac:(lia)).
    specialize (H (Z.of_nat k) ltac:(lia)). lia.
  Qed.

  (* a code inside the box lies between the corner codes (the Z-order property the iterator uses) *)
  Theorem box_zcontains_bounds zmin zmax c :
    0 <= zmin < 2 ^ (D * F) -> 0 <= zmax < 2 ^ (D * F) -> 0 <= c < 2 ^ (D * F) ->
    box_zcontains m zmin zmax c = true -> zmin <= c <= zmax.
  Proof.
    intros H1 H2 H3 Hb. rewrite box_zcontains_decode in Hb.
    split; apply code_le_of_coords; try assumption; intros i Hi; specialize (Hb i Hi); lia.
  Qed.

  Theorem box_zcontains_spec_wf lo hi p :
    zlen lo = D -> zlen hi = D -> zlen p = D -> coords_ok F lo -> coords_ok F hi -> coords_ok F p ->
    (box_zcontains m (encode m lo) (encode m hi) (encode m p) = true <->
     Forall2 Z.le lo p /\ Forall2 Z.le p hi).
  Proof.
    intros Ll Lh Lp Cl Ch Cp. rewrite box_zcontains_decode.
    rewrite !decode_encode_wf by assumption. unfold zlen in *. split.
    - intros H. split; (apply Forall2_nth_intro; [lia|]); intros k Hk;
        specialize (H (Z.of_nat k) ltac:(lia)); rewrite Nat2Z.id in H; lia.
    - intros [H1 H2] i Hi.
      pose proof (Forall2_nth_elim _ _ _ H1 (Z.to_nat i) ltac:(lia)).
      pose proof (Forall2_nth_elim _ _ _ H2 (Z.to_nat i) ltac:(lia)). lia.
  Qed.
End Cfg.

(* ---- the deliverable statements, for the configurations the C++ allows ---- *)
Theorem decode_encode m p : valid_mcfg m -> zlen p = m_dims m ->
  Forall (fun x => 0 <= x < 2 ^ field_bits m) p -> decode m (encode m p) = p.
Proof. intros Hv Hl Hp. apply decode_encode_wf; [apply valid_wf; assumption|assumption|exact Hp]. Qed.

Theorem encode_decode m c : valid_mcfg m -> 0 <= c < 2 ^ (m_dims m * field_bits m) ->
  encode m (decode m c) = c.
Proof. intros Hv Hc. apply encode_decode_wf; [apply valid_wf; assumption|assumption]. Qed.

Theorem encode_injective m p q : valid_mcfg m -> zlen p = m_dims m -> zlen q = m_dims m ->
  Forall (fun x => 0 <= x < 2 ^ field_bits m) p -> Forall (fun x => 0 <= x < 2 ^ field_bits m) q ->
  encode m p = encode m q -> p = q.
Proof. intros Hv. apply encode_injective_wf. apply valid_wf; assumption. Qed.

Theorem box_zcontains_spec m lo hi p : valid_mcfg m ->
  zlen lo = m_dims m -> zlen hi = m_dims m -> zlen p = m_dims m ->
  Forall (fun x => 0 <= x < 2 ^ field_bits m) lo -> Forall (fun x => 0 <= x < 2 ^ field_bits m) hi ->
  Forall (fun x => 0 <= x < 2 ^ field_bits m) p ->
  (box_zcontains m (encode m lo) (encode m hi) (encode m p) = true <->
   Forall2 Z.le lo p /\ Forall2 Z.le p hi).
Proof. intros Hv. apply box_zcontains_spec_wf. apply valid_wf; assumption. Qed.

Print Assumptions decode_encode.
Print Assumptions encode_decode.
Print Assumptions encode_injective.
Print Assumptions box_zcontains_spec.
Print Assumptions box_zcontains_bounds.

(* CmpStructFp1.v — generic helpers for CmpStructFp.v: the x87 operations as monotone roundings of real numbers,
   std::round(long double) bounded above, conversion to the Floating type. *)
From Coq Require Import ZArith Reals Lra Lia Bool List.
From Flocq Require Import Core Relative BinarySingleNaN.
Require Import Base Fp PlaModel GenLeaf IndexModel IndexProofs IdxBlock FloatOkLemmas FloatOk CompressedModel CmpCertDefs CmpStructDefs.
Local Open Scope Z_scope.

Notation R80 := (RN 64 16384).

Lemma R80_le x y : (x <= y)%R -> (R80 x <= R80 y)%R.
Proof.
  intros H. unfold RN, ffexp. apply round_le; auto with typeclass_instances.
  apply FLT_exp_valid. exact p64.
Qed.

Lemma R80_opp x : R80 (- x) = (- R80 x)%R.
Proof. unfold RN. apply round_NE_opp. Qed.

Lemma R80_0 : R80 0 = 0%R.
Proof. unfold RN. apply round_0; auto with typeclass_instances. Qed.

Lemma R80_IZR z : Z.abs z <= 2 ^ 64 -> R80 (IZR z) = IZR z.
Proof. intros H. apply RN_int; [exact p64|unfold femin; lia|exact H]. Qed.

Lemma R80_1 : R80 1 = 1%R.
Proof. apply (R80_IZR 1). lia. Qed.

Lemma R80_abs_le k x : -16445 <= k -> (Rabs x <= bpow radix2 k)%R -> (Rabs (R80 x) <= bpow radix2 k)%R.
Proof. intros Hk. apply (RN_abs_le 64 16384 p64). unfold femin. lia. Qed.

Lemma R80_B2R (x : f80) : R80 (B2R x) = B2R x.
Proof. unfold RN. apply round_generic; auto with typeclass_instances. apply generic_format_B2R. Qed.

(* rounding stays inside an interval whose ends are representable *)
Lemma R80_between lo hi x : R80 lo = lo -> R80 hi = hi -> (lo <= x <= hi)%R -> (lo <= R80 x <= hi)%R.
Proof.
  intros A B [H1 H2]. split.
  - rewrite <- A. now apply R80_le.
  - rewrite <- B. now apply R80_le.
Qed.

Lemma Rabs_le_between a b x : (a <= x <= b)%R -> (Rabs x <= Rmax (Rabs a) (Rabs b))%R.
Proof.
  intros [H1 H2]. unfold Rmax. destruct (Rle_dec (Rabs a) (Rabs b)) as [L|L]; revert L;
    unfold Rabs; repeat destruct Rcase_abs; intros; lra.
Qed.

(* ---------- the four operations ---------- *)
Lemma mul80_R x y k : is_finite x = true -> is_finite y = true -> -16445 <= k < 16384 ->
  (Rabs (B2R x * B2R y) <= bpow radix2 k)%R ->
  is_finite (mul80 x y) = true /\ B2R (mul80 x y) = R80 (B2R x * B2R y).
Proof.
  intros Fx Fy Hk Hb.
  pose proof (R80_abs_le k _ ltac:(lia) Hb) as R1.
  generalize (Bmult_correct 64 16384 p64 e64 mode_NE x y).
  change (round radix2 (SpecFloat.fexp 64 16384) (round_mode mode_NE)) with R80.
  rewrite Rlt_bool_true by (eapply Rle_lt_trans; [exact R1|apply bpow_lt; lia]).
  fold (mul80 x y). intros (A & B & _). rewrite B, Fx, Fy. now split.
Qed.

Lemma add80_R x y k : is_finite x = true -> is_finite y = true -> -16445 <= k < 16384 ->
  (Rabs (B2R x + B2R y) <= bpow radix2 k)%R ->
  is_finite (add80 x y) = true /\ B2R (add80 x y) = R80 (B2R x + B2R y).
Proof.
  intros Fx Fy Hk Hb.
  pose proof (R80_abs_le k _ ltac:(lia) Hb) as R1.
  generalize (Bplus_correct 64 16384 p64 e64 mode_NE x y Fx Fy).
  change (round radix2 (SpecFloat.fexp 64 16384) (round_mode mode_NE)) with R80.
  rewrite Rlt_bool_true by (eapply Rle_lt_trans; [exact R1|apply bpow_lt; lia]).
  fold (add80 x y). intros (A & B & _). now split.
Qed.

Lemma sub80_R x y k : is_finite x = true -> is_finite y = true -> -16445 <= k < 16384 ->
  (Rabs (B2R x - B2R y) <= bpow radix2 k)%R ->
  is_finite (sub80 x y) = true /\ B2R (sub80 x y) = R80 (B2R x - B2R y).
Proof.
  intros Fx Fy Hk Hb.
  pose proof (R80_abs_le k _ ltac:(lia) Hb) as R1.
  generalize (Bminus_correct 64 16384 p64 e64 mode_NE x y Fx Fy).
  change (round radix2 (SpecFloat.fexp 64 16384) (round_mode mode_NE)) with R80.
  rewrite Rlt_bool_true by (eapply Rle_lt_trans; [exact R1|apply bpow_lt; lia]).
  fold (sub80 x y). intros (A & B & _). now split.
Qed.

Lemma div80_R x y k : is_finite x = true -> B2R y <> 0%R -> -16445 <= k < 16384 ->
  (Rabs (B2R x / B2R y) <= bpow radix2 k)%R ->
  is_finite (div80 x y) = true /\ B2R (div80 x y) = R80 (B2R x / B2R y).
Proof.
  intros Fx NZ Hk Hb.
  pose proof (R80_abs_le k _ ltac:(lia) Hb) as R1.
  generalize (Bdiv_correct 64 16384 p64 e64 mode_NE x y NZ).
  change (round radix2 (SpecFloat.fexp 64 16384) (round_mode mode_NE)) with R80.
  rewrite Rlt_bool_true by (eapply Rle_lt_trans; [exact R1|apply bpow_lt; lia]).
  fold (div80 x y). intros (A & B & _). rewrite B, Fx. now split.
Qed.

Lemma R80_sum_nonneg a b : (0 <= a + b)%R -> (0 <= R80 a + R80 b)%R.
Proof.
  intros H. assert (L : (R80 (- a) <= R80 b)%R) by (apply R80_le; lra).
  rewrite R80_opp in L. lra.
Qed.

Lemma R80_ge_0 x : (0 <= x)%R -> (0 <= R80 x)%R.
Proof. apply (RN_ge_0 64 16384 p64). Qed.

Lemma R80_bpow k : -16445 <= k -> R80 (bpow radix2 k) = bpow radix2 k.
Proof.
  intros Hk. unfold RN, ffexp. apply round_generic; auto with typeclass_instances.
  apply generic_format_FLT_bpow; [exact p64|unfold femin; lia].
Qed.

(* integers up to 2^k, k < 16384: correctly rounded *)
Lemma ofZ80_R z k : 0 <= k < 16384 -> Z.abs z <= 2 ^ k ->
  is_finite (ofZ80 z) = true /\ B2R (ofZ80 z) = R80 (IZR z).
Proof.
  intros Hk Hz. unfold ofZ80.
  destruct (ofZ_R 64 16384 p64 e64 z false) as [A B]; [|now split].
  eapply Rle_lt_trans; [apply (R80_abs_le k); [lia|]|apply bpow_lt; lia].
  rewrite <- abs_IZR, <- IZR_pow2 by lia. apply IZR_le. exact Hz.
Qed.

Lemma half80_R : is_finite half80 = true /\ B2R half80 = (/ 2)%R.
Proof.
  destruct (ofZ80_exact 1 ltac:(lia)) as [E1 F1]. destruct (ofZ80_exact 2 ltac:(lia)) as [E2 F2].
  assert (V : (B2R (ofZ80 1) / B2R (ofZ80 2) = bpow radix2 (-1))%R).
  { rewrite E1, E2. change (bpow radix2 (-1)) with (/ 2)%R. lra. }
  destruct (div80_R (ofZ80 1) (ofZ80 2) (-1)) as [A B]; auto; try lia.
  - rewrite E2. lra.
  - rewrite V. rewrite Rabs_pos_eq; [lra|apply bpow_ge_0].
  - fold half80 in A, B. split; [exact A|]. rewrite B, V, R80_bpow by lia. reflexivity.
Qed.

Lemma nonneg_finite_of_R {p e} (x : binary_float p e) :
  is_finite x = true -> (0 <= B2R x)%R -> nonneg_finite x = true.
Proof.
  destruct x as [s|s| |s m ex Hb]; try discriminate; intros _ H; [reflexivity|].
  destruct s; [|reflexivity]. exfalso. unfold B2R in H. cbn [cond_Zopp] in H.
  assert (F2R (Float radix2 (Z.opp (Z.pos m)) ex) < 0)%R by (apply F2R_lt_0; cbn; lia). lra.
Qed.

(* ---------- the quotient (long double)dy / (long double)dx, dy of either sign ---------- *)
Lemma slope_ld_R dx dy : 0 < dx < 2 ^ 64 -> - 2 ^ 64 < dy < 2 ^ 64 ->
  is_finite (slope_ld (dx, dy)) = true /\ B2R (slope_ld (dx, dy)) = R80 (IZR dy / IZR dx)
  /\ (Rabs (B2R (slope_ld (dx, dy))) <= bpow radix2 64)%R.
Proof.
  intros Hdx Hdy. unfold slope_ld. cbn [fst snd].
  destruct (ofZ80_exact dx ltac:(lia)) as [EX FX]. destruct (ofZ80_exact dy ltac:(lia)) as [EY FY].
  assert (HX : (1 <= IZR dx)%R) by (apply IZR_le; lia).
  assert (HY : (Rabs (IZR dy) <= bpow radix2 64)%R).
  { rewrite <- abs_IZR, <- IZR_pow2 by lia. apply IZR_le. lia. }
  assert (Q : (Rabs (IZR dy / IZR dx) <= bpow radix2 64)%R).
  { unfold Rdiv. rewrite Rabs_mult. rewrite (Rabs_pos_eq (/ IZR dx)) by (left; apply Rinv_0_lt_compat; lra).
    pose proof (Rabs_pos (IZR dy)).
    assert (/ IZR dx <= 1)%R by (rewrite <- Rinv_1; apply Rinv_le_contravar; lra).
    assert (0 < / IZR dx)%R by (apply Rinv_0_lt_compat; lra). nra. }
  destruct (div80_R (ofZ80 dy) (ofZ80 dx) 64) as [A B]; auto; try lia.
  - rewrite EX. lra.
  - rewrite EX, EY. exact Q.
  - split; [exact A|]. rewrite B, EX, EY. split; [reflexivity|]. apply R80_abs_le; [lia|exact Q].
Qed.

(* ---------- conversion to the Floating type ---------- *)
Lemma tbl_ok_zero c : tbl_ok c f64_zero.
Proof.
  unfold tbl_ok, f64_zero. split; [reflexivity|]. split.
  - cbn [B2R]. split; [lra|apply bpow_ge_0].
  - unfold slope_ok. destruct (c_fdouble c); reflexivity.
Qed.

Lemma to_floating_ok c (x : f80) : is_finite x = true -> (0 <= B2R x <= bpow radix2 65)%R ->
  tbl_ok c (to_floating c x).
Proof.
  intros Fx [X0 X1]. assert (AX : (Rabs (B2R x) <= bpow radix2 65)%R) by (rewrite Rabs_pos_eq; lra).
  unfold tbl_ok, to_floating, slope_ok. destruct (c_fdouble c).
  - assert (R1 : (Rabs (RN 53 1024 (B2R x)) <= bpow radix2 65)%R)
      by (apply (RN_abs_le 53 1024 p53); [unfold femin; lia|exact AX]).
    destruct (conv_R 53 1024 p53 e53 x Fx) as [A B].
    { eapply Rle_lt_trans; [exact R1|apply bpow_lt; lia]. }
    fold (f80_to_f64 x) in A, B.
    assert (P : (0 <= B2R (f80_to_f64 x))%R) by (rewrite A; apply (RN_ge_0 53 1024 p53); exact X0).
    split; [exact B|]. split.
    + split; [exact P|]. rewrite A. eapply Rle_trans; [apply Rle_abs|exact R1].
    + now apply nonneg_finite_of_R.
  - assert (R1 : (Rabs (RN 24 128 (B2R x)) <= bpow radix2 65)%R)
      by (apply (RN_abs_le 24 128 p24); [unfold femin; lia|exact AX]).
    destruct (conv_R 24 128 p24 e24 x Fx) as [A B].
    { eapply Rle_lt_trans; [exact R1|apply bpow_lt; lia]. }
    fold (f80_to_f32 x) in A, B. set (y := f80_to_f32 x) in *.
    assert (P : (0 <= B2R y)%R) by (rewrite A; apply (RN_ge_0 24 128 p24); exact X0).
    assert (AY : (Rabs (B2R y) <= bpow radix2 65)%R) by (rewrite A; exact R1).
    destruct (conv_exact y 53 1024 p53 e53 65) as [A2 B2]; try lia; auto.
    fold (f32_to_f64 y) in A2, B2. set (s := f32_to_f64 y) in *.
    split; [exact B2|]. split.
    + rewrite A2. split; [exact P|]. eapply Rle_trans; [apply Rle_abs|exact AY].
    + assert (G : RN 24 128 (B2R s) = B2R y).
      { rewrite A2. unfold RN, ffexp. apply round_generic; auto with typeclass_instances.
        apply (generic_format_B2R 24 128 y). }
      destruct (conv_R 24 128 p24 e24 s B2) as [A3 B3].
      { rewrite G. eapply Rle_lt_trans; [exact AY|apply bpow_lt; lia]. }
      fold (f64_to_f32 s) in A3, B3. apply nonneg_finite_of_R; [exact B3|]. rewrite A3, G. exact P.
Qed.

Theorem root_slope_ok c dx dy : 0 < dx < 2 ^ 64 -> 0 <= dy < 2 ^ 64 ->
  tbl_ok c (to_floating c (slope_ld (dx, dy))).
Proof.
  intros Hdx Hdy. destruct (slope_ld_R dx dy Hdx ltac:(lia)) as (F & V & Bd).
  apply to_floating_ok; [exact F|]. split.
  - rewrite V. apply R80_ge_0. apply Rmult_le_pos; [apply IZR_le; lia|].
    left. apply Rinv_0_lt_compat. apply IZR_lt. lia.
  - eapply Rle_trans; [apply Rle_abs|]. eapply Rle_trans; [exact Bd|]. apply bpow_le. lia.
Qed.

(* ---------- std::round(long double) of a value bounded above by an integer ---------- *)
Lemma round_away_arith m P Y : 0 < P -> 0 <= Y -> 0 <= m -> m <= Y * P ->
  let q := m / P in let r := m - q * P in
  (if 2 * r >=? P then q + 1 else q) <= Y.
Proof.
  intros HP HY Hm Hb q r.
  assert (D : m = P * q + m mod P) by (apply Z.div_mod; lia).
  pose proof (Z.mod_pos_bound m P HP) as Mb.
  assert (R : r = m mod P) by (unfold r; lia).
  assert (Q : q <= Y) by (apply Z.div_le_upper_bound; lia).
  destruct (2 * r >=? P) eqn:E; [|exact Q].
  rewrite Z.geb_leb in E. apply Z.leb_le in E.
  destruct (Z.eq_dec q Y) as [EQ|NE]; [|lia]. exfalso. subst q. rewrite EQ in D. nia.
Qed.

Lemma round80_away_le (x : f80) Y : is_finite x = true -> (B2R x <= IZR Y)%R -> 0 <= Y ->
  exists v, round80_away x = Some v /\ v <= Y.
Proof.
  destruct x as [s|s| |s m ex Hb]; try discriminate; intros _ H HY.
  - exists 0. split; [reflexivity|exact HY].
  - unfold round80_away. eexists. split; [reflexivity|].
    match goal with |- (if _ then - ?M else ?M) <= _ => set (mag := M) end.
    destruct s.
    + (* negative *)
      assert (0 <= mag); [|lia]. unfold mag.
      destruct ex as [|p|p].
      * rewrite Z.shiftl_0_r. lia.
      * apply Z.shiftl_nonneg. lia.
      * cbv zeta. assert (0 <= Z.shiftr (Z.pos m) (Z.pos p)) by (apply Z.shiftr_nonneg; lia).
        destruct (_ >=? _); lia.
    + unfold mag. unfold B2R in H. cbn [cond_Zopp] in H. unfold F2R in H. cbn [Fnum Fexp] in H.
      destruct ex as [|p|p].
      * rewrite Z.shiftl_0_r. apply le_IZR. cbn in H. lra.
      * apply le_IZR. rewrite shiftl_IZR by lia. exact H.
      * cbv zeta. rewrite Z.shiftr_div_pow2, Z.shiftl_mul_pow2 by lia.
        apply round_away_arith; try lia.
        apply le_IZR. rewrite mult_IZR, IZR_pow2 by lia.
        assert (B : (bpow radix2 (Z.neg p) * bpow radix2 (Z.pos p) = 1)%R).
        { rewrite <- bpow_plus. replace (Z.neg p + Z.pos p) with 0 by lia. reflexivity. }
        pose proof (bpow_gt_0 radix2 (Z.pos p)).
        replace (IZR (Z.pos m)) with (IZR (Z.pos m) * bpow radix2 (Z.neg p) * bpow radix2 (Z.pos p))%R
          by (rewrite Rmult_assoc, B; ring).
        apply Rmult_le_compat_r; [lra|exact H].
Qed.

Lemma to_i64_le v Y : 0 <= Y -> v <= Y -> - 2 ^ 63 <= to_i64 (Some v) <= Y.
Proof.
  intros HY Hv. unfold to_i64.
  destruct ((- 2 ^ 63 <=? v) && (v <? 2 ^ 63)) eqn:E; [|lia].
  apply andb_prop in E. destruct E as [E1 E2]. apply Z.leb_le in E1. lia.
Qed.

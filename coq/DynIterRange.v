(* DynIterRange.v — range(lo, hi) of the DynamicPGMIndex model equals am_range of the ordered map (C06),
   plus list lemmas (upper bounds, slices, filters, extensionality of sorted maps) reused by DynIter.v. *)
From Coq Require Import ZArith List Bool Lia ZifyBool.
Require Import Base GenLeaf DynModel DynSpec DynCoreLemmas DynCoreInv DynCoreRefine DynCoreQuery.
Local Open Scope Z_scope.

Ltac csplit := repeat match goal with |- _ /\ _ => refine (conj _ _) end.

(* ---------- upper bound position ---------- *)
Definition ubk (l : list item) (q : Z) : Z := ub (keys_of l) q.

Lemma ubk_cons : forall x l q, ubk (x :: l) q = if it_key x <=? q then 1 + ubk l q else 0.
Proof. reflexivity. Qed.

Lemma ubk_range : forall l q, 0 <= ubk l q <= zlen l.
Proof.
  unfold zlen. induction l as [|x l IH]; intros q; [cbn; lia|].
  rewrite ubk_cons. specialize (IH q). cbn [length]. destruct (it_key x <=? q); lia.
Qed.

Lemma ubk_none_gt : forall l q, Forall (fun e => q < it_key e) l -> ubk l q = 0.
Proof.
  intros [|x l] q H; [reflexivity|]. inversion H; subst. rewrite ubk_cons.
  destruct (it_key x <=? q) eqn:E; [lia|reflexivity].
Qed.

Lemma lbk_none_ge : forall l q, Forall (fun e => q <= it_key e) l -> lbk l q = 0.
Proof.
  intros [|x l] q H; [reflexivity|]. inversion H; subst. rewrite lbk_cons.
  destruct (it_key x <? q) eqn:E; [lia|reflexivity].
Qed.

(* ub = lb (+1 when the key is present) *)
Lemma ubk_lbk : forall l q, isrt l ->
  lbk l q <= ubk l q <= lbk l q + 1 /\ (ubk l q = lbk l q + 1 -> In q (keys_of l)).
Proof.
  induction l as [|x l IH]; intros q Hs; [cbn; lia|].
  destruct Hs as [Hf Hs]. rewrite ubk_cons, lbk_cons. specialize (IH q Hs).
  destruct (it_key x <? q) eqn:E1.
  - assert (E2 : (it_key x <=? q) = true) by lia. rewrite E2. split; [lia|].
    intros H. right. apply IH. lia.
  - destruct (it_key x <=? q) eqn:E2.
    + rewrite (ubk_none_gt l q). 2:{ eapply Forall_lt_trans; [|exact Hf]. lia. }
      split; [lia|]. intros _. left. lia.
    + split; [lia|]. lia.
Qed.

(* ---------- ub_range inside a window that contains the true upper bound ---------- *)
Lemma slice_cons_pos : forall A (x : A) l lo hi, 0 < lo -> slice (x :: l) lo hi = slice l (lo - 1) (hi - 1).
Proof.
  intros A x l lo hi H. unfold slice.
  replace (Z.to_nat lo) with (S (Z.to_nat (lo - 1))) by lia. cbn [skipn].
  replace (hi - 1 - (lo - 1)) with (hi - lo) by lia. reflexivity.
Qed.

Lemma slice_cons_0 : forall A (x : A) l hi, 0 < hi -> slice (x :: l) 0 hi = x :: slice l 0 (hi - 1).
Proof.
  intros A x l hi H. unfold slice. cbn [Z.to_nat skipn].
  replace (Z.to_nat (hi - 0)) with (S (Z.to_nat (hi - 1 - 0))) by lia. reflexivity.
Qed.

Lemma ub_nonneg : forall l q, 0 <= ub l q.
Proof. induction l as [|x l IH]; intros q; cbn [ub]; [lia|]. specialize (IH q). destruct (x <=? q); lia. Qed.

Lemma ub_slice : forall l lo hi q, 0 <= lo -> lo <= ub l q <= hi ->
  ub (slice l lo hi) q = ub l q - lo.
Proof.
  induction l as [|x l IH]; intros lo hi q H0 H.
  - cbn [ub] in *. unfold slice. rewrite skipn_nil, firstn_nil. cbn. lia.
  - cbn [ub] in H |- *. destruct (Z.eq_dec lo 0) as [->|Hne].
    + destruct (x <=? q) eqn:E; rewrite ?E in H.
      * pose proof (ub_nonneg l q). rewrite slice_cons_0 by lia. cbn [ub]. rewrite E. rewrite IH by lia. lia.
      * destruct (Z_le_dec hi 0).
        -- unfold slice. replace (Z.to_nat (hi - 0)) with 0%nat by lia. cbn [firstn ub]. lia.
        -- rewrite slice_cons_0 by lia. cbn [ub]. rewrite E. lia.
    + rewrite slice_cons_pos by lia. destruct (x <=? q) eqn:E; rewrite ?E in H; [|lia].
      rewrite IH by lia. lia.
Qed.

Lemma ub_range_exact : forall l lo hi q, 0 <= lo -> lo <= ub l q <= hi -> ub_range l lo hi q = ub l q.
Proof. intros l lo hi q H0 H. unfold ub_range. rewrite ub_slice by lia. lia. Qed.

(* ---------- filters by key on sorted runs ---------- *)
Definition kfilter (f : Z -> bool) (l : list item) : list item := filter (fun e => f (it_key e)) l.

Lemma kfilter_all_false : forall f l, Forall (fun e => f (it_key e) = false) l -> kfilter f l = [].
Proof.
  unfold kfilter. induction l as [|x l IH]; intros H; [reflexivity|].
  inversion H; subst. cbn [filter]. rewrite H2. auto.
Qed.

Lemma kfilter_all_true : forall f l, Forall (fun e => f (it_key e) = true) l -> kfilter f l = l.
Proof.
  unfold kfilter. induction l as [|x l IH]; intros H; [reflexivity|].
  inversion H; subst. cbn [filter]. rewrite H2. f_equal. auto.
Qed.

Lemma kfilter_ext_in : forall f g l, Forall (fun e => f (it_key e) = g (it_key e)) l -> kfilter f l = kfilter g l.
Proof.
  unfold kfilter. induction l as [|x l IH]; intros H; [reflexivity|].
  inversion H; subst. cbn [filter]. rewrite H2, IH by auto. reflexivity.
Qed.

Lemma kfilter_in : forall f l e, In e (kfilter f l) <-> In e l /\ f (it_key e) = true.
Proof. intros f l e. unfold kfilter. apply filter_In. Qed.

Lemma kfilter_sorted : forall f l, isrt l -> isrt (kfilter f l).
Proof.
  induction l as [|x l IH]; intros Hs; [exact I|]. destruct Hs as [Hf Hs].
  unfold kfilter. cbn [filter]. destruct (f (it_key x)).
  - split; [|apply IH; auto]. apply Forall_forall. intros e He.
    apply kfilter_in in He. destruct He as [He _]. rewrite Forall_forall in Hf. auto.
  - apply IH; auto.
Qed.

Lemma kfilter_lookup : forall f l k,
  level_lookup (kfilter f l) k = if f k then level_lookup l k else None.
Proof.
  induction l as [|x l IH]; intros k.
  - cbn. destruct (f k); reflexivity.
  - unfold kfilter. cbn [filter]. destruct (f (it_key x)) eqn:Ef.
    + rewrite !lookup_cons. fold (kfilter f l). rewrite IH.
      destruct (it_key x =? k) eqn:E; auto. assert (it_key x = k) by lia. subst k. rewrite Ef. auto.
    + fold (kfilter f l). rewrite IH, lookup_cons.
      destruct (it_key x =? k) eqn:E; auto. assert (it_key x = k) by lia. subst k. rewrite Ef. auto.
Qed.

Lemma skipn_ubk : forall l q, isrt l -> skipn (Z.to_nat (ubk l q)) l = kfilter (fun k => q <? k) l.
Proof.
  induction l as [|x l IH]; intros q Hs; [reflexivity|]. destruct Hs as [Hf Hs].
  rewrite ubk_cons. pose proof (ubk_range l q). unfold kfilter. cbn [filter].
  destruct (it_key x <=? q) eqn:E.
  - replace (Z.to_nat (1 + ubk l q)) with (S (Z.to_nat (ubk l q))) by lia. cbn [skipn].
    assert (E2 : (q <? it_key x) = false) by lia. rewrite E2. apply IH; auto.
  - cbn [Z.to_nat skipn]. assert (E2 : (q <? it_key x) = true) by lia. rewrite E2. f_equal.
    symmetry. apply (kfilter_all_true (fun k => q <? k)). eapply Forall_impl; [|exact Hf]. cbn. intros. lia.
Qed.

Lemma firstn_ubk : forall l q, isrt l -> firstn (Z.to_nat (ubk l q)) l = kfilter (fun k => k <=? q) l.
Proof.
  induction l as [|x l IH]; intros q Hs; [reflexivity|]. destruct Hs as [Hf Hs].
  rewrite ubk_cons. pose proof (ubk_range l q). unfold kfilter. cbn [filter].
  destruct (it_key x <=? q) eqn:E.
  - replace (Z.to_nat (1 + ubk l q)) with (S (Z.to_nat (ubk l q))) by lia. cbn [firstn].
    f_equal. apply IH; auto.
  - cbn [Z.to_nat firstn]. symmetry. apply (kfilter_all_false (fun k => k <=? q)).
    eapply Forall_impl; [|exact Hf]. cbn. intros. lia.
Qed.

Definition inr (lo hi k : Z) : bool := (lo <=? k) && (k <=? hi).

Lemma slice_range : forall l lo hi, isrt l -> lo <= hi ->
  slice l (lbk l lo) (ubk l hi) = kfilter (inr lo hi) l.
Proof.
  induction l as [|x l IH]; intros lo hi Hs Hle.
  - reflexivity.
  - assert (Hs' := Hs). destruct Hs as [Hf Hs]. rewrite lbk_cons, ubk_cons.
    pose proof (lbk_range l lo). pose proof (ubk_range l hi).
    unfold kfilter, inr. cbn [filter]. destruct (it_key x <? lo) eqn:E1.
    + assert (E2 : (it_key x <=? hi) = true) by lia. rewrite E2.
      assert (E3 : (lo <=? it_key x) = false) by lia. rewrite E3. cbn [andb].
      rewrite slice_cons_pos by lia. replace (1 + lbk l lo - 1) with (lbk l lo) by lia.
      replace (1 + ubk l hi - 1) with (ubk l hi) by lia. apply IH; auto.
    + assert (E3 : (lo <=? it_key x) = true) by lia. rewrite E3. cbn [andb].
      destruct (it_key x <=? hi) eqn:E2.
      * rewrite slice_cons_0 by lia. f_equal. replace (1 + ubk l hi - 1) with (ubk l hi) by lia.
        unfold slice. cbn [Z.to_nat skipn]. replace (ubk l hi - 0) with (ubk l hi) by lia.
        rewrite firstn_ubk by auto.
        apply (kfilter_ext_in (fun k => k <=? hi) (fun k => (lo <=? k) && (k <=? hi))).
        eapply Forall_impl; [|exact Hf]. cbn. intros. lia.
      * unfold slice. cbn. symmetry. apply (kfilter_all_false (fun k => (lo <=? k) && (k <=? hi))).
        eapply Forall_impl; [|exact Hf]. cbn. intros. lia.
Qed.

(* ---------- merging the restricted levels ---------- *)
Definition rmerge (lo hi : Z) (tmp : list item) (Ls : list (list item)) : list item :=
  fold_left (fun acc l => merge false acc (kfilter (inr lo hi) l)) Ls tmp.

Lemma rmerge_spec : forall lo hi Ls tmp, isrt tmp -> Forall isrt Ls ->
  isrt (rmerge lo hi tmp Ls) /\
  forall k, level_lookup (rmerge lo hi tmp Ls) k =
            match level_lookup tmp k with
            | Some e => Some e
            | None => if inr lo hi k then look_levels Ls k else None
            end.
Proof.
  unfold rmerge. induction Ls as [|l Ls IH]; intros tmp Ht Hf; cbn [fold_left look_levels].
  - split; auto. intros k. destruct (level_lookup tmp k); auto. destruct (inr lo hi k); auto.
  - inversion Hf; subst. pose proof (kfilter_sorted (inr lo hi) l H1) as Hk.
    destruct (IH (merge false tmp (kfilter (inr lo hi) l)) (merge_sorted _ _ _ Ht Hk) H2) as [I1 I2].
    split; auto. intros k. rewrite I2, merge_lookup by auto. cbn [andb].
    destruct (level_lookup tmp k); auto. rewrite kfilter_lookup.
    destruct (inr lo hi k); auto.
Qed.

(* ---------- sorted association lists ---------- *)
Definition live_of (l : list item) : amap :=
  flat_map (fun e => match it_val e with Some v => [(it_key e, v)] | None => [] end) l.

Lemma live_of_in : forall l p, In p (live_of l) -> exists e, In e l /\ it_key e = fst p /\ it_val e = Some (snd p).
Proof.
  intros l p H. unfold live_of in H. apply in_flat_map in H. destruct H as [e [He Hp]].
  exists e. destruct (it_val e) as [v|]; [|destruct Hp]. destruct Hp as [<-|[]]. cbn. auto.
Qed.

Lemma live_of_spec : forall l, isrt l ->
  amsrt (live_of l) /\ forall k, am_find k (live_of l) = val_of (level_lookup l k).
Proof.
  induction l as [|x l IH]; intros Hs; [split; [exact I|reflexivity]|].
  destruct Hs as [Hf Hs]. destruct (IH Hs) as [I1 I2].
  change (live_of (x :: l)) with ((match it_val x with Some v => [(it_key x, v)] | None => [] end) ++ live_of l).
  assert (Hgt : Forall (fun q => it_key x < fst q) (live_of l)).
  { apply Forall_forall. intros p Hp. apply live_of_in in Hp. destruct Hp as [e [He [Hk _]]].
    rewrite Forall_forall in Hf. rewrite <- Hk. auto. }
  destruct (it_val x) as [v|] eqn:Ev; cbn [app].
  - split; [split; auto|]. intros k. cbn [am_find]. rewrite lookup_cons, I2.
    destruct (k =? it_key x) eqn:E1, (it_key x =? k) eqn:E2; try lia; auto.
  - split; auto. intros k. rewrite lookup_cons, I2.
    destruct (it_key x =? k) eqn:E2; auto. cbn [val_of]. rewrite Ev.
    rewrite lookup_none_gt; auto. eapply Forall_lt_trans; [|exact Hf]. lia.
Qed.

Lemma am_ext : forall a b, amsrt a -> amsrt b -> (forall k, am_find k a = am_find k b) -> a = b.
Proof.
  induction a as [|[k v] a IH]; intros b Ha Hb H.
  - destruct b as [|[k' v'] b]; auto. specialize (H k'). cbn in H. rewrite Z.eqb_refl in H. discriminate.
  - destruct b as [|[k' v'] b].
    + specialize (H k). cbn in H. rewrite Z.eqb_refl in H. discriminate.
    + destruct Ha as [Hfa Ha]. destruct Hb as [Hfb Hb]. cbn [fst] in *.
      assert (Hk : k = k').
      { pose proof (H k) as H1. pose proof (H k') as H2. cbn [am_find] in H1, H2.
        rewrite Z.eqb_refl in H1, H2.
        destruct (Z.eq_dec k k'); auto. exfalso.
        destruct (k =? k') eqn:E1; [lia|]. destruct (k' =? k) eqn:E2; [lia|].
        destruct (Z_lt_dec k k').
        - rewrite am_find_none_gt in H1; [discriminate|].
          eapply Forall_impl; [|exact Hfb]. cbn; intros; lia.
        - rewrite am_find_none_gt in H2; [discriminate|].
          eapply Forall_impl; [|exact Hfa]. cbn; intros; lia. }
      subst k'. pose proof (H k) as H1. cbn [am_find] in H1. rewrite Z.eqb_refl in H1.
      inversion H1; subst v'. f_equal. apply IH; auto. intros q. specialize (H q). cbn [am_find] in H.
      destruct (q =? k) eqn:E; auto.
      assert (q = k) by lia. subst q.
      rewrite !am_find_none_gt; auto.
Qed.

Lemma am_filter_spec : forall (f : Z -> bool) m, amsrt m ->
  amsrt (filter (fun p => f (fst p)) m) /\
  forall k, am_find k (filter (fun p => f (fst p)) m) = if f k then am_find k m else None.
Proof.
  induction m as [|[k0 v0] m IH]; intros Hs.
  - split; [exact I|]. intros k. cbn. destruct (f k); auto.
  - destruct Hs as [Hf Hs]. destruct (IH Hs) as [I1 I2]. cbn [filter fst].
    assert (Hgt : Forall (fun q => k0 < fst q) (filter (fun p => f (fst p)) m)).
    { apply Forall_forall. intros p Hp. apply filter_In in Hp. destruct Hp as [Hp _].
      rewrite Forall_forall in Hf. apply (Hf p Hp). }
    destruct (f k0) eqn:Ef.
    + split; [split; auto|]. intros k. cbn [am_find]. rewrite I2.
      destruct (k =? k0) eqn:E; auto. assert (k = k0) by lia. subst k. rewrite Ef. auto.
    + split; auto. intros k. rewrite I2. cbn [am_find].
      destruct (k =? k0) eqn:E; auto. assert (k = k0) by lia. subst k. rewrite Ef. auto.
Qed.

Lemma am_range_spec : forall lo hi m, amsrt m ->
  amsrt (am_range lo hi m) /\ forall k, am_find k (am_range lo hi m) = if inr lo hi k then am_find k m else None.
Proof. intros lo hi m Hs. apply (am_filter_spec (inr lo hi) m Hs). Qed.

Lemma am_from_spec : forall q m, amsrt m ->
  amsrt (am_from q m) /\ forall k, am_find k (am_from q m) = if q <=? k then am_find k m else None.
Proof. intros q m Hs. apply (am_filter_spec (fun k => q <=? k) m Hs). Qed.

Section RangeSec.
Context {P : Type} (ops : pgmops P) (kmax : Z).
Hypothesis Hc : pgm_contract ops kmax.
Notation dynP := (@dyn P).
Notation Inv := (Inv ops kmax).

Lemma lb_in_lt_zlen : forall l q, In q l -> lb l q < zlen l.
Proof.
  unfold zlen. induction l as [|x l IH]; intros q Hin; [destruct Hin|].
  cbn [lb length]. destruct (x <? q) eqn:E.
  - destruct Hin as [->|Hin]; [lia|]. specialize (IH q Hin). lia.
  - lia.
Qed.

(* the window of a level also contains the upper bound *)
Lemma level_window_ok2 : forall d i li q, Inv d -> level d i = Ok li -> li <> [] -> q < kmax ->
  exists lo hi, level_window ops d i li q = Ok (lo, hi) /\
    0 <= lo <= lbk li q /\ lbk li q <= hi <= zlen li /\ ubk li q <= hi.
Proof.
  intros d i li q HI Hl Hne Hq. unfold level_window.
  pose proof (lbk_range li q) as Hr.
  pose proof (Inv_sorted ops kmax d i li HI Hl) as Hsrt.
  pose proof (ubk_lbk li q Hsrt) as [Hu1 Hu2].
  destruct (has_pgm d i) eqn:Eh.
  - unfold has_pgm in Eh.
    destruct (lp_indexed ops d (wf_lsm ops d (iv_wf _ _ d HI)) i li ltac:(lia) Hl Hne) as [p [Hp Hbuild]].
    rewrite Hp. cbn [bind].
    assert (Hkne : keys_of li <> []) by (destruct li; [contradiction|discriminate]).
    pose proof (lp_sorted ops d (wf_lsm ops d (iv_wf _ _ d HI)) i li Hl) as Hsb.
    destruct (pc_search ops kmax Hc (keys_of li) p q Hbuild Hkne Hsb Hq) as [lo [hi [Hs [H1 [H2 [H3 [H4 H5]]]]]]].
    rewrite Hs. cbn [bind]. rewrite keys_of_zlen in H4. fold (lbk li q) in H2, H3, H5.
    destruct ((lo <? 0) || (hi >? zlen li) || (hi <? lo)) eqn:E; [lia|].
    exists lo, hi. csplit; auto; try lia.
    destruct (Z.eq_dec (ubk li q) (lbk li q + 1)) as [E1|E1]; [|lia].
    specialize (H5 (Hu2 E1)). lia.
  - exists 0, (zlen li). csplit; auto; try lia. pose proof (ubk_range li q). lia.
Qed.

Lemma lbk_mono : forall l a b, a <= b -> lbk l a <= lbk l b.
Proof.
  induction l as [|x l IH]; intros a b H; [cbn; lia|]. rewrite !lbk_cons. specialize (IH a b H).
  pose proof (lbk_range l b). destruct (it_key x <? a) eqn:E1, (it_key x <? b) eqn:E2; lia.
Qed.

Lemma range_levels_spec : forall n d s lo hi tmp, Inv d -> sizes_ok d -> lo <= hi -> hi < kmax ->
  d_min_level d <= s -> s - d_min_level d + Z.of_nat n <= zlen (d_levels d) ->
  range_levels ops d (zseq s n) lo hi tmp = Ok (rmerge lo hi tmp (levels_from d s n)).
Proof.
  induction n as [|n IH]; intros d s lo hi tmp HI Hsz Hle Hhi Hs Hr.
  - reflexivity.
  - destruct (level_total d s ltac:(lia)) as [li Hli].
    rewrite (levels_from_cons d s n li Hli). cbn [zseq range_levels]. rewrite Hli. cbn [bind].
    unfold rmerge. cbn [fold_left]. fold (rmerge lo hi (merge false tmp (kfilter (inr lo hi) li)) (levels_from d (s + 1) n)).
    destruct (zlen li =? 0) eqn:Ez.
    + assert (li = []) by (destruct li; auto; cbn in Ez; lia). subst li.
      cbn [kfilter filter]. rewrite merge_nil_r. apply IH; auto; lia.
    + assert (Hne : li <> []) by (intros ->; cbn in Ez; lia).
      pose proof (Inv_sorted ops kmax d s li HI Hli) as Hsrt.
      destruct (level_search_ok ops kmax Hc d s li lo HI Hsz Hli Hne ltac:(lia)) as [wl [Hwl Hlb]].
      destruct (level_window_ok2 d s li hi HI Hli Hne Hhi) as [l2 [h2 [Hwh [W1 [W2 W3]]]]].
      rewrite Hwl, Hwh. cbn [bind]. rewrite Hlb. cbn [bind fst snd].
      pose proof (lbk_mono li lo hi Hle) as Hm. pose proof (ubk_lbk li hi Hsrt) as [Hu _].
      pose proof (lbk_range li lo) as Hr1.
      assert (E1 : (Z.max (lbk li lo) l2 <=? h2) = true) by lia. rewrite E1.
      change (map it_key li) with (keys_of li). fold (ubk li hi).
      assert (E3 : ub_range (keys_of li) (Z.max (lbk li lo) l2) h2 hi = ubk li hi).
      { apply ub_range_exact; fold (ubk li hi); lia. }
      rewrite E3.
      rewrite <- (slice_range li lo hi Hsrt Hle).
      destruct (ubk li hi - lbk li lo <=? 0) eqn:E2.
      * unfold slice at 1. replace (Z.to_nat (ubk li hi - lbk li lo)) with 0%nat by lia.
        cbn [firstn]. rewrite merge_nil_r. apply IH; auto; lia.
      * apply IH; auto; lia.
Qed.

Definition used_levels (d : dynP) : list (list item) :=
  levels_from d (d_min_level d) (Z.to_nat (d_used d - d_min_level d)).

Lemma used_levels_sorted : forall d, Inv d -> Forall isrt (used_levels d).
Proof.
  intros d HI. apply Forall_forall. intros l Hl.
  pose proof (wf_levels_len ops d (iv_wf _ _ d HI)) as [Hl1 Hl2].
  apply levels_from_in in Hl; try lia. destruct Hl as [j [_ Hj]].
  eapply Inv_sorted; eauto.
Qed.

Lemma used_levels_look : forall d m k, Inv d -> represents d m ->
  val_of (look_levels (used_levels d) k) = am_find k m.
Proof.
  intros d m k HI Hrep. unfold used_levels. rewrite (look_used ops kmax d k HI), <- abs_look. apply Hrep.
Qed.

Theorem range_spec : forall d m lo hi, Inv d -> sizes_ok d -> represents d m -> amsrt m ->
  lo <= hi -> hi < kmax -> range ops d lo hi = Ok (am_range lo hi m).
Proof.
  intros d m lo hi HI Hsz Hrep Hm Hle Hhi. unfold range.
  assert (E : (lo >? hi) = false) by lia. rewrite E. unfold used_range.
  pose proof (wf_levels_len ops d (iv_wf _ _ d HI)) as [Hl1 Hl2].
  rewrite (range_levels_spec _ d (d_min_level d) lo hi [] HI Hsz Hle Hhi) by lia.
  cbn [bind]. f_equal. fold (used_levels d).
  destruct (rmerge_spec lo hi (used_levels d) [] I (used_levels_sorted d HI)) as [R1 R2].
  destruct (live_of_spec _ R1) as [L1 L2]. destruct (am_range_spec lo hi m Hm) as [A1 A2].
  apply am_ext; auto. intros k. fold (live_of (rmerge lo hi [] (used_levels d))).
  rewrite L2, R2, A2. cbn [level_lookup find].
  destruct (inr lo hi k); auto. apply used_levels_look; auto.
Qed.

End RangeSec.
Print Assumptions range_spec.

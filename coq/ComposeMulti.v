(* ComposeMulti.v — C13/C14 end to end: the inner-index hypothesis of MultiBigmin.multi_index_correct
   discharged by the index contract (ComposeIdx.search_contract) for every query below the sentinel. *)
Require Import Base Fp PlaModel GenLeaf IndexModel IndexProofs MultiModel MultiMorton MultiRange MultiBigmin IdxChain ComposeIdx ComposeBuild.
From Coq Require Import ZifyBool Permutation.
Local Open Scope Z_scope.

Lemma last_In (l : list Z) d : l <> [] -> In (last l d) l.
Proof.
  intros Hne. destruct (exists_last Hne) as (l' & a & ->). rewrite last_last.
  apply in_or_app. right. left. reflexivity.
Qed.

Lemma multi_build_inv m points mu : multi_build m points = Ok mu ->
  build (m_cfg m) (mu_data mu) = Ok (mu_ix mu) /\ mu_data mu = sort_codes (map (encode m) points).
Proof.
  unfold multi_build. intros H.
  destruct (existsb _ points); [discriminate|].
  destruct (build (m_cfg m) (sort_codes (map (encode m) points))) as [ix|e] eqn:Eb; cbn [bind] in H; [|discriminate].
  injection H as <-. cbn [mu_data mu_ix]. split; [exact Eb | reflexivity].
Qed.

Lemma build_ok_last c data ix : data <> [] -> build c data = Ok ix -> last_z data <> sentinel c.
Proof.
  intros Hne H. unfold build in H.
  assert (Hn : zlen data <> 0) by (destruct data; [contradiction|]; unfold zlen; cbn [length]; lia).
  replace (zlen data =? 0) with false in H by lia.
  destruct (last_z data =? sentinel c) eqn:E; [discriminate H|]. lia.
Qed.

Section Multi.
  Variables (m : mcfg) (points : list (list Z)) (mu : multi).
  Hypothesis Hv : valid_mcfg m.
  Hypothesis Hkt : c_kt (m_cfg m) = mkK (m_tbits m) false.      (* the codes are T = unsigned m_tbits *)
  Hypothesis Hok : Forall (point_ok m) points.
  Hypothesis Hne : points <> [].
  Hypothesis Hn32 : zlen points < 2 ^ 32.
  Hypothesis Hb : multi_build m points = Ok mu.

  Lemma codes_range : Forall (fun c => 0 <= c < 2 ^ (m_dims m * field_bits m)) (mu_data mu).
  Proof.
    pose proof (valid_wf m Hv) as Hwf. destruct (multi_build_inv m points mu Hb) as [_ Hd].
    pose proof (built_points_ok m points mu Hwf Hok Hb) as Hpts.
    pose proof (sort_codes_perm (map (encode m) points)) as Hperm. rewrite <- Hd in Hperm.
    apply Forall_forall. intros c Hc. apply (Permutation_in _ Hperm) in Hc.
    apply in_map_iff in Hc. destruct Hc as (p & <- & Hp). apply (encode_range m Hwf). apply Hpts. exact Hp.
  Qed.

  Lemma codes_data_ok : data_ok (m_cfg m) (mu_data mu).
  Proof.
    pose proof (valid_wf m Hv) as Hwf. destruct (multi_build_inv m points mu Hb) as [Hbd Hd].
    pose proof (sort_codes_perm (map (encode m) points)) as Hperm. rewrite <- Hd in Hperm.
    pose proof (Permutation_length Hperm) as Hlen. rewrite map_length in Hlen.
    assert (Hne' : mu_data mu <> []).
    { intros E. rewrite E in Hlen. destruct points; [contradiction|discriminate]. }
    assert (Hin : Forall (fun x => in_ktype (c_kt (m_cfg m)) x = true) (mu_data mu)).
    { pose proof codes_range as Hc. rewrite Forall_forall in *. intros x Hx. specialize (Hc x Hx).
      pose proof (DF_le_T m Hwf) as Hdf.
      assert (2 ^ (m_dims m * field_bits m) <= 2 ^ m_tbits m) by (apply Z.pow_le_mono_r; lia).
      rewrite Hkt. unfold in_ktype, kmin, kmax. cbn [ksigned kbits]. lia. }
    constructor.
    - exact Hne'.
    - rewrite Hd. apply sort_codes_sorted.
    - exact Hin.
    - pose proof (build_ok_last _ _ _ Hne' Hbd) as Hl.
      rewrite Forall_forall in Hin. specialize (Hin _ (last_In (mu_data mu) 0 Hne')).
      unfold last_z, sentinel, in_ktype in *. lia.
    - unfold zlen in *. lia.
  Qed.
End Multi.

(* C02 of the inner index for every code below the sentinel of the code type *)
Theorem multi_inner_contract m points mu :
  valid_mcfg m -> c_kt (m_cfg m) = mkK (m_tbits m) false -> idx_ok (m_cfg m) -> float_ok_valid (m_cfg m) ->
  Forall (point_ok m) points -> points <> [] -> zlen points < 2 ^ 32 ->
  multi_build m points = Ok mu -> zlen (ix_segments (mu_ix mu)) < 2 ^ 32 ->
  forall q, q < sentinel (m_cfg m) -> exists lo hi,
    multi_range_of m mu q = Ok (lo, hi) /\ 0 <= lo /\
    lo <= lb (mu_data mu) q /\ lb (mu_data mu) q <= hi /\ hi <= zlen (mu_data mu) /\
    (In q (mu_data mu) -> lb (mu_data mu) q < hi) /\ hi - lo <= 2 * c_eps (m_cfg m) + 2.
Proof.
  intros Hv Hkt Hc Hf Hok Hne Hn32 Hb Hs32 q Hq.
  pose proof (codes_data_ok m points mu Hv Hkt Hok Hne Hn32 Hb) as Hd.
  destruct (multi_build_inv m points mu Hb) as [Hbd _].
  destruct (search_contract_valid (m_cfg m) (mu_data mu) (mu_ix mu) q Hc Hf Hd Hbd Hs32 Hq)
    as (a & Es & H1 & H2 & H3 & H4).
  exists (a_lo a), (a_hi a). unfold multi_range_of. rewrite Es. cbn [bind].
  replace ((a_lo a <? 0) || (a_hi a >? zlen (mu_data mu)) || (a_hi a <? a_lo a)) with false by lia.
  split; [reflexivity|]. repeat split; try tauto; lia.
Qed.

(* C13/C14: residual hypothesis Hbeyond — the answers of the inner index for queries that are not
   below the sentinel (the theorems of MultiRange.v ask the inner contract for every q >= 0; the
   code of a query point whose coordinates are all 2^field_bits - 1 is the sentinel itself when
   dims * field_bits = m_tbits). *)
Theorem multi_index_end_to_end_partial m points mu :
  valid_mcfg m -> c_kt (m_cfg m) = mkK (m_tbits m) false -> idx_ok (m_cfg m) -> float_ok_valid (m_cfg m) ->
  Forall (point_ok m) points -> points <> [] -> zlen points < 2 ^ 32 ->
  multi_build m points = Ok mu -> zlen (ix_segments (mu_ix mu)) < 2 ^ 32 ->
  forall Hbeyond : (forall q, sentinel (m_cfg m) <= q -> exists lo hi, multi_range_of m mu q = Ok (lo, hi) /\ 0 <= lo /\
     lo <= lb (mu_data mu) q /\ lb (mu_data mu) q <= hi /\ hi <= zlen (mu_data mu)),
  let stored := map (decode m) (mu_data mu) in
  Permutation stored points /\
  (forall p, zlen p = m_dims m -> coords_ok (field_bits m) p ->
     exists b, multi_contains m mu p = Ok b /\ (b = true <-> In p points)) /\
  (forall pmin pmax, zlen pmin = m_dims m -> zlen pmax = m_dims m ->
     coords_ok (field_bits m) pmin -> coords_ok (field_bits m) pmax -> Forall2 Z.le pmin pmax ->
     multi_range m mu pmin pmax = Ok (filter (in_boxb pmin pmax) stored)).
Proof.
  intros Hv Hkt Hc Hf Hok Hne Hn32 Hb Hs32 Hbeyond.
  apply (multi_index_correct m points mu Hv Hok Hb). intros q _.
  destruct (Z_lt_ge_dec q (sentinel (m_cfg m))) as [Hlt|Hge]; [|apply Hbeyond; lia].
  destruct (multi_inner_contract m points mu Hv Hkt Hc Hf Hok Hne Hn32 Hb Hs32 q Hlt)
    as (lo & hi & E & H). exists lo, hi. tauto.
Qed.

(* the size hypothesis on the built index discharged by ComposeBuild.build_segs32 (at most 2^30 points) *)
Lemma multi_segs32 m points mu :
  valid_mcfg m -> c_kt (m_cfg m) = mkK (m_tbits m) false -> idx_ok (m_cfg m) -> cfg_small (m_cfg m) ->
  Forall (point_ok m) points -> points <> [] -> zlen points <= 2 ^ 30 ->
  multi_build m points = Ok mu -> zlen (ix_segments (mu_ix mu)) < 2 ^ 32.
Proof.
  intros Hv Hkt Hc Hsm Hok Hne Hn Hb.
  pose proof (codes_data_ok m points mu Hv Hkt Hok Hne ltac:(lia) Hb) as Hd.
  destruct (multi_build_inv m points mu Hb) as [Hbd Hdat].
  apply (build_segs32 (m_cfg m) (mu_data mu) (mu_ix mu) Hc Hsm Hd); [|exact Hbd].
  pose proof (Permutation_length (sort_codes_perm (map (encode m) points))) as Hl.
  rewrite map_length in Hl. rewrite Hdat. unfold zlen in *. lia.
Qed.

Theorem multi_index_end_to_end_partial' m points mu :
  valid_mcfg m -> c_kt (m_cfg m) = mkK (m_tbits m) false -> idx_ok (m_cfg m) -> cfg_small (m_cfg m) ->
  float_ok_valid (m_cfg m) ->
  Forall (point_ok m) points -> points <> [] -> zlen points <= 2 ^ 30 ->
  multi_build m points = Ok mu ->
  forall Hbeyond : (forall q, sentinel (m_cfg m) <= q -> exists lo hi, multi_range_of m mu q = Ok (lo, hi) /\ 0 <= lo /\
     lo <= lb (mu_data mu) q /\ lb (mu_data mu) q <= hi /\ hi <= zlen (mu_data mu)),
  let stored := map (decode m) (mu_data mu) in
  Permutation stored points /\
  (forall p, zlen p = m_dims m -> coords_ok (field_bits m) p ->
     exists b, multi_contains m mu p = Ok b /\ (b = true <-> In p points)) /\
  (forall pmin pmax, zlen pmin = m_dims m -> zlen pmax = m_dims m ->
     coords_ok (field_bits m) pmin -> coords_ok (field_bits m) pmax -> Forall2 Z.le pmin pmax ->
     multi_range m mu pmin pmax = Ok (filter (in_boxb pmin pmax) stored)).
Proof.
  intros Hv Hkt Hc Hsm Hf Hok Hne Hn Hb.
  exact (multi_index_end_to_end_partial m points mu Hv Hkt Hc Hf Hok Hne ltac:(lia) Hb
           (multi_segs32 m points mu Hv Hkt Hc Hsm Hok Hne Hn Hb)).
Qed.

Print Assumptions multi_inner_contract.
Print Assumptions multi_index_end_to_end_partial.

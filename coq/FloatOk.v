(* FloatOk.v — the floating-point interface `eval_ok` of IdxBlock.v, discharged by a rounding-error
   analysis of Segment::operator() (x87 quotient -> float/double slope -> double product -> trunc). *)
From Coq Require Import ZArith Reals Lra Lia Bool.
From Flocq Require Import Core Relative BinarySingleNaN.
Require Import Base Fp PlaModel GenLeaf IndexModel IndexProofs IdxBlock FloatOkLemmas.
Local Open Scope Z_scope.

Lemma IZR_pow2 k : 0 <= k -> IZR (2 ^ k) = bpow radix2 k.
Proof. intros H. now rewrite <- (IZR_Zpower radix2). Qed.

Lemma ofZ80_exact z : Z.abs z <= 2 ^ 64 -> B2R (ofZ80 z) = IZR z /\ is_finite (ofZ80 z) = true.
Proof.
  intros Hz.
  assert (G : RN 64 16384 (IZR z) = IZR z) by (apply RN_int; [exact p64|unfold femin; lia|exact Hz]).
  unfold ofZ80. rewrite <- G at 1. apply ofZ_R. rewrite G.
  rewrite <- abs_IZR. eapply Rle_lt_trans; [apply IZR_le, Hz|].
  rewrite IZR_pow2 by lia. apply bpow_lt. lia.
Qed.

(* double(dk): a correctly rounded non-negative value, relative error 2^-53 *)
Lemma ofZ64_R z : 0 <= z < 2 ^ 64 ->
  is_finite (ofZ64 z) = true /\ (0 <= B2R (ofZ64 z) <= bpow radix2 64)%R /\
  (B2R (ofZ64 z) = 0%R \/ (bpow radix2 0 <= B2R (ofZ64 z))%R) /\
  exists e, (Rabs e <= bpow radix2 (-53))%R /\ B2R (ofZ64 z) = (IZR z * (1 + e))%R.
Proof.
  intros Hz.
  assert (A : (Rabs (IZR z) <= bpow radix2 64)%R).
  { rewrite <- abs_IZR, <- IZR_pow2 by lia. apply IZR_le. lia. }
  assert (B : (Rabs (RN 53 1024 (IZR z)) < bpow radix2 1024)%R).
  { eapply Rle_lt_trans; [apply (RN_abs_le 53 1024 p53 64); [unfold femin; lia|exact A]|].
    apply bpow_lt. lia. }
  destruct (ofZ_R 53 1024 p53 e53 z false B) as [E F]. fold (ofZ64 z) in E, F.
  assert (Z0 : (0 <= IZR z)%R) by (apply IZR_le; lia).
  split; [exact F|]. rewrite E. split.
  { split; [apply (RN_ge_0 53 1024 p53); exact Z0|].
    eapply Rle_trans; [apply Rle_abs|]. apply (RN_abs_le 53 1024 p53); [unfold femin; lia|exact A]. }
  split.
  { destruct (Z.eq_dec z 0) as [->|N]; [left; unfold RN; apply round_0; auto with typeclass_instances|right].
    apply (RN_ge_bpow 53 1024 p53); [unfold femin; lia|]. change (bpow radix2 0) with (IZR 1).
    apply IZR_le. lia. }
  apply (RN_relerr 53 1024 p53).
  destruct (Z.eq_dec z 0) as [->|N]; [now left|right].
  rewrite <- abs_IZR. apply Rle_trans with (bpow radix2 0).
  - apply bpow_le. unfold femin. lia.
  - change (bpow radix2 0) with (IZR 1). apply IZR_le. lia.
Qed.

(* the x87 quotient (long double)dy / (long double)dx *)
Lemma slope80_R dx dy : 0 < dx < 2 ^ 64 -> 0 <= dy < 2 ^ 64 ->
  let s80 := div80 (ofZ80 dy) (ofZ80 dx) in
  is_finite s80 = true /\ (0 <= B2R s80)%R /\ (Rabs (B2R s80) <= bpow radix2 64)%R /\
  (B2R s80 = 0%R \/ (bpow radix2 (-64) <= B2R s80)%R) /\
  exists e1, (Rabs e1 <= bpow radix2 (-64))%R /\ B2R s80 = (IZR dy / IZR dx * (1 + e1))%R.
Proof.
  intros Hdx Hdy s80.
  destruct (ofZ80_exact dx ltac:(lia)) as [EX FX]. destruct (ofZ80_exact dy ltac:(lia)) as [EY FY].
  assert (HX : (1 <= IZR dx)%R) by (apply IZR_le; lia).
  assert (HX2 : (IZR dx <= bpow radix2 64)%R) by (rewrite <- IZR_pow2 by lia; apply IZR_le; lia).
  assert (HY : (0 <= IZR dy)%R) by (apply IZR_le; lia).
  assert (HY2 : (IZR dy <= bpow radix2 64)%R) by (rewrite <- IZR_pow2 by lia; apply IZR_le; lia).
  set (Q := (IZR dy / IZR dx)%R).
  assert (Q0 : (0 <= Q)%R) by (unfold Q; apply Rmult_le_pos; [lra|]; left; apply Rinv_0_lt_compat; lra).
  assert (QY : (Q * IZR dx = IZR dy)%R) by (unfold Q; field; lra).
  assert (Q1 : (Q <= bpow radix2 64)%R) by nra.
  assert (Q2 : Q = 0%R \/ (bpow radix2 (-64) <= Q)%R).
  { destruct (Z.eq_dec dy 0) as [->|N]; [left; unfold Q; lra|right].
    assert (1 <= IZR dy)%R by (apply IZR_le; lia).
    assert (B : (bpow radix2 (-64) * bpow radix2 64 = 1)%R) by (rewrite <- bpow_plus; reflexivity).
    pose proof (bpow_gt_0 radix2 (-64)). nra. }
  assert (AQ : (Rabs Q <= bpow radix2 64)%R) by (rewrite Rabs_pos_eq; lra).
  assert (R1 : (Rabs (RN 64 16384 Q) <= bpow radix2 64)%R)
    by (apply (RN_abs_le 64 16384 p64); [unfold femin; lia|exact AQ]).
  assert (NZ : B2R (ofZ80 dx) <> 0%R) by (rewrite EX; lra).
  generalize (Bdiv_correct 64 16384 p64 e64 mode_NE (ofZ80 dy) (ofZ80 dx) NZ).
  rewrite EX, EY. fold Q.
  change (round radix2 (SpecFloat.fexp 64 16384) (round_mode mode_NE)) with (RN 64 16384).
  rewrite Rlt_bool_true by (eapply Rle_lt_trans; [exact R1|apply bpow_lt; lia]).
  fold (div80 (ofZ80 dy) (ofZ80 dx)). fold s80. intros (A & B & _).
  split; [now rewrite B|]. rewrite A. split; [apply (RN_ge_0 64 16384 p64); exact Q0|].
  split; [exact R1|]. split.
  - destruct Q2 as [->|Q2]; [left; unfold RN; apply round_0; auto with typeclass_instances|right].
    apply (RN_ge_bpow 64 16384 p64); [unfold femin; lia|exact Q2].
  - apply (RN_relerr 64 16384 p64). destruct Q2 as [Q2|Q2]; [now left|right].
    rewrite Rabs_pos_eq by lra. eapply Rle_trans; [|exact Q2]. apply bpow_le. unfold femin. lia.
Qed.

(* rounding the x87 value to float / double *)
Lemma narrow_R (x : f80) p2 e2 (H1 : Prec_gt_0 p2) (H2 : Prec_lt_emax p2 e2) :
  66 <= e2 -> is_finite x = true -> (0 <= B2R x)%R -> (Rabs (B2R x) <= bpow radix2 64)%R ->
  (B2R x = 0%R \/ (bpow radix2 (-64) <= B2R x)%R) ->
  let y := conv x p2 e2 H1 H2 in
  is_finite y = true /\ (0 <= B2R y)%R /\ (Rabs (B2R y) <= bpow radix2 64)%R /\
  (B2R y = 0%R \/ (bpow radix2 (-64) <= B2R y)%R) /\
  exists e, (Rabs e <= bpow radix2 (- p2))%R /\ B2R y = (B2R x * (1 + e))%R.
Proof.
  intros He Hf Hx0 Hb Hz y. assert (P0 : 0 < p2) by exact H1.
  assert (R1 : (Rabs (RN p2 e2 (B2R x)) <= bpow radix2 64)%R)
    by (apply (RN_abs_le p2 e2 H1); [unfold femin; lia|exact Hb]).
  destruct (conv_R p2 e2 H1 H2 x Hf) as [A B].
  { eapply Rle_lt_trans; [exact R1|apply bpow_lt; lia]. }
  fold y in A, B. split; [exact B|]. rewrite A. split; [apply (RN_ge_0 p2 e2 H1); exact Hx0|].
  split; [exact R1|]. split.
  { destruct Hz as [->|Hz]; [left; unfold RN; apply round_0; auto with typeclass_instances|right].
    apply (RN_ge_bpow p2 e2 H1); [unfold femin; lia|exact Hz]. }
  apply (RN_relerr p2 e2 H1). destruct Hz as [Hz|Hz]; [now left|right].
  pose proof (bpow_gt_0 radix2 (-64)).
  rewrite Rabs_pos_eq by lra. eapply Rle_trans; [|exact Hz]. apply bpow_le. unfold femin. lia.
Qed.

Definition fprec (c : cfg) : Z := if c_fdouble c then 53 else 24.

Lemma slope_R c dx dy : 0 < dx < 2 ^ 64 -> 0 <= dy < 2 ^ 64 ->
  let s := slope_to_floating c (dx, dy) in
  is_finite s = true /\ (0 <= B2R s <= bpow radix2 64)%R /\
  (B2R s = 0%R \/ (bpow radix2 (-64) <= B2R s)%R) /\
  exists e1 e2, (Rabs e1 <= bpow radix2 (-64))%R /\ (Rabs e2 <= bpow radix2 (- fprec c))%R /\
    B2R s = (IZR dy / IZR dx * (1 + e1) * (1 + e2))%R.
Proof.
  intros Hdx Hdy s. unfold slope_to_floating in s. cbn [fst snd] in s.
  destruct (slope80_R dx dy Hdx Hdy) as (F & P0 & Bd & Zr & e1 & E1 & V). cbv zeta in *.
  set (s80 := div80 (ofZ80 dy) (ofZ80 dx)) in *.
  unfold fprec. destruct (c_fdouble c).
  - destruct (narrow_R s80 53 1024 p53 e53 ltac:(lia) F P0 Bd Zr) as (F2 & P2 & B2 & L2 & e2 & E2 & V2).
    split; [exact F2|]. split; [split; [exact P2|eapply Rle_trans; [apply Rle_abs|exact B2]]|].
    split; [exact L2|]. exists e1, e2. split; [exact E1|]. split; [exact E2|].
    unfold s, f80_to_f64. rewrite V2, V. reflexivity.
  - destruct (narrow_R s80 24 128 p24 e24 ltac:(lia) F P0 Bd Zr) as (F2 & P2 & B2 & L2 & e2 & E2 & V2).
    fold (f80_to_f32 s80) in *.
    destruct (conv_exact (f80_to_f32 s80) 53 1024 p53 e53 64) as [A B]; try lia; auto.
    split; [exact B|]. split.
    { unfold s, f32_to_f64. rewrite A. split; [exact P2|eapply Rle_trans; [apply Rle_abs|exact B2]]. }
    split; [unfold s, f32_to_f64; rewrite A; exact L2|].
    exists e1, e2. split; [exact E1|]. split; [exact E2|].
    unfold s, f32_to_f64. rewrite A, V2, V. reflexivity.
Qed.

(* the tail of Segment::operator(): a finite product in [0, 2^62) is truncated and offset *)
Lemma seg_eval_floor c s k :
  let p := mul64 (sg_slope s) (ofZ64 (key_diff c k (sg_key s))) in
  is_finite p = true -> (0 <= B2R p < bpow radix2 62)%R -> 0 <= sg_icpt s < 2 ^ 32 ->
  seg_eval c s k = Zfloor (B2R p) + sg_icpt s.
Proof.
  intros p Hf [H0 H1] Hi. unfold seg_eval. cbv zeta. fold p.
  assert (T : truncZ p = Some (Zfloor (B2R p))).
  { rewrite truncZ_finite by exact Hf. now rewrite Ztrunc_floor. }
  set (t := Zfloor (B2R p)) in *.
  assert (Ht : 0 <= t < 2 ^ 62).
  { split; [apply Zfloor_lub; exact H0|]. apply lt_IZR. rewrite IZR_pow2 by lia.
    eapply Rle_lt_trans; [apply Zfloor_lb|exact H1]. }
  rewrite T. replace (t >=? 2 ^ 63) with false by (symmetry; rewrite Z.geb_leb; apply Z.leb_gt; lia).
  assert (D : double_to_size_t c p = t).
  { unfold double_to_size_t, cvtt_u64_avx512. rewrite T. destruct (c_avx512 c).
    - replace (0 <=? t) with true by (symmetry; apply Z.leb_le; lia).
      replace (t <? 2 ^ 64) with true by (symmetry; apply Z.ltb_lt; lia). reflexivity.
    - replace (t <? 2 ^ 63) with true by (symmetry; apply Z.ltb_lt; lia).
      replace (- 2 ^ 63 <=? t) with true by (symmetry; apply Z.leb_le; lia).
      unfold wrapU. apply Z.mod_small. lia. }
  rewrite D. unfold wrapU. apply Z.mod_small. lia.
Qed.

(* the product slope * double(dk), rounded to double *)
Lemma product_R c dx dy dk : 0 < dx < 2 ^ 64 -> 0 <= dy < 2 ^ 64 -> 0 <= dk < 2 ^ 64 ->
  let p := mul64 (slope_to_floating c (dx, dy)) (ofZ64 dk) in
  is_finite p = true /\ (0 <= B2R p)%R /\
  exists e1 e2 e3 e4, (Rabs e1 <= bpow radix2 (-64))%R /\ (Rabs e2 <= bpow radix2 (- fprec c))%R /\
    (Rabs e3 <= bpow radix2 (-53))%R /\ (Rabs e4 <= bpow radix2 (-53))%R /\
    B2R p = (IZR dy * IZR dk / IZR dx * (1 + e1) * (1 + e2) * (1 + e3) * (1 + e4))%R.
Proof.
  intros Hdx Hdy Hdk p.
  destruct (slope_R c dx dy Hdx Hdy) as (Fs & [S0 S1] & SL & e1 & e2 & E1 & E2 & Vs). cbv zeta in *.
  destruct (ofZ64_R dk Hdk) as (Fd & [D0 D1] & DL & e3 & E3 & Vd).
  set (s := slope_to_floating c (dx, dy)) in *. set (d := ofZ64 dk) in *.
  set (P := (B2R s * B2R d)%R).
  assert (P0 : (0 <= P)%R) by (unfold P; nra).
  assert (P1 : (Rabs P <= bpow radix2 128)%R).
  { rewrite Rabs_pos_eq by exact P0. change 128 with (64 + 64). rewrite bpow_plus. unfold P. nra. }
  assert (PL : P = 0%R \/ (bpow radix2 (-64) <= P)%R).
  { destruct SL as [SL|SL]; [left; unfold P; rewrite SL; ring|].
    destruct DL as [DL|DL]; [left; unfold P; rewrite DL; ring|right].
    change (bpow radix2 0) with 1%R in DL. pose proof (bpow_gt_0 radix2 (-64)). unfold P. nra. }
  assert (R1 : (Rabs (RN 53 1024 P) <= bpow radix2 128)%R)
    by (apply (RN_abs_le 53 1024 p53); [unfold femin; lia|exact P1]).
  generalize (Bmult_correct 53 1024 p53 e53 mode_NE s d). fold P.
  change (round radix2 (SpecFloat.fexp 53 1024) (round_mode mode_NE)) with (RN 53 1024).
  rewrite Rlt_bool_true by (eapply Rle_lt_trans; [exact R1|apply bpow_lt; lia]).
  fold (mul64 s d). fold p. intros (A & B & _).
  split; [rewrite B, Fs, Fd; reflexivity|]. rewrite A.
  split; [apply (RN_ge_0 53 1024 p53); exact P0|].
  destruct (RN_relerr 53 1024 p53 P) as (e4 & E4 & V4).
  { destruct PL as [PL|PL]; [now left|right]. rewrite Rabs_pos_eq by exact P0.
    eapply Rle_trans; [|exact PL]. apply bpow_le. unfold femin. lia. }
  exists e1, e2, e3, e4. repeat (split; [assumption|]).
  rewrite V4. unfold P. rewrite Vs, Vd. field.
  apply IZR_neq. lia.
Qed.

(* assembly, parameterised by the bound B on the exact position and the constant C *)
Lemma eval_ok_core c dx dy s k B C :
  0 < dx < 2 ^ 64 -> 0 <= dy < 2 ^ 64 ->
  sg_slope s = slope_to_floating c (dx, dy) -> 0 <= sg_icpt s < 2 ^ 32 ->
  0 <= k - sg_key s < 2 ^ 64 -> key_diff c k (sg_key s) = k - sg_key s ->
  (IZR dy * IZR (k - sg_key s) / IZR dx < B)%R ->
  ((1 + bpow radix2 (-64)) * (1 + bpow radix2 (- fprec c)) * (1 + bpow radix2 (-53))
     * (1 + bpow radix2 (-53)) - 1 < C)%R ->
  (B * C <= / 2)%R -> (B + / 2 <= bpow radix2 62)%R ->
  eval_ok c dx dy s k.
Proof.
  intros Hdx Hdy Hs Hi Hdk Hkd HB HC HBC HB62.
  set (dk := k - sg_key s) in *.
  destruct (product_R c dx dy dk Hdx Hdy Hdk)
    as (Fp & P0 & e1 & e2 & e3 & e4 & E1 & E2 & E3 & E4 & V). cbv zeta in *.
  set (E := (IZR dy * IZR dk / IZR dx)%R) in *.
  assert (E0 : (0 <= E)%R).
  { unfold E. apply Rmult_le_pos; [apply Rmult_le_pos; apply IZR_le; lia|].
    left. apply Rinv_0_lt_compat. apply IZR_lt. lia. }
  pose proof (prod_err E B C e1 e2 e3 e4 _ _ _ _ (conj E0 HB) E1 E2 E3 E4 HC HBC) as Hc.
  rewrite <- V in Hc.
  set (p := mul64 (slope_to_floating c (dx, dy)) (ofZ64 dk)) in *.
  assert (P1 : (B2R p < bpow radix2 62)%R).
  { apply Rabs_def2 in Hc. lra. }
  pose proof (seg_eval_floor c s k) as SE. cbv zeta in SE. rewrite Hs, Hkd in SE. fold dk p in SE.
  specialize (SE Fp (conj P0 P1) Hi).
  destruct (floor_close dx dy dk (B2R p) ltac:(lia) P0 Hc) as (T0 & T1 & T2).
  left. exists (Zfloor (B2R p)). split; [exact SE|]. split; [exact T0|].
  unfold ev_close. fold dk. split; assumption.
Qed.

Lemma exact_lt dx dy dk n : 0 < dx -> dy * dk < n * dx -> (IZR dy * IZR dk / IZR dx < IZR n)%R.
Proof.
  intros Hdx H. assert (HX : (0 < IZR dx)%R) by (now apply IZR_lt).
  apply IZR_lt in H. rewrite !mult_IZR in H.
  apply Rmult_lt_reg_r with (IZR dx); [exact HX|].
  replace (IZR dy * IZR dk / IZR dx * IZR dx)%R with (IZR dy * IZR dk)%R by (field; lra). exact H.
Qed.

Section Main.
Variables (c : cfg) (dx dy : Z) (s : segment) (k : Z).
Hypothesis Hdx : 0 < dx < 2 ^ 64.
Hypothesis Hdy : 0 <= dy < 2 ^ 64.
Hypothesis Hslope : sg_slope s = slope_to_floating c (dx, dy).
Hypothesis Hicpt : 0 <= sg_icpt s < 2 ^ 32.
Hypothesis Hdk : 0 <= k - sg_key s < 2 ^ 64.
Hypothesis Hkd : key_diff c k (sg_key s) = k - sg_key s.

Theorem eval_ok_float :
  c_fdouble c = false -> dy * (k - sg_key s) < 2 ^ 22 * dx -> eval_ok c dx dy s k.
Proof.
  intros Hf Hb.
  apply (eval_ok_core c dx dy s k (IZR (2 ^ 22)) (/ 8388608)); auto.
  - apply exact_lt; lia.
  - unfold fprec. rewrite Hf. exact const_float.
  - change (2 ^ 22) with 4194304. lra.
  - change (2 ^ 22) with 4194304. change (bpow radix2 62) with 4611686018427387904%R. lra.
Qed.

Theorem eval_ok_double :
  c_fdouble c = true -> dy * (k - sg_key s) < 2 ^ 50 * dx -> eval_ok c dx dy s k.
Proof.
  intros Hf Hb.
  apply (eval_ok_core c dx dy s k (IZR (2 ^ 50)) (/ 2251799813685248)); auto.
  - apply exact_lt; lia.
  - unfold fprec. rewrite Hf. exact const_double.
  - change (2 ^ 50) with 1125899906842624. lra.
  - change (2 ^ 50) with 1125899906842624. change (bpow radix2 62) with 4611686018427387904%R. lra.
Qed.
End Main.

(* ---------- the flat extra segment: slope 0 ---------- *)
Lemma ofZ64_finite z : Z.abs z <= 2 ^ 64 -> is_finite (ofZ64 z) = true.
Proof.
  intros Hz. apply (ofZ_R 53 1024 p53 e53 z false).
  eapply Rle_lt_trans; [apply (RN_abs_le 53 1024 p53 64); [unfold femin; lia|]|apply bpow_lt; lia].
  rewrite <- abs_IZR, <- IZR_pow2 by lia. apply IZR_le. exact Hz.
Qed.

Theorem eval_ok_zero c s k :
  sg_slope s = f64_zero -> 0 <= sg_icpt s < 2 ^ 32 ->
  is_finite (ofZ64 (key_diff c k (sg_key s))) = true ->
  eval_ok c 1 0 s k.
Proof.
  intros Hs Hi Hf.
  pose proof (seg_eval_floor c s k) as SE. cbv zeta in SE. rewrite Hs in SE.
  set (d := ofZ64 (key_diff c k (sg_key s))) in *.
  assert (Z : exists b, mul64 f64_zero d = B754_zero b).
  { unfold mul64, f64_zero. destruct d; try discriminate; cbn; eauto. }
  destruct Z as [b Zb]. rewrite Zb in SE. cbn [B2R is_finite] in SE.
  rewrite Zfloor_IZR in SE.
  left. exists 0. split.
  - apply SE; auto. split; [lra|apply bpow_gt_0].
  - unfold ev_close. lia.
Qed.

Corollary eval_ok_zero_bounded c s k :
  sg_slope s = f64_zero -> 0 <= sg_icpt s < 2 ^ 32 ->
  Z.abs (key_diff c k (sg_key s)) <= 2 ^ 64 -> eval_ok c 1 0 s k.
Proof. intros Hs Hi Hb. apply eval_ok_zero; auto. now apply ofZ64_finite. Qed.

(* ---------- key_diff for the standard key widths ---------- *)
Definition std_width (c : cfg) : Prop :=
  kbits (c_kt c) = 8 \/ kbits (c_kt c) = 16 \/ kbits (c_kt c) = 32 \/ kbits (c_kt c) = 64.

Lemma key_diff_exact c k key : std_width c ->
  0 <= k - key < 2 ^ kbits (c_kt c) -> key_diff c k key = k - key.
Proof.
  unfold std_width, key_diff. intros W H.
  destruct W as [E|[E|[E|E]]]; rewrite E in *; destruct (ksigned (c_kt c)); cbn [andb orb negb Z.eqb Z.geb Z.compare Pos.compare Pos.compare_cont Pos.eqb];
    try reflexivity; unfold wrapU; apply Z.mod_small; exact H.
Qed.

Lemma key_diff_bounded c k key : std_width c ->
  Z.abs (k - key) <= 2 ^ 64 -> Z.abs (key_diff c k key) <= 2 ^ 64.
Proof.
  unfold std_width, key_diff. intros W H.
  destruct W as [E|[E|[E|E]]]; rewrite E in *; destruct (ksigned (c_kt c)); cbn [andb orb negb Z.eqb Z.geb Z.compare Pos.compare Pos.compare_cont Pos.eqb];
    try exact H; unfold wrapU.
  all: match goal with |- Z.abs (?a mod ?m) <= _ => pose proof (Z.mod_pos_bound a m ltac:(lia)) end; lia.
Qed.

(* stage-1 statement on its own: size_t(p) for a finite 0 <= p < 2^63 is floor(p) *)
Lemma double_to_size_t_floor c (p : f64) :
  is_finite p = true -> (0 <= B2R p < bpow radix2 63)%R ->
  truncZ p = Some (Zfloor (B2R p)) /\ double_to_size_t c p = Zfloor (B2R p).
Proof.
  intros Hf [H0 H1].
  assert (T : truncZ p = Some (Zfloor (B2R p))).
  { rewrite truncZ_finite by exact Hf. now rewrite Ztrunc_floor. }
  split; [exact T|]. set (t := Zfloor (B2R p)) in *.
  assert (Ht : 0 <= t < 2 ^ 63).
  { split; [apply Zfloor_lub; exact H0|]. apply lt_IZR. rewrite IZR_pow2 by lia.
    eapply Rle_lt_trans; [apply Zfloor_lb|exact H1]. }
  unfold double_to_size_t, cvtt_u64_avx512. rewrite T. destruct (c_avx512 c).
  - replace (0 <=? t) with true by (symmetry; apply Z.leb_le; lia).
    replace (t <? 2 ^ 64) with true by (symmetry; apply Z.ltb_lt; lia). reflexivity.
  - replace (t <? 2 ^ 63) with true by (symmetry; apply Z.ltb_lt; lia).
    replace (- 2 ^ 63 <=? t) with true by (symmetry; apply Z.leb_le; lia).
    unfold wrapU. apply Z.mod_small. lia.
Qed.

(* packaged for the standard key widths: key_diff is exact when 0 <= k - key < 2^kbits *)
Corollary eval_ok_float_std c dx dy s k : std_width c ->
  0 < dx < 2 ^ 64 -> 0 <= dy < 2 ^ 64 -> sg_slope s = slope_to_floating c (dx, dy) ->
  0 <= sg_icpt s < 2 ^ 32 -> 0 <= k - sg_key s < 2 ^ kbits (c_kt c) ->
  c_fdouble c = false -> dy * (k - sg_key s) < 2 ^ 22 * dx -> eval_ok c dx dy s k.
Proof.
  intros W Hdx Hdy Hs Hi Hk Hf Hb.
  assert (2 ^ kbits (c_kt c) <= 2 ^ 64) by (destruct W as [E|[E|[E|E]]]; rewrite E; lia).
  apply eval_ok_float; auto; [lia|now apply key_diff_exact].
Qed.

Corollary eval_ok_double_std c dx dy s k : std_width c ->
  0 < dx < 2 ^ 64 -> 0 <= dy < 2 ^ 64 -> sg_slope s = slope_to_floating c (dx, dy) ->
  0 <= sg_icpt s < 2 ^ 32 -> 0 <= k - sg_key s < 2 ^ kbits (c_kt c) ->
  c_fdouble c = true -> dy * (k - sg_key s) < 2 ^ 50 * dx -> eval_ok c dx dy s k.
Proof.
  intros W Hdx Hdy Hs Hi Hk Hf Hb.
  assert (2 ^ kbits (c_kt c) <= 2 ^ 64) by (destruct W as [E|[E|[E|E]]]; rewrite E; lia).
  apply eval_ok_double; auto; [lia|now apply key_diff_exact].
Qed.

Print Assumptions eval_ok_float.
Print Assumptions eval_ok_double.
Print Assumptions eval_ok_zero.
Print Assumptions eval_ok_float_std.
Print Assumptions key_diff_bounded.

(* ComposeMulti3.v — C13/C14 totality and the C20 rule of MultidimensionalPGMIndex.
   * multi_build_total: the constructor SUCCEEDS on every admissible input (valid configuration,
     Dimensions non-negative coordinates per point, every coordinate below 2^(FieldBits-1) — the check
     the constructor itself performs —, at least one and at most 2^30 points); no floating-point
     hypothesis.  The inner PGMIndex::build is total by ComposeBuild.build_total: the sorted codes are
     in the code type and none of them is the reserved value (narrow coordinates).
   * multi_index_total_end_to_end / multi_contains_total_end_to_end: ComposeMulti2's end-to-end theorems
     with `exists mu, multi_build m points = Ok mu /\ ...` instead of the hypothesis.
   * C20: a point whose code is the reserved value of the inner index always has a coordinate that is
     too wide, so the constructor throws runtime_error for it (never invalid_argument): the reserved
     code can never be silently indexed, and invalid_argument is never raised by this class. *)
Require Import Base Fp PlaModel GenLeaf IndexModel IndexProofs MultiModel MultiMorton MultiRange MultiBigmin
  IdxChain FloatOk ComposeIdx ComposeBuild ComposeFloat32 ComposeMulti MultiRange2 ComposeMulti2 Reject Reject2.
From Coq Require Import ZifyBool Permutation.
Local Open Scope Z_scope.

(* every coordinate passes the constructor's width check *)
Definition narrow (m : mcfg) (points : list (list Z)) : Prop :=
  Forall (Forall (fun x => x < 2 ^ (field_bits m - 1))) points.

Lemma bit_width_narrow x f : 0 <= x -> x < 2 ^ (f - 1) -> 1 <= f -> (BIT_WIDTH x >=? f) = false.
Proof.
  intros Hx Hlt Hf. unfold BIT_WIDTH, clzll. destruct (x =? 0) eqn:E; [lia|].
  assert (Z.log2 x < f - 1) by (apply Z.log2_lt_pow2; lia). lia.
Qed.

Lemma narrow_no_wide m points : wf_mcfg m -> Forall (point_ok m) points -> narrow m points ->
  has_wide m points = false.
Proof.
  intros Hwf Hok Hn. pose proof (F_pos m Hwf) as HF. unfold has_wide.
  destruct (existsb _ points) eqn:E; [|reflexivity]. exfalso.
  apply existsb_exists in E. destruct E as (p & Hp & E). apply existsb_exists in E. destruct E as (x & Hx & E).
  unfold narrow in Hn. rewrite Forall_forall in Hok, Hn.
  destruct (Hok p Hp) as [_ Hnn]. specialize (Hn p Hp). rewrite Forall_forall in Hnn, Hn.
  rewrite (bit_width_narrow x (field_bits m) (Hnn x Hx) (Hn x Hx) HF) in E. discriminate.
Qed.

Lemma no_wide_narrow m points : wf_mcfg m -> Forall (point_ok m) points -> has_wide m points = false ->
  narrow m points.
Proof.
  intros Hwf Hok Hw. pose proof (F_pos m Hwf) as HF. unfold narrow. rewrite Forall_forall in *. intros p Hp.
  destruct (Hok p Hp) as [_ Hnn]. rewrite Forall_forall in *. intros x Hx.
  apply (bit_width_small x (field_bits m) (Hnn x Hx) HF).
  destruct (BIT_WIDTH x >=? field_bits m) eqn:E; [|reflexivity].
  assert (has_wide m points = true); [|congruence].
  unfold has_wide. apply existsb_exists. exists p. split; [exact Hp|]. apply existsb_exists. exists x. tauto.
Qed.

(* narrow, non-negative points: coordinates fit their fields, and none is the all-ones point *)
Lemma narrow_point m p : wf_mcfg m -> point_ok m p -> Forall (fun x => x < 2 ^ (field_bits m - 1)) p ->
  zlen p = m_dims m /\ coords_ok (field_bits m) p /\ p <> top_point m.
Proof.
  intros Hwf [Hl Hnn] Hn. pose proof (F_pos m Hwf) as HF. pose proof (D_pos m Hwf) as HD.
  assert (Hpow : 2 ^ field_bits m = 2 * 2 ^ (field_bits m - 1)).
  { rewrite <- Z.pow_succ_r by lia. f_equal. lia. }
  assert (0 < 2 ^ (field_bits m - 1)) by (apply Z.pow_pos_nonneg; lia).
  split; [exact Hl|]. split.
  - unfold coords_ok. rewrite Forall_forall in *. intros x Hx. specialize (Hnn x Hx). specialize (Hn x Hx). lia.
  - intros E. rewrite Forall_forall in Hn.
    assert (Hx : In (2 ^ field_bits m - 1) p).
    { rewrite E. unfold top_point. destruct (Z.to_nat (m_dims m)) eqn:En; [lia|]. left. reflexivity. }
    specialize (Hn _ Hx). lia.
Qed.

(* ---- the sorted codes of admissible points are admissible data for the inner index ---- *)
Lemma codes_data_ok_pre m points :
  valid_mcfg m -> c_kt (m_cfg m) = mkK (m_tbits m) false ->
  Forall (point_ok m) points -> narrow m points -> points <> [] -> zlen points < 2 ^ 32 ->
  data_ok (m_cfg m) (sort_codes (map (encode m) points)).
Proof.
  intros Hv Hkt Hok Hn Hne H32. pose proof (valid_wf m Hv) as Hwf.
  set (data := sort_codes (map (encode m) points)).
  pose proof (sort_codes_perm (map (encode m) points)) as Hperm. fold data in Hperm.
  pose proof (Permutation_length Hperm) as Hlen. rewrite map_length in Hlen.
  assert (Hne' : data <> []).
  { intros E. rewrite E in Hlen. destruct points; [contradiction|discriminate]. }
  assert (Hall : forall x, In x data -> 0 <= x /\ x < sentinel (m_cfg m) /\ x < 2 ^ m_tbits m).
  { intros x Hx. apply (Permutation_in _ Hperm) in Hx. apply in_map_iff in Hx. destruct Hx as (p & <- & Hp).
    unfold narrow in Hn. rewrite Forall_forall in Hok, Hn.
    destruct (narrow_point m p Hwf (Hok p Hp) (Hn p Hp)) as (Hl & Hc & Hnt).
    pose proof (encode_range m Hwf p Hl) as Hr.
    pose proof (encode_lt_top m Hwf p Hl Hc Hnt) as Hlt. pose proof (top_le_sentinel m Hwf Hkt) as Hts.
    assert (sentinel (m_cfg m) < 2 ^ m_tbits m).
    { unfold sentinel. rewrite Hkt. unfold kmax. cbn [ksigned kbits]. lia. }
    lia. }
  constructor.
  - exact Hne'.
  - apply sort_codes_sorted.
  - apply Forall_forall. intros x Hx. destruct (Hall x Hx) as (H0 & _ & H1).
    rewrite Hkt. unfold in_ktype, kmin, kmax. cbn [ksigned kbits]. lia.
  - apply Hall. apply (last_In data 0 Hne').
  - unfold zlen in *. lia.
Qed.

(* ==== C13/C14 totality: the constructor succeeds ==== *)
Theorem multi_build_total m points :
  valid_mcfg m -> c_kt (m_cfg m) = mkK (m_tbits m) false -> idx_ok (m_cfg m) -> cfg_small (m_cfg m) ->
  Forall (point_ok m) points -> narrow m points -> points <> [] -> zlen points <= 2 ^ 30 ->
  exists mu, multi_build m points = Ok mu.
Proof.
  intros Hv Hkt Hc Hsm Hok Hn Hne Hlen. pose proof (valid_wf m Hv) as Hwf.
  pose proof (codes_data_ok_pre m points Hv Hkt Hok Hn Hne ltac:(lia)) as Hd.
  assert (Hl : zlen (sort_codes (map (encode m) points)) <= 2 ^ 30).
  { pose proof (Permutation_length (sort_codes_perm (map (encode m) points))) as Hp.
    rewrite map_length in Hp. unfold zlen in *. lia. }
  destruct (build_total (m_cfg m) _ Hc Hsm Hd Hl) as (ix & E & _).
  unfold multi_build. fold (has_wide m points). rewrite (narrow_no_wide m points Hwf Hok Hn).
  rewrite E. cbn [bind]. eexists. reflexivity.
Qed.

(* the hypothesis `narrow` is exactly the constructor's own check: without it the constructor throws *)
Theorem multi_build_ok_iff m points :
  valid_mcfg m -> c_kt (m_cfg m) = mkK (m_tbits m) false -> idx_ok (m_cfg m) -> cfg_small (m_cfg m) ->
  Forall (point_ok m) points -> points <> [] -> zlen points <= 2 ^ 30 ->
  ((exists mu, multi_build m points = Ok mu) <-> narrow m points).
Proof.
  intros Hv Hkt Hc Hsm Hok Hne Hlen. split; [|intros Hn; apply multi_build_total; assumption].
  intros (mu & Hb). apply (no_wide_narrow m points (valid_wf m Hv) Hok).
  destruct (has_wide m points) eqn:E; [|reflexivity].
  rewrite (multi_wide_wins m points E) in Hb. discriminate.
Qed.

(* ==== the end-to-end theorems with the construction inside the conclusion ==== *)
Section Total.
  Variables (m : mcfg) (points : list (list Z)).
  Hypothesis Hv : valid_mcfg m.                                   (* Dimensions in {2,3,4}, T = uint32/uint64 *)
  Hypothesis Hkt : c_kt (m_cfg m) = mkK (m_tbits m) false.        (* the inner index is PGMIndex<T, ...> *)
  Hypothesis Hc : idx_ok (m_cfg m).
  Hypothesis Hsm : cfg_small (m_cfg m).
  Hypothesis Hok : Forall (point_ok m) points.                    (* Dimensions coordinates, non-negative *)
  Hypothesis Hnar : narrow m points.                              (* the constructor's width check passes *)
  Hypothesis Hne : points <> [].
  Hypothesis Hn : zlen points <= 2 ^ 30.
  Hypothesis Hfl : c_fdouble (m_cfg m) = false ->
    zlen points + c_eps (m_cfg m) <= 2 ^ 22 - 1 /\ zlen points + 1 + c_epsrec (m_cfg m) <= 2 ^ 22 - 1.

  (* C13 *)
  Theorem multi_index_total_end_to_end :
    exists mu, multi_build m points = Ok mu /\
      let stored := map (decode m) (mu_data mu) in
      Permutation stored points /\ sortedb (mu_data mu) = true /\
      (forall pmin pmax, zlen pmin = m_dims m -> zlen pmax = m_dims m ->
         coords_ok (field_bits m) pmin -> coords_ok (field_bits m) pmax -> Forall2 Z.le pmin pmax ->
         m_dims m = 3 \/ pmin <> top_point m ->
         multi_range m mu pmin pmax = Ok (filter (in_boxb pmin pmax) stored)).
  Proof.
    destruct (multi_build_total m points Hv Hkt Hc Hsm Hok Hnar Hne Hn) as (mu & Hb).
    exists mu. split; [exact Hb|].
    exact (multi_index_end_to_end m points mu Hv Hkt Hc Hsm Hok Hne Hn Hfl Hb).
  Qed.

  (* C14 *)
  Theorem multi_contains_total_end_to_end :
    exists mu, multi_build m points = Ok mu /\
      forall p, zlen p = m_dims m -> coords_ok (field_bits m) p -> m_dims m = 3 \/ p <> top_point m ->
        (exists b, multi_contains m mu p = Ok b) /\ (multi_contains m mu p = Ok true <-> In p points).
  Proof.
    destruct (multi_build_total m points Hv Hkt Hc Hsm Hok Hnar Hne Hn) as (mu & Hb).
    exists mu. split; [exact Hb|]. intros p.
    exact (multi_contains_end_to_end m points mu Hv Hkt Hc Hsm Hok Hne Hn Hfl Hb p).
  Qed.

  (* both, for the one index the constructor returns *)
  Theorem multi_total_end_to_end :
    exists mu, multi_build m points = Ok mu /\
      (let stored := map (decode m) (mu_data mu) in
       Permutation stored points /\ sortedb (mu_data mu) = true /\
       (forall pmin pmax, zlen pmin = m_dims m -> zlen pmax = m_dims m ->
          coords_ok (field_bits m) pmin -> coords_ok (field_bits m) pmax -> Forall2 Z.le pmin pmax ->
          m_dims m = 3 \/ pmin <> top_point m ->
          multi_range m mu pmin pmax = Ok (filter (in_boxb pmin pmax) stored))) /\
      (forall p, zlen p = m_dims m -> coords_ok (field_bits m) p -> m_dims m = 3 \/ p <> top_point m ->
         (exists b, multi_contains m mu p = Ok b) /\ (multi_contains m mu p = Ok true <-> In p points)) /\
      ~ In (top_point m) points.
  Proof.
    destruct (multi_build_total m points Hv Hkt Hc Hsm Hok Hnar Hne Hn) as (mu & Hb).
    exists mu. split; [exact Hb|]. split; [|split].
    - exact (multi_index_end_to_end m points mu Hv Hkt Hc Hsm Hok Hne Hn Hfl Hb).
    - intros p. exact (multi_contains_end_to_end m points mu Hv Hkt Hc Hsm Hok Hne Hn Hfl Hb p).
    - exact (top_not_stored m points mu Hv Hok Hfl Hb).
  Qed.
End Total.

(* ==== C20 for MultidimensionalPGMIndex: what happens to the reserved code ==== *)
Lemma narrow_code_below m p : valid_mcfg m -> c_kt (m_cfg m) = mkK (m_tbits m) false ->
  point_ok m p -> Forall (fun x => x < 2 ^ (field_bits m - 1)) p -> encode m p < sentinel (m_cfg m).
Proof.
  intros Hv Hkt Hp Hn. pose proof (valid_wf m Hv) as Hwf.
  destruct (narrow_point m p Hwf Hp Hn) as (Hl & Hc & Hnt).
  pose proof (encode_lt_top m Hwf p Hl Hc Hnt). pose proof (top_le_sentinel m Hwf Hkt). lia.
Qed.

(* a point (Dimensions non-negative coordinates) whose code is the value the inner PGMIndex reserves
   has a coordinate of FieldBits bits or more: the constructor throws runtime_error for it, wherever
   it stands in the input.  For Dimensions in {2,4} that point exists (the all-ones point,
   ComposeMulti2.top_code_reserved); for Dimensions = 3 no code is the reserved value. *)
Theorem multi_reserved_code_rejected m points p :
  valid_mcfg m -> c_kt (m_cfg m) = mkK (m_tbits m) false ->
  In p points -> point_ok m p -> encode m p = sentinel (m_cfg m) ->
  multi_build m points = Err ThrowRuntimeError.
Proof.
  intros Hv Hkt Hin Hp He. pose proof (valid_wf m Hv) as Hwf. pose proof (F_pos m Hwf) as HF.
  destruct (existsb (fun x => BIT_WIDTH x >=? field_bits m) p) eqn:E.
  - apply multi_wide_wins. unfold has_wide. apply existsb_exists. exists p. tauto.
  - exfalso. assert (Hn : Forall (fun x => x < 2 ^ (field_bits m - 1)) p).
    { destruct Hp as [_ Hnn]. rewrite Forall_forall in *. intros x Hx.
      apply (bit_width_small x (field_bits m) (Hnn x Hx) HF).
      destruct (BIT_WIDTH x >=? field_bits m) eqn:Ex; [|reflexivity].
      assert (existsb (fun x => BIT_WIDTH x >=? field_bits m) p = true); [|congruence].
      apply existsb_exists. exists x. tauto. }
    pose proof (narrow_code_below m p Hv Hkt Hp Hn). lia.
Qed.

Corollary multi_top_point_rejected m points :
  valid_mcfg m -> c_kt (m_cfg m) = mkK (m_tbits m) false -> m_dims m <> 3 ->
  In (top_point m) points -> multi_build m points = Err ThrowRuntimeError.
Proof.
  intros Hv Hkt H3 Hin. pose proof (valid_wf m Hv) as Hwf.
  apply (multi_reserved_code_rejected m points (top_point m) Hv Hkt Hin).
  - split; [apply top_len; exact Hwf|]. pose proof (top_ok m Hwf) as H. unfold coords_ok in H.
    eapply Forall_impl; [|exact H]. cbv beta. intros a Ha. lia.
  - apply top_code_reserved; assumption.
Qed.

(* hence invalid_argument (the inner index meeting its reserved value) is never the outcome *)
Theorem multi_never_invalid m points :
  valid_mcfg m -> c_kt (m_cfg m) = mkK (m_tbits m) false ->
  0 <= c_eps (m_cfg m) -> 0 <= c_epsrec (m_cfg m) -> Forall (point_ok m) points ->
  multi_build m points <> Err ThrowInvalidArgument.
Proof.
  intros Hv Hkt He Hr Hok H. pose proof (valid_wf m Hv) as Hwf.
  apply (multi_invalid_iff m points He Hr) in H. destruct H as (Hw & Hne & Hl).
  pose proof (no_wide_narrow m points Hwf Hok Hw) as Hn.
  set (data := sort_codes (map (encode m) points)) in *.
  assert (Hne' : data <> []) by (unfold data; rewrite sort_codes_nil; destruct points; [contradiction|discriminate]).
  pose proof (last_In data 0 Hne') as Hin. fold (last_z data) in Hin. rewrite Hl in Hin.
  apply (Permutation_in _ (sort_codes_perm _)) in Hin. apply in_map_iff in Hin. destruct Hin as (p & E & Hp).
  unfold narrow in Hn. rewrite Forall_forall in Hok, Hn.
  pose proof (narrow_code_below m p Hv Hkt (Hok p Hp) (Hn p Hp)). lia.
Qed.

(* the complete outcome table of the constructor on well-formed points *)
Theorem multi_build_outcome m points :
  valid_mcfg m -> c_kt (m_cfg m) = mkK (m_tbits m) false -> idx_ok (m_cfg m) -> cfg_small (m_cfg m) ->
  Forall (point_ok m) points -> zlen points <= 2 ^ 30 ->
  (narrow m points -> exists mu, multi_build m points = Ok mu) /\
  (~ narrow m points -> multi_build m points = Err ThrowRuntimeError).
Proof.
  intros Hv Hkt Hc Hsm Hok Hlen. pose proof (valid_wf m Hv) as Hwf. split.
  - intros Hn. destruct points as [|p0 t] eqn:Ep.
    + eexists. reflexivity.
    + rewrite <- Ep in *. apply multi_build_total; try assumption. rewrite Ep. discriminate.
  - intros Hn. apply multi_wide_wins. destruct (has_wide m points) eqn:E; [reflexivity|].
    exfalso. apply Hn. apply no_wide_narrow; assumption.
Qed.

Print Assumptions multi_build_total.
Print Assumptions multi_index_total_end_to_end.
Print Assumptions multi_contains_total_end_to_end.
Print Assumptions multi_total_end_to_end.
Print Assumptions multi_reserved_code_rejected.
Print Assumptions multi_never_invalid.
Print Assumptions multi_build_outcome.

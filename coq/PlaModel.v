(* PlaModel.v — include/pgm/piecewise_linear_model.hpp for integral X and Y, statement by statement.
   OptimalPiecewiseLinearModel::add_point / get_segment, CanonicalSegment::get_floating_point_segment
   (integer branch), make_segmentation, make_segmentation_par.
   Cross products are exact (the C++ uses __int128 / int64; see DESIGN 4.1 for the no-overflow range). *)
Require Import Base.
Local Open Scope Z_scope.

Definition pt := (Z * Z)%type.
Definition slp := (Z * Z)%type.                       (* Slope{dx,dy} *)

Definition psub (a b : pt) : slp := (fst a - fst b, snd a - snd b).       (* Point::operator- *)
Definition slt (a b : slp) : bool := snd a * fst b <? fst a * snd b.      (* Slope::operator<  *)
Definition sgt (a b : slp) : bool := snd a * fst b >? fst a * snd b.      (* Slope::operator>  *)
Definition seq_ (a b : slp) : bool := snd a * fst b =? fst a * snd b.     (* Slope::operator== *)
Definition cross (O A B : pt) : Z :=
  let OA := psub A O in let OB := psub B O in fst OA * snd OB - snd OA * fst OB.

(* the rank type Y: its numeric range (size_t for the indexes; a signed type in direct uses) *)
Record ytype := mkY { ymin : Z; ymax : Z }.
Definition y_size_t : ytype := mkY 0 (2 ^ 64 - 1).

Record pla := mkPla {
  p_eps : Z;
  p_lower : list pt;          (* live part lower[lower_start ..] *)
  p_upper : list pt;          (* live part upper[upper_start ..] *)
  p_first_x : Z;
  p_last_x : Z;
  p_n : Z;                    (* points_in_hull *)
  p_r0 : pt; p_r1 : pt; p_r2 : pt; p_r3 : pt   (* rectangle[0..3] *)
}.

Definition pla_init (eps : Z) : res pla :=
  if eps <? 0 then Err ThrowInvalidArgument
  else Ok (mkPla eps [] [] 0 0 0 (0,0) (0,0) (0,0) (0,0)).

(* "Find extreme slope" loop of the first branch: returns lower[min_i ..] *)
Fixpoint tangent_lower (p1 cur : pt) (rest : list pt) : list pt :=
  match rest with
  | [] => [cur]
  | q :: rest' => if sgt (psub q p1) (psub cur p1) then cur :: rest else tangent_lower p1 q rest'
  end.
Fixpoint tangent_upper (p2 cur : pt) (rest : list pt) : list pt :=
  match rest with
  | [] => [cur]
  | q :: rest' => if slt (psub q p2) (psub cur p2) then cur :: rest else tangent_upper p2 q rest'
  end.

(* "Hull update" loops, on the reversed live list (last element first) *)
Fixpoint pop_upper (p : pt) (rl : list pt) : list pt :=
  match rl with
  | a :: ((b :: _) as tl) => if cross b a p <=? 0 then pop_upper p tl else rl
  | _ => rl
  end.
Fixpoint pop_lower (p : pt) (rl : list pt) : list pt :=
  match rl with
  | a :: ((b :: _) as tl) => if cross b a p >=? 0 then pop_lower p tl else rl
  | _ => rl
  end.
Definition push_upper (u : list pt) (p : pt) : list pt := rev (p :: pop_upper p (rev u)).
Definition push_lower (l : list pt) (p : pt) : list pt := rev (p :: pop_lower p (rev l)).

Definition hd_pt (l : list pt) : pt := hd (0,0) l.

Definition band (yt : ytype) (eps y : Z) : Z * Z :=          (* (y+eps, y-eps) clamped to the range of Y *)
  ((if y >=? ymax yt - eps then ymax yt else y + eps),
   (if y <=? ymin yt + eps then ymin yt else y - eps)).

Definition add_point (yt : ytype) (s : pla) (x y : Z) : res (bool * pla) :=
  if (p_n s >? 0) && (x <=? p_last_x s) then Err ThrowLogicError else
  let '(yu, yl) := band yt (p_eps s) y in
  let p1 := (x, yu) in
  let p2 := (x, yl) in
  if p_n s =? 0 then
    Ok (true, mkPla (p_eps s) [p2] [p1] x x 1 p1 p2 (p_r2 s) (p_r3 s))
  else if p_n s =? 1 then
    Ok (true, mkPla (p_eps s) (p_lower s ++ [p2]) (p_upper s ++ [p1]) (p_first_x s) x 2
                    (p_r0 s) (p_r1 s) p2 p1)
  else
    let slope1 := psub (p_r2 s) (p_r0 s) in
    let slope2 := psub (p_r3 s) (p_r1 s) in
    let outside_line1 := slt (psub p1 (p_r2 s)) slope1 in
    let outside_line2 := sgt (psub p2 (p_r3 s)) slope2 in
    if outside_line1 || outside_line2 then
      Ok (false, mkPla (p_eps s) (p_lower s) (p_upper s) (p_first_x s) x 0
                       (p_r0 s) (p_r1 s) (p_r2 s) (p_r3 s))
    else
      (* first branch: the new upper point lowers the maximum slope *)
      let '(lower1, upper1, r1', r3') :=
        if slt (psub p1 (p_r1 s)) slope2 then
          match p_lower s with
          | [] => (p_lower s, p_upper s, p_r1 s, p_r3 s)     (* unreachable: live part is never empty *)
          | c :: rest =>
              let lw := tangent_lower p1 c rest in
              (lw, push_upper (p_upper s) p1, hd_pt lw, p1)
          end
        else (p_lower s, p_upper s, p_r1 s, p_r3 s) in
      (* second branch: the new lower point raises the minimum slope (reads the updated hulls) *)
      let '(lower2, upper2, r0', r2') :=
        if sgt (psub p2 (p_r0 s)) slope1 then
          match upper1 with
          | [] => (lower1, upper1, p_r0 s, p_r2 s)
          | c :: rest =>
              let up := tangent_upper p2 c rest in
              (push_lower lower1 p2, up, hd_pt up, p2)
          end
        else (lower1, upper1, p_r0 s, p_r2 s) in
      Ok (true, mkPla (p_eps s) lower2 upper2 (p_first_x s) x (p_n s + 1) r0' r1' r2' r3').

(* CanonicalSegment *)
Record cseg := mkCseg { c_r0 : pt; c_r1 : pt; c_r2 : pt; c_r3 : pt; c_first : Z }.

Definition get_segment (s : pla) : cseg :=
  if p_n s =? 1 then mkCseg (p_r0 s) (p_r1 s) (p_r0 s) (p_r1 s) (p_first_x s)
  else mkCseg (p_r0 s) (p_r1 s) (p_r2 s) (p_r3 s) (p_first_x s).

Definition pt_eqb (a b : pt) : bool := (fst a =? fst b) && (snd a =? snd b).
Definition one_point (c : cseg) : bool := pt_eqb (c_r0 c) (c_r2 c) && pt_eqb (c_r1 c) (c_r3 c).

(* integer branch of get_floating_point_segment: ((dx, dy) of the reported slope, intercept).
   C++ `/` on signed integers truncates: Z.quot. *)
Definition round_div (n d : Z) : Z :=
  let sgn := if xorb (n <? 0) (d <? 0) then -1 else 1 in
  let rt := Z.quot (sgn * d) 2 in
  Z.quot (n + rt) d.

Definition cseg_line (c : cseg) (origin : Z) : slp * Z :=
  if one_point c then ((1, 0), Z.quot (snd (c_r0 c) + snd (c_r1 c)) 2)      (* slope 0 *)
  else
    let slope := psub (c_r3 c) (c_r1 c) in
    let intercept_n := snd slope * (origin - fst (c_r1 c)) in
    let intercept_d := fst slope in
    (slope, round_div intercept_n intercept_d + snd (c_r1 c)).

(* ---- make_segmentation ---- *)
Record segst := mkSegst {
  s_opt : pla;
  s_out : list cseg;          (* emitted segments, most recent first *)
  s_fed : list (Z * Z);       (* points handed to the builder (hook H1), most recent first *)
  s_c : Z
}.

Definition feed (yt : ytype) (st : segst) (x y : Z) : res segst :=
  do r <- add_point yt (s_opt st) x y;
  let '(ok, opt1) := r in
  if ok then Ok (mkSegst opt1 (s_out st) ((x, y) :: s_fed st) (s_c st))
  else
    do r2 <- add_point yt opt1 x y;
    Ok (mkSegst (snd r2) (get_segment opt1 :: s_out st) ((x, y) :: s_fed st) (s_c st + 1)).

(* body of `for (i = start+1; i < end-1; ++i)`: `l` = data[i .. end), `prev` = data[i-1].
   in(i-1), in(i), in(i+1) are the three consecutive elements the C++ reads. *)
Fixpoint seg_walk (kt : ktype) (prev : Z) (l : list Z) (i : Z) (st : segst) : res segst :=
  match l with
  | xi :: ((xn :: _) as tl) =>
      do st1 <-
        (if xi =? prev then
           if xi + 1 <? xn then feed y_size_t st (wrapK kt (xi + 1)) i else Ok st
         else feed y_size_t st xi i);
      seg_walk kt xi tl (i + 1) st1
  | _ => Ok st            (* index end-1 is handled after the loop *)
  end.

(* number of leading elements of l equal to x *)
Fixpoint run_len (x : Z) (l : list Z) : Z :=
  match l with
  | a :: tl => if a =? x then 1 + run_len x tl else 0
  | [] => 0
  end.

(* make_segmentation(n, start, end, epsilon, in, out) on chunk = data[start .. end), rest = data[end .. n);
   returns (segments in order, fed points in order, count) *)
Definition make_segmentation_chunk (kt : ktype) (n start eps : Z) (chunk rest : list Z)
  : res (list cseg * list (Z * Z) * Z) :=
  let end_ := start + zlen chunk in
  do opt <- pla_init eps;
  let st0 := mkSegst opt [] [] 0 in
  match chunk with
  | [] => Err OutOfBounds                      (* in(start) read outside the data *)
  | x0 :: tl =>
      do st1 <- feed y_size_t st0 x0 start;
      do st2 <- seg_walk kt x0 tl (start + 1) st1;
      do st3 <-
        (match rev chunk with
         | a :: b :: _ => if negb (a =? b) then feed y_size_t st2 a (end_ - 1) else Ok st2
         | _ => Ok st2
         end);
      (* the run containing in(end-1) followed past the end of the chunk *)
      let xl := last chunk 0 in
      let k := run_len xl rest in
      let run_end := end_ - 1 + k in
      do st4 <-
        (if (end_ <? n) && (run_end + 1 <? n) && (run_end >? start) then
           do prev <- (if k >? 0 then Ok xl else nth_res chunk (zlen chunk - 2));
           if xl =? prev then
             do nx <- nth_res rest k;
             if xl + 1 <? nx then feed y_size_t st3 (wrapK kt (xl + 1)) run_end else Ok st3
           else Ok st3
         else Ok st3);
      do st5 <-
        (if run_end + 1 =? n then feed y_size_t st4 (wrapK kt (xl + 1)) n else Ok st4);
      Ok (rev (get_segment (s_opt st5) :: s_out st5), rev (s_fed st5), s_c st5 + 1)
  end.

Definition make_segmentation_range (kt : ktype) (n start end_ eps : Z) (data : list Z) :=
  make_segmentation_chunk kt n start eps (slice data start end_) (skipn (Z.to_nat end_) data).

Definition make_segmentation (kt : ktype) (n eps : Z) (data : list Z) :=
  make_segmentation_chunk kt n 0 eps data [].

(* skip loop at the start of a chunk: `l` = data[first .. last), prev = data[first-1];
   returns the remaining list from the first element that differs from its predecessor, and its index *)
Fixpoint skip_run (prev : Z) (l : list Z) (first : Z) : list Z * Z :=
  match l with
  | [] => ([], first)
  | a :: tl => if negb (a =? prev) then (l, first) else skip_run a tl (first + 1)
  end.

Fixpoint par_chunks (kt : ktype) (n eps chunk_size parallelism : Z) (data : list Z) (is_ : list Z)
  : res (list cseg * list (Z * Z) * Z) :=
  match is_ with
  | [] => Ok ([], [], 0)
  | i :: rest =>
      let first0 := i * chunk_size in
      let last := if i =? parallelism - 1 then n else first0 + chunk_size in
      let chunk0 := slice data first0 last in
      do here <-
        (if first0 >? 0 then
           do prev <- nth_res data (first0 - 1);
           let '(chunk, first) := skip_run prev chunk0 first0 in
           if first =? last then Ok ([], [], 0)
           else make_segmentation_chunk kt n first eps chunk (skipn (Z.to_nat last) data)
         else make_segmentation_chunk kt n first0 eps chunk0 (skipn (Z.to_nat last) data));
      do tl <- par_chunks kt n eps chunk_size parallelism data rest;
      let '(s1, f1, c1) := here in
      let '(s2, f2, c2) := tl in
      Ok (s1 ++ s2, f1 ++ f2, c1 + c2)
  end.

(* make_segmentation_par with `parallelism` = min(procs, max_threads, 20) passed explicitly;
   `threshold` = the translated 1ull << 15 *)
Definition make_segmentation_par (kt : ktype) (threshold parallelism : Z) (n eps : Z) (data : list Z)
  : res (list cseg * list (Z * Z) * Z) :=
  if (parallelism =? 1) || (n <? threshold) then make_segmentation kt n eps data
  else
    let chunk_size := Z.quot n parallelism in
    par_chunks kt n eps chunk_size parallelism data (zseq 0 (Z.to_nat parallelism)).

(* IdxRoute.v — one routing step of PGMIndex::segment_for_key on lists: the linear scan and the
   windowed upper_bound both return the responsible segment when the window starts at or before it. *)
Require Import Base Fp PlaModel PlaSpec GenLeaf IndexModel IndexProofs MappedQueries IdxFed IdxSeg IdxBlock IdxLevel IdxSearch0.
From Coq Require Import ZifyBool.
Local Open Scope Z_scope.

Definition kle (k : Z) (s : segment) : Prop := sg_key s <= k.

(* segs = pre ++ A ++ s :: nx :: rest, all of A and s have key <= k, nx has key > k *)
Lemma scan_split (ix : index) k A : forall pre s nx rest fuel,
  ix_segments ix = pre ++ A ++ s :: nx :: rest ->
  Forall (kle k) A -> sg_key s <= k -> k < sg_key nx -> (length A < fuel)%nat ->
  linear_scan ix fuel (zlen pre) k = Ok (zlen pre + zlen A).
Proof.
  induction A as [|a A IH]; intros pre s nx rest fuel Hseg HA Hs Hnx Hfuel.
  - destruct fuel as [|f]; [cbn in Hfuel; lia|]. cbn [linear_scan]. unfold seg_at. rewrite Hseg. cbn [app].
    rewrite (nth_res_get (pre ++ s :: nx :: rest) (zlen pre + 1))
      by (rewrite zlen_app, !zlen_cons; pose proof (zlen_ge0 pre); pose proof (zlen_ge0 rest); lia).
    cbn [bind]. rewrite nth_mid_next. cbn [hd]. replace (sg_key nx <=? k) with false by lia.
    rewrite zlen_nil. f_equal. lia.
  - destruct fuel as [|f]; [cbn in Hfuel; lia|]. cbn [linear_scan]. unfold seg_at. rewrite Hseg.
    inversion HA as [|a' A' Ha HA']; subst.
    rewrite (nth_res_get _ (zlen pre + 1))
      by (rewrite !zlen_app, !zlen_cons; pose proof (zlen_ge0 pre); pose proof (zlen_ge0 rest); pose proof (zlen_ge0 A); lia).
    cbn [bind]. cbn [app]. rewrite nth_mid_next.
    assert (Hh : sg_key (hd dseg (A ++ s :: nx :: rest)) <= k).
    { destruct A as [|a2 A2]; cbn [app hd]; [exact Hs|]. inversion HA'; subst. assumption. }
    replace (sg_key (hd dseg (A ++ s :: nx :: rest)) <=? k) with true by (unfold kle in *; lia).
    replace (zlen pre + 1) with (zlen (pre ++ [a])) by (rewrite zlen_app; reflexivity).
    rewrite (IH (pre ++ [a]) s nx rest f); [f_equal; rewrite zlen_app; change (zlen [a]) with 1; rewrite zlen_cons; lia | | exact HA' | exact Hs | exact Hnx | cbn [length] in Hfuel; lia].
    rewrite Hseg, <- app_assoc. reflexivity.
Qed.

Lemma ub_prefix l1 x l2 k : Forall (fun y => y <= k) l1 -> k < x -> ub (l1 ++ x :: l2) k = zlen l1.
Proof.
  intros H Hx. induction H as [|a t Ha _ IH]; cbn [app ub].
  - replace (x <=? k) with false by lia. reflexivity.
  - replace (a <=? k) with true by lia. rewrite IH, zlen_cons. lia.
Qed.

Lemma zlen_map {A B} (f : A -> B) l : zlen (map f l) = zlen l.
Proof. unfold zlen. rewrite map_length. reflexivity. Qed.

Lemma ub_window segs pre A s nx rest k hi :
  segs = pre ++ A ++ s :: nx :: rest ->
  Forall (kle k) A -> sg_key s <= k -> k < sg_key nx -> zlen pre + zlen A + 1 <= hi ->
  ub_range (map sg_key segs) (zlen pre) hi k = zlen pre + zlen A + 1.
Proof.
  intros -> HA Hs Hnx Hhi. unfold ub_range, slice. rewrite map_app.
  assert (Esk : skipn (Z.to_nat (zlen pre)) (map sg_key pre ++ map sg_key (A ++ s :: nx :: rest)) = map sg_key (A ++ s :: nx :: rest)).
  { rewrite <- (zlen_map sg_key pre). apply skipn_zlen_app. }
  rewrite Esk.
  rewrite ub_firstn_clamp.
  replace (A ++ s :: nx :: rest) with ((A ++ [s]) ++ nx :: rest) by (rewrite <- app_assoc; reflexivity).
  rewrite map_app. cbn [map]. rewrite ub_prefix.
  - rewrite zlen_map, zlen_app. change (zlen [s]) with 1. pose proof (zlen_ge0 A). lia.
  - rewrite Forall_map. apply Forall_app. split; [exact HA|]. constructor; [exact Hs | constructor].
  - exact Hnx.
Qed.

Definition resp (L : list segment) (k J : Z) : Prop :=
  0 <= J /\ J + 1 < zlen L /\
  (forall i, 0 <= i <= J -> sg_key (nth (Z.to_nat i) L dseg) <= k) /\
  k < sg_key (nth (Z.to_nat (J + 1)) L dseg).

Lemma list_split_at (L : list segment) i : 0 <= i < zlen L ->
  exists l1 l2, L = l1 ++ nth (Z.to_nat i) L dseg :: l2 /\ zlen l1 = i.
Proof.
  intros Hi. destruct (nth_split (n := Z.to_nat i) L dseg) as (l1 & l2 & E & El).
  - unfold zlen in Hi. lia.
  - exists l1, l2. split; [exact E|]. unfold zlen. lia.
Qed.

Lemma resp_split L k J lo : resp L k J -> 0 <= lo <= J ->
  exists A1 A nx rest,
    L = A1 ++ A ++ nth (Z.to_nat J) L dseg :: nx :: rest /\ zlen A1 = lo /\ zlen A = J - lo /\
    Forall (kle k) A /\ nx = nth (Z.to_nat (J + 1)) L dseg.
Proof.
  intros (HJ0 & HJ1 & Hle & Hgt) Hlo.
  destruct (list_split_at L J ltac:(lia)) as (l1 & l2 & E & El1).
  set (s := nth (Z.to_nat J) L dseg) in *.
  assert (Hl2 : l2 <> []).
  { intros ->. rewrite E, zlen_app, zlen_cons, zlen_nil in HJ1. lia. }
  destruct l2 as [|nx rest]; [contradiction|].
  assert (Enx : nth (Z.to_nat (J + 1)) L dseg = nx).
  { rewrite E, <- El1. rewrite nth_mid_next. reflexivity. }
  exists (firstn (Z.to_nat lo) l1), (skipn (Z.to_nat lo) l1), nx, rest.
  split; [rewrite app_assoc, firstn_skipn; exact E|].
  assert (Hz1 : zlen (firstn (Z.to_nat lo) l1) = lo) by (apply zlen_firstn; lia).
  split; [exact Hz1|]. split.
  { pose proof (firstn_skipn (Z.to_nat lo) l1) as Efs. apply (f_equal zlen) in Efs. rewrite zlen_app in Efs. lia. }
  split; [|symmetry; exact Enx].
  assert (Hall : Forall (kle k) l1).
  { apply Forall_forall. intros x Hx. destruct (In_nth l1 x dseg Hx) as (i & Hi & Ei).
    specialize (Hle (Z.of_nat i) ltac:(unfold zlen in El1; lia)). rewrite Nat2Z.id in Hle.
    rewrite E in Hle. rewrite app_nth1 in Hle by exact Hi. rewrite Ei in Hle. exact Hle. }
  rewrite <- (firstn_skipn (Z.to_nat lo) l1) in Hall. apply Forall_app in Hall. tauto.
Qed.

Lemma step_scan ix pre L post k J lo :
  ix_segments ix = pre ++ L ++ post -> resp L k J -> 0 <= lo <= J ->
  linear_scan ix (length (ix_segments ix)) (zlen pre + lo) k = Ok (zlen pre + J).
Proof.
  intros Hseg Hr Hlo. pose proof Hr as (_ & _ & Hle & Hgt).
  destruct (resp_split L k J lo Hr Hlo) as (A1 & A & nx & rest & EL & Z1 & Z2 & HA & Enx).
  assert (Hseg' : ix_segments ix = (pre ++ A1) ++ A ++ nth (Z.to_nat J) L dseg :: nx :: (rest ++ post)).
  { rewrite Hseg. rewrite EL at 1. rewrite <- !app_assoc. cbn [app]. reflexivity. }
  replace (zlen pre + lo) with (zlen (pre ++ A1)) by (rewrite zlen_app; lia).
  rewrite (scan_split ix k A (pre ++ A1) _ nx (rest ++ post) _ Hseg' HA).
  - f_equal. rewrite zlen_app. lia.
  - apply Hle. lia.
  - rewrite Enx. exact Hgt.
  - rewrite Hseg', !app_length. cbn [length]. lia.
Qed.

Lemma step_ub (segs : list segment) pre L post k J lo hi :
  segs = pre ++ L ++ post -> resp L k J -> 0 <= lo <= J -> J + 1 <= hi ->
  ub_range (map sg_key segs) (zlen pre + lo) (zlen pre + hi) k - 1 = zlen pre + J.
Proof.
  intros Hseg Hr Hlo Hhi. pose proof Hr as (_ & _ & Hle & Hgt).
  destruct (resp_split L k J lo Hr Hlo) as (A1 & A & nx & rest & EL & Z1 & Z2 & HA & Enx).
  assert (Hseg' : segs = (pre ++ A1) ++ A ++ nth (Z.to_nat J) L dseg :: nx :: (rest ++ post)).
  { rewrite Hseg. rewrite EL at 1. rewrite <- !app_assoc. cbn [app]. reflexivity. }
  replace (zlen pre + lo) with (zlen (pre ++ A1)) by (rewrite zlen_app; lia).
  rewrite (ub_window segs (pre ++ A1) A _ nx (rest ++ post) k (zlen pre + hi) Hseg' HA).
  - rewrite zlen_app. lia.
  - apply Hle. lia.
  - rewrite Enx. exact Hgt.
  - rewrite zlen_app. lia.
Qed.

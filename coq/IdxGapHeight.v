(* IdxGapHeight.v — a closed-form bound on the height of the index (sequential build, c_par = 1):
   (2*eps_r+1)^(height-2) + (2*eps_r+1) <= (n+1) * 2*eps_r, i.e. height <= 2 + log_{2 eps_r+1}(2 eps_r (n+1)). *)
Require Import Base Fp PlaModel PlaSpec GenLeaf IndexModel IndexProofs MappedQueries IdxFed IdxSeg IdxBlock IdxLevel IdxSearch0 IdxRoute IdxChain IdxMain IdxBeyond IdxFuel IdxGapPla IdxGap IdxGapChain.
From Coq Require Import ZifyBool.
Local Open Scope Z_scope.

Lemma upper_float_ok_trivial c ldk : forall fuel segs offs ln,
  upper_float_ok c fuel ldk segs offs ln (sentinel c).
Proof.
  induction fuel as [|f IH]; intros segs offs ln; cbn [upper_float_ok].
  - destruct ((c_epsrec c =? 0) || (ln <=? 1)); exact I.
  - destruct ((c_epsrec c =? 0) || (ln <=? 1)); [exact I|]. split; [apply level_float_ok_trivial|].
    destruct (build_level c (c_epsrec c) _ ln ldk segs) as [[segs1 ln1]|e]; [apply IH | exact I].
Qed.

Lemma float_ok_trivial c data : float_ok c data (sentinel c).
Proof.
  unfold float_ok. split; [apply level_float_ok_trivial|].
  destruct (build_level c (c_eps c) data (zlen data) (last_z data) []) as [[segs ln]|e]; [|exact I].
  apply upper_float_ok_trivial.
Qed.

(* d(x) = x*(B-1) - B shrinks by a factor B from one level to the next *)
Lemma shrink_step B m ln' : 1 <= B -> ln' * B <= m + B -> (ln' * (B - 1) - B) * B <= m * (B - 1) - B.
Proof. intros HB H. nia. Qed.

Lemma chain_shrink c ldk k B : B = 2 * c_epsrec c + 1 -> c_par c = 1 -> 1 <= B ->
  forall up r, up <> [] -> chainR c ldk k (up ++ [r]) -> Forall (shrinkP c) up ->
  (zlen (lr_keys (hd r up)) * (B - 1) - B) * B ^ Z.of_nat (length up - 1) <= lr_ln r * (B - 1) - B.
Proof.
  intros EB Hp HB. induction up as [|u up' IH]; intros r Hne Hch Hsh; [contradiction|].
  destruct up' as [|u2 rest].
  - cbn [app chainR] in Hch. destruct Hch as (_ & (_ & _ & Lz) & _). cbn [hd length Nat.sub Z.of_nat].
    rewrite Lz. lia.
  - change ((u :: u2 :: rest) ++ [r]) with (u :: (u2 :: rest) ++ [r]) in Hch.
    cbn [chainR app] in Hch. destruct Hch as (_ & (_ & _ & Lz) & Hch').
    pose proof (Forall_inv_tail Hsh) as Hsh'. pose proof (Forall_inv Hsh') as (_ & S2).
    rewrite Hp in S2. cbn [Z.eqb orb] in S2. rewrite Z.add_0_r, <- EB in S2.
    specialize (IH r ltac:(discriminate) Hch' Hsh'). cbn [hd] in IH |- *. rewrite Lz.
    pose proof (shrink_step B _ _ HB S2) as Hs.
    cbn [length]. replace (Z.of_nat (S (S (length rest)) - 1)) with (Z.of_nat (S (length rest) - 1) + 1) by lia.
    rewrite Z.pow_add_r by lia. rewrite Z.pow_1_r.
    set (P := B ^ Z.of_nat (S (length rest) - 1)) in *.
    assert (HP : 0 <= P) by (unfold P; apply Z.pow_nonneg; lia).
    cbn [length] in IH. fold P in IH. nia.
Qed.

Lemma ln0_le c ldk k r : 1 <= kbits (c_kt c) -> lrec_ok c ldk k r -> lr_ln r <= zlen (lr_keys r) + 1.
Proof.
  intros Hb Hok. pose proof Hok as (Hne & Hs & Hk & He & Hcat & HL & Ht).
  pose proof (lf_nowrap c ldk k r Hb Hok) as Hw.
  destruct (Lv_keys _ _ _ _ _ _ HL) as [_ Hgne]. destruct (Lv_len _ _ _ _ _ _ HL) as [Lg _].
  pose proof (zlen_concat_ge _ Hgne) as Hg. rewrite Hcat in Hg.
  rewrite (fed_spec_unfold (c_kt c) _ Hne Hs Hw), zlen_app in Hg.
  pose proof (W_len (c_kt c) (lr_keys r) (hd 0 (lr_keys r) - 1) (last (lr_keys r) 0) 0) as HWl.
  change (zlen [(last (lr_keys r) 0 + 1, zlen (lr_keys r))]) with 1 in Hg.
  assert (Hln : lr_ln r <= zlen (lr_new r)) by (destruct Ht as [(_ & _ & ->)|(_ & -> & _)]; lia).
  lia.
Qed.

Lemma chain_last_ok c ldk k : forall up r, chainR c ldk k (up ++ [r]) -> lrec_ok c ldk k r.
Proof.
  induction up as [|u up' IH]; intros r H.
  - cbn [app chainR] in H. tauto.
  - cbn [app] in H. destruct (up' ++ [r]) as [|x l] eqn:E; [destruct up'; discriminate E|].
    change (chainR c ldk k (u :: x :: l)) with (lrec_ok c ldk k u /\ (link c x u /\ chainR c ldk k (x :: l))) in H.
    destruct H as (_ & _ & H). rewrite <- E in H. exact (IH r H).
Qed.

Theorem height_closed_form c data ix :
  1 <= kbits (c_kt c) -> c_par c = 1 -> 1 <= c_epsrec c -> c_epsrec c + 2 ^ 32 < 2 ^ 64 - 1 ->
  data <> [] -> sortedb data = true -> Forall (fun x => in_ktype (c_kt c) x = true) data ->
  last_z data < sentinel c -> zlen data + c_eps c < 2 ^ 64 - 1 ->
  build c data = Ok ix -> zlen (ix_segments ix) < 2 ^ 32 ->
  1 <= height ix /\
  (2 <= height ix ->
   (2 * c_epsrec c + 1) ^ (height ix - 2) + (2 * c_epsrec c + 1) <= (zlen data + 1) * (2 * c_epsrec c)).
Proof.
  intros Hb Hp He1 He64 Hne Hs Hkt Hlast Hn64 Hbuild Hsz.
  destruct (build_chain_gap c data ix (sentinel c) Hb ltac:(lia) He1 He64 Hne Hs Hkt Hlast Hn64
              (float_ok_cap_of _ _ _ (float_ok_trivial c data)) Hbuild Hsz) as (up & r0 & Hch & Hk0 & Eix & _ & _ & Hsh & _).
  assert (Eh : height ix = Z.of_nat (length up) + 1).
  { unfold height. rewrite Eix. cbn [ix_offsets]. unfold zlen. rewrite offs_len, app_length. cbn [length]. lia. }
  rewrite Eh. split; [lia|]. intros H2.
  assert (Hupne : up <> []) by (intros ->; cbn [length] in H2; lia).
  set (B := 2 * c_epsrec c + 1).
  pose proof (chain_shrink c (last_z data) (sentinel c) B eq_refl Hp ltac:(unfold B; lia) up r0 Hupne Hch Hsh) as Hc.
  assert (Hok0 : lrec_ok c (last_z data) (sentinel c) r0).
  { exact (chain_last_ok c _ _ up r0 Hch). }
  pose proof (ln0_le c _ _ r0 Hb Hok0) as Hl0. rewrite Hk0 in Hl0.
  destruct up as [|top rl]; [contradiction|]. cbn [hd] in Hc.
  pose proof (Forall_inv Hsh) as (Ht2 & _).
  replace (Z.of_nat (length (top :: rl)) + 1 - 2) with (Z.of_nat (length (top :: rl) - 1)) by (cbn [length]; lia).
  set (P := B ^ Z.of_nat (length (top :: rl) - 1)) in *.
  assert (HP : 0 <= P) by (unfold P; apply Z.pow_nonneg; unfold B; lia).
  fold B. replace (2 * c_epsrec c) with (B - 1) by (unfold B; lia).
  assert (HB : 3 <= B) by (unfold B; lia). nia.
Qed.
Print Assumptions height_closed_form.

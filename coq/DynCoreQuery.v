(* DynCoreQuery.v — find / count / lower_bound of the DynamicPGMIndex model answer like the ordered map. *)
From Coq Require Import ZArith List Bool Lia ZifyBool.
Require Import Base GenLeaf DynModel DynSpec DynCoreLemmas DynCoreInv DynCoreRefine.
Local Open Scope Z_scope.

Ltac csplit := repeat match goal with |- _ /\ _ => refine (conj _ _) end.

Section QuerySec.
Context {P : Type} (ops : pgmops P) (kmax : Z).
Hypothesis Hc : pgm_contract ops kmax.
Notation dynP := (@dyn P).
Notation Inv := (Inv ops kmax).

(* every level size fits a 64-bit size_t (max_size(i) = 1 << i*log2(base) does not overflow);
   this is what keeps the 70-step branchless binary search of the model from running out of fuel *)
Definition sizes_ok (d : dynP) : Prop := d_used d * ceil_log2 (d_base d) <= 63.

Lemma sizes_ok_levels : forall d i l, Inv d -> sizes_ok d -> level d i = Ok l -> zlen l <= 2 ^ 69.
Proof.
  intros d i l HI Hs Hl. unfold sizes_ok in Hs.
  pose proof (wf_levels_order ops d (iv_wf _ _ d HI)) as [H0 _].
  pose proof (wf_levels_len ops d (iv_wf _ _ d HI)) as [Hl1 _].
  pose proof (iv_b _ _ d HI) as Hb.
  assert (Hpow : forall j, 0 <= j <= d_used d -> dyn_max_size (d_base d) j <= 2 ^ 69).
  { intros j Hj. rewrite max_size_pow. apply Z.pow_le_mono_r; [lia|nia]. }
  destruct (Z_le_dec (d_used d) i) as [Hge|Hlt].
  - assert (l = []). { eapply lp_unused; [apply HI| |eauto]. lia. } subst. cbn. lia.
  - apply level_nth_error in Hl as Hr. destruct Hr as [Hr _].
    destruct (Z.eq_dec i (d_min_level d)) as [->|Hne].
    + pose proof (lp_buffer ops d (wf_lsm ops d (iv_wf _ _ d HI)) l Hl) as Hbuf.
      rewrite (iv_bufmax _ _ d HI) in Hbuf.
      pose proof (buffer_sum_geom (d_base d) (Z.to_nat (d_min_level d + 1)) Hb) as Hg.
      rewrite Z2Nat.id in Hg by lia. specialize (Hpow (d_min_level d + 1) ltac:(lia)). lia.
    + pose proof (lp_sizes ops d (wf_lsm ops d (iv_wf _ _ d HI)) i l ltac:(lia) Hl).
      specialize (Hpow i ltac:(lia)). lia.
Qed.

Lemma keys_of_zlen : forall l, zlen (keys_of l) = zlen l.
Proof. intros l. unfold zlen, keys_of. rewrite map_length. reflexivity. Qed.

Lemma level_window_ok : forall d i li q, Inv d -> level d i = Ok li -> li <> [] -> q < kmax ->
  exists lo hi, level_window ops d i li q = Ok (lo, hi) /\ 0 <= lo <= lbk li q /\ lbk li q <= hi <= zlen li.
Proof.
  intros d i li q HI Hl Hne Hq. unfold level_window.
  pose proof (lbk_range li q) as Hr.
  destruct (has_pgm d i) eqn:Eh.
  - unfold has_pgm in Eh.
    destruct (lp_indexed ops d (wf_lsm ops d (iv_wf _ _ d HI)) i li ltac:(lia) Hl Hne) as [p [Hp Hbuild]].
    rewrite Hp. cbn [bind].
    assert (Hkne : keys_of li <> []) by (destruct li; [contradiction|discriminate]).
    pose proof (lp_sorted ops d (wf_lsm ops d (iv_wf _ _ d HI)) i li Hl) as Hsrt.
    destruct (pc_search ops kmax Hc (keys_of li) p q Hbuild Hkne Hsrt Hq) as [lo [hi [Hs [H1 [H2 [H3 [H4 _]]]]]]].
    rewrite Hs. cbn [bind]. rewrite keys_of_zlen in H4. fold (lbk li q) in H2, H3.
    destruct ((lo <? 0) || (hi >? zlen li) || (hi <? lo)) eqn:E; [lia|].
    exists lo, hi. split; [auto|lia].
  - exists 0, (zlen li). split; [auto|lia].
Qed.

(* one level of find(): the window search lands exactly on the lower bound *)
Lemma level_search_ok : forall d i li q, Inv d -> sizes_ok d -> level d i = Ok li -> li <> [] -> q < kmax ->
  exists w, level_window ops d i li q = Ok w /\ lower_bound_bl li (fst w) (snd w) q = Ok (lbk li q).
Proof.
  intros d i li q HI Hsz Hl Hne Hq.
  destruct (level_window_ok d i li q HI Hl Hne Hq) as [lo [hi [Hw [H1 H2]]]].
  exists (lo, hi). split; auto. cbn [fst snd].
  pose proof (sizes_ok_levels d i li HI Hsz Hl) as Hz.
  destruct (lower_bound_bl_total li lo hi q ltac:(lia) ltac:(lia) Hz) as [r Hr].
  rewrite Hr. f_equal. eapply lower_bound_bl_correct; eauto; try lia.
  eapply Inv_sorted; eauto.
Qed.

Definition obs_look (q : Z) (o : option item) : option (Z * Z) :=
  option_map (fun v => (q, v)) (val_of o).

Definition live (r : option (Z * Z * item)) : Prop :=
  match r with Some (_, _, e) => deleted e = false | None => True end.

Lemma find_levels_spec : forall n d s q, Inv d -> sizes_ok d -> q < kmax ->
  d_min_level d <= s -> s - d_min_level d + Z.of_nat n <= zlen (d_levels d) ->
  exists r, find_levels ops d (zseq s n) q = Ok r /\ live r /\
            obs r = obs_look q (look_levels (levels_from d s n) q).
Proof.
  induction n as [|n IH]; intros d s q HI Hsz Hq Hs Hr.
  - exists None. csplit; reflexivity || exact I.
  - destruct (level_total d s ltac:(lia)) as [li Hli].
    rewrite (levels_from_cons d s n li Hli). cbn [zseq find_levels look_levels].
    rewrite Hli. cbn [bind].
    destruct (IH d (s + 1) q HI Hsz Hq ltac:(lia) ltac:(lia)) as [r' [Hr1 Hr2]].
    destruct Hr2 as [Hr2 Hr3]. assert (Hr' : live r' /\ obs r' = obs_look q (look_levels (levels_from d (s + 1) n) q)) by (split; auto).
    destruct (zlen li =? 0) eqn:Ez.
    + assert (li = []) by (destruct li; auto; cbn in Ez; lia). subst li.
      exists r'. split; auto.
    + assert (Hne : li <> []) by (intros ->; cbn in Ez; lia).
      destruct (level_search_ok d s li q HI Hsz Hli Hne Hq) as [w [Hw Hlb]].
      rewrite Hw. cbn [bind]. rewrite Hlb. cbn [bind].
      pose proof (Inv_sorted ops kmax d s li HI Hli) as Hsrt.
      pose proof (lbk_nth li q Hsrt) as Hlk. pose proof (lbk_range li q) as Hrg.
      destruct (lbk li q <? zlen li) eqn:Elt.
      * destruct (nth_res_total _ li (lbk li q) ltac:(lia)) as [e He]. rewrite He. cbn [bind].
        apply nth_res_ok in He. destruct He as [_ He]. rewrite He in Hlk. rewrite Hlk.
        destruct (it_key e =? q) eqn:Ek.
        -- unfold obs_look, val_of. destruct (deleted e) eqn:Ed.
           ++ exists None. csplit; [reflexivity|exact I|]. unfold deleted in Ed.
              destruct (it_val e); [discriminate|reflexivity].
           ++ eexists. csplit; [reflexivity|exact Ed|]. unfold deleted in Ed. cbn.
              destruct (it_val e) eqn:Ev; [|discriminate]. cbn. f_equal. f_equal. lia.
        -- exists r'. split; auto.
      * assert (Hn : nth_error li (Z.to_nat (lbk li q)) = None).
        { apply nth_error_None. unfold zlen in *. lia. }
        rewrite Hn in Hlk. rewrite Hlk. exists r'. split; auto.
Qed.

Lemma look_used : forall (d : dynP) q, Inv d ->
  look_levels (levels_from d (d_min_level d) (Z.to_nat (d_used d - d_min_level d))) q =
  look_levels (d_levels d) q.
Proof.
  intros d q HI. unfold levels_from. replace (d_min_level d - d_min_level d) with 0 by lia.
  cbn [Z.to_nat skipn].
  rewrite <- (firstn_skipn (Z.to_nat (d_used d - d_min_level d)) (d_levels d)) at 2.
  rewrite look_app. rewrite (look_unused ops kmax d q HI).
  destruct (look_levels _ q); reflexivity.
Qed.

Lemma find_spec_live : forall d q, Inv d -> sizes_ok d -> q < kmax ->
  exists r, dfind ops d q = Ok r /\ live r /\ obs r = option_map (fun v => (q, v)) (abs d q).
Proof.
  intros d q HI Hsz Hq. unfold dfind, used_range.
  pose proof (wf_levels_len ops d (iv_wf _ _ d HI)) as [Hl1 Hl2].
  destruct (find_levels_spec (Z.to_nat (d_used d - d_min_level d)) d (d_min_level d) q HI Hsz Hq
              ltac:(lia) ltac:(lia)) as [r [H1 [H2 H3]]].
  exists r. csplit; auto. rewrite H3. unfold obs_look. rewrite look_used by auto.
  rewrite abs_look. reflexivity.
Qed.

Theorem find_spec : forall d q, Inv d -> sizes_ok d -> q < kmax ->
  exists r, dfind ops d q = Ok r /\ obs r = option_map (fun v => (q, v)) (abs d q).
Proof.
  intros d q HI Hsz Hq. destruct (find_spec_live d q HI Hsz Hq) as [r [H1 [_ H2]]]. eauto.
Qed.

Theorem count_spec : forall d q, Inv d -> sizes_ok d -> q < kmax ->
  count ops d q = Ok (match abs d q with Some _ => 1 | None => 0 end).
Proof.
  intros d q HI Hsz Hq. destruct (find_spec_live d q HI Hsz Hq) as [r [H1 [HL H2]]].
  unfold count. rewrite H1. cbn [bind]. f_equal.
  destruct r as [[[i j] e]|]; cbn in H2, HL.
  - unfold deleted in HL. destruct (it_val e); [|discriminate].
    destruct (abs d q); cbn in H2; [auto|discriminate].
  - destruct (abs d q); cbn in H2; [discriminate|auto].
Qed.

End QuerySec.

(* DynSpec.v — the abstract ordered map DynamicPGMIndex must behave like (C05, C06), and the boolean
   form of the LSM invariants (C15) evaluated on a dumped implementation state. Definitions only. *)
Require Import Base GenLeaf DynModel.
Local Open Scope Z_scope.

Definition amap := list (Z * Z).          (* strictly increasing keys *)

Fixpoint am_insert (k v : Z) (m : amap) : amap :=
  match m with
  | [] => [(k, v)]
  | (k', v') :: t => if k <? k' then (k, v) :: m else if k =? k' then (k, v) :: t else (k', v') :: am_insert k v t
  end.
Fixpoint am_erase (k : Z) (m : amap) : amap :=
  match m with
  | [] => []
  | (k', v') :: t => if k =? k' then t else (k', v') :: am_erase k t
  end.
Fixpoint am_find (k : Z) (m : amap) : option Z :=
  match m with
  | [] => None
  | (k', v') :: t => if k =? k' then Some v' else am_find k t
  end.
Fixpoint am_lower_bound (k : Z) (m : amap) : option (Z * Z) :=
  match m with
  | [] => None
  | (k', v') :: t => if k <=? k' then Some (k', v') else am_lower_bound k t
  end.
Definition am_from (k : Z) (m : amap) : amap := filter (fun p => k <=? fst p) m.
Definition am_range (lo hi : Z) (m : amap) : amap := filter (fun p => (lo <=? fst p) && (fst p <=? hi)) m.
(* bulk load: first of equal keys wins *)
Definition am_bulk (l : list (Z * Z)) : amap := fold_right (fun p m => am_insert (fst p) (snd p) m) [] l.

(* ---- C15: invariants on a dumped state ---- *)
Definition level_ok_b (base min_level buffer_max used : Z) (lv : Z * list item) : bool :=
  let '(i, items) := lv in
  ssortedb (map it_key items) &&
  (min_level <=? i) && (i <? used) &&
  (if i =? min_level then zlen items <=? buffer_max else zlen items <=? dyn_max_size base i).

Definition pgm_ok_b (levels : list (Z * list item)) (pg : Z * Z * Z) : bool :=
  let '(i, n, nsegs) := pg in
  match List.find (fun lv => fst lv =? i) levels with
  | Some (_, items) => n =? zlen items                           (* index over exactly that many keys *)
  | None => (n =? 0) && (nsegs =? 0)                             (* emptied level: index reset *)
  end.

(* "built over exactly that level's current keys", as far as the dumped segments show it: the first segment starts at the
   level's first key and every segment key is a key of the level, a guard point of one (key + 1 after a gap; an upper level of
   the index may add its own guard on top: at most + 8 for the heights reached), or lies above the last key (closing /
   sentinel segments) *)
Definition pgm_keys_ok_b (levels : list (Z * list item)) (i : Z) (segkeys : list Z) : bool :=
  match List.find (fun lv => fst lv =? i) levels with
  | Some (_, items) =>
      match items with
      | [] => true
      | it0 :: _ =>
          let keys := map it_key items in
          let lastk := last keys (it_key it0) in
          match segkeys with
          | [] => false
          | k0 :: _ => (k0 =? it_key it0) &&
                       forallb (fun k => (lastk <? k) || existsb (fun x => (x <=? k) && (k <=? x + 8)) keys) segkeys
          end
      end
  | None => true
  end.

Definition indexed_b (min_index_level : Z) (pgms : list (Z * Z * Z)) (lv : Z * list item) : bool :=
  let '(i, items) := lv in
  if (i >=? min_index_level) && negb (zlen items =? 0)
  then existsb (fun pg => fst (fst pg) =? i) pgms else true.

Definition inv_b (base min_level min_index_level buffer_max used : Z)
           (levels : list (Z * list item)) (pgms : list (Z * Z * Z)) : bool :=
  forallb (level_ok_b base min_level buffer_max used) levels &&
  forallb (pgm_ok_b levels) pgms &&
  forallb (indexed_b min_index_level pgms) levels.

(* ================================================================================================
   Specification vocabulary for the theorems about DynModel (C05, C06, C15).
   ================================================================================================ *)
Section Spec.
Context {P : Type} (ops : pgmops P).

Definition keys_of (l : list item) : list Z := map it_key l.

(* what the container assumes of the per-level index (instantiated by C01/C02 for PGMIndex) *)
Record pgm_contract (kmax : Z) : Prop := mkContract {
  pc_build : forall keys, keys <> [] -> ssortedb keys = true -> Forall (fun k => k < kmax) keys ->
             exists p, pg_build ops keys = Ok p;
  pc_search : forall keys p q, pg_build ops keys = Ok p -> keys <> [] -> ssortedb keys = true -> q < kmax ->
             exists lo hi, pg_search ops p q = Ok (lo, hi) /\
                           0 <= lo /\ lo <= lb keys q /\ lb keys q <= hi /\ hi <= zlen keys /\
                           (In q keys -> lb keys q < hi)
}.

(* abstraction function: levels are ordered newest first; the first level containing the key decides;
   a tombstone means absent *)
Definition level_lookup (l : list item) (k : Z) : option item := List.find (fun e => it_key e =? k) l.
Fixpoint abs_levels (ls : list (list item)) (k : Z) : option Z :=
  match ls with
  | [] => None
  | l :: rest => match level_lookup l k with Some e => it_val e | None => abs_levels rest k end
  end.
Definition abs (d : @dyn P) (k : Z) : option Z := abs_levels (d_levels d) k.
Definition represents (d : @dyn P) (m : amap) : Prop := forall k, abs d k = am_find k m.

(* C15: the LSM invariants, as a predicate on states *)
Record lsm_props (d : @dyn P) : Prop := mkLsm {
  lp_sorted : forall i l, level d i = Ok l -> ssortedb (keys_of l) = true;
  lp_buffer : forall l, level d (d_min_level d) = Ok l -> zlen l <= d_buffer_max d;
  lp_sizes : forall i l, d_min_level d < i -> level d i = Ok l -> zlen l <= dyn_max_size (d_base d) i;
  lp_unused : forall i l, d_used d <= i -> level d i = Ok l -> l = [];
  lp_indexed : forall i l, d_min_index_level d <= i -> level d i = Ok l -> l <> [] ->
               exists p, pgm d i = Ok p /\ pg_build ops (keys_of l) = Ok p;
  lp_reset : forall i l p, level d i = Ok l -> l = [] -> pgm d i = Ok p -> p = pg_empty ops
}.

(* everything the query operations rely on *)
Record wf_state (d : @dyn P) : Prop := mkWf {
  wf_lsm : lsm_props d;
  wf_levels_len : d_min_level d <= d_used d /\ d_used d - d_min_level d <= zlen (d_levels d);
  wf_keys : forall i l e, level d i = Ok l -> In e l -> it_key e < d_kmax d;
  wf_levels_order : 0 <= d_min_level d /\ d_min_level d < d_min_index_level d
}.

(* histories: a concrete state paired with the abstract map obtained by the same operations *)
Inductive hist : @dyn P -> amap -> Prop :=
| h_ctor : forall tomb kmax base bl il d,
    dyn_ctor tomb kmax base bl il = Ok d -> hist d []
| h_bulk : forall tomb kmax pairs base bl il d,
    dyn_bulk ops tomb kmax pairs base bl il = Ok d -> hist d (am_bulk pairs)
| h_ins : forall d m k v d',
    hist d m -> insert_or_assign ops d k v = Ok d' -> hist d' (am_insert k v m)
| h_del : forall d m k d',
    hist d m -> erase ops d k = Ok d' -> hist d' (am_erase k m).

(* observable result of find / lower_bound: Some (key, value) or None for end() *)
Definition obs (r : option (Z * Z * item)) : option (Z * Z) :=
  match r with
  | Some (_, _, e) => match it_val e with Some v => Some (it_key e, v) | None => None end
  | None => None
  end.

(* all keys used in a history are below the reserved maximum *)
Definition keys_below (kmax : Z) (m : amap) : Prop := Forall (fun p => fst p < kmax) m.

End Spec.

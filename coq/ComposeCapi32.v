(* ComposeCapi32.v -- C18 (the C wrapper c-interface/cpgm.cpp: PGMIndex<K, 1, EPSILON_RECURSIVE = 4>
   built and searched at a run-time epsilon) with NO floating-point hypothesis, for Floating = float
   (the default) as well as double.
   ComposeCapi.C18_search_contract / C18_create_search assume float_ok_valid c, which is provable only for
   Floating = double and false for float slopes (FloatOkAll.cx_not_float_ok).  The search proofs only
   consume float_ok_cap (IdxChain.v), which FloatOkCap proves for every key from a size bound alone:
   float needs n + epsilon <= 2^22 - 1 and n + 1 + 4 <= 2^22 - 1; double needs nothing beyond n < 2^32.
   * capi_float_ok_cap_float / _double / _std: the interface on every input of create;
   * C18_search_contract_at_cap: C18_search_contract_at from float_ok_cap at the evaluated key;
   * C18_search_contract_float / _double / _std: pgm_index_<type>_search at every run-time epsilon >= 1;
   * C18_create_search_float / _double / _std: create + search;
   * cw_contract: non-vacuity on a float configuration with 40 keys, with a vm_compute cross-check. *)
Require Import Base Fp PlaModel GenLeaf IndexModel IndexProofs IdxFed IdxChain FloatOk FloatOkAll FloatOkCap Reject
  ComposeIdx ComposeBuild ComposeFloat ComposeFloat32 ComposeCapi.
From Coq Require Import ZifyBool.
Local Open Scope Z_scope.

(* the size condition for float slopes at EpsilonRecursive = 4 *)
Definition capi_size22 (c : cfg) (data : list Z) : Prop :=
  zlen data + c_eps c <= 2 ^ 22 - 1 /\ zlen data + 5 <= 2 ^ 22 - 1.

(* a standard key width is within the 8..64 bits of capi_like *)
Lemma std_width_capi_bits c : std_width c -> 8 <= kbits (c_kt c) <= 64.
Proof. intros [E|[E|[E|E]]]; rewrite E; lia. Qed.

(* ---- the floating-point interface on every input of create, from size bounds alone ---- *)
Theorem capi_float_ok_cap_float c data k :
  capi_like c -> std_width c -> c_par c <= 20 -> c_fdouble c = false -> data_ok c data ->
  capi_size22 c data -> float_ok_cap c data k.
Proof.
  intros [Hr Hb He He64 Hp] W Hp20 Hf [Hne Hs Hkt Hlast Hn32] [H1 H2].
  apply float_ok_cap_float; try assumption; rewrite ?Hr; unfold c_epsilon_recursive; lia.
Qed.

Theorem capi_float_ok_cap_double c data k :
  capi_like c -> std_width c -> c_par c <= 20 -> c_fdouble c = true -> data_ok c data ->
  float_ok_cap c data k.
Proof.
  intros [Hr Hb He He64 Hp] W Hp20 Hf [Hne Hs Hkt Hlast Hn32].
  apply float_ok_cap_double; try assumption; rewrite ?Hr; unfold c_epsilon_recursive; lia.
Qed.

Theorem capi_float_ok_cap_std c data k :
  capi_like c -> std_width c -> c_par c <= 20 -> data_ok c data ->
  (c_fdouble c = false -> capi_size22 c data) -> float_ok_cap c data k.
Proof.
  intros Hc W Hp Hd Hsz. destruct (c_fdouble c) eqn:Ef.
  - apply capi_float_ok_cap_double; assumption.
  - apply capi_float_ok_cap_float; auto.
Qed.

(* ---- search ---- *)
(* C18_search_contract_at with the floating-point interface in its weakest form *)
Theorem C18_search_contract_at_cap c data ix q :
  capi_like c -> data_ok c data -> build c data = Ok ix -> zlen (ix_segments ix) < 2 ^ 32 ->
  q < sentinel c -> float_ok_cap c data (Z.max (hd 0 data) q) ->
  exists a, search c ix q = Ok a /\
    0 <= a_lo a /\ a_lo a <= lb data q /\ lb data q <= a_hi a /\ a_hi a <= zlen data /\
    (In q data -> lb data q < a_hi a) /\ a_hi a - a_lo a <= 2 * c_eps c + 2 /\ a_lo a <= a_pos a.
Proof. intros Hc. exact (search_contract_at_cap c data ix q (capi_idx_ok c Hc)). Qed.

(* the configuration-level statement: any capi_like configuration, float or double *)
Theorem C18_search_contract_cfg_std c data ix q :
  capi_like c -> std_width c -> c_par c <= 20 -> data_ok c data ->
  (c_fdouble c = false -> capi_size22 c data) ->
  build c data = Ok ix -> zlen (ix_segments ix) < 2 ^ 32 -> q < sentinel c ->
  exists a, search c ix q = Ok a /\
    0 <= a_lo a <= lb data q /\ lb data q <= a_hi a <= zlen data /\
    (In q data -> lb data q < a_hi a) /\ a_hi a - a_lo a <= 2 * c_eps c + 2.
Proof.
  intros Hc W Hp Hd Hsz Hb Hs32 Hq.
  destruct (C18_search_contract_at_cap c data ix q Hc Hd Hb Hs32 Hq
              (capi_float_ok_cap_std c data _ Hc W Hp Hd Hsz)) as (a & Es & H).
  exists a. split; [exact Es|]. tauto.
Qed.

(* pgm_index_<type>_search at every run-time epsilon >= 1: C18_search_contract with float_ok_valid c
   replaced by a size condition.  Floating = float: n + epsilon <= 2^22 - 1 and n + 5 <= 2^22 - 1 *)
Theorem C18_search_contract_float kt eps par avx data ix q :
  let c := capi_cfg kt eps false par avx in
  std_width c -> 1 <= eps -> 1 <= par <= 20 ->
  data_ok c data -> zlen data + eps <= 2 ^ 22 - 1 -> zlen data + 5 <= 2 ^ 22 - 1 ->
  build c data = Ok ix -> zlen (ix_segments ix) < 2 ^ 32 -> q < sentinel c ->
  exists a, search c ix q = Ok a /\
    0 <= a_lo a <= lb data q /\ lb data q <= a_hi a <= zlen data /\
    (In q data -> lb data q < a_hi a) /\ a_hi a - a_lo a <= 2 * eps + 2.
Proof.
  intros c W He Hp Hd H1 H2 Hb Hs32 Hq. pose proof (zlen_ge0 data) as Hn0.
  assert (Hc : capi_like c) by (apply capi_cfg_like; [exact (std_width_capi_bits c W)|lia..]).
  apply (C18_search_contract_cfg_std c data ix q Hc W ltac:(cbn; lia) Hd); try assumption.
  intros _. split; [exact H1|exact H2].
Qed.

(* Floating = double: no size condition beyond data_ok (n < 2^32) *)
Theorem C18_search_contract_double kt eps par avx data ix q :
  let c := capi_cfg kt eps true par avx in
  std_width c -> 1 <= eps -> eps + 2 ^ 32 < 2 ^ 64 - 1 -> 1 <= par <= 20 ->
  data_ok c data ->
  build c data = Ok ix -> zlen (ix_segments ix) < 2 ^ 32 -> q < sentinel c ->
  exists a, search c ix q = Ok a /\
    0 <= a_lo a <= lb data q /\ lb data q <= a_hi a <= zlen data /\
    (In q data -> lb data q < a_hi a) /\ a_hi a - a_lo a <= 2 * eps + 2.
Proof.
  intros c W He He64 Hp Hd Hb Hs32 Hq.
  assert (Hc : capi_like c) by (apply capi_cfg_like; [exact (std_width_capi_bits c W)|lia..]).
  apply (C18_search_contract_cfg_std c data ix q Hc W ltac:(cbn; lia) Hd); try assumption.
  cbn. discriminate.
Qed.

(* both Floating types *)
Theorem C18_search_contract_std kt eps fd par avx data ix q :
  let c := capi_cfg kt eps fd par avx in
  std_width c -> 1 <= eps -> eps + 2 ^ 32 < 2 ^ 64 - 1 -> 1 <= par <= 20 ->
  data_ok c data ->
  (fd = false -> zlen data + eps <= 2 ^ 22 - 1 /\ zlen data + 5 <= 2 ^ 22 - 1) ->
  build c data = Ok ix -> zlen (ix_segments ix) < 2 ^ 32 -> q < sentinel c ->
  exists a, search c ix q = Ok a /\
    0 <= a_lo a <= lb data q /\ lb data q <= a_hi a <= zlen data /\
    (In q data -> lb data q < a_hi a) /\ a_hi a - a_lo a <= 2 * eps + 2.
Proof.
  intros c W He He64 Hp Hd Hsz Hb Hs32 Hq.
  assert (Hc : capi_like c) by (apply capi_cfg_like; [exact (std_width_capi_bits c W)|lia..]).
  apply (C18_search_contract_cfg_std c data ix q Hc W ltac:(cbn; lia) Hd); try assumption.
Qed.

(* ---- create + search ---- *)
Lemma capi_cfg_small c : capi_like c -> c_par c <= 20 -> c_eps c <= 2 ^ 31 -> cfg_small c.
Proof.
  intros Hc Hp He. constructor; try assumption. rewrite (cl_rec c Hc). unfold c_epsilon_recursive. lia.
Qed.

(* Floating = float: on valid data with n + epsilon <= 2^22 - 1 and n + 5 <= 2^22 - 1 create succeeds
   (no exception of any kind) and every search below the reserved value satisfies the contract *)
Theorem C18_create_search_float c data :
  capi_like c -> std_width c -> c_par c <= 20 -> c_fdouble c = false -> data_ok c data ->
  zlen data + c_eps c <= 2 ^ 22 - 1 -> zlen data + 5 <= 2 ^ 22 - 1 ->
  exists ix, build c data = Ok ix /\
    forall q, q < sentinel c ->
      exists a, search c ix q = Ok a /\
        0 <= a_lo a <= lb data q /\ lb data q <= a_hi a <= zlen data /\
        (In q data -> lb data q < a_hi a) /\ a_hi a - a_lo a <= 2 * c_eps c + 2.
Proof.
  intros Hc W Hp Hf Hd H1 H2. pose proof (zlen_ge0 data) as Hn0. pose proof (cl_eps c Hc) as He.
  apply build_search_contract_cap; try assumption.
  - exact (capi_idx_ok c Hc).
  - apply capi_cfg_small; try assumption. lia.
  - lia.
  - intros k. apply capi_float_ok_cap_float; try assumption. split; assumption.
Qed.

(* Floating = double: at most 2^30 keys, as in C18_create_search *)
Theorem C18_create_search_double c data :
  capi_like c -> std_width c -> c_par c <= 20 -> c_eps c <= 2 ^ 31 -> c_fdouble c = true ->
  data_ok c data -> zlen data <= 2 ^ 30 ->
  exists ix, build c data = Ok ix /\
    forall q, q < sentinel c ->
      exists a, search c ix q = Ok a /\
        0 <= a_lo a <= lb data q /\ lb data q <= a_hi a <= zlen data /\
        (In q data -> lb data q < a_hi a) /\ a_hi a - a_lo a <= 2 * c_eps c + 2.
Proof.
  intros Hc W Hp He Hf Hd Hn.
  apply build_search_contract_cap; try assumption.
  - exact (capi_idx_ok c Hc).
  - apply capi_cfg_small; assumption.
  - intros k. apply capi_float_ok_cap_double; assumption.
Qed.

(* both Floating types: C18_create_search with float_ok_valid c replaced by std_width and, for float
   only, the size condition *)
Theorem C18_create_search_std c data :
  capi_like c -> std_width c -> c_par c <= 20 -> c_eps c <= 2 ^ 31 -> data_ok c data -> zlen data <= 2 ^ 30 ->
  (c_fdouble c = false -> zlen data + c_eps c <= 2 ^ 22 - 1 /\ zlen data + 5 <= 2 ^ 22 - 1) ->
  exists ix, build c data = Ok ix /\
    forall q, q < sentinel c ->
      exists a, search c ix q = Ok a /\
        0 <= a_lo a <= lb data q /\ lb data q <= a_hi a <= zlen data /\
        (In q data -> lb data q < a_hi a) /\ a_hi a - a_lo a <= 2 * c_eps c + 2.
Proof.
  intros Hc W Hp He Hd Hn Hsz.
  apply build_search_contract_cap; try assumption.
  - exact (capi_idx_ok c Hc).
  - apply capi_cfg_small; assumption.
  - intros k. apply capi_float_ok_cap_std; assumption.
Qed.

(* the same in terms of the arguments of pgm_index_<type>_create(data, n, epsilon) *)
Corollary C18_create_search_args_std kt eps fd par avx data :
  let c := capi_cfg kt eps fd par avx in
  std_width c -> 1 <= eps <= 2 ^ 31 -> 1 <= par <= 20 -> data_ok c data -> zlen data <= 2 ^ 30 ->
  (fd = false -> zlen data + eps <= 2 ^ 22 - 1 /\ zlen data + 5 <= 2 ^ 22 - 1) ->
  exists ix, build c data = Ok ix /\
    forall q, q < sentinel c ->
      exists a, search c ix q = Ok a /\
        0 <= a_lo a <= lb data q /\ lb data q <= a_hi a <= zlen data /\
        (In q data -> lb data q < a_hi a) /\ a_hi a - a_lo a <= 2 * eps + 2.
Proof.
  intros c W He Hp Hd Hn Hsz.
  assert (Hc : capi_like c) by (apply capi_cfg_like; [exact (std_width_capi_bits c W)|lia..]).
  exact (C18_create_search_std c data Hc W ltac:(cbn; lia) ltac:(cbn; lia) Hd Hn Hsz).
Qed.

(* ---- non-vacuity 1: pgm_index_uint64_create(data, 40, 1) with float slopes ---- *)
Definition cw_c : cfg := capi_cfg (mkK 64 false) 1 false 1 false.
Definition cw_data : list Z :=
  map (fun i => let z := Z.of_nat i in z * z * z * 2 ^ 20 + 3 * z + (z mod 3) * 2 ^ 18) (seq 0 40).
Definition cw_q1 : Z := 27 * 27 * 27 * 2 ^ 20 + 3 * 27.   (* the key of rank 27 *)
Definition cw_q2 : Z := 2 ^ 33 + 12345.                   (* absent, lower bound 21 *)

Lemma cw_std_width : std_width cw_c.
Proof. right. right. right. reflexivity. Qed.
Lemma cw_capi_like : capi_like cw_c.
Proof. apply capi_cfg_like; cbn; lia. Qed.
Lemma cw_data_ok : data_ok cw_c cw_data.
Proof.
  constructor; [discriminate | vm_compute; reflexivity | | vm_compute; reflexivity | vm_compute; reflexivity].
  apply Forall_forall. intros x Hx. vm_compute in Hx.
  repeat (destruct Hx as [<-|Hx]; [reflexivity|]). contradiction.
Qed.

Example cw_contract :
  c_fdouble cw_c = false /\ c_epsrec cw_c = 4 /\ zlen cw_data = 40 /\
  exists ix, build cw_c cw_data = Ok ix /\
    (exists a, search cw_c ix cw_q1 = Ok a /\
       0 <= a_lo a <= 27 /\ 27 < a_hi a <= 40 /\ a_hi a - a_lo a <= 4) /\
    (exists a, search cw_c ix cw_q2 = Ok a /\
       0 <= a_lo a <= 21 /\ 21 <= a_hi a <= 40 /\ a_hi a - a_lo a <= 4).
Proof.
  split; [reflexivity|]. split; [reflexivity|]. split; [reflexivity|].
  destruct (C18_create_search_float cw_c cw_data cw_capi_like cw_std_width ltac:(cbn; lia) eq_refl cw_data_ok
              ltac:(vm_compute; discriminate) ltac:(vm_compute; discriminate)) as (ix & E & H).
  exists ix. split; [exact E|]. split.
  - destruct (H cw_q1 ltac:(vm_compute; reflexivity)) as (a & Es & H1 & H2 & H3 & H4). exists a. split; [exact Es|].
    assert (Hin : In cw_q1 cw_data) by (apply in_map_iff; exists 27%nat; split; [reflexivity | apply in_seq; lia]).
    specialize (H3 Hin).
    assert (E1 : lb cw_data cw_q1 = 27) by (vm_compute; reflexivity).
    assert (E2 : zlen cw_data = 40) by reflexivity. rewrite E1 in *. rewrite E2 in *.
    change (2 * c_eps cw_c + 2) with 4 in H4. lia.
  - destruct (H cw_q2 ltac:(vm_compute; reflexivity)) as (a & Es & H1 & H2 & _ & H4). exists a. split; [exact Es|].
    assert (E1 : lb cw_data cw_q2 = 21) by (vm_compute; reflexivity).
    assert (E2 : zlen cw_data = 40) by reflexivity. rewrite E1 in *. rewrite E2 in *.
    change (2 * c_eps cw_c + 2) with 4 in H4. lia.
Qed.

(* cross-check: the same two searches, computed (a two-level index: 5 + 2 segments) *)
Example cw_search_computed :
  match build cw_c cw_data with
  | Ok ix => (Ok (ix_offsets ix), search cw_c ix cw_q1, search cw_c ix cw_q2)
  | Err e => (Err e, Err e, Err e)
  end = (Ok [0; 5; 7], Ok (mkApprox 27 26 30), Ok (mkApprox 19 18 22)).
Proof. vm_compute. reflexivity. Qed.

(* ---- non-vacuity 2: an instance where the old hypothesis is FALSE ----
   pgm_index_uint64_create(cx_data, 6, 1) with float slopes: the bottom level is that of
   FloatOkAll.cx_c (same key type, Epsilon, Floating), so float_ok fails at cx_k as in
   FloatOkAll.cx_not_float_ok; hence float_ok_valid cw_c is false and ComposeCapi.C18_create_search
   says nothing about this configuration. *)
Lemma cw_data_ok_cx : data_ok cw_c cx_data.
Proof.
  constructor; [discriminate | reflexivity | | vm_compute; reflexivity | vm_compute; reflexivity].
  repeat constructor.
Qed.

Lemma cw_not_float_ok : ~ float_ok cw_c cx_data cx_k.
Proof.
  intros [H0 _]. apply cx_not_float_ok. split; [exact H0|].
  destruct (build_level cx_c (c_eps cx_c) cx_data (zlen cx_data) (last_z cx_data) []) as [[segs ln]|e]; [|exact I].
  exact I.
Qed.

Lemma cw_not_float_ok_valid : ~ float_ok_valid cw_c.
Proof. intros H. exact (cw_not_float_ok (H cx_data cx_k cw_data_ok_cx)). Qed.

Example cw_contract_cx :
  ~ float_ok_valid cw_c /\
  exists ix, build cw_c cx_data = Ok ix /\
    exists a, search cw_c ix cx_k = Ok a /\
      0 <= a_lo a <= 5 /\ 5 <= a_hi a <= 6 /\ a_hi a - a_lo a <= 4.
Proof.
  split; [exact cw_not_float_ok_valid|].
  destruct (C18_create_search_float cw_c cx_data cw_capi_like cw_std_width ltac:(cbn; lia) eq_refl cw_data_ok_cx
              ltac:(vm_compute; discriminate) ltac:(vm_compute; discriminate)) as (ix & E & H).
  exists ix. split; [exact E|].
  destruct (H cx_k ltac:(vm_compute; reflexivity)) as (a & Es & H1 & H2 & _ & H4). exists a. split; [exact Es|].
  change (lb cx_data cx_k) with 5 in H1, H2. change (zlen cx_data) with 6 in H2.
  change (2 * c_eps cw_c + 2) with 4 in H4. auto.
Qed.

Example cw_search_computed_cx :
  match build cw_c cx_data with Ok ix => search cw_c ix cx_k | Err e => Err e end = Ok (mkApprox 4 3 6).
Proof. vm_compute. reflexivity. Qed.

Print Assumptions C18_search_contract_at_cap.
Print Assumptions C18_search_contract_float.
Print Assumptions C18_search_contract_double.
Print Assumptions C18_search_contract_std.
Print Assumptions C18_create_search_float.
Print Assumptions C18_create_search_double.
Print Assumptions C18_create_search_std.
Print Assumptions C18_create_search_args_std.
Print Assumptions cw_contract.
Print Assumptions cw_contract_cx.

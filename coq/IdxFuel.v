(* IdxFuel.v — the loop of PGMIndex::build terminates: every upper level has fewer keys than the level
   below, so build_upper never runs out of fuel (no float hypothesis is needed). *)
Require Import Base Fp PlaModel PlaSpec PlaCert Greedy PlaComplete PlaSound GenLeaf IndexModel IndexProofs MappedQueries IdxFed IdxSeg IdxBlock IdxLevel IdxSearch0 IdxRoute IdxChain IdxMain.
From Coq Require Import ZifyBool.
Local Open Scope Z_scope.

Definition nofuel {A} (r : res A) : Prop := r <> Err OutOfFuel.

Lemma nofuel_ok {A} (a : A) : nofuel (Ok a).
Proof. discriminate. Qed.

Lemma nofuel_bind {A B} (r : res A) (f : A -> res B) :
  nofuel r -> (forall a, r = Ok a -> nofuel (f a)) -> nofuel (bind r f).
Proof.
  intros H1 H2. destruct r as [a|e]; cbn [bind]; [apply H2; reflexivity|].
  intros E. apply H1. injection E as ->. reflexivity.
Qed.

Lemma nofuel_add_point yt s x y : nofuel (add_point yt s x y).
Proof.
  unfold nofuel, add_point.
  repeat match goal with
         | |- context [if ?c then _ else _] => destruct c
         | |- context [let '(_, _) := ?p in _] => destruct p
         | |- context [match ?l with [] => _ | _ :: _ => _ end] => destruct l
         end; discriminate.
Qed.

Lemma nofuel_feed st x y : nofuel (feed y_size_t st x y).
Proof.
  unfold feed. apply nofuel_bind; [apply nofuel_add_point|]. intros [ok opt1] _.
  destruct ok; [apply nofuel_ok|]. apply nofuel_bind; [apply nofuel_add_point|]. intros; apply nofuel_ok.
Qed.

Lemma nofuel_nth_res {A} (l : list A) i : nofuel (nth_res l i).
Proof. unfold nofuel, nth_res. destruct (i <? 0); [discriminate|]. destruct (nth_error l (Z.to_nat i)); discriminate. Qed.

Lemma nofuel_seg_walk kt l : forall prev i st, nofuel (seg_walk kt prev l i st).
Proof.
  induction l as [|xi tl IH]; intros prev i st; [apply nofuel_ok|].
  destruct tl as [|xn tl']; [apply nofuel_ok|]. cbn [seg_walk].
  apply nofuel_bind; [|intros; apply IH].
  destruct (xi =? prev); [destruct (xi + 1 <? xn); [apply nofuel_feed | apply nofuel_ok] | apply nofuel_feed].
Qed.

Lemma nofuel_chunk kt n start eps chunk rest : nofuel (make_segmentation_chunk kt n start eps chunk rest).
Proof.
  unfold make_segmentation_chunk. apply nofuel_bind.
  { unfold pla_init, nofuel. destruct (eps <? 0); discriminate. }
  intros opt _. destruct chunk as [|x0 tl]; [discriminate|].
  apply nofuel_bind; [apply nofuel_feed|]. intros st1 _.
  apply nofuel_bind; [apply nofuel_seg_walk|]. intros st2 _.
  apply nofuel_bind.
  { destruct (rev (x0 :: tl)) as [|a [|b r]]; try apply nofuel_ok.
    destruct (negb (a =? b)); [apply nofuel_feed | apply nofuel_ok]. }
  intros st3 _. apply nofuel_bind.
  { match goal with |- nofuel (if ?c then _ else _) => destruct c end; [|apply nofuel_ok].
    apply nofuel_bind.
    { match goal with |- nofuel (if ?c then _ else _) => destruct c end; [apply nofuel_ok | apply nofuel_nth_res]. }
    intros prev _. match goal with |- nofuel (if ?c then _ else _) => destruct c end; [|apply nofuel_ok].
    apply nofuel_bind; [apply nofuel_nth_res|]. intros nx _.
    match goal with |- nofuel (if ?c then _ else _) => destruct c end; [apply nofuel_feed | apply nofuel_ok]. }
  intros st4 _. apply nofuel_bind.
  { match goal with |- nofuel (if ?c then _ else _) => destruct c end; [apply nofuel_feed | apply nofuel_ok]. }
  intros; apply nofuel_ok.
Qed.

Lemma nofuel_par_chunks kt n eps cs par data is_ : nofuel (par_chunks kt n eps cs par data is_).
Proof.
  induction is_ as [|i rest IH]; [apply nofuel_ok|]. cbn [par_chunks].
  apply nofuel_bind.
  { match goal with |- nofuel (if ?c then _ else _) => destruct c end; [|apply nofuel_chunk].
    apply nofuel_bind; [apply nofuel_nth_res|]. intros prev _.
    match goal with |- nofuel (let '(_, _) := ?p in _) => destruct p end.
    match goal with |- nofuel (if ?c then _ else _) => destruct c end; [apply nofuel_ok | apply nofuel_chunk]. }
  intros here _. apply nofuel_bind; [exact IH|]. intros tl _.
  destruct here as [[s1 f1] c1]. destruct tl as [[s2 f2] c2]. apply nofuel_ok.
Qed.

Lemma nofuel_mseg_par kt thr par n eps data : nofuel (make_segmentation_par kt thr par n eps data).
Proof.
  unfold make_segmentation_par. destruct ((par =? 1) || (n <? thr)); [apply nofuel_chunk | apply nofuel_par_chunks].
Qed.

Lemma nofuel_map_res c css : nofuel (map_res (segment_of_cseg c) css).
Proof.
  induction css as [|cs t IH]; [apply nofuel_ok|]. cbn [map_res].
  apply nofuel_bind.
  { unfold segment_of_cseg, nofuel. destruct (cseg_line cs (c_first cs)) as [sl icpt].
    destruct (icpt >? 2 ^ 32 - 1); [discriminate|]. destruct (icpt <? 0); discriminate. }
  intros b _. apply nofuel_bind; [exact IH|]. intros; apply nofuel_ok.
Qed.

Lemma nofuel_build_level c eps keys ln ldk segs : nofuel (build_level c eps keys ln ldk segs).
Proof.
  unfold build_level. apply nofuel_bind; [apply nofuel_mseg_par|]. intros [[css fed] cnt] _.
  apply nofuel_bind; [apply nofuel_map_res|]. intros new _.
  match goal with |- nofuel (if ?c then _ else _) => destruct c end; apply nofuel_ok.
Qed.

(* ---- the fed points of a strictly increasing key list: (key_i, i) and the closing point ---- *)
Fixpoint idx_pts (l : list Z) (i : Z) : list (Z * Z) :=
  match l with [] => [] | x :: t => (x, i) :: idx_pts t (i + 1) end.

Lemma W_ssorted kt l : forall prev nx i, ssortedb (prev :: l) = true -> W kt prev l nx i = idx_pts l i.
Proof.
  induction l as [|x t IH]; intros prev nx i Hs; [reflexivity|].
  destruct (ssortedb_inv prev (x :: t) Hs) as [H1 H2]. pose proof (H1 x (or_introl eq_refl)) as Hlt.
  cbn [W idx_pts]. unfold pt1. replace (x =? prev) with false by lia. cbn [app]. f_equal. apply IH. exact H2.
Qed.

Lemma idx_pts_app l1 : forall l2 i, idx_pts (l1 ++ l2) i = idx_pts l1 i ++ idx_pts l2 (i + zlen l1).
Proof.
  induction l1 as [|x t IH]; intros l2 i; [cbn [app idx_pts]; rewrite zlen_nil; f_equal; lia|].
  cbn [app idx_pts]. rewrite IH, zlen_cons. do 3 f_equal. lia.
Qed.

Lemma fed_spec_ssorted kt keys : keys <> [] -> ssortedb keys = true -> nowrap kt keys ->
  fed_spec kt keys = idx_pts (keys ++ [last keys 0 + 1]) 0.
Proof.
  intros Hne Hss Hw. pose proof (ssortedb_sorted _ Hss) as Hs.
  rewrite (fed_spec_unfold kt keys Hne Hs Hw). rewrite idx_pts_app. cbn [idx_pts]. rewrite Z.add_0_l. f_equal.
  apply W_ssorted. destruct keys as [|a t]; [contradiction|]. cbn [hd].
  apply ssortedb_cons_intro; [|exact Hss]. intros y Hy.
  destruct Hy as [<-|Hy]; [lia|]. destruct (ssortedb_inv a t Hss) as [H1 _]. specialize (H1 y Hy). lia.
Qed.

(* ---- cutting an indexed list into blocks of B points ---- *)
Fixpoint kblk (fuel B : nat) (l : list Z) (i : Z) : list (list (Z * Z)) :=
  match fuel with
  | O => []
  | S f => match l with
           | [] => []
           | _ => idx_pts (firstn B l) i :: kblk f B (skipn B l) (i + Z.of_nat B)
           end
  end.

Lemma idx_pts_len l : forall i, length (idx_pts l i) = length l.
Proof. induction l as [|x t IH]; intros i; [reflexivity|]. cbn [idx_pts length]. rewrite IH. reflexivity. Qed.

Lemma kblk_concat B : (1 <= B)%nat -> forall fuel l i, (length l <= fuel)%nat ->
  concat (kblk fuel B l i) = idx_pts l i.
Proof.
  intros HB. induction fuel as [|f IH]; intros l i Hl.
  - destruct l; [reflexivity|cbn [length] in Hl; lia].
  - destruct l as [|x t]; [reflexivity|]. cbn [kblk concat].
    rewrite IH by (rewrite skipn_length; cbn [length] in *; lia).
    rewrite <- (firstn_skipn B (x :: t)) at 3. rewrite idx_pts_app. f_equal.
    destruct (Nat.le_gt_cases B (length (x :: t))) as [Hle|Hgt].
    + f_equal. unfold zlen. rewrite firstn_length. lia.
    + rewrite skipn_all2 by lia. reflexivity.
Qed.

Lemma idx_pts_snd l : forall i p, In p (idx_pts l i) -> i <= snd p < i + zlen l.
Proof.
  induction l as [|x t IH]; intros i p Hp; [contradiction|]. cbn [idx_pts] in Hp. rewrite zlen_cons.
  pose proof (zlen_ge0 t). destruct Hp as [<-|Hp]; [cbn [snd]; lia|]. specialize (IH _ _ Hp). lia.
Qed.

Lemma idx_pts_feasible eps l i :
  0 <= eps -> 0 <= i -> i + zlen l + eps < 2 ^ 64 - 1 -> zlen l <= 2 * eps + 1 -> feasible eps (idx_pts l i).
Proof.
  intros He Hi Hb Hl. apply narrow_block_feasible; [exact He | |].
  - unfold ranks_ok. apply Forall_forall. intros p Hp. pose proof (idx_pts_snd _ _ _ Hp). lia.
  - intros p q Hp Hq. pose proof (idx_pts_snd _ _ _ Hp). pose proof (idx_pts_snd _ _ _ Hq). lia.
Qed.

Lemma kblk_ok eps B : (1 <= B)%nat -> Z.of_nat B <= 2 * eps + 1 -> 0 <= eps ->
  forall fuel l i, 0 <= i -> i + zlen l + eps < 2 ^ 64 - 1 ->
  Forall (fun b => b <> [] /\ feasible eps b) (kblk fuel B l i).
Proof.
  intros HB HB2 He. induction fuel as [|f IH]; intros l i Hi Hb; [constructor|].
  destruct l as [|x t]; [constructor|]. cbn [kblk]. constructor.
  - split.
    + destruct B as [|B']; [lia|]. cbn [firstn idx_pts]. discriminate.
    + assert (Hzf : zlen (firstn B (x :: t)) <= Z.of_nat B) by (unfold zlen; rewrite firstn_length; lia).
      assert (Hzf2 : zlen (firstn B (x :: t)) <= zlen (x :: t)) by (unfold zlen; rewrite firstn_length; lia).
      apply idx_pts_feasible; lia.
  - destruct (Nat.le_gt_cases B (length (x :: t))) as [Hle|Hgt].
    + apply IH; [lia|]. assert (Hzs : zlen (skipn B (x :: t)) + Z.of_nat B <= zlen (x :: t)).
      { unfold zlen. rewrite skipn_length. lia. }
      lia.
    + rewrite skipn_all2 by lia. destruct f; constructor.
Qed.

Lemma kblk_count B : (1 <= B)%nat -> forall fuel l i, l <> [] ->
  Z.of_nat (length (kblk fuel B l i)) * Z.of_nat B <= zlen l + Z.of_nat B - 1.
Proof.
  intros HB. induction fuel as [|f IH]; intros l i Hne; [cbn [kblk length]; destruct l; [contradiction|]; rewrite zlen_cons; pose proof (zlen_ge0 l); lia|].
  destruct l as [|x t]; [contradiction|]. cbn [kblk length].
  destruct (Nat.lt_ge_cases B (length (x :: t))) as [Hlt|Hge].
  - assert (Hsk : skipn B (x :: t) <> []).
    { intros E. apply (f_equal (@length Z)) in E. rewrite skipn_length in E. cbn [length] in *. lia. }
    specialize (IH (skipn B (x :: t)) (i + Z.of_nat B) Hsk).
    assert (Hzs : zlen (skipn B (x :: t)) = zlen (x :: t) - Z.of_nat B) by (unfold zlen; rewrite skipn_length; lia).
    rewrite Hzs in IH. lia.
  - rewrite skipn_all2 by lia. assert (Hk : kblk f B [] (i + Z.of_nat B) = []) by (destruct f; reflexivity).
    rewrite Hk. cbn [length]. rewrite zlen_cons. pose proof (zlen_ge0 t). lia.
Qed.

(* ---- the number of segments of an upper level ---- *)
Lemma upper_count kt thr par eps keys css fed cnt :
  make_segmentation_par kt thr par (zlen keys) eps keys = Ok (css, fed, cnt) ->
  1 <= par -> keys <> [] -> ssortedb keys = true -> nowrap kt keys ->
  zlen keys + 1 + eps < 2 ^ 64 - 1 -> 0 <= eps ->
  cnt * (2 * eps + 1) <= zlen keys + (2 * eps + 1) +
                         (if (par =? 1) || (zlen keys <? thr) then 0 else (par - 1) * (2 * eps + 1)).
Proof.
  intros H Hpar Hne Hss Hw Hb He. set (m := zlen keys) in *. set (B := Z.to_nat (2 * eps + 1)).
  assert (HB : (1 <= B)%nat) by (unfold B; lia).
  pose proof (make_segmentation_par_fed _ _ _ _ _ _ _ _ H Hpar) as Efed.
  rewrite (fed_spec_ssorted kt keys Hne Hss Hw) in Efed.
  set (l := keys ++ [last keys 0 + 1]) in *.
  assert (Hzl : zlen l = m + 1) by (unfold l; rewrite zlen_app; reflexivity).
  assert (Hlne : l <> []) by (unfold l; intros E; apply app_eq_nil in E; destruct E as [_ E]; discriminate E).
  set (p := kblk (length l) B l 0).
  assert (Hp : is_partition (feasible eps) fed p).
  { split.
    - unfold p. rewrite kblk_concat by lia. symmetry. exact Efed.
    - apply (kblk_ok eps B HB); unfold B; lia. }
  pose proof (kblk_count B HB (length l) l 0 Hlne) as Hc. fold p in Hc.
  replace (Z.of_nat B) with (2 * eps + 1) in Hc by (unfold B; lia). rewrite Hzl in Hc.
  change (Z.of_nat (length p)) with (zlen p) in Hc.
  unfold make_segmentation_par in H. fold m in H.
  destruct ((par =? 1) || (m <? thr)) eqn:Ec.
  - destruct (make_segmentation_sound kt m eps keys css fed cnt H ltac:(lia) ltac:(lia)) as (g & _ & _ & _ & _ & Hopt).
    specialize (Hopt p Hp). nia.
  - assert (H' : make_segmentation_par kt thr par m eps keys = Ok (css, fed, cnt)).
    { unfold make_segmentation_par. rewrite Ec. exact H. }
    destruct (make_segmentation_par_sound kt thr par m eps keys css fed cnt H' Hpar ltac:(lia) ltac:(lia)) as (g & _ & _ & _ & Hopt).
    specialize (Hopt p Hp). nia.
Qed.

(* at k = sentinel the floating-point interface is vacuous: it can be used for purely structural facts *)
Lemma level_float_ok_trivial c eps keys ldk : level_float_ok c eps keys ldk (sentinel c).
Proof.
  intros css fed cnt new M1 M2. split; [|intros _ _ H; lia].
  pose proof (map_res_Forall2 _ _ _ M2) as F. clear M1 M2. induction F; cbn [EvL]; [exact I|].
  split; [intros _ _ H'; lia | assumption].
Qed.

Lemma level_float_ok_cap_trivial c eps keys ldk : level_float_ok_cap c eps keys ldk (sentinel c).
Proof. apply level_float_ok_cap_of. apply level_float_ok_trivial. Qed.

Lemma build_level_shrinks c keys ldk segs segs1 ln1 :
  build_level c (c_epsrec c) keys (zlen keys) ldk segs = Ok (segs1, ln1) ->
  1 <= c_epsrec c -> 1 <= c_par c <= 20 -> keys <> [] -> ssortedb keys = true -> nowrap (c_kt c) keys ->
  2 <= zlen keys -> zlen keys + 1 + c_epsrec c < 2 ^ 64 - 1 -> ln1 < zlen keys.
Proof.
  intros H He Hpar Hne Hss Hw Hm Hb.
  destruct (build_level_shape _ _ _ _ _ _ _ _ H) as (css & fed & cnt & new & T & M1 & _ & _ & HT).
  pose proof (upper_count _ _ _ _ _ _ _ _ M1 ltac:(lia) Hne Hss Hw Hb ltac:(lia)) as Hc.
  assert (Hln : ln1 <= cnt) by (destruct HT as [(_ & _ & ->)|(_ & -> & _)]; lia).
  set (m := zlen keys) in *. set (B := 2 * c_epsrec c + 1) in *.
  assert (HB : 3 <= B) by (unfold B; lia).
  change par_threshold with 32768 in Hc.
  destruct ((c_par c =? 1) || (m <? 32768)) eqn:Ec.
  - assert (cnt < m); [|lia]. destruct (Z_lt_ge_dec cnt m) as [Hlt|Hge]; [exact Hlt|exfalso]. nia.
  - assert (Hm2 : 32768 <= m) by lia.
    assert (cnt < m); [|lia]. destruct (Z_lt_ge_dec cnt m) as [Hlt|Hge]; [exact Hlt|exfalso].
    assert (cnt * B <= m + 20 * B) by nia. nia.
Qed.

Lemma build_upper_nofuel c ldk :
  1 <= kbits (c_kt c) -> 1 <= c_par c <= 20 -> 0 <= c_epsrec c ->
  forall fuel rl r,
    chainR c ldk (sentinel c) (r :: rl) -> lr_ln r <= Z.of_nat fuel ->
    Z.of_nat fuel + c_epsrec c + 2 < 2 ^ 64 - 1 ->
    nofuel (build_upper c fuel ldk (below (r :: rl)) (offs_of (r :: rl)) (lr_ln r)).
Proof.
  intros Hb Hpar He0. induction fuel as [|f IH]; intros rl r Hch Hln Hf64.
  - cbn [build_upper]. replace (lr_ln r <=? 1) with true by lia. rewrite orb_true_r. apply nofuel_ok.
  - cbn [build_upper]. destruct ((c_epsrec c =? 0) || (lr_ln r <=? 1)) eqn:Ec; [apply nofuel_ok|].
    assert (Eoff : nth (length (offs_of (r :: rl)) - 2) (offs_of (r :: rl)) 0 = zlen (below rl)).
    { rewrite offs_len. cbn [length]. replace (S (S (length rl)) - 2)%nat with (length rl) by lia.
      exact (offs_nth [r] rl). }
    rewrite Eoff.
    assert (Esk : skipn (Z.to_nat (zlen (below rl))) (below (r :: rl)) = lr_L r).
    { rewrite below_cons. apply skipn_zlen_app. }
    rewrite Esk. apply nofuel_bind; [apply nofuel_build_level|]. intros [segs1 ln1] E.
    assert (Hok : lrec_ok c ldk (sentinel c) r) by (cbn [chainR] in Hch; tauto).
    destruct (build_upper_step c ldk (sentinel c) r rl segs1 ln1 Hb ltac:(lia) He0 Hok ltac:(apply orb_false_iff in Ec; lia) ltac:(lia)
                (level_float_ok_cap_trivial _ _ _ _) E) as (r' & Hok' & Hlink & Es1 & Eln1).
    destruct (next_keys c ldk (sentinel c) r Hb Hok) as (_ & _ & Hz & _ & Hss & Hko & _).
    apply orb_false_iff in Ec. destruct Ec as [Ec1 Ec2].
    assert (He1 : 1 <= c_epsrec c) by lia. assert (Hl2 : 2 <= lr_ln r) by lia.
    assert (Hshr : ln1 < lr_ln r).
    { set (keys' := map sg_key (firstn (Z.to_nat (lr_ln r)) (lr_L r))) in *.
      rewrite <- Hz in E. rewrite <- Hz.
      apply (build_level_shrinks c _ ldk _ segs1 ln1 E); [exact He1 | exact Hpar | | exact Hss | apply key_ok_nowrap; assumption | lia | lia].
      intros En. rewrite En in Hz. change (zlen (@nil Z)) with 0 in Hz. lia. }
    subst ln1. rewrite Es1.
    assert (Hch' : chainR c ldk (sentinel c) (r' :: r :: rl)) by (cbn [chainR]; cbn [chainR] in Hch; tauto).
    replace (offs_of (r :: rl) ++ [zlen (below (r' :: r :: rl))]) with (offs_of (r' :: r :: rl)) by reflexivity.
    apply (IH (r :: rl) r' Hch'); lia.
Qed.

Lemma W_len kt l : forall prev nx i, zlen (W kt prev l nx i) <= zlen l.
Proof.
  induction l as [|x t IH]; intros prev nx i; [cbn; lia|].
  cbn [W]. rewrite zlen_app, zlen_cons. specialize (IH x nx (i + 1)).
  assert (zlen (pt1 kt prev x (hd nx t) i) <= 1); [|lia].
  unfold pt1. destruct (x =? prev); [destruct (x + 1 <? hd nx t)|]; cbn; lia.
Qed.

Lemma zlen_concat_ge (g : list (list (Z * Z))) : Forall (fun b => b <> []) g -> zlen g <= zlen (concat g).
Proof.
  induction 1 as [|b g Hb _ IH]; [cbn; lia|]. cbn [concat]. rewrite zlen_cons, zlen_app.
  destruct b; [contradiction|]. rewrite zlen_cons. pose proof (zlen_ge0 b). lia.
Qed.

Theorem build_never_out_of_fuel c data :
  1 <= kbits (c_kt c) -> 1 <= c_par c <= 20 -> 0 <= c_epsrec c ->
  sortedb data = true -> Forall (fun x => in_ktype (c_kt c) x = true) data ->
  zlen data + c_eps c < 2 ^ 64 - 1 -> zlen data + c_epsrec c + 4 < 2 ^ 64 - 1 ->
  build c data <> Err OutOfFuel.
Proof.
  intros Hb Hpar He0 Hs Hkt Hn64 Hf64. change (nofuel (build c data)). unfold build.
  destruct (zlen data =? 0) eqn:E0; [apply nofuel_ok|].
  destruct (last_z data =? sentinel c) eqn:E1; [discriminate|].
  assert (Hne : data <> []) by (intros ->; cbn in E0; discriminate E0).
  apply nofuel_bind; [apply nofuel_build_level|]. intros [segs ln] E2.
  apply nofuel_bind; [|intros; apply nofuel_ok].
  assert (Hlast : last_z data < sentinel c).
  { assert (Hin : In (last_z data) data).
    { unfold last_z. destruct (exists_last Hne) as (l' & a & ->). rewrite last_last. apply in_or_app. right. left. reflexivity. }
    rewrite Forall_forall in Hkt. specialize (Hkt _ Hin). unfold in_ktype, sentinel in *. lia. }
  assert (Hko : Forall (key_ok (c_kt c)) data).
  { rewrite Forall_forall in *. intros x Hx. split; [apply Hkt; exact Hx|].
    pose proof (sorted_le_last data x 0 Hs Hx). unfold last_z, sentinel in *. lia. }
  pose proof (key_ok_nowrap _ _ Hb Hko) as Hw.
  destruct (build_level_desc _ _ _ _ _ _ _ E2 ltac:(lia) Hne Hs Hw Hn64)
    as (css & fed & cnt & g & new & T & M1 & M2 & Es & Hcat & F1 & F2 & He & Htail).
  cbn [app] in Es, Htail.
  destruct (level_float_ok_cap_trivial c (c_eps c) data (last_z data) css fed cnt new M1 M2) as [Fev _].
  pose proof (Lv_of_Forall2 c (c_eps c) (EvalOKc (zlen data + c_eps c) c (sentinel c)) css g new F1 F2 Fev) as HL.
  set (r0 := mkL data (c_eps c) css g new T ln).
  assert (Hok0 : lrec_ok c (last_z data) (sentinel c) r0).
  { unfold lrec_ok, r0. cbn [lr_keys lr_eps lr_css lr_g lr_new lr_T lr_ln]. do 6 (split; [assumption|]). exact Htail. }
  assert (Eb : below [r0] = segs).
  { unfold below. cbn [rev app map concat]. rewrite app_nil_r. unfold lr_L, r0. cbn [lr_new lr_T]. symmetry. exact Es. }
  assert (Eo : offs_of [r0] = [0; zlen segs]) by (cbn [offs_of app]; rewrite Eb; reflexivity).
  rewrite <- Eo. rewrite <- Eb. change ln with (lr_ln r0).
  apply (build_upper_nofuel c (last_z data) Hb Hpar He0).
  - cbn [chainR]. split; [exact Hok0 | reflexivity].
  - (* ln <= number of fed points <= n + 1 *)
    destruct (Lv_keys _ _ _ _ _ _ HL) as [_ Hgne]. destruct (Lv_len _ _ _ _ _ _ HL) as [Lg _].
    pose proof (zlen_concat_ge g Hgne) as Hg. rewrite Hcat in Hg.
    rewrite (fed_spec_unfold (c_kt c) data Hne Hs Hw), zlen_app in Hg.
    pose proof (W_len (c_kt c) data (hd 0 data - 1) (last data 0) 0) as HWl. change (zlen [(last data 0 + 1, zlen data)]) with 1 in Hg.
    assert (Hln : ln <= zlen new) by (destruct Htail as [(_ & _ & ->)|(_ & -> & _)]; lia).
    cbn [lr_ln r0]. unfold zlen in *. lia.
  - unfold zlen in *. lia.
Qed.

Print Assumptions build_never_out_of_fuel.
Print Assumptions build_level_shrinks.

(* ComposeFloat.v — the floating-point hypothesis float_ok_valid discharged for Floating = double
   (FloatOkAll.float_ok_double), giving end-to-end statements with no hypothesis left about the
   floating-point evaluation or about the built index. *)
Require Import Base Fp PlaModel GenLeaf IndexModel IndexProofs IdxChain FloatOk FloatOkAll
  MappedModel MappedQueries DynModel DynSpec DynExec DynCoreQuery
  ComposeIdx ComposeBuild ComposeMapped ComposeDyn ComposeDynGood.
From Coq Require Import ZifyBool.
Local Open Scope Z_scope.

Theorem float_ok_valid_double c :
  idx_ok c -> cfg_small c -> std_width c -> c_fdouble c = true -> float_ok_valid c.
Proof.
  intros [Hb He He64 Hr0 Hr64 Hp] [Hp20 He31 Hr31] W Hf data k [Hne Hs Hkt Hlast Hn32].
  apply float_ok_double; try assumption; lia.
Qed.

(* PGMIndex<K, Epsilon, EpsilonRecursive, double> over at most 2^30 keys of a standard integer type:
   the constructor succeeds and every search below the reserved value satisfies the contract *)
Theorem index_contract_double c data :
  idx_ok c -> cfg_small c -> std_width c -> c_fdouble c = true -> data_ok c data -> zlen data <= 2 ^ 30 ->
  exists ix, build c data = Ok ix /\
    forall q, q < sentinel c ->
      exists a, search c ix q = Ok a /\
        0 <= a_lo a <= lb data q /\ lb data q <= a_hi a <= zlen data /\
        (In q data -> lb data q < a_hi a) /\ a_hi a - a_lo a <= 2 * c_eps c + 2.
Proof.
  intros Hc Hsm W Hf. exact (build_search_contract c data Hc Hsm (float_ok_valid_double c Hc Hsm W Hf)).
Qed.

(* C11 for Floating = double *)
Theorem C11_mapped_double c data :
  idx_ok c -> cfg_small c -> std_width c -> c_fdouble c = true -> data_ok c data -> zlen data <= 2 ^ 30 ->
  exists m, from_range c data = Ok m /\ mp_data m = data /\
    forall q, q < sentinel c ->
      mapped_lower_bound c m q = Ok (lb data q) /\
      mapped_upper_bound c m q = Ok (ub data q) /\
      mapped_count c m q = Ok (ub data q - lb data q) /\
      mapped_contains c m q = Ok (existsb (Z.eqb q) data).
Proof.
  intros Hc Hsm W Hf. exact (C11_mapped_total c data Hc Hsm (float_ok_valid_double c Hc Hsm W Hf)).
Qed.

(* C05 / C06 for DynamicPGMIndex over PGMIndex<K,...,double> *)
Theorem C05_find_double c d m q :
  idx_ok c -> cfg_small c -> std_width c -> c_fdouble c = true ->
  thist c d m -> sizes_ok d -> q < sentinel c ->
  exists r, dfind (idx_ops c) d q = Ok r /\ obs r = option_map (fun v => (q, v)) (am_find q m).
Proof.
  intros Hc Hsm W Hf Hh Hsz. exact (C05_find_typed c Hc (float_ok_valid_double c Hc Hsm W Hf) Hsm d m Hh Hsz q).
Qed.

Theorem C05_lower_bound_double c d m q :
  idx_ok c -> cfg_small c -> std_width c -> c_fdouble c = true ->
  thist c d m -> sizes_ok d -> q < sentinel c ->
  exists r, lower_bound (idx_ops c) d q = Ok r /\ obs r = am_lower_bound q m.
Proof.
  intros Hc Hsm W Hf Hh Hsz. exact (C05_lower_bound_typed c Hc (float_ok_valid_double c Hc Hsm W Hf) Hsm d m Hh Hsz q).
Qed.

Theorem C06_iter_double c d m q :
  idx_ok c -> cfg_small c -> std_width c -> c_fdouble c = true ->
  thist c d m -> sizes_ok d -> q < sentinel c ->
  exists r, lower_bound (idx_ops c) d q = Ok r /\ to_list_from (idx_ops c) d (iter_of r) = Ok (am_from q m).
Proof.
  intros Hc Hsm W Hf Hh Hsz. exact (C06_iter_typed c Hc (float_ok_valid_double c Hc Hsm W Hf) Hsm d m Hh Hsz q).
Qed.

(* either Floating type, when n * span of the key universe stays below the precision threshold
   (2^22 for float, 2^50 for double): FloatOkAll.float_ok_of_small_span *)
Theorem index_contract_small_span c data :
  idx_ok c -> cfg_small c -> std_width c -> data_ok c data -> zlen data <= 2 ^ 30 ->
  (zlen data + 2 * c_eps c) * (sentinel c - hd 0 data) < fthr c ->
  (zlen data + 1 + 2 * c_epsrec c) * (sentinel c - hd 0 data) < fthr c ->
  exists ix, build c data = Ok ix /\
    forall q, q < sentinel c ->
      exists a, search c ix q = Ok a /\
        0 <= a_lo a /\ a_lo a <= lb data q /\ lb data q <= a_hi a /\ a_hi a <= zlen data /\
        (In q data -> lb data q < a_hi a) /\ a_hi a - a_lo a <= 2 * c_eps c + 2.
Proof.
  intros Hc Hsm W Hd Hn H1 H2. destruct (build_total c data Hc Hsm Hd Hn) as (ix & E & Hs32).
  exists ix. split; [exact E|]. intros q Hq.
  pose proof Hc as [Hb He He64 Hr0 Hr64 Hp]. pose proof Hsm as [Hp20 He31 Hr31].
  pose proof Hd as [Hne Hs Hkt Hlast Hn32].
  assert (Hfl : float_ok c data (Z.max (hd 0 data) q)) by (apply float_ok_of_small_span; try assumption; lia).
  destruct (search_contract_at c data ix q Hc Hd E Hs32 Hq Hfl) as (a & Es & H).
  exists a. split; [exact Es|]. tauto.
Qed.

Print Assumptions index_contract_small_span.
Print Assumptions float_ok_valid_double.
Print Assumptions index_contract_double.
Print Assumptions C11_mapped_double.
Print Assumptions C05_find_double.

(* PlaSoundInv.v — the hull invariant of the PLA builder and its preservation by add_point. *)
Require Import Base PlaModel PlaSpec PlaSoundGeom.
Local Open Scope Z_scope.

(* Ll / Ul : the lower / upper band points seen so far; C / D : live lower / upper chain.
   L1 = line through r0 with slope s1 = r2 - r0 (minimum slope), L2 = line through r1 with slope
   s2 = r3 - r1 (maximum slope). *)
Record Inv (Ll Ul C D : list pt) (r0 r1 r2 r3 : pt) : Prop := mkInv {
  i_Cne : C <> [];
  i_Dne : D <> [];
  i_hdC : hd_pt C = r1;
  i_lastC : last C (0, 0) = r2;
  i_hdD : hd_pt D = r0;
  i_lastD : last D (0, 0) = r3;
  i_CL : Forall (fun v => In v Ll) C;
  i_DU : Forall (fun v => In v Ul) D;
  i_xC : xinc C;
  i_ccC : concave C;
  i_xD : xinc D;
  i_cvD : convex D;
  i_dx1 : 0 < fst (psub r2 r0);
  i_dx2 : 0 < fst (psub r3 r1);
  i_s12 : sle (psub r2 r0) (psub r3 r1);
  i_F1L : Forall (fun q => lev r0 (psub r2 r0) q <= 0) Ll;
  i_F2L : Forall (fun q => lev r1 (psub r3 r1) q <= 0) Ll;
  i_F1U : Forall (fun u => 0 <= lev r0 (psub r2 r0) u) Ul;
  i_F2U : Forall (fun u => 0 <= lev r1 (psub r3 r1) u) Ul;
  i_I3L : forall o s, 0 < fst s -> sle (psub r2 r0) s -> sle s (psub r3 r1) ->
            Forall (fun v => lev o s v <= 0) C -> Forall (fun q => lev o s q <= 0) Ll;
  i_I3U : forall o s, 0 < fst s -> sle (psub r2 r0) s -> sle s (psub r3 r1) ->
            Forall (fun v => 0 <= lev o s v) D -> Forall (fun u => 0 <= lev o s u) Ul
}.

(* ---- the invariant is symmetric under the reflection y -> -y ---- *)
Lemma lev_neg_l : forall o s v, lev o s (neg v) = - lev (neg o) (nslp s) v.
Proof. intros o s v. rewrite <- (lev_neg (neg o) (nslp s) v). rewrite neg_invol, nslp_invol. reflexivity. Qed.

Lemma Forall_map_neg : forall (P : pt -> Prop) l, Forall P (map neg l) <-> Forall (fun x => P (neg x)) l.
Proof. intros P l. apply Forall_map. Qed.

Lemma in_map_neg : forall v l, In v l -> In (neg v) (map neg l).
Proof. intros v l H. apply in_map. exact H. Qed.

Lemma Forall_In_map_neg : forall l L, Forall (fun v => In v L) l -> Forall (fun v => In v (map neg L)) (map neg l).
Proof.
  intros l L H. apply Forall_map_neg. eapply Forall_impl; [|exact H].
  intros v Hv. apply in_map_neg. exact Hv.
Qed.

Lemma xinc_map_neg : forall l, xinc l -> xinc (map neg l).
Proof. intros l H. unfold xinc. apply adj2_map. exact H. Qed.
Lemma concave_map_neg : forall l, convex l -> concave (map neg l).
Proof.
  intros l H. unfold concave. apply adj3_map. eapply adj3_impl; [|exact H].
  intros a b c Habc. cbn beta in *. rewrite cross_neg. lia.
Qed.
Lemma convex_map_neg : forall l, concave l -> convex (map neg l).
Proof.
  intros l H. unfold convex. apply adj3_map. eapply adj3_impl; [|exact H].
  intros a b c Habc. cbn beta in *. rewrite cross_neg. lia.
Qed.
Lemma map_neg_ne : forall l : list pt, l <> [] -> map neg l <> [].
Proof. intros [|a l] H; [contradiction | discriminate]. Qed.

Lemma Forall_lev_neg_le : forall o s l,
  Forall (fun u => 0 <= lev o s u) l -> Forall (fun q => lev (neg o) (nslp s) q <= 0) (map neg l).
Proof.
  intros o s l H. apply Forall_map_neg. eapply Forall_impl; [|exact H].
  intros u Hu. cbn beta in *. rewrite lev_neg. lia.
Qed.
Lemma Forall_lev_neg_ge : forall o s l,
  Forall (fun q => lev o s q <= 0) l -> Forall (fun u => 0 <= lev (neg o) (nslp s) u) (map neg l).
Proof.
  intros o s l H. apply Forall_map_neg. eapply Forall_impl; [|exact H].
  intros u Hu. cbn beta in *. rewrite lev_neg. lia.
Qed.
Lemma Forall_lev_unneg_le : forall o s l,
  Forall (fun q => lev o s q <= 0) (map neg l) -> Forall (fun u => 0 <= lev (neg o) (nslp s) u) l.
Proof.
  intros o s l H. apply Forall_map_neg in H. eapply Forall_impl; [|exact H].
  intros u Hu. cbn beta in *. rewrite lev_neg_l in Hu. lia.
Qed.
Lemma Forall_lev_unneg_ge : forall o s l,
  Forall (fun q => 0 <= lev o s q) (map neg l) -> Forall (fun u => lev (neg o) (nslp s) u <= 0) l.
Proof.
  intros o s l H. apply Forall_map_neg in H. eapply Forall_impl; [|exact H].
  intros u Hu. cbn beta in *. rewrite lev_neg_l in Hu. lia.
Qed.

Lemma Inv_mirror : forall Ll Ul C D r0 r1 r2 r3,
  Inv Ll Ul C D r0 r1 r2 r3 ->
  Inv (map neg Ul) (map neg Ll) (map neg D) (map neg C) (neg r1) (neg r0) (neg r3) (neg r2).
Proof.
  intros Ll Ul C D r0 r1 r2 r3 H. destruct H.
  constructor; rewrite ?psub_neg, ?fst_nslp.
  - apply map_neg_ne; assumption.
  - apply map_neg_ne; assumption.
  - rewrite hd_pt_map_neg. congruence.
  - rewrite last_map_neg. congruence.
  - rewrite hd_pt_map_neg. congruence.
  - rewrite last_map_neg. congruence.
  - apply Forall_In_map_neg; assumption.
  - apply Forall_In_map_neg; assumption.
  - apply xinc_map_neg; assumption.
  - apply concave_map_neg; assumption.
  - apply xinc_map_neg; assumption.
  - apply convex_map_neg; assumption.
  - assumption.
  - assumption.
  - apply sle_neg. assumption.
  - apply Forall_lev_neg_le. assumption.
  - apply Forall_lev_neg_le. assumption.
  - apply Forall_lev_neg_ge. assumption.
  - apply Forall_lev_neg_ge. assumption.
  - intros o s Hs H1 H2 Hall.
    rewrite <- (neg_invol o), <- (nslp_invol s). apply Forall_lev_neg_le.
    apply i_I3U0.
    + exact Hs.
    + apply sle_neg. rewrite nslp_invol. exact H2.
    + apply sle_neg. rewrite nslp_invol. exact H1.
    + apply Forall_lev_unneg_le. exact Hall.
  - intros o s Hs H1 H2 Hall.
    rewrite <- (neg_invol o), <- (nslp_invol s). apply Forall_lev_neg_ge.
    apply i_I3L0.
    + exact Hs.
    + apply sle_neg. rewrite nslp_invol. exact H2.
    + apply sle_neg. rewrite nslp_invol. exact H1.
    + apply Forall_lev_unneg_ge. exact Hall.
Qed.

(* ---- step A: a new upper band point p arrives ---- *)
Lemma lev_on_line : forall o a, lev o (psub a o) a = 0.
Proof. intros o a. rewrite lev_cross. unfold cross, psub. cbn [fst snd]. ring. Qed.

Lemma stepA_nobranch : forall Ll Ul C D r0 r1 r2 r3 p,
  Inv Ll Ul C D r0 r1 r2 r3 ->
  fst r3 <= fst p ->
  0 <= lev r0 (psub r2 r0) p -> 0 <= lev r1 (psub r3 r1) p ->
  Inv Ll (Ul ++ [p]) C D r0 r1 r2 r3.
Proof.
  intros Ll Ul C D r0 r1 r2 r3 p H Hx H1 H2. destruct H.
  constructor; try assumption.
  - eapply Forall_impl; [|exact i_DU0]. intros v Hv. apply in_or_app. left. exact Hv.
  - apply Forall_app. split; [assumption|]. constructor; [exact H1 | constructor].
  - apply Forall_app. split; [assumption|]. constructor; [exact H2 | constructor].
  - intros o s Hs Hs1 Hs2 Hall. apply Forall_app. split; [apply i_I3U0; assumption|].
    constructor; [|constructor].
    assert (Hr3 : 0 <= lev o s r3).
    { rewrite Forall_forall in Hall. apply Hall. rewrite <- i_lastD0. apply last_in. assumption. }
    apply (lev_above_right o s r3 (psub r3 r1) p); try assumption.
    rewrite (lev_shift r1 (psub r3 r1) r3 p) in H2. rewrite lev_on_line in H2. lia.
Qed.

Section StepA.
  Variables (Ll Ul D : list pt) (r0 r1 r2 r3 p c : pt) (rest : list pt).
  Hypothesis HI : Inv Ll Ul (c :: rest) D r0 r1 r2 r3.
  Hypothesis HxU : Forall (fun u => fst u < fst p) Ul.
  Hypothesis HxL : Forall (left_or_under p) Ll.
  Hypothesis Hr1x : fst r1 < fst p.
  Hypothesis H1 : 0 <= lev r0 (psub r2 r0) p.
  Hypothesis H2 : lev r1 (psub r3 r1) p < 0.

  Let s1 := psub r2 r0.
  Let s2 := psub r3 r1.

  Lemma sA_c : c = r1.
  Proof. pose proof (i_hdC _ _ _ _ _ _ _ _ HI) as E. exact E. Qed.

  Lemma sA_tangent : exists pre' t T',
    c :: rest = pre' ++ t :: T' /\ tangent_lower p c rest = t :: T' /\ fst t < fst p /\
    Forall (fun v => lev t (psub p t) v <= 0) (c :: rest).
  Proof.
    assert (Hrest : Forall (left_or_under p) rest).
    { pose proof (i_CL _ _ _ _ _ _ _ _ HI) as HCL. inversion HCL as [|c0 r Hc Hr]; subst.
      eapply Forall_impl; [|exact Hr]. intros v Hv. cbn beta in Hv.
      rewrite Forall_forall in HxL. apply HxL. exact Hv. }
    destruct (tangent_lower_below p rest c [] (i_xC _ _ _ _ _ _ _ _ HI) (i_ccC _ _ _ _ _ _ _ _ HI))
      as (pre' & t & T' & E1 & E2 & E3 & E4).
    - rewrite sA_c. exact Hr1x.
    - exact Hrest.
    - constructor.
    - exists pre', t, T'. split; [exact E1|]. split; [exact E2|]. split; [exact E3|].
      cbn [app] in E4. eapply Forall_impl; [|exact E4]. intros v Hv. cbn beta in Hv.
      rewrite lev_cross. exact Hv.
  Qed.
End StepA.

Lemma sle_from_levs : forall o s t p,
  lev o s t <= 0 -> 0 <= lev o s p -> sle s (psub p t).
Proof.
  intros o s t p Ht Hp. pose proof (lev_shift o s t p) as E.
  assert (H : 0 <= lev t s p) by lia.
  revert H. destruct s as [dx dy], t as [tx ty], p as [px py].
  unfold lev, sle, psub. cbn [fst snd]. lia.
Qed.

Lemma sle_tangent_s2 : forall t p a s,
  lev t (psub p t) a <= 0 -> lev a s p < 0 -> fst a < fst p -> fst t < fst p -> 0 < fst s ->
  sle (psub p t) s.
Proof.
  intros t p a s Ha Hp Hax Htx Hs.
  apply (sle_trans _ (psub p a)); try assumption; try (unfold psub; cbn [fst]; lia).
  - revert Ha. destruct t as [tx ty], p as [px py], a as [ax ay].
    unfold lev, sle, psub. cbn [fst snd]. lia.
  - revert Hp. destruct s as [dx dy], p as [px py], a as [ax ay].
    unfold lev, sle, psub. cbn [fst snd]. lia.
Qed.

(* old upper points stay above the new maximum-slope line through t and p *)
Lemma upper_above_new_L2 : forall r0 s1 r1 s2 t p u,
  0 < fst s1 -> 0 < fst s2 -> fst t < fst p -> fst u < fst p ->
  lev r0 s1 t <= 0 -> lev r1 s2 t <= 0 -> 0 <= lev r0 s1 p -> lev r1 s2 p < 0 ->
  0 <= lev r0 s1 u -> 0 <= lev r1 s2 u ->
  0 <= lev t (psub p t) u.
Proof.
  intros r0 s1 r1 s2 t p u Hs1 Hs2 Htp Hup Ht1 Ht2 Hp1 Hp2 Hu1 Hu2.
  destruct (Z_le_gt_dec (fst u) (fst t)) as [Hle | Hgt].
  - apply (lev_above_left t (psub p t) t s1 u); try assumption.
    + unfold psub; cbn [fst]; lia.
    + rewrite lev_self. lia.
    + pose proof (lev_shift r0 s1 t u). lia.
    + apply (sle_from_levs r0); assumption.
  - rewrite lev_cross. apply (between_cross_nonneg r1 s2 t p u); try assumption; lia.
Qed.

Lemma stepA_branch : forall Ll Ul D r0 r1 r2 r3 p c rest,
  Inv Ll Ul (c :: rest) D r0 r1 r2 r3 ->
  Forall (fun u => fst u < fst p) Ul ->
  Forall (left_or_under p) Ll ->
  fst r1 < fst p ->
  0 <= lev r0 (psub r2 r0) p -> lev r1 (psub r3 r1) p < 0 ->
  Inv Ll (Ul ++ [p]) (tangent_lower p c rest) (push_upper D p)
      r0 (hd_pt (tangent_lower p c rest)) r2 p.
Proof.
  intros Ll Ul D r0 r1 r2 r3 p c rest HI HxU HxL Hr1x H1 H2.
  destruct (sA_tangent _ _ _ _ _ _ _ _ _ _ HI HxL Hr1x) as (pre' & t & T' & EC & ET & Htx & Hbelow).
  pose proof (sA_c _ _ _ _ _ _ _ _ _ HI) as Ec.
  destruct HI.
  assert (HDx : Forall (fun v => fst v < fst p) D).
  { eapply Forall_impl; [|exact i_DU0]. intros v Hv. cbn beta in Hv.
    rewrite Forall_forall in HxU. apply HxU. exact Hv. }
  destruct (push_upper_props D p i_Dne0 i_xD0 i_cvD0 HDx) as (m & post & ED & Hmne & EP & Hmx & Hmc & Hmline).
  rewrite ET, EP. cbn [hd_pt hd].
  assert (HtC : In t (c :: rest)) by (rewrite EC; apply in_or_app; right; left; reflexivity).
  assert (HtL : In t Ll) by (rewrite Forall_forall in i_CL0; apply i_CL0; exact HtC).
  assert (Ht1 : lev r0 (psub r2 r0) t <= 0) by (rewrite Forall_forall in i_F1L0; apply i_F1L0; exact HtL).
  assert (Ht2 : lev r1 (psub r3 r1) t <= 0) by (rewrite Forall_forall in i_F2L0; apply i_F2L0; exact HtL).
  assert (Hdx2' : 0 < fst (psub p t)) by (unfold psub; cbn [fst]; lia).
  assert (Hs12' : sle (psub r2 r0) (psub p t)) by (apply (sle_from_levs r0); assumption).
  assert (Hr1C : lev t (psub p t) r1 <= 0).
  { rewrite Forall_forall in Hbelow. apply Hbelow. left. exact Ec. }
  assert (Hs2'2 : sle (psub p t) (psub r3 r1)) by (apply (sle_tangent_s2 t p r1); assumption).
  assert (HLbelow : Forall (fun q => lev t (psub p t) q <= 0) Ll) by (apply i_I3L0; assumption).
  constructor; try assumption.
  - discriminate.
  - intros E. apply app_eq_nil in E. destruct E as [_ E]. discriminate E.
  - reflexivity.
  - rewrite <- i_lastC0, EC. symmetry. apply last_app_cons.
  - rewrite <- i_hdD0, ED. destruct m; [contradiction | reflexivity].
  - apply last_last.
  - rewrite EC in i_CL0. apply Forall_app in i_CL0. exact (proj2 i_CL0).
  - apply Forall_app. split.
    + rewrite ED in i_DU0. apply Forall_app in i_DU0. destruct i_DU0 as [Hm _].
      eapply Forall_impl; [|exact Hm]. intros v Hv. apply in_or_app. left. exact Hv.
    + constructor; [apply in_or_app; right; left; reflexivity | constructor].
  - unfold xinc in *. rewrite EC in i_xC0. exact (adj2_app_r _ _ _ i_xC0).
  - unfold concave in *. rewrite EC in i_ccC0. exact (adj3_app_r _ _ _ i_ccC0).
  - apply Forall_app. split; [assumption | constructor; [exact H1 | constructor]].
  - apply Forall_app. split.
    + rewrite Forall_forall. intros u Hu. rewrite Forall_forall in i_F1U0, i_F2U0, HxU.
      apply (upper_above_new_L2 r0 (psub r2 r0) r1 (psub r3 r1) t p u); auto.
    + constructor; [rewrite lev_on_line; lia | constructor].
  - intros o s Hs Hs1 Hs2 Hall.
    assert (Hot : lev o s t <= 0) by (inversion Hall; assumption).
    apply i_I3L0; try assumption.
    + apply (sle_trans _ (psub p t)); assumption.
    + rewrite EC. apply Forall_app. split; [|exact Hall].
      rewrite EC in i_xC0. pose proof (xinc_app_lt _ _ _ i_xC0) as Hprex.
      rewrite EC in Hbelow. apply Forall_app in Hbelow. destruct Hbelow as [Hpb _].
      rewrite Forall_forall in Hprex, Hpb. rewrite Forall_forall. intros v Hv.
      apply (lev_below_left o s t (psub p t) v); auto. pose proof (Hprex v Hv). lia.
  - intros o s Hs Hs1 Hs2 Hall. apply Forall_app in Hall. destruct Hall as [Hm Hp].
    inversion Hp as [|p0 l0 Hp0 _]; subst.
    apply Forall_app. split; [|constructor; [exact Hp0 | constructor]].
    apply i_I3U0; try assumption.
    + apply (sle_trans _ (psub p t)); assumption.
    + apply Hmline; assumption.
Qed.

(* ---- step B: a new lower band point p arrives (mirror image of step A) ---- *)
Lemma Inv_unmirror : forall Ll Ul C D r0 r1 r2 r3,
  Inv (map neg Ul) (map neg Ll) (map neg D) (map neg C) (neg r1) (neg r0) (neg r3) (neg r2) ->
  Inv Ll Ul C D r0 r1 r2 r3.
Proof.
  intros Ll Ul C D r0 r1 r2 r3 H. apply Inv_mirror in H.
  rewrite !map_neg_invol, !neg_invol in H. exact H.
Qed.

Lemma stepB_nobranch : forall Ll Ul C D r0 r1 r2 r3 p,
  Inv Ll Ul C D r0 r1 r2 r3 ->
  fst r2 <= fst p ->
  lev r1 (psub r3 r1) p <= 0 -> lev r0 (psub r2 r0) p <= 0 ->
  Inv (Ll ++ [p]) Ul C D r0 r1 r2 r3.
Proof.
  intros Ll Ul C D r0 r1 r2 r3 p H Hx H2 H1.
  apply Inv_unmirror. rewrite map_app. cbn [map].
  apply stepA_nobranch.
  - apply Inv_mirror. exact H.
  - exact Hx.
  - rewrite psub_neg, lev_neg. lia.
  - rewrite psub_neg, lev_neg. lia.
Qed.

Definition left_or_over (p v : pt) : Prop := fst v < fst p \/ (fst v = fst p /\ snd p < snd v).

Lemma stepB_branch : forall Ll Ul C r0 r1 r2 r3 p d rest,
  Inv Ll Ul C (d :: rest) r0 r1 r2 r3 ->
  Forall (fun q => fst q < fst p) Ll ->
  Forall (left_or_over p) Ul ->
  fst r0 < fst p ->
  lev r1 (psub r3 r1) p <= 0 -> 0 < lev r0 (psub r2 r0) p ->
  Inv (Ll ++ [p]) Ul (push_lower C p) (tangent_upper p d rest)
      (hd_pt (tangent_upper p d rest)) r1 p r3.
Proof.
  intros Ll Ul C r0 r1 r2 r3 p d rest H HxL HxU Hr0x H2 H1.
  apply Inv_unmirror. rewrite map_app. cbn [map].
  rewrite push_lower_as_upper, tangent_upper_as_lower, hd_pt_map_neg, !map_neg_invol, neg_invol.
  apply stepA_branch with (r1 := neg r0) (r3 := neg r2).
  - apply Inv_mirror in H. exact H.
  - apply Forall_map_neg. exact HxL.
  - apply Forall_map_neg. eapply Forall_impl; [|exact HxU].
    intros v [Hv | [Hv1 Hv2]]; [left; exact Hv | right; unfold neg; cbn [fst snd]; lia].
  - exact Hr0x.
  - rewrite psub_neg, lev_neg. lia.
  - rewrite psub_neg, lev_neg. lia.
Qed.

(* PlaSoundInv.v — the hull invariant of the PLA builder and its preservation by add_point. *)
Require Import Base PlaModel PlaSpec PlaComplete PlaSoundGeom.
Local Open Scope Z_scope.

(* Ll / Ul : the lower / upper band points seen so far; C / D : live lower / upper chain.
   L1 = line through r0 with slope s1 = r2 - r0 (minimum slope), L2 = line through r1 with slope
   s2 = r3 - r1 (maximum slope). *)
Record Inv (Ll Ul C D : list pt) (r0 r1 r2 r3 : pt) : Prop := mkInv {
  i_Cne : C <> [];
  i_Dne : D <> [];
  i_hdC : hd_pt C = r1;
  i_lastC : last C (0, 0) = r2;
  i_hdD : hd_pt D = r0;
  i_lastD : last D (0, 0) = r3;
  i_CL : Forall (fun v => In v Ll) C;
  i_DU : Forall (fun v => In v Ul) D;
  i_xC : xinc C;
  i_ccC : concave C;
  i_xD : xinc D;
  i_cvD : convex D;
  i_dx1 : 0 < fst (psub r2 r0);
  i_dx2 : 0 < fst (psub r3 r1);
  i_s12 : sle (psub r2 r0) (psub r3 r1);
  i_F1L : Forall (fun q => lev r0 (psub r2 r0) q <= 0) Ll;
  i_F2L : Forall (fun q => lev r1 (psub r3 r1) q <= 0) Ll;
  i_F1U : Forall (fun u => 0 <= lev r0 (psub r2 r0) u) Ul;
  i_F2U : Forall (fun u => 0 <= lev r1 (psub r3 r1) u) Ul;
  i_I3L : forall o s, 0 < fst s -> sle (psub r2 r0) s -> sle s (psub r3 r1) ->
            Forall (fun v => lev o s v <= 0) C -> Forall (fun q => lev o s q <= 0) Ll;
  i_I3U : forall o s, 0 < fst s -> sle (psub r2 r0) s -> sle s (psub r3 r1) ->
            Forall (fun v => 0 <= lev o s v) D -> Forall (fun u => 0 <= lev o s u) Ul
}.

(* ---- the invariant is symmetric under the reflection y -> -y ---- *)
Lemma lev_neg_l : forall o s v, lev o s (neg v) = - lev (neg o) (nslp s) v.
Proof. intros o s v. rewrite <- (lev_neg (neg o) (nslp s) v). rewrite neg_invol, nslp_invol. reflexivity. Qed.

Lemma Forall_map_neg : forall (P : pt -> Prop) l, Forall P (map neg l) <-> Forall (fun x => P (neg x)) l.
Proof. intros P l. apply Forall_map. Qed.

Lemma in_map_neg : forall v l, In v l -> In (neg v) (map neg l).
Proof. intros v l H. apply in_map. exact H. Qed.

Lemma Forall_In_map_neg : forall l L, Forall (fun v => In v L) l -> Forall (fun v => In v (map neg L)) (map neg l).
Proof.
  intros l L H. apply Forall_map_neg. eapply Forall_impl; [|exact H].
  intros v Hv. apply in_map_neg. exact Hv.
Qed.

Lemma xinc_map_neg : forall l, xinc l -> xinc (map neg l).
Proof. intros l H. unfold xinc. apply adj2_map. exact H. Qed.
Lemma concave_map_neg : forall l, convex l -> concave (map neg l).
Proof.
  intros l H. unfold concave. apply adj3_map. eapply adj3_impl; [|exact H].
  intros a b c Habc. cbn beta in *. rewrite cross_neg. lia.
Qed.
Lemma convex_map_neg : forall l, concave l -> convex (map neg l).
Proof.
  intros l H. unfold convex. apply adj3_map. eapply adj3_impl; [|exact H].
  intros a b c Habc. cbn beta in *. rewrite cross_neg. lia.
Qed.
Lemma map_neg_ne : forall l : list pt, l <> [] -> map neg l <> [].
Proof. intros [|a l] H; [contradiction | discriminate]. Qed.

Lemma Forall_lev_neg_le : forall o s l,
  Forall (fun u => 0 <= lev o s u) l -> Forall (fun q => lev (neg o) (nslp s) q <= 0) (map neg l).
Proof.
  intros o s l H. apply Forall_map_neg. eapply Forall_impl; [|exact H].
  intros u Hu. cbn beta in *. rewrite lev_neg. lia.
Qed.
Lemma Forall_lev_neg_ge : forall o s l,
  Forall (fun q => lev o s q <= 0) l -> Forall (fun u => 0 <= lev (neg o) (nslp s) u) (map neg l).
Proof.
  intros o s l H. apply Forall_map_neg. eapply Forall_impl; [|exact H].
  intros u Hu. cbn beta in *. rewrite lev_neg. lia.
Qed.
Lemma Forall_lev_unneg_le : forall o s l,
  Forall (fun q => lev o s q <= 0) (map neg l) -> Forall (fun u => 0 <= lev (neg o) (nslp s) u) l.
Proof.
  intros o s l H. apply Forall_map_neg in H. eapply Forall_impl; [|exact H].
  intros u Hu. cbn beta in *. rewrite lev_neg_l in Hu. lia.
Qed.
Lemma Forall_lev_unneg_ge : forall o s l,
  Forall (fun q => 0 <= lev o s q) (map neg l) -> Forall (fun u => lev (neg o) (nslp s) u <= 0) l.
Proof.
  intros o s l H. apply Forall_map_neg in H. eapply Forall_impl; [|exact H].
  intros u Hu. cbn beta in *. rewrite lev_neg_l in Hu. lia.
Qed.

Lemma Inv_mirror : forall Ll Ul C D r0 r1 r2 r3,
  Inv Ll Ul C D r0 r1 r2 r3 ->
  Inv (map neg Ul) (map neg Ll) (map neg D) (map neg C) (neg r1) (neg r0) (neg r3) (neg r2).
Proof.
  intros Ll Ul C D r0 r1 r2 r3 H. destruct H.
  constructor; rewrite ?psub_neg, ?fst_nslp.
  - apply map_neg_ne; assumption.
  - apply map_neg_ne; assumption.
  - rewrite hd_pt_map_neg. congruence.
  - rewrite last_map_neg. congruence.
  - rewrite hd_pt_map_neg. congruence.
  - rewrite last_map_neg. congruence.
  - apply Forall_In_map_neg; assumption.
  - apply Forall_In_map_neg; assumption.
  - apply xinc_map_neg; assumption.
  - apply concave_map_neg; assumption.
  - apply xinc_map_neg; assumption.
  - apply convex_map_neg; assumption.
  - assumption.
  - assumption.
  - apply sle_neg. assumption.
  - apply Forall_lev_neg_le. assumption.
  - apply Forall_lev_neg_le. assumption.
  - apply Forall_lev_neg_ge. assumption.
  - apply Forall_lev_neg_ge. assumption.
  - intros o s Hs H1 H2 Hall.
    rewrite <- (neg_invol o), <- (nslp_invol s). apply Forall_lev_neg_le.
    apply i_I3U0.
    + exact Hs.
    + apply sle_neg. rewrite nslp_invol. exact H2.
    + apply sle_neg. rewrite nslp_invol. exact H1.
    + apply Forall_lev_unneg_le. exact Hall.
  - intros o s Hs H1 H2 Hall.
    rewrite <- (neg_invol o), <- (nslp_invol s). apply Forall_lev_neg_ge.
    apply i_I3L0.
    + exact Hs.
    + apply sle_neg. rewrite nslp_invol. exact H2.
    + apply sle_neg. rewrite nslp_invol. exact H1.
    + apply Forall_lev_unneg_ge. exact Hall.
Qed.

(* ---- step A: a new upper band point p arrives ---- *)
Lemma lev_on_line : forall o a, lev o (psub a o) a = 0.
Proof. intros o a. rewrite lev_cross. unfold cross, psub. cbn [fst snd]. ring. Qed.

Lemma stepA_nobranch : forall Ll Ul C D r0 r1 r2 r3 p,
  Inv Ll Ul C D r0 r1 r2 r3 ->
  fst r3 <= fst p ->
  0 <= lev r0 (psub r2 r0) p -> 0 <= lev r1 (psub r3 r1) p ->
  Inv Ll (Ul ++ [p]) C D r0 r1 r2 r3.
Proof.
  intros Ll Ul C D r0 r1 r2 r3 p H Hx H1 H2. destruct H.
  constructor; try assumption.
  - eapply Forall_impl; [|exact i_DU0]. intros v Hv. apply in_or_app. left. exact Hv.
  - apply Forall_app. split; [assumption|]. constructor; [exact H1 | constructor].
  - apply Forall_app. split; [assumption|]. constructor; [exact H2 | constructor].
  - intros o s Hs Hs1 Hs2 Hall. apply Forall_app. split; [apply i_I3U0; assumption|].
    constructor; [|constructor].
    assert (Hr3 : 0 <= lev o s r3).
    { rewrite Forall_forall in Hall. apply Hall. rewrite <- i_lastD0. apply last_in. assumption. }
    apply (lev_above_right o s r3 (psub r3 r1) p); try assumption.
    rewrite (lev_shift r1 (psub r3 r1) r3 p) in H2. rewrite lev_on_line in H2. lia.
Qed.

Section StepA.
  Variables (Ll Ul D : list pt) (r0 r1 r2 r3 p c : pt) (rest : list pt).
  Hypothesis HI : Inv Ll Ul (c :: rest) D r0 r1 r2 r3.
  Hypothesis HxU : Forall (fun u => fst u < fst p) Ul.
  Hypothesis HxL : Forall (left_or_under p) Ll.
  Hypothesis Hr1x : fst r1 < fst p.
  Hypothesis H1 : 0 <= lev r0 (psub r2 r0) p.
  Hypothesis H2 : lev r1 (psub r3 r1) p < 0.

  Let s1 := psub r2 r0.
  Let s2 := psub r3 r1.

  Lemma sA_c : c = r1.
  Proof. pose proof (i_hdC _ _ _ _ _ _ _ _ HI) as E. exact E. Qed.

  Lemma sA_tangent : exists pre' t T',
    c :: rest = pre' ++ t :: T' /\ tangent_lower p c rest = t :: T' /\ fst t < fst p /\
    Forall (fun v => lev t (psub p t) v <= 0) (c :: rest).
  Proof.
    assert (Hrest : Forall (left_or_under p) rest).
    { pose proof (i_CL _ _ _ _ _ _ _ _ HI) as HCL. inversion HCL as [|c0 r Hc Hr]; subst.
      eapply Forall_impl; [|exact Hr]. intros v Hv. cbn beta in Hv.
      rewrite Forall_forall in HxL. apply HxL. exact Hv. }
    destruct (tangent_lower_below p rest c [] (i_xC _ _ _ _ _ _ _ _ HI) (i_ccC _ _ _ _ _ _ _ _ HI))
      as (pre' & t & T' & E1 & E2 & E3 & E4).
    - rewrite sA_c. exact Hr1x.
    - exact Hrest.
    - constructor.
    - exists pre', t, T'. split; [exact E1|]. split; [exact E2|]. split; [exact E3|].
      cbn [app] in E4. eapply Forall_impl; [|exact E4]. intros v Hv. cbn beta in Hv.
      rewrite lev_cross. exact Hv.
  Qed.
End StepA.

Lemma sle_from_levs : forall o s t p,
  lev o s t <= 0 -> 0 <= lev o s p -> sle s (psub p t).
Proof.
  intros o s t p Ht Hp. pose proof (lev_shift o s t p) as E.
  assert (H : 0 <= lev t s p) by lia.
  revert H. destruct s as [dx dy], t as [tx ty], p as [px py].
  unfold lev, sle, psub. cbn [fst snd]. lia.
Qed.

Lemma sle_tangent_s2 : forall t p a s,
  lev t (psub p t) a <= 0 -> lev a s p < 0 -> fst a < fst p -> fst t < fst p -> 0 < fst s ->
  sle (psub p t) s.
Proof.
  intros t p a s Ha Hp Hax Htx Hs.
  apply (sle_trans _ (psub p a)); try assumption; try (unfold psub; cbn [fst]; lia).
  - revert Ha. destruct t as [tx ty], p as [px py], a as [ax ay].
    unfold lev, sle, psub. cbn [fst snd]. lia.
  - revert Hp. destruct s as [dx dy], p as [px py], a as [ax ay].
    unfold lev, sle, psub. cbn [fst snd]. lia.
Qed.

(* old upper points stay above the new maximum-slope line through t and p *)
Lemma upper_above_new_L2 : forall r0 s1 r1 s2 t p u,
  0 < fst s1 -> 0 < fst s2 -> fst t < fst p -> fst u < fst p ->
  lev r0 s1 t <= 0 -> lev r1 s2 t <= 0 -> 0 <= lev r0 s1 p -> lev r1 s2 p < 0 ->
  0 <= lev r0 s1 u -> 0 <= lev r1 s2 u ->
  0 <= lev t (psub p t) u.
Proof.
  intros r0 s1 r1 s2 t p u Hs1 Hs2 Htp Hup Ht1 Ht2 Hp1 Hp2 Hu1 Hu2.
  destruct (Z_le_gt_dec (fst u) (fst t)) as [Hle | Hgt].
  - apply (lev_above_left t (psub p t) t s1 u); try assumption.
    + unfold psub; cbn [fst]; lia.
    + rewrite lev_self. lia.
    + pose proof (lev_shift r0 s1 t u). lia.
    + apply (sle_from_levs r0); assumption.
  - rewrite lev_cross. apply (between_cross_nonneg r1 s2 t p u); try assumption; lia.
Qed.

Lemma stepA_branch : forall Ll Ul D r0 r1 r2 r3 p c rest,
  Inv Ll Ul (c :: rest) D r0 r1 r2 r3 ->
  Forall (fun u => fst u < fst p) Ul ->
  Forall (left_or_under p) Ll ->
  fst r1 < fst p ->
  0 <= lev r0 (psub r2 r0) p -> lev r1 (psub r3 r1) p < 0 ->
  Inv Ll (Ul ++ [p]) (tangent_lower p c rest) (push_upper D p)
      r0 (hd_pt (tangent_lower p c rest)) r2 p.
Proof.
  intros Ll Ul D r0 r1 r2 r3 p c rest HI HxU HxL Hr1x H1 H2.
  destruct (sA_tangent _ _ _ _ _ _ _ _ _ _ HI HxL Hr1x) as (pre' & t & T' & EC & ET & Htx & Hbelow).
  pose proof (sA_c _ _ _ _ _ _ _ _ _ HI) as Ec.
  destruct HI.
  assert (HDx : Forall (fun v => fst v < fst p) D).
  { eapply Forall_impl; [|exact i_DU0]. intros v Hv. cbn beta in Hv.
    rewrite Forall_forall in HxU. apply HxU. exact Hv. }
  destruct (push_upper_props D p i_Dne0 i_xD0 i_cvD0 HDx) as (m & post & ED & Hmne & EP & Hmx & Hmc & Hmline).
  rewrite ET, EP. cbn [hd_pt hd].
  assert (HtC : In t (c :: rest)) by (rewrite EC; apply in_or_app; right; left; reflexivity).
  assert (HtL : In t Ll) by (rewrite Forall_forall in i_CL0; apply i_CL0; exact HtC).
  assert (Ht1 : lev r0 (psub r2 r0) t <= 0) by (rewrite Forall_forall in i_F1L0; apply i_F1L0; exact HtL).
  assert (Ht2 : lev r1 (psub r3 r1) t <= 0) by (rewrite Forall_forall in i_F2L0; apply i_F2L0; exact HtL).
  assert (Hdx2' : 0 < fst (psub p t)) by (unfold psub; cbn [fst]; lia).
  assert (Hs12' : sle (psub r2 r0) (psub p t)) by (apply (sle_from_levs r0); assumption).
  assert (Hr1C : lev t (psub p t) r1 <= 0).
  { rewrite Forall_forall in Hbelow. apply Hbelow. left. exact Ec. }
  assert (Hs2'2 : sle (psub p t) (psub r3 r1)) by (apply (sle_tangent_s2 t p r1); assumption).
  assert (HLbelow : Forall (fun q => lev t (psub p t) q <= 0) Ll) by (apply i_I3L0; assumption).
  constructor; try assumption.
  - discriminate.
  - intros E. apply app_eq_nil in E. destruct E as [_ E]. discriminate E.
  - reflexivity.
  - rewrite <- i_lastC0, EC. symmetry. apply last_app_cons.
  - rewrite <- i_hdD0, ED. destruct m; [contradiction | reflexivity].
  - apply last_last.
  - rewrite EC in i_CL0. apply Forall_app in i_CL0. exact (proj2 i_CL0).
  - apply Forall_app. split.
    + rewrite ED in i_DU0. apply Forall_app in i_DU0. destruct i_DU0 as [Hm _].
      eapply Forall_impl; [|exact Hm]. intros v Hv. apply in_or_app. left. exact Hv.
    + constructor; [apply in_or_app; right; left; reflexivity | constructor].
  - unfold xinc in *. rewrite EC in i_xC0. exact (adj2_app_r _ _ _ i_xC0).
  - unfold concave in *. rewrite EC in i_ccC0. exact (adj3_app_r _ _ _ i_ccC0).
  - apply Forall_app. split; [assumption | constructor; [exact H1 | constructor]].
  - apply Forall_app. split.
    + rewrite Forall_forall. intros u Hu. rewrite Forall_forall in i_F1U0, i_F2U0, HxU.
      apply (upper_above_new_L2 r0 (psub r2 r0) r1 (psub r3 r1) t p u); auto.
    + constructor; [rewrite lev_on_line; lia | constructor].
  - intros o s Hs Hs1 Hs2 Hall.
    assert (Hot : lev o s t <= 0) by (inversion Hall; assumption).
    apply i_I3L0; try assumption.
    + apply (sle_trans _ (psub p t)); assumption.
    + rewrite EC. apply Forall_app. split; [|exact Hall].
      rewrite EC in i_xC0. pose proof (xinc_app_lt _ _ _ i_xC0) as Hprex.
      rewrite EC in Hbelow. apply Forall_app in Hbelow. destruct Hbelow as [Hpb _].
      rewrite Forall_forall in Hprex, Hpb. rewrite Forall_forall. intros v Hv.
      apply (lev_below_left o s t (psub p t) v); auto. pose proof (Hprex v Hv). lia.
  - intros o s Hs Hs1 Hs2 Hall. apply Forall_app in Hall. destruct Hall as [Hm Hp].
    inversion Hp as [|p0 l0 Hp0 _]; subst.
    apply Forall_app. split; [|constructor; [exact Hp0 | constructor]].
    apply i_I3U0; try assumption.
    + apply (sle_trans _ (psub p t)); assumption.
    + apply Hmline; assumption.
Qed.

(* ---- step B: a new lower band point p arrives (mirror image of step A) ---- *)
Lemma Inv_unmirror : forall Ll Ul C D r0 r1 r2 r3,
  Inv (map neg Ul) (map neg Ll) (map neg D) (map neg C) (neg r1) (neg r0) (neg r3) (neg r2) ->
  Inv Ll Ul C D r0 r1 r2 r3.
Proof.
  intros Ll Ul C D r0 r1 r2 r3 H. apply Inv_mirror in H.
  rewrite !map_neg_invol, !neg_invol in H. exact H.
Qed.

Lemma stepB_nobranch : forall Ll Ul C D r0 r1 r2 r3 p,
  Inv Ll Ul C D r0 r1 r2 r3 ->
  fst r2 <= fst p ->
  lev r1 (psub r3 r1) p <= 0 -> lev r0 (psub r2 r0) p <= 0 ->
  Inv (Ll ++ [p]) Ul C D r0 r1 r2 r3.
Proof.
  intros Ll Ul C D r0 r1 r2 r3 p H Hx H2 H1.
  apply Inv_unmirror. rewrite map_app. cbn [map].
  apply stepA_nobranch.
  - apply Inv_mirror. exact H.
  - exact Hx.
  - rewrite psub_neg, lev_neg. lia.
  - rewrite psub_neg, lev_neg. lia.
Qed.

Definition left_or_over (p v : pt) : Prop := fst v < fst p \/ (fst v = fst p /\ snd p < snd v).

Lemma stepB_branch : forall Ll Ul C r0 r1 r2 r3 p d rest,
  Inv Ll Ul C (d :: rest) r0 r1 r2 r3 ->
  Forall (fun q => fst q < fst p) Ll ->
  Forall (left_or_over p) Ul ->
  fst r0 < fst p ->
  lev r1 (psub r3 r1) p <= 0 -> 0 < lev r0 (psub r2 r0) p ->
  Inv (Ll ++ [p]) Ul (push_lower C p) (tangent_upper p d rest)
      (hd_pt (tangent_upper p d rest)) r1 p r3.
Proof.
  intros Ll Ul C r0 r1 r2 r3 p d rest H HxL HxU Hr0x H2 H1.
  apply Inv_unmirror. rewrite map_app. cbn [map].
  rewrite push_lower_as_upper, tangent_upper_as_lower, hd_pt_map_neg, !map_neg_invol, neg_invol.
  apply stepA_branch with (r1 := neg r0) (r3 := neg r2).
  - apply Inv_mirror in H. exact H.
  - apply Forall_map_neg. exact HxL.
  - apply Forall_map_neg. eapply Forall_impl; [|exact HxU].
    intros v [Hv | [Hv1 Hv2]]; [left; exact Hv | right; unfold neg; cbn [fst snd]; lia].
  - exact Hr0x.
  - rewrite psub_neg, lev_neg. lia.
  - rewrite psub_neg, lev_neg. lia.
Qed.

(* ---- the two phases of add_point on abstract chains ---- *)
Lemma phase1 : forall Ll Ul C D r0 r1 r2 r3 x yu yl lower1 upper1 r1' r3',
  Inv Ll Ul C D r0 r1 r2 r3 ->
  Forall (fun u => fst u < x) Ul -> Forall (fun q => fst q < x) Ll -> yl <= yu ->
  0 <= lev r0 (psub r2 r0) (x, yu) -> lev r1 (psub r3 r1) (x, yl) <= 0 ->
  (if slt (psub (x, yu) r1) (psub r3 r1)
   then match C with
        | [] => (C, D, r1, r3)
        | c :: rest => (tangent_lower (x, yu) c rest, push_upper D (x, yu),
                        hd_pt (tangent_lower (x, yu) c rest), (x, yu))
        end
   else (C, D, r1, r3)) = (lower1, upper1, r1', r3') ->
  Inv Ll (Ul ++ [(x, yu)]) lower1 upper1 r0 r1' r2 r3' /\ lev r1' (psub r3' r1') (x, yl) <= 0.
Proof.
  intros Ll Ul C D r0 r1 r2 r3 x yu yl lower1 upper1 r1' r3' HI HxU HxL Hy H1 H2 E.
  assert (Hr1x : fst r1 < x).
  { rewrite Forall_forall in HxL. apply HxL.
    pose proof (i_CL _ _ _ _ _ _ _ _ HI) as HCL. rewrite Forall_forall in HCL. apply HCL.
    rewrite <- (i_hdC _ _ _ _ _ _ _ _ HI). apply hd_pt_in. exact (i_Cne _ _ _ _ _ _ _ _ HI). }
  assert (Hr3x : fst r3 < x).
  { rewrite Forall_forall in HxU. apply HxU.
    pose proof (i_DU _ _ _ _ _ _ _ _ HI) as HDU. rewrite Forall_forall in HDU. apply HDU.
    rewrite <- (i_lastD _ _ _ _ _ _ _ _ HI). apply last_in. exact (i_Dne _ _ _ _ _ _ _ _ HI). }
  destruct (slt (psub (x, yu) r1) (psub r3 r1)) eqn:Eb.
  - apply slt_lev in Eb.
    destruct C as [|c rest]; [exfalso; exact (i_Cne _ _ _ _ _ _ _ _ HI eq_refl)|].
    injection E as <- <- <- <-. split.
    + apply (stepA_branch Ll Ul D r0 r1 r2 r3 (x, yu) c rest HI); try assumption.
      eapply Forall_impl; [|exact HxL]. intros v Hv. left. exact Hv.
    + set (t := hd_pt (tangent_lower (x, yu) c rest)).
      rewrite (lev_shift t (psub (x, yu) t) (x, yu) (x, yl)). rewrite lev_on_line.
      destruct (sA_tangent Ll Ul D r0 r1 r2 r3 (x, yu) c rest HI) as (pre' & t' & T' & _ & ET & Htx & _).
      * eapply Forall_impl; [|exact HxL]. intros v Hv. left. exact Hv.
      * exact Hr1x.
      * assert (Et : t = t') by (unfold t; rewrite ET; reflexivity). rewrite Et.
        cbn [fst] in Htx. unfold lev, psub. cbn [fst snd]. nia.
  - apply slt_lev_false in Eb. injection E as <- <- <- <-. split; [|exact H2].
    apply stepA_nobranch; try assumption. cbn [fst]. lia.
Qed.

Lemma phase2 : forall Ll Ul C D r0 r1 r2 r3 x yl lower2 upper2 r0' r2',
  Inv Ll Ul C D r0 r1 r2 r3 ->
  Forall (fun q => fst q < x) Ll ->
  (0 < lev r0 (psub r2 r0) (x, yl) -> Forall (left_or_over (x, yl)) Ul) ->
  lev r1 (psub r3 r1) (x, yl) <= 0 ->
  (if sgt (psub (x, yl) r0) (psub r2 r0)
   then match D with
        | [] => (C, D, r0, r2)
        | d :: rest => (push_lower C (x, yl), tangent_upper (x, yl) d rest,
                        hd_pt (tangent_upper (x, yl) d rest), (x, yl))
        end
   else (C, D, r0, r2)) = (lower2, upper2, r0', r2') ->
  Inv (Ll ++ [(x, yl)]) Ul lower2 upper2 r0' r1 r2' r3.
Proof.
  intros Ll Ul C D r0 r1 r2 r3 x yl lower2 upper2 r0' r2' HI HxL HxU H2 E.
  assert (Hr2x : fst r2 < x).
  { rewrite Forall_forall in HxL. apply HxL.
    pose proof (i_CL _ _ _ _ _ _ _ _ HI) as HCL. rewrite Forall_forall in HCL. apply HCL.
    rewrite <- (i_lastC _ _ _ _ _ _ _ _ HI). apply last_in. exact (i_Cne _ _ _ _ _ _ _ _ HI). }
  assert (Hr0x : fst r0 < x).
  { pose proof (i_dx1 _ _ _ _ _ _ _ _ HI) as Hd. unfold psub in Hd. cbn [fst] in Hd. lia. }
  destruct (sgt (psub (x, yl) r0) (psub r2 r0)) eqn:Eb.
  - apply sgt_lev in Eb.
    destruct D as [|d rest]; [exfalso; exact (i_Dne _ _ _ _ _ _ _ _ HI eq_refl)|].
    injection E as <- <- <- <-.
    apply (stepB_branch Ll Ul C r0 r1 r2 r3 (x, yl) d rest HI); try assumption.
    apply HxU. exact Eb.
  - apply sgt_lev_false in Eb. injection E as <- <- <- <-.
    apply stepB_nobranch; try assumption. cbn [fst]. lia.
Qed.

(* ---- the invariant after the second point ---- *)
Lemma Inv_base : forall x0 x al ah bl bh,
  x0 < x -> al <= ah -> bl <= bh ->
  Inv [(x0, al); (x, bl)] [(x0, ah); (x, bh)] [(x0, al); (x, bl)] [(x0, ah); (x, bh)]
      (x0, ah) (x0, al) (x, bl) (x, bh).
Proof.
  intros x0 x al ah bl bh Hx Ha Hb.
  assert (0 <= (ah - al) * (x - x0)) by (apply Z.mul_nonneg_nonneg; lia).
  assert (0 <= (bh - bl) * (x - x0)) by (apply Z.mul_nonneg_nonneg; lia).
  constructor; try discriminate; try reflexivity;
    try (intros o s _ _ _ Hall; exact Hall);
    try (repeat constructor; unfold lev, psub; cbn [fst snd]; nia);
    try (unfold sle, psub; cbn [fst snd]; nia);
    try (cbn; lia); try exact I.
Qed.

(* ---- the invariant of a builder state relative to the fed points ---- *)
Definition lows (eps : Z) (cur : list (Z * Z)) : list pt := map (fun q => (fst q, band_lo eps (snd q))) cur.
Definition ups (eps : Z) (cur : list (Z * Z)) : list pt := map (fun q => (fst q, band_hi eps (snd q))) cur.

Definition sinv (eps : Z) (cur : list (Z * Z)) (s : pla) : Prop :=
  (p_n s = 1 -> exists x0 y0, cur = [(x0, y0)] /\
     p_lower s = [(x0, band_lo eps y0)] /\ p_upper s = [(x0, band_hi eps y0)] /\
     p_r0 s = (x0, band_hi eps y0) /\ p_r1 s = (x0, band_lo eps y0) /\
     band_lo eps y0 <= band_hi eps y0) /\
  (2 <= p_n s -> Inv (lows eps cur) (ups eps cur) (p_lower s) (p_upper s)
                     (p_r0 s) (p_r1 s) (p_r2 s) (p_r3 s)) /\
  (1 <= p_n s -> p_first_x s = fst (hd (0, 0) cur)).

Lemma lows_app : forall eps cur x y, lows eps (cur ++ [(x, y)]) = lows eps cur ++ [(x, band_lo eps y)].
Proof. intros. unfold lows. rewrite map_app. reflexivity. Qed.
Lemma ups_app : forall eps cur x y, ups eps (cur ++ [(x, y)]) = ups eps cur ++ [(x, band_hi eps y)].
Proof. intros. unfold ups. rewrite map_app. reflexivity. Qed.

Lemma lows_x_lt : forall eps cur m x, (forall p, In p cur -> fst p <= m) -> m < x ->
  Forall (fun q => fst q < x) (lows eps cur).
Proof.
  intros eps cur m x H Hm. unfold lows. apply Forall_map. apply Forall_forall.
  intros p Hp. cbn [fst]. pose proof (H p Hp). lia.
Qed.
Lemma ups_x_lt : forall eps cur m x, (forall p, In p cur -> fst p <= m) -> m < x ->
  Forall (fun q => fst q < x) (ups eps cur).
Proof.
  intros eps cur m x H Hm. unfold ups. apply Forall_map. apply Forall_forall.
  intros p Hp. cbn [fst]. pose proof (H p Hp). lia.
Qed.

Lemma band_lo_le_hi : forall eps y, 0 <= eps -> 0 <= y -> y + eps < 2 ^ 64 - 1 ->
  band_lo eps y <= band_hi eps y.
Proof.
  intros eps y He Hy Hr. rewrite (band_hi_ranks_ok eps y Hr).
  destruct (band_lo_cases eps y) as [[_ E] | [_ E]]; rewrite E; lia.
Qed.

Lemma sinv_first : forall eps s x y s',
  p_n s = 0 -> p_eps s = eps -> 0 <= eps -> rank_ok eps y ->
  add_point y_size_t s x y = Ok (true, s') -> sinv eps [(x, y)] s'.
Proof.
  intros eps s x y s' Hn He Heps [Hy0 Hy1] H. unfold add_point in H. rewrite Hn, He in H.
  cbn [Z.gtb Z.compare andb Z.eqb] in H.
  destruct (band y_size_t eps y) as [yu yl] eqn:Hband.
  assert (Hyu : yu = band_hi eps y) by (unfold band_hi; rewrite Hband; reflexivity).
  assert (Hyl : yl = band_lo eps y) by (unfold band_lo; rewrite Hband; reflexivity).
  injection H as <-. subst yu yl. unfold sinv. cbn [p_n p_lower p_upper p_r0 p_r1 p_r2 p_r3 p_first_x].
  split; [|split].
  - intros _. exists x, y. repeat split; try reflexivity. apply band_lo_le_hi; assumption.
  - intros C. lia.
  - intros _. reflexivity.
Qed.

Lemma sinv_second : forall eps cur s x y s',
  0 <= eps -> rank_ok eps y -> p_eps s = eps -> p_n s = 1 ->
  (forall p, In p cur -> fst p <= p_last_x s) ->
  sinv eps cur s -> add_point y_size_t s x y = Ok (true, s') -> sinv eps (cur ++ [(x, y)]) s'.
Proof.
  intros eps cur s x y s' Heps [Hy0 Hy1] He Hn Hlast (S1 & _ & S3) H.
  destruct (S1 Hn) as (x0 & y0 & Ecur & El & Eu & E0 & E1 & Hb0).
  assert (Hf : p_first_x s = x0) by (rewrite S3 by lia; rewrite Ecur; reflexivity).
  unfold add_point in H. rewrite Hn, He in H.
  destruct (x <=? p_last_x s) eqn:Hg; [discriminate H|]. apply Z.leb_gt in Hg.
  cbn [Z.gtb Z.compare andb Z.eqb] in H.
  destruct (band y_size_t eps y) as [yu yl] eqn:Hband.
  assert (Hyu : yu = band_hi eps y) by (unfold band_hi; rewrite Hband; reflexivity).
  assert (Hyl : yl = band_lo eps y) by (unfold band_lo; rewrite Hband; reflexivity).
  injection H as <-. subst yu yl.
  assert (Hx0 : x0 < x).
  { assert (fst (x0, y0) <= p_last_x s) by (apply Hlast; rewrite Ecur; left; reflexivity).
    cbn [fst] in *. lia. }
  unfold sinv. cbn [p_n p_lower p_upper p_r0 p_r1 p_r2 p_r3 p_first_x].
  split; [intros C; lia|]. split.
  - intros _. rewrite El, Eu, E0, E1, Ecur. cbn [app lows ups map fst snd].
    apply Inv_base; [exact Hx0 | exact Hb0 | apply band_lo_le_hi; assumption].
  - intros _. rewrite Hf, Ecur. reflexivity.
Qed.

Lemma hd_app_ne : forall (l : list (Z * Z)) a d, l <> [] -> hd d (l ++ [a]) = hd d l.
Proof. intros [|b l] a d H; [contradiction | reflexivity]. Qed.

Lemma sinv_later : forall eps cur s x y s',
  0 <= eps -> rank_ok eps y -> 2 <= p_n s ->
  rect_inv eps cur s -> sinv eps cur s ->
  add_point y_size_t s x y = Ok (true, s') -> sinv eps (cur ++ [(x, y)]) s'.
Proof.
  intros eps cur s x y s' Heps [Hy0 Hy1] H2 (He & Hn & I1 & I2 & Z1 & Z2) (_ & S2 & S3) Hadd.
  assert (H1 : 1 <= p_n s) by lia.
  destruct (I1 H1) as (_ & _ & _ & _ & _ & _ & Hlast).
  pose proof (S2 H2) as HI.
  unfold add_point in Hadd.
  assert (Hgt : (p_n s >? 0) = true) by (apply Z.gtb_lt; lia). rewrite Hgt in Hadd. cbn [andb] in Hadd.
  destruct (x <=? p_last_x s) eqn:Hg; [discriminate Hadd|]. apply Z.leb_gt in Hg.
  rewrite He in Hadd.
  destruct (band y_size_t eps y) as [yu yl] eqn:Hband.
  assert (Hyu : yu = band_hi eps y) by (unfold band_hi; rewrite Hband; reflexivity).
  assert (Hyl : yl = band_lo eps y) by (unfold band_lo; rewrite Hband; reflexivity).
  clear Hband. subst yu yl.
  destruct (p_n s =? 0) eqn:Hn0; [apply Z.eqb_eq in Hn0; lia|].
  destruct (p_n s =? 1) eqn:Hn1; [apply Z.eqb_eq in Hn1; lia|].
  destruct (slt (psub (x, band_hi eps y) (p_r2 s)) (psub (p_r2 s) (p_r0 s))) eqn:Ho1;
    [discriminate Hadd|].
  destruct (sgt (psub (x, band_lo eps y) (p_r3 s)) (psub (p_r3 s) (p_r1 s))) eqn:Ho2;
    [discriminate Hadd|].
  cbn [orb] in Hadd.
  destruct (if slt (psub (x, band_hi eps y) (p_r1 s)) (psub (p_r3 s) (p_r1 s))
            then match p_lower s with
                 | [] => (p_lower s, p_upper s, p_r1 s, p_r3 s)
                 | c :: rest =>
                     (tangent_lower (x, band_hi eps y) c rest, push_upper (p_upper s) (x, band_hi eps y),
                      hd_pt (tangent_lower (x, band_hi eps y) c rest), (x, band_hi eps y))
                 end
            else (p_lower s, p_upper s, p_r1 s, p_r3 s)) as [[[lower1 upper1] r1'] r3'] eqn:E1.
  destruct (if sgt (psub (x, band_lo eps y) (p_r0 s)) (psub (p_r2 s) (p_r0 s))
            then match upper1 with
                 | [] => (lower1, upper1, p_r0 s, p_r2 s)
                 | c :: rest =>
                     (push_lower lower1 (x, band_lo eps y), tangent_upper (x, band_lo eps y) c rest,
                      hd_pt (tangent_upper (x, band_lo eps y) c rest), (x, band_lo eps y))
                 end
            else (lower1, upper1, p_r0 s, p_r2 s)) as [[[lower2 upper2] r0'] r2'] eqn:E2.
  injection Hadd as <-.
  unfold sinv. cbn [p_n p_lower p_upper p_r0 p_r1 p_r2 p_r3 p_first_x].
  split; [intros C; lia|]. split.
  2:{ intros _. rewrite (S3 H1). symmetry. f_equal. apply hd_app_ne.
      intros C. subst cur. unfold zlen in Hn. cbn [length] in Hn. lia. }
  intros _. rewrite lows_app, ups_app.
  pose proof (lows_x_lt eps cur _ x Hlast Hg) as HxL.
  pose proof (ups_x_lt eps cur _ x Hlast Hg) as HxU.
  pose proof (band_lo_le_hi eps y Heps Hy0 Hy1) as Hb.
  apply slt_lev_false in Ho1. apply sgt_lev_false in Ho2.
  assert (Ho1' : 0 <= lev (p_r0 s) (psub (p_r2 s) (p_r0 s)) (x, band_hi eps y)).
  { rewrite (lev_shift _ _ (p_r2 s)). rewrite lev_on_line. lia. }
  assert (Ho2' : lev (p_r1 s) (psub (p_r3 s) (p_r1 s)) (x, band_lo eps y) <= 0).
  { rewrite (lev_shift _ _ (p_r3 s)). rewrite lev_on_line. lia. }
  destruct (phase1 _ _ _ _ _ _ _ _ x _ _ _ _ _ _ HI HxU HxL Hb Ho1' Ho2' E1) as [HI1 Hp2].
  apply (phase2 _ _ _ _ _ _ _ _ x _ _ _ _ _ HI1 HxL); [|exact Hp2|exact E2].
  intros Hpos.
  (* the second branch fires: eps > 0, so the new upper point is strictly above the new lower one *)
  assert (Hepos : 0 < eps).
  { destruct (Z.eq_dec eps 0) as [E0 | NE0]; [|lia]. exfalso.
    pose proof (Z1 E0 H1) as E01. pose proof (Z2 E0 H2) as E23.
    destruct (band_eq_eps0 eps y E0 Hy0 Hy1) as [Elo Ehi].
    rewrite Elo, Ehi in *. rewrite <- E01, <- E23 in *.
    apply slt_lev_false in Ho1. apply sgt_lev_false in Ho2.
    destruct (eps0_no_branch (p_r0 s) (p_r2 s) (x, y) Ho1 Ho2) as [_ B].
    apply sgt_lev_false in B. lia. }
  apply Forall_app. split.
  - eapply Forall_impl; [|exact HxU]. intros v Hv. left. exact Hv.
  - constructor; [|constructor]. right. cbn [fst snd]. split; [reflexivity|].
    apply band_lo_lt_hi; assumption.
Qed.

Lemma sinv_step : forall eps cur s x y s',
  0 <= eps -> rank_ok eps y -> rect_inv eps cur s -> sinv eps cur s ->
  add_point y_size_t s x y = Ok (true, s') -> sinv eps (cur ++ [(x, y)]) s'.
Proof.
  intros eps cur s x y s' Heps Hrk Hrect Hs Hadd.
  pose proof Hrect as (He & Hn & I1 & _).
  pose proof (zlen_nonneg _ cur) as Hlen.
  destruct (Z.eq_dec (p_n s) 0) as [N0 | N0].
  - assert (cur = []) by (apply zlen_0_nil; lia). subst cur. cbn [app].
    apply (sinv_first eps s x y s'); assumption.
  - destruct (Z.eq_dec (p_n s) 1) as [N1 | N1].
    + assert (H1 : 1 <= p_n s) by lia.
      destruct (I1 H1) as (_ & _ & _ & _ & _ & _ & Hlast).
      apply (sinv_second eps cur s x y s'); assumption.
    + apply (sinv_later eps cur s x y s'); try assumption. lia.
Qed.

Lemma sinv_init : forall eps s, pla_init eps = Ok s -> sinv eps [] s.
Proof.
  intros eps s H. unfold pla_init in H. destruct (eps <? 0); [discriminate H|].
  injection H as <-. unfold sinv. cbn [p_n]. split; [intros C; lia|]. split; intros C; lia.
Qed.

Lemma feed_all_sinv : forall eps pts cur s s',
  0 <= eps -> ranks_ok eps pts -> rect_inv eps cur s -> sinv eps cur s ->
  feed_all y_size_t s pts = Ok s' -> rect_inv eps (cur ++ pts) s' /\ sinv eps (cur ++ pts) s'.
Proof.
  intros eps pts. induction pts as [|[x y] tl IH]; intros cur s s' Heps Hr Hinv Hs Hf.
  - cbn [feed_all] in Hf. injection Hf as <-. rewrite app_nil_r. split; assumption.
  - cbn [feed_all] in Hf.
    destruct (add_point y_size_t s x y) as [[ok s1]|e] eqn:Ha; cbn [bind] in Hf; [|discriminate Hf].
    cbn [fst snd] in Hf. destruct ok; [|discriminate Hf].
    unfold ranks_ok in Hr. inversion Hr as [|p0 tl0 [Hy0 Hy1] Hr']; subst. cbn [snd] in Hy0, Hy1.
    pose proof (rect_inv_step eps cur s x y s1 Heps Hy0 Hy1 Hinv Ha) as Hinv1.
    assert (Hs1 : sinv eps (cur ++ [(x, y)]) s1).
    { apply (sinv_step eps cur s x y s1); try assumption. split; assumption. }
    replace (cur ++ (x, y) :: tl) with ((cur ++ [(x, y)]) ++ tl)
      by (rewrite <- app_assoc; reflexivity).
    apply (IH _ s1 s' Heps Hr' Hinv1 Hs1 Hf).
Qed.

(* ComposeMapped2.v — C12 closed: no hypothesis on the built index is left.
   * C12_reopen_eq / C12_reopen_from_range_closed: reopening the file written by the range constructor
     returns THE SAME container (same index as a Coq value, same data, same file bytes), for
     Floating = double and Floating = float alike;
   * C12_reopen_answers: hence identical answers to the four mapped queries;
   * C12_three_constructors: from_range, from_raw on the raw key bytes and reopen agree, with the
     construction proved total (ComposeBuild.build_total);
   * a float instance with two levels, and a witness that `index_eq` alone (without canonical slopes)
     does not determine the answers. *)
Require Import Base Fp PlaModel GenLeaf IndexModel IndexProofs MappedModel MappedQueries MappedFile MappedSlopes
  IdxChain ComposeIdx ComposeBuild ComposeMapped FloatOk MappedWf MappedEq.
From Coq Require Import ZifyBool.
From Flocq Require Import IEEE754.BinarySingleNaN.
Local Open Scope Z_scope.

Section Closed.
  Variables (c : cfg) (data : list Z).
  Hypothesis Hc : idx_ok c.
  Hypothesis Hsm : cfg_small c.
  Hypothesis W : std_width c.
  Hypothesis Hd : data_ok c data.
  Hypothesis Hn : zlen data <= 2 ^ 30.

  Lemma from_range_canon m : from_range c data = Ok m -> canon_index c (mp_ix m).
  Proof.
    intros Hm. destruct (from_range_inv c data m Hm) as [Hb _].
    exact (canon_index_of_build c data (mp_ix m) Hc Hsm W Hd Hn Hb).
  Qed.

  (* reopening gives back the container itself *)
  Theorem C12_reopen_eq m : from_range c data = Ok m -> reopen c (mp_file m) = Ok m.
  Proof.
    intros Hm. pose proof (from_range_canon m Hm) as Hci.
    destruct (from_range_inv c data m Hm) as [Hb Hdat].
    unfold from_range in Hm. rewrite Hb in Hm. cbn [bind] in Hm. injection Hm as Hm.
    rewrite <- Hm at 1. cbn [mp_file]. unfold reopen.
    rewrite (load_serialize_canon c (mp_ix m) data Hci (do_kt c data Hd) (build_n c data _ Hb)).
    cbn [bind fst snd]. exact (f_equal Ok Hm).
  Qed.

  (* the statement of Properties_C12.C12_reopen_from_range without `wf_index c (mp_ix m)`, and with
     equality of the indexes added to index_eq *)
  Theorem C12_reopen_from_range_closed m : from_range c data = Ok m ->
    exists r, reopen c (mp_file m) = Ok r /\ mp_data r = mp_data m /\ mp_data r = data /\
              mp_file r = mp_file m /\ index_eq c (mp_ix r) (mp_ix m) /\ mp_ix r = mp_ix m.
  Proof.
    intros Hm. exists m. split; [exact (C12_reopen_eq m Hm)|].
    destruct (from_range_inv c data m Hm) as [_ Hdat].
    split; [reflexivity|]. split; [exact Hdat|]. split; [reflexivity|]. split; [|reflexivity].
    unfold index_eq. repeat split. clear. induction (ix_segments (mp_ix m)); constructor; [|assumption].
    unfold seg_eq. auto.
  Qed.

  (* identical answers to every query, both Floating types *)
  Theorem C12_reopen_answers m r : from_range c data = Ok m -> reopen c (mp_file m) = Ok r ->
    forall q, mapped_lower_bound c r q = mapped_lower_bound c m q /\
              mapped_upper_bound c r q = mapped_upper_bound c m q /\
              mapped_count c r q = mapped_count c m q /\
              mapped_contains c r q = mapped_contains c m q.
  Proof.
    intros Hm Hr q. rewrite (C12_reopen_eq m Hm) in Hr. injection Hr as <-. repeat split; reflexivity.
  Qed.

  (* the raw-file constructor *)
  Theorem C12_from_raw_closed m : from_range c data = Ok m -> from_raw c (raw_file c data) = Ok m.
  Proof. intros Hm. rewrite (from_raw_raw_file c data W (do_kt c data Hd)). exact Hm. Qed.

  (* the three constructors, with the construction total *)
  Theorem C12_three_constructors :
    exists m, from_range c data = Ok m /\ from_raw c (raw_file c data) = Ok m /\
              reopen c (mp_file m) = Ok m /\ mp_data m = data /\ wf_index c (mp_ix m).
  Proof.
    destruct (build_total c data Hc Hsm Hd Hn) as (ix & E & _).
    assert (Em : from_range c data = Ok (mkMapped ix data (serialize c ix data))).
    { unfold from_range. rewrite E. reflexivity. }
    eexists. split; [exact Em|]. split; [exact (C12_from_raw_closed _ Em)|].
    split; [exact (C12_reopen_eq _ Em)|]. split; [reflexivity|].
    apply canon_index_wf. exact (from_range_canon _ Em).
  Qed.

  (* C11 through the file: the reopened container answers with the multiset semantics of the data *)
  Theorem C12_reopen_exact (Hf : float_ok_valid c) m r q :
    from_range c data = Ok m -> reopen c (mp_file m) = Ok r -> q < sentinel c ->
    mapped_lower_bound c r q = Ok (lb data q) /\
    mapped_upper_bound c r q = Ok (ub data q) /\
    mapped_count c r q = Ok (ub data q - lb data q) /\
    mapped_contains c r q = Ok (existsb (Z.eqb q) data).
  Proof.
    intros Hm Hr Hq. rewrite (C12_reopen_eq m Hm) in Hr. injection Hr as <-.
    destruct (from_range_inv c data m Hm) as [Hb _].
    exact (C11_mapped_at c data m q Hc Hd Hm (build_segs32 c data _ Hc Hsm Hd Hn Hb) Hq (Hf _ _ Hd)).
  Qed.
End Closed.

(* ---------- non-vacuity: Floating = float, signed 32-bit keys, 30 keys, two levels ---------- *)
Definition exF_cfg := mkCfg (mkK 32 true) 1 4 false 1 false.
Definition exF_data : list Z :=
  [-50; -49; -20; -19; -18; 0; 1; 2; 3; 50; 51; 100; 200; 201; 202; 203; 500; 1000; 1001; 1002;
   5000; 5001; 10000; 20000; 20001; 20002; 40000; 80000; 80001; 160000].

Lemma exF_idx_ok : idx_ok exF_cfg.
Proof. constructor; cbn; lia. Qed.
Lemma exF_small : cfg_small exF_cfg.
Proof. constructor; cbn; lia. Qed.
Lemma exF_width : std_width exF_cfg.
Proof. right. right. left. reflexivity. Qed.
Lemma exF_data_ok : data_ok exF_cfg exF_data.
Proof.
  constructor.
  - discriminate.
  - reflexivity.
  - repeat constructor.
  - vm_compute. reflexivity.
  - vm_compute. reflexivity.
Qed.
Lemma exF_n : zlen exF_data <= 2 ^ 30.
Proof. vm_compute. discriminate. Qed.

(* shape of the built index, as booleans only: height 2 (offsets [0; 6; 8]: five segments + sentinel at
   the bottom, one + sentinel above), every real segment with a non-zero float slope *)
Definition exF_shape_b : bool :=
  match build exF_cfg exF_data with
  | Ok ix => (height ix =? 2) && (zlen (ix_segments ix) =? 8) &&
             (zlen (filter (fun s => negb (f64_is_zero (sg_slope s))) (ix_segments ix)) =? 6)
  | Err _ => false
  end.
Lemma exF_shape : exF_shape_b = true.
Proof. vm_compute. reflexivity. Qed.

Example C12_instance_float_closed :
  c_fdouble exF_cfg = false /\
  exists m, from_range exF_cfg exF_data = Ok m /\ from_raw exF_cfg (raw_file exF_cfg exF_data) = Ok m /\
            reopen exF_cfg (mp_file m) = Ok m /\ mp_data m = exF_data /\ wf_index exF_cfg (mp_ix m) /\
            height (mp_ix m) = 2 /\
            forall r q, reopen exF_cfg (mp_file m) = Ok r ->
              mapped_lower_bound exF_cfg r q = mapped_lower_bound exF_cfg m q /\
              mapped_upper_bound exF_cfg r q = mapped_upper_bound exF_cfg m q /\
              mapped_count exF_cfg r q = mapped_count exF_cfg m q /\
              mapped_contains exF_cfg r q = mapped_contains exF_cfg m q.
Proof.
  split; [reflexivity|].
  destruct (C12_three_constructors exF_cfg exF_data exF_idx_ok exF_small exF_width exF_data_ok exF_n)
    as (m & H1 & H2 & H3 & H4 & H5).
  exists m. do 5 (split; [assumption|]). split.
  - destruct (from_range_inv _ _ _ H1) as [Hb _]. pose proof exF_shape as Hs. unfold exF_shape_b in Hs.
    rewrite Hb in Hs. lia.
  - intros r q Hr.
    exact (C12_reopen_answers exF_cfg exF_data exF_idx_ok exF_small exF_width exF_data_ok exF_n m r H1 Hr q).
Qed.

(* ---------- index_eq alone does not determine the answers (Floating = float) ---------- *)
(* two indexes that differ only in one slope: 1 and 1 + 2^-30 (both doubles, the same float): the file
   cannot tell them apart (index_eq), search does.  Built indexes never contain the second kind of
   slope (MappedWf.build_canon); this is why index_eq_search asks for canonical slopes. *)
Definition cxF_cfg := mkCfg (mkK 64 false) 1 0 false 1 false.
Definition cx_one : f64 := @B754_finite 53 1024 false 4503599627370496 (-52) eq_refl.
Definition cx_one_plus : f64 := @B754_finite 53 1024 false 4503599631564800 (-52) eq_refl.
Definition cx_index (x : f64) : index :=
  mkIndex (2 ^ 32 - 1) 0 [mkSeg 0 x 0; mkSeg (2 ^ 64 - 1) f64_zero (2 ^ 32 - 1)] [0; 2].

Lemma cx_index_eq : index_eq cxF_cfg (cx_index cx_one) (cx_index cx_one_plus).
Proof.
  unfold index_eq, cx_index. cbn [ix_n ix_first_key ix_offsets ix_segments]. do 3 (split; [reflexivity|]).
  constructor; [|constructor; [|constructor]]; unfold seg_eq; cbn [sg_key sg_icpt sg_slope];
    (split; [reflexivity|]); (split; [reflexivity|]); [|reflexivity].
  vm_compute. reflexivity.
Qed.

Definition cx_pos_differ_b : bool :=
  match search cxF_cfg (cx_index cx_one) (2 ^ 31), search cxF_cfg (cx_index cx_one_plus) (2 ^ 31) with
  | Ok a1, Ok a2 => negb (a_pos a1 =? a_pos a2)
  | _, _ => false
  end.
Lemma cx_pos_differ : cx_pos_differ_b = true.
Proof. vm_compute. reflexivity. Qed.

Theorem index_eq_not_enough :
  exists c ix1 ix2 q, index_eq c ix1 ix2 /\ search c ix1 q <> search c ix2 q.
Proof.
  exists cxF_cfg, (cx_index cx_one), (cx_index cx_one_plus), (2 ^ 31). split; [exact cx_index_eq|].
  intros E. pose proof cx_pos_differ as H. unfold cx_pos_differ_b in H. rewrite E in H.
  destruct (search cxF_cfg (cx_index cx_one_plus) (2 ^ 31)); [|discriminate H].
  rewrite Z.eqb_refl in H. discriminate H.
Qed.

Print Assumptions C12_reopen_eq.
Print Assumptions C12_reopen_from_range_closed.
Print Assumptions C12_reopen_answers.
Print Assumptions C12_three_constructors.
Print Assumptions C12_reopen_exact.
Print Assumptions C12_instance_float_closed.
Print Assumptions index_eq_not_enough.

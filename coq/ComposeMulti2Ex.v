(* ComposeMulti2Ex.v — non-vacuity of ComposeMulti2.multi_index_end_to_end / multi_contains_end_to_end on
   a concrete two-dimensional index over uint32 codes (Floating = float, Epsilon = EpsilonRecursive = 1,
   a three-level inner index), and the FINDING at the one excluded query (the all-ones point). *)
Require Import Base Fp PlaModel GenLeaf IndexModel IndexProofs MultiModel MultiMorton MultiRange MultiBigmin
  IdxChain FloatOk ComposeIdx ComposeBuild ComposeFloat32 ComposeMulti MultiRange2 ComposeMulti2.
From Coq Require Import ZifyBool Permutation.
Local Open Scope Z_scope.

Definition ex_cfg (e er : Z) : cfg := mkCfg (mkK 32 false) e er false 1 false.
Definition ex_m : mcfg := mkMcfg 2 32 (ex_cfg 1 1).
Definition ex_pts : list (list Z) :=
  [[1;2];[3;4];[5;6];[7;8];[100;200];[300;20];[32767;32767];[0;0];[9;9];[1000;1000];[2000;1];[40;41]].
Definition ex_top : list Z := [65535; 65535].

Lemma ex_valid : valid_mcfg ex_m. Proof. unfold valid_mcfg. cbn. lia. Qed.
Lemma ex_kt : c_kt (m_cfg ex_m) = mkK (m_tbits ex_m) false. Proof. reflexivity. Qed.
Lemma ex_idx_ok : idx_ok (m_cfg ex_m). Proof. constructor; cbn; lia. Qed.
Lemma ex_small : cfg_small (m_cfg ex_m). Proof. constructor; cbn; lia. Qed.
Lemma ex_points_ok : Forall (point_ok ex_m) ex_pts.
Proof. unfold ex_pts. repeat constructor; cbn; lia. Qed.
Lemma ex_ne : ex_pts <> []. Proof. discriminate. Qed.
Lemma ex_n : zlen ex_pts <= 2 ^ 30. Proof. vm_compute. discriminate. Qed.
Lemma ex_fl : c_fdouble (m_cfg ex_m) = false ->
  zlen ex_pts + c_eps (m_cfg ex_m) <= 2 ^ 22 - 1 /\ zlen ex_pts + 1 + c_epsrec (m_cfg ex_m) <= 2 ^ 22 - 1.
Proof. intros _. vm_compute. split; discriminate. Qed.
Lemma ex_top_is_top : ex_top = top_point ex_m. Proof. reflexivity. Qed.

Lemma ex_built : exists mu, multi_build ex_m ex_pts = Ok mu.
Proof.
  assert (H : match multi_build ex_m ex_pts with Ok _ => true | Err _ => false end = true) by (vm_compute; reflexivity).
  destruct (multi_build ex_m ex_pts) as [mu|e]; [exists mu; reflexivity|discriminate].
Qed.

(* the final theorems instantiated: two boxes (the second one reaches the all-ones corner, i.e. the
   BIGMIN queries are bounded by the reserved value itself) and two membership queries *)
Example multi_example : exists mu, multi_build ex_m ex_pts = Ok mu /\
  multi_range ex_m mu [0; 0] [1000; 65535] =
    Ok [[0;0];[1;2];[3;4];[5;6];[7;8];[9;9];[40;41];[100;200];[300;20];[1000;1000]] /\
  multi_range ex_m mu [5; 5] ex_top = Ok [[5;6];[7;8];[9;9];[40;41];[100;200];[300;20];[1000;1000];[32767;32767]] /\
  multi_contains ex_m mu [300; 20] = Ok true /\
  (exists b, multi_contains ex_m mu [300; 21] = Ok b) /\ multi_contains ex_m mu [300; 21] <> Ok true.
Proof.
  destruct ex_built as (mu & Hb). exists mu. split; [exact Hb|].
  pose proof (multi_index_end_to_end ex_m ex_pts mu ex_valid ex_kt ex_idx_ok ex_small ex_points_ok ex_ne ex_n ex_fl Hb)
    as (_ & _ & Hr).
  pose proof (multi_contains_end_to_end ex_m ex_pts mu ex_valid ex_kt ex_idx_ok ex_small ex_points_ok ex_ne ex_n ex_fl Hb)
    as Hc.
  destruct (multi_build_inv ex_m ex_pts mu Hb) as [_ Hd].
  assert (Hco : forall p : list Z, coords_ok 16 p <-> Forall (fun x => 0 <= x < 65536) p) by (intros; reflexivity).
  split; [|split; [|split; [|split]]].
  - rewrite Hr; [rewrite Hd; vm_compute; reflexivity|reflexivity|reflexivity| | | |right; discriminate];
      try (apply Hco; repeat constructor; lia); repeat constructor; lia.
  - rewrite Hr; [rewrite Hd; vm_compute; reflexivity|reflexivity|reflexivity| | | |right; discriminate];
      try (apply Hco; repeat constructor; lia); repeat constructor; lia.
  - apply Hc; [reflexivity|apply Hco; repeat constructor; lia|right; discriminate|].
    unfold ex_pts. repeat (first [left; reflexivity | right]).
  - apply Hc; [reflexivity|apply Hco; repeat constructor; lia|right; discriminate].
  - intros H. apply Hc in H; [|reflexivity|apply Hco; repeat constructor; lia|right; discriminate].
    unfold ex_pts in H. cbn [In] in H. intuition discriminate.
Qed.

(* ==== FINDING: the one excluded query ====
   For Dimensions * FieldBits = digits of T (Dimensions in {2,4}) the code of the all-ones point is
   numeric_limits<T>::max(), the value PGMIndex reserves: its sentinel segments carry that key, so
   `for (; std::next(lo)->key <= key; ++lo)` in segment_for_key never stops at a level's sentinel and
   reads past the end of the segments array as soon as the inner index has at least two levels.
   The model answers Err OutOfBounds; the real code (same 12 points, MultidimensionalPGMIndex<2,
   uint32_t, 1, 1, float>, contains({65535,65535}) or range({65535,65535},{65535,65535})) is a
   heap-buffer-overflow READ in PGMIndex::segment_for_key (pgm_index.hpp:150) under AddressSanitizer.
   Expected: contains = false, range = empty (what the one-level configurations below answer). *)
Definition is_oob {A} (r : res A) : bool := match r with Err OutOfBounds => true | _ => false end.

Example finding_top_is_reserved : encode ex_m ex_top = sentinel (m_cfg ex_m).
Proof. vm_compute. reflexivity. Qed.

Example finding_contains_top :
  match multi_build ex_m ex_pts with
  | Ok mu => is_oob (multi_contains ex_m mu ex_top)
  | Err _ => false end = true.
Proof. vm_compute. reflexivity. Qed.

Example finding_range_top :
  match multi_build ex_m ex_pts with
  | Ok mu => is_oob (multi_range ex_m mu ex_top ex_top)
  | Err _ => false end = true.
Proof. vm_compute. reflexivity. Qed.

(* the defaults of the class (Epsilon = 64, EpsilonRecursive = 4, float) on the same points: a one-level
   inner index, and EpsilonRecursive = 0: the same queries are answered, correctly *)
Definition answers_ok (m : mcfg) : bool :=
  match multi_build m ex_pts with
  | Ok mu => match multi_contains m mu ex_top, multi_range m mu ex_top ex_top with
             | Ok false, Ok [] => true | _, _ => false end
  | Err _ => false end.
Example top_one_level : answers_ok (mkMcfg 2 32 (ex_cfg 64 4)) = true.
Proof. vm_compute. reflexivity. Qed.
Example top_epsrec0 : answers_ok (mkMcfg 2 32 (ex_cfg 1 0)) = true.
Proof. vm_compute. reflexivity. Qed.

Print Assumptions multi_example.

(* ComposeBucket.v — C09 end to end: BucketingPGMIndex::search satisfies the index contract.  Inside
   [first,last] the top-level table selects the same segment as the one-level PGMIndex
   (BucketTop.bucketing_segment_for_key_spec), so the answer is that of PGMIndex::search with
   EpsilonRecursive = 0 (ComposeIdx.search_contract_at); outside, the early exits. *)
Require Import Base Fp PlaModel PlaSpec GenLeaf IndexModel IndexProofs MappedQueries IdxFed IdxSeg IdxBlock IdxLevel
  IdxSearch0 IdxChain IdxFuel VariantsModel BucketTop ComposeIdx ComposeBuild.
From Coq Require Import ZifyBool.
Local Open Scope Z_scope.

(* the key layout of a one-level index, without any floating-point hypothesis *)
Lemma index0_keys c data ix :
  1 <= kbits (c_kt c) -> c_epsrec c = 0 -> 1 <= c_par c -> data_ok c data ->
  zlen data + c_eps c < 2 ^ 64 - 1 -> build c data = Ok ix ->
  exists L, ix = mkIndex (zlen data) (hd 0 data) L [0; zlen L] /\
    sortedb (map sg_key L) = true /\ sg_key (hd dseg L) = hd 0 data /\
    sg_key (last L dseg) = sentinel c /\ 2 <= zlen L.
Proof.
  intros Hbits Hrec Hpar [Hne Hs Hkt Hlast Hn32] Hn64 Hb.
  destruct (index0_layout c data ix Hbits Hrec Hpar Hne Hs Hkt Hlast Hn32 Hn64 Hb (sentinel c)
              (level_float_ok_cap_trivial _ _ _ _)) as (css & g & new & T & Eix & Hcat & HL & HT & _ & Hlk & Hnn).
  pose proof (nowrap_data c data Hbits Hne Hs Hkt Hlast) as Hw.
  pose proof (wrap_last c data Hbits Hne Hs Hkt Hlast) as Hwl.
  destruct (level_keys_facts c (c_eps c) _ data (last_z data) css g new T Hne Hs Hw Hcat HL HT Hwl ltac:(lia))
    as (Hsorted & _ & Hhd).
  { intros p Hp. apply (fed_spec_x_le (c_kt c) data p Hne Hs Hw Hp). }
  exists (new ++ T). split; [exact Eix|]. split; [exact Hsorted|].
  assert (Hhd' : sg_key (hd dseg (new ++ T)) = hd 0 data) by (destruct new; [contradiction|exact Hhd]).
  split; [exact Hhd'|]. split; [exact Hlk|].
  assert (Hd0 : hd 0 data <= last_z data).
  { apply (data_le_last data Hne Hs). destruct data; [contradiction|]. left. reflexivity. }
  destruct (new ++ T) as [|a [|b t]] eqn:EL; [apply app_eq_nil in EL; tauto| |rewrite !zlen_cons; pose proof (zlen_ge0 t); lia].
  cbn [hd last] in *. lia.
Qed.

Lemma ub_below_last (L : list segment) k : sortedb (map sg_key L) = true -> 1 <= zlen L ->
  k < sg_key (last L dseg) -> ub (map sg_key L) k <= zlen L - 1.
Proof.
  intros Hs Hlen Hk. destruct (ub_spec (map sg_key L) k Hs) as [U1 _].
  pose proof (ub_le_len (map sg_key L) k) as Hul.
  assert (Hzm : zlen (map sg_key L) = zlen L) by (unfold zlen; rewrite map_length; reflexivity).
  rewrite Hzm in Hul. destruct (Z_le_gt_dec (ub (map sg_key L) k) (zlen L - 1)) as [|Hgt]; [assumption|exfalso].
  specialize (U1 (zlen L - 1) ltac:(lia)). rewrite nth_map_key in U1.
  assert (Hlastn : last L dseg = nth (Z.to_nat (zlen L - 1)) L dseg).
  { destruct (@exists_last _ L) as (l' & z & ->); [intros ->; rewrite zlen_nil in Hlen; lia|].
    rewrite last_last, zlen_app. change (zlen [z]) with 1.
    replace (zlen l' + 1 - 1) with (zlen l') by lia. symmetry. apply nth_mid. }
  rewrite <- Hlastn in U1. lia.
Qed.

(* PGMIndex::search on a one-level index, unfolded *)
Lemma search0_unfold c n f L q :
  c_epsrec c = 0 -> 2 <= zlen L -> sortedb (map sg_key L) = true ->
  Z.max f q < sg_key (last L dseg) ->
  let k := Z.max f q in
  let J := ub (map sg_key L) k - 1 in
  search c (mkIndex n f L [0; zlen L]) q =
    (do s <- nth_res L J; do nx <- nth_res L (J + 1);
     let pos := Z.min (seg_eval c s k) (sg_icpt nx) in
     Ok (mkApprox pos (PGM_SUB_EPS pos (c_eps c)) (PGM_ADD_EPS pos (c_eps c) n))).
Proof.
  intros Hrec Hlen Hs Hk k J. unfold search, search_tr. cbn [ix_first_key ix_n ix_segments ix_offsets]. fold k.
  unfold segment_for_key. rewrite Hrec. cbn [Z.eqb]. unfold segments_count, seg_at.
  cbn [ix_segments ix_offsets nth].
  assert (Hsc : match L with [] => 0 | _ :: _ => zlen L - 1 end = zlen L - 1).
  { destruct L; [rewrite zlen_nil in Hlen; lia | reflexivity]. }
  rewrite Hsc. cbn [bind].
  pose proof (ub_below_last L k Hs ltac:(lia) Hk) as Hub. pose proof (ub_nonneg (map sg_key L) k) as Hu0.
  rewrite (ub_range_eq (map sg_key L) 0 (zlen L - 1) k Hs (Z.le_refl 0) Hu0 Hub). fold J.
  destruct (nth_res L J) as [s|e]; cbn [bind]; [|reflexivity].
  destruct (nth_res L (J + 1)) as [nx|e]; cbn [bind fst]; try reflexivity.
  unfold zlen. rewrite map_length. lia.
Qed.

Lemma lb_before_first data q : q <= hd 0 data -> lb data q = 0.
Proof. destruct data as [|x t]; [reflexivity|]. cbn [hd lb]. intros H. replace (x <? q) with false by lia. reflexivity. Qed.

Lemma lb_all_lt data q : (forall x, In x data -> x < q) -> lb data q = zlen data.
Proof.
  induction data as [|x t IH]; intros H; [reflexivity|]. cbn [lb]. rewrite zlen_cons.
  replace (x <? q) with true by (specialize (H x (or_introl eq_refl)); lia).
  rewrite IH; [lia|]. intros y Hy. apply H. right. exact Hy.
Qed.

(* the one-level PGMIndex configuration inside BucketingPGMIndex *)
Definition inner (bc : bcfg) : cfg :=
  let c0 := b_cfg bc in mkCfg (c_kt c0) (c_eps c0) 0 (c_fdouble c0) (c_par c0) (c_avx512 c0).

Lemma seg_eval_inner bc s k : seg_eval (inner bc) s k = seg_eval (b_cfg bc) s k.
Proof. reflexivity. Qed.

Record bucket_ok (bc : bcfg) : Prop := mkBucketOk {
  bo_unsigned : ksigned (c_kt (b_cfg bc)) = false;
  bo_bits : 1 <= kbits (c_kt (b_cfg bc));
  bo_eps : 1 <= c_eps (b_cfg bc);
  bo_eps64 : c_eps (b_cfg bc) + 2 ^ 32 < 2 ^ 64 - 1;
  bo_par : 1 <= c_par (b_cfg bc);
  bo_tls : 0 <= b_tls bc
}.

Lemma inner_idx_ok bc : bucket_ok bc -> idx_ok (inner bc).
Proof. intros [H1 H2 H3 H4 H5 H6]. constructor; cbn; lia. Qed.

Lemma bucketing_build_inv bc data b : data <> [] -> bucketing_build bc data = Ok b ->
  exists ix t, build (inner bc) data = Ok ix /\
    build_top_level bc (ix_segments ix) (hd 0 data) (last_z data) = Ok t /\
    b = mkBucketing (zlen data) (hd 0 data) (last_z data) (ix_segments ix) (fst t) (snd t).
Proof.
  intros Hne H. unfold bucketing_build in H.
  assert (Hn : zlen data <> 0) by (destruct data; [contradiction|]; rewrite zlen_cons; pose proof (zlen_ge0 data); lia).
  replace (zlen data =? 0) with false in H by lia. fold (inner bc) in H.
  destruct (build (inner bc) data) as [ix|e] eqn:E1; cbn [bind] in H; [|discriminate].
  destruct (build_top_level bc (ix_segments ix) (hd 0 data) (last_z data)) as [t|e] eqn:E2; cbn [bind] in H; [|discriminate].
  injection H as <-. exists ix, t. split; [reflexivity|]. split; [exact E2|reflexivity].
Qed.

(* inside [first,last]: BucketingPGMIndex::search = PGMIndex<K,Epsilon,0>::search on the same segments *)
Lemma bucketing_search_inside bc data b ix t q :
  bucket_ok bc -> data_ok (inner bc) data -> build (inner bc) data = Ok ix ->
  build_top_level bc (ix_segments ix) (hd 0 data) (last_z data) = Ok t ->
  b = mkBucketing (zlen data) (hd 0 data) (last_z data) (ix_segments ix) (fst t) (snd t) ->
  hd 0 data <= q <= last_z data ->
  bucketing_search bc b q = search (inner bc) ix q.
Proof.
  intros Hbo Hd Hb Ht Eb Hq. pose proof Hbo as [Hu Hbits Heps Heps64 Hpar Htls].
  pose proof Hd as [Hne Hs Hkt Hlast Hn32].
  destruct (index0_keys (inner bc) data ix Hbits eq_refl Hpar Hd ltac:(cbn; lia) Hb)
    as (L & Eix & Hsorted & Hhd & Hlk & Hlen).
  assert (Esegs : ix_segments ix = L) by (rewrite Eix; reflexivity).
  rewrite Esegs in *.
  assert (HLne : L <> []) by (intros ->; rewrite zlen_nil in Hlen; lia).
  assert (Hhd0 : hd 0 (map sg_key L) = hd 0 data) by (destruct L; [contradiction|exact Hhd]).
  assert (Hf0 : 0 <= hd 0 data).
  { rewrite Forall_forall in Hkt. assert (Hin : In (hd 0 data) data) by (destruct data; [contradiction|left; reflexivity]).
    specialize (Hkt _ Hin). unfold in_ktype, kmin in Hkt. cbn [inner c_kt] in Hkt. rewrite Hu in Hkt. lia. }
  destruct t as [top step]. cbn [fst snd] in Eb.
  pose proof (bucketing_segment_for_key_spec bc L (hd 0 data) (last_z data) q top step Hu ltac:(lia) Htls Hsorted Hhd0
                HLne Hf0 Hq Hlast Ht b ltac:(rewrite Eb; reflexivity) ltac:(rewrite Eb; reflexivity)
                ltac:(rewrite Eb; reflexivity) ltac:(rewrite Eb; reflexivity)) as Hseg.
  rewrite Eix.
  rewrite (search0_unfold (inner bc) (zlen data) (hd 0 data) L q eq_refl Hlen Hsorted
             ltac:(rewrite Hlk, Z.max_r by lia; lia)).
  rewrite Z.max_r by lia.
  unfold bucketing_search. rewrite Hseg. rewrite Eb. cbn [bk_first bk_last bk_segments bk_n bind].
  replace (q <? hd 0 data) with false by lia. replace (q >? last_z data) with false by lia.
  reflexivity.
Qed.

(* C09: the search contract of BucketingPGMIndex, for every query (also beyond the sentinel: the
   early exits answer without the index) *)
Theorem bucketing_search_contract_at bc data b q :
  bucket_ok bc -> data_ok (inner bc) data -> bucketing_build bc data = Ok b ->
  zlen (bk_segments b) < 2 ^ 32 ->
  (hd 0 data <= q <= last_z data -> float_ok (inner bc) data q) ->
  exists a, bucketing_search bc b q = Ok a /\
    0 <= a_lo a /\ a_lo a <= lb data q /\ lb data q <= a_hi a /\ a_hi a <= zlen data /\
    (In q data -> lb data q < a_hi a) /\ a_hi a - a_lo a <= 2 * c_eps (b_cfg bc) + 2.
Proof.
  intros Hbo Hd Hb Hs32 Hfl. pose proof Hd as [Hne Hs Hkt Hlast Hn32].
  destruct (bucketing_build_inv bc data b Hne Hb) as (ix & t & Hbi & Ht & Eb).
  pose proof (zlen_ge0 data) as Hn0. pose proof (bo_eps bc Hbo) as Heps.
  destruct (Z_lt_ge_dec q (hd 0 data)) as [Hlo|Hlo].
  - exists (mkApprox 0 0 0). split.
    + unfold bucketing_search. rewrite Eb. cbn [bk_first]. replace (q <? hd 0 data) with true by lia. reflexivity.
    + cbn [a_lo a_hi]. rewrite (lb_before_first data q ltac:(lia)). repeat split; try lia.
      intros Hin. pose proof (hd_le_In data q Hs Hin). lia.
  - destruct (Z_gt_le_dec q (last_z data)) as [Hhi|Hhi].
    + exists (mkApprox (zlen data) (zlen data) (zlen data)). split.
      * unfold bucketing_search. rewrite Eb. cbn [bk_first bk_last bk_n].
        replace (q <? hd 0 data) with false by lia. replace (q >? last_z data) with true by lia. reflexivity.
      * cbn [a_lo a_hi]. rewrite (lb_all_lt data q).
        -- repeat split; try lia. intros Hin. pose proof (data_le_last data Hne Hs q Hin). lia.
        -- intros x Hx. pose proof (data_le_last data Hne Hs x Hx). lia.
    + rewrite (bucketing_search_inside bc data b ix t q Hbo Hd Hbi Ht Eb ltac:(lia)).
      assert (Hs32' : zlen (ix_segments ix) < 2 ^ 32) by (rewrite Eb in Hs32; exact Hs32).
      destruct (search_contract_at (inner bc) data ix q (inner_idx_ok bc Hbo) Hd Hbi Hs32'
                  ltac:(lia) ltac:(rewrite Z.max_r by lia; apply Hfl; lia))
        as (a & Es & H1 & H2 & H3 & H4 & H5 & H6 & _).
      exists a. split; [exact Es|]. cbn [inner c_eps] in H6. tauto.
Qed.

Theorem bucketing_search_contract bc data b q :
  bucket_ok bc -> float_ok_valid (inner bc) -> data_ok (inner bc) data -> bucketing_build bc data = Ok b ->
  zlen (bk_segments b) < 2 ^ 32 ->
  exists a, bucketing_search bc b q = Ok a /\
    0 <= a_lo a <= lb data q /\ lb data q <= a_hi a <= zlen data /\
    (In q data -> lb data q < a_hi a) /\ a_hi a - a_lo a <= 2 * c_eps (b_cfg bc) + 2.
Proof.
  intros Hbo Hf Hd Hb Hs32.
  destruct (bucketing_search_contract_at bc data b q Hbo Hd Hb Hs32 (fun _ => Hf _ _ Hd)) as (a & Es & H).
  exists a. split; [exact Es|]. tauto.
Qed.

(* ---- with the construction ---- *)
Lemma bit_width_le32 x : 0 <= x < 2 ^ 32 -> BIT_WIDTH x <= 32.
Proof.
  intros H. unfold BIT_WIDTH, clzll. destruct (x =? 0) eqn:E; [lia|].
  assert (Z.log2 x < 32) by (apply Z.log2_lt_pow2; lia). lia.
Qed.

Lemma inner_cfg_small bc : c_par (b_cfg bc) <= 20 -> c_eps (b_cfg bc) <= 2 ^ 31 -> cfg_small (inner bc).
Proof. intros H1 H2. constructor; cbn; lia. Qed.

(* BucketingPGMIndex over at most 2^30 keys: the constructor succeeds and every search satisfies the
   contract.  Conditions on the top level: TopLevelBitSize = 0 (dynamic) or >= 32, and for a
   power-of-two TopLevelSize the shift count is in range (2 <= bit_width(TopLevelSize) <= bits(K)+1). *)
Theorem bucketing_contract_total bc data :
  bucket_ok bc -> c_par (b_cfg bc) <= 20 -> c_eps (b_cfg bc) <= 2 ^ 31 ->
  (pow_two (b_tls bc) = true -> 0 <= top_shift bc < kbits (c_kt (b_cfg bc))) ->
  (b_tlbs bc = 0 \/ 32 <= b_tlbs bc) ->
  float_ok_valid (inner bc) -> data_ok (inner bc) data -> zlen data <= 2 ^ 30 ->
  exists b, bucketing_build bc data = Ok b /\
    forall q, exists a, bucketing_search bc b q = Ok a /\
      0 <= a_lo a <= lb data q /\ lb data q <= a_hi a <= zlen data /\
      (In q data -> lb data q < a_hi a) /\ a_hi a - a_lo a <= 2 * c_eps (b_cfg bc) + 2.
Proof.
  intros Hbo Hp He Hsh Hw Hf Hd Hn. pose proof Hd as [Hne _ _ _ _].
  destruct (build_total (inner bc) data (inner_idx_ok bc Hbo) (inner_cfg_small bc Hp He) Hd Hn) as (ix & E & Hs32).
  pose proof (zlen_ge0 (ix_segments ix)) as Hz0.
  destruct (build_top_level_ok bc (ix_segments ix) (hd 0 data) (last_z data) (bo_unsigned bc Hbo)
              ltac:(pose proof (bo_bits bc Hbo); lia) Hsh
              ltac:(destruct Hw as [->|Hw]; [left; reflexivity|right; pose proof (bit_width_le32 (zlen (ix_segments ix)) ltac:(lia)); lia]))
    as (top & step & Et).
  assert (Eb : bucketing_build bc data = Ok (mkBucketing (zlen data) (hd 0 data) (last_z data) (ix_segments ix) top step)).
  { unfold bucketing_build.
    assert (Hn0 : zlen data <> 0) by (destruct data; [contradiction|]; rewrite zlen_cons; pose proof (zlen_ge0 data); lia).
    replace (zlen data =? 0) with false by lia. fold (inner bc). rewrite E. cbn [bind]. rewrite Et. reflexivity. }
  eexists. split; [exact Eb|]. intros q.
  exact (bucketing_search_contract bc data _ q Hbo Hf Hd Eb Hs32).
Qed.

Print Assumptions bucketing_contract_total.
Print Assumptions bucketing_search_inside.
Print Assumptions bucketing_search_contract_at.
Print Assumptions bucketing_search_contract.

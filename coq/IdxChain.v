(* IdxChain.v — PGMIndex::build for EpsilonRecursive > 0: the index is a chain of levels, each built by
   the segmentation driver over the keys of the real segments of the level below. *)
Require Import Base Fp PlaModel PlaSpec GenLeaf IndexModel IndexProofs MappedQueries IdxFed IdxSeg IdxBlock IdxLevel IdxSearch0 IdxRoute.
From Coq Require Import ZifyBool.
Local Open Scope Z_scope.

Record lrec := mkL {
  lr_keys : list Z; lr_eps : Z; lr_css : list cseg; lr_g : list (list (Z * Z));
  lr_new : list segment; lr_T : list segment; lr_ln : Z }.
Definition lr_L (r : lrec) : list segment := lr_new r ++ lr_T r.

Definition key_ok (kt : ktype) (x : Z) : Prop := in_ktype kt x = true /\ x < kmax kt.

Definition lrec_ok (c : cfg) (ldk k : Z) (r : lrec) : Prop :=
  lr_keys r <> [] /\ sortedb (lr_keys r) = true /\ Forall (key_ok (c_kt c)) (lr_keys r) /\
  0 <= lr_eps r /\
  concat (lr_g r) = fed_spec (c_kt c) (lr_keys r) /\
  Lv c (lr_eps r) (EvalOKc (zlen (lr_keys r) + lr_eps r) c k) (lr_css r) (lr_g r) (lr_new r) /\
  tail_ok c ldk (zlen (lr_keys r)) (lr_new r) (lr_T r) (lr_ln r) (zlen (lr_new r)).

Definition link (c : cfg) (r r' : lrec) : Prop :=
  lr_keys r' = map sg_key (firstn (Z.to_nat (lr_ln r)) (lr_L r)) /\
  lr_eps r' = c_epsrec c /\ zlen (lr_keys r') = lr_ln r.

(* levels listed top first *)
Fixpoint chainR (c : cfg) (ldk k : Z) (rl : list lrec) : Prop :=
  match rl with
  | [] => False
  | r' :: rest =>
      lrec_ok c ldk k r' /\
      match rest with [] => lr_eps r' = c_eps c | r :: _ => link c r r' /\ chainR c ldk k rest end
  end.

Definition below (rl : list lrec) : list segment := concat (map lr_L (rev rl)).
Fixpoint offs_of (rl : list lrec) : list Z :=
  match rl with [] => [0] | r :: rest => offs_of rest ++ [zlen (below (r :: rest))] end.

Lemma below_cons r rl : below (r :: rl) = below rl ++ lr_L r.
Proof. unfold below. cbn [rev]. rewrite map_app, concat_app. cbn [map concat]. rewrite app_nil_r. reflexivity. Qed.

Lemma below_app up rl : below (up ++ rl) = below rl ++ below up.
Proof. unfold below. rewrite rev_app_distr, map_app, concat_app. reflexivity. Qed.

Lemma offs_len rl : length (offs_of rl) = S (length rl).
Proof. induction rl as [|r rl IH]; [reflexivity|]. cbn [offs_of length]. rewrite app_length, IH. cbn. lia. Qed.

Lemma offs_last rl : last (offs_of rl) 0 = zlen (below rl).
Proof. destruct rl as [|r rl]; [reflexivity|]. cbn [offs_of]. apply last_last. Qed.

Lemma offs_app up rl : exists more, offs_of (up ++ rl) = offs_of rl ++ more.
Proof.
  induction up as [|u up [more IH]]; [exists []; rewrite app_nil_r; reflexivity|].
  cbn [app offs_of]. rewrite IH. rewrite <- app_assoc. eexists. reflexivity.
Qed.

(* offs[l] where l = length rl: the start of the level that sits on top of the levels rl *)
Lemma offs_nth up rl : nth (length rl) (offs_of (up ++ rl)) 0 = zlen (below rl).
Proof.
  destruct (offs_app up rl) as (more & E). rewrite E.
  rewrite app_nth1 by (rewrite offs_len; lia).
  rewrite <- offs_last. pose proof (offs_len rl) as Hl.
  destruct (@exists_last _ (offs_of rl)) as (l' & a & El); [destruct (offs_of rl); [discriminate Hl | discriminate]|].
  rewrite El in *. rewrite last_last. rewrite app_length in Hl. cbn [length] in Hl.
  replace (length rl) with (length l') by lia. rewrite app_nth2 by lia. rewrite Nat.sub_diag. reflexivity.
Qed.

Lemma In_firstn {A} (l : list A) : forall m x, In x (firstn m l) -> In x l.
Proof.
  induction l as [|a t IH]; intros m x H; [destruct m; exact H|]. destruct m as [|m]; [contradiction|].
  cbn [firstn] in H. destruct H as [<-|H]; [left; reflexivity | right; eapply IH; eauto].
Qed.

(* ---- strict sortedness ---- *)
Lemma ssortedb_cons_intro x l : (forall y, In y l -> x < y) -> ssortedb l = true -> ssortedb (x :: l) = true.
Proof.
  intros H Hs. destruct l as [|y t]; [reflexivity|].
  change (ssortedb (x :: y :: t)) with ((x <? y) && ssortedb (y :: t)). rewrite Hs.
  pose proof (H y (or_introl eq_refl)). lia.
Qed.

Lemma ssortedb_inv x l : ssortedb (x :: l) = true -> (forall y, In y l -> x < y) /\ ssortedb l = true.
Proof.
  revert x. induction l as [|y t IH]; intros x H; [split; [intros ? []|reflexivity]|].
  change (ssortedb (x :: y :: t)) with ((x <? y) && ssortedb (y :: t)) in H.
  apply andb_prop in H. destruct H as [H1 H2]. split; [|exact H2].
  destruct (IH y H2) as [IH1 _]. intros z [<-|Hz]; [lia|]. specialize (IH1 z Hz). lia.
Qed.

Lemma ssortedb_sorted l : ssortedb l = true -> sortedb l = true.
Proof.
  induction l as [|x t IH]; intros H; [reflexivity|]. destruct (ssortedb_inv x t H) as [H1 H2].
  apply sortedb_cons_intro; [|apply IH; exact H2]. intros y Hy. specialize (H1 y Hy). lia.
Qed.

Lemma ssortedb_firstn l : forall m, ssortedb l = true -> ssortedb (firstn m l) = true.
Proof.
  induction l as [|x t IH]; intros m H; [destruct m; reflexivity|]. destruct m as [|m]; [reflexivity|].
  destruct (ssortedb_inv x t H) as [H1 H2]. cbn [firstn]. apply ssortedb_cons_intro; [|apply IH; exact H2].
  intros y Hy. apply H1. eapply In_firstn; eauto.
Qed.

Lemma bkeys_ssorted g : incr (concat g) -> Forall (fun b => b <> []) g -> ssortedb (bkeys g) = true.
Proof.
  induction g as [|b g IH]; intros Hi Hne; [reflexivity|].
  inversion Hne as [|b0 g0 Hb Hg]; subst. cbn [concat] in Hi. apply incr_app in Hi.
  destruct Hi as (_ & Hi2 & Hx). cbn [bkeys map]. apply ssortedb_cons_intro; [|apply IH; assumption].
  intros y Hy. destruct (bkeys_In g y Hg Hy) as (yy & Hin).
  destruct (Hx _ _ (hd_In_ne b Hb) Hin) as [H1 _]. cbn [fst] in H1. exact H1.
Qed.

Lemma ssorted_lt_last l x d : ssortedb l = true -> In x (removelast l) -> x < last l d.
Proof.
  revert x. induction l as [|a t IH]; intros x Hs Hx; [contradiction|].
  destruct t as [|b t']; [contradiction|].
  destruct (ssortedb_inv a (b :: t') Hs) as [H1 H2].
  change (removelast (a :: b :: t')) with (a :: removelast (b :: t')) in Hx.
  change (last (a :: b :: t') d) with (last (b :: t') d).
  destruct Hx as [<-|Hx]; [|apply IH; assumption].
  apply H1. destruct (@exists_last _ (b :: t') ltac:(discriminate)) as (l' & z & ->).
  rewrite last_last. apply in_or_app. right. left. reflexivity.
Qed.

Lemma sorted_le_last l x d : sortedb l = true -> In x l -> x <= last l d.
Proof.
  revert x. induction l as [|a t IH]; intros x Hs Hx; [contradiction|].
  destruct t as [|b t']; [destruct Hx as [<-|[]]; cbn; lia|].
  change (last (a :: b :: t') d) with (last (b :: t') d).
  pose proof (sortedb_tail _ _ Hs) as Ht.
  destruct Hx as [<-|Hx]; [|apply IH; assumption].
  pose proof (IH b Ht (or_introl eq_refl)). cbn [sortedb] in Hs. lia.
Qed.

Lemma firstn_removelast {A} (l : list A) : firstn (length l - 1) l = removelast l.
Proof.
  induction l as [|a t IH]; [reflexivity|]. destruct t as [|b t']; [reflexivity|].
  cbn [length]. replace (S (S (length t')) - 1)%nat with (S (length (b :: t') - 1)) by (cbn [length]; lia).
  cbn [firstn]. rewrite IH. reflexivity.
Qed.

(* ---- facts about one level ---- *)
Lemma key_ok_nowrap kt keys : 1 <= kbits kt -> Forall (key_ok kt) keys -> nowrap kt keys.
Proof. intros Hb H. apply nowrap_of_ktype; [exact Hb|exact H]. Qed.

Lemma Lv_first_key c eps E kt keys css g new :
  keys <> [] -> concat g = fed_spec kt keys -> Lv c eps E css g new ->
  new <> [] /\ sg_key (hd dseg new) = hd 0 keys.
Proof.
  intros Hne Hcat HL. destruct keys as [|x0 tl]; [contradiction|].
  destruct (fed_spec_hd kt x0 tl) as (rest & Er). rewrite Er in Hcat.
  destruct HL as [|cs b s css g new H1 H2 H3 H4]; [discriminate Hcat|].
  split; [discriminate|]. cbn [hd]. destruct (seg_of_cseg_spec c cs s H2) as (-> & _).
  destruct H1 as (Hb & -> & _). destruct b as [|a t]; [contradiction|].
  cbn [concat app] in Hcat. injection Hcat as -> _. reflexivity.
Qed.

Section LevelFacts.
  Variables (c : cfg) (ldk k : Z) (r : lrec).
  Hypothesis Hbits : 1 <= kbits (c_kt c).
  Hypothesis Hok : lrec_ok c ldk k r.
  Let kt := c_kt c.
  Let keys := lr_keys r.
  Let new := lr_new r.

  Lemma lf_nowrap : nowrap kt keys.
  Proof. destruct Hok as (_ & _ & Hk & _). apply key_ok_nowrap; assumption. Qed.

  Lemma lf_incr : incr (concat (lr_g r)).
  Proof.
    destruct Hok as (Hne & Hs & _ & _ & Hcat & _). rewrite Hcat.
    apply fed_spec_incr; [exact Hne | exact Hs | exact lf_nowrap].
  Qed.

  Lemma lf_first : new <> [] /\ sg_key (hd dseg new) = hd 0 keys.
  Proof.
    destruct Hok as (Hne & _ & _ & _ & Hcat & HL & _).
    exact (Lv_first_key c _ _ kt keys _ _ new Hne Hcat HL).
  Qed.

  Lemma lf_ssorted : ssortedb (map sg_key new) = true.
  Proof.
    destruct Hok as (_ & _ & _ & _ & _ & HL & _). destruct (Lv_keys _ _ _ _ _ _ HL) as [Hk Hg].
    unfold new. rewrite Hk. apply bkeys_ssorted; [exact lf_incr | exact Hg].
  Qed.

  (* every real key is the abscissa of a fed point *)
  Lemma lf_key_fed x : In x (map sg_key new) -> exists y, In (x, y) (fed_spec kt keys).
  Proof.
    destruct Hok as (_ & _ & _ & _ & Hcat & HL & _). destruct (Lv_keys _ _ _ _ _ _ HL) as [Hk Hg].
    unfold new. rewrite Hk. intros Hx. destruct (bkeys_In _ x Hg Hx) as (y & Hy). exists y.
    unfold kt, keys. rewrite <- Hcat. exact Hy.
  Qed.
End LevelFacts.

Lemma fed_x_range kt keys p : 1 <= kbits kt ->
  keys <> [] -> sortedb keys = true -> Forall (key_ok kt) keys ->
  In p (fed_spec kt keys) -> kmin kt <= fst p <= kmax kt.
Proof.
  intros Hb Hne Hs Hk Hp. pose proof (key_ok_nowrap kt keys Hb Hk) as Hw.
  apply (spec_only kt keys Hne Hs Hw) in Hp. rewrite Forall_forall in Hk.
  assert (Hin : forall i, 0 <= i < zlen keys -> kmin kt <= dat keys i < kmax kt).
  { intros i Hi. destruct (Hk _ (dat_In keys i Hi)) as [H1 H2]. unfold in_ktype in H1. lia. }
  pose proof (n_pos kt keys Hne Hs Hw) as Hn1.
  destruct Hp as [[[Hi _] ->]|[[(A & B & _) ->]|[-> _]]].
  - specialize (Hin _ Hi). lia.
  - specialize (Hin (snd p) ltac:(lia)). lia.
  - rewrite (last_is keys Hne). specialize (Hin (zlen keys - 1) ltac:(lia)). lia.
Qed.

Lemma last_map_key (L : list segment) : L <> [] -> last (map sg_key L) 0 = sg_key (last L dseg).
Proof.
  intros Hne. destruct (exists_last Hne) as (l' & a & ->). rewrite map_app. cbn [map]. rewrite !last_last. reflexivity.
Qed.

Lemma firstn_app_le {A} (l1 l2 : list A) m : (m <= length l1)%nat -> firstn m (l1 ++ l2) = firstn m l1.
Proof. intros H. rewrite firstn_app. replace (m - length l1)%nat with O by lia. cbn [firstn]. apply app_nil_r. Qed.

Lemma next_keys c ldk k r : 1 <= kbits (c_kt c) -> lrec_ok c ldk k r ->
  let keys' := map sg_key (firstn (Z.to_nat (lr_ln r)) (lr_L r)) in
  0 <= lr_ln r <= zlen (lr_new r) /\ lr_ln r < zlen (lr_L r) /\ zlen keys' = lr_ln r /\
  keys' = map sg_key (firstn (Z.to_nat (lr_ln r)) (lr_new r)) /\
  ssortedb keys' = true /\ Forall (key_ok (c_kt c)) keys' /\
  (1 <= lr_ln r -> hd 0 keys' = hd 0 (lr_keys r)).
Proof.
  intros Hb Hok keys'. pose proof Hok as (Hne & Hs & Hk & He & Hcat & HL & Ht).
  destruct (lf_first c ldk k r Hok) as [Hnn Hhd].
  pose proof (lf_ssorted c ldk k r Hb Hok) as Hss.
  assert (Hzn : 1 <= zlen (lr_new r)).
  { destruct (lr_new r); [contradiction|]. rewrite zlen_cons. pose proof (zlen_ge0 l). lia. }
  assert (Hln : 0 <= lr_ln r <= zlen (lr_new r) /\ lr_ln r < zlen (lr_L r)).
  { unfold lr_L. rewrite zlen_app. destruct Ht as [(-> & _ & ->)|(_ & -> & X & -> & _)].
    - change (zlen (@nil segment)) with 0. lia.
    - rewrite zlen_app. change (zlen [sent_seg c (zlen (lr_keys r))]) with 1. pose proof (zlen_ge0 X). lia. }
  assert (Ek : keys' = map sg_key (firstn (Z.to_nat (lr_ln r)) (lr_new r))).
  { unfold keys', lr_L. rewrite firstn_app_le by (unfold zlen in Hln; lia). reflexivity. }
  split; [tauto|]. split; [tauto|].
  split; [rewrite Ek, zlen_map; apply zlen_firstn; lia|]. split; [exact Ek|].
  assert (Hfm : keys' = firstn (Z.to_nat (lr_ln r)) (map sg_key (lr_new r))) by (rewrite Ek; symmetry; apply firstn_map).
  split; [rewrite Hfm; apply ssortedb_firstn; exact Hss|]. split.
  - apply Forall_forall. intros x Hx. rewrite Hfm in Hx.
    pose proof (In_firstn _ _ _ Hx) as Hx'.
    destruct (lf_key_fed c ldk k r Hok x Hx') as (y & Hy).
    pose proof (fed_x_range _ _ _ Hb Hne Hs Hk Hy) as Hr. cbn [fst] in Hr.
    pose proof (last_map_key (lr_new r) Hnn) as Hlm.
    split; [unfold in_ktype; lia|].
    destruct Ht as [(_ & Hsent & Eln)|(Hns & Eln & _)].
    + rewrite Eln in Hx. replace (Z.to_nat (zlen (lr_new r) - 1)) with (length (map sg_key (lr_new r)) - 1)%nat in Hx
        by (rewrite map_length; unfold zlen; lia).
      rewrite firstn_removelast in Hx.
      pose proof (ssorted_lt_last _ x 0 Hss Hx). rewrite Hlm, Hsent in H. exact H.
    + pose proof (sorted_le_last _ x 0 (ssortedb_sorted _ Hss) Hx') as Hle. rewrite Hlm in Hle.
      destruct (lf_key_fed c ldk k r Hok (sg_key (last (lr_new r) dseg))) as (y2 & Hy2).
      { rewrite <- Hlm. destruct (@exists_last _ (map sg_key (lr_new r))) as (l' & a & El).
        - destruct (lr_new r); [contradiction|discriminate].
        - rewrite El, last_last. apply in_or_app. right. left. reflexivity. }
      pose proof (fed_x_range _ _ _ Hb Hne Hs Hk Hy2) as Hr2. cbn [fst] in Hr2. unfold sentinel in Hns. lia.
  - intros H1. rewrite Ek, <- Hhd. destruct (lr_new r) as [|s0 t]; [contradiction|].
    destruct (Z.to_nat (lr_ln r)) as [|m] eqn:Em; [lia|]. reflexivity.
Qed.

(* ---- the floating-point interface for the whole index, for the key k that is evaluated ---- *)
Fixpoint upper_float_ok (c : cfg) (fuel : nat) (ldk : Z) (segs : list segment) (offs : list Z)
         (last_n : Z) (k : Z) : Prop :=
  if (c_epsrec c =? 0) || (last_n <=? 1) then True else
  match fuel with
  | O => True
  | S f =>
      let offset := nth (length offs - 2) offs 0 in
      let keys := map sg_key (firstn (Z.to_nat last_n) (skipn (Z.to_nat offset) segs)) in
      level_float_ok c (c_epsrec c) keys ldk k /\
      match build_level c (c_epsrec c) keys last_n ldk segs with
      | Ok (segs1, ln1) => upper_float_ok c f ldk segs1 (offs ++ [zlen segs1]) ln1 k
      | Err _ => True
      end
  end.

Definition float_ok (c : cfg) (data : list Z) (k : Z) : Prop :=
  level_float_ok c (c_eps c) data (last_z data) k /\
  match build_level c (c_eps c) data (zlen data) (last_z data) [] with
  | Ok (segs, ln) => upper_float_ok c (length data + 2) (last_z data) segs [0; zlen segs] ln k
  | Err _ => True
  end.

(* the same with the cap disjunct (IdxLevel.level_float_ok_cap): what the proofs consume *)
Fixpoint upper_float_ok_cap (c : cfg) (fuel : nat) (ldk : Z) (segs : list segment) (offs : list Z)
         (last_n : Z) (k : Z) : Prop :=
  if (c_epsrec c =? 0) || (last_n <=? 1) then True else
  match fuel with
  | O => True
  | S f =>
      let offset := nth (length offs - 2) offs 0 in
      let keys := map sg_key (firstn (Z.to_nat last_n) (skipn (Z.to_nat offset) segs)) in
      level_float_ok_cap c (c_epsrec c) keys ldk k /\
      match build_level c (c_epsrec c) keys last_n ldk segs with
      | Ok (segs1, ln1) => upper_float_ok_cap c f ldk segs1 (offs ++ [zlen segs1]) ln1 k
      | Err _ => True
      end
  end.

Definition float_ok_cap (c : cfg) (data : list Z) (k : Z) : Prop :=
  level_float_ok_cap c (c_eps c) data (last_z data) k /\
  match build_level c (c_eps c) data (zlen data) (last_z data) [] with
  | Ok (segs, ln) => upper_float_ok_cap c (length data + 2) (last_z data) segs [0; zlen segs] ln k
  | Err _ => True
  end.

Lemma upper_float_ok_cap_of c ldk k : forall fuel segs offs ln,
  upper_float_ok c fuel ldk segs offs ln k -> upper_float_ok_cap c fuel ldk segs offs ln k.
Proof.
  induction fuel as [|f IH]; intros segs offs ln H; cbn [upper_float_ok upper_float_ok_cap] in *.
  - destruct ((c_epsrec c =? 0) || (ln <=? 1)); exact I.
  - destruct ((c_epsrec c =? 0) || (ln <=? 1)); [exact I|]. destruct H as [H1 H2].
    split; [apply level_float_ok_cap_of; exact H1|].
    destruct (build_level _ _ _ _ _ _) as [[segs1 ln1]|e]; [apply IH; exact H2 | exact I].
Qed.

Lemma float_ok_cap_of c data k : float_ok c data k -> float_ok_cap c data k.
Proof.
  intros [H1 H2]. split; [apply level_float_ok_cap_of; exact H1|].
  destruct (build_level _ _ _ _ _ _) as [[segs ln]|e]; [apply upper_float_ok_cap_of; exact H2 | exact I].
Qed.

Lemma build_level_grows c eps keys ln ldk segs0 segs ln' :
  build_level c eps keys ln ldk segs0 = Ok (segs, ln') -> exists more, segs = segs0 ++ more.
Proof.
  intros H. destruct (build_level_shape _ _ _ _ _ _ _ _ H) as (css & fed & cnt & new & T & _ & _ & E & _).
  exists (new ++ T). exact E.
Qed.

Lemma build_upper_grows c ldk : forall fuel segs offs ln segsF offsF,
  build_upper c fuel ldk segs offs ln = Ok (segsF, offsF) -> exists more, segsF = segs ++ more.
Proof.
  induction fuel as [|f IH]; intros segs offs ln segsF offsF H.
  - cbn [build_upper] in H. destruct ((c_epsrec c =? 0) || (ln <=? 1)); [|discriminate H].
    injection H as <- _. exists []. rewrite app_nil_r. reflexivity.
  - cbn [build_upper] in H. destruct ((c_epsrec c =? 0) || (ln <=? 1)).
    + injection H as <- _. exists []. rewrite app_nil_r. reflexivity.
    + match type of H with bind ?e _ = _ => destruct e as [[segs1 ln1]|e1] eqn:E end; cbn [bind] in H; [|discriminate H].
      destruct (build_level_grows _ _ _ _ _ _ _ _ E) as (m1 & ->).
      destruct (IH _ _ _ _ _ H) as (m2 & ->). exists (m1 ++ m2). rewrite app_assoc. reflexivity.
Qed.

Lemma last_app_ne_seg (l1 l2 : list segment) : l2 <> [] -> last (l1 ++ l2) dseg = last l2 dseg.
Proof.
  intros Hne. destruct (exists_last Hne) as (l' & a & ->). rewrite app_assoc, !last_last. reflexivity.
Qed.

Lemma tail_ok_last c ldk ln segs new T ln' cnt : new <> [] ->
  tail_ok c ldk ln (segs ++ new) T ln' cnt -> tail_ok c ldk ln new T ln' cnt.
Proof. intros Hne. unfold tail_ok. rewrite (last_app_ne_seg segs new Hne). tauto. Qed.

(* one iteration of the loop in build: the new level, as a record *)
Lemma build_upper_step c ldk k r rl segs1 ln1 :
  1 <= kbits (c_kt c) -> 1 <= c_par c -> 0 <= c_epsrec c ->
  lrec_ok c ldk k r -> 1 < lr_ln r -> lr_ln r + c_epsrec c < 2 ^ 64 - 1 ->
  let keys' := map sg_key (firstn (Z.to_nat (lr_ln r)) (lr_L r)) in
  level_float_ok_cap c (c_epsrec c) keys' ldk k ->
  build_level c (c_epsrec c) keys' (lr_ln r) ldk (below (r :: rl)) = Ok (segs1, ln1) ->
  exists r', lrec_ok c ldk k r' /\ link c r r' /\ segs1 = below (r' :: r :: rl) /\ lr_ln r' = ln1.
Proof.
  intros Hb Hpar He0 Hok Hln Hsz' keys' Hfl H.
  destruct (next_keys c ldk k r Hb Hok) as (Hl1 & Hl2 & Hz & Ek & Hss & Hko & Hhd). fold keys' in Hz, Ek, Hss, Hko, Hhd.
  assert (Hne' : keys' <> []) by (intros E; rewrite E in Hz; change (zlen (@nil Z)) with 0 in Hz; lia).
  pose proof (ssortedb_sorted _ Hss) as Hs'. pose proof (key_ok_nowrap _ _ Hb Hko) as Hw'.
  rewrite <- Hz in H.
  destruct (build_level_desc _ _ _ _ _ _ _ H Hpar Hne' Hs' Hw' ltac:(lia))
    as (css & fed & cnt & g & new & T & M1 & M2 & Es & Hcat & F1 & F2 & He & Htail).
  destruct (Hfl css fed cnt new M1 M2) as [Fev _].
  pose proof (Lv_of_Forall2 c (c_epsrec c) (EvalOKc (zlen keys' + c_epsrec c) c k) css g new F1 F2 Fev) as HL.
  destruct (Lv_first_key c _ _ (c_kt c) keys' css g new Hne' Hcat HL) as [Hnn _].
  exists (mkL keys' (c_epsrec c) css g new T ln1).
  split; [|split; [|split; [|reflexivity]]].
  - unfold lrec_ok. cbn [lr_keys lr_eps lr_css lr_g lr_new lr_T lr_ln].
    do 6 (split; [assumption|]). eapply tail_ok_last; eauto.
  - unfold link. cbn [lr_keys lr_eps]. split; [reflexivity|]. split; [reflexivity | exact Hz].
  - rewrite Es, (below_cons (mkL _ _ _ _ _ _ _)). unfold lr_L. cbn [lr_new lr_T]. reflexivity.
Qed.

Lemma zlen_below_cons_ge0 r rl : zlen (lr_L r) <= zlen (below (r :: rl)).
Proof. rewrite below_cons, zlen_app. pose proof (zlen_ge0 (below rl)). lia. Qed.

Lemma build_upper_chain c ldk k :
  1 <= kbits (c_kt c) -> 1 <= c_par c -> 0 <= c_epsrec c -> c_epsrec c + 2 ^ 32 < 2 ^ 64 - 1 ->
  forall fuel rl r segsF offsF,
    chainR c ldk k (r :: rl) ->
    upper_float_ok_cap c fuel ldk (below (r :: rl)) (offs_of (r :: rl)) (lr_ln r) k ->
    build_upper c fuel ldk (below (r :: rl)) (offs_of (r :: rl)) (lr_ln r) = Ok (segsF, offsF) ->
    zlen segsF < 2 ^ 32 ->
    exists up, chainR c ldk k (up ++ r :: rl) /\ segsF = below (up ++ r :: rl) /\
               offsF = offs_of (up ++ r :: rl) /\
               (c_epsrec c <> 0 -> lr_ln (hd r (up ++ r :: rl)) <= 1).
Proof.
  intros Hb Hpar He0 He64. induction fuel as [|f IH]; intros rl r segsF offsF Hch Hfl H Hsz.
  - cbn [build_upper] in H. destruct ((c_epsrec c =? 0) || (lr_ln r <=? 1)) eqn:Ec; [|discriminate H].
    injection H as <- <-. exists []. cbn [app hd]. split; [exact Hch|]. split; [reflexivity|]. split; [reflexivity|].
    intros Hne. apply orb_true_iff in Ec. destruct Ec as [Ec|Ec]; lia.
  - cbn [build_upper upper_float_ok_cap] in H, Hfl.
    destruct ((c_epsrec c =? 0) || (lr_ln r <=? 1)) eqn:Ec.
    { injection H as <- <-. exists []. cbn [app hd]. split; [exact Hch|]. split; [reflexivity|]. split; [reflexivity|].
    intros Hne. apply orb_true_iff in Ec. destruct Ec as [Ec|Ec]; lia. }
    assert (Eoff : nth (length (offs_of (r :: rl)) - 2) (offs_of (r :: rl)) 0 = zlen (below rl)).
    { rewrite offs_len. cbn [length]. replace (S (S (length rl)) - 2)%nat with (length rl) by lia.
      exact (offs_nth [r] rl). }
    rewrite Eoff in H, Hfl.
    assert (Esk : skipn (Z.to_nat (zlen (below rl))) (below (r :: rl)) = lr_L r).
    { rewrite below_cons. apply skipn_zlen_app. }
    rewrite Esk in H, Hfl. destruct Hfl as [Hfl1 Hfl2].
    match type of H with bind ?e _ = _ => destruct e as [[segs1 ln1]|e1] eqn:E end; cbn [bind] in H; [|discriminate H].
    destruct (build_upper_grows _ _ _ _ _ _ _ _ H) as (m2 & Em2).
    destruct (build_level_grows _ _ _ _ _ _ _ _ E) as (m1 & Em1).
    assert (Hsz1 : zlen (below (r :: rl)) < 2 ^ 32).
    { rewrite Em2, Em1, !zlen_app in Hsz. pose proof (zlen_ge0 m1). pose proof (zlen_ge0 m2). lia. }
    assert (Hok : lrec_ok c ldk k r) by (cbn [chainR] in Hch; tauto).
    assert (Hln64 : lr_ln r + c_epsrec c < 2 ^ 64 - 1).
    { destruct (next_keys c ldk k r Hb Hok) as (_ & Hl2 & _). pose proof (zlen_below_cons_ge0 r rl). lia. }
    destruct (build_upper_step c ldk k r rl segs1 ln1 Hb Hpar He0 Hok ltac:(lia) Hln64 Hfl1 E)
      as (r' & Hok' & Hlink & Es1 & Eln1).
    subst ln1. rewrite Es1 in H, Hfl2.
    assert (Hch' : chainR c ldk k (r' :: r :: rl)) by (cbn [chainR]; cbn [chainR] in Hch; tauto).
    destruct (IH (r :: rl) r' segsF offsF Hch' Hfl2 H Hsz) as (up & U1 & U2 & U3 & U4).
    exists (up ++ [r']). rewrite <- !app_assoc. cbn [app]. split; [exact U1|]. split; [exact U2|]. split; [exact U3|].
    intros Hne. specialize (U4 Hne). destruct up; cbn [app hd] in *; exact U4.
Qed.

Theorem build_chain_ext c data ix k :
  1 <= kbits (c_kt c) -> 1 <= c_par c -> 0 <= c_epsrec c -> c_epsrec c + 2 ^ 32 < 2 ^ 64 - 1 ->
  data <> [] -> sortedb data = true -> Forall (fun x => in_ktype (c_kt c) x = true) data ->
  last_z data < sentinel c -> zlen data + c_eps c < 2 ^ 64 - 1 ->
  float_ok_cap c data k -> build c data = Ok ix -> zlen (ix_segments ix) < 2 ^ 32 ->
  exists up r0,
    chainR c (last_z data) k (up ++ [r0]) /\ lr_keys r0 = data /\
    ix = mkIndex (zlen data) (hd 0 data) (below (up ++ [r0])) (offs_of (up ++ [r0])) /\
    (c_epsrec c <> 0 -> lr_ln (hd r0 (up ++ [r0])) <= 1) /\
    (extra_test c (zlen data) (last (lr_new r0) dseg) = true ->
     sg_key (extra_seg c (last_z data) (zlen data)) <= k -> k < sentinel c ->
     eval_ok c 1 0 (extra_seg c (last_z data) (zlen data)) k).
Proof.
  intros Hb Hpar He0 He64 Hne Hs Hkt Hlast Hn64 [Hf0 Hfu] H Hsz.
  unfold build in H.
  assert (Hn : zlen data <> 0) by (destruct data; [contradiction|]; rewrite zlen_cons; pose proof (zlen_ge0 data); lia).
  replace (zlen data =? 0) with false in H by lia.
  destruct (last_z data =? sentinel c) eqn:E1; [discriminate H|].
  destruct (build_level c (c_eps c) data (zlen data) (last_z data) []) as [[segs ln]|e] eqn:E2;
    cbn [bind] in H; [|discriminate H].
  destruct (build_upper c (length data + 2) (last_z data) segs [0; zlen segs] ln) as [[segsF offsF]|e] eqn:E3;
    cbn [bind] in H; [|discriminate H].
  injection H as <-. cbn [fst snd ix_segments] in *.
  assert (Hko : Forall (key_ok (c_kt c)) data).
  { rewrite Forall_forall in *. intros x Hx. split; [apply Hkt; exact Hx|].
    pose proof (sorted_le_last data x 0 Hs Hx). unfold last_z, sentinel in *. lia. }
  pose proof (key_ok_nowrap _ _ Hb Hko) as Hw.
  destruct (build_level_desc _ _ _ _ _ _ _ E2 Hpar Hne Hs Hw Hn64)
    as (css & fed & cnt & g & new & T & M1 & M2 & Es & Hcat & F1 & F2 & He & Htail).
  cbn [app] in Es, Htail.
  destruct (Hf0 css fed cnt new M1 M2) as [Fev Fext].
  pose proof (Lv_of_Forall2 c (c_eps c) (EvalOKc (zlen data + c_eps c) c k) css g new F1 F2 Fev) as HL.
  set (r0 := mkL data (c_eps c) css g new T ln).
  assert (Hok0 : lrec_ok c (last_z data) k r0).
  { unfold lrec_ok, r0. cbn [lr_keys lr_eps lr_css lr_g lr_new lr_T lr_ln]. do 6 (split; [assumption|]). exact Htail. }
  assert (Eb : below [r0] = segs).
  { unfold below. cbn [rev app map concat]. rewrite app_nil_r. unfold lr_L, r0. cbn [lr_new lr_T]. symmetry. exact Es. }
  assert (Eo : offs_of [r0] = [0; zlen segs]) by (cbn [offs_of app]; rewrite Eb; reflexivity).
  assert (Hch0 : chainR c (last_z data) k [r0]) by (cbn [chainR]; split; [exact Hok0 | reflexivity]).
  rewrite <- Eo in E3, Hfu. rewrite <- Eb in E3, Hfu. change ln with (lr_ln r0) in E3, Hfu.
  destruct (build_upper_chain c (last_z data) k Hb Hpar He0 He64 _ [] r0 segsF offsF Hch0 Hfu E3 Hsz)
    as (up & U1 & U2 & U3 & U4).
  exists up, r0. split; [exact U1|]. split; [reflexivity|]. split; [rewrite U2, U3; reflexivity|]. split; [exact U4 | exact Fext].
Qed.

Theorem build_chain c data ix k :
  1 <= kbits (c_kt c) -> 1 <= c_par c -> 0 <= c_epsrec c -> c_epsrec c + 2 ^ 32 < 2 ^ 64 - 1 ->
  data <> [] -> sortedb data = true -> Forall (fun x => in_ktype (c_kt c) x = true) data ->
  last_z data < sentinel c -> zlen data + c_eps c < 2 ^ 64 - 1 ->
  float_ok_cap c data k -> build c data = Ok ix -> zlen (ix_segments ix) < 2 ^ 32 ->
  exists up r0,
    chainR c (last_z data) k (up ++ [r0]) /\ lr_keys r0 = data /\
    ix = mkIndex (zlen data) (hd 0 data) (below (up ++ [r0])) (offs_of (up ++ [r0])) /\
    (c_epsrec c <> 0 -> lr_ln (hd r0 (up ++ [r0])) <= 1).
Proof.
  intros H1 H2 H3 H4 H5 H6 H7 H8 H9 H10 H11 H12.
  destruct (build_chain_ext c data ix k H1 H2 H3 H4 H5 H6 H7 H8 H9 H10 H11 H12) as (up & r0 & A & B & C & D & _).
  exists up, r0. tauto.
Qed.

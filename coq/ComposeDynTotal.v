(* ComposeDynTotal.v -- TOTALITY of the updates of DynamicPGMIndex over the REAL per-level index idx_ops c:
   on a typed history (ComposeDynGoodN.thistN / ComposeDyn32.shist) an update whose capacity guard holds
   BEFORE the step returns Ok, and the result is again a typed history.  No premise of the form
   `<operation> ... = Ok d'` is left: such premises of the constructors of thistN are conclusions here.
   Route (the one of the _idxN theorems, backwards): the abstract totality theorems of DynCoreTotal.v at the
   guarded instance gopsN (which satisfies pgm_contract), then the transfer gopsN -> idx_ops, valid because
   every level of the result is a list of keys of type K with at most N elements.
   * used_after / cap_after: the value of used_levels after the step, computed from the state BEFORE it, and
     the capacity guard on it (exact: cap_after N d x <-> capN N d' for the result d');
   * insert_total_N / erase_total_N / ctor_total_N / bulk_total_N (level bound N);
   * insert_total_std / erase_total_std / ctor_total_std / bulk_total_std (float or double, shist);
   * op / run / guardb, shist_run (every guarded finite list of operations yields Ok at every step),
     shist_run_steps (the same for every prefix), shist_prog_total (from the constructor),
     shist_is_run (conversely every shist state is the result of such a guarded run). *)
Require Import Base Fp PlaModel GenLeaf IndexModel IndexProofs IdxFed IdxChain FloatOk FloatOkAll FloatOkCap
  DynModel DynSpec DynExec DynCoreLemmas DynCoreInv DynCoreRefine DynCoreQuery DynCoreTotal DynCore DynIter
  ComposeIdx ComposeBuild ComposeDyn ComposeDynGood ComposeFloat ComposeFloat32 ComposeDynN ComposeDynGoodN
  ComposeDyn32.
From Coq Require Import ZifyBool.
Local Open Scope Z_scope.

(* ---------------- (A) transfer from the guarded instance back to idx_ops ---------------- *)
Section BackTransfer.
  Variable N : Z.
  Variable c : cfg.

  Lemma pairwise_merge_backN d it target ip d' :
    pairwise_merge (gopsN N c) d it target ip = Ok d' -> level_goodN N c d' ->
    pairwise_merge (idx_ops c) d it target ip = Ok d'.
  Proof.
    unfold pairwise_merge. intros H Hg.
    destruct (level d (d_min_level d)) as [buf|e]; cbn [bind] in *; [|exact H].
    destruct (level d target) as [lt|e]; cbn [bind] in *; [|exact H].
    change (merge_levels (gopsN N c)) with (merge_levels (idx_ops c)) in H.
    destruct (merge_levels (idx_ops c) d _ _) as [[d1 out]|e]; cbn [bind] in *; [|exact H].
    destruct (set_level d1 (d_min_level d) []) as [d2|e]; cbn [bind] in *; [|exact H].
    destruct (set_level d2 target out) as [d3|e] eqn:E3; cbn [bind] in *; [|exact H].
    destruct (has_pgm d target); [|exact H].
    cbn [pg_build idx_ops gopsN] in *.
    destruct (goodbN N c (map it_key out)) eqn:Hgo; [exact H|].
    exfalso. cbn [bind] in H.
    unfold level_goodN in Hg. rewrite Forall_forall in Hg.
    rewrite (Hg (out)) in Hgo; [discriminate|].
    rewrite (set_pgm_levels _ _ _ _ H). exact (set_level_In _ _ _ _ E3).
  Qed.

  Lemma insert_backN d it d' :
    insert (gopsN N c) d it = Ok d' -> level_goodN N c d' -> insert (idx_ops c) d it = Ok d'.
  Proof.
    unfold insert. intros H Hg.
    destruct (level d (d_min_level d)) as [buf|e]; cbn [bind] in *; [|exact H].
    destruct (lower_bound_bl buf 0 (zlen buf) (it_key it)) as [ip|e]; cbn [bind] in *; [|exact H].
    destruct (if ip <? zlen buf then _ else _) as [hit|e]; cbn [bind] in *; [|exact H].
    destruct hit; [exact H|].
    destruct (zlen buf <? d_buffer_max d); [exact H|].
    destruct (find_target d 300 (d_min_level d + 1) (d_buffer_max d + 1)) as [[i s]|e]; cbn [bind] in *; [|exact H].
    change (pg_empty (gopsN N c)) with (pg_empty (idx_ops c)) in H.
    apply pairwise_merge_backN; assumption.
  Qed.

  Lemma insert_or_assign_backN d k v d' :
    insert_or_assign (gopsN N c) d k v = Ok d' -> level_goodN N c d' -> insert_or_assign (idx_ops c) d k v = Ok d'.
  Proof.
    unfold insert_or_assign. destruct (match d_tomb d with Some t => v =? t | None => false end); [discriminate|].
    apply insert_backN.
  Qed.

  Lemma erase_backN d k d' :
    erase (gopsN N c) d k = Ok d' -> level_goodN N c d' -> erase (idx_ops c) d k = Ok d'.
  Proof. unfold erase. apply insert_backN. Qed.

  Lemma dyn_bulk_backN tomb kmax pairs base bl il d' :
    dyn_bulk (gopsN N c) tomb kmax pairs base bl il = Ok d' -> level_goodN N c d' ->
    dyn_bulk (idx_ops c) tomb kmax pairs base bl il = Ok d'.
  Proof.
    unfold dyn_bulk. intros H Hg.
    destruct (dyn_ctor tomb kmax base bl il) as [d0|e]; cbn [bind] in *; [|exact H].
    destruct pairs as [|[k0 v0] tl]; [exact H|].
    destruct (dedup_sorted k0 tl) as [rest|e]; cbn [bind] in *; [|exact H].
    destruct (check_values tomb (mkItem k0 (Some v0) :: rest)); [exact H|].
    match type of H with context [set_level ?a ?b ?l] => destruct (set_level a b l) as [d2|e] eqn:E2 end;
      cbn [bind] in *; [|exact H].
    destruct (has_pgm d2 _); [|exact H].
    change (pg_empty (gopsN N c)) with (pg_empty (idx_ops c)) in H.
    cbn [pg_build idx_ops gopsN] in *.
    set (items := mkItem k0 (Some v0) :: rest) in *.
    destruct (goodbN N c (map it_key items)) eqn:Hgo; [exact H|].
    exfalso. cbn [bind] in H.
    unfold level_goodN in Hg. rewrite Forall_forall in Hg.
    rewrite (Hg (items)) in Hgo; [discriminate|].
    rewrite (set_pgm_levels _ _ _ _ H). cbn [d_levels]. exact (set_level_In _ _ _ _ E2).
  Qed.
End BackTransfer.

(* ---------------- (B) used_levels after an update, computed from the state before it ---------------- *)
Section UsedAfter.
  Context {P : Type} (ops : pgmops P) (kmax : Z).

  (* insert() opens a new level exactly when the buffer is full and no used level has room (the target
     search of insert() stops at used_levels), or when the very first item enters an empty container *)
  Definition used_after (d : @dyn P) (x : item) : Z :=
    match level d (d_min_level d) with
    | Ok buf =>
        match level_lookup buf (it_key x) with
        | Some _ => d_used d
        | None =>
            if zlen buf <? d_buffer_max d
            then (if d_used d =? d_min_level d then d_min_level d + 1 else d_used d)
            else match find_target d 300 (d_min_level d + 1) (d_buffer_max d + 1) with
                 | Ok (i, _) => if i =? d_used d then d_used d + 1 else d_used d
                 | Err _ => d_used d
                 end
        end
    | Err _ => d_used d
    end.

  Lemma used_after_range d x : d_used d <= used_after d x <= d_used d + 1.
  Proof.
    unfold used_after. destruct (level d (d_min_level d)) as [buf|e]; [|lia].
    destruct (level_lookup buf (it_key x)); [lia|].
    destruct (zlen buf <? d_buffer_max d).
    - destruct (d_used d =? d_min_level d) eqn:E; lia.
    - destruct (find_target d 300 _ _) as [[i s]|e]; [|lia]. destruct (i =? d_used d); lia.
  Qed.

  Lemma insert_used_base d x d' :
    Inv ops kmax d -> size_ok d -> insert ops d x = Ok d' ->
    d_base d' = d_base d /\ d_used d' = used_after d x.
  Proof.
    intros HI Hsz H. apply (insert_cases ops kmax) in H; [|exact HI].
    pose proof (wf_levels_order ops d (iv_wf _ _ d HI)) as [Ho _].
    pose proof (iv_used _ _ d HI) as Hu. unfold size_ok in Hsz. unfold used_after.
    destruct H as [buf e Hb Hn He Hset | buf d1 Hb Hn Hz Hset -> | buf i sr Hb Hn Hfull Hf Hpm]; rewrite Hb.
    - pose proof (Inv_sorted ops kmax d _ buf HI Hb) as Hs.
      rewrite (lbk_nth buf (it_key x) Hs), Hn. replace (it_key e =? it_key x) with true by lia.
      destruct (set_level_spec d _ _ d' Hset) as ((E1 & _) & E2 & _). split; [exact E1|exact E2].
    - rewrite Hn. replace (zlen buf <? d_buffer_max d) with true by lia.
      destruct (set_level_spec d _ _ d1 Hset) as ((E1 & _) & E2 & _). cbn [set_used d_base d_used].
      split; [exact E1|reflexivity].
    - rewrite Hn. replace (zlen buf <? d_buffer_max d) with false by lia. rewrite Hf.
      destruct (merge_case_facts ops kmax d buf i sr HI Hb Hfull Hf) as [Hmu [Hi _]].
      assert (Em : d_min_level (grow ops d i) = d_min_level d) by (unfold grow; destruct (i =? d_used d); reflexivity).
      destruct (pairwise_merge_spec ops (grow ops d i) x i _ d' ltac:(rewrite Em; lia) ltac:(lia) Hpm)
        as (buf' & lt & out & _ & _ & Hrest).
      cbv zeta in Hrest. destruct Hrest as (_ & _ & (E1 & _) & E2 & _).
      rewrite E1, E2. unfold grow. destruct (i =? d_used d) eqn:E.
      + cbn [d_base d_used set_used]. split; [reflexivity|].
        rewrite wrapU_small by (change (2 ^ 8) with 256; lia). reflexivity.
      + split; reflexivity.
  Qed.
End UsedAfter.

(* the capacity guard, checkable BEFORE the step: the capacity 2^(used_levels * ceil_log2 base) that the
   levels in use will have AFTER the step is at most N *)
Definition cap_after {P} (N : Z) (d : @dyn P) (x : item) : Prop :=
  2 ^ (used_after d x * ceil_log2 (d_base d)) <= N.
(* a simpler sufficient form: room for one more level *)
Definition cap_next {P} (N : Z) (d : @dyn P) : Prop :=
  2 ^ ((d_used d + 1) * ceil_log2 (d_base d)) <= N.

Lemma cap_next_after {P} N (d : @dyn P) x : 0 <= ceil_log2 (d_base d) -> cap_next N d -> cap_after N d x.
Proof.
  unfold cap_next, cap_after. intros Hb H. pose proof (used_after_range d x) as Hr.
  assert (2 ^ (used_after d x * ceil_log2 (d_base d)) <= 2 ^ ((d_used d + 1) * ceil_log2 (d_base d))).
  { destruct (Z_lt_dec (used_after d x * ceil_log2 (d_base d)) 0) as [Hn|Hn].
    - rewrite Z.pow_neg_r by exact Hn. apply Z.pow_nonneg. lia.
    - apply Z.pow_le_mono_r; [lia|nia]. }
  lia.
Qed.

(* cap_after is exactly capN of the result *)
Lemma cap_after_exact {P} (ops : pgmops P) kmax N (d : @dyn P) x d' :
  Inv ops kmax d -> size_ok d -> insert ops d x = Ok d' -> (cap_after N d x <-> capN N d').
Proof.
  intros HI Hsz H. destruct (insert_used_base ops kmax d x d' HI Hsz H) as [E1 E2].
  unfold cap_after, capN. rewrite E1, E2. reflexivity.
Qed.

(* the guard on the next state bounds the present one: no separate size_ok / sizes_ok premise is needed *)
Lemma cap_after_sizes {P} (ops : pgmops P) kmax N (d : @dyn P) x :
  Inv ops kmax d -> N <= 2 ^ 30 -> cap_after N d x -> capN N d /\ size_ok d /\ sizes_ok d.
Proof.
  intros HI HN H. unfold cap_after in H. pose proof (used_after_range d x) as Hr.
  pose proof (iv_b _ _ d HI) as Hb.
  pose proof (wf_levels_order ops d (iv_wf _ _ d HI)) as [Ho _].
  pose proof (wf_levels_len ops d (iv_wf _ _ d HI)) as [Hl _].
  assert (Hm : 2 ^ (d_used d * ceil_log2 (d_base d)) <= 2 ^ (used_after d x * ceil_log2 (d_base d)))
    by (apply Z.pow_le_mono_r; [lia|nia]).
  assert (He : d_used d * ceil_log2 (d_base d) <= 30).
  { apply (Z.pow_le_mono_r_iff 2); [lia|lia|lia]. }
  unfold capN, size_ok, sizes_ok. repeat split; try lia; nia.
Qed.

(* ---------------- (C) the constructors never fail on valid arguments (abstract index) ---------------- *)
(* pairs sorted by key, equal keys allowed (the first of equal keys wins) *)
Fixpoint nondecr (prev : Z) (l : list (Z * Z)) : Prop :=
  match l with
  | [] => True
  | (k, _) :: t => prev <= k /\ nondecr k t
  end.
Definition pairs_sorted (l : list (Z * Z)) : Prop :=
  match l with [] => True | (k0, _) :: t => nondecr k0 t end.

Lemma dedup_sorted_total : forall l prev, nondecr prev l -> exists r, dedup_sorted prev l = Ok r.
Proof.
  induction l as [|[k v] l IH]; intros prev H; [cbn; eauto|].
  destruct H as [H1 H2]. cbn [dedup_sorted]. replace (k <? prev) with false by lia.
  destruct (k =? prev) eqn:E.
  - apply IH. assert (k = prev) by lia. subst k. exact H2.
  - destruct (IH k H2) as [r Hr]. rewrite Hr. cbn [bind]. eauto.
Qed.

(* used_levels of the state built by the bulk-load constructor *)
Definition bulk_final_used (base bl : Z) (pairs : list (Z * Z)) : Z :=
  match pairs with [] => dyn_min_level base bl | _ :: _ => bulk_used base bl (zlen pairs) end.

Lemma dyn_ctor_total {P} tomb kmax base bl il :
  2 <= base -> Z.land base (base - 1) = 0 -> exists d : @dyn P, dyn_ctor tomb kmax base bl il = Ok d.
Proof.
  intros Hb Hl. unfold dyn_ctor. replace (base <? 2) with false by lia. cbn [andb].
  rewrite Hl. cbn [Z.eqb negb]. eauto.
Qed.

(* conversely, a successful constructor call had a base that is a power of two *)
Lemma dyn_ctor_args {P} tomb kmax base bl il (d : @dyn P) :
  dyn_ctor tomb kmax base bl il = Ok d -> 2 <= base /\ Z.land base (base - 1) = 0.
Proof.
  unfold dyn_ctor. intros H.
  destruct ((base <? 2) && ((bl =? 0) || (il =? 0))); [discriminate|].
  destruct (base <? 2) eqn:E; [discriminate|].
  destruct (Z.land base (base - 1) =? 0) eqn:E2; cbn [negb] in H; [|discriminate]. lia.
Qed.

Section BulkTotal.
  Context {P : Type} (ops : pgmops P) (kmax : Z).
  Hypothesis Hc : pgm_contract ops kmax.

  Lemma dyn_bulk_used_base tomb pairs base bl il d :
    dyn_bulk ops tomb kmax pairs base bl il = Ok d ->
    d_base d = base /\ d_used d = bulk_final_used base bl pairs.
  Proof.
    intros H. apply (dyn_bulk_cases ops kmax) in H. destruct H as [_ H].
    destruct H as [Hnil Hd | k0 v0 tl rest d2 Hp Hdd used items Hset Hfin].
    - subst. split; reflexivity.
    - apply set_level_spec in Hset. destruct Hset as [[Hc1 _] [Hu2 _]].
      unfold bulk_d1 in Hc1, Hu2. cbn [d_base d_used] in Hc1, Hu2.
      assert (Hfu : bulk_final_used base bl pairs = used) by (subst pairs; reflexivity).
      rewrite Hfu. destruct (has_pgm d2 (used - 1)).
      + destruct Hfin as [p [_ Hsp]]. apply set_pgm_spec in Hsp. destruct Hsp as [[Hd1 _] [Hdu _]].
        unfold bulk_d3 in Hd1, Hdu. cbn [d_base d_used] in Hd1, Hdu. subst used. split; congruence.
      + subst d. split; assumption.
  Qed.

  Theorem dyn_bulk_total tomb pairs base bl il :
    2 <= base -> Z.land base (base - 1) = 0 -> bulk_ok base bl il pairs ->
    pairs_sorted pairs -> Forall (fun p => fst p < kmax) pairs ->
    Forall (fun p => tomb <> Some (snd p)) pairs ->
    exists d, dyn_bulk ops tomb kmax pairs base bl il = Ok d.
  Proof.
    intros Hb Hl [Hcok Hn] Hs Hk Hv. unfold dyn_bulk.
    destruct (@dyn_ctor_total P tomb kmax base bl il Hb Hl) as [d0 E0]. rewrite E0. cbn [bind].
    apply dyn_ctor_eq in E0. destruct E0 as [_ E0]. cbv zeta in E0. subst d0.
    cbn [d_base d_min_level d_min_index_level d_buffer_max d_used d_levels d_pgms d_tomb d_kmax].
    destruct pairs as [|[k0 v0] tl]; [eauto|].
    assert (Hn0 : 0 <= zlen ((k0, v0) :: tl) < 2 ^ 64) by (unfold zlen in *; lia).
    destruct (bulk_params base bl il _ Hb Hcok Hn0) as [Hbb [Hml [Hmil [Hu [Hur [Hcap Hnl]]]]]].
    unfold bulk_used in Hu, Hur, Hcap, Hnl.
    set (used := wrapU 8 (Z.max (dyn_ceil_log_base base (zlen ((k0, v0) :: tl))) (dyn_min_level base bl) + 1)) in *.
    destruct (dedup_sorted_total tl k0 Hs) as [rest Hd]. rewrite Hd. cbn [bind].
    destruct (dedup_sorted_spec tl k0 rest Hd) as [Hf [Hsr [Hz [Hin _]]]].
    set (items := mkItem k0 (Some v0) :: rest).
    assert (Hcv : check_values tomb items = false).
    { unfold check_values. destruct tomb as [t|]; [|reflexivity].
      destruct (existsb _ items) eqn:Ee; [|reflexivity]. exfalso.
      apply existsb_exists in Ee. destruct Ee as (e & He & Hev).
      rewrite Forall_forall in Hv. destruct He as [<-|He].
      - cbn in Hev. apply (Hv (k0, v0)); [left; reflexivity|]. cbn. f_equal. lia.
      - destruct (Hin e He) as (v & Hi & Hval). rewrite Hval in Hev.
        apply (Hv (it_key e, v)); [right; exact Hi|]. cbn. f_equal. lia. }
    rewrite Hcv.
    match goal with |- context [set_level ?a ?b ?l] => destruct (set_level_total a b l) as [d2 E2] end.
    { cbn [d_min_level d_levels]. unfold zlen. rewrite repeat_length. lia. }
    rewrite E2. cbn [bind]. destruct (set_level_spec _ _ _ _ E2) as [[_ [_ [Hc3 _]]] _].
    cbn [d_min_index_level] in Hc3.
    destruct (has_pgm d2 (used - 1)) eqn:Eh; [|eauto].
    destruct (pc_build ops kmax Hc (map it_key items)) as [p Hp].
    - discriminate.
    - apply isrt_iff. cbn [isrt]. split; assumption.
    - apply Forall_forall. intros kk Hkk. apply in_map_iff in Hkk. destruct Hkk as (e & <- & He).
      rewrite Forall_forall in Hk. destruct He as [<-|He]; [exact (Hk (k0, v0) (or_introl eq_refl))|].
      destruct (Hin e He) as (v & Hi & _). exact (Hk (it_key e, v) (or_intror Hi)).
    - rewrite Hp. cbn [bind]. apply set_pgm_total. cbn [d_min_index_level d_pgms].
      unfold has_pgm in Eh. unfold zlen. rewrite repeat_length. lia.
  Qed.
End BulkTotal.

(* ---------------- (D) totality over idx_ops, levels of at most N keys ---------------- *)
Section TotalN.
  Variables N0 N : Z.
  Hypothesis HN0 : 0 <= N.
  Hypothesis HN : N <= 2 ^ 30.
  Hypothesis HNN : N0 <= N.
  Variable c : cfg.
  Hypothesis Hc : idx_ok c.
  Hypothesis Hf : float_ok_cap_valid_on c N.
  Hypothesis Hsm : cfg_small c.

  Let Hcon : pgm_contract (gopsN N c) (sentinel c) := gops_contractN N HN c Hc Hf (build_ok_holds c Hc Hsm).
  Let Hnil : pg_build (gopsN N c) [] = Ok (pg_empty (gopsN N c)) := gops_build_nilN N HN0 c.
  Let Hemp := gops_HemptyN N HN0 c.
  Let Qt := fun e : item => in_ktype (c_kt c) (it_key e) = true.

  Lemma thistN_InvG d m : thistN N0 c d m -> DynCoreInv.Inv (gopsN N c) (sentinel c) d /\ itemsQ Qt d.
  Proof.
    intros Hh. destruct (thistN_ihistN N c d m (thistN_mono N0 N c d m HNN Hh)) as [Hi Hq].
    split; [|exact Hq].
    exact (ghist_Inv (gopsN N c) (sentinel c) Hemp d m (ihist_ghist_gN N c d m Hi)).
  Qed.

  (* one step of insert(): Ok, and the result stays within the capacity *)
  Lemma insert_item_total_N d m x :
    thistN N0 c d m -> in_ktype (c_kt c) (it_key x) = true -> it_key x < sentinel c -> cap_after N0 d x ->
    exists d', insert (idx_ops c) d x = Ok d' /\ capN N0 d' /\ size_ok d.
  Proof.
    intros Hh Hkt Hk Hcap. destruct (thistN_InvG d m Hh) as [HI Hq].
    destruct (cap_after_sizes (gopsN N c) (sentinel c) N0 d x HI ltac:(lia) Hcap) as (_ & Hsz & Hszs).
    destruct (DynCoreTotal.insert_item_total (gopsN N c) (sentinel c) Hcon Hnil d x HI Hsz Hszs Hk) as [d' H].
    pose proof (insert_Inv (gopsN N c) (sentinel c) Hemp d x d' HI Hsz Hk H) as HI'.
    pose proof (itemsQ_insert (gopsN N c) (sentinel c) Qt d x d' HI Hsz Hq Hkt H) as Hq'.
    pose proof (proj1 (cap_after_exact (gopsN N c) (sentinel c) N0 d x d' HI Hsz H) Hcap) as Hcap'.
    pose proof (level_goodN_of (gopsN N c) c (sentinel c) N d' HI' (capN_mono N0 N d' HNN Hcap') Hq') as Hg.
    exists d'. split; [exact (insert_backN N c d x d' H Hg)|]. split; assumption.
  Qed.

  Theorem insert_total_N d m k v :
    thistN N0 c d m -> in_ktype (c_kt c) k = true -> k < sentinel c -> d_tomb d <> Some v ->
    cap_after N0 d (mkItem k (Some v)) ->
    exists d', insert_or_assign (idx_ops c) d k v = Ok d' /\ thistN N0 c d' (am_insert k v m).
  Proof.
    intros Hh Hkt Hk Hv Hcap.
    destruct (insert_item_total_N d m (mkItem k (Some v)) Hh Hkt Hk Hcap) as (d' & H & Hcap' & Hsz).
    assert (E : insert_or_assign (idx_ops c) d k v = Ok d').
    { unfold insert_or_assign.
      replace (match d_tomb d with Some t => v =? t | None => false end) with false; [exact H|].
      destruct (d_tomb d) as [t|]; [|reflexivity]. destruct (v =? t) eqn:E; [|reflexivity].
      exfalso. apply Hv. f_equal. lia. }
    exists d'. split; [exact E|]. exact (th_insN N0 c d m k v d' Hh Hsz Hkt Hk E Hcap').
  Qed.

  Theorem erase_total_N d m k :
    thistN N0 c d m -> in_ktype (c_kt c) k = true -> k < sentinel c -> cap_after N0 d (mkItem k None) ->
    exists d', erase (idx_ops c) d k = Ok d' /\ thistN N0 c d' (am_erase k m).
  Proof.
    intros Hh Hkt Hk Hcap.
    destruct (insert_item_total_N d m (mkItem k None) Hh Hkt Hk Hcap) as (d' & H & Hcap' & Hsz).
    exists d'. split; [exact H|]. exact (th_delN N0 c d m k d' Hh Hsz Hkt Hk H Hcap').
  Qed.

  Theorem ctor_total_N tomb base bl il :
    ctor_ok base bl il -> 2 <= base -> Z.land base (base - 1) = 0 ->
    exists d, dyn_ctor tomb (sentinel c) base bl il = Ok d /\ thistN N0 c d [] /\
      d_base d = base /\ d_used d = dyn_min_level base bl.
  Proof.
    intros Hok Hb Hl. destruct (@dyn_ctor_total index tomb (sentinel c) base bl il Hb Hl) as [d E].
    exists d. split; [exact E|]. split; [exact (th_ctorN N0 c tomb base bl il d Hok E)|].
    apply dyn_ctor_eq in E. destruct E as [_ E]. cbv zeta in E. subst d. split; reflexivity.
  Qed.

  (* the capacity guard of the bulk-load constructor, from its arguments alone *)
  Definition bulk_cap (base bl : Z) (pairs : list (Z * Z)) : Prop :=
    2 ^ (bulk_final_used base bl pairs * ceil_log2 base) <= N0.

  Theorem bulk_total_N tomb pairs base bl il :
    bulk_ok base bl il pairs -> 2 <= base -> Z.land base (base - 1) = 0 ->
    pairs_sorted pairs ->
    Forall (fun p => in_ktype (c_kt c) (fst p) = true) pairs -> Forall (fun p => fst p < sentinel c) pairs ->
    Forall (fun p => tomb <> Some (snd p)) pairs -> bulk_cap base bl pairs ->
    exists d, dyn_bulk (idx_ops c) tomb (sentinel c) pairs base bl il = Ok d /\ thistN N0 c d (am_bulk pairs) /\
      d_base d = base /\ d_used d = bulk_final_used base bl pairs.
  Proof.
    intros Hok Hb Hl Hs Hkt Hk Hv Hcap.
    destruct (dyn_bulk_total (gopsN N c) (sentinel c) Hcon tomb pairs base bl il Hb Hl Hok Hs Hk Hv) as [d H].
    destruct (dyn_bulk_used_base (gopsN N c) (sentinel c) tomb pairs base bl il d H) as [E1 E2].
    pose proof (bulk_Inv (gopsN N c) (sentinel c) tomb pairs base bl il d Hok Hk H) as HI.
    pose proof (itemsQ_bulk (gopsN N c) (fun k => in_ktype (c_kt c) k = true) tomb (sentinel c) pairs base bl il d Hkt H) as Hq.
    assert (Hcap' : capN N0 d) by (unfold capN; rewrite E1, E2; exact Hcap).
    pose proof (level_goodN_of (gopsN N c) c (sentinel c) N d HI (capN_mono N0 N d HNN Hcap') Hq) as Hg.
    pose proof (dyn_bulk_backN N c tomb (sentinel c) pairs base bl il d H Hg) as E.
    exists d. split; [exact E|]. split; [|split; assumption].
    exact (th_bulkN N0 c tomb pairs base bl il d Hok Hkt Hk E Hcap').
  Qed.
End TotalN.

(* ---------------- (E) float or double: shist ---------------- *)
Section TotalStd.
  Variable c : cfg.
  Hypothesis Hc : idx_ok c.
  Hypothesis Hsm : cfg_small c.
  Hypothesis W : std_width c.

  Let HN0 := Z.le_max_l 0 (lim_std c).
  Let HN := maxlim_le c Hc.
  Let HNN := Z.le_max_r 0 (lim_std c).
  Let Hf := float_ok_cap_valid_on_std c Hc Hsm W.

  (* insert_or_assign(k, v) returns; the guard is evaluated on the state BEFORE the call *)
  Theorem insert_total_std d m k v :
    shist c d m -> in_ktype (c_kt c) k = true -> k < sentinel c -> d_tomb d <> Some v ->
    cap_after (lim_std c) d (mkItem k (Some v)) ->
    exists d', insert_or_assign (idx_ops c) d k v = Ok d' /\ shist c d' (am_insert k v m).
  Proof. exact (insert_total_N _ _ HN0 HN HNN c Hc Hf Hsm d m k v). Qed.

  Theorem erase_total_std d m k :
    shist c d m -> in_ktype (c_kt c) k = true -> k < sentinel c ->
    cap_after (lim_std c) d (mkItem k None) ->
    exists d', erase (idx_ops c) d k = Ok d' /\ shist c d' (am_erase k m).
  Proof. exact (erase_total_N _ _ HN0 HN HNN c Hc Hf Hsm d m k). Qed.

  (* the same with the simpler sufficient guard: room for one more level *)
  Corollary insert_total_std_next d m k v :
    shist c d m -> in_ktype (c_kt c) k = true -> k < sentinel c -> d_tomb d <> Some v ->
    cap_next (lim_std c) d ->
    exists d', insert_or_assign (idx_ops c) d k v = Ok d' /\ shist c d' (am_insert k v m).
  Proof.
    intros Hh Hkt Hk Hv Hcap. apply insert_total_std; try assumption.
    destruct (thistN_InvG _ _ HN0 HNN c d m Hh) as [HI _].
    apply cap_next_after; [|exact Hcap]. apply Z.le_trans with 1; [easy|exact (iv_b _ _ d HI)].
  Qed.

  Corollary erase_total_std_next d m k :
    shist c d m -> in_ktype (c_kt c) k = true -> k < sentinel c -> cap_next (lim_std c) d ->
    exists d', erase (idx_ops c) d k = Ok d' /\ shist c d' (am_erase k m).
  Proof.
    intros Hh Hkt Hk Hcap. apply erase_total_std; try assumption.
    destruct (thistN_InvG _ _ HN0 HNN c d m Hh) as [HI _].
    apply cap_next_after; [|exact Hcap]. apply Z.le_trans with 1; [easy|exact (iv_b _ _ d HI)].
  Qed.

  Theorem ctor_total_std tomb base bl il :
    ctor_ok base bl il -> 2 <= base -> Z.land base (base - 1) = 0 ->
    exists d, dyn_ctor tomb (sentinel c) base bl il = Ok d /\ shist c d [] /\
      d_base d = base /\ d_used d = dyn_min_level base bl.
  Proof. exact (ctor_total_N (lim_std c) c tomb base bl il). Qed.

  Theorem bulk_total_std tomb pairs base bl il :
    bulk_ok base bl il pairs -> 2 <= base -> Z.land base (base - 1) = 0 ->
    pairs_sorted pairs ->
    Forall (fun p => in_ktype (c_kt c) (fst p) = true) pairs -> Forall (fun p => fst p < sentinel c) pairs ->
    Forall (fun p => tomb <> Some (snd p)) pairs -> bulk_cap (lim_std c) base bl pairs ->
    exists d, dyn_bulk (idx_ops c) tomb (sentinel c) pairs base bl il = Ok d /\ shist c d (am_bulk pairs) /\
      d_base d = base /\ d_used d = bulk_final_used base bl pairs.
  Proof. exact (bulk_total_N _ _ HN HNN c Hc Hf Hsm tomb pairs base bl il). Qed.
End TotalStd.

(* ---------------- (F) finite lists of operations ---------------- *)
Inductive op := OpIns (k v : Z) | OpDel (k : Z).

Definition op_key (o : op) : Z := match o with OpIns k _ => k | OpDel k => k end.
Definition op_item (o : op) : item := match o with OpIns k v => mkItem k (Some v) | OpDel k => mkItem k None end.
Definition run_step (c : cfg) (d : @dyn index) (o : op) : res (@dyn index) :=
  match o with OpIns k v => insert_or_assign (idx_ops c) d k v | OpDel k => erase (idx_ops c) d k end.
Definition am_step (o : op) (m : amap) : amap :=
  match o with OpIns k v => am_insert k v m | OpDel k => am_erase k m end.

(* the container and the abstract map, run through a list of operations *)
Definition run (c : cfg) (os : list op) (r : res (@dyn index)) : res (@dyn index) :=
  fold_left (fun r o => bind r (fun d => run_step c d o)) os r.
Definition am_run (os : list op) (m : amap) : amap := fold_left (fun m o => am_step o m) os m.

(* what is asked of one operation, decided on the state BEFORE it: the key is a value of K other than
   max K, the mapped value is not the reserved one, and the capacity after the step is at most N *)
Definition cap_afterb {P} (N : Z) (d : @dyn P) (x : item) : bool :=
  2 ^ (used_after d x * ceil_log2 (d_base d)) <=? N.
Definition val_okb {P} (d : @dyn P) (o : op) : bool :=
  match o, d_tomb d with OpIns _ v, Some t => negb (v =? t) | _, _ => true end.
Definition op_okb (c : cfg) (N : Z) (d : @dyn index) (o : op) : bool :=
  in_ktype (c_kt c) (op_key o) && (op_key o <? sentinel c) && val_okb d o && cap_afterb N d (op_item o).

(* the guard of a whole list: every operation is acceptable in the state the run has reached.  It asks
   nothing about the result of a step (an Err would end the checking with `true`) *)
Fixpoint guardb (c : cfg) (N : Z) (d : @dyn index) (os : list op) : bool :=
  match os with
  | [] => true
  | o :: rest => op_okb c N d o && match run_step c d o with Ok d' => guardb c N d' rest | Err _ => true end
  end.

Lemma op_okb_spec c N d o : op_okb c N d o = true <->
  in_ktype (c_kt c) (op_key o) = true /\ op_key o < sentinel c /\
  (forall v, o = OpIns (op_key o) v -> d_tomb d <> Some v) /\ cap_after N d (op_item o).
Proof.
  unfold op_okb, cap_afterb, cap_after, val_okb. rewrite !andb_true_iff. split.
  - intros [[[H1 H2] H3] H4]. repeat split; try assumption; try lia.
    intros v Ho Ht. destruct o as [k v0|k]; [|discriminate]. injection Ho as <-.
    rewrite Ht in H3. rewrite Z.eqb_refl in H3. discriminate.
  - intros (H1 & H2 & H3 & H4). repeat split; try assumption; try lia.
    destruct o as [k v|k]; [|reflexivity]. destruct (d_tomb d) as [t|] eqn:Et; [|reflexivity].
    destruct (v =? t) eqn:E; [|reflexivity]. exfalso. apply (H3 v eq_refl). f_equal. lia.
Qed.

Lemma run_cons c o os r : run c (o :: os) r = run c os (bind r (fun d => run_step c d o)).
Proof. reflexivity. Qed.
Lemma run_app c os1 os2 r : run c (os1 ++ os2) r = run c os2 (run c os1 r).
Proof. unfold run. apply fold_left_app. Qed.
Lemma run_err c os e : run c os (Err e) = Err e.
Proof. induction os as [|o os IH]; [reflexivity|]. rewrite run_cons. exact IH. Qed.
Lemma am_run_app os1 os2 m : am_run (os1 ++ os2) m = am_run os2 (am_run os1 m).
Proof. unfold am_run. apply fold_left_app. Qed.

Lemma guardb_firstn c N : forall os d n, guardb c N d os = true -> guardb c N d (firstn n os) = true.
Proof.
  induction os as [|o os IH]; intros d n H; [destruct n; reflexivity|].
  destruct n; [reflexivity|]. cbn [firstn guardb] in *. apply andb_prop in H. destruct H as [H1 H2].
  rewrite H1. cbn [andb]. destruct (run_step c d o) as [d'|e]; [|reflexivity]. exact (IH d' n H2).
Qed.

Lemma guardb_snoc c N : forall os d0 d o, guardb c N d0 os = true -> run c os (Ok d0) = Ok d ->
  op_okb c N d o = true -> guardb c N d0 (os ++ [o]) = true.
Proof.
  induction os as [|o1 os IH]; intros d0 d o Hg Hr Ho.
  - cbn in Hr. injection Hr as <-. cbn [app guardb]. rewrite Ho. destruct (run_step c d0 o); reflexivity.
  - cbn [app guardb] in *. apply andb_prop in Hg. destruct Hg as [H1 H2]. rewrite H1. cbn [andb].
    rewrite run_cons in Hr. cbn [bind] in Hr. destruct (run_step c d0 o1) as [d1|e].
    + exact (IH d1 d o H2 Hr Ho).
    + rewrite run_err in Hr. discriminate.
Qed.

Section RunN.
  Variables N0 N : Z.
  Hypothesis HN0 : 0 <= N.
  Hypothesis HN : N <= 2 ^ 30.
  Hypothesis HNN : N0 <= N.
  Variable c : cfg.
  Hypothesis Hc : idx_ok c.
  Hypothesis Hf : float_ok_cap_valid_on c N.
  Hypothesis Hsm : cfg_small c.

  (* one guarded operation returns *)
  Lemma step_total_N d m o :
    thistN N0 c d m -> op_okb c N0 d o = true ->
    exists d', run_step c d o = Ok d' /\ thistN N0 c d' (am_step o m).
  Proof.
    intros Hh Ho. apply op_okb_spec in Ho. destruct Ho as (H1 & H2 & H3 & H4).
    destruct o as [k v|k]; cbn [run_step am_step op_key op_item] in *.
    - exact (insert_total_N N0 N HN0 HN HNN c Hc Hf Hsm d m k v Hh H1 H2 (H3 v eq_refl) H4).
    - exact (erase_total_N N0 N HN0 HN HNN c Hc Hf Hsm d m k Hh H1 H2 H4).
  Qed.

  (* every guarded finite list of operations returns Ok, and the result is a typed history of the
     abstract map run through the same list *)
  Theorem thistN_run : forall os d m,
    thistN N0 c d m -> guardb c N0 d os = true ->
    exists d', run c os (Ok d) = Ok d' /\ thistN N0 c d' (am_run os m).
  Proof.
    induction os as [|o os IH]; intros d m Hh Hg; [exists d; split; [reflexivity|exact Hh]|].
    cbn [guardb] in Hg. apply andb_prop in Hg. destruct Hg as [Ho Hg].
    destruct (step_total_N d m o Hh Ho) as (d1 & E1 & Hh1). rewrite E1 in Hg.
    destruct (IH d1 (am_step o m) Hh1 Hg) as (d' & E & Hh').
    exists d'. split; [|exact Hh']. rewrite run_cons. cbn [bind]. rewrite E1. exact E.
  Qed.

  (* ... at every step: the same for every prefix of the list *)
  Corollary thistN_run_steps os d m n :
    thistN N0 c d m -> guardb c N0 d os = true ->
    exists dn, run c (firstn n os) (Ok d) = Ok dn /\ thistN N0 c dn (am_run (firstn n os) m).
  Proof. intros Hh Hg. apply thistN_run; [exact Hh|]. apply guardb_firstn. exact Hg. Qed.
End RunN.

(* conversely: every typed history is a guarded run from a state made by a constructor *)
Inductive sbaseN (N : Z) (c : cfg) : @dyn index -> amap -> Prop :=
| sb_ctor : forall tomb base bl il d,
    ctor_ok base bl il -> dyn_ctor tomb (sentinel c) base bl il = Ok d -> sbaseN N c d []
| sb_bulk : forall tomb pairs base bl il d,
    bulk_ok base bl il pairs ->
    Forall (fun p => in_ktype (c_kt c) (fst p) = true) pairs -> Forall (fun p => fst p < sentinel c) pairs ->
    dyn_bulk (idx_ops c) tomb (sentinel c) pairs base bl il = Ok d -> capN N d ->
    sbaseN N c d (am_bulk pairs).

Lemma sbaseN_thistN N c d m : sbaseN N c d m -> thistN N c d m.
Proof. destruct 1; [eapply th_ctorN|eapply th_bulkN]; eassumption. Qed.

Lemma thistN_InvI N c d m : thistN N c d m -> DynCoreInv.Inv (idx_ops c) (sentinel c) d.
Proof.
  intros Hh. destruct (thistN_ihistN N c d m Hh) as [Hi _].
  exact (ghist_Inv (idx_ops c) (sentinel c) (idx_Hempty c) d m (ihist_ghistN N c d m Hi)).
Qed.

Theorem thistN_is_run N c d m : thistN N c d m ->
  exists d0 m0 os, sbaseN N c d0 m0 /\ guardb c N d0 os = true /\ run c os (Ok d0) = Ok d /\ m = am_run os m0.
Proof.
  induction 1 as [tomb base bl il d Hok Hd | tomb pairs base bl il d Hb Hk1 Hk2 Hd Hcap
                  | d m k v d' Hh IH Hsz Hk1 Hk2 Hi Hcap | d m k d' Hh IH Hsz Hk1 Hk2 Hi Hcap].
  - exists d, [], []. repeat split; try reflexivity. eapply sb_ctor; eassumption.
  - exists d, (am_bulk pairs), []. repeat split; try reflexivity. eapply sb_bulk; eassumption.
  - destruct IH as (d0 & m0 & os & Hb & Hg & Hr & ->). exists d0, m0, (os ++ [OpIns k v]).
    pose proof (thistN_InvI N c d _ Hh) as HI.
    assert (Hins : insert (idx_ops c) d (mkItem k (Some v)) = Ok d' /\ val_okb d (OpIns k v) = true).
    { unfold insert_or_assign in Hi. unfold val_okb.
      destruct (d_tomb d) as [t|]; [|split; [exact Hi|reflexivity]].
      destruct (v =? t); [discriminate|]. split; [exact Hi|reflexivity]. }
    destruct Hins as [Hins Hv].
    assert (Ho : op_okb c N d (OpIns k v) = true).
    { unfold op_okb. cbn [op_key op_item]. rewrite Hk1, Hv. cbn [andb]. replace (k <? sentinel c) with true by lia.
      cbn [andb]. unfold cap_afterb.
      pose proof (proj2 (cap_after_exact (idx_ops c) (sentinel c) N d _ d' HI Hsz Hins) Hcap) as Hca.
      unfold cap_after in Hca. lia. }
    split; [exact Hb|]. split; [exact (guardb_snoc c N os d0 d _ Hg Hr Ho)|]. split.
    + rewrite run_app, Hr. cbn. exact Hi.
    + rewrite am_run_app. reflexivity.
  - destruct IH as (d0 & m0 & os & Hb & Hg & Hr & ->). exists d0, m0, (os ++ [OpDel k]).
    pose proof (thistN_InvI N c d _ Hh) as HI.
    assert (Ho : op_okb c N d (OpDel k) = true).
    { unfold op_okb, val_okb. cbn [op_key op_item]. rewrite Hk1. cbn [andb]. replace (k <? sentinel c) with true by lia.
      cbn [andb]. unfold cap_afterb.
      pose proof (proj2 (cap_after_exact (idx_ops c) (sentinel c) N d _ d' HI Hsz Hi) Hcap) as Hca.
      unfold cap_after in Hca. lia. }
    split; [exact Hb|]. split; [exact (guardb_snoc c N os d0 d _ Hg Hr Ho)|]. split.
    + rewrite run_app, Hr. cbn. exact Hi.
    + rewrite am_run_app. reflexivity.
Qed.

(* ---------------- (G) the statements for shist (Floating = float or double) ---------------- *)
(* starting points of a history: the two constructors *)
Inductive start :=
| SCtor (tomb : option Z) (base bl il : Z)
| SBulk (tomb : option Z) (pairs : list (Z * Z)) (base bl il : Z).

Definition start_run (c : cfg) (s : start) : res (@dyn index) :=
  match s with
  | SCtor tomb base bl il => dyn_ctor tomb (sentinel c) base bl il
  | SBulk tomb pairs base bl il => dyn_bulk (idx_ops c) tomb (sentinel c) pairs base bl il
  end.
Definition start_map (s : start) : amap :=
  match s with SCtor _ _ _ _ => [] | SBulk _ pairs _ _ _ => am_bulk pairs end.
(* valid constructor arguments: levels in range, base a power of two >= 2; for the bulk load sorted pairs
   of typed keys below max K, no reserved mapped value, and the capacity of the state it builds within N *)
Definition start_ok (c : cfg) (N : Z) (s : start) : Prop :=
  match s with
  | SCtor tomb base bl il => ctor_ok base bl il /\ 2 <= base /\ Z.land base (base - 1) = 0
  | SBulk tomb pairs base bl il =>
      bulk_ok base bl il pairs /\ 2 <= base /\ Z.land base (base - 1) = 0 /\ pairs_sorted pairs /\
      Forall (fun p => in_ktype (c_kt c) (fst p) = true) pairs /\ Forall (fun p => fst p < sentinel c) pairs /\
      Forall (fun p => tomb <> Some (snd p)) pairs /\ bulk_cap N base bl pairs
  end.

Section RunStd.
  Variable c : cfg.
  Hypothesis Hc : idx_ok c.
  Hypothesis Hsm : cfg_small c.
  Hypothesis W : std_width c.

  Let HN0 := Z.le_max_l 0 (lim_std c).
  Let HN := maxlim_le c Hc.
  Let HNN := Z.le_max_r 0 (lim_std c).
  Let Hf := float_ok_cap_valid_on_std c Hc Hsm W.

  (* every finite list of typed operations that keeps the capacity guard yields Ok; the guard of each
     operation is evaluated on the state before it *)
  Theorem shist_run os d m :
    shist c d m -> guardb c (lim_std c) d os = true ->
    exists d', run c os (Ok d) = Ok d' /\ shist c d' (am_run os m).
  Proof. exact (thistN_run _ _ HN0 HN HNN c Hc Hf Hsm os d m). Qed.

  (* ... at every step *)
  Theorem shist_run_steps os d m n :
    shist c d m -> guardb c (lim_std c) d os = true ->
    exists dn, run c (firstn n os) (Ok d) = Ok dn /\ shist c dn (am_run (firstn n os) m).
  Proof. exact (thistN_run_steps _ _ HN0 HN HNN c Hc Hf Hsm os d m n). Qed.

  Theorem start_total_std s :
    start_ok c (lim_std c) s -> exists d0, start_run c s = Ok d0 /\ shist c d0 (start_map s).
  Proof.
    destruct s as [tomb base bl il|tomb pairs base bl il]; cbn [start_ok start_run start_map].
    - intros (H1 & H2 & H3). destruct (ctor_total_std c tomb base bl il H1 H2 H3) as (d & E & Hh & _).
      exists d. split; assumption.
    - intros (H1 & H2 & H3 & H4 & H5 & H6 & H7 & H8).
      destruct (bulk_total_std c Hc Hsm W tomb pairs base bl il H1 H2 H3 H4 H5 H6 H7 H8) as (d & E & Hh & _).
      exists d. split; assumption.
  Qed.

  (* whole programs: a constructor call followed by a guarded list of operations *)
  Theorem shist_prog_total s os :
    start_ok c (lim_std c) s ->
    (forall d0, start_run c s = Ok d0 -> guardb c (lim_std c) d0 os = true) ->
    exists d0 d', start_run c s = Ok d0 /\ run c os (Ok d0) = Ok d' /\ shist c d' (am_run os (start_map s)).
  Proof.
    intros Hs Hg. destruct (start_total_std s Hs) as (d0 & E0 & Hh0).
    destruct (shist_run os d0 _ Hh0 (Hg d0 E0)) as (d' & E & Hh). exists d0, d'. repeat split; assumption.
  Qed.

  (* shist is exactly: a constructor state followed by a guarded run *)
  Theorem shist_iff_run d m :
    shist c d m <->
    exists d0 m0 os, sbaseN (lim_std c) c d0 m0 /\ guardb c (lim_std c) d0 os = true /\
      run c os (Ok d0) = Ok d /\ m = am_run os m0.
  Proof.
    split; [exact (thistN_is_run (lim_std c) c d m)|].
    intros (d0 & m0 & os & Hb & Hg & Hr & ->).
    destruct (shist_run os d0 m0 (sbaseN_thistN _ c d0 m0 Hb) Hg) as (d' & E & Hh).
    rewrite Hr in E. injection E as <-. exact Hh.
  Qed.
End RunStd.

Print Assumptions insert_total_std.
Print Assumptions erase_total_std.
Print Assumptions ctor_total_std.
Print Assumptions bulk_total_std.
Print Assumptions shist_run.
Print Assumptions shist_run_steps.
Print Assumptions shist_prog_total.
Print Assumptions shist_iff_run.
Print Assumptions cap_after_exact.

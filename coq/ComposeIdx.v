(* ComposeIdx.v — the PGMIndex contract (C01 + C02) packaged for composition with the containers
   built on top of it (mapped, multidimensional, dynamic, C wrapper, bucketing). *)
Require Import Base Fp PlaModel PlaSpec GenLeaf IndexModel IndexProofs MappedQueries IdxFed IdxSeg IdxBlock IdxLevel
  IdxSearch0 IdxRoute IdxChain IdxMain IdxBeyond IdxFuel IdxGapMain Reject.
From Coq Require Import ZifyBool.
Local Open Scope Z_scope.

(* structural side conditions on the configuration *)
Record idx_ok (c : cfg) : Prop := mkIdxOk {
  io_bits : 1 <= kbits (c_kt c);
  io_eps : 1 <= c_eps c;
  io_eps64 : c_eps c + 2 ^ 32 < 2 ^ 64 - 1;
  io_rec0 : 0 <= c_epsrec c;
  io_rec64 : c_epsrec c + 2 ^ 32 < 2 ^ 64 - 1;
  io_par : 1 <= c_par c
  (* no condition on the routing of segment_for_key: IdxGapMain.C02_search covers the linear scan and
     the binary search alike *)
}.

(* the floating-point interface (IdxChain.float_ok), for every input *)
Definition float_ok_all (c : cfg) : Prop := forall data k, float_ok c data k.

(* the precondition of the constructor on its input *)
Record data_ok (c : cfg) (data : list Z) : Prop := mkDataOk {
  do_ne : data <> [];
  do_sorted : sortedb data = true;
  do_kt : Forall (fun x => in_ktype (c_kt c) x = true) data;
  do_last : last_z data < sentinel c;
  do_n32 : zlen data < 2 ^ 32
}.


(* C01 + C02 at one query, with the floating-point interface asked only at the evaluated key, in its
   weakest form float_ok_cap (IdxChain.v): implied by float_ok, and provable for Floating = float
   (FloatOkCap.v) where float_ok is not *)
Theorem search_contract_at_cap c data ix q :
  idx_ok c -> data_ok c data -> build c data = Ok ix -> zlen (ix_segments ix) < 2 ^ 32 ->
  q < sentinel c -> float_ok_cap c data (Z.max (hd 0 data) q) ->
  exists a, search c ix q = Ok a /\
    0 <= a_lo a /\ a_lo a <= lb data q /\ lb data q <= a_hi a /\ a_hi a <= zlen data /\
    (In q data -> lb data q < a_hi a) /\ a_hi a - a_lo a <= 2 * c_eps c + 2 /\ a_lo a <= a_pos a.
Proof.
  intros Hc Hd Hb Hs32 Hq Hfl.
  destruct Hc as [Hbits Heps Heps64 Hrec0 Hrec64 Hpar]. destruct Hd as [Hne Hs Hkt Hlast Hn32].
  assert (Hn64 : zlen data + c_eps c < 2 ^ 64 - 1) by lia.
  destruct (C02_search_cap c data ix Hbits Heps Hrec0 Hrec64 Hpar Hne Hs Hkt Hlast Hn32 Hn64 Hb Hs32 q Hq Hfl)
    as (a & Es & H1 & H2 & H3 & H4 & H5 & H6).
  exists a. split; [exact Es|]. repeat (split; [assumption|]). split; [|split; assumption].
  intros Hin.
  destruct (C01_search_cap c data ix Hbits Heps Hrec0 Hrec64 Hpar Hne Hs Hkt Hlast Hn32 Hn64 Hb Hs32 q Hin Hfl)
    as (a' & Es' & _ & _ & H3' & _).
  rewrite Es in Es'. injection Es' as <-. exact H3'.
Qed.

(* C01 + C02 at one query, with the floating-point interface asked only at the evaluated key *)
Theorem search_contract_at c data ix q :
  idx_ok c -> data_ok c data -> build c data = Ok ix -> zlen (ix_segments ix) < 2 ^ 32 ->
  q < sentinel c -> float_ok c data (Z.max (hd 0 data) q) ->
  exists a, search c ix q = Ok a /\
    0 <= a_lo a /\ a_lo a <= lb data q /\ lb data q <= a_hi a /\ a_hi a <= zlen data /\
    (In q data -> lb data q < a_hi a) /\ a_hi a - a_lo a <= 2 * c_eps c + 2 /\ a_lo a <= a_pos a.
Proof.
  intros Hc Hd Hb Hs32 Hq Hfl.
  exact (search_contract_at_cap c data ix q Hc Hd Hb Hs32 Hq (float_ok_cap_of _ _ _ Hfl)).
Qed.

Theorem search_contract c data ix q :
  idx_ok c -> float_ok_all c -> data_ok c data -> build c data = Ok ix -> zlen (ix_segments ix) < 2 ^ 32 ->
  q < sentinel c ->
  exists a, search c ix q = Ok a /\
    0 <= a_lo a <= lb data q /\ lb data q <= a_hi a <= zlen data /\
    (In q data -> lb data q < a_hi a) /\ a_hi a - a_lo a <= 2 * c_eps c + 2.
Proof.
  intros Hc Hf Hd Hb Hs32 Hq.
  destruct (search_contract_at c data ix q Hc Hd Hb Hs32 Hq (Hf _ _)) as (a & Es & H).
  exists a. split; [exact Es|]. tauto.
Qed.

(* the floating-point interface on the inputs the constructor accepts: implied by float_ok_all, and
   what FloatOkAll.float_ok_double establishes for Floating = double (float_ok_all itself is refutable
   for Floating = float: FloatOkAll.cx_not_float_ok; for float use search_contract_at_cap with
   FloatOkCap.float_ok_cap_float, as ComposeFloat32.index_contract_float does) *)
Definition float_ok_valid (c : cfg) : Prop := forall data k, data_ok c data -> float_ok c data k.

Lemma float_ok_all_valid c : float_ok_all c -> float_ok_valid c.
Proof. intros H data k _. apply H. Qed.

Theorem search_contract_valid c data ix q :
  idx_ok c -> float_ok_valid c -> data_ok c data -> build c data = Ok ix -> zlen (ix_segments ix) < 2 ^ 32 ->
  q < sentinel c ->
  exists a, search c ix q = Ok a /\
    0 <= a_lo a <= lb data q /\ lb data q <= a_hi a <= zlen data /\
    (In q data -> lb data q < a_hi a) /\ a_hi a - a_lo a <= 2 * c_eps c + 2.
Proof.
  intros Hc Hf Hd Hb Hs32 Hq.
  destruct (search_contract_at c data ix q Hc Hd Hb Hs32 Hq (Hf _ _ Hd)) as (a & Es & H).
  exists a. split; [exact Es|]. tauto.
Qed.

Print Assumptions search_contract_at.
Print Assumptions search_contract.

(* ---- helpers for the compositions ---- *)
Lemma build_ix_n c data ix : build c data = Ok ix -> ix_n ix = zlen data.
Proof.
  unfold build. destruct (zlen data =? 0) eqn:E0.
  - intros H. injection H as <-. cbn [ix_n]. lia.
  - destruct (last_z data =? sentinel c); [discriminate|].
    destruct (build_level _ _ _ _ _ _) as [[segs ln]|e]; cbn [bind]; [|discriminate].
    destruct (build_upper _ _ _ _ _ _) as [r2|e]; cbn [bind]; [|discriminate].
    intros H. injection H as <-. reflexivity.
Qed.

Lemma build_ok_not_reserved c data ix : data <> [] -> build c data = Ok ix -> last_z data <> sentinel c.
Proof.
  intros Hne H. unfold build in H.
  assert (Hn : zlen data <> 0) by (destruct data; [contradiction|]; unfold zlen; cbn [length]; lia).
  replace (zlen data =? 0) with false in H by lia.
  destruct (last_z data =? sentinel c) eqn:E; [discriminate H|]. lia.
Qed.

Lemma last_z_In (l : list Z) : l <> [] -> In (last_z l) l.
Proof.
  intros Hne. unfold last_z. destruct (exists_last Hne) as (l' & a & ->). rewrite last_last.
  apply in_or_app. right. left. reflexivity.
Qed.

(* the precondition, from what a container can check on keys of type K once build has succeeded *)
Lemma data_ok_of_build c data ix :
  data <> [] -> sortedb data = true -> Forall (fun x => in_ktype (c_kt c) x = true) data ->
  zlen data < 2 ^ 32 -> build c data = Ok ix -> data_ok c data.
Proof.
  intros Hne Hs Hkt Hn Hb. constructor; try assumption.
  pose proof (build_ok_not_reserved c data ix Hne Hb) as Hl.
  rewrite Forall_forall in Hkt. specialize (Hkt _ (last_z_In data Hne)).
  unfold sentinel, in_ktype in *. lia.
Qed.

Lemma lb_lt_len_In l q : In q l -> lb l q < zlen l.
Proof.
  unfold zlen. induction l as [|x t IH]; [contradiction|]. intros [->|Hin]; cbn [lb length].
  - replace (q <? q) with false by lia. lia.
  - specialize (IH Hin). destruct (x <? q); lia.
Qed.

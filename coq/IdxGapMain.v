(* IdxGapMain.v — C02_search for every query below the sentinel and every EpsilonRecursive, and the
   routing trace for queries above the last key. *)
Require Import Base Fp PlaModel PlaSpec GenLeaf IndexModel IndexProofs MappedQueries IdxFed IdxSeg IdxBlock IdxLevel IdxSearch0 IdxRoute IdxChain IdxMain IdxBeyond IdxFuel IdxGapPla IdxGap IdxGapChain.
From Coq Require Import ZifyBool.
Local Open Scope Z_scope.

Lemma level0_real_le c k r i : 1 <= kbits (c_kt c) -> lrec_ok c (last (lr_keys r) 0) k r ->
  0 <= i < zlen (lr_new r) -> sg_key (nth (Z.to_nat i) (lr_new r) dseg) <= last (lr_keys r) 0 + 1.
Proof.
  intros Hb Hok Hi. pose proof Hok as (Hne & Hs & Hk & He & Hcat & HL & Ht).
  pose proof (lf_nowrap c _ k r Hb Hok) as Hw.
  destruct (lf_key_fed c _ k r Hok (sg_key (nth (Z.to_nat i) (lr_new r) dseg))) as (y & Hy).
  { rewrite <- nth_map_key. apply nth_In. rewrite map_length. unfold zlen in *. lia. }
  pose proof (fed_spec_x_le _ _ _ Hne Hs Hw Hy) as Hle. cbn [fst] in Hle. exact Hle.
Qed.

(* a good segment of the bottom level, for a key above the last data key, is the last real segment
   or the extra segment *)
Lemma good_bottom c k r J :
  1 <= kbits (c_kt c) -> lrec_ok c (last (lr_keys r) 0) k r ->
  wrapK (c_kt c) (last (lr_keys r) 0 + 1) = last (lr_keys r) 0 + 1 ->
  last (lr_keys r) 0 + 1 <= k -> k < sentinel c ->
  good (lr_L r) (zlen (lr_new r)) k J -> zlen (lr_new r) - 1 <= J /\ 0 <= J /\ J + 1 < zlen (lr_L r).
Proof.
  intros Hb Hok Hwk Hk1 Hks Hg.
  assert (Hm : 1 <= zlen (lr_new r)).
  { destruct (lf_first c _ k r Hok) as [Hnn _]. destruct (lr_new r); [contradiction|].
    rewrite zlen_cons. pose proof (zlen_ge0 l). lia. }
  destruct Hg as [(HJ0 & HJ1 & _ & Hgt)|[(HJ0 & HJ1 & _ & _) Em]]; [|lia].
  split; [|lia].
  destruct (Z_lt_ge_dec (J + 1) (zlen (lr_new r))) as [Hlt|]; [exfalso|lia].
  pose proof (level0_real_le c k r (J + 1) Hb Hok ltac:(lia)) as Hle.
  unfold lr_L in Hgt. rewrite app_nth1 in Hgt by (unfold zlen in *; lia). lia.
Qed.

Definition gapB (c : cfg) : Z :=
  2 * c_epsrec c + 3 + (if c_epsrec c <=? pgm_linear_search_threshold (sizeof_segment c) then 1 else 0).

Lemma chain_bottom c ldk k : forall rl top r0, chainR c ldk k (top :: rl) -> last rl top = r0 ->
  lrec_ok c ldk k r0 /\ lr_eps r0 = c_eps c.
Proof.
  induction rl as [|r rl IH]; intros top r0 Hch Elast.
  - cbn [last] in Elast. subst. cbn [chainR] in Hch. exact Hch.
  - rewrite last_cons_gen in Elast. cbn [chainR] in Hch. destruct Hch as (_ & _ & Hch'). exact (IH r r0 Hch' Elast).
Qed.

Section Gap.
  Variables (c : cfg) (data : list Z) (ix : index).
  Hypothesis Hbits : 1 <= kbits (c_kt c).
  Hypothesis Heps : 1 <= c_eps c.
  Hypothesis Hrec0 : 0 <= c_epsrec c.
  Hypothesis Hrec64 : c_epsrec c + 2 ^ 32 < 2 ^ 64 - 1.
  Hypothesis Hpar : 1 <= c_par c.
  Hypothesis Hne : data <> [].
  Hypothesis Hs : sortedb data = true.
  Hypothesis Hkt : Forall (fun x => in_ktype (c_kt c) x = true) data.
  Hypothesis Hlast : last_z data < sentinel c.
  Hypothesis Hn32 : zlen data < 2 ^ 32.
  Hypothesis Hn64 : zlen data + c_eps c < 2 ^ 64 - 1.
  Hypothesis Hbuild : build c data = Ok ix.
  Hypothesis Hsegs32 : zlen (ix_segments ix) < 2 ^ 32.

  Let n := zlen data.
  Let ldk := last_z data.

  Theorem search_gap_pos q : c_epsrec c <> 0 -> last_z data < q -> q < sentinel c ->
    float_ok_cap c data (Z.max (hd 0 data) q) ->
    exists pos tr,
      search_tr c ix q = Ok (mkApprox pos (PGM_SUB_EPS pos (c_eps c)) (PGM_ADD_EPS pos (c_eps c) n), tr) /\
      n - c_eps c - 2 <= pos <= n + c_eps c /\ 0 <= pos /\ Forall (entry_le (gapB c)) tr.
  Proof.
    intros Hrne Hq1 Hq2 Hfl.
    assert (Hd0 : hd 0 data <= ldk).
    { apply (data_le_last data Hne Hs). destruct data; [contradiction|]. left. reflexivity. }
    assert (Ek : Z.max (hd 0 data) q = q) by (unfold ldk in *; lia). rewrite Ek in Hfl.
    destruct (build_chain_gap c data ix q Hbits Hpar ltac:(lia) Hrec64 Hne Hs Hkt Hlast Hn64 Hfl Hbuild Hsegs32)
      as (up & r0 & Hch & Hk0 & Eix & Htop & HT & _ & Hext).
    assert (Hfull : exists top rl, up ++ [r0] = top :: rl /\ last rl top = r0).
    { destruct up as [|u up']; [exists r0, []; split; reflexivity|].
      exists u, (up' ++ [r0]). split; [reflexivity|]. rewrite last_last. reflexivity. }
    destruct Hfull as (top & rl & Efull & Elast). rewrite Efull in *. cbn [hd] in Htop.
    pose proof (wrap_last c data Hbits Hne Hs Hkt Hlast) as Hwk. fold ldk in Hwk.
    pose proof (chain_hd c ldk q Hbits rl top Hch) as Ehd. rewrite Elast, Hk0 in Ehd.
    pose proof (chainR_hd_ok _ _ _ _ _ Hch) as Hoktop.
    assert (Hsegs : ix_segments ix = below ([] ++ top :: rl)) by (rewrite Eix; reflexivity).
    assert (Hoffs : ix_offsets ix = offs_of ([] ++ top :: rl)) by (rewrite Eix; reflexivity).
    assert (Hsz : Forall (fun r => zlen (lr_keys r) < 2 ^ 32) (top :: rl)).
    { apply (chain_sizes c ldk q Hbits rl top Hch); [rewrite Hsegs in Hsegs32; exact Hsegs32|].
      rewrite Elast, Hk0. exact Hn32. }
    pose proof (top_good c ldk q top Hbits Hoktop Hwk ltac:(unfold ldk; lia) Hq2 ltac:(unfold ldk in *; lia) Htop) as Hgtop.
    destruct (route_gap_all c ldk q ix Hbits ltac:(lia) Hwk ltac:(unfold ldk; lia) Hq2 rl top [] 0 [] Hsegs Hoffs Hch Hsz HT
                ltac:(unfold ldk in *; lia) Hgtop ltac:(constructor)) as (J0 & tr & Eroute & HgJ0 & Htr).
    rewrite Elast in HgJ0.
    destruct (chain_bottom c ldk q rl top r0 Hch Elast) as [Hok0 Eeps0].
    pose proof Hok0 as (Hne0 & Hs0 & Hko0 & He0 & Hcat0 & HL0 & Ht0).
    pose proof (lf_nowrap c ldk q r0 Hbits Hok0) as Hw0.
    assert (Hldk0 : last (lr_keys r0) 0 = ldk) by (rewrite Hk0; reflexivity).
    destruct (good_bottom c q r0 J0 Hbits ltac:(rewrite Hldk0; exact Hok0) ltac:(rewrite Hldk0; exact Hwk)
                ltac:(rewrite Hldk0; unfold ldk; lia) Hq2 HgJ0) as (HJge & HJ0 & HJ1).
    pose proof (level_pos_beyond c (lr_eps r0) (lr_keys r0) ldk _ _ _ _ q J0 Hne0 Hs0 Hw0 ltac:(rewrite Hk0; exact Hn32)
                  ltac:(rewrite Eeps0; exact Heps) Hcat0 HL0 (tail_ok_shape _ _ _ _ _ _ _ Ht0) Hwk Hldk0
                  ltac:(rewrite Hk0; exact Hext) ltac:(unfold ldk; lia) Hq2 HJge HJ1) as Hp.
    cbn zeta in Hp. fold (lr_L r0) in Hp. rewrite Hk0, Eeps0 in Hp. fold n in Hp.
    set (pos := Z.min (seg_eval c (nth (Z.to_nat J0) (lr_L r0) dseg) q) (sg_icpt (nth (Z.to_nat (J0 + 1)) (lr_L r0) dseg))) in *.
    exists pos, tr. split; [|split; [tauto|split; [tauto|exact Htr]]].
    assert (Hseg0 : ix_segments ix = [] ++ lr_L r0 ++ below up).
    { rewrite Hsegs. cbn [app]. rewrite <- Efull, below_app. unfold below at 1. cbn [rev app map concat].
      rewrite app_nil_r. reflexivity. }
    assert (Efk : ix_first_key ix = hd 0 data) by (rewrite Eix; reflexivity).
    assert (En : ix_n ix = n) by (rewrite Eix; reflexivity).
    unfold search_tr. rewrite Efk, Ek. unfold segment_for_key.
    replace (c_epsrec c =? 0) with false by lia.
    assert (Ezo : zlen (ix_offsets ix) = Z.of_nat (length rl) + 2).
    { rewrite Hoffs. unfold zlen. rewrite offs_len. cbn [app length]. lia. }
    rewrite Ezo. replace (Z.of_nat (length rl) + 2 - 2) with (Z.of_nat (length rl)) by lia.
    assert (Estart : nth_res (ix_offsets ix) (Z.of_nat (length rl)) = Ok (zlen (below rl))).
    { rewrite Hoffs. rewrite nth_res_Z.
      - rewrite Nat2Z.id. f_equal. exact (offs_nth [top] rl).
      - unfold zlen. rewrite offs_len. cbn [app length]. lia. }
    rewrite Estart. cbn [bind]. unfold height. rewrite Ezo.
    replace (Z.to_nat (Z.of_nat (length rl) + 2 - 1 - 1)) with (length rl) by lia.
    replace (zlen (below rl)) with (zlen (below rl) + 0) by lia. fold (gapB c) in Eroute. rewrite Eroute. cbn [bind].
    assert (Es1 : seg_at ix J0 = Ok (nth (Z.to_nat J0) (lr_L r0) dseg)).
    { rewrite <- (seg_at_level ix [] _ _ J0 Hseg0 ltac:(lia)). reflexivity. }
    assert (Es2 : seg_at ix (J0 + 1) = Ok (nth (Z.to_nat (J0 + 1)) (lr_L r0) dseg)).
    { rewrite <- (seg_at_level ix [] _ _ (J0 + 1) Hseg0 ltac:(lia)). reflexivity. }
    rewrite Es1. cbn [bind]. rewrite Es2. cbn [bind]. fold pos. rewrite En. reflexivity.
  Qed.

  (* C02 for every query below the sentinel, every EpsilonRecursive, both routing regimes *)
  Theorem C02_search_cap q : q < sentinel c -> float_ok_cap c data (Z.max (hd 0 data) q) ->
    exists a, search c ix q = Ok a /\
      0 <= a_lo a /\ a_lo a <= lb data q /\ lb data q <= a_hi a /\ a_hi a <= zlen data /\
      a_hi a - a_lo a <= 2 * c_eps c + 2 /\ a_lo a <= a_pos a.
  Proof.
    intros Hq Hfl. destruct (Z_le_gt_dec q (last_z data)) as [Hle|Hgt].
    { exact (C02_search_partial_cap c data ix Hbits Heps Hrec0 Hrec64 Hpar Hne Hs Hkt Hlast Hn32 Hn64 Hbuild Hsegs32 q Hle Hfl). }
    destruct (Z.eq_dec (c_epsrec c) 0) as [E0|E0].
    { destruct Hfl as [Hf0 _].
      exact (C02_search0_cap c data ix Hbits E0 Heps Hpar Hne Hs Hkt Hlast Hn32 Hn64 Hbuild q Hq Hf0). }
    destruct (search_gap_pos q E0 ltac:(lia) Hq Hfl) as (pos & tr & Es & Hb & Hp0 & _).
    eexists. split; [unfold search; rewrite Es; reflexivity|]. cbn [bind fst a_lo a_hi a_pos].
    rewrite (lb_beyond c data Hbits Hne Hs Hkt Hlast q ltac:(lia)). pose proof (zlen_ge0 data) as Hn0. fold n in Hn0.
    pose proof (window_absent (c_eps c) n pos n ltac:(lia) Hp0 ltac:(lia) Hb) as Hwin.
    cbn zeta in Hwin. fold n. lia.
  Qed.

  Corollary C02_pred_search_cap q : q < sentinel c -> float_ok_cap c data (Z.max (hd 0 data) q) ->
    exists a, search c ix q = Ok a /\ C02_pred_b data q a = true.
  Proof.
    intros Hq Hfl. destruct (C02_search_cap q Hq Hfl) as (a & Es & H).
    exists a. split; [exact Es|]. apply C02_pred_b_of_bounds; [exact Hs | lia..].
  Qed.

  (* C07 for every query below the sentinel: the per-level bound is 2*EpsilonRecursive+3 on the
     binary-search path (and for q <= last key on both paths); on the linear-scan path for
     last < q < sentinel the proof gives 2*EpsilonRecursive+4 (see the end of the file) *)
  Theorem C07_route_trace_wide_cap q : q < sentinel c -> float_ok_cap c data (Z.max (hd 0 data) q) ->
    exists a tr, search_tr c ix q = Ok (a, tr) /\
      Forall (fun t => let '(l, wlo, f, la) := t in
                la - f + 1 <= 2 * c_epsrec c + 3 +
                  (if (last_z data <? q) && (c_epsrec c <=? pgm_linear_search_threshold (sizeof_segment c)) then 1 else 0)
                /\ wlo <= f) tr.
  Proof.
    intros Hq Hfl. destruct (Z_le_gt_dec q (last_z data)) as [Hle|Hgt].
    { destruct (C07_route_trace_partial_cap c data ix Hbits Heps Hrec0 Hrec64 Hpar Hne Hs Hkt Hlast Hn32 Hn64 Hbuild Hsegs32 q Hle Hfl)
        as (a & tr & Es & Htr).
      exists a, tr. split; [exact Es|]. replace (last_z data <? q) with false by lia. cbn [andb].
      eapply Forall_impl; [|exact Htr]. intros [[[l wlo] f] la]. lia. }
    replace (last_z data <? q) with true by lia. cbn [andb].
    destruct (Z.eq_dec (c_epsrec c) 0) as [E0|E0].
    { destruct (C02_search_cap q Hq Hfl) as (a & Es & _). exists a, []. split; [|constructor].
      exact (search_tr0 c ix Hrec0 Hrec64 q a E0 Es). }
    destruct (search_gap_pos q E0 ltac:(lia) Hq Hfl) as (pos & tr & Es & _ & _ & Htr).
    eexists. exists tr. split; [exact Es|]. exact Htr.
  Qed.

  Corollary C07_route_trace_bsearch_cap q :
    (c_epsrec c <=? pgm_linear_search_threshold (sizeof_segment c)) = false ->
    q < sentinel c -> float_ok_cap c data (Z.max (hd 0 data) q) ->
    exists a tr, search_tr c ix q = Ok (a, tr) /\
      Forall (fun t => let '(l, wlo, f, la) := t in la - f + 1 <= 2 * c_epsrec c + 3 /\ wlo <= f) tr.
  Proof.
    intros Hbs Hq Hfl. destruct (C07_route_trace_wide_cap q Hq Hfl) as (a & tr & Es & Htr).
    exists a, tr. split; [exact Es|]. rewrite Hbs, andb_false_r in Htr.
    eapply Forall_impl; [|exact Htr]. intros [[[l wlo] f] la]. lia.
  Qed.

  (* the same under the stronger hypothesis float_ok (eval_ok without the cap disjunct) *)
  Theorem C02_search q : q < sentinel c -> float_ok c data (Z.max (hd 0 data) q) ->
    exists a, search c ix q = Ok a /\
      0 <= a_lo a /\ a_lo a <= lb data q /\ lb data q <= a_hi a /\ a_hi a <= zlen data /\
      a_hi a - a_lo a <= 2 * c_eps c + 2 /\ a_lo a <= a_pos a.
  Proof. intros Hq Hfl. exact (C02_search_cap q Hq (float_ok_cap_of _ _ _ Hfl)). Qed.

  Corollary C02_pred_search q : q < sentinel c -> float_ok c data (Z.max (hd 0 data) q) ->
    exists a, search c ix q = Ok a /\ C02_pred_b data q a = true.
  Proof. intros Hq Hfl. exact (C02_pred_search_cap q Hq (float_ok_cap_of _ _ _ Hfl)). Qed.

  Theorem C07_route_trace_wide q : q < sentinel c -> float_ok c data (Z.max (hd 0 data) q) ->
    exists a tr, search_tr c ix q = Ok (a, tr) /\
      Forall (fun t => let '(l, wlo, f, la) := t in
                la - f + 1 <= 2 * c_epsrec c + 3 +
                  (if (last_z data <? q) && (c_epsrec c <=? pgm_linear_search_threshold (sizeof_segment c)) then 1 else 0)
                /\ wlo <= f) tr.
  Proof. intros Hq Hfl. exact (C07_route_trace_wide_cap q Hq (float_ok_cap_of _ _ _ Hfl)). Qed.

  Corollary C07_route_trace_bsearch q :
    (c_epsrec c <=? pgm_linear_search_threshold (sizeof_segment c)) = false ->
    q < sentinel c -> float_ok c data (Z.max (hd 0 data) q) ->
    exists a tr, search_tr c ix q = Ok (a, tr) /\
      Forall (fun t => let '(l, wlo, f, la) := t in la - f + 1 <= 2 * c_epsrec c + 3 /\ wlo <= f) tr.
  Proof. intros Hbs Hq Hfl. exact (C07_route_trace_bsearch_cap q Hbs Hq (float_ok_cap_of _ _ _ Hfl)). Qed.
End Gap.

Print Assumptions C02_search.
Print Assumptions C07_route_trace_wide.

(* ------------------------------------------------------------------------------------------------
   SUMMARY (closes the gap documented at the end of IdxBeyond.v)

   Proved here, under exactly the hypotheses of C02_search_partial:
   - C02_search: the search contract for EVERY query q < sentinel and EVERY EpsilonRecursive, in
     particular last < q < sentinel on the binary-search routing path.
   - C07_route_trace_bsearch: on the binary-search path every level touches at most
     2*EpsilonRecursive+3 segments and starts at the window, for every q < sentinel.
   - C07_route_trace_wide: on both paths, for every q < sentinel, the bound is 2*EpsilonRecursive+3
     except for last < q on the linear-scan path, where it is 2*EpsilonRecursive+4.
   REFUTED (IdxGapRefute.v, Example C07_refuted, replayed by vm_compute and confirmed on the C++):
   - the bound 2*EpsilonRecursive+3 for last < q < sentinel on the linear-scan path is false.

   How the three structural questions of IdxBeyond.v were settled:
   (a) the shape of a one-point closing segment is not needed;
   (b) sortedness of an upper level's keys after the extra segment (last+1, 0, n_l) is appended was
       neither proved nor needed (nothing excludes a real key last+2 followed by the extra key
       last+1 when last = kmax-3 and the closing points of levels 0 and 1 open their own segments;
       no such input was constructed): the responsible position is defined as "before the first
       key > q" (`resp`), which is what the model's upper_bound and the linear scan compute;
   (c) when a real segment and the extra segment share the key last+1 = q, the window of the binary
       search may stop one slot short of the extra segment; it then ends on the last real segment,
       whose prediction is equally valid (`good`, second alternative; `window_bsearch`).
   The one fact about the segmentation that had to be added is `no_split_tail` (IdxGapPla.v): for
   strictly increasing keys the last key and the closing point never both open a segment (greedy
   inside a chunk; no chunk consists of the closing point alone).  It gives `tail1`: at every level
   at most one real key exceeds last+1, so that the prediction n_l of an upper level's extra
   segment is at most 2 slots to the right of the responsible segment of the level below
   (EpsilonRecursive >= 1 then suffices).
   ------------------------------------------------------------------------------------------------ *)

(* ComposeMapped.v — C11 end to end: the multiset queries of MappedPGMIndex over a container built by
   from_range, with the range supplied by the index contract (ComposeIdx.search_contract). *)
Require Import Base Fp PlaModel GenLeaf IndexModel IndexProofs MappedModel MappedQueries IdxChain ComposeIdx ComposeBuild.
From Coq Require Import ZifyBool.
Local Open Scope Z_scope.

Lemma from_range_inv c data m : from_range c data = Ok m ->
  build c data = Ok (mp_ix m) /\ mp_data m = data.
Proof.
  unfold from_range. destruct (build c data) as [ix|e]; cbn [bind]; [|discriminate].
  intros H. injection H as <-. split; reflexivity.
Qed.

Section Mapped.
  Variables (c : cfg) (data : list Z) (m : mapped).
  Hypothesis Hc : idx_ok c.
  Hypothesis Hd : data_ok c data.
  Hypothesis Hm : from_range c data = Ok m.
  Hypothesis Hs32 : zlen (ix_segments (mp_ix m)) < 2 ^ 32.

  (* the approximate range of the mapped container satisfies range_ok *)
  Theorem mapped_range_ok_at_cap q : q < sentinel c -> float_ok_cap c data (Z.max (hd 0 data) q) ->
    exists lo hi, mapped_range c m q = Ok (lo, hi) /\ range_ok data q lo hi /\ hi - lo <= 2 * c_eps c + 2.
  Proof.
    intros Hq Hfl. destruct (from_range_inv c data m Hm) as [Hb Hdat].
    destruct (search_contract_at_cap c data (mp_ix m) q Hc Hd Hb Hs32 Hq Hfl)
      as (a & Es & H1 & H2 & H3 & H4 & H5 & H6 & _).
    exists (a_lo a), (a_hi a). unfold mapped_range. rewrite Es. cbn [bind]. rewrite Hdat.
    replace ((a_lo a <? 0) || (a_hi a >? zlen data) || (a_hi a <? a_lo a)) with false by lia.
    split; [reflexivity|]. split; [|exact H6]. unfold range_ok. tauto.
  Qed.

  Theorem mapped_range_ok_at q : q < sentinel c -> float_ok c data (Z.max (hd 0 data) q) ->
    exists lo hi, mapped_range c m q = Ok (lo, hi) /\ range_ok data q lo hi /\ hi - lo <= 2 * c_eps c + 2.
  Proof. intros Hq Hfl. exact (mapped_range_ok_at_cap q Hq (float_ok_cap_of _ _ _ Hfl)). Qed.
End Mapped.

(* C11: the four queries agree with the multiset semantics of the sorted array *)
Theorem C11_mapped_at_cap c data m q :
  idx_ok c -> data_ok c data -> from_range c data = Ok m -> zlen (ix_segments (mp_ix m)) < 2 ^ 32 ->
  q < sentinel c -> float_ok_cap c data (Z.max (hd 0 data) q) ->
  mapped_lower_bound c m q = Ok (lb data q) /\
  mapped_upper_bound c m q = Ok (ub data q) /\
  mapped_count c m q = Ok (ub data q - lb data q) /\
  mapped_contains c m q = Ok (existsb (Z.eqb q) data).
Proof.
  intros Hc Hd Hm Hs32 Hq Hfl.
  destruct (mapped_range_ok_at_cap c data m Hc Hd Hm Hs32 q Hq Hfl) as (lo & hi & Hr & Hok & _).
  destruct (from_range_inv c data m Hm) as [_ Hdat].
  pose proof (do_sorted c data Hd) as Hs.
  assert (Hn : zlen data < 2 ^ 62) by (pose proof (do_n32 c data Hd); lia).
  split; [exact (lower_bound_spec c m q data lo hi Hdat Hs Hr Hok)|].
  split; [exact (upper_bound_spec c m q data lo hi Hdat Hs Hr Hok Hn)|].
  split; [exact (count_spec c m q data lo hi Hdat Hs Hr Hok Hn)|].
  exact (contains_spec c m q data lo hi Hdat Hs Hr Hok).
Qed.

Theorem C11_mapped_at c data m q :
  idx_ok c -> data_ok c data -> from_range c data = Ok m -> zlen (ix_segments (mp_ix m)) < 2 ^ 32 ->
  q < sentinel c -> float_ok c data (Z.max (hd 0 data) q) ->
  mapped_lower_bound c m q = Ok (lb data q) /\
  mapped_upper_bound c m q = Ok (ub data q) /\
  mapped_count c m q = Ok (ub data q - lb data q) /\
  mapped_contains c m q = Ok (existsb (Z.eqb q) data).
Proof.
  intros Hc Hd Hm Hs32 Hq Hfl.
  exact (C11_mapped_at_cap c data m q Hc Hd Hm Hs32 Hq (float_ok_cap_of _ _ _ Hfl)).
Qed.

Section C11_all.
  Variables (c : cfg) (data : list Z) (m : mapped) (q : Z).
  Hypothesis Hc : idx_ok c.
  Hypothesis Hf : float_ok_valid c.
  Hypothesis Hd : data_ok c data.
  Hypothesis Hm : from_range c data = Ok m.
  Hypothesis Hs32 : zlen (ix_segments (mp_ix m)) < 2 ^ 32.
  Hypothesis Hq : q < sentinel c.

  Let H := C11_mapped_at c data m q Hc Hd Hm Hs32 Hq (Hf _ _ Hd).

  Theorem C11_lower_bound : mapped_lower_bound c m q = Ok (lb data q).
  Proof. exact (proj1 H). Qed.
  Theorem C11_upper_bound : mapped_upper_bound c m q = Ok (ub data q).
  Proof. exact (proj1 (proj2 H)). Qed.
  Theorem C11_count : mapped_count c m q = Ok (ub data q - lb data q).
  Proof. exact (proj1 (proj2 (proj2 H))). Qed.
  Theorem C11_contains : mapped_contains c m q = Ok (existsb (Z.eqb q) data).
  Proof. exact (proj2 (proj2 (proj2 H))). Qed.
  Theorem C11_range : exists lo hi, mapped_range c m q = Ok (lo, hi) /\ range_ok data q lo hi /\ hi - lo <= 2 * c_eps c + 2.
  Proof. exact (mapped_range_ok_at c data m Hc Hd Hm Hs32 q Hq (Hf _ _ Hd)). Qed.
End C11_all.

(* C11 with the construction: from_range succeeds (ComposeBuild.build_total) and the four queries are
   exact, for up to 2^30 keys; no hypothesis on the built container is left *)
Theorem C11_mapped_total c data :
  idx_ok c -> cfg_small c -> float_ok_valid c -> data_ok c data -> zlen data <= 2 ^ 30 ->
  exists m, from_range c data = Ok m /\ mp_data m = data /\
    forall q, q < sentinel c ->
      mapped_lower_bound c m q = Ok (lb data q) /\
      mapped_upper_bound c m q = Ok (ub data q) /\
      mapped_count c m q = Ok (ub data q - lb data q) /\
      mapped_contains c m q = Ok (existsb (Z.eqb q) data).
Proof.
  intros Hc Hsm Hf Hd Hn. destruct (build_total c data Hc Hsm Hd Hn) as (ix & E & Hs32).
  assert (Em : from_range c data = Ok (mkMapped ix data (serialize c ix data))).
  { unfold from_range. rewrite E. reflexivity. }
  eexists. split; [exact Em|]. split; [reflexivity|]. intros q Hq.
  exact (C11_mapped_at c data _ q Hc Hd Em Hs32 Hq (Hf _ _ Hd)).
Qed.

Print Assumptions C11_mapped_total.
Print Assumptions C11_mapped_at.
Print Assumptions C11_count.

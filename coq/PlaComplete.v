(* PlaComplete.v — completeness (maximality) of OptimalPiecewiseLinearModel::add_point:
   when add_point rejects a point, no line at all fits the points fed so far plus the new one.
   Only four facts about the rectangle are used (which band points its corners are, and the
   order of their abscissae); no hull reasoning.  The rejection is in fact witnessed by a
   four-point certificate accepted by cert4_b.
   Contents:
   1. add_point_reject_cert4 / add_point_complete(_strong): rejection => infeasible, from stated
      facts about the rectangle.
   2. narrow_block_feasible / infeasible_spans / starts_apart: blocks spanning <= 2*eps ranks are
      feasible, so a segment closed by a rejection spans more than 2*eps ranks.
   3. rect_inv: a light invariant of the builder (no hull geometry) that discharges the facts of 1;
      rect_inv_init, rect_inv_step, builder_complete (unconditional end-to-end completeness).
   4. Section Driver: `feed`, make_segmentation_chunk and par_chunks produce greedy partitions of
      the fed points; generic in a per-builder invariant Q supplied by the soundness development.
   5. make_segmentation_chunk_maximal (unconditional), and Section Optimal: given the soundness
      input, the segment count is optimal (sequential) / optimal + (parallelism - 1) (parallel). *)
Require Import Base PlaModel PlaSpec PlaCert Greedy.
Local Open Scope Z_scope.

(* ---------- what a rejection means, read off the model ---------- *)

Lemma add_point_reject_inv : forall yt s x y s',
  add_point yt s x y = Ok (false, s') ->
  (p_n s >? 0) && (x <=? p_last_x s) = false /\
  (slt (psub (x, fst (band yt (p_eps s) y)) (p_r2 s)) (psub (p_r2 s) (p_r0 s)) = true \/
   sgt (psub (x, snd (band yt (p_eps s) y)) (p_r3 s)) (psub (p_r3 s) (p_r1 s)) = true).
Proof.
  intros yt s x y s' H. unfold add_point in H.
  destruct ((p_n s >? 0) && (x <=? p_last_x s)) eqn:Hguard; [discriminate H|].
  split; [reflexivity|].
  destruct (band yt (p_eps s) y) as [yu yl] eqn:Hband.
  cbn [fst snd].
  destruct (p_n s =? 0) eqn:Hn0; [discriminate H|].
  destruct (p_n s =? 1) eqn:Hn1; [discriminate H|].
  destruct (slt (psub (x, yu) (p_r2 s)) (psub (p_r2 s) (p_r0 s))) eqn:Ho1; [left; reflexivity|].
  destruct (sgt (psub (x, yl) (p_r3 s)) (psub (p_r3 s) (p_r1 s))) eqn:Ho2; [right; reflexivity|].
  exfalso. cbn [orb] in H.
  destruct (if slt (psub (x, yu) (p_r1 s)) (psub (p_r3 s) (p_r1 s))
            then match p_lower s with
                 | [] => (p_lower s, p_upper s, p_r1 s, p_r3 s)
                 | c :: rest =>
                     (tangent_lower (x, yu) c rest, push_upper (p_upper s) (x, yu),
                      hd_pt (tangent_lower (x, yu) c rest), (x, yu))
                 end
            else (p_lower s, p_upper s, p_r1 s, p_r3 s)) as [[[lower1 upper1] r1'] r3'].
  destruct (if sgt (psub (x, yl) (p_r0 s)) (psub (p_r2 s) (p_r0 s))
            then match upper1 with
                 | [] => (lower1, upper1, p_r0 s, p_r2 s)
                 | c :: rest =>
                     (push_lower lower1 (x, yl), tangent_upper (x, yl) c rest,
                      hd_pt (tangent_upper (x, yl) c rest), (x, yl))
                 end
            else (lower1, upper1, p_r0 s, p_r2 s)) as [[[lower2 upper2] r0'] r2'].
  discriminate H.
Qed.

(* ---------- a rejection yields a four-point certificate ---------- *)

(* The hypotheses on the state are consequences of the soundness invariant (proved elsewhere):
   r0, r3 are upper band points and r1, r2 lower band points of fed points, r0 is left of r2 and
   r1 left of r3, and no fed point lies to the right of p_last_x. *)
Theorem add_point_reject_cert4 :
  forall eps s x y pts s',
    p_eps s = eps ->
    2 <= p_n s ->
    (exists y0, In (fst (p_r0 s), y0) pts /\ snd (p_r0 s) = band_hi eps y0) ->
    (exists y3, In (fst (p_r3 s), y3) pts /\ snd (p_r3 s) = band_hi eps y3) ->
    (exists y1, In (fst (p_r1 s), y1) pts /\ snd (p_r1 s) = band_lo eps y1) ->
    (exists y2, In (fst (p_r2 s), y2) pts /\ snd (p_r2 s) = band_lo eps y2) ->
    fst (p_r0 s) < fst (p_r2 s) ->
    fst (p_r1 s) < fst (p_r3 s) ->
    (forall p, In p pts -> fst p <= p_last_x s) ->
    add_point y_size_t s x y = Ok (false, s') ->
    exists pi pj pk pl,
      In pi (pts ++ [(x, y)]) /\ In pj (pts ++ [(x, y)]) /\
      In pk (pts ++ [(x, y)]) /\ In pl (pts ++ [(x, y)]) /\
      cert4_b eps pi pj pk pl = true.
Proof.
  intros eps s x y pts s' Heps Hn (y0 & I0 & E0) (y3 & I3 & E3) (y1 & I1 & E1) (y2 & I2 & E2)
         H02 H13 Hlast Hadd.
  apply add_point_reject_inv in Hadd. destruct Hadd as [Hguard Hout].
  assert (Hx : p_last_x s < x).
  { apply andb_false_iff in Hguard. destruct Hguard as [Hg | Hg].
    - rewrite Z.gtb_ltb in Hg. apply Z.ltb_ge in Hg. lia.
    - apply Z.leb_gt in Hg. exact Hg. }
  rewrite Heps in Hout.
  change (fst (band y_size_t eps y)) with (band_hi eps y) in Hout.
  change (snd (band y_size_t eps y)) with (band_lo eps y) in Hout.
  assert (Inew : In (x, y) (pts ++ [(x, y)])).
  { apply in_or_app. right. left. reflexivity. }
  pose proof (Hlast _ I0) as L0. pose proof (Hlast _ I1) as L1.
  pose proof (Hlast _ I2) as L2. pose proof (Hlast _ I3) as L3.
  cbn [fst] in L0, L1, L2, L3.
  destruct Hout as [Ho1 | Ho2].
  - (* new upper band point strictly below the minimum-slope line r0 -> r2 *)
    exists (fst (p_r0 s), y0), (fst (p_r2 s), y2), (fst (p_r2 s), y2), (x, y).
    split; [apply in_or_app; left; exact I0|].
    split; [apply in_or_app; left; exact I2|].
    split; [apply in_or_app; left; exact I2|].
    split; [exact Inew|].
    unfold slt, psub in Ho1. cbn [fst snd] in Ho1. apply Z.ltb_lt in Ho1.
    rewrite E0, E2 in Ho1.
    unfold cert4_b.
    apply andb_true_intro. split; [apply andb_true_intro; split|]; apply Z.ltb_lt; lia.
  - (* new lower band point strictly above the maximum-slope line r1 -> r3 *)
    exists (fst (p_r3 s), y3), (x, y), (fst (p_r1 s), y1), (fst (p_r3 s), y3).
    split; [apply in_or_app; left; exact I3|].
    split; [exact Inew|].
    split; [apply in_or_app; left; exact I1|].
    split; [apply in_or_app; left; exact I3|].
    unfold sgt, psub in Ho2. cbn [fst snd] in Ho2. rewrite Z.gtb_ltb in Ho2. apply Z.ltb_lt in Ho2.
    rewrite E1, E3 in Ho2.
    unfold cert4_b.
    apply andb_true_intro. split; [apply andb_true_intro; split|]; apply Z.ltb_lt; lia.
Qed.

(* Strong form: neither 0 <= eps nor ranks_ok is needed. *)
Theorem add_point_complete_strong :
  forall eps s x y pts s',
    p_eps s = eps ->
    2 <= p_n s ->
    (exists y0, In (fst (p_r0 s), y0) pts /\ snd (p_r0 s) = band_hi eps y0) ->
    (exists y3, In (fst (p_r3 s), y3) pts /\ snd (p_r3 s) = band_hi eps y3) ->
    (exists y1, In (fst (p_r1 s), y1) pts /\ snd (p_r1 s) = band_lo eps y1) ->
    (exists y2, In (fst (p_r2 s), y2) pts /\ snd (p_r2 s) = band_lo eps y2) ->
    fst (p_r0 s) < fst (p_r2 s) ->
    fst (p_r1 s) < fst (p_r3 s) ->
    (forall p, In p pts -> fst p <= p_last_x s) ->
    add_point y_size_t s x y = Ok (false, s') ->
    ~ feasible eps (pts ++ [(x, y)]).
Proof.
  intros eps s x y pts s' Heps Hn H0 H3 H1 H2 H02 H13 Hlast Hadd.
  destruct (add_point_reject_cert4 eps s x y pts s' Heps Hn H0 H3 H1 H2 H02 H13 Hlast Hadd)
    as (pi & pj & pk & pl & Ii & Ij & Ik & Il & Hc).
  exact (cert4_b_sound eps pi pj pk pl _ Hc Ii Ij Ik Il).
Qed.

(* The statement as requested (with the side conditions of the soundness development). *)
Theorem add_point_complete :
  forall eps s x y pts s',
    0 <= eps ->
    p_eps s = eps ->
    2 <= p_n s ->
    (exists y0, In (fst (p_r0 s), y0) pts /\ snd (p_r0 s) = band_hi eps y0) ->
    (exists y3, In (fst (p_r3 s), y3) pts /\ snd (p_r3 s) = band_hi eps y3) ->
    (exists y1, In (fst (p_r1 s), y1) pts /\ snd (p_r1 s) = band_lo eps y1) ->
    (exists y2, In (fst (p_r2 s), y2) pts /\ snd (p_r2 s) = band_lo eps y2) ->
    fst (p_r0 s) < fst (p_r2 s) ->
    fst (p_r1 s) < fst (p_r3 s) ->
    (forall p, In p pts -> fst p <= p_last_x s) ->
    p_last_x s < x ->
    ranks_ok eps (pts ++ [(x, y)]) ->
    add_point y_size_t s x y = Ok (false, s') ->
    ~ feasible eps (pts ++ [(x, y)]).
Proof.
  intros eps s x y pts s' _ Heps Hn H0 H3 H1 H2 H02 H13 Hlast _ _ Hadd.
  exact (add_point_complete_strong eps s x y pts s' Heps Hn H0 H3 H1 H2 H02 H13 Hlast Hadd).
Qed.

(* ---------- blocks whose ranks span at most 2*eps are feasible ---------- *)

Lemma band_hi_ranks_ok : forall eps y, y + eps < 2 ^ 64 - 1 -> band_hi eps y = y + eps.
Proof.
  intros eps y H. unfold band_hi, band, y_size_t. cbn [fst ymax ymin].
  destruct (y >=? 2 ^ 64 - 1 - eps) eqn:E; [|reflexivity].
  apply Z.geb_le in E. lia.
Qed.

Lemma band_lo_cases : forall eps y,
  (y <= eps /\ band_lo eps y = 0) \/ (eps < y /\ band_lo eps y = y - eps).
Proof.
  intros eps y. unfold band_lo, band, y_size_t. cbn [snd ymax ymin].
  destruct (y <=? 0 + eps) eqn:E.
  - apply Z.leb_le in E. left. split; [lia | reflexivity].
  - apply Z.leb_gt in E. right. split; [lia | reflexivity].
Qed.

Definition max_band_lo (eps : Z) (pts : list (Z * Z)) : Z :=
  fold_right (fun p acc => Z.max (band_lo eps (snd p)) acc) 0 pts.

Lemma max_band_lo_ge : forall eps pts p, In p pts -> band_lo eps (snd p) <= max_band_lo eps pts.
Proof.
  intros eps pts. induction pts as [|a tl IH]; intros p Hp.
  - destruct Hp.
  - cbn [max_band_lo fold_right]. fold (max_band_lo eps tl).
    destruct Hp as [Hp | Hp].
    + subst a. apply Z.le_max_l.
    + pose proof (IH p Hp). lia.
Qed.

Lemma max_band_lo_le : forall eps pts b,
  0 <= b -> (forall p, In p pts -> band_lo eps (snd p) <= b) -> max_band_lo eps pts <= b.
Proof.
  intros eps pts b Hb. induction pts as [|a tl IH]; intros H.
  - cbn [max_band_lo fold_right]. exact Hb.
  - cbn [max_band_lo fold_right]. fold (max_band_lo eps tl).
    apply Z.max_lub.
    + apply H. left. reflexivity.
    + apply IH. intros p Hp. apply H. right. exact Hp.
Qed.

(* ranks within 2*eps of each other: the constant line at height max band_lo fits *)
Theorem narrow_block_feasible : forall eps pts,
  0 <= eps ->
  ranks_ok eps pts ->
  (forall p q, In p pts -> In q pts -> snd p - snd q <= 2 * eps) ->
  feasible eps pts.
Proof.
  intros eps pts Heps Hr Hspan.
  unfold ranks_ok in Hr. rewrite Forall_forall in Hr.
  exists 0, 1, (max_band_lo eps pts), 1.
  split; [lia|]. split; [lia|].
  apply Forall_forall. intros [qx qy] Hq. unfold qline_in_band.
  pose proof (max_band_lo_ge eps pts (qx, qy) Hq) as Hlo. cbn [snd] in Hlo.
  assert (Hhi : max_band_lo eps pts <= band_hi eps qy).
  { pose proof (Hr _ Hq) as [Hq0 Hq1]. cbn [snd] in Hq0, Hq1.
    rewrite (band_hi_ranks_ok eps qy Hq1).
    apply max_band_lo_le; [lia|].
    intros [px py] Hp. cbn [snd].
    pose proof (Hspan _ _ Hp Hq) as Hpq. cbn [snd] in Hpq.
    destruct (band_lo_cases eps py) as [[_ E] | [_ E]]; rewrite E; lia. }
  lia.
Qed.

(* decidability of the span condition, to state the corollary with witnesses *)
Lemma span_dec : forall (eps : Z) (pts : list (Z * Z)),
  (forall p q, In p pts -> In q pts -> snd p - snd q <= 2 * eps) \/
  (exists p q, In p pts /\ In q pts /\ 2 * eps < snd p - snd q).
Proof.
  intros eps pts.
  assert (D1 : forall (p : Z * Z) (l : list (Z * Z)),
             (forall q, In q l -> snd p - snd q <= 2 * eps) \/
             (exists q, In q l /\ 2 * eps < snd p - snd q)).
  { intros p l. induction l as [|a tl IH].
    - left. intros q Hq. destruct Hq.
    - destruct (Z_le_gt_dec (snd p - snd a) (2 * eps)) as [Hle | Hgt].
      + destruct IH as [IH | (q & Hq & Hlt)].
        * left. intros q [Hq | Hq]; [subst q; exact Hle | apply IH; exact Hq].
        * right. exists q. split; [right; exact Hq | exact Hlt].
      + right. exists a. split; [left; reflexivity | lia]. }
  assert (D2 : forall (l : list (Z * Z)),
             (forall p q, In p l -> In q pts -> snd p - snd q <= 2 * eps) \/
             (exists p q, In p l /\ In q pts /\ 2 * eps < snd p - snd q)).
  { induction l as [|a tl IH].
    - left. intros p q Hp. destruct Hp.
    - destruct (D1 a pts) as [Ha | (q & Hq & Hlt)].
      + destruct IH as [IH | (p & q & Hp & Hq & Hlt)].
        * left. intros p q [Hp | Hp] Hq; [subst p; apply Ha; exact Hq | apply IH; assumption].
        * right. exists p, q. split; [right; exact Hp|]. split; assumption.
      + right. exists a, q. split; [left; reflexivity|]. split; assumption. }
  exact (D2 pts).
Qed.

(* an infeasible block spans more than 2*eps ranks *)
Theorem infeasible_spans : forall eps pts,
  0 <= eps -> ranks_ok eps pts -> ~ feasible eps pts ->
  exists p q, In p pts /\ In q pts /\ 2 * eps < snd p - snd q.
Proof.
  intros eps pts Heps Hr Hnf.
  destruct (span_dec eps pts) as [Hspan | Hex]; [|exact Hex].
  exfalso. apply Hnf. apply narrow_block_feasible; assumption.
Qed.

(* a segment closed by a rejection: the points of the segment together with the rejected point
   (the first point of the next segment) span more than 2*eps ranks *)
Theorem starts_apart :
  forall eps s x y pts s',
    0 <= eps ->
    p_eps s = eps ->
    2 <= p_n s ->
    (exists y0, In (fst (p_r0 s), y0) pts /\ snd (p_r0 s) = band_hi eps y0) ->
    (exists y3, In (fst (p_r3 s), y3) pts /\ snd (p_r3 s) = band_hi eps y3) ->
    (exists y1, In (fst (p_r1 s), y1) pts /\ snd (p_r1 s) = band_lo eps y1) ->
    (exists y2, In (fst (p_r2 s), y2) pts /\ snd (p_r2 s) = band_lo eps y2) ->
    fst (p_r0 s) < fst (p_r2 s) ->
    fst (p_r1 s) < fst (p_r3 s) ->
    (forall p, In p pts -> fst p <= p_last_x s) ->
    ranks_ok eps (pts ++ [(x, y)]) ->
    add_point y_size_t s x y = Ok (false, s') ->
    exists p q, In p (pts ++ [(x, y)]) /\ In q (pts ++ [(x, y)]) /\ 2 * eps < snd p - snd q.
Proof.
  intros eps s x y pts s' Heps Hpe Hn H0 H3 H1 H2 H02 H13 Hlast Hr Hadd.
  apply infeasible_spans; [assumption | assumption |].
  exact (add_point_complete_strong eps s x y pts s' Hpe Hn H0 H3 H1 H2 H02 H13 Hlast Hadd).
Qed.

(* ====================================================================================== *)
(* A light invariant of the builder that discharges the hypotheses of add_point_complete.  *)
(* ====================================================================================== *)

Definition upper_of (eps : Z) (pts : list (Z * Z)) (r : pt) : Prop :=
  exists y0, In (fst r, y0) pts /\ snd r = band_hi eps y0.
Definition lower_of (eps : Z) (pts : list (Z * Z)) (r : pt) : Prop :=
  exists y0, In (fst r, y0) pts /\ snd r = band_lo eps y0.

Definition rect_inv (eps : Z) (cur : list (Z * Z)) (s : pla) : Prop :=
  p_eps s = eps /\
  p_n s = zlen cur /\
  (1 <= p_n s ->
     upper_of eps cur (p_r0 s) /\ lower_of eps cur (p_r1 s) /\
     p_upper s <> [] /\ p_lower s <> [] /\
     Forall (upper_of eps cur) (p_upper s) /\ Forall (lower_of eps cur) (p_lower s) /\
     (forall p, In p cur -> fst p <= p_last_x s)) /\
  (2 <= p_n s ->
     lower_of eps cur (p_r2 s) /\ upper_of eps cur (p_r3 s) /\
     fst (p_r0 s) < fst (p_r2 s) /\ fst (p_r1 s) < fst (p_r3 s)) /\
  (eps = 0 -> 1 <= p_n s -> p_r0 s = p_r1 s) /\
  (eps = 0 -> 2 <= p_n s -> p_r2 s = p_r3 s).

Lemma upper_of_app : forall eps a b r, upper_of eps a r -> upper_of eps (a ++ b) r.
Proof.
  intros eps a b r (y0 & Hin & E). exists y0. split; [apply in_or_app; left; exact Hin | exact E].
Qed.
Lemma lower_of_app : forall eps a b r, lower_of eps a r -> lower_of eps (a ++ b) r.
Proof.
  intros eps a b r (y0 & Hin & E). exists y0. split; [apply in_or_app; left; exact Hin | exact E].
Qed.
Lemma upper_of_new : forall eps a x y, upper_of eps (a ++ [(x, y)]) (x, band_hi eps y).
Proof.
  intros eps a x y. exists y. cbn [fst snd]. split; [apply in_or_app; right; left; reflexivity | reflexivity].
Qed.
Lemma lower_of_new : forall eps a x y, lower_of eps (a ++ [(x, y)]) (x, band_lo eps y).
Proof.
  intros eps a x y. exists y. cbn [fst snd]. split; [apply in_or_app; right; left; reflexivity | reflexivity].
Qed.

Lemma upper_of_x_le : forall eps cur r m,
  (forall p, In p cur -> fst p <= m) -> upper_of eps cur r -> fst r <= m.
Proof.
  intros eps cur r m H (y0 & Hin & _). exact (H _ Hin).
Qed.
Lemma lower_of_x_le : forall eps cur r m,
  (forall p, In p cur -> fst p <= m) -> lower_of eps cur r -> fst r <= m.
Proof.
  intros eps cur r m H (y0 & Hin & _). exact (H _ Hin).
Qed.

(* ---------- the hull helper functions only select / drop elements ---------- *)

Lemma tangent_lower_spec : forall (P : pt -> Prop) p rest c,
  P c -> Forall P rest ->
  tangent_lower p c rest <> [] /\ Forall P (tangent_lower p c rest).
Proof.
  intros P p rest. induction rest as [|q rest' IH]; intros c Hc Hrest.
  - cbn [tangent_lower]. split; [discriminate | constructor; [exact Hc | constructor]].
  - cbn [tangent_lower]. destruct (sgt (psub q p) (psub c p)).
    + split; [discriminate | constructor; assumption].
    + inversion Hrest; subst. apply IH; assumption.
Qed.

Lemma tangent_upper_spec : forall (P : pt -> Prop) p rest c,
  P c -> Forall P rest ->
  tangent_upper p c rest <> [] /\ Forall P (tangent_upper p c rest).
Proof.
  intros P p rest. induction rest as [|q rest' IH]; intros c Hc Hrest.
  - cbn [tangent_upper]. split; [discriminate | constructor; [exact Hc | constructor]].
  - cbn [tangent_upper]. destruct (slt (psub q p) (psub c p)).
    + split; [discriminate | constructor; assumption].
    + inversion Hrest; subst. apply IH; assumption.
Qed.

Lemma hd_pt_Forall : forall (P : pt -> Prop) l, l <> [] -> Forall P l -> P (hd_pt l).
Proof.
  intros P l Hne Hall. destruct l as [|a tl]; [contradiction|].
  inversion Hall; subst. exact H1.
Qed.

Lemma pop_upper_spec : forall (P : pt -> Prop) p rl,
  rl <> [] -> Forall P rl -> pop_upper p rl <> [] /\ Forall P (pop_upper p rl).
Proof.
  intros P p rl. induction rl as [|a tl IH]; intros Hne Hall.
  - contradiction.
  - cbn [pop_upper]. destruct tl as [|b tl'].
    + split; assumption.
    + destruct (cross b a p <=? 0).
      * inversion Hall; subst. apply IH; [discriminate | assumption].
      * split; assumption.
Qed.

Lemma pop_lower_spec : forall (P : pt -> Prop) p rl,
  rl <> [] -> Forall P rl -> pop_lower p rl <> [] /\ Forall P (pop_lower p rl).
Proof.
  intros P p rl. induction rl as [|a tl IH]; intros Hne Hall.
  - contradiction.
  - cbn [pop_lower]. destruct tl as [|b tl'].
    + split; assumption.
    + destruct (cross b a p >=? 0).
      * inversion Hall; subst. apply IH; [discriminate | assumption].
      * split; assumption.
Qed.

Lemma rev_neq_nil : forall (A : Type) (l : list A), l <> [] -> rev l <> [].
Proof.
  intros A l H E. apply H. rewrite <- (rev_involutive l). rewrite E. reflexivity.
Qed.

(* push_upper u p = m ++ [p] with m a non-empty selection of u *)
Lemma push_upper_spec : forall (P : pt -> Prop) u p,
  u <> [] -> Forall P u ->
  exists m, push_upper u p = m ++ [p] /\ m <> [] /\ Forall P m.
Proof.
  intros P u p Hne Hall. unfold push_upper.
  destruct (pop_upper_spec P p (rev u)) as [Hne' Hall'].
  - apply rev_neq_nil. exact Hne.
  - apply Forall_rev. exact Hall.
  - exists (rev (pop_upper p (rev u))). split; [reflexivity|]. split.
    + apply rev_neq_nil. exact Hne'.
    + apply Forall_rev. exact Hall'.
Qed.

Lemma push_lower_spec : forall (P : pt -> Prop) l p,
  l <> [] -> Forall P l ->
  exists m, push_lower l p = m ++ [p] /\ m <> [] /\ Forall P m.
Proof.
  intros P l p Hne Hall. unfold push_lower.
  destruct (pop_lower_spec P p (rev l)) as [Hne' Hall'].
  - apply rev_neq_nil. exact Hne.
  - apply Forall_rev. exact Hall.
  - exists (rev (pop_lower p (rev l))). split; [reflexivity|]. split.
    + apply rev_neq_nil. exact Hne'.
    + apply Forall_rev. exact Hall'.
Qed.

(* the tangent search from the new lower point never selects the new upper point (same x, higher) *)
Lemma tangent_upper_hd_lt : forall x yl yu rest c,
  yl < yu -> fst c < x ->
  Forall (fun q => fst q < x \/ q = (x, yu)) rest ->
  fst (hd_pt (tangent_upper (x, yl) c rest)) < x.
Proof.
  intros x yl yu rest. induction rest as [|q rest' IH]; intros c Hy Hc Hrest.
  - cbn [tangent_upper hd_pt hd]. exact Hc.
  - cbn [tangent_upper]. destruct (slt (psub q (x, yl)) (psub c (x, yl))) eqn:E.
    + cbn [hd_pt hd]. exact Hc.
    + inversion Hrest as [|q0 r0 Hq Hrest']; subst.
      apply IH; [exact Hy | | exact Hrest'].
      destruct Hq as [Hq | Hq]; [exact Hq|].
      exfalso. subst q. unfold slt, psub in E. cbn [fst snd] in E.
      apply Z.ltb_ge in E.
      assert (0 < (yu - yl) * (x - fst c)) by (apply Z.mul_pos_pos; lia).
      replace ((x - x) * (snd c - yl)) with 0 in E by ring.
      replace ((yu - yl) * (fst c - x)) with (- ((yu - yl) * (x - fst c))) in E by ring.
      lia.
Qed.

(* bands under ranks_ok *)
Lemma band_lo_lt_hi : forall eps y, 0 < eps -> 0 <= y -> y + eps < 2 ^ 64 - 1 -> band_lo eps y < band_hi eps y.
Proof.
  intros eps y He Hy Hr. rewrite (band_hi_ranks_ok eps y Hr).
  destruct (band_lo_cases eps y) as [[_ E] | [_ E]]; rewrite E; lia.
Qed.
Lemma band_eps0 : forall y, 0 <= y -> y + 0 < 2 ^ 64 - 1 -> band_lo 0 y = y /\ band_hi 0 y = y.
Proof.
  intros y Hy Hr. rewrite (band_hi_ranks_ok 0 y Hr).
  destruct (band_lo_cases 0 y) as [[H E] | [H E]]; rewrite E; lia.
Qed.

(* with eps = 0 the rectangle is degenerate (r0 = r1, r2 = r3) and an accepted point lies on the
   line r0 r2, so neither update branch is taken *)
Lemma eps0_no_branch : forall r0 r2 p : pt,
  slt (psub p r2) (psub r2 r0) = false ->
  sgt (psub p r2) (psub r2 r0) = false ->
  slt (psub p r0) (psub r2 r0) = false /\ sgt (psub p r0) (psub r2 r0) = false.
Proof.
  intros [x0 y0] [x2 y2] [x y]. unfold slt, sgt, psub. cbn [fst snd]. intros H1 H2.
  rewrite Z.gtb_ltb in H2. apply Z.ltb_ge in H1. apply Z.ltb_ge in H2.
  assert (E : (y - y2) * (x2 - x0) = (x - x2) * (y2 - y0)) by lia.
  assert (E1 : (y - y0) * (x2 - x0) = (y - y2) * (x2 - x0) + (y2 - y0) * (x2 - x0)) by ring.
  assert (E2 : (x - x0) * (y2 - y0) = (x - x2) * (y2 - y0) + (y2 - y0) * (x2 - x0)) by ring.
  rewrite Z.gtb_ltb. split; apply Z.ltb_ge; lia.
Qed.

Section Step.
  Variables (eps : Z) (cur : list (Z * Z)) (s : pla) (x y : Z).
  Hypothesis Heps0 : 0 <= eps.
  Hypothesis Hy0 : 0 <= y.
  Hypothesis Hy1 : y + eps < 2 ^ 64 - 1.
  Hypothesis Hlastx : p_last_x s < x.
  Hypothesis Hlast : forall p, In p cur -> fst p <= p_last_x s.

  Let new := cur ++ [(x, y)].
  Let p1 : pt := (x, band_hi eps y).
  Let p2 : pt := (x, band_lo eps y).

  Lemma branch1_facts : forall lower1 upper1 r1' r3',
    lower_of eps cur (p_r1 s) -> upper_of eps cur (p_r3 s) ->
    fst (p_r1 s) < fst (p_r3 s) ->
    p_lower s <> [] -> p_upper s <> [] ->
    Forall (lower_of eps cur) (p_lower s) -> Forall (upper_of eps cur) (p_upper s) ->
    (if slt (psub p1 (p_r1 s)) (psub (p_r3 s) (p_r1 s))
     then match p_lower s with
          | [] => (p_lower s, p_upper s, p_r1 s, p_r3 s)
          | c :: rest =>
              (tangent_lower p1 c rest, push_upper (p_upper s) p1,
               hd_pt (tangent_lower p1 c rest), p1)
          end
     else (p_lower s, p_upper s, p_r1 s, p_r3 s)) = (lower1, upper1, r1', r3') ->
    lower_of eps cur r1' /\ upper_of eps new r3' /\ fst r1' < fst r3' /\
    lower1 <> [] /\ Forall (lower_of eps cur) lower1 /\
    (upper1 = p_upper s \/ exists m, upper1 = m ++ [p1] /\ m <> [] /\ Forall (upper_of eps cur) m) /\
    (slt (psub p1 (p_r1 s)) (psub (p_r3 s) (p_r1 s)) = false -> r1' = p_r1 s /\ r3' = p_r3 s).
  Proof.
    intros lower1 upper1 r1' r3' Hr1 Hr3 H13 Hlne Hune Hlall Huall E.
    destruct (slt (psub p1 (p_r1 s)) (psub (p_r3 s) (p_r1 s))) eqn:Eb.
    - destruct (p_lower s) as [|c rest] eqn:El; [contradiction|].
      inversion E; subst lower1 upper1 r1' r3'. clear E.
      inversion Hlall as [|c0 rest0 Hc Hrest]; subst.
      destruct (tangent_lower_spec (lower_of eps cur) p1 rest c Hc Hrest) as [Tne Tall].
      pose proof (hd_pt_Forall _ _ Tne Tall) as Hhd.
      split; [exact Hhd|].
      split; [apply upper_of_new|].
      split.
      { pose proof (lower_of_x_le eps cur _ _ Hlast Hhd). change (fst p1) with x. lia. }
      split; [exact Tne|]. split; [exact Tall|].
      split.
      { right. apply push_upper_spec; assumption. }
      intros Hf. discriminate Hf.
    - inversion E; subst lower1 upper1 r1' r3'. clear E.
      split; [exact Hr1|]. split; [apply upper_of_app; exact Hr3|]. split; [exact H13|].
      split; [exact Hlne|]. split; [exact Hlall|]. split; [left; reflexivity|].
      intros _. split; reflexivity.
  Qed.

  Lemma branch2_facts : forall lower1 upper1 lower2 upper2 r0' r2',
    0 < eps \/ (upper1 = p_upper s) ->
    upper_of eps cur (p_r0 s) -> lower_of eps cur (p_r2 s) ->
    fst (p_r0 s) < fst (p_r2 s) ->
    lower1 <> [] -> Forall (lower_of eps cur) lower1 ->
    p_upper s <> [] -> Forall (upper_of eps cur) (p_upper s) ->
    (upper1 = p_upper s \/ exists m, upper1 = m ++ [p1] /\ m <> [] /\ Forall (upper_of eps cur) m) ->
    (if sgt (psub p2 (p_r0 s)) (psub (p_r2 s) (p_r0 s))
     then match upper1 with
          | [] => (lower1, upper1, p_r0 s, p_r2 s)
          | c :: rest =>
              (push_lower lower1 p2, tangent_upper p2 c rest, hd_pt (tangent_upper p2 c rest), p2)
          end
     else (lower1, upper1, p_r0 s, p_r2 s)) = (lower2, upper2, r0', r2') ->
    upper_of eps new r0' /\ lower_of eps new r2' /\ fst r0' < fst r2' /\
    lower2 <> [] /\ Forall (lower_of eps new) lower2 /\
    upper2 <> [] /\ Forall (upper_of eps new) upper2 /\
    (sgt (psub p2 (p_r0 s)) (psub (p_r2 s) (p_r0 s)) = false -> r0' = p_r0 s /\ r2' = p_r2 s).
  Proof.
    intros lower1 upper1 lower2 upper2 r0' r2' Hcase Hr0 Hr2 H02 Hlne Hlall Hune Huall Hshape E.
    assert (Hu1ne : upper1 <> []).
    { destruct Hshape as [-> | (m & -> & _ & _)]; [exact Hune|].
      intros C. apply app_eq_nil in C. destruct C as [_ C]. discriminate C. }
    assert (Hu1all : Forall (upper_of eps new) upper1).
    { destruct Hshape as [-> | (m & -> & _ & Hm)].
      - eapply Forall_impl; [|exact Huall]. intros a Ha. apply upper_of_app. exact Ha.
      - apply Forall_app. split.
        + eapply Forall_impl; [|exact Hm]. intros a Ha. apply upper_of_app. exact Ha.
        + constructor; [apply upper_of_new | constructor]. }
    assert (Hl1all : Forall (lower_of eps new) lower1).
    { eapply Forall_impl; [|exact Hlall]. intros a Ha. apply lower_of_app. exact Ha. }
    destruct (sgt (psub p2 (p_r0 s)) (psub (p_r2 s) (p_r0 s))) eqn:Eb.
    - destruct upper1 as [|c rest] eqn:Eu; [contradiction|].
      inversion E; subst lower2 upper2 r0' r2'. clear E.
      inversion Hu1all as [|c0 rest0 Hc Hrest]; subst.
      destruct (tangent_upper_spec (upper_of eps new) p2 rest c Hc Hrest) as [Tne Tall].
      pose proof (hd_pt_Forall _ _ Tne Tall) as Hhd.
      split; [exact Hhd|].
      split; [apply lower_of_new|].
      split.
      { (* the selected corner is strictly left of x *)
        change (fst p2) with x.
        destruct Hshape as [Hsh | (m & Hsh & Hmne & Hm)].
        - (* upper1 is the old hull: every element is a point of cur *)
          assert (Hin : Forall (upper_of eps cur) (tangent_upper p2 c rest)).
          { rewrite <- Hsh in Huall. inversion Huall; subst.
            apply tangent_upper_spec; assumption. }
          pose proof (hd_pt_Forall _ _ Tne Hin) as Hhd'.
          pose proof (upper_of_x_le eps cur _ _ Hlast Hhd'). lia.
        - destruct Hcase as [Hpos | Hsame].
          + destruct m as [|m0 m']; [contradiction|].
            cbn [app] in Hsh. injection Hsh as Hc0 Hrest0. subst c rest.
            inversion Hm as [|m00 m'' Hm0 Hm']; subst.
            unfold p2. apply (tangent_upper_hd_lt x (band_lo eps y) (band_hi eps y)).
            * apply band_lo_lt_hi; assumption.
            * pose proof (upper_of_x_le eps cur _ _ Hlast Hm0). lia.
            * apply Forall_app. split.
              -- eapply Forall_impl; [|exact Hm']. intros a Ha. left.
                 pose proof (upper_of_x_le eps cur _ _ Hlast Ha). lia.
              -- constructor; [right; reflexivity | constructor].
          + (* upper1 = p_upper s as well *)
            assert (Hin : Forall (upper_of eps cur) (tangent_upper p2 c rest)).
            { rewrite <- Hsame in Huall. inversion Huall; subst.
              apply tangent_upper_spec; assumption. }
            pose proof (hd_pt_Forall _ _ Tne Hin) as Hhd'.
            pose proof (upper_of_x_le eps cur _ _ Hlast Hhd'). lia. }
      split.
      { destruct (push_lower_spec (lower_of eps new) lower1 p2 Hlne Hl1all) as (m & -> & _ & _).
        intros C. apply app_eq_nil in C. destruct C as [_ C]. discriminate C. }
      split.
      { destruct (push_lower_spec (lower_of eps new) lower1 p2 Hlne Hl1all) as (m & -> & _ & Hm).
        apply Forall_app. split; [exact Hm|]. constructor; [apply lower_of_new | constructor]. }
      split; [exact Tne|]. split; [exact Tall|].
      intros Hf. discriminate Hf.
    - inversion E; subst lower2 upper2 r0' r2'. clear E.
      split; [apply upper_of_app; exact Hr0|]. split; [apply lower_of_app; exact Hr2|].
      split; [exact H02|].
      split; [exact Hlne|]. split; [exact Hl1all|].
      split; [exact Hu1ne|]. split; [exact Hu1all|].
      intros _. split; reflexivity.
  Qed.
End Step.

Lemma band_eq_eps0 : forall eps y, eps = 0 -> 0 <= y -> y + eps < 2 ^ 64 - 1 ->
  band_lo eps y = y /\ band_hi eps y = y.
Proof. intros eps y E Hy Hr. subst eps. apply band_eps0; assumption. Qed.

Lemma zlen_app1 : forall (A : Type) (l : list A) (a : A), zlen (l ++ [a]) = zlen l + 1.
Proof.
  intros A l a. unfold zlen. rewrite app_length. cbn [length]. lia.
Qed.
Lemma zlen_0_nil : forall (A : Type) (l : list A), zlen l = 0 -> l = [].
Proof.
  intros A l H. destruct l as [|a tl]; [reflexivity|]. unfold zlen in H. cbn [length] in H. lia.
Qed.
Lemma zlen_nonneg : forall (A : Type) (l : list A), 0 <= zlen l.
Proof. intros A l. unfold zlen. lia. Qed.

Lemma rect_inv_init : forall eps s, pla_init eps = Ok s -> rect_inv eps [] s /\ 0 <= eps.
Proof.
  intros eps s H. unfold pla_init in H. destruct (eps <? 0) eqn:E; [discriminate H|].
  apply Z.ltb_ge in E. injection H as <-. split; [|exact E].
  unfold rect_inv. cbn [p_eps p_lower p_upper p_first_x p_last_x p_n p_r0 p_r1 p_r2 p_r3].
  split; [reflexivity|]. split; [reflexivity|].
  split; [intros C; lia|]. split; [intros C; lia|]. split; intros _ C; lia.
Qed.

Lemma rect_inv_step : forall eps cur s x y s',
  0 <= eps -> 0 <= y -> y + eps < 2 ^ 64 - 1 ->
  rect_inv eps cur s ->
  add_point y_size_t s x y = Ok (true, s') ->
  rect_inv eps (cur ++ [(x, y)]) s'.
Proof.
  intros eps cur s x y s' Heps Hy0 Hy1 (He & Hn & I1 & I2 & Z1 & Z2) Hadd.
  unfold add_point in Hadd.
  destruct ((p_n s >? 0) && (x <=? p_last_x s)) eqn:Hguard; [discriminate Hadd|].
  rewrite He in Hadd.
  destruct (band y_size_t eps y) as [yu yl] eqn:Hband.
  assert (Hyu : yu = band_hi eps y) by (unfold band_hi; rewrite Hband; reflexivity).
  assert (Hyl : yl = band_lo eps y) by (unfold band_lo; rewrite Hband; reflexivity).
  clear Hband. subst yu yl.
  assert (Hx : 1 <= p_n s -> p_last_x s < x).
  { intros Hn1. apply andb_false_iff in Hguard. destruct Hguard as [Hg | Hg].
    - rewrite Z.gtb_ltb in Hg. apply Z.ltb_ge in Hg. lia.
    - apply Z.leb_gt in Hg. exact Hg. }
  clear Hguard.
  pose proof (zlen_nonneg _ cur) as Hlen0.
  destruct (p_n s =? 0) eqn:Hn0.
  { (* first point of a segment *)
    apply Z.eqb_eq in Hn0. injection Hadd as <-.
    assert (Hcur : cur = []) by (apply zlen_0_nil; lia). subst cur.
    unfold rect_inv. cbn [p_eps p_lower p_upper p_first_x p_last_x p_n p_r0 p_r1 p_r2 p_r3].
    split; [reflexivity|]. split; [reflexivity|].
    split.
    { intros _. split; [apply upper_of_new|]. split; [apply lower_of_new|].
      split; [discriminate|]. split; [discriminate|].
      split; [constructor; [apply upper_of_new | constructor]|].
      split; [constructor; [apply lower_of_new | constructor]|].
      intros p [Hp | []]. subst p. cbn [fst]. lia. }
    split; [intros C; lia|].
    split; [|intros _ C; lia].
    intros E0 _. destruct (band_eq_eps0 eps y E0 Hy0 Hy1) as [-> ->]. reflexivity. }
  apply Z.eqb_neq in Hn0.
  destruct (p_n s =? 1) eqn:Hn1.
  { (* second point *)
    apply Z.eqb_eq in Hn1. injection Hadd as <-.
    assert (H1 : 1 <= p_n s) by lia.
    destruct (I1 H1) as (Hr0 & Hr1 & Hune & Hlne & Huall & Hlall & Hlast).
    pose proof (Hx H1) as Hxx.
    unfold rect_inv. cbn [p_eps p_lower p_upper p_first_x p_last_x p_n p_r0 p_r1 p_r2 p_r3].
    split; [reflexivity|]. split; [rewrite zlen_app1; lia|].
    split.
    { intros _. split; [apply upper_of_app; exact Hr0|]. split; [apply lower_of_app; exact Hr1|].
      split; [intros C; apply app_eq_nil in C; destruct C as [_ C]; discriminate C|].
      split; [intros C; apply app_eq_nil in C; destruct C as [_ C]; discriminate C|].
      split.
      { apply Forall_app. split.
        - eapply Forall_impl; [|exact Huall]. intros a Ha. apply upper_of_app. exact Ha.
        - constructor; [apply upper_of_new | constructor]. }
      split.
      { apply Forall_app. split.
        - eapply Forall_impl; [|exact Hlall]. intros a Ha. apply lower_of_app. exact Ha.
        - constructor; [apply lower_of_new | constructor]. }
      intros p Hp. apply in_app_or in Hp. destruct Hp as [Hp | [Hp | []]].
      - pose proof (Hlast _ Hp). lia.
      - subst p. cbn [fst]. lia. }
    split.
    { intros _. split; [apply lower_of_new|]. split; [apply upper_of_new|]. cbn [fst].
      pose proof (upper_of_x_le eps cur _ _ Hlast Hr0).
      pose proof (lower_of_x_le eps cur _ _ Hlast Hr1). lia. }
    split.
    { intros E0 _. apply Z1; [exact E0 | lia]. }
    intros E0 _. destruct (band_eq_eps0 eps y E0 Hy0 Hy1) as [-> ->]. reflexivity. }
  apply Z.eqb_neq in Hn1.
  (* third and later points *)
  assert (H1 : 1 <= p_n s) by lia.
  assert (H2 : 2 <= p_n s) by lia.
  destruct (I1 H1) as (Hr0 & Hr1 & Hune & Hlne & Huall & Hlall & Hlast).
  destruct (I2 H2) as (Hr2 & Hr3 & H02 & H13).
  pose proof (Hx H1) as Hxx.
  destruct (slt (psub (x, band_hi eps y) (p_r2 s)) (psub (p_r2 s) (p_r0 s))) eqn:Ho1;
    [discriminate Hadd|].
  destruct (sgt (psub (x, band_lo eps y) (p_r3 s)) (psub (p_r3 s) (p_r1 s))) eqn:Ho2;
    [discriminate Hadd|].
  cbn [orb] in Hadd.
  destruct (if slt (psub (x, band_hi eps y) (p_r1 s)) (psub (p_r3 s) (p_r1 s))
            then match p_lower s with
                 | [] => (p_lower s, p_upper s, p_r1 s, p_r3 s)
                 | c :: rest =>
                     (tangent_lower (x, band_hi eps y) c rest, push_upper (p_upper s) (x, band_hi eps y),
                      hd_pt (tangent_lower (x, band_hi eps y) c rest), (x, band_hi eps y))
                 end
            else (p_lower s, p_upper s, p_r1 s, p_r3 s)) as [[[lower1 upper1] r1'] r3'] eqn:E1.
  destruct (if sgt (psub (x, band_lo eps y) (p_r0 s)) (psub (p_r2 s) (p_r0 s))
            then match upper1 with
                 | [] => (lower1, upper1, p_r0 s, p_r2 s)
                 | c :: rest =>
                     (push_lower lower1 (x, band_lo eps y), tangent_upper (x, band_lo eps y) c rest,
                      hd_pt (tangent_upper (x, band_lo eps y) c rest), (x, band_lo eps y))
                 end
            else (lower1, upper1, p_r0 s, p_r2 s)) as [[[lower2 upper2] r0'] r2'] eqn:E2.
  injection Hadd as <-.
  (* with eps = 0 neither branch is taken *)
  assert (Hz : eps = 0 ->
               slt (psub (x, band_hi eps y) (p_r1 s)) (psub (p_r3 s) (p_r1 s)) = false /\
               sgt (psub (x, band_lo eps y) (p_r0 s)) (psub (p_r2 s) (p_r0 s)) = false).
  { intros E0. pose proof (Z1 E0 H1) as E01. pose proof (Z2 E0 H2) as E23.
    destruct (band_eq_eps0 eps y E0 Hy0 Hy1) as [Elo Ehi].
    rewrite Elo in *. rewrite Ehi in *. rewrite <- E01, <- E23 in *.
    destruct (eps0_no_branch (p_r0 s) (p_r2 s) (x, y) Ho1 Ho2) as [A B]. split; assumption. }
  assert (Hcase : 0 < eps \/ upper1 = p_upper s).
  { destruct (Z.eq_dec eps 0) as [E0 | NE0]; [|left; lia].
    right. destruct (Hz E0) as [A _]. rewrite A in E1. injection E1 as _ <- _ _. reflexivity. }
  destruct (branch1_facts eps cur s x y Hxx Hlast lower1 upper1 r1' r3'
              Hr1 Hr3 H13 Hlne Hune Hlall Huall E1)
    as (Fr1 & Fr3 & F13 & Fl1ne & Fl1all & Fshape & Fsame1).
  destruct (branch2_facts eps cur s x y Hy0 Hy1 Hxx Hlast lower1 upper1 lower2 upper2 r0' r2'
              Hcase Hr0 Hr2 H02 Fl1ne Fl1all Hune Huall Fshape E2)
    as (Fr0 & Fr2 & F02 & Fl2ne & Fl2all & Fu2ne & Fu2all & Fsame2).
  unfold rect_inv. cbn [p_eps p_lower p_upper p_first_x p_last_x p_n p_r0 p_r1 p_r2 p_r3].
  split; [reflexivity|]. split; [rewrite zlen_app1; lia|].
  split.
  { intros _. split; [exact Fr0|]. split; [apply lower_of_app; exact Fr1|].
    split; [exact Fu2ne|]. split; [exact Fl2ne|]. split; [exact Fu2all|]. split; [exact Fl2all|].
    intros p Hp. apply in_app_or in Hp. destruct Hp as [Hp | [Hp | []]].
    - pose proof (Hlast _ Hp). lia.
    - subst p. cbn [fst]. lia. }
  split.
  { intros _. split; [exact Fr2|]. split; [exact Fr3|]. split; assumption. }
  split.
  { intros E0 _. destruct (Hz E0) as [A B].
    destruct (Fsame1 A) as [-> _]. destruct (Fsame2 B) as [-> _]. exact (Z1 E0 H1). }
  intros E0 _. destruct (Hz E0) as [A B].
  destruct (Fsame1 A) as [_ ->]. destruct (Fsame2 B) as [_ ->]. exact (Z2 E0 H2).
Qed.

(* ---------- unconditional completeness of the builder ---------- *)

Lemma add_point_reject_state : forall yt s x y s',
  add_point yt s x y = Ok (false, s') ->
  p_n s <> 0 /\ p_n s <> 1 /\
  s' = mkPla (p_eps s) (p_lower s) (p_upper s) (p_first_x s) x 0
             (p_r0 s) (p_r1 s) (p_r2 s) (p_r3 s).
Proof.
  intros yt s x y s' H. unfold add_point in H.
  destruct ((p_n s >? 0) && (x <=? p_last_x s)); [discriminate H|].
  destruct (band yt (p_eps s) y) as [yu yl].
  destruct (p_n s =? 0) eqn:Hn0; [discriminate H|].
  destruct (p_n s =? 1) eqn:Hn1; [discriminate H|].
  apply Z.eqb_neq in Hn0. apply Z.eqb_neq in Hn1.
  split; [exact Hn0|]. split; [exact Hn1|].
  destruct (slt (psub (x, yu) (p_r2 s)) (psub (p_r2 s) (p_r0 s))
            || sgt (psub (x, yl) (p_r3 s)) (psub (p_r3 s) (p_r1 s))).
  - injection H as <-. reflexivity.
  - exfalso.
    destruct (if slt (psub (x, yu) (p_r1 s)) (psub (p_r3 s) (p_r1 s))
              then match p_lower s with
                   | [] => (p_lower s, p_upper s, p_r1 s, p_r3 s)
                   | c :: rest =>
                       (tangent_lower (x, yu) c rest, push_upper (p_upper s) (x, yu),
                        hd_pt (tangent_lower (x, yu) c rest), (x, yu))
                   end
              else (p_lower s, p_upper s, p_r1 s, p_r3 s)) as [[[lower1 upper1] r1'] r3'].
    destruct (if sgt (psub (x, yl) (p_r0 s)) (psub (p_r2 s) (p_r0 s))
              then match upper1 with
                   | [] => (lower1, upper1, p_r0 s, p_r2 s)
                   | c :: rest =>
                       (push_lower lower1 (x, yl), tangent_upper (x, yl) c rest,
                        hd_pt (tangent_upper (x, yl) c rest), (x, yl))
                   end
              else (lower1, upper1, p_r0 s, p_r2 s)) as [[[lower2 upper2] r0'] r2'].
    discriminate H.
Qed.

Lemma add_point_fresh : forall yt s x y,
  p_n s = 0 -> exists s', add_point yt s x y = Ok (true, s').
Proof.
  intros yt s x y Hn. unfold add_point. rewrite Hn. cbn [Z.gtb Z.compare andb].
  destruct (band yt (p_eps s) y) as [yu yl]. cbn [Z.eqb]. eexists. reflexivity.
Qed.

(* a rejection, given only the light invariant *)
Theorem add_point_complete_inv : forall eps cur s x y s',
  rect_inv eps cur s ->
  add_point y_size_t s x y = Ok (false, s') ->
  ~ feasible eps (cur ++ [(x, y)]).
Proof.
  intros eps cur s x y s' (He & Hn & I1 & I2 & _ & _) Hadd.
  destruct (add_point_reject_state _ _ _ _ _ Hadd) as (N0 & N1 & _).
  pose proof (zlen_nonneg _ cur) as Hlen.
  assert (H1 : 1 <= p_n s) by lia. assert (H2 : 2 <= p_n s) by lia.
  destruct (I1 H1) as (Hr0 & Hr1 & _ & _ & _ & _ & Hlast).
  destruct (I2 H2) as (Hr2 & Hr3 & H02 & H13).
  exact (add_point_complete_strong eps s x y cur s' He H2 Hr0 Hr3 Hr1 Hr2 H02 H13 Hlast Hadd).
Qed.

Lemma feed_all_inv : forall eps pts cur s s',
  0 <= eps -> ranks_ok eps pts -> rect_inv eps cur s ->
  feed_all y_size_t s pts = Ok s' -> rect_inv eps (cur ++ pts) s'.
Proof.
  intros eps pts. induction pts as [|[x y] tl IH]; intros cur s s' Heps Hr Hinv Hf.
  - cbn [feed_all] in Hf. injection Hf as <-. rewrite app_nil_r. exact Hinv.
  - cbn [feed_all] in Hf.
    destruct (add_point y_size_t s x y) as [[ok s1]|e] eqn:Ha; cbn [bind] in Hf; [|discriminate Hf].
    cbn [fst snd] in Hf. destruct ok; [|discriminate Hf].
    unfold ranks_ok in Hr. inversion Hr as [|p0 tl0 [Hy0 Hy1] Hr']; subst. cbn [snd] in Hy0, Hy1.
    pose proof (rect_inv_step eps cur s x y s1 Heps Hy0 Hy1 Hinv Ha) as Hinv1.
    replace (cur ++ (x, y) :: tl) with ((cur ++ [(x, y)]) ++ tl)
      by (rewrite <- app_assoc; reflexivity).
    apply (IH _ s1 s' Heps Hr' Hinv1 Hf).
Qed.

(* END-TO-END: after feeding pts (all accepted) to a fresh builder, a rejection of (x,y) proves
   that no line fits pts ++ [(x,y)] *)
Theorem builder_complete : forall eps s0 pts s x y s',
  pla_init eps = Ok s0 ->
  ranks_ok eps pts ->
  feed_all y_size_t s0 pts = Ok s ->
  add_point y_size_t s x y = Ok (false, s') ->
  ~ feasible eps (pts ++ [(x, y)]).
Proof.
  intros eps s0 pts s x y s' Hinit Hr Hfeed Hadd.
  destruct (rect_inv_init eps s0 Hinit) as [Hinv0 Heps].
  pose proof (feed_all_inv eps pts [] s0 s Heps Hr Hinv0 Hfeed) as Hinv.
  cbn [app] in Hinv.
  exact (add_point_complete_inv eps pts s x y s' Hinv Hadd).
Qed.

Theorem builder_reject_spans : forall eps s0 pts s x y s',
  pla_init eps = Ok s0 ->
  ranks_ok eps (pts ++ [(x, y)]) ->
  feed_all y_size_t s0 pts = Ok s ->
  add_point y_size_t s x y = Ok (false, s') ->
  exists p q, In p (pts ++ [(x, y)]) /\ In q (pts ++ [(x, y)]) /\ 2 * eps < snd p - snd q.
Proof.
  intros eps s0 pts s x y s' Hinit Hr Hfeed Hadd.
  destruct (rect_inv_init eps s0 Hinit) as [_ Heps].
  apply infeasible_spans; [exact Heps | exact Hr |].
  apply (builder_complete eps s0 pts s x y s' Hinit); try assumption.
  unfold ranks_ok in Hr |- *. apply Forall_app in Hr. exact (proj1 Hr).
Qed.

(* ====================================================================================== *)
(* The segmentation driver: `feed` produces a greedy partition of the fed points.          *)
(* Generic in a per-builder invariant Q (to be supplied by the soundness development) that *)
(* yields a block property okb and a property R relating each emitted segment to its block.*)
(* ====================================================================================== *)

Definition rank_ok (eps y : Z) : Prop := 0 <= y /\ y + eps < 2 ^ 64 - 1.

Section Driver.
  Variable eps : Z.
  Variable okb : list (Z * Z) -> Prop.
  Variable R : cseg -> list (Z * Z) -> Prop.
  Variable Q : list (Z * Z) -> pla -> Prop.

  Hypothesis Q_first : forall s x y s',
    p_n s = 0 -> p_eps s = eps -> rank_ok eps y ->
    add_point y_size_t s x y = Ok (true, s') -> Q [(x, y)] s'.
  Hypothesis Q_step : forall cur s x y s',
    cur <> [] -> rect_inv eps cur s -> Q cur s -> rank_ok eps y ->
    add_point y_size_t s x y = Ok (true, s') -> Q (cur ++ [(x, y)]) s'.
  Hypothesis Q_ok : forall cur s, cur <> [] -> rect_inv eps cur s -> Q cur s -> okb cur.
  Hypothesis Q_R : forall cur s, cur <> [] -> rect_inv eps cur s -> Q cur s -> R (get_segment s) cur.
  (* the segment emitted after a rejection is read from the rejected builder state *)
  Hypothesis Q_R_reject : forall cur s x y s',
    cur <> [] -> rect_inv eps cur s -> Q cur s ->
    add_point y_size_t s x y = Ok (false, s') -> R (get_segment s') cur.

  Definition seg_inv (st : segst) : Prop :=
    exists g cur,
      rev (s_fed st) = concat g ++ cur /\
      Forall (fun b => b <> [] /\ okb b) g /\
      greedy (feasible eps) (g ++ [cur]) /\
      zlen g = s_c st /\
      Forall2 R (rev (s_out st)) g /\
      rect_inv eps cur (s_opt st) /\
      (cur = [] -> g = []) /\
      (cur <> [] -> Q cur (s_opt st)).

  Lemma seg_inv_init : forall s0, pla_init eps = Ok s0 -> seg_inv (mkSegst s0 [] [] 0).
  Proof.
    intros s0 H. destruct (rect_inv_init eps s0 H) as [Hinv _].
    exists [], []. cbn [s_fed s_opt s_out s_c rev concat app].
    split; [reflexivity|]. split; [constructor|]. split; [exact I|].
    split; [reflexivity|]. split; [constructor|]. split; [exact Hinv|].
    split; [intros _; reflexivity|]. intros C. contradiction.
  Qed.

  Lemma seg_inv_feed : forall st x y st',
    0 <= eps -> rank_ok eps y ->
    seg_inv st -> feed y_size_t st x y = Ok st' -> seg_inv st'.
  Proof.
    intros st x y st' Heps Hrk (g & cur & Hfed & Hg & Hgr & Hc & HR & Hinv & Hnil & HQ) Hfeed.
    destruct Hrk as [Hy0 Hy1].
    unfold feed in Hfeed.
    destruct (add_point y_size_t (s_opt st) x y) as [[ok opt1]|e] eqn:Ha;
      cbn [bind] in Hfeed; [|discriminate Hfeed].
    destruct ok.
    - (* accepted: the current block grows *)
      injection Hfeed as <-.
      pose proof (rect_inv_step eps cur (s_opt st) x y opt1 Heps Hy0 Hy1 Hinv Ha) as Hinv1.
      exists g, (cur ++ [(x, y)]). cbn [s_fed s_opt s_out s_c].
      split; [cbn [rev]; rewrite Hfed; rewrite app_assoc; reflexivity|].
      split; [exact Hg|].
      split.
      { destruct cur as [|c0 cur'].
        - rewrite (Hnil eq_refl). cbn [app greedy]. exact I.
        - apply greedy_last_extend; [discriminate | exact Hgr]. }
      split; [exact Hc|]. split; [exact HR|]. split; [exact Hinv1|].
      split.
      { intros C. apply app_eq_nil in C. destruct C as [_ C]. discriminate C. }
      intros _. destruct cur as [|c0 cur'].
      + cbn [app]. destruct Hinv as (He & Hn & _).
        apply (Q_first (s_opt st) x y opt1); [exact Hn | exact He | split; assumption | exact Ha].
      + apply (Q_step (c0 :: cur') (s_opt st) x y opt1);
          [discriminate | exact Hinv | apply HQ; discriminate | split; assumption | exact Ha].
    - (* rejected: the current block is closed, the point opens the next one *)
      destruct (add_point y_size_t opt1 x y) as [r2|e] eqn:Ha2; cbn [bind] in Hfeed;
        [|discriminate Hfeed].
      injection Hfeed as <-.
      destruct (add_point_reject_state _ _ _ _ _ Ha) as (N0 & N1 & Eopt1).
      assert (Hcur : cur <> []).
      { intros C. subst cur. destruct Hinv as (_ & Hn & _). apply N0. exact Hn. }
      assert (Hinv0 : rect_inv eps [] opt1).
      { subst opt1. destruct Hinv as (He & _).
        unfold rect_inv. cbn [p_eps p_lower p_upper p_first_x p_last_x p_n p_r0 p_r1 p_r2 p_r3].
        split; [exact He|]. split; [reflexivity|].
        split; [intros C; lia|]. split; [intros C; lia|]. split; intros _ C; lia. }
      assert (Hn0 : p_n opt1 = 0) by (subst opt1; reflexivity).
      destruct (add_point_fresh y_size_t opt1 x y Hn0) as (s2 & Es2).
      rewrite Es2 in Ha2. injection Ha2 as <-. cbn [snd].
      pose proof (rect_inv_step eps [] opt1 x y s2 Heps Hy0 Hy1 Hinv0 Es2) as Hinv2.
      cbn [app] in Hinv2.
      pose proof (add_point_complete_inv eps cur (s_opt st) x y opt1 Hinv Ha) as Hmax.
      exists (g ++ [cur]), [(x, y)]. cbn [s_fed s_opt s_out s_c].
      split.
      { cbn [rev]. rewrite Hfed. rewrite concat_app. cbn [concat]. rewrite app_nil_r.
        reflexivity. }
      split.
      { apply Forall_app. split; [exact Hg|]. constructor; [|constructor].
        split; [exact Hcur|]. apply (Q_ok cur (s_opt st) Hcur Hinv (HQ Hcur)). }
      split; [apply greedy_snoc; assumption|].
      split; [rewrite zlen_app1; lia|].
      split.
      { cbn [rev]. apply Forall2_app; [exact HR|]. constructor; [|constructor].
        apply (Q_R_reject cur (s_opt st) x y opt1 Hcur Hinv (HQ Hcur) Ha). }
      split; [exact Hinv2|].
      split; [intros C; discriminate C|].
      intros _. destruct Hinv0 as (He0 & _).
      apply (Q_first opt1 x y s2 Hn0 He0); [split; assumption | exact Es2].
  Qed.

  (* closing the run: the final segment is read with get_segment *)
  Lemma seg_inv_final : forall st,
    seg_inv st -> s_fed st <> [] ->
    exists g,
      concat g = rev (s_fed st) /\
      Forall (fun b => b <> [] /\ okb b) g /\
      greedy (feasible eps) g /\
      zlen g = s_c st + 1 /\
      Forall2 R (rev (get_segment (s_opt st) :: s_out st)) g.
  Proof.
    intros st (g & cur & Hfed & Hg & Hgr & Hc & HR & Hinv & Hnil & HQ) Hne.
    assert (Hcur : cur <> []).
    { intros C. pose proof (Hnil C) as G. subst cur g. cbn [concat app] in Hfed.
      apply Hne. rewrite <- (rev_involutive (s_fed st)). rewrite Hfed. reflexivity. }
    exists (g ++ [cur]).
    split; [rewrite concat_app; cbn [concat]; rewrite app_nil_r; symmetry; exact Hfed|].
    split.
    { apply Forall_app. split; [exact Hg|]. constructor; [|constructor].
      split; [exact Hcur|]. apply (Q_ok cur (s_opt st) Hcur Hinv (HQ Hcur)). }
    split; [exact Hgr|]. split; [rewrite zlen_app1; lia|].
    cbn [rev]. apply Forall2_app; [exact HR|]. constructor; [|constructor].
    apply (Q_R cur (s_opt st) Hcur Hinv (HQ Hcur)).
  Qed.

  (* ---- make_segmentation_chunk is a sequence of `feed`s ---- *)
  Definition seg_inv_ne (st : segst) : Prop := seg_inv st /\ s_fed st <> [].

  Lemma feed_fed_nonempty : forall st x y st', feed y_size_t st x y = Ok st' -> s_fed st' <> [].
  Proof.
    intros st x y st' H. unfold feed in H.
    destruct (add_point y_size_t (s_opt st) x y) as [[ok opt1]|e]; cbn [bind] in H; [|discriminate H].
    destruct ok.
    - injection H as <-. cbn [s_fed]. discriminate.
    - destruct (add_point y_size_t opt1 x y) as [r2|e]; cbn [bind] in H; [|discriminate H].
      injection H as <-. cbn [s_fed]. discriminate.
  Qed.

  Lemma seg_inv_ne_feed : forall st x y st',
    0 <= eps -> rank_ok eps y -> seg_inv st -> feed y_size_t st x y = Ok st' -> seg_inv_ne st'.
  Proof.
    intros st x y st' Heps Hrk Hinv Hf. split.
    - exact (seg_inv_feed st x y st' Heps Hrk Hinv Hf).
    - exact (feed_fed_nonempty st x y st' Hf).
  Qed.

  Lemma seg_inv_ne_seg_walk : forall kt l prev i st st',
    0 <= eps -> 0 <= i -> i + zlen l + eps < 2 ^ 64 - 1 ->
    seg_inv_ne st -> seg_walk kt prev l i st = Ok st' -> seg_inv_ne st'.
  Proof.
    intros kt l. induction l as [|xi tl IH]; intros prev i st st' Heps Hi Hb Hinv Hw.
    - cbn [seg_walk] in Hw. injection Hw as <-. exact Hinv.
    - destruct tl as [|xn tl'].
      + cbn [seg_walk] in Hw. injection Hw as <-. exact Hinv.
      + cbn [seg_walk] in Hw.
        pose proof (zlen_nonneg _ tl') as Hl0.
        assert (Hlen : zlen (xi :: xn :: tl') = zlen tl' + 2).
        { unfold zlen. cbn [length]. lia. }
        assert (Hlen' : zlen (xn :: tl') = zlen tl' + 1).
        { unfold zlen. cbn [length]. lia. }
        assert (Hrk : rank_ok eps i) by (unfold rank_ok; lia).
        destruct (if xi =? prev
                  then if xi + 1 <? xn then feed y_size_t st (wrapK kt (xi + 1)) i else Ok st
                  else feed y_size_t st xi i) as [st1|e] eqn:E1; cbn [bind] in Hw; [|discriminate Hw].
        assert (Hinv1 : seg_inv_ne st1).
        { destruct (xi =? prev).
          - destruct (xi + 1 <? xn).
            + exact (seg_inv_ne_feed _ _ _ _ Heps Hrk (proj1 Hinv) E1).
            + injection E1 as <-. exact Hinv.
          - exact (seg_inv_ne_feed _ _ _ _ Heps Hrk (proj1 Hinv) E1). }
        apply (IH xi (i + 1) st1 st' Heps); [lia | lia | exact Hinv1 | exact Hw].
  Qed.

  Theorem make_segmentation_chunk_greedy : forall kt n start chunk rest segs fed count,
    make_segmentation_chunk kt n start eps chunk rest = Ok (segs, fed, count) ->
    0 <= start -> start + zlen chunk <= n -> n + eps < 2 ^ 64 - 1 ->
    exists g,
      concat g = fed /\
      Forall (fun b => b <> [] /\ okb b) g /\
      greedy (feasible eps) g /\
      zlen g = count /\
      Forall2 R segs g.
  Proof.
    intros kt n start chunk rest segs fed count H Hs He Hn.
    unfold make_segmentation_chunk in H.
    destruct (pla_init eps) as [opt|e] eqn:Einit; cbn [bind] in H; [|discriminate H].
    destruct (rect_inv_init eps opt Einit) as [_ Heps].
    pose proof (seg_inv_init opt Einit) as Hinv0.
    destruct chunk as [|x0 tl]; [discriminate H|].
    pose proof (zlen_nonneg _ tl) as Hl0.
    assert (Hlen : zlen (x0 :: tl) = zlen tl + 1) by (unfold zlen; cbn [length]; lia).
    destruct (feed y_size_t (mkSegst opt [] [] 0) x0 start) as [st1|e] eqn:E1;
      cbn [bind] in H; [|discriminate H].
    assert (Hinv1 : seg_inv_ne st1).
    { apply (seg_inv_ne_feed _ _ _ _ Heps) with (3 := E1); [unfold rank_ok; lia | exact Hinv0]. }
    destruct (seg_walk kt x0 tl (start + 1) st1) as [st2|e] eqn:E2;
      cbn [bind] in H; [|discriminate H].
    assert (Hinv2 : seg_inv_ne st2).
    { apply (seg_inv_ne_seg_walk kt tl x0 (start + 1) st1 st2 Heps); [lia | lia | exact Hinv1 | exact E2]. }
    destruct (match rev (x0 :: tl) with
              | a :: b :: _ =>
                  if negb (a =? b) then feed y_size_t st2 a (start + zlen (x0 :: tl) - 1) else Ok st2
              | _ => Ok st2
              end) as [st3|e] eqn:E3; cbn [bind] in H; [|discriminate H].
    assert (Hinv3 : seg_inv_ne st3).
    { destruct (rev (x0 :: tl)) as [|a [|b r]].
      - injection E3 as <-. exact Hinv2.
      - injection E3 as <-. exact Hinv2.
      - destruct (negb (a =? b)).
        + apply (seg_inv_ne_feed _ _ _ _ Heps) with (3 := E3); [unfold rank_ok; lia | exact (proj1 Hinv2)].
        + injection E3 as <-. exact Hinv2. }
    set (xl := last (x0 :: tl) 0) in *.
    set (k := run_len xl rest) in *.
    set (end_ := start + zlen (x0 :: tl)) in *.
    destruct (if (end_ <? n) && (end_ - 1 + k + 1 <? n) && (end_ - 1 + k >? start)
              then
                do prev <- (if k >? 0 then Ok xl else nth_res (x0 :: tl) (zlen (x0 :: tl) - 2));
                if xl =? prev
                then do nx <- nth_res rest k;
                     if xl + 1 <? nx then feed y_size_t st3 (wrapK kt (xl + 1)) (end_ - 1 + k) else Ok st3
                else Ok st3
              else Ok st3) as [st4|e] eqn:E4; cbn [bind] in H; [|discriminate H].
    assert (Hinv4 : seg_inv_ne st4).
    { destruct ((end_ <? n) && (end_ - 1 + k + 1 <? n) && (end_ - 1 + k >? start)) eqn:Ec.
      - apply andb_prop in Ec. destruct Ec as [Ec Ec3]. apply andb_prop in Ec. destruct Ec as [Ec1 Ec2].
        apply Z.ltb_lt in Ec1. apply Z.ltb_lt in Ec2. rewrite Z.gtb_ltb in Ec3. apply Z.ltb_lt in Ec3.
        destruct (if k >? 0 then Ok xl else nth_res (x0 :: tl) (zlen (x0 :: tl) - 2)) as [prev|e];
          cbn [bind] in E4; [|discriminate E4].
        destruct (xl =? prev).
        + destruct (nth_res rest k) as [nx|e]; cbn [bind] in E4; [|discriminate E4].
          destruct (xl + 1 <? nx).
          * apply (seg_inv_ne_feed _ _ _ _ Heps) with (3 := E4);
              [unfold rank_ok; lia | exact (proj1 Hinv3)].
          * injection E4 as <-. exact Hinv3.
        + injection E4 as <-. exact Hinv3.
      - injection E4 as <-. exact Hinv3. }
    destruct (if end_ - 1 + k + 1 =? n then feed y_size_t st4 (wrapK kt (xl + 1)) n else Ok st4)
      as [st5|e] eqn:E5; cbn [bind] in H; [|discriminate H].
    assert (Hinv5 : seg_inv_ne st5).
    { destruct (end_ - 1 + k + 1 =? n).
      - apply (seg_inv_ne_feed _ _ _ _ Heps) with (3 := E5);
          [unfold rank_ok; unfold end_ in *; lia | exact (proj1 Hinv4)].
      - injection E5 as <-. exact Hinv4. }
    injection H as <- <- <-.
    destruct Hinv5 as [Hinv5 Hne5].
    destruct (seg_inv_final st5 Hinv5 Hne5) as (g & G1 & G2 & G3 & G4 & G5).
    exists g. split; [exact G1|]. split; [exact G2|]. split; [exact G3|]. split; [exact G4 | exact G5].
  Qed.

  (* ---- make_segmentation_par: every chunk is segmented greedily on its own ---- *)
  Definition chunk_shape (li : list (Z * Z)) (gi : list (list (Z * Z))) : Prop :=
    concat gi = li /\ Forall (fun b => b <> [] /\ okb b) gi /\ greedy (feasible eps) gi.

  Lemma skip_run_len : forall l prev first l' first',
    skip_run prev l first = (l', first') -> first <= first' /\ first' + zlen l' = first + zlen l.
  Proof.
    induction l as [|a tl IH]; intros prev first l' first' H.
    - cbn [skip_run] in H. injection H as <- <-. split; lia.
    - cbn [skip_run] in H. destruct (negb (a =? prev)).
      + injection H as <- <-. split; lia.
      + destruct (IH a (first + 1) l' first' H) as [H1 H2].
        assert (zlen (a :: tl) = zlen tl + 1) by (unfold zlen; cbn [length]; lia).
        split; lia.
  Qed.

  Lemma zlen_slice_le : forall (A : Type) (l : list A) lo hi, zlen (slice l lo hi) <= Z.max 0 (hi - lo).
  Proof.
    intros A l lo hi. unfold zlen, slice.
    pose proof (firstn_le_length (Z.to_nat (hi - lo)) (skipn (Z.to_nat lo) l)) as H.
    lia.
  Qed.

  Theorem par_chunks_greedy : forall kt n chunk_size parallelism data is_ segs fed count,
    par_chunks kt n eps chunk_size parallelism data is_ = Ok (segs, fed, count) ->
    0 <= chunk_size -> n + eps < 2 ^ 64 - 1 ->
    Forall (fun i => 0 <= i /\ (i + 1) * chunk_size <= n) is_ ->
    exists chunks gs,
      concat chunks = fed /\
      Forall2 chunk_shape chunks gs /\
      length chunks = length is_ /\
      zlen (concat gs) = count /\
      Forall2 R segs (concat gs).
  Proof.
    intros kt n cs par data is_. induction is_ as [|i rest IH]; intros segs fed count H Hcs Hn Hall.
    - cbn [par_chunks] in H. injection H as <- <- <-.
      exists [], []. split; [reflexivity|]. split; [constructor|]. split; [reflexivity|].
      split; [reflexivity | constructor].
    - cbn [par_chunks] in H.
      inversion Hall as [|i0 rest0 [Hi0 Hi1] Hall']; subst.
      set (first0 := i * cs) in *.
      set (last_ := if i =? par - 1 then n else first0 + cs) in *.
      assert (Hf0 : 0 <= first0) by (unfold first0; apply Z.mul_nonneg_nonneg; lia).
      assert (Hf0n : first0 <= n).
      { unfold first0. replace ((i + 1) * cs) with (i * cs + cs) in Hi1 by ring. lia. }
      assert (Hlast : last_ <= n).
      { unfold last_. destruct (i =? par - 1); [lia|].
        unfold first0. replace ((i + 1) * cs) with (i * cs + cs) in Hi1 by ring. lia. }
      pose proof (zlen_slice_le _ data first0 last_) as Hsl.
      match type of H with
      | bind ?e _ = _ => destruct e as [[[s1 f1] c1]|e1] eqn:Ehere; cbn [bind] in H; [|discriminate H]
      end.
      destruct (par_chunks kt n eps cs par data rest) as [[[s2 f2] c2]|e2] eqn:Etl;
        cbn [bind] in H; [|discriminate H].
      injection H as <- <- <-.
      destruct (IH s2 f2 c2 eq_refl Hcs Hn Hall') as (chunks & gs & C1 & C2 & C3 & C4 & C5).
      assert (Hhere : exists g1, chunk_shape f1 g1 /\ zlen g1 = c1 /\ Forall2 R s1 g1).
      { destruct (first0 >? 0).
        - destruct (nth_res data (first0 - 1)) as [prev|e]; cbn [bind] in Ehere; [|discriminate Ehere].
          destruct (skip_run prev (slice data first0 last_) first0) as [chunk first] eqn:Esk.
          destruct (skip_run_len _ _ _ _ _ Esk) as [Sk1 Sk2].
          destruct (first =? last_).
          + injection Ehere as <- <- <-. exists [].
            split; [split; [reflexivity|]; split; [constructor | exact I]|].
            split; [reflexivity | constructor].
          + destruct (make_segmentation_chunk_greedy kt n first chunk _ s1 f1 c1 Ehere)
              as (g & G1 & G2 & G3 & G4 & G5); [lia | lia | exact Hn |].
            exists g. split; [split; [exact G1|]; split; [exact G2 | exact G3]|].
            split; [exact G4 | exact G5].
        - destruct (make_segmentation_chunk_greedy kt n first0 _ _ s1 f1 c1 Ehere)
            as (g & G1 & G2 & G3 & G4 & G5); [lia | lia | exact Hn |].
          exists g. split; [split; [exact G1|]; split; [exact G2 | exact G3]|].
          split; [exact G4 | exact G5]. }
      destruct Hhere as (g1 & Hsh & Hc1 & HR1).
      exists (f1 :: chunks), (g1 :: gs).
      split; [cbn [concat]; rewrite C1; reflexivity|].
      split; [constructor; assumption|].
      split; [cbn [length]; rewrite C3; reflexivity|].
      split.
      { cbn [concat]. unfold zlen in *. rewrite app_length. lia. }
      cbn [concat]. apply Forall2_app; assumption.
  Qed.
End Driver.

Arguments seg_inv eps okb R Q st : clear implicits.
Arguments chunk_shape eps okb li gi : clear implicits.

(* ---------- unconditional instance: the blocks are maximal (no soundness input needed) ---------- *)

Lemma Forall2_len : forall (A B : Type) (P : A -> B -> Prop) l l', Forall2 P l l' -> length l = length l'.
Proof.
  intros A B P l l' H. induction H as [|a b l l' _ _ IH]; [reflexivity|]. cbn [length]. rewrite IH. reflexivity.
Qed.

Theorem make_segmentation_chunk_maximal : forall eps kt n start chunk rest segs fed count,
  make_segmentation_chunk kt n start eps chunk rest = Ok (segs, fed, count) ->
  0 <= start -> start + zlen chunk <= n -> n + eps < 2 ^ 64 - 1 ->
  exists g,
    concat g = fed /\ Forall (fun b => b <> []) g /\ greedy (feasible eps) g /\
    zlen g = count /\ length segs = length g.
Proof.
  intros eps kt n start chunk rest segs fed count H Hs He Hn.
  destruct (make_segmentation_chunk_greedy eps (fun _ => True) (fun _ _ => True) (fun _ _ => True)
              (fun _ _ _ _ _ _ _ _ => I) (fun _ _ _ _ _ _ _ _ _ _ => I) (fun _ _ _ _ _ => I)
              (fun _ _ _ _ _ => I) (fun _ _ _ _ _ _ _ _ _ => I)
              kt n start chunk rest segs fed count H Hs He Hn) as (g & G1 & G2 & G3 & G4 & G5).
  exists g. split; [exact G1|]. split.
  { eapply Forall_impl; [|exact G2]. intros a [Ha _]. exact Ha. }
  split; [exact G3|]. split; [exact G4|].
  exact (Forall2_len _ _ _ _ _ G5).
Qed.

(* ---------- with the soundness input: the number of segments is optimal ---------- *)

Lemma zseq_range : forall len start,
  Forall (fun i => start <= i < start + Z.of_nat len) (zseq start len).
Proof.
  induction len as [|k IH]; intros start.
  - constructor.
  - cbn [zseq]. constructor; [lia|].
    eapply Forall_impl; [|exact (IH (start + 1))]. intros a Ha. cbn beta in Ha. lia.
Qed.
Lemma zseq_length : forall len start, length (zseq start len) = len.
Proof.
  induction len as [|k IH]; intros start; [reflexivity|]. cbn [zseq length]. rewrite IH. reflexivity.
Qed.

Section Optimal.
  Variable eps : Z.
  Variable R : cseg -> list (Z * Z) -> Prop.
  Variable Q : list (Z * Z) -> pla -> Prop.

  (* what the soundness development has to supply about one builder *)
  Hypothesis Q_first : forall s x y s',
    p_n s = 0 -> p_eps s = eps -> rank_ok eps y ->
    add_point y_size_t s x y = Ok (true, s') -> Q [(x, y)] s'.
  Hypothesis Q_step : forall cur s x y s',
    cur <> [] -> rect_inv eps cur s -> Q cur s -> rank_ok eps y ->
    add_point y_size_t s x y = Ok (true, s') -> Q (cur ++ [(x, y)]) s'.
  Hypothesis Q_feasible : forall cur s, cur <> [] -> rect_inv eps cur s -> Q cur s -> feasible eps cur.
  Hypothesis Q_R : forall cur s, cur <> [] -> rect_inv eps cur s -> Q cur s -> R (get_segment s) cur.
  Hypothesis Q_R_reject : forall cur s x y s',
    cur <> [] -> rect_inv eps cur s -> Q cur s ->
    add_point y_size_t s x y = Ok (false, s') -> R (get_segment s') cur.

  Theorem make_segmentation_chunk_optimal : forall kt n start chunk rest segs fed count,
    make_segmentation_chunk kt n start eps chunk rest = Ok (segs, fed, count) ->
    0 <= start -> start + zlen chunk <= n -> n + eps < 2 ^ 64 - 1 ->
    (exists g, is_partition (feasible eps) fed g /\ greedy (feasible eps) g /\
               zlen g = count /\ Forall2 R segs g) /\
    (forall p, is_partition (feasible eps) fed p -> count <= zlen p).
  Proof.
    intros kt n start chunk rest segs fed count H Hs He Hn.
    destruct (make_segmentation_chunk_greedy eps (feasible eps) R Q
                Q_first Q_step Q_feasible Q_R Q_R_reject
                kt n start chunk rest segs fed count H Hs He Hn) as (g & G1 & G2 & G3 & G4 & G5).
    assert (Hpart : is_partition (feasible eps) fed g) by (split; assumption).
    split.
    - exists g. split; [exact Hpart|]. split; [exact G3|]. split; [exact G4 | exact G5].
    - intros p Hp. pose proof (feasible_greedy_optimal eps fed g p Hpart G3 Hp) as Hle.
      unfold zlen in *. lia.
  Qed.

  Theorem make_segmentation_optimal : forall kt n data segs fed count,
    make_segmentation kt n eps data = Ok (segs, fed, count) ->
    zlen data <= n -> n + eps < 2 ^ 64 - 1 ->
    forall p, is_partition (feasible eps) fed p -> count <= zlen p.
  Proof.
    intros kt n data segs fed count H Hd Hn.
    unfold make_segmentation in H.
    apply (make_segmentation_chunk_optimal kt n 0 data [] segs fed count H); lia.
  Qed.

  Theorem make_segmentation_par_near_optimal : forall kt threshold par n data segs fed count,
    make_segmentation_par kt threshold par n eps data = Ok (segs, fed, count) ->
    1 <= par -> zlen data <= n -> n + eps < 2 ^ 64 - 1 ->
    forall p, is_partition (feasible eps) fed p -> count <= zlen p + (par - 1).
  Proof.
    intros kt threshold par n data segs fed count H Hpar Hd Hn p Hp.
    unfold make_segmentation_par in H.
    destruct ((par =? 1) || (n <? threshold)).
    - pose proof (make_segmentation_optimal kt n data segs fed count H Hd Hn p Hp). lia.
    - pose proof (zlen_nonneg _ data) as Hd0.
      assert (Hn0 : 0 <= n) by lia.
      assert (Hcs : 0 <= Z.quot n par) by (apply Z.quot_pos; lia).
      assert (Hmul : par * Z.quot n par <= n) by (apply Z.mul_quot_le; lia).
      destruct (par_chunks_greedy eps (feasible eps) R Q
                  Q_first Q_step Q_feasible Q_R Q_R_reject
                  kt n (Z.quot n par) par data (zseq 0 (Z.to_nat par)) segs fed count H Hcs Hn)
        as (chunks & gs & C1 & C2 & C3 & C4 & C5).
      { eapply Forall_impl; [|exact (zseq_range (Z.to_nat par) 0)].
        intros i Hi. cbn beta in Hi. split; [lia|].
        assert ((i + 1) * Z.quot n par <= par * Z.quot n par).
        { apply Z.mul_le_mono_nonneg_r; lia. }
        lia. }
      assert (C2' : Forall2 (chunk_greedy (feasible eps)) chunks gs).
      { clear - C2. induction C2 as [|li gi ls gs' [S1 [S2 S3]] _ IH]; constructor.
        - split; [split; assumption | exact S3].
        - exact IH. }
      subst fed.
      pose proof (feasible_chunked_greedy_bound eps chunks gs p C2' Hp) as Hb.
      rewrite C3, zseq_length in Hb. unfold zlen in *. lia.
  Qed.
End Optimal.

Print Assumptions add_point_reject_cert4.
Print Assumptions add_point_complete_strong.
Print Assumptions add_point_complete.
Print Assumptions narrow_block_feasible.
Print Assumptions infeasible_spans.
Print Assumptions starts_apart.
Print Assumptions rect_inv_step.
Print Assumptions add_point_complete_inv.
Print Assumptions builder_complete.
Print Assumptions builder_reject_spans.
Print Assumptions seg_inv_feed.
Print Assumptions make_segmentation_chunk_greedy.
Print Assumptions par_chunks_greedy.
Print Assumptions make_segmentation_chunk_maximal.
Print Assumptions make_segmentation_chunk_optimal.
Print Assumptions make_segmentation_optimal.
Print Assumptions make_segmentation_par_near_optimal.

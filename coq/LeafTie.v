(* LeafTie.v — ties between the hand-written model and the expressions REGENERATED from the source by T1:
   the window/range expressions used by IndexModel (route_levels, search_tr) and by the C wrapper's model are
   semantically equal to the ones translated from pgm_index.hpp / cpgm.cpp.  Proved by case analysis + lia, so
   an equivalent rewrite of the source keeps them provable while an off-by-one breaks them. *)
Require Import Base GenLeaf.
From Coq Require Import ZifyBool.
Local Open Scope Z_scope.

Ltac tie :=
  intros; unfold pgm_route_lo, pgm_route_hi, pgm_search_lo, pgm_search_hi, c_search_lo, c_search_hi, PGM_SUB_EPS, PGM_ADD_EPS;
  repeat match goal with |- context [if ?b then _ else _] => destruct b eqn:? end; lia.

(* segment_for_key: lo = level_begin + PGM_SUB_EPS(pos, EpsilonRecursive + 1) is what route_levels uses *)
Lemma route_lo_tie : forall pos e, 0 <= pos -> 0 <= e -> pgm_route_lo pos e = PGM_SUB_EPS pos (e + 1).
Proof. tie. Qed.
Lemma route_hi_tie : forall pos e ls, 0 <= pos -> 0 <= e -> 0 <= ls -> pgm_route_hi pos e ls = PGM_ADD_EPS pos e ls.
Proof. tie. Qed.
(* search: lo = PGM_SUB_EPS(pos, Epsilon), hi = PGM_ADD_EPS(pos, Epsilon, n) is what search_tr uses *)
Lemma search_lo_tie : forall pos e, 0 <= pos -> 0 <= e -> pgm_search_lo pos e = PGM_SUB_EPS pos e.
Proof. tie. Qed.
Lemma search_hi_tie : forall pos e n, 0 <= pos -> 0 <= e -> 0 <= n -> pgm_search_hi pos e n = PGM_ADD_EPS pos e n.
Proof. tie. Qed.
(* the C wrapper's own search uses the same expressions with the run-time epsilon *)
Lemma c_search_lo_tie : forall pos e, 0 <= pos -> 0 <= e -> c_search_lo pos e = PGM_SUB_EPS pos e.
Proof. tie. Qed.
Lemma c_search_hi_tie : forall pos e n, 0 <= pos -> 0 <= e -> 0 <= n -> c_search_hi pos e n = PGM_ADD_EPS pos e n.
Proof. tie. Qed.

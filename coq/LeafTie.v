(* LeafTie.v — ties between the hand-written model and the expressions REGENERATED from the source by T1:
   the window/range expressions used by IndexModel (route_levels, search_tr) and by the C wrapper's model are
   semantically equal to the ones translated from pgm_index.hpp / cpgm.cpp.  Proved by case analysis + lia, so
   an equivalent rewrite of the source keeps them provable while an off-by-one breaks them. *)
Require Import Base GenLeaf.
From Coq Require Import ZifyBool.
Local Open Scope Z_scope.

Ltac tie :=
  intros; unfold pgm_route_lo, pgm_route_hi, pgm_search_lo, pgm_search_hi, c_search_lo, c_search_hi, PGM_SUB_EPS, PGM_ADD_EPS;
  repeat match goal with |- context [if ?b then _ else _] => destruct b eqn:? end; lia.

(* segment_for_key: lo = level_begin + PGM_SUB_EPS(pos, EpsilonRecursive + 1) is what route_levels uses *)
Lemma route_lo_tie : forall pos e, 0 <= pos -> 0 <= e -> pgm_route_lo pos e = PGM_SUB_EPS pos (e + 1).
Proof. tie. Qed.
Lemma route_hi_tie : forall pos e ls, 0 <= pos -> 0 <= e -> 0 <= ls -> pgm_route_hi pos e ls = PGM_ADD_EPS pos e ls.
Proof. tie. Qed.
(* search: lo = PGM_SUB_EPS(pos, Epsilon), hi = PGM_ADD_EPS(pos, Epsilon, n) is what search_tr uses *)
Lemma search_lo_tie : forall pos e, 0 <= pos -> 0 <= e -> pgm_search_lo pos e = PGM_SUB_EPS pos e.
Proof. tie. Qed.
Lemma search_hi_tie : forall pos e n, 0 <= pos -> 0 <= e -> 0 <= n -> pgm_search_hi pos e n = PGM_ADD_EPS pos e n.
Proof. tie. Qed.
(* the C wrapper's own search uses the same expressions with the run-time epsilon *)
Lemma c_search_lo_tie : forall pos e, 0 <= pos -> 0 <= e -> c_search_lo pos e = PGM_SUB_EPS pos e.
Proof. tie. Qed.
Lemma c_search_hi_tie : forall pos e n, 0 <= pos -> 0 <= e -> 0 <= n -> c_search_hi pos e n = PGM_ADD_EPS pos e n.
Proof. tie. Qed.

(* ---- CompressedPGMIndex (CompressedModel.csearch_levels / compressed_search use these right-hand sides) ---- *)
Ltac tie2 :=
  intros; unfold cmp_search0_lo, cmp_search0_hi, cmp_route_lo, cmp_route_hi, cmp_search_lo, cmp_search_hi,
    bkt_search_lo, bkt_search_hi, efi_search_lo, efi_search_hi, PGM_SUB_EPS, PGM_ADD_EPS;
  repeat match goal with |- context [if ?b then _ else _] => destruct b eqn:? end; lia.
Lemma cmp_search0_lo_tie : forall pos e, 0 <= pos -> 0 <= e -> cmp_search0_lo pos e = PGM_SUB_EPS pos e.
Proof. tie2. Qed.
Lemma cmp_search0_hi_tie : forall pos e n, 0 <= pos -> 0 <= e -> 0 <= n -> cmp_search0_hi pos e n = PGM_ADD_EPS pos e n.
Proof. tie2. Qed.
Lemma cmp_route_lo_tie : forall pos e, 0 <= pos -> 0 <= e -> cmp_route_lo pos e = PGM_SUB_EPS pos (e + 1).
Proof. tie2. Qed.
Lemma cmp_route_hi_tie : forall pos e ls, 0 <= pos -> 0 <= e -> 0 <= ls -> cmp_route_hi pos e ls = PGM_ADD_EPS pos e ls.
Proof. tie2. Qed.
Lemma cmp_search_lo_tie : forall pos e, 0 <= pos -> 0 <= e -> cmp_search_lo pos e = PGM_SUB_EPS pos e.
Proof. tie2. Qed.
Lemma cmp_search_hi_tie : forall pos e n, 0 <= pos -> 0 <= e -> 0 <= n -> cmp_search_hi pos e n = PGM_ADD_EPS pos e n.
Proof. tie2. Qed.
(* CompressedLevel constructor (CompressedModel.clevel_build): bitvector size, population, clamp bounds *)
Lemma cmp_max_intercept_tie : forall pls off, cmp_max_intercept pls off = pls - off + 2.
Proof. intros; unfold cmp_max_intercept; lia. Qed.
Lemma cmp_intercepts_count_tie : forall d ne, cmp_intercepts_count d ne = d + ne + 1.
Proof. intros; unfold cmp_intercepts_count; lia. Qed.
Lemma cmp_clamp_tie : forall prev pls, cmp_clamp_lo prev = prev + 1 /\ cmp_clamp_hi pls = pls - 1.
Proof. intros; unfold cmp_clamp_lo, cmp_clamp_hi; lia. Qed.
(* BucketingPGMIndex / EliasFanoPGMIndex search (VariantsModel.bk_search / efi_search) *)
Lemma bkt_search_lo_tie : forall pos e, 0 <= pos -> 0 <= e -> bkt_search_lo pos e = PGM_SUB_EPS pos e.
Proof. tie2. Qed.
Lemma bkt_search_hi_tie : forall pos e n, 0 <= pos -> 0 <= e -> 0 <= n -> bkt_search_hi pos e n = PGM_ADD_EPS pos e n.
Proof. tie2. Qed.
Lemma efi_search_lo_tie : forall pos e, 0 <= pos -> 0 <= e -> efi_search_lo pos e = PGM_SUB_EPS pos e.
Proof. tie2. Qed.
Lemma efi_search_hi_tie : forall pos e n, 0 <= pos -> 0 <= e -> 0 <= n -> efi_search_hi pos e n = PGM_ADD_EPS pos e n.
Proof. tie2. Qed.
(* BucketingPGMIndex::build_top_level (VariantsModel.build_top_level): cell width and table size *)
Lemma bkt_step_tie : forall lk fk tls, bkt_step_arg lk fk tls = CEIL_INT_DIV (lk - fk) tls /\ bkt_step_min = 1.
Proof. intros; unfold bkt_step_arg, bkt_step_min; split; reflexivity. Qed.
Lemma bkt_pow2_top_size_tie : forall lk fk st, bkt_pow2_top_size lk fk st = CEIL_INT_DIV (lk - fk) st + 2.
Proof. intros; unfold bkt_pow2_top_size; reflexivity. Qed.
Lemma bkt_pow2_shift_tie : forall szk tls, bkt_pow2_shift szk tls = szk * 8 - BIT_WIDTH tls + 1.
Proof. intros; unfold bkt_pow2_shift; lia. Qed.
(* CEIL_INT_DIV is the ceiling of the quotient for the arguments the code passes (non-negative / positive) *)
Lemma ceil_int_div_spec : forall x y, 0 <= x -> 0 < y -> CEIL_INT_DIV x y * y >= x /\ (CEIL_INT_DIV x y - 1) * y < x \/ (x = 0 /\ CEIL_INT_DIV x y = 0).
Proof.
  intros x y Hx Hy. unfold CEIL_INT_DIV. rewrite Z.quot_div_nonneg, Z.rem_mod_nonneg by lia.
  pose proof (Z.div_mod x y ltac:(lia)) as E. pose proof (Z.mod_pos_bound x y Hy) as B.
  destruct (x mod y >? 0) eqn:G.
  - left. nia.
  - assert (x mod y = 0) by lia. destruct (Z.eq_dec x 0) as [->|N]; [right; split; [reflexivity|]; rewrite Z.div_0_l by lia; reflexivity|].
    left. nia.
Qed.
(* DynamicPGMIndex bulk-load constructor (DynModel.dyn_bulk) *)
Lemma dyn_bulk_used_levels_tie : forall base n ml, dyn_bulk_used_levels base n ml = wrapU 8 (Z.max (dyn_ceil_log_base base n) ml + 1).
Proof. intros; unfold dyn_bulk_used_levels; reflexivity. Qed.
Lemma dyn_bulk_levels_count_tie : forall used ml, dyn_bulk_levels_count used ml = Z.max used 32 - ml + 1.
Proof. intros; unfold dyn_bulk_levels_count; lia. Qed.

(* ---- pos = std::min<T>(prediction, next intercept): with T = size_t neither argument is narrowed, so the capped position
        is the plain minimum the models use (a narrower T would wrap predictions >= 2^width before the cap) ---- *)
Lemma wrapU64_id : forall z, 0 <= z < 2 ^ 64 -> wrapU 64 z = z.
Proof. intros z H. unfold wrapU. apply Z.mod_small. exact H. Qed.
Ltac captie := intros e i He Hi; cbv delta [pgm_pos_cap_0 pgm_pos_cap_1 cmp_pos_cap_0 cmp_pos_cap_1 cmp_pos_cap_2 bkt_pos_cap_0 efi_pos_cap_0 capi_pos_cap_0] beta;
  rewrite !wrapU64_id by assumption; reflexivity.
Lemma pgm_pos_cap_tie : forall e i, 0 <= e < 2 ^ 64 -> 0 <= i < 2 ^ 64 -> pgm_pos_cap_0 e i = Z.min e i /\ pgm_pos_cap_1 e i = Z.min e i.
Proof. intros e i He Hi; split; revert e i He Hi; captie. Qed.
Lemma cmp_pos_cap_tie : forall e i, 0 <= e < 2 ^ 64 -> 0 <= i < 2 ^ 64 ->
  cmp_pos_cap_0 e i = Z.min e i /\ cmp_pos_cap_1 e i = Z.min e i /\ cmp_pos_cap_2 e i = Z.min e i.
Proof. intros e i He Hi; repeat split; revert e i He Hi; captie. Qed.
Lemma bkt_pos_cap_tie : forall e i, 0 <= e < 2 ^ 64 -> 0 <= i < 2 ^ 64 -> bkt_pos_cap_0 e i = Z.min e i.
Proof. captie. Qed.
Lemma efi_pos_cap_tie : forall e i, 0 <= e < 2 ^ 64 -> 0 <= i < 2 ^ 64 -> efi_pos_cap_0 e i = Z.min e i.
Proof. captie. Qed.
Lemma capi_pos_cap_tie : forall e i, 0 <= e < 2 ^ 64 -> 0 <= i < 2 ^ 64 -> capi_pos_cap_0 e i = Z.min e i.
Proof. captie. Qed.

(* IdxLevel.v — the layout of one level as PGMIndex::build lays it out:
   converted segments ++ optional extra (last+1, 0, n) ++ sentinel (kmax, 0, n). *)
Require Import Base Fp PlaModel PlaSpec GenLeaf IndexModel IndexProofs MappedQueries IdxFed IdxSeg IdxBlock.
From Coq Require Import ZifyBool.
Local Open Scope Z_scope.

Definition dseg : segment := mkSeg 0 f64_zero 0.

Lemma map_res_Forall2 {A B} (f : A -> res B) l : forall l', map_res f l = Ok l' -> Forall2 (fun a b => f a = Ok b) l l'.
Proof.
  induction l as [|a t IH]; intros l' H; cbn [map_res] in H.
  - injection H as <-. constructor.
  - destruct (f a) as [b|e] eqn:E; cbn [bind] in H; [|discriminate H].
    destruct (map_res f t) as [bs|e] eqn:Et; cbn [bind] in H; [|discriminate H].
    injection H as <-. constructor; [exact E | apply IH; reflexivity].
Qed.

Definition sent_seg (c : cfg) (ln : Z) : segment := mkSeg (sentinel c) f64_zero (wrapU 32 ln).
Definition extra_seg (c : cfg) (ldk ln : Z) : segment := mkSeg (wrapK (c_kt c) (ldk + 1)) f64_zero (wrapU 32 ln).

Definition extra_test (c : cfg) (ln : Z) (back : segment) : bool :=
  seg_eval c back (wrapK (c_kt c) (sentinel c - 1)) <? ln.

Lemma build_level_shape c eps keys ln ldk segs0 segs ln' :
  build_level c eps keys ln ldk segs0 = Ok (segs, ln') ->
  exists css fed cnt new T,
    make_segmentation_par (c_kt c) par_threshold (c_par c) ln eps keys = Ok (css, fed, cnt) /\
    map_res (segment_of_cseg c) css = Ok new /\ segs = segs0 ++ new ++ T /\
    ((T = [] /\ sg_key (last (segs0 ++ new) dseg) = sentinel c /\ ln' = cnt - 1) \/
     (sg_key (last (segs0 ++ new) dseg) <> sentinel c /\ ln' = cnt /\
      exists X, T = X ++ [sent_seg c ln] /\
                (X = [] \/ (X = [extra_seg c ldk ln] /\ extra_test c ln (last (segs0 ++ new) dseg) = true)))).
Proof.
  unfold build_level. intros H.
  destruct (make_segmentation_par (c_kt c) par_threshold (c_par c) ln eps keys) as [[[css fed] cnt]|e] eqn:E1;
    cbn [bind] in H; [|discriminate H].
  destruct (map_res (segment_of_cseg c) css) as [new|e] eqn:E2; cbn [bind] in H; [|discriminate H].
  exists css, fed, cnt, new. fold dseg in H.
  destruct (sg_key (last (segs0 ++ new) dseg) =? sentinel c) eqn:E3.
  - injection H as <- <-. exists []. rewrite app_nil_r. split; [reflexivity|]. split; [exact E2|]. split; [reflexivity|].
    left. split; [reflexivity|]. split; [lia | reflexivity].
  - match type of H with context [if ?t then _ else _] => destruct t eqn:Et end; injection H as <- <-.
    + exists ([extra_seg c ldk ln] ++ [sent_seg c ln]). rewrite <- !app_assoc. split; [reflexivity|]. split; [exact E2|]. split; [reflexivity|].
      right. split; [lia|]. split; [reflexivity|]. exists [extra_seg c ldk ln]. split; [reflexivity | right; split; [reflexivity | exact Et]].
    + exists ([] ++ [sent_seg c ln]). rewrite <- !app_assoc. split; [reflexivity|]. split; [exact E2|]. split; [reflexivity|].
      right. split; [lia|]. split; [reflexivity|]. exists []. split; [reflexivity | left; reflexivity].
Qed.

(* segments of one level with their canonical segments and blocks;
   E cs s rest = evaluation facts about segment s, given the real segments that follow it *)
Inductive Lv (c : cfg) (eps : Z) (E : cseg -> segment -> list segment -> Prop) :
  list cseg -> list (list (Z * Z)) -> list segment -> Prop :=
| Lv_nil : Lv c eps E [] [] []
| Lv_cons cs b s css g new :
    line_ok eps cs b -> seg_of c cs s -> E cs s new -> Lv c eps E css g new ->
    Lv c eps E (cs :: css) (b :: g) (s :: new).

Fixpoint EvL (E : cseg -> segment -> list segment -> Prop) (css : list cseg) (new : list segment) : Prop :=
  match css, new with
  | cs :: css', s :: new' => E cs s new' /\ EvL E css' new'
  | [], [] => True
  | _, _ => False
  end.

Lemma Lv_of_Forall2 c eps E css : forall g new,
  Forall2 (line_ok eps) css g -> Forall2 (seg_of c) css new -> EvL E css new -> Lv c eps E css g new.
Proof.
  induction css as [|cs css IH]; intros g new H1 H2 H3; inversion H1; inversion H2; subst; [constructor|].
  cbn [EvL] in H3. destruct H3 as [HE1 HE2]. constructor; auto.
Qed.

Lemma Lv_Forall2 c eps E css g new : Lv c eps E css g new ->
  Forall2 (line_ok eps) css g /\ Forall2 (seg_of c) css new.
Proof. induction 1 as [|cs b s css g new H1 H2 H3 _ [IH1 IH2]]; split; constructor; auto. Qed.

Lemma Lv_len c eps E css g new : Lv c eps E css g new -> zlen g = zlen new /\ zlen css = zlen new.
Proof. induction 1 as [|cs b s css g new H1 H2 H3 _ [IH1 IH2]]; [split; reflexivity|]. rewrite !zlen_cons. lia. Qed.

Lemma Lv_split c eps E css g new j : Lv c eps E css g new -> 0 <= j < zlen new ->
  exists c1 cs c2 g1 b g2 n1 s n2,
    css = c1 ++ cs :: c2 /\ g = g1 ++ b :: g2 /\ new = n1 ++ s :: n2 /\ zlen n1 = j /\
    line_ok eps cs b /\ seg_of c cs s /\ E cs s n2 /\ Lv c eps E c2 g2 n2.
Proof.
  intros H. revert j. induction H as [|cs b s css g new H1 H2 HE H3 IH]; intros j Hj.
  - change (zlen (@nil segment)) with 0 in Hj. lia.
  - rewrite zlen_cons in Hj. destruct (Z.eq_dec j 0) as [->|Hj0].
    + exists [], cs, css, [], b, g, [], s, new. cbn [app].
      do 4 (split; [reflexivity|]). split; [exact H1|]. split; [exact H2 |]. split; [exact HE | exact H3].
    + destruct (IH (j - 1) ltac:(lia)) as (c1 & cs' & c2 & g1 & b' & g2 & n1 & s' & n2 & E1 & E2 & E3 & E4 & R1 & R2 & R3 & R4).
      exists (cs :: c1), cs', c2, (b :: g1), b', g2, (s :: n1), s', n2. cbn [app]. rewrite zlen_cons.
      rewrite E1, E2, E3. do 3 (split; [reflexivity|]). split; [lia|]. split; [exact R1|]. split; [exact R2 |]. split; [exact R3 | exact R4].
Qed.

(* ---- sortedness helpers ---- *)
Lemma sortedb_cons_intro x l : (forall y, In y l -> x <= y) -> sortedb l = true -> sortedb (x :: l) = true.
Proof.
  intros H Hs. destruct l as [|y t]; [reflexivity|].
  change (sortedb (x :: y :: t)) with ((x <=? y) && sortedb (y :: t)). rewrite Hs.
  pose proof (H y (or_introl eq_refl)). lia.
Qed.

Lemma sortedb_app_intro l1 l2 : sortedb l1 = true -> sortedb l2 = true ->
  (forall a b, In a l1 -> In b l2 -> a <= b) -> sortedb (l1 ++ l2) = true.
Proof.
  induction l1 as [|x t IH]; intros H1 H2 H; [exact H2|].
  cbn [app]. apply sortedb_cons_intro.
  - intros y Hy. apply in_app_or in Hy. destruct Hy as [Hy|Hy].
    + eapply sortedb_head_le; eauto.
    + apply H; [left; reflexivity | exact Hy].
  - apply IH; [eapply sortedb_tail; eauto | exact H2 |].
    intros a b Ha Hb. apply H; [right; exact Ha | exact Hb].
Qed.

Definition bkeys (g : list (list (Z * Z))) : list Z := map (fun b => fst (hd (0, 0) b)) g.

Lemma bkeys_In g x : Forall (fun b => b <> []) g -> In x (bkeys g) -> exists y, In (x, y) (concat g).
Proof.
  intros Hne Hx. unfold bkeys in Hx. apply in_map_iff in Hx. destruct Hx as (b & <- & Hb).
  rewrite Forall_forall in Hne. pose proof (hd_In_ne b (Hne b Hb)) as Hh.
  exists (snd (hd (0, 0) b)). rewrite <- surjective_pairing. apply in_concat. exists b. split; assumption.
Qed.

Lemma bkeys_sorted g : incr (concat g) -> Forall (fun b => b <> []) g -> sortedb (bkeys g) = true.
Proof.
  induction g as [|b g IH]; intros Hi Hne; [reflexivity|].
  inversion Hne as [|b0 g0 Hb Hg]; subst. cbn [concat] in Hi. apply incr_app in Hi.
  destruct Hi as (_ & Hi2 & Hx). cbn [bkeys map]. apply sortedb_cons_intro; [|apply IH; assumption].
  intros y Hy. destruct (bkeys_In g y Hg Hy) as (yy & Hin).
  destruct (Hx _ _ (hd_In_ne b Hb) Hin) as [H1 _]. cbn [fst] in H1. lia.
Qed.

Lemma Lv_keys c eps E css g new : Lv c eps E css g new ->
  map sg_key new = bkeys g /\ Forall (fun b => b <> []) g.
Proof.
  induction 1 as [|cs b s css g new H1 H2 H3 _ [IH1 IH2]]; [split; [reflexivity | constructor]|].
  cbn [map bkeys]. fold (bkeys g). rewrite IH1.
  destruct (seg_of_cseg_spec c cs s H2) as (Hk & _). destruct H1 as (Hb & Hf & _).
  split; [rewrite Hk, Hf; reflexivity | constructor; assumption].
Qed.

Definition tail_ok (c : cfg) (ldk ln : Z) (pre T : list segment) (ln' cnt : Z) : Prop :=
  (T = [] /\ sg_key (last pre dseg) = sentinel c /\ ln' = cnt - 1) \/
  (sg_key (last pre dseg) <> sentinel c /\ ln' = cnt /\
   exists X, T = X ++ [sent_seg c ln] /\
             (X = [] \/ (X = [extra_seg c ldk ln] /\ extra_test c ln (last pre dseg) = true))).

Theorem build_level_desc c eps keys ldk segs0 segs ln' :
  build_level c eps keys (zlen keys) ldk segs0 = Ok (segs, ln') ->
  1 <= c_par c -> keys <> [] -> sortedb keys = true -> nowrap (c_kt c) keys -> zlen keys + eps < 2 ^ 64 - 1 ->
  exists css fed cnt g new T,
    make_segmentation_par (c_kt c) par_threshold (c_par c) (zlen keys) eps keys = Ok (css, fed, cnt) /\
    map_res (segment_of_cseg c) css = Ok new /\
    segs = segs0 ++ new ++ T /\ concat g = fed_spec (c_kt c) keys /\
    Forall2 (line_ok eps) css g /\ Forall2 (seg_of c) css new /\ 0 <= eps /\
    tail_ok c ldk (zlen keys) (segs0 ++ new) T ln' (zlen new).
Proof.
  intros H Hpar Hne Hs Hw Hn.
  destruct (build_level_shape _ _ _ _ _ _ _ _ H) as (css & fed & cnt & new & T & E1 & E2 & E3 & HT).
  destruct (level_blocks _ _ _ _ _ _ _ _ E1 Hpar Hne Hs Hw Hn) as (g & G1 & G2 & G3 & Heps).
  pose proof (map_res_Forall2 _ _ _ E2) as F2.
  pose proof (Lv_of_Forall2 c eps (fun _ _ _ => True) css g new G2 F2) as HL.
  assert (FT : EvL (fun (_ : cseg) (_ : segment) (_ : list segment) => True) css new) by (clear -F2; induction F2; cbn [EvL]; auto).
  destruct (Lv_len _ _ _ _ _ _ (HL FT)) as [L1 L2].
  exists css, fed, cnt, g, new, T. do 7 (split; [assumption|]).
  unfold tail_ok. replace (zlen new) with cnt by lia. exact HT.
Qed.

(* ---- the floating-point interface for one level ---- *)
(* one evaluation: segment s (exact slope from cs), followed by the real segments `rest`, at key k;
   only the segment that is responsible for k (sg_key s <= k < key of the next real segment) matters *)
Definition EvalOK (c : cfg) (k : Z) (cs : cseg) (s : segment) (rest : list segment) : Prop :=
  sg_key s <= k -> match rest with s' :: _ => k < sg_key s' | [] => True end -> k < sentinel c ->
  eval_ok c (fst (slope_of cs)) (snd (slope_of cs)) s k.

Definition level_float_ok (c : cfg) (eps : Z) (keys : list Z) (ldk : Z) (k : Z) : Prop :=
  forall css fed cnt new,
    make_segmentation_par (c_kt c) par_threshold (c_par c) (zlen keys) eps keys = Ok (css, fed, cnt) ->
    map_res (segment_of_cseg c) css = Ok new ->
    EvL (EvalOK c k) css new /\
    (extra_test c (zlen keys) (last new dseg) = true ->
     sg_key (extra_seg c ldk (zlen keys)) <= k -> k < sentinel c ->
     eval_ok c 1 0 (extra_seg c ldk (zlen keys)) k).

(* the same with eval_ok_cap (IdxBlock.v) at the threshold T = level size + eps: what the proofs below
   consume.  level_float_ok implies level_float_ok_cap; the converse fails for Floating = float
   (FloatOkAll.cx_not_float_ok), where only the cap version holds (FloatOkCap.v). *)
Definition EvalOKc (T : Z) (c : cfg) (k : Z) (cs : cseg) (s : segment) (rest : list segment) : Prop :=
  sg_key s <= k -> match rest with s' :: _ => k < sg_key s' | [] => True end -> k < sentinel c ->
  eval_ok_cap T c (fst (slope_of cs)) (snd (slope_of cs)) s k.

Definition level_float_ok_cap (c : cfg) (eps : Z) (keys : list Z) (ldk : Z) (k : Z) : Prop :=
  forall css fed cnt new,
    make_segmentation_par (c_kt c) par_threshold (c_par c) (zlen keys) eps keys = Ok (css, fed, cnt) ->
    map_res (segment_of_cseg c) css = Ok new ->
    EvL (EvalOKc (zlen keys + eps) c k) css new /\
    (extra_test c (zlen keys) (last new dseg) = true ->
     sg_key (extra_seg c ldk (zlen keys)) <= k -> k < sentinel c ->
     eval_ok c 1 0 (extra_seg c ldk (zlen keys)) k).

Lemma EvL_impl (E E' : cseg -> segment -> list segment -> Prop) :
  (forall cs s rest, E cs s rest -> E' cs s rest) ->
  forall css new, EvL E css new -> EvL E' css new.
Proof.
  intros HE. induction css as [|cs css IH]; intros [|s new] H; cbn [EvL] in *; try exact H.
  destruct H as [H1 H2]. split; [apply HE; exact H1 | apply IH; exact H2].
Qed.

Lemma EvalOKc_of T c k cs s rest : EvalOK c k cs s rest -> EvalOKc T c k cs s rest.
Proof. intros H A B C. apply eval_ok_cap_of. exact (H A B C). Qed.

Lemma level_float_ok_cap_of c eps keys ldk k :
  level_float_ok c eps keys ldk k -> level_float_ok_cap c eps keys ldk k.
Proof.
  intros H css fed cnt new M1 M2. destruct (H css fed cnt new M1 M2) as [H1 H2]. split; [|exact H2].
  revert H1. apply EvL_impl. intros cs s rest. apply EvalOKc_of.
Qed.

(* ---- reading a list split at a known position ---- *)
Lemma nth_mid {A} (l1 : list A) x r d : nth (Z.to_nat (zlen l1)) (l1 ++ x :: r) d = x.
Proof. unfold zlen. rewrite Nat2Z.id, app_nth2 by lia. rewrite Nat.sub_diag. reflexivity. Qed.
Lemma nth_mid_next {A} (l1 : list A) x r d : nth (Z.to_nat (zlen l1 + 1)) (l1 ++ x :: r) d = hd d r.
Proof.
  unfold zlen. replace (Z.to_nat (Z.of_nat (length l1) + 1)) with (S (length l1)) by lia.
  rewrite app_nth2 by lia. replace (S (length l1) - length l1)%nat with 1%nat by lia.
  destruct r; reflexivity.
Qed.

Definition tail_shape (c : cfg) (ldk ln : Z) (back : segment) (T : list segment) : Prop :=
  T = [] \/ exists X, T = X ++ [sent_seg c ln] /\
                      (X = [] \/ (X = [extra_seg c ldk ln] /\ extra_test c ln back = true)).

Lemma wrapU32_small n : 0 <= n < 2 ^ 32 -> wrapU 32 n = n.
Proof. intros H. unfold wrapU. apply Z.mod_small. lia. Qed.

Lemma lb_mono l q1 q2 : q1 <= q2 -> lb l q1 <= lb l q2.
Proof.
  intros Hq. induction l as [|x t IH]; cbn [lb]; [lia|].
  pose proof (lb_nonneg t q2). destruct (x <? q1) eqn:E1; destruct (x <? q2) eqn:E2; lia.
Qed.

Theorem level_pos c eps keys ldk css g new T k J :
  keys <> [] -> sortedb keys = true -> nowrap (c_kt c) keys -> zlen keys < 2 ^ 32 -> 1 <= eps ->
  concat g = fed_spec (c_kt c) keys -> Lv c eps (EvalOKc (zlen keys + eps) c k) css g new ->
  tail_shape c ldk (zlen keys) (last new dseg) T ->
  wrapK (c_kt c) (ldk + 1) = ldk + 1 -> zlen keys - 1 <= lb keys (ldk + 1) ->
  (extra_test c (zlen keys) (last new dseg) = true ->
   sg_key (extra_seg c ldk (zlen keys)) <= k -> k < sentinel c ->
   eval_ok c 1 0 (extra_seg c ldk (zlen keys)) k) ->
  0 <= J -> J + 1 < zlen (new ++ T) ->
  sg_key (nth (Z.to_nat J) (new ++ T) dseg) <= k ->
  k < sg_key (nth (Z.to_nat (J + 1)) (new ++ T) dseg) -> k < sentinel c ->
  let s := nth (Z.to_nat J) (new ++ T) dseg in
  let nx := nth (Z.to_nat (J + 1)) (new ++ T) dseg in
  let r := lb keys k in
  let pos := Z.min (seg_eval c s k) (sg_icpt nx) in
  r - eps - 2 <= pos <= r + eps /\ (In k keys -> r - eps - 1 <= pos) /\ 0 <= pos.
Proof.
  intros Hne Hs Hw Hn32 Heps Hcat HL HT Hwk Hlast Hext HJ0 HJ1 Hk1 Hk2 Hksent.
  set (n := zlen keys) in *. pose proof (zlen_ge0 keys) as Hn0. fold n in Hn0.
  rewrite zlen_app in HJ1.
  destruct (Z_lt_ge_dec J (zlen new)) as [HJn|HJn].
  - destruct (Lv_split _ _ _ _ _ _ J HL ltac:(lia))
      as (c1 & cs & c2 & g1 & b & g2 & n1 & s & n2 & E1 & E2 & E3 & E4 & R1 & R2 & R3 & R4).
    destruct (Lv_Forall2 _ _ _ _ _ _ R4) as [F1 F2].
    assert (EL : new ++ T = n1 ++ s :: (n2 ++ T)) by (rewrite E3, <- app_assoc; reflexivity).
    rewrite EL in *. rewrite <- E4 in *. rewrite nth_mid in *. rewrite nth_mid_next in *.
    cbn zeta. rewrite E2 in Hcat.
    apply (level_query_split c (c_kt c) eps keys g1 g2 b cs c2 s n2 k); try assumption;
      [lia | apply R3; [exact Hk1 | destruct n2; [exact I | exact Hk2] | exact Hksent] |].
    destruct n2 as [|s' n2']; [|cbn [app hd] in *; split; [exact Hk2 | reflexivity]].
    cbn [app] in *. rewrite E3, zlen_app, zlen_cons in HJ1. change (zlen (@nil segment)) with 0 in HJ1.
    destruct HT as [->|(X & -> & [->|[-> _]])].
    + change (zlen (@nil segment)) with 0 in HJ1. lia.
    + cbn [app hd sent_seg sg_icpt]. apply wrapU32_small. lia.
    + cbn [app hd extra_seg sg_icpt]. apply wrapU32_small. lia.
  - destruct HT as [->|(X & -> & [->|[-> Htest]])];
      [change (zlen (@nil segment)) with 0 in HJ1; lia | change (zlen ([] ++ [sent_seg c n])) with 1 in HJ1; lia |].
    change (zlen ([extra_seg c ldk n] ++ [sent_seg c n])) with 2 in HJ1.
    assert (EJ : J = zlen new) by lia. rewrite EJ in *. cbn [app] in *.
    rewrite nth_mid in *. rewrite nth_mid_next in *. cbn [hd] in *. cbn zeta.
    rewrite (eval_flat c _ k (Hext Htest Hk1 Hksent)).
    cbn [extra_seg sent_seg sg_icpt sg_key] in *. rewrite wrapU32_small by lia. rewrite Z.min_id.
    rewrite Hwk in Hk1. pose proof (lb_mono keys _ _ Hk1). pose proof (lb_le_len keys k). fold n in H0.
    repeat split; lia.
Qed.

(* PlaSoundGeom.v — pure geometry for the soundness proof of the PLA builder:
   levels of points w.r.t. lines, reflection y -> -y, chains, tangent scan, Graham pops. *)
Require Import Base PlaModel.
Local Open Scope Z_scope.

(* lev o s q > 0 iff q is strictly above the line through o with slope s (fst s > 0) *)
Definition lev (o : pt) (s : slp) (q : pt) : Z :=
  (snd q - snd o) * fst s - snd s * (fst q - fst o).

Lemma lev_cross : forall o a q, lev o (psub a o) q = cross o a q.
Proof. intros [ox oy] [ax ay] [qx qy]. unfold lev, cross, psub. cbn [fst snd]. ring. Qed.

Lemma cross_cyc : forall a b c, cross a b c = cross b c a.
Proof. intros [ax ay] [bx b_y] [cx cy]. unfold cross, psub. cbn [fst snd]. ring. Qed.

Lemma cross_swap : forall a b c, cross a b c = - cross a c b.
Proof. intros [ax ay] [bx b_y] [cx cy]. unfold cross, psub. cbn [fst snd]. ring. Qed.

Lemma lev_self : forall o s, lev o s o = 0.
Proof. intros o s. unfold lev. ring. Qed.

Lemma lev_shift : forall o s o1 q, lev o s q = lev o s o1 + lev o1 s q.
Proof. intros o s o1 q. unfold lev. ring. Qed.

Lemma lev_slope_change : forall o s t q,
  lev o t q * fst s = lev o s q * fst t + (fst q - fst o) * (snd s * fst t - snd t * fst s).
Proof. intros o s t q. unfold lev. ring. Qed.

(* slope order for positive dx *)
Definition sle (s t : slp) : Prop := snd s * fst t <= snd t * fst s.

(* affine interpolation identity *)
Lemma lev_between : forall o s a b u,
  (fst b - fst a) * lev o s u =
  (fst b - fst u) * lev o s a + (fst u - fst a) * lev o s b + fst s * cross a b u.
Proof.
  intros [ox oy] [dx dy] [ax ay] [bx b_y] [ux uy]. unfold lev, cross, psub. cbn [fst snd]. ring.
Qed.

(* ---- sign lemmas: moving along a line with a steeper / flatter slope ---- *)
Lemma lev_above_right : forall o s o1 t q,
  0 < fst s -> 0 < fst t -> 0 <= lev o s o1 -> 0 <= lev o1 t q -> sle s t -> fst o1 <= fst q ->
  0 <= lev o s q.
Proof.
  intros o s o1 t q Hs Ht H1 H2 Hst Hx. unfold sle in Hst.
  rewrite (lev_shift o s o1 q).
  pose proof (lev_slope_change o1 t s q) as E.
  assert (0 <= (fst q - fst o1) * (snd t * fst s - snd s * fst t)) by (apply Z.mul_nonneg_nonneg; lia).
  assert (0 <= lev o1 t q * fst s) by (apply Z.mul_nonneg_nonneg; lia).
  assert (0 <= lev o1 s q) by nia. lia.
Qed.

Lemma lev_above_left : forall o s o1 t q,
  0 < fst s -> 0 < fst t -> 0 <= lev o s o1 -> 0 <= lev o1 t q -> sle t s -> fst q <= fst o1 ->
  0 <= lev o s q.
Proof.
  intros o s o1 t q Hs Ht H1 H2 Hst Hx. unfold sle in Hst.
  rewrite (lev_shift o s o1 q).
  pose proof (lev_slope_change o1 t s q) as E.
  assert (0 <= (fst o1 - fst q) * (snd s * fst t - snd t * fst s)) by (apply Z.mul_nonneg_nonneg; lia).
  assert (0 <= lev o1 t q * fst s) by (apply Z.mul_nonneg_nonneg; lia).
  assert (0 <= lev o1 s q) by nia. lia.
Qed.

Lemma lev_below_left : forall o s o1 t q,
  0 < fst s -> 0 < fst t -> lev o s o1 <= 0 -> lev o1 t q <= 0 -> sle s t -> fst q <= fst o1 ->
  lev o s q <= 0.
Proof.
  intros o s o1 t q Hs Ht H1 H2 Hst Hx. unfold sle in Hst.
  rewrite (lev_shift o s o1 q).
  pose proof (lev_slope_change o1 t s q) as E.
  assert (0 <= (fst o1 - fst q) * (snd t * fst s - snd s * fst t)) by (apply Z.mul_nonneg_nonneg; lia).
  assert (0 <= (- lev o1 t q) * fst s) by (apply Z.mul_nonneg_nonneg; lia).
  assert (lev o1 s q <= 0) by nia. lia.
Qed.

Lemma lev_below_right : forall o s o1 t q,
  0 < fst s -> 0 < fst t -> lev o s o1 <= 0 -> lev o1 t q <= 0 -> sle t s -> fst o1 <= fst q ->
  lev o s q <= 0.
Proof.
  intros o s o1 t q Hs Ht H1 H2 Hst Hx. unfold sle in Hst.
  rewrite (lev_shift o s o1 q).
  pose proof (lev_slope_change o1 t s q) as E.
  assert (0 <= (fst q - fst o1) * (snd s * fst t - snd t * fst s)) by (apply Z.mul_nonneg_nonneg; lia).
  assert (0 <= (- lev o1 t q) * fst s) by (apply Z.mul_nonneg_nonneg; lia).
  assert (lev o1 s q <= 0) by nia. lia.
Qed.

(* ---- between two abscissae ---- *)
Lemma between_cross_nonneg : forall o s a b u,
  0 < fst s -> fst a < fst b -> fst a <= fst u <= fst b ->
  lev o s a <= 0 -> lev o s b <= 0 -> 0 <= lev o s u -> 0 <= cross a b u.
Proof.
  intros o s a b u Hs Hab Hu Ha Hb Hq.
  pose proof (lev_between o s a b u) as E.
  assert (0 <= (fst b - fst a) * lev o s u) by (apply Z.mul_nonneg_nonneg; lia).
  assert (0 <= (fst b - fst u) * (- lev o s a)) by (apply Z.mul_nonneg_nonneg; lia).
  assert (0 <= (fst u - fst a) * (- lev o s b)) by (apply Z.mul_nonneg_nonneg; lia).
  assert (0 <= fst s * cross a b u) by lia. nia.
Qed.

Lemma between_cross_nonpos : forall o s a b u,
  0 < fst s -> fst a < fst b -> fst a <= fst u <= fst b ->
  0 <= lev o s a -> 0 <= lev o s b -> lev o s u <= 0 -> cross a b u <= 0.
Proof.
  intros o s a b u Hs Hab Hu Ha Hb Hq.
  pose proof (lev_between o s a b u) as E.
  assert (0 <= (fst b - fst a) * (- lev o s u)) by (apply Z.mul_nonneg_nonneg; lia).
  assert (0 <= (fst b - fst u) * lev o s a) by (apply Z.mul_nonneg_nonneg; lia).
  assert (0 <= (fst u - fst a) * lev o s b) by (apply Z.mul_nonneg_nonneg; lia).
  assert (fst s * cross a b u <= 0) by lia. nia.
Qed.

Lemma between_lev_nonneg : forall o s a b u,
  0 < fst s -> fst a < fst b -> fst a <= fst u <= fst b ->
  0 <= lev o s a -> 0 <= lev o s b -> 0 <= cross a b u -> 0 <= lev o s u.
Proof.
  intros o s a b u Hs Hab Hu Ha Hb Hq.
  pose proof (lev_between o s a b u) as E.
  assert (0 <= (fst b - fst u) * lev o s a) by (apply Z.mul_nonneg_nonneg; lia).
  assert (0 <= (fst u - fst a) * lev o s b) by (apply Z.mul_nonneg_nonneg; lia).
  assert (0 <= fst s * cross a b u) by (apply Z.mul_nonneg_nonneg; lia).
  assert (0 <= (fst b - fst a) * lev o s u) by lia. nia.
Qed.

Lemma between_lev_nonpos : forall o s a b u,
  0 < fst s -> fst a < fst b -> fst a <= fst u <= fst b ->
  lev o s a <= 0 -> lev o s b <= 0 -> cross a b u <= 0 -> lev o s u <= 0.
Proof.
  intros o s a b u Hs Hab Hu Ha Hb Hq.
  pose proof (lev_between o s a b u) as E.
  assert (0 <= (fst b - fst u) * (- lev o s a)) by (apply Z.mul_nonneg_nonneg; lia).
  assert (0 <= (fst u - fst a) * (- lev o s b)) by (apply Z.mul_nonneg_nonneg; lia).
  assert (0 <= fst s * (- cross a b u)) by (apply Z.mul_nonneg_nonneg; lia).
  assert ((fst b - fst a) * lev o s u <= 0) by lia. nia.
Qed.

(* ---- reflection y -> -y ---- *)
Definition neg (p : pt) : pt := (fst p, - snd p).
Definition nslp (s : slp) : slp := (fst s, - snd s).

Lemma neg_invol : forall p, neg (neg p) = p.
Proof. intros [x y]. unfold neg. cbn [fst snd]. f_equal. lia. Qed.
Lemma nslp_invol : forall p, nslp (nslp p) = p.
Proof. intros [x y]. unfold nslp. cbn [fst snd]. f_equal. lia. Qed.
Lemma map_neg_invol : forall l, map neg (map neg l) = l.
Proof. induction l as [|a l IH]; [reflexivity|]. cbn [map]. rewrite neg_invol, IH. reflexivity. Qed.
Lemma fst_neg : forall p, fst (neg p) = fst p.
Proof. reflexivity. Qed.
Lemma fst_nslp : forall p, fst (nslp p) = fst p.
Proof. reflexivity. Qed.
Lemma psub_neg : forall a b, psub (neg a) (neg b) = nslp (psub a b).
Proof. intros [ax ay] [bx b_y]. unfold psub, neg, nslp. cbn [fst snd]. f_equal. lia. Qed.
Lemma lev_neg : forall o s q, lev (neg o) (nslp s) (neg q) = - lev o s q.
Proof. intros [ox oy] [dx dy] [qx qy]. unfold lev, neg, nslp. cbn [fst snd]. ring. Qed.
Lemma cross_neg : forall a b c, cross (neg a) (neg b) (neg c) = - cross a b c.
Proof. intros [ax ay] [bx b_y] [cx cy]. unfold cross, psub, neg. cbn [fst snd]. ring. Qed.
Lemma sle_neg : forall s t, sle (nslp s) (nslp t) <-> sle t s.
Proof. intros [a b] [c d]. unfold sle, nslp. cbn [fst snd]. lia. Qed.

Lemma slt_neg : forall a b, slt (nslp a) (nslp b) = sgt a b.
Proof.
  intros [a1 a2] [b1 b2]. unfold slt, sgt, nslp. cbn [fst snd]. rewrite Z.gtb_ltb.
  destruct (Z.ltb_spec (- a2 * b1) (a1 * - b2)); destruct (Z.ltb_spec (a1 * b2) (a2 * b1)); lia.
Qed.
Lemma sgt_neg : forall a b, sgt (nslp a) (nslp b) = slt a b.
Proof. intros a b. rewrite <- slt_neg. rewrite !nslp_invol. reflexivity. Qed.

Lemma slt_lev : forall p o s, slt (psub p o) s = true <-> lev o s p < 0.
Proof.
  intros [px py] [ox oy] [dx dy]. unfold slt, lev, psub. cbn [fst snd]. rewrite Z.ltb_lt. lia.
Qed.
Lemma slt_lev_false : forall p o s, slt (psub p o) s = false <-> 0 <= lev o s p.
Proof.
  intros [px py] [ox oy] [dx dy]. unfold slt, lev, psub. cbn [fst snd]. rewrite Z.ltb_ge. lia.
Qed.
Lemma sgt_lev : forall p o s, sgt (psub p o) s = true <-> 0 < lev o s p.
Proof.
  intros [px py] [ox oy] [dx dy]. unfold sgt, lev, psub. cbn [fst snd]. rewrite Z.gtb_ltb, Z.ltb_lt. lia.
Qed.
Lemma sgt_lev_false : forall p o s, sgt (psub p o) s = false <-> lev o s p <= 0.
Proof.
  intros [px py] [ox oy] [dx dy]. unfold sgt, lev, psub. cbn [fst snd]. rewrite Z.gtb_ltb, Z.ltb_ge. lia.
Qed.

(* ---- the model's hull functions commute with the reflection ---- *)
Lemma tangent_upper_neg : forall p rest c,
  tangent_upper (neg p) (neg c) (map neg rest) = map neg (tangent_lower p c rest).
Proof.
  intros p rest. induction rest as [|q rest IH]; intros c.
  - reflexivity.
  - cbn [map tangent_upper tangent_lower]. rewrite !psub_neg, slt_neg.
    destruct (sgt (psub q p) (psub c p)).
    + reflexivity.
    + apply IH.
Qed.

Lemma leb_opp_geb : forall a, (- a >=? 0) = (a <=? 0).
Proof.
  intros a. rewrite Z.geb_leb.
  destruct (Z.leb_spec 0 (- a)); destruct (Z.leb_spec a 0); lia.
Qed.

Lemma pop_lower_neg : forall p rl,
  pop_lower (neg p) (map neg rl) = map neg (pop_upper p rl).
Proof.
  intros p rl. induction rl as [|a tl IH].
  - reflexivity.
  - destruct tl as [|b tl'].
    + reflexivity.
    + cbn [map pop_lower pop_upper]. cbn [map] in IH.
      rewrite cross_neg, leb_opp_geb.
      destruct (cross b a p <=? 0).
      * exact IH.
      * reflexivity.
Qed.

Lemma push_lower_neg : forall l p,
  push_lower (map neg l) (neg p) = map neg (push_upper l p).
Proof.
  intros l p. unfold push_lower, push_upper.
  rewrite <- map_rev, pop_lower_neg, map_rev. cbn [map]. reflexivity.
Qed.

Lemma tangent_upper_as_lower : forall p c rest,
  tangent_upper p c rest = map neg (tangent_lower (neg p) (neg c) (map neg rest)).
Proof.
  intros p c rest. rewrite <- tangent_upper_neg. rewrite !neg_invol, map_neg_invol. reflexivity.
Qed.
Lemma push_lower_as_upper : forall l p,
  push_lower l p = map neg (push_upper (map neg l) (neg p)).
Proof.
  intros l p. rewrite <- push_lower_neg. rewrite neg_invol, map_neg_invol. reflexivity.
Qed.

(* ---- properties of adjacent pairs / triples of a list ---- *)
Fixpoint adj2 (P : pt -> pt -> Prop) (l : list pt) : Prop :=
  match l with
  | a :: ((b :: _) as tl) => P a b /\ adj2 P tl
  | _ => True
  end.
Fixpoint adj3 (P : pt -> pt -> pt -> Prop) (l : list pt) : Prop :=
  match l with
  | a :: ((b :: c :: _) as tl) => P a b c /\ adj3 P tl
  | _ => True
  end.

Lemma adj2_tl : forall P a l, adj2 P (a :: l) -> adj2 P l.
Proof. intros P a [|b l] H; [exact I|]. exact (proj2 H). Qed.
Lemma adj3_tl : forall P a l, adj3 P (a :: l) -> adj3 P l.
Proof. intros P a [|b [|c l]] H; try exact I. exact (proj2 H). Qed.

Lemma adj2_app_r : forall P l1 l2, adj2 P (l1 ++ l2) -> adj2 P l2.
Proof.
  intros P l1. induction l1 as [|a l1 IH]; intros l2 H; [exact H|].
  apply IH. exact (adj2_tl P a _ H).
Qed.
Lemma adj3_app_r : forall P l1 l2, adj3 P (l1 ++ l2) -> adj3 P l2.
Proof.
  intros P l1. induction l1 as [|a l1 IH]; intros l2 H; [exact H|].
  apply IH. exact (adj3_tl P a _ H).
Qed.

Lemma adj2_app_l : forall P l1 l2, adj2 P (l1 ++ l2) -> adj2 P l1.
Proof.
  intros P l1. induction l1 as [|a l1 IH]; intros l2 H; [exact I|].
  destruct l1 as [|b l1]; [exact I|].
  cbn [app adj2] in H |- *. destruct H as [H1 H2]. split; [exact H1|]. apply (IH l2). exact H2.
Qed.
Lemma adj3_app_l : forall P l1 l2, adj3 P (l1 ++ l2) -> adj3 P l1.
Proof.
  intros P l1. induction l1 as [|a l1 IH]; intros l2 H; [exact I|].
  destruct l1 as [|b [|c l1]]; try exact I.
  cbn [app adj3] in H |- *. destruct H as [H1 H2]. split; [exact H1|]. apply (IH l2). exact H2.
Qed.

Lemma adj2_impl : forall (P Q : pt -> pt -> Prop) l,
  (forall a b, P a b -> Q a b) -> adj2 P l -> adj2 Q l.
Proof.
  intros P Q l HPQ. induction l as [|a l IH]; intros H; [exact I|].
  destruct l as [|b l]; [exact I|]. destruct H as [H1 H2]. split; [apply HPQ; exact H1 | apply IH; exact H2].
Qed.
Lemma adj3_impl : forall (P Q : pt -> pt -> pt -> Prop) l,
  (forall a b c, P a b c -> Q a b c) -> adj3 P l -> adj3 Q l.
Proof.
  intros P Q l HPQ. induction l as [|a l IH]; intros H; [exact I|].
  destruct l as [|b [|c l]]; try exact I. destruct H as [H1 H2].
  split; [apply HPQ; exact H1 | apply IH; exact H2].
Qed.

Lemma adj2_map : forall P (f : pt -> pt) l, adj2 P (map f l) <-> adj2 (fun a b => P (f a) (f b)) l.
Proof.
  intros P f l. induction l as [|a l IH]; [tauto|].
  destruct l as [|b l]; [cbn; tauto|].
  cbn [map adj2] in *. rewrite IH. tauto.
Qed.
Lemma adj3_map : forall P (f : pt -> pt) l,
  adj3 P (map f l) <-> adj3 (fun a b c => P (f a) (f b) (f c)) l.
Proof.
  intros P f l. induction l as [|a l IH]; [tauto|].
  destruct l as [|b [|c l]]; [cbn; tauto | cbn; tauto |].
  cbn [map adj3] in *. rewrite IH. tauto.
Qed.

Lemma adj2_snoc : forall P l b a, adj2 P (l ++ [b]) -> P b a -> adj2 P (l ++ [b; a]).
Proof.
  intros P l b a. induction l as [|x l IH]; intros H Hp.
  - cbn. tauto.
  - destruct l as [|y l].
    + cbn in H |- *. tauto.
    + cbn [app adj2] in H |- *. destruct H as [H1 H2]. split; [exact H1|]. apply IH; assumption.
Qed.

Lemma adj3_snoc : forall P l c b a, adj3 P (l ++ [c; b]) -> P c b a -> adj3 P (l ++ [c; b; a]).
Proof.
  intros P l c b a. induction l as [|x l IH]; intros H Hp.
  - cbn. tauto.
  - destruct l as [|y [|z l]].
    + cbn in H |- *. tauto.
    + cbn in H |- *. tauto.
    + cbn [app adj3] in H |- *. destruct H as [H1 H2]. split; [exact H1|]. apply IH; assumption.
Qed.

Lemma adj2_rev : forall P l, adj2 P l -> adj2 (fun a b => P b a) (rev l).
Proof.
  intros P l. induction l as [|a l IH]; intros H; [exact I|].
  destruct l as [|b l]; [exact I|].
  destruct H as [H1 H2]. specialize (IH H2).
  cbn [rev] in IH |- *. rewrite <- app_assoc. cbn [app].
  apply adj2_snoc; assumption.
Qed.

Lemma adj3_rev : forall P l, adj3 P l -> adj3 (fun a b c => P c b a) (rev l).
Proof.
  intros P l. induction l as [|a l IH]; intros H; [exact I|].
  destruct l as [|b [|c l]]; [exact I | exact I |].
  destruct H as [H1 H2]. specialize (IH H2).
  cbn [rev] in IH |- *. rewrite <- !app_assoc in IH. rewrite <- !app_assoc. cbn [app] in IH |- *.
  apply adj3_snoc; assumption.
Qed.

Lemma adj2_rev_inv : forall P l, adj2 (fun a b => P b a) (rev l) -> adj2 P l.
Proof.
  intros P l H. apply adj2_rev in H. rewrite rev_involutive in H.
  eapply adj2_impl; [|exact H]. intros a b Hab. exact Hab.
Qed.
Lemma adj3_rev_inv : forall P l, adj3 (fun a b c => P c b a) (rev l) -> adj3 P l.
Proof.
  intros P l H. apply adj3_rev in H. rewrite rev_involutive in H.
  eapply adj3_impl; [|exact H]. intros a b c Hab. exact Hab.
Qed.

(* ---- chains ---- *)
Definition xinc (l : list pt) : Prop := adj2 (fun a b => fst a < fst b) l.
Definition concave (l : list pt) : Prop := adj3 (fun a b c => cross a b c < 0) l.
Definition convex (l : list pt) : Prop := adj3 (fun a b c => 0 < cross a b c) l.

Lemma xinc_hd_lt : forall a l, xinc (a :: l) -> Forall (fun q => fst a < fst q) l.
Proof.
  intros a l. revert a. induction l as [|b l IH]; intros a H; [constructor|].
  destruct H as [H1 H2]. constructor; [exact H1|].
  eapply Forall_impl; [|exact (IH b H2)]. intros q Hq. cbn beta in Hq. lia.
Qed.

Lemma sle_trans : forall a b c, 0 < fst a -> 0 < fst b -> 0 < fst c -> sle a b -> sle b c -> sle a c.
Proof.
  intros [a1 a2] [b1 b2] [c1 c2]. unfold sle. cbn [fst snd]. intros Ha Hb Hc H1 H2.
  assert (a2 * b1 * c1 <= b2 * a1 * c1) by (apply Z.mul_le_mono_nonneg_r; lia).
  assert (b2 * c1 * a1 <= c2 * b1 * a1) by (apply Z.mul_le_mono_nonneg_r; lia).
  nia.
Qed.

Lemma concave_sle : forall v w w', cross v w w' < 0 -> sle (psub w' w) (psub w v).
Proof.
  intros [vx vy] [wx wy] [ux uy]. unfold cross, sle, psub. cbn [fst snd]. intros H. nia.
Qed.

(* a line passing on/above w at least as steep as the edge v->w stays above the chain right of w *)
Lemma concave_below_right : forall l v w o s,
  xinc (v :: w :: l) -> concave (v :: w :: l) -> 0 < fst s ->
  lev o s w <= 0 -> sle (psub w v) s -> Forall (fun q => lev o s q <= 0) l.
Proof.
  induction l as [|u l IH]; intros v w o s Hx Hc Hs Hw Hsl; [constructor|].
  destruct Hx as [Hx1 Hx2]. destruct Hc as [Hc1 Hc2]. pose proof Hx2 as [Hx3 _].
  pose proof (concave_sle v w u Hc1) as Hsl1.
  assert (Hsl2 : sle (psub u w) s).
  { apply (sle_trans _ (psub w v)); try assumption; unfold psub; cbn [fst]; lia. }
  assert (Hu : lev o s u <= 0).
  { apply (lev_below_right o s w (psub u w) u); try assumption.
    - unfold psub; cbn [fst]; lia.
    - rewrite lev_cross. unfold cross, psub. cbn [fst snd]. lia.
    - lia. }
  constructor; [exact Hu|]. apply (IH w u); assumption.
Qed.

Lemma tangent_step : forall cur p q v,
  cross cur p v <= 0 -> 0 <= cross cur p q ->
  fst v < fst p -> fst q < fst p -> fst cur < fst p -> cross q p v <= 0.
Proof.
  intros [ax ay] [px py] [bx b_y] [cx cy]. unfold cross, psub. cbn [fst snd]. intros H1 H2 Hv Hq Hc.
  assert (E : (ax - px) * ((px - bx) * (cy - b_y) - (py - b_y) * (cx - bx)) =
              (bx - px) * ((px - ax) * (cy - ay) - (py - ay) * (cx - ax)) +
              (cx - px) * (- ((px - ax) * (b_y - ay) - (py - ay) * (bx - ax)))) by ring.
  assert (0 <= (px - bx) * (- ((px - ax) * (cy - ay) - (py - ay) * (cx - ax))))
    by (apply Z.mul_nonneg_nonneg; lia).
  assert (0 <= (px - cx) * ((px - ax) * (b_y - ay) - (py - ay) * (bx - ax)))
    by (apply Z.mul_nonneg_nonneg; lia).
  nia.
Qed.

Definition left_or_under (p v : pt) : Prop := fst v < fst p \/ (fst v = fst p /\ snd v < snd p).

Lemma sgt_tangent : forall q p cur, sgt (psub q p) (psub cur p) = true <-> cross cur p q < 0.
Proof.
  intros [qx qy] [px py] [cx cy]. unfold sgt, cross, psub. cbn [fst snd].
  rewrite Z.gtb_ltb, Z.ltb_lt. lia.
Qed.
Lemma sgt_tangent_false : forall q p cur, sgt (psub q p) (psub cur p) = false <-> 0 <= cross cur p q.
Proof.
  intros [qx qy] [px py] [cx cy]. unfold sgt, cross, psub. cbn [fst snd].
  rewrite Z.gtb_ltb, Z.ltb_ge. lia.
Qed.

(* the tangent scan: the result starts at a vertex t such that the whole chain (and whatever was
   already passed) lies on/below the line through t and p *)
Lemma tangent_lower_below : forall p rest cur pre,
  xinc (cur :: rest) -> concave (cur :: rest) -> fst cur < fst p ->
  Forall (left_or_under p) rest ->
  Forall (fun v => fst v < fst p /\ cross cur p v <= 0) pre ->
  exists pre' t T', cur :: rest = pre' ++ t :: T' /\ tangent_lower p cur rest = t :: T' /\
    fst t < fst p /\ Forall (fun v => cross t p v <= 0) (pre ++ cur :: rest).
Proof.
  intros p rest. induction rest as [|q rest IH]; intros cur pre Hx Hc Hcur Hrest Hpre.
  - exists [], cur, []. split; [reflexivity|]. split; [reflexivity|]. split; [exact Hcur|].
    apply Forall_app. split.
    + eapply Forall_impl; [|exact Hpre]. intros v [_ Hv]. exact Hv.
    + constructor; [|constructor]. rewrite <- lev_cross, lev_self. lia.
  - cbn [tangent_lower]. destruct (sgt (psub q p) (psub cur p)) eqn:E.
    + apply sgt_tangent in E.
      exists [], cur, (q :: rest). split; [reflexivity|]. split; [reflexivity|]. split; [exact Hcur|].
      apply Forall_app. split.
      * eapply Forall_impl; [|exact Hpre]. intros v [_ Hv]. exact Hv.
      * constructor; [rewrite <- lev_cross, lev_self; lia|].
        constructor; [lia|].
        assert (Hs : 0 < fst (psub p cur)) by (unfold psub; cbn [fst]; lia).
        assert (Hq : lev cur (psub p cur) q <= 0) by (rewrite lev_cross; lia).
        assert (Hsl : sle (psub q cur) (psub p cur)).
        { revert E. destruct q as [qx qy], p as [px py], cur as [cx cy].
          unfold cross, sle, psub. cbn [fst snd]. lia. }
        pose proof (concave_below_right rest cur q cur (psub p cur) Hx Hc Hs Hq Hsl) as Hall.
        eapply Forall_impl; [|exact Hall]. intros v Hv. cbn beta in Hv. rewrite lev_cross in Hv. exact Hv.
    + apply sgt_tangent_false in E.
      inversion Hrest as [|q0 r0 Hq Hrest']; subst.
      assert (Hqx : fst q < fst p).
      { destruct Hq as [Hq | [Hq1 Hq2]]; [exact Hq|]. exfalso.
        revert E Hq1 Hq2 Hcur. destruct q as [qx qy], p as [px py], cur as [cx cy].
        unfold cross, psub. cbn [fst snd]. intros E Hq1 Hq2 Hcur. subst qx.
        assert (0 < (px - cx) * (py - qy)) by (apply Z.mul_pos_pos; lia). lia. }
      destruct (IH q (pre ++ [cur]) (adj2_tl _ _ _ Hx) (adj3_tl _ _ _ Hc) Hqx Hrest')
        as (pre' & t & T' & E1 & E2 & E3 & E4).
      { apply Forall_app. split.
        - eapply Forall_impl; [|exact Hpre]. intros v [Hv1 Hv2]. split; [exact Hv1|].
          apply (tangent_step cur p q v); assumption.
        - constructor; [|constructor]. split; [exact Hcur|].
          rewrite (cross_swap q p cur), (cross_cyc q cur p). lia. }
      exists (cur :: pre'), t, T'. split; [cbn [app]; rewrite E1; reflexivity|].
      split; [exact E2|]. split; [exact E3|].
      rewrite <- app_assoc in E4. exact E4.
Qed.

(* ---- Graham pops on the reversed upper chain ---- *)
Lemma pop_upper_suffix : forall p rl, exists pre, rl = pre ++ pop_upper p rl.
Proof.
  intros p rl. induction rl as [|a tl IH]; [exists []; reflexivity|].
  destruct tl as [|b tl']; [exists []; reflexivity|].
  change (pop_upper p (a :: b :: tl')) with
    (if cross b a p <=? 0 then pop_upper p (b :: tl') else a :: b :: tl').
  destruct (cross b a p <=? 0).
  - destruct IH as (pre & E). exists (a :: pre). cbn [app]. f_equal. exact E.
  - exists []. reflexivity.
Qed.

Lemma pop_upper_ne : forall p rl, rl <> [] -> pop_upper p rl <> [].
Proof.
  intros p rl. induction rl as [|a tl IH]; intros H; [contradiction|].
  destruct tl as [|b tl']; [exact H|].
  cbn [pop_upper]. destruct (cross b a p <=? 0); [apply IH; discriminate | exact H].
Qed.

Lemma pop_upper_convex : forall p rl,
  adj3 (fun a b c => 0 < cross c b a) rl -> adj3 (fun a b c => 0 < cross c b a) (p :: pop_upper p rl).
Proof.
  intros p rl. induction rl as [|a tl IH]; intros H; [exact I|].
  destruct tl as [|b tl']; [exact I|].
  cbn [pop_upper]. destruct (cross b a p <=? 0) eqn:E.
  - apply IH. exact (adj3_tl _ _ _ H).
  - apply Z.leb_gt in E. split; [exact E | exact H].
Qed.

Lemma pop_upper_line : forall p o s rl,
  0 < fst s -> adj2 (fun a b => fst b < fst a) rl -> Forall (fun v => fst v < fst p) rl ->
  0 <= lev o s p -> Forall (fun v => 0 <= lev o s v) (pop_upper p rl) ->
  Forall (fun v => 0 <= lev o s v) rl.
Proof.
  intros p o s rl Hs. induction rl as [|a tl IH]; intros Hx Hlt Hp Hpop; [constructor|].
  destruct tl as [|b tl']; [exact Hpop|].
  cbn [pop_upper] in Hpop. destruct (cross b a p <=? 0) eqn:E; [|exact Hpop].
  apply Z.leb_le in E. destruct Hx as [Hx1 Hx2].
  inversion Hlt as [|a0 t0 Ha Hlt']; subst.
  pose proof (IH Hx2 Hlt' Hp Hpop) as Htl.
  constructor; [|exact Htl].
  inversion Htl as [|b0 t1 Hb _]; subst.
  inversion Hlt' as [|b1 t2 Hbp _]; subst.
  apply (between_lev_nonneg o s b p a); try assumption; try lia.
  rewrite cross_swap. lia.
Qed.

Lemma push_upper_props : forall D p,
  D <> [] -> xinc D -> convex D -> Forall (fun v => fst v < fst p) D ->
  exists m post, D = m ++ post /\ m <> [] /\ push_upper D p = m ++ [p] /\
    xinc (m ++ [p]) /\ convex (m ++ [p]) /\
    (forall o s, 0 < fst s -> 0 <= lev o s p -> Forall (fun v => 0 <= lev o s v) m ->
                 Forall (fun v => 0 <= lev o s v) D).
Proof.
  intros D p Hne Hx Hc Hlt.
  destruct (pop_upper_suffix p (rev D)) as (pre & E).
  set (pop := pop_upper p (rev D)) in *.
  assert (Hpne : pop <> []).
  { apply pop_upper_ne. intros C. apply Hne. rewrite <- (rev_involutive D), C. reflexivity. }
  assert (HD : D = rev pop ++ rev pre).
  { rewrite <- rev_app_distr, <- E, rev_involutive. reflexivity. }
  assert (Hrx : adj2 (fun a b => fst b < fst a) (rev D)) by (apply adj2_rev; exact Hx).
  assert (Hrc : adj3 (fun a b c => 0 < cross c b a) (rev D)) by (apply adj3_rev; exact Hc).
  assert (Hrlt : Forall (fun v => fst v < fst p) (rev D)) by (apply Forall_rev; exact Hlt).
  exists (rev pop), (rev pre). split; [exact HD|].
  split; [intros C; apply Hpne; rewrite <- (rev_involutive pop), C; reflexivity|].
  split; [reflexivity|].
  split.
  { change (rev pop ++ [p]) with (rev (p :: pop)).
    apply (adj2_rev (fun a b => fst b < fst a)).
    destruct pop as [|a pop'] eqn:Ep; [contradiction|].
    split.
    - rewrite E in Hrlt. apply Forall_app in Hrlt. destruct Hrlt as [_ Hrlt].
      inversion Hrlt; subst. assumption.
    - rewrite E in Hrx. exact (adj2_app_r _ _ _ Hrx). }
  split.
  { change (rev pop ++ [p]) with (rev (p :: pop)).
    apply (adj3_rev (fun a b c => 0 < cross c b a)).
    apply pop_upper_convex. exact Hrc. }
  intros o s Hs Hp Hm.
  rewrite <- (rev_involutive D). apply Forall_rev.
  apply (pop_upper_line p o s (rev D) Hs Hrx Hrlt Hp).
  fold pop. rewrite <- (rev_involutive pop). apply Forall_rev. exact Hm.
Qed.

(* ---- list plumbing ---- *)
Lemma last_app_cons : forall (l1 : list pt) a l2 d, last (l1 ++ a :: l2) d = last (a :: l2) d.
Proof.
  induction l1 as [|x l1 IH]; intros a l2 d; [reflexivity|].
  cbn [app]. destruct (l1 ++ a :: l2) eqn:E.
  - destruct l1; discriminate E.
  - rewrite <- E. cbn [last]. rewrite E. rewrite <- E. apply IH.
Qed.

Lemma last_in : forall (l : list pt) d, l <> [] -> In (last l d) l.
Proof.
  induction l as [|a l IH]; intros d H; [contradiction|].
  destruct l as [|b l]; [left; reflexivity|].
  right. apply (IH d). discriminate.
Qed.

Lemma hd_pt_in : forall l, l <> [] -> In (hd_pt l) l.
Proof. intros [|a l] H; [contradiction|]. left. reflexivity. Qed.

Lemma last_map_neg : forall l, last (map neg l) (0, 0) = neg (last l (0, 0)).
Proof.
  induction l as [|a l IH]; [reflexivity|].
  destruct l as [|b l]; [reflexivity|].
  cbn [map last] in IH |- *. exact IH.
Qed.
Lemma hd_pt_map_neg : forall l, hd_pt (map neg l) = neg (hd_pt l).
Proof. intros [|a l]; reflexivity. Qed.

Lemma xinc_app_lt : forall pre t T', xinc (pre ++ t :: T') -> Forall (fun v => fst v < fst t) pre.
Proof.
  induction pre as [|a pre IH]; intros t T' H; [constructor|].
  cbn [app] in H. pose proof (xinc_hd_lt _ _ H) as Hall.
  apply Forall_app in Hall. destruct Hall as [_ Hall]. inversion Hall; subst.
  constructor; [assumption|]. apply (IH t T'). exact (adj2_tl _ _ _ H).
Qed.

Lemma xinc_all_lt_last : forall l a, xinc (l ++ [a]) -> Forall (fun v => fst v < fst a) l.
Proof. intros l a H. exact (xinc_app_lt l a [] H). Qed.

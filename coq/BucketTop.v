(* BucketTop.v — property C09: BucketingPGMIndex's top-level table maps a key to a bucket whose
   segment slice [top[j], top[j+1]) contains the rightmost segment starting at or before the key. *)
Require Import Base Fp PlaModel GenLeaf IndexModel VariantsModel IndexProofs EfPred.
From Coq Require Import ZifyBool.
Local Open Scope Z_scope.

(* ---------- the inner while loop, as a top-level function ---------- *)
Section Adv.
  Variables (segkeys : list Z) (first_key upper_bound : Z).
  Fixpoint adv (fuel : nat) (k : Z) : Z :=
    match fuel with
    | O => k
    | S f => if (k <? zlen segkeys) && (nth (Z.to_nat k) segkeys 0 - first_key <? upper_bound)
             then adv f (k + 1) else k
    end.
End Adv.

Definition ubound (kt : ktype) (step i : Z) : Z :=
  let prod := wrapK kt i * step in if prod >? kmax kt then kmax kt else prod.

(* successive values of k *)
Fixpoint fill_ks (kt : ktype) (segkeys : list Z) (first_key step : Z) (is_ : list Z) (k : Z) : list Z :=
  match is_ with
  | [] => []
  | i :: rest =>
      let k' := adv segkeys first_key (ubound kt step i) (length segkeys) k in
      k' :: fill_ks kt segkeys first_key step rest k'
  end.

Lemma fill_top_eq kt segkeys first_key step width : forall is_ k acc,
  fill_top kt segkeys first_key step is_ k width acc =
  rev acc ++ map (wrapU width) (fill_ks kt segkeys first_key step is_ k).
Proof.
  induction is_ as [|i rest IH]; intros k acc.
  - cbn [fill_top fill_ks map]. rewrite app_nil_r. reflexivity.
  - change (fill_top kt segkeys first_key step (i :: rest) k width acc) with
      (fill_top kt segkeys first_key step rest (adv segkeys first_key (ubound kt step i) (length segkeys) k) width
         (wrapU width (adv segkeys first_key (ubound kt step i) (length segkeys) k) :: acc)).
    rewrite IH. cbn [fill_ks map rev]. rewrite <- app_assoc. reflexivity.
Qed.

(* the loop advances k to the number of segments whose rebased key is below the bound *)
Lemma adv_spec segkeys first_key upper_bound : sortedb segkeys = true ->
  forall fuel k, 0 <= k <= zlen segkeys -> zlen segkeys - k <= Z.of_nat fuel ->
  adv segkeys first_key upper_bound fuel k = Z.max k (lb segkeys (first_key + upper_bound)).
Proof.
  intros Hs. destruct (lb_spec segkeys (first_key + upper_bound) Hs) as [S1 S2].
  pose proof (lb_le_len segkeys (first_key + upper_bound)) as Hle.
  pose proof (lb_nonneg segkeys (first_key + upper_bound)) as Hnn.
  induction fuel as [|f IH]; intros k Hk Hf.
  - cbn [adv]. lia.
  - cbn [adv]. destruct (k <? zlen segkeys) eqn:E1; cbn [andb]; [|lia].
    destruct (nth (Z.to_nat k) segkeys 0 - first_key <? upper_bound) eqn:E2.
    + rewrite IH by lia.
      destruct (Z.le_gt_cases (lb segkeys (first_key + upper_bound)) k) as [Hc|Hc]; [|lia].
      specialize (S2 k ltac:(lia)). lia.
    + destruct (Z.le_gt_cases (lb segkeys (first_key + upper_bound)) k) as [Hc|Hc]; [lia|].
      specialize (S1 k ltac:(lia)). lia.
Qed.

Lemma wrapK_unsigned_id kt z : ksigned kt = false -> 0 <= z <= kmax kt -> wrapK kt z = z.
Proof.
  unfold wrapK, kmax, wrapU. intros -> Hz. apply Z.mod_small. lia.
Qed.
Lemma ubound_eq kt step i : ksigned kt = false -> 0 <= i <= kmax kt ->
  ubound kt step i = Z.min (i * step) (kmax kt).
Proof.
  intros Hk Hi. unfold ubound. rewrite wrapK_unsigned_id by assumption.
  destruct (i * step >? kmax kt) eqn:E; lia.
Qed.

Section Fill.
  Variables (kt : ktype) (segkeys : list Z) (first_key step : Z).
  Hypothesis Hkt : ksigned kt = false.
  Hypothesis Hs : sortedb segkeys = true.
  Hypothesis Hn : 1 <= zlen segkeys.
  Hypothesis Hstep : 0 <= step.
  Let KM := kmax kt.
  Let cnt (x : Z) := lb segkeys (first_key + x).

  Lemma cnt_mono x y : x <= y -> cnt x <= cnt y.
  Proof. intros H. unfold cnt. apply lb_mono. lia. Qed.

  Lemma fill_ks_nth : forall (m : nat) s k t,
    1 <= s -> k = Z.max 1 (cnt (Z.min ((s - 1) * step) KM)) -> 0 <= t < Z.of_nat m -> s + t <= KM ->
    nth (Z.to_nat t) (fill_ks kt segkeys first_key step (zseq s m) k) 0
    = Z.max 1 (cnt (Z.min ((s + t) * step) KM)).
  Proof.
    induction m as [|m IH]; intros s k t Hs1 Hk Ht Hst; [lia|].
    cbn [zseq fill_ks].
    set (k' := adv segkeys first_key (ubound kt step s) (length segkeys) k).
    assert (Ek' : k' = Z.max 1 (cnt (Z.min (s * step) KM))).
    { unfold k'. pose proof (lb_le_len segkeys (first_key + Z.min ((s - 1) * step) KM)) as Hle.
      fold (cnt (Z.min ((s - 1) * step) KM)) in Hle.
      rewrite adv_spec; try assumption; [|lia|unfold zlen in *; lia].
      rewrite ubound_eq by (fold KM; lia). fold KM. fold (cnt (Z.min (s * step) KM)).
      pose proof (cnt_mono (Z.min ((s - 1) * step) KM) (Z.min (s * step) KM) ltac:(nia)). lia. }
    clearbody k'. destruct (Z.eq_dec t 0) as [->|Ht0].
    - cbn [Z.to_nat nth]. rewrite Ek'. replace (s + 0) with s by lia. reflexivity.
    - rewrite nth_cons_pos by lia.
      rewrite (IH (s + 1) k' (t - 1)); try lia.
      + replace (s + 1 + (t - 1)) with (s + t) by lia. reflexivity.
      + replace (s + 1 - 1) with s by lia. exact Ek'.
  Qed.
End Fill.

Lemma fill_ks_length kt segkeys first_key step : forall is_ k,
  length (fill_ks kt segkeys first_key step is_ k) = length is_.
Proof. induction is_ as [|i rest IH]; intros k; cbn [fill_ks length]; [reflexivity|]. rewrite IH. reflexivity. Qed.
Lemma zseq_length s m : length (zseq s m) = m.
Proof. revert s. induction m as [|m IH]; intros s; cbn [zseq length]; [reflexivity|]. rewrite IH. reflexivity. Qed.

(* ---------- what a successful build_top_level returns ---------- *)
Definition step_actual (bc : bcfg) (D step actual : Z) : Prop :=
  let kt := c_kt (b_cfg bc) in
  (pow_two (b_tls bc) = true /\ 0 <= top_shift bc /\ step = wrapK kt (Z.shiftl 1 (top_shift bc)) /\ step <> 0 /\
   actual = CEIL_INT_DIV D step + 2) \/
  (pow_two (b_tls bc) = false /\ step = Z.max (wrapK kt (CEIL_INT_DIV D (b_tls bc))) 1 /\ actual = b_tls bc + 2).

Lemma build_top_inv bc segs first_key last_key top step :
  build_top_level bc segs first_key last_key = Ok (top, step) ->
  exists actual width,
    step_actual bc (last_key - first_key) step actual /\
    BIT_WIDTH (zlen segs) <= width /\
    top = 0 :: map (wrapU width)
                 (fill_ks (c_kt (b_cfg bc)) (map sg_key segs) first_key step (zseq 1 (Z.to_nat (actual - 2))) 1)
            ++ [wrapU width (zlen segs)].
Proof.
  unfold build_top_level. intros H.
  match type of H with bind ?sa _ = _ => destruct sa as [[st ac]|er] eqn:Esa end; [|discriminate].
  cbn [bind] in H.
  match type of H with bind ?w _ = _ => destruct w as [width|er] eqn:Ew end; [|discriminate].
  cbn [bind] in H. injection H as Htop Hst. subst st. exists ac, width. split; [|split].
  - unfold step_actual. destruct (pow_two (b_tls bc)) eqn:Ep.
    + left. destruct ((top_shift bc <? 0) || (kbits (c_kt (b_cfg bc)) >=? 32) && (top_shift bc >=? kbits (c_kt (b_cfg bc)))
                      || (top_shift bc >=? 32) && (kbits (c_kt (b_cfg bc)) <? 32)) eqn:Eub; [discriminate|].
      destruct (wrapK (c_kt (b_cfg bc)) (Z.shiftl 1 (top_shift bc)) =? 0) eqn:E0; [discriminate|].
      injection Esa as <- <-. repeat split; try reflexivity; lia.
    + right. injection Esa as <- <-. repeat split; reflexivity.
  - destruct (b_tlbs bc =? 0); [injection Ew as <-; lia|].
    destruct (b_tlbs bc <? BIT_WIDTH (zlen segs)) eqn:E; [discriminate|]. injection Ew as <-. lia.
  - rewrite <- Htop. rewrite fill_top_eq. cbn [rev app]. reflexivity.
Qed.

Lemma ceil_div_nonneg x y : 0 <= x -> 0 < y ->
  CEIL_INT_DIV x y = x / y + (if x mod y >? 0 then 1 else 0).
Proof. intros Hx Hy. unfold CEIL_INT_DIV. rewrite Z.quot_div_nonneg, Z.rem_mod_nonneg by lia. reflexivity. Qed.

Lemma ceil_div_bounds x y : 0 <= x -> 0 < y ->
  x / y <= CEIL_INT_DIV x y <= x /\ x <= CEIL_INT_DIV x y * y.
Proof.
  intros Hx Hy. rewrite ceil_div_nonneg by assumption.
  pose proof (Z.div_mod x y ltac:(lia)). pose proof (Z.mod_pos_bound x y Hy).
  assert (0 <= x / y) by (apply Z.div_pos; lia).
  destruct (x mod y >? 0) eqn:E; nia.
Qed.

Lemma pow_two_0 : pow_two 0 = true. Proof. reflexivity. Qed.

Lemma step_facts bc D step actual :
  let kt := c_kt (b_cfg bc) in
  ksigned kt = false -> 0 <= kbits kt -> 0 <= D <= kmax kt -> 0 <= b_tls bc ->
  step_actual bc D step actual ->
  1 <= step /\ D / step <= actual - 2 /\
  (pow_two (b_tls bc) = true -> 0 <= top_shift bc /\ step = 2 ^ top_shift bc).
Proof.
  intros kt Hk HW HD Htls [[Hp [Hsh [Est [Hne Eac]]]]|[Hp [Est Eac]]].
  - fold kt in Est. unfold wrapK in Est. rewrite Hk in Est. unfold wrapU in Est.
    rewrite Z.shiftl_mul_pow2, Z.mul_1_l in Est by assumption.
    assert (Hlt : top_shift bc < kbits kt).
    { destruct (Z.lt_ge_cases (top_shift bc) (kbits kt)) as [Hl|Hg]; [assumption|]. exfalso. apply Hne.
      rewrite Est. replace (top_shift bc) with ((top_shift bc - kbits kt) + kbits kt) by lia.
      rewrite Z.pow_add_r by lia. apply Z.mod_mul. pose proof (pow_pos (kbits kt) HW). lia. }
    assert (Est' : step = 2 ^ top_shift bc).
    { rewrite Est. apply Z.mod_small. split; [pose proof (pow_pos _ Hsh); lia|]. apply Z.pow_lt_mono_r; lia. }
    pose proof (pow_pos _ Hsh) as Hpp. rewrite <- Est' in Hpp.
    pose proof (ceil_div_bounds D step ltac:(lia) Hpp). repeat split; lia.
  - assert (Ht : 1 <= b_tls bc).
    { destruct (Z.eq_dec (b_tls bc) 0) as [E|]; [rewrite E in Hp; discriminate|lia]. }
    pose proof (ceil_div_bounds D (b_tls bc) ltac:(lia) ltac:(lia)) as [[Hc1 Hc2] Hc3].
    fold kt in Est. rewrite wrapK_unsigned_id in Est by (try assumption; pose proof (Z.div_pos D (b_tls bc)); lia).
    repeat split; try lia.
    + rewrite Eac. replace (b_tls bc + 2 - 2) with (b_tls bc) by lia.
      apply Z.div_le_upper_bound; [lia|]. nia.
Qed.

Lemma bit_width_bound n : 1 <= n -> n < 2 ^ BIT_WIDTH n.
Proof.
  intros Hn. unfold BIT_WIDTH, clzll. assert (E : n =? 0 = false) by lia. rewrite E.
  replace (64 - (63 - Z.log2 n)) with (Z.succ (Z.log2 n)) by lia.
  apply Z.log2_spec. lia.
Qed.
Lemma wrapU_small width n v : 1 <= n -> BIT_WIDTH n <= width -> 0 <= v <= n -> wrapU width v = v.
Proof.
  intros Hn Hw Hv. unfold wrapU. apply Z.mod_small. pose proof (bit_width_bound n Hn) as Hb.
  assert (0 <= BIT_WIDTH n).
  { unfold BIT_WIDTH, clzll. pose proof (Z.log2_nonneg n). destruct (n =? 0); lia. }
  assert (2 ^ BIT_WIDTH n <= 2 ^ width) by (apply Z.pow_le_mono_r; lia). lia.
Qed.

Section Bucket.
  Variables (bc : bcfg) (segs : list segment) (first_key last_key : Z) (top : list Z) (step actual width : Z).
  Let kt := c_kt (b_cfg bc).
  Let segkeys := map sg_key segs.
  Let n := zlen segs.
  Let KM := kmax kt.
  Let cnt (x : Z) := lb segkeys (first_key + x).
  Hypothesis Hkt : ksigned kt = false.
  Hypothesis HW : 0 <= kbits kt.
  Hypothesis Htls : 0 <= b_tls bc.
  Hypothesis Hsk : sortedb segkeys = true.      (* strictly increasing in the real structure; non-decreasing suffices *)
  Hypothesis Hhd : hd 0 segkeys = first_key.
  (* the sentinel (last segment key = kmax) is not needed by any proof below *)
  Hypothesis Hne : segs <> [].
  Hypothesis Hfirst : 0 <= first_key.
  Hypothesis Hrange : first_key <= last_key < KM.
  Hypothesis Hsa : step_actual bc (last_key - first_key) step actual.
  Hypothesis Hwd : BIT_WIDTH n <= width.
  Hypothesis Htop : top = 0 :: map (wrapU width) (fill_ks kt segkeys first_key step (zseq 1 (Z.to_nat (actual - 2))) 1)
                          ++ [wrapU width n].

  Lemma n_eq : zlen segkeys = n. Proof. unfold segkeys, n. apply zlen_map. Qed.
  Lemma n_pos : 1 <= n.
  Proof. unfold n. destruct segs; [congruence|]. rewrite zlen_cons. pose proof (zlen_nonneg l). lia. Qed.
  Lemma sfacts : 1 <= step /\ (last_key - first_key) / step <= actual - 2 /\
    (pow_two (b_tls bc) = true -> 0 <= top_shift bc /\ step = 2 ^ top_shift bc).
  Proof. apply step_facts; try assumption. change (0 <= last_key - first_key <= KM). lia. Qed.
  Lemma actual_ge : 2 <= actual.
  Proof. destruct sfacts as [H1 [H2 _]]. pose proof (Z.div_pos (last_key - first_key) step). lia. Qed.
  Lemma cnt_bounds x : 0 <= cnt x <= n.
  Proof. unfold cnt. rewrite <- n_eq. split; [apply lb_nonneg|apply lb_le_len]. Qed.
  Lemma cnt_ge1 x : 1 <= x -> 1 <= cnt x.
  Proof.
    intros Hx. unfold cnt. pose proof Hhd as Hh. pose proof n_pos as Hn. rewrite <- n_eq in Hn.
    destruct segkeys as [|v r]; [unfold zlen in Hn; cbn in Hn; lia|]. cbn [hd] in Hh. subst v.
    cbn [lb]. pose proof (lb_nonneg r (first_key + x)). destruct (first_key <? first_key + x) eqn:E; lia.
  Qed.
  Lemma top_len : zlen top = actual.
  Proof.
    pose proof actual_ge. rewrite Htop. rewrite zlen_cons, zlen_app, zlen_map. unfold zlen at 1.
    rewrite fill_ks_length, zseq_length. unfold zlen; cbn [length]. lia.
  Qed.

  Lemma cnt_0 : cnt 0 = 0.
  Proof.
    unfold cnt. pose proof Hhd as Hh. destruct segkeys as [|v r]; [reflexivity|]. cbn [hd] in Hh. subst v.
    cbn [lb]. destruct (first_key <? first_key + 0) eqn:E; lia.
  Qed.
  Lemma top_0 : nth (Z.to_nat 0) top 0 = 0.
  Proof. rewrite Htop. reflexivity. Qed.
  Lemma top_last : nth (Z.to_nat (actual - 1)) top 0 = n.
  Proof.
    pose proof actual_ge as Ha. pose proof n_pos as Hn. rewrite Htop. rewrite nth_cons_pos by lia.
    assert (El : zlen (map (wrapU width) (fill_ks kt segkeys first_key step (zseq 1 (Z.to_nat (actual - 2))) 1)) = actual - 2).
    { rewrite zlen_map. unfold zlen. rewrite fill_ks_length, zseq_length. lia. }
    rewrite nth_app_r by lia. rewrite El. replace (actual - 1 - 1 - (actual - 2)) with 0 by lia.
    cbn [Z.to_nat nth]. apply (wrapU_small width n n); try assumption. lia.
  Qed.
  Lemma top_mid i : 1 <= i <= actual - 2 -> i <= KM ->
    nth (Z.to_nat i) top 0 = cnt (Z.min (i * step) KM).
  Proof.
    intros Hi HiK. pose proof n_pos as Hn. destruct sfacts as [Hst _].
    rewrite Htop. rewrite nth_cons_pos by lia.
    assert (El : zlen (fill_ks kt segkeys first_key step (zseq 1 (Z.to_nat (actual - 2))) 1) = actual - 2).
    { unfold zlen. rewrite fill_ks_length, zseq_length. lia. }
    rewrite nth_app_l by (rewrite zlen_map; lia).
    rewrite (nth_indep _ 0 (wrapU width 0)) by (rewrite map_length; unfold zlen in El; lia).
    rewrite map_nth.
    rewrite (fill_ks_nth kt segkeys first_key step Hkt Hsk ltac:(rewrite n_eq; lia) ltac:(lia)
               (Z.to_nat (actual - 2)) 1 1 (i - 1)); try lia.
    - replace (1 + (i - 1)) with i by lia. fold KM. fold (cnt (Z.min (i * step) KM)).
      pose proof (cnt_ge1 (Z.min (i * step) KM) ltac:(nia)) as Hc.
      pose proof (cnt_bounds (Z.min (i * step) KM)) as Hb.
      rewrite Z.max_r by lia. apply (wrapU_small width n); assumption.
    - fold KM. replace ((1 - 1) * step) with 0 by lia. rewrite Z.min_l by lia.
      fold (cnt 0). rewrite cnt_0. reflexivity.
  Qed.

  Variable key : Z.
  Hypothesis Hkey : first_key <= key <= last_key.
  Let d := key - first_key.
  Let j := d / step.

  Lemma j_bounds : 0 <= j <= actual - 2 /\ j * step <= d < (j + 1) * step /\ j + 1 <= KM /\ 0 <= d < KM.
  Proof.
    destruct sfacts as [Hst [Hac _]]. unfold j.
    pose proof (Z.div_mod d step ltac:(lia)). pose proof (Z.mod_pos_bound d step ltac:(lia)).
    assert (0 <= d / step) by (apply Z.div_pos; unfold d; lia).
    assert (d / step <= (last_key - first_key) / step) by (apply Z.div_le_mono; unfold d; lia).
    assert (d / step <= d) by nia.
    unfold d in *. repeat split; try lia; nia.
  Qed.
  Lemma ub_cnt : ub segkeys key = cnt (d + 1).
  Proof. unfold cnt, d. rewrite <- lb_succ_ub. f_equal. lia. Qed.

  Theorem bucket_index_in_table_sec : 0 <= j /\ j + 1 < zlen top.
  Proof. rewrite top_len. destruct j_bounds as [Hj _]. lia. Qed.

  Theorem bucket_slice_spec_sec :
    0 <= nth (Z.to_nat j) top 0 <= ub segkeys key /\ ub segkeys key <= nth (Z.to_nat (j + 1)) top 0 <= n.
  Proof.
    destruct j_bounds as [Hj [Hjd [HjK Hd]]]. destruct sfacts as [Hst _]. rewrite ub_cnt.
    split.
    - destruct (Z.eq_dec j 0) as [E|E].
      + rewrite E, top_0. pose proof (cnt_bounds (d + 1)). lia.
      + rewrite top_mid by lia. pose proof (cnt_bounds (Z.min (j * step) KM)). split; [lia|].
        unfold cnt. apply lb_mono. lia.
    - destruct (Z.eq_dec (j + 1) (actual - 1)) as [E|E].
      + rewrite E, top_last. pose proof (cnt_bounds (d + 1)). lia.
      + rewrite top_mid by lia. pose proof (cnt_bounds (Z.min ((j + 1) * step) KM)). split; [|lia].
        unfold cnt. apply lb_mono. lia.
  Qed.

  Lemma ub_range_eq l lo hi q :
    sortedb l = true -> 0 <= lo -> lo <= ub l q -> ub l q <= hi -> hi <= zlen l -> ub_range l lo hi q = ub l q.
  Proof.
    intros Hs H0 H1 H2 H3. unfold ub_range. rewrite <- !lb_succ_ub in *.
    apply (lb_range_eq l lo hi (q + 1)); assumption.
  Qed.

  Variable b : bucketing.
  Hypothesis Hb1 : bk_first b = first_key.
  Hypothesis Hb2 : bk_segments b = segs.
  Hypothesis Hb3 : bk_top b = top.
  Hypothesis Hb4 : bk_step b = step.

  Lemma query_j :
    (if pow_two (b_tls bc) then Ok (Z.shiftr (wrapK kt (key - bk_first b)) (top_shift bc))
     else if bk_step b =? 0 then Err UBDivZero else Ok (Z.quot (wrapK kt (key - bk_first b)) (bk_step b)))
    = Ok j.
  Proof.
    destruct j_bounds as [_ [_ [_ Hd]]]. destruct sfacts as [Hst [_ Hp]].
    rewrite Hb1, Hb4. fold d. rewrite (wrapK_unsigned_id kt d Hkt) by (fold KM; lia).
    destruct (pow_two (b_tls bc)) eqn:Ep.
    - destruct (Hp eq_refl) as [Hsh Est]. rewrite Z.shiftr_div_pow2 by assumption. rewrite <- Est. reflexivity.
    - assert (E : step =? 0 = false) by lia. rewrite E. rewrite Z.quot_div_nonneg by lia. reflexivity.
  Qed.

  Theorem bucketing_segment_for_key_sec : bucketing_segment_for_key bc b key = Ok (ub segkeys key - 1).
  Proof.
    destruct bucket_index_in_table_sec as [Hj0 Hj1].
    destruct bucket_slice_spec_sec as [[Hs1 Hs2] [Hs3 Hs4]].
    unfold bucketing_segment_for_key. fold kt. rewrite query_j. cbn [bind]. rewrite Hb3, Hb2.
    rewrite (nth_res_ok top j 0) by lia. cbn [bind].
    rewrite (nth_res_ok top (j + 1) 0) by lia. cbn [bind]. fold n. fold segkeys.
    assert (E : (nth (Z.to_nat j) top 0 >? nth (Z.to_nat (j + 1)) top 0) || (nth (Z.to_nat (j + 1)) top 0 >? n) = false) by lia.
    rewrite E. rewrite ub_range_eq; try assumption; try lia; [reflexivity|rewrite n_eq; lia].
  Qed.
End Bucket.

(* ================= main theorems (C09) =================
   Side conditions, all explicit:
   - K unsigned (ksigned = false) of any width kbits >= 0 (so in particular 8/16/32/64);
   - 0 <= TopLevelSize;
   - segment keys non-decreasing (strictly increasing in the real structure), the first one = first_key;
   - 0 <= first_key <= key <= last_key < kmax  (kmax is the sentinel value, never a data key);
   - build_top_level succeeded.  Success itself encodes: no UB shift, step <> 0 (for a power-of-two
     TopLevelSize this means 2 <= BIT_WIDTH(TopLevelSize) <= kbits + 1, i.e. TopLevelSize >= 2),
     and TopLevelBitSize = 0 or >= BIT_WIDTH(#segments) so that no stored count is truncated
     (see build_top_level_ok below for the converse). *)
Section Main.
  Variables (bc : bcfg) (segs : list segment) (first_key last_key key : Z) (top : list Z) (step : Z).
  Let kt := c_kt (b_cfg bc).
  Let segkeys := map sg_key segs.
  Hypothesis Hkt : ksigned kt = false.
  Hypothesis HW : 0 <= kbits kt.
  Hypothesis Htls : 0 <= b_tls bc.
  Hypothesis Hsk : sortedb segkeys = true.
  Hypothesis Hhd : hd 0 segkeys = first_key.
  Hypothesis Hne : segs <> [].
  Hypothesis Hfirst : 0 <= first_key.
  Hypothesis Hkey : first_key <= key <= last_key.
  Hypothesis Hlast : last_key < kmax kt.
  Hypothesis Hbuild : build_top_level bc segs first_key last_key = Ok (top, step).
  Let j := (key - first_key) / step.
  Let t := ub segkeys key - 1.     (* index of the rightmost segment with key <= the query *)

  Theorem bucket_index_in_table : 0 <= j /\ j + 1 < zlen top.
  Proof.
    destruct (build_top_inv _ _ _ _ _ _ Hbuild) as [actual [width [Hsa [Hwd Htop]]]].
    eapply bucket_index_in_table_sec; eauto. fold kt. lia.
  Qed.

  Theorem bucket_slice_spec :
    0 <= nth (Z.to_nat j) top 0 <= t + 1 /\ t + 1 <= nth (Z.to_nat (j + 1)) top 0 <= zlen segs.
  Proof.
    destruct (build_top_inv _ _ _ _ _ _ Hbuild) as [actual [width [Hsa [Hwd Htop]]]].
    unfold t. replace (ub segkeys key - 1 + 1) with (ub segkeys key) by lia.
    eapply bucket_slice_spec_sec; eauto. fold kt. lia.
  Qed.

  Variable b : bucketing.
  Hypothesis Hb1 : bk_first b = first_key.
  Hypothesis Hb2 : bk_segments b = segs.
  Hypothesis Hb3 : bk_top b = top.
  Hypothesis Hb4 : bk_step b = step.

  (* the bucket number the model computes is j *)
  Theorem bucket_of_key :
    (if pow_two (b_tls bc) then Ok (Z.shiftr (wrapK kt (key - bk_first b)) (top_shift bc))
     else if bk_step b =? 0 then Err UBDivZero else Ok (Z.quot (wrapK kt (key - bk_first b)) (bk_step b)))
    = Ok j.
  Proof.
    destruct (build_top_inv _ _ _ _ _ _ Hbuild) as [actual [width [Hsa [Hwd Htop]]]].
    eapply query_j; eauto. fold kt. lia.
  Qed.

  Theorem bucketing_segment_for_key_spec : bucketing_segment_for_key bc b key = Ok t.
  Proof.
    destruct (build_top_inv _ _ _ _ _ _ Hbuild) as [actual [width [Hsa [Hwd Htop]]]].
    eapply bucketing_segment_for_key_sec; eauto. fold kt. lia.
  Qed.
End Main.

(* explicit sufficient conditions for the construction to succeed *)
Theorem build_top_level_ok bc segs first_key last_key :
  let kt := c_kt (b_cfg bc) in
  ksigned kt = false -> 0 <= kbits kt ->
  (pow_two (b_tls bc) = true -> 0 <= top_shift bc < kbits kt) ->     (* 2 <= BIT_WIDTH tls <= kbits + 1 *)
  (b_tlbs bc = 0 \/ BIT_WIDTH (zlen segs) <= b_tlbs bc) ->
  exists top step, build_top_level bc segs first_key last_key = Ok (top, step).
Proof.
  intros kt Hk HW Hsh Hwd. unfold build_top_level. fold kt.
  assert (Hw : exists width, (if b_tlbs bc =? 0 then Ok (BIT_WIDTH (zlen segs))
     else if b_tlbs bc <? BIT_WIDTH (zlen segs) then Err ThrowInvalidArgument else Ok (b_tlbs bc)) = Ok width).
  { destruct (b_tlbs bc =? 0) eqn:E0; [eexists; reflexivity|].
    destruct (b_tlbs bc <? BIT_WIDTH (zlen segs)) eqn:E1; [lia|eexists; reflexivity]. }
  destruct Hw as [width Ew]. rewrite Ew.
  destruct (pow_two (b_tls bc)) eqn:Ep.
  - specialize (Hsh eq_refl).
    assert (E1 : (top_shift bc <? 0) || (kbits kt >=? 32) && (top_shift bc >=? kbits kt)
                 || (top_shift bc >=? 32) && (kbits kt <? 32) = false) by lia.
    rewrite E1. unfold wrapK. rewrite Hk. unfold wrapU.
    rewrite Z.shiftl_mul_pow2, Z.mul_1_l by lia.
    assert (Hpp : 0 < 2 ^ top_shift bc) by (apply pow_pos; lia).
    assert (Hlt : 2 ^ top_shift bc < 2 ^ kbits kt) by (apply Z.pow_lt_mono_r; lia).
    rewrite Z.mod_small by lia.
    assert (E2 : 2 ^ top_shift bc =? 0 = false) by lia. rewrite E2.
    cbn [bind]. eexists. eexists. reflexivity.
  - cbn [bind]. eexists. eexists. reflexivity.
Qed.

(* a power-of-two TopLevelSize below 2 never builds: K(1) << kbits is UB (kbits >= 32) or yields step 0 *)
Lemma build_top_level_tls1 bc segs first_key last_key :
  ksigned (c_kt (b_cfg bc)) = false -> In (kbits (c_kt (b_cfg bc))) [8; 16; 32; 64] -> b_tls bc = 1 ->
  is_ok (build_top_level bc segs first_key last_key) = false.
Proof.
  intros Hk HW Ht. unfold build_top_level, top_shift, wrapK, wrapU. rewrite Hk, Ht.
  cbn in HW. destruct HW as [E|[E|[E|[E|[]]]]]; rewrite <- E; reflexivity.
Qed.

(* ---------- the hypotheses are satisfiable: two concrete instances ---------- *)
Definition ex_segs (keys : list Z) : list segment := map (fun k => mkSeg k f64_zero 0) keys.
Definition ex_bc (bits tls tlbs : Z) : bcfg := mkBcfg (mkCfg (mkK bits false) 4 0 true 1 false) tls tlbs.

(* uint8_t keys, TopLevelSize = 4 (power of two: step = 2^(8-3+1) = 64), dynamic width *)
Example ex_pow2 :
  let bc := ex_bc 8 4 0 in
  let keys := [3; 10; 70; 71; 200; 255] in
  build_top_level bc (ex_segs keys) 3 250 = Ok ([0; 2; 4; 4; 6; 6], 64) /\
  sortedb keys = true /\
  forallb (fun key =>
     match bucketing_segment_for_key bc (mkBucketing 100 3 250 (ex_segs keys) [0; 2; 4; 4; 6; 6] 64) key with
     | Ok r => r =? ub keys key - 1 | Err _ => false end) (zseq 3 248) = true.
Proof. vm_compute. repeat split. Qed.

(* uint16_t keys, TopLevelSize = 3 (not a power of two: step = ceil(997/3) = 333), 8-bit cells *)
Example ex_nonpow2 :
  let bc := ex_bc 16 3 8 in
  let keys := [1000; 1001; 1400; 1900; 1997; 65535] in
  build_top_level bc (ex_segs keys) 1000 1997 = Ok ([0; 2; 3; 5; 6], 333) /\
  forallb (fun key =>
     match bucketing_segment_for_key bc (mkBucketing 100 1000 1997 (ex_segs keys) [0; 2; 3; 5; 6] 333) key with
     | Ok r => r =? ub keys key - 1 | Err _ => false end) (zseq 1000 998) = true.
Proof. vm_compute. repeat split. Qed.

(* the general theorem instantiated on the first example (all hypotheses discharged by computation) *)
Example ex_pow2_by_theorem key : 3 <= key <= 250 ->
  bucketing_segment_for_key (ex_bc 8 4 0)
    (mkBucketing 100 3 250 (ex_segs [3; 10; 70; 71; 200; 255]) [0; 2; 4; 4; 6; 6] 64) key
  = Ok (ub [3; 10; 70; 71; 200; 255] key - 1).
Proof.
  intros Hkey.
  apply (bucketing_segment_for_key_spec (ex_bc 8 4 0) (ex_segs [3; 10; 70; 71; 200; 255]) 3 250 key
           [0; 2; 4; 4; 6; 6] 64); try reflexivity; try assumption; try (cbn; lia).
  discriminate.
Qed.

Print Assumptions bucket_index_in_table.
Print Assumptions bucket_slice_spec.
Print Assumptions bucketing_segment_for_key_spec.
Print Assumptions build_top_level_ok.

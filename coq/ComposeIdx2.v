(* ComposeIdx2.v — the closed end-to-end index contract WITH the position conjuncts.
   ComposeFloat32.index_contract_std (and _float / ComposeFloat.index_contract_double) drop the conjunct
   `a_lo a <= a_pos a` that ComposeIdx.search_contract_at_cap provides.  Here it is kept, together with
   what the shape of the returned ApproxPos gives for free:
   * search_shape: lo = PGM_SUB_EPS(pos, Epsilon), hi = PGM_ADD_EPS(pos, Epsilon, n) for every successful search;
   * index_contract_std_pos: index_contract_std + a_lo <= a_pos, 0 <= a_pos,
       lb - Epsilon - 2 <= a_pos <= lb + Epsilon, and a_pos <= a_hi whenever hi is not clamped to n
       (a_hi a < zlen data -> a_hi a = a_pos a + Epsilon + 2);
   * index_contract_float_pos / index_contract_double_pos: the two instances.
   NOT claimed: a_pos a <= zlen data, i.e. a_pos a <= a_hi a when hi IS clamped to n.  The position is
   min(segment(k), next intercept); the Epsilon-band only gives intercept <= n - 1 + Epsilon, and nothing
   in the development bounds a level-0 intercept by n (it would need the geometry of the line chosen by
   the segmentation).  What is proved unconditionally is a_pos a <= lb data q + Epsilon.  (Random testing
   of the model, ~3000 builds with Epsilon 8 and 16, found no level-0 intercept above n: open, not refuted.) *)
Require Import Base Fp PlaModel GenLeaf IndexModel IndexProofs IdxChain FloatOk FloatOkAll FloatOkCap
  ComposeIdx ComposeBuild ComposeFloat ComposeFloat32 ComposeTrace.
From Coq Require Import ZifyBool.
Local Open Scope Z_scope.

(* the ApproxPos returned by search is {pos, PGM_SUB_EPS(pos, Epsilon), PGM_ADD_EPS(pos, Epsilon, n)} *)
Lemma search_shape c ix q a : search c ix q = Ok a ->
  a_lo a = PGM_SUB_EPS (a_pos a) (c_eps c) /\ a_hi a = PGM_ADD_EPS (a_pos a) (c_eps c) (ix_n ix).
Proof.
  unfold search, search_tr. intros H.
  destruct (segment_for_key c ix _) as [[it tr]|e]; cbn [bind] in H; [|discriminate H].
  destruct (seg_at ix it) as [s|e]; cbn [bind] in H; [|discriminate H].
  destruct (seg_at ix (it + 1)) as [nx|e]; cbn [bind] in H; [|discriminate H].
  cbn [fst] in H. injection H as <-. cbn [a_lo a_hi a_pos]. split; reflexivity.
Qed.

(* position facts from the window facts, by the arithmetic of the two macros *)
Lemma pos_of_window eps n pos r lo hi :
  0 <= eps -> lo = PGM_SUB_EPS pos eps -> hi = PGM_ADD_EPS pos eps n ->
  0 <= lo -> lo <= r -> r <= hi -> hi <= n -> lo <= pos ->
  0 <= pos /\ r - eps - 2 <= pos <= r + eps /\ (hi < n -> hi = pos + eps + 2) /\ (hi < n -> pos <= hi).
Proof.
  intros He -> ->. unfold PGM_SUB_EPS, PGM_ADD_EPS.
  destruct (pos <=? eps) eqn:E1; destruct (pos + eps + 2 >=? n) eqn:E2; lia.
Qed.

Theorem index_contract_std_pos c data :
  idx_ok c -> cfg_small c -> std_width c -> data_ok c data -> zlen data <= 2 ^ 30 ->
  (c_fdouble c = false -> zlen data + c_eps c <= 2 ^ 22 - 1 /\ zlen data + 1 + c_epsrec c <= 2 ^ 22 - 1) ->
  exists ix, build c data = Ok ix /\
    forall q, q < sentinel c ->
      exists a, search c ix q = Ok a /\
        0 <= a_lo a <= lb data q /\ lb data q <= a_hi a <= zlen data /\
        (In q data -> lb data q < a_hi a) /\ a_hi a - a_lo a <= 2 * c_eps c + 2 /\
        a_lo a <= a_pos a /\
        0 <= a_pos a /\ lb data q - c_eps c - 2 <= a_pos a <= lb data q + c_eps c /\
        a_lo a = PGM_SUB_EPS (a_pos a) (c_eps c) /\ a_hi a = PGM_ADD_EPS (a_pos a) (c_eps c) (zlen data) /\
        (a_hi a < zlen data -> a_hi a = a_pos a + c_eps c + 2) /\ (a_hi a < zlen data -> a_pos a <= a_hi a).
Proof.
  intros Hc Hsm W Hd Hn Hfl. destruct (build_total c data Hc Hsm Hd Hn) as (ix & E & Hs32).
  exists ix. split; [exact E|]. intros q Hq.
  destruct (search_contract_at_cap c data ix q Hc Hd E Hs32 Hq
              (float_ok_cap_std c data _ Hc Hsm W Hd Hn Hfl)) as (a & Es & H1 & H2 & H3 & H4 & H5 & H6 & H7).
  exists a. split; [exact Es|].
  destruct (search_shape c ix q a Es) as [Elo Ehi]. rewrite (build_ix_n c data ix E) in Ehi.
  pose proof Hc as [_ He _ _ _ _].
  destruct (pos_of_window (c_eps c) (zlen data) (a_pos a) (lb data q) (a_lo a) (a_hi a)
              ltac:(lia) Elo Ehi H1 H2 H3 H4 H7) as (P0 & P1 & P2 & P3).
  repeat (split; try assumption); lia.
Qed.

(* the two Floating types separately *)
Corollary index_contract_float_pos c data :
  idx_ok c -> cfg_small c -> std_width c -> c_fdouble c = false -> data_ok c data ->
  zlen data + c_eps c <= 2 ^ 22 - 1 -> zlen data + 1 + c_epsrec c <= 2 ^ 22 - 1 ->
  exists ix, build c data = Ok ix /\
    forall q, q < sentinel c ->
      exists a, search c ix q = Ok a /\
        0 <= a_lo a <= lb data q /\ lb data q <= a_hi a <= zlen data /\
        (In q data -> lb data q < a_hi a) /\ a_hi a - a_lo a <= 2 * c_eps c + 2 /\
        a_lo a <= a_pos a /\ lb data q - c_eps c - 2 <= a_pos a <= lb data q + c_eps c.
Proof.
  intros Hc Hsm W Hf Hd H1 H2. pose proof Hc as [_ He _ _ _ _].
  destruct (index_contract_std_pos c data Hc Hsm W Hd ltac:(lia) ltac:(intros _; split; assumption))
    as (ix & E & H).
  exists ix. split; [exact E|]. intros q Hq. destruct (H q Hq) as (a & Es & Ha). exists a. split; [exact Es|]. tauto.
Qed.

Corollary index_contract_double_pos c data :
  idx_ok c -> cfg_small c -> std_width c -> c_fdouble c = true -> data_ok c data -> zlen data <= 2 ^ 30 ->
  exists ix, build c data = Ok ix /\
    forall q, q < sentinel c ->
      exists a, search c ix q = Ok a /\
        0 <= a_lo a <= lb data q /\ lb data q <= a_hi a <= zlen data /\
        (In q data -> lb data q < a_hi a) /\ a_hi a - a_lo a <= 2 * c_eps c + 2 /\
        a_lo a <= a_pos a /\ lb data q - c_eps c - 2 <= a_pos a <= lb data q + c_eps c.
Proof.
  intros Hc Hsm W Hf Hd Hn.
  destruct (index_contract_std_pos c data Hc Hsm W Hd Hn ltac:(intros Hf'; rewrite Hf in Hf'; discriminate Hf'))
    as (ix & E & H).
  exists ix. split; [exact E|]. intros q Hq. destruct (H q Hq) as (a & Es & Ha). exists a. split; [exact Es|]. tauto.
Qed.

(* the judge C01_pred_b / C02_pred_b (IndexModel.v) -- which DOES test a_lo <= a_pos -- holds end to end *)
Corollary index_judges_std c data :
  idx_ok c -> cfg_small c -> std_width c -> data_ok c data -> zlen data <= 2 ^ 30 ->
  (c_fdouble c = false -> zlen data + c_eps c <= 2 ^ 22 - 1 /\ zlen data + 1 + c_epsrec c <= 2 ^ 22 - 1) ->
  exists ix, build c data = Ok ix /\
    forall q, q < sentinel c ->
      exists a, search c ix q = Ok a /\ (In q data -> C01_pred_b (c_eps c) data q a = true).
Proof.
  intros Hc Hsm W Hd Hn Hfl. destruct (index_contract_std_pos c data Hc Hsm W Hd Hn Hfl) as (ix & E & H).
  exists ix. split; [exact E|]. intros q Hq. destruct (H q Hq) as (a & Es & H1 & H2 & H3 & H4 & H5 & _).
  exists a. split; [exact Es|]. intros Hin. specialize (H3 Hin). unfold C01_pred_b. lia.
Qed.

(* non-vacuity on the float configuration where float_ok is FALSE (FloatOkAll.cx_not_float_ok) *)
Example cx_contract_pos :
  ~ float_ok cx_c cx_data cx_k /\
  exists ix, build cx_c cx_data = Ok ix /\
    exists a, search cx_c ix cx_k = Ok a /\
      0 <= a_lo a <= 5 /\ 5 <= a_hi a <= 6 /\ a_lo a <= a_pos a /\ 2 <= a_pos a <= 6.
Proof.
  split; [exact cx_not_float_ok|].
  destruct (index_contract_std_pos cx_c cx_data cx_idx_ok cx_cfg_small cx_std_width cx_data_ok)
    as (ix & E & H); [vm_compute; discriminate | intros _; split; vm_compute; discriminate |].
  exists ix. split; [exact E|].
  destruct (H cx_k ltac:(vm_compute; reflexivity)) as (a & Es & H1 & H2 & _ & _ & H5 & _ & H7 & _).
  exists a. split; [exact Es|].
  change (lb cx_data cx_k) with 5 in H1, H2, H7. change (zlen cx_data) with 6 in H2.
  change (c_eps cx_c) with 1 in H7. repeat split; try tauto; lia.
Qed.

Print Assumptions search_shape.
Print Assumptions index_contract_std_pos.
Print Assumptions index_contract_float_pos.
Print Assumptions index_contract_double_pos.
Print Assumptions index_judges_std.
Print Assumptions cx_contract_pos.

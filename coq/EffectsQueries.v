(* EffectsQueries.v — C16: the write effects of every query entry point, REGENERATED from the clang AST of the
   current source (GenFootprints.v, tools/effects_translate.py), contain no write to shared state. *)
From Coq Require Import List Bool String.
Require Import GenFootprints Effects.
Import ListNotations.
Local Open Scope string_scope.
Local Open Scope bool_scope.

Definition fp_read_only (f : footprint) : bool :=
  match fp_shared_writes f with [] => true | _ => false end.

(* every query entry point of every class writes only to locals or to the iterator object its thread owns *)
Theorem queries_read_only : forallb fp_read_only footprints = true.
Proof. vm_compute. reflexivity. Qed.

(* the translator found the entry points (non-vacuity): at least 40 of them, among them the ones below *)
Definition has_entry (c m : string) : bool :=
  existsb (fun f => String.eqb (fp_class f) c && String.eqb (fp_method f) m) footprints.
Theorem entry_points_present :
  Nat.leb 40 (List.length footprints) && has_entry "PGMIndex" "search" && has_entry "CompressedPGMIndex" "search" &&
  has_entry "BucketingPGMIndex" "search" && has_entry "EliasFanoPGMIndex" "search" && has_entry "EliasFanoPGMIndex" "pred" &&
  has_entry "MappedPGMIndex" "upper_bound" && has_entry "MappedPGMIndex" "count" &&
  has_entry "MultidimensionalPGMIndex" "contains" && has_entry "MultidimensionalPGMIndex" "range" && has_entry "RangeIterator" "advance" &&
  has_entry "DynamicPGMIndex" "find" && has_entry "DynamicPGMIndex" "lower_bound" && has_entry "DynamicPGMIndex" "range" &&
  has_entry "Iterator" "advance" && has_entry "Iterator" "lazy_initialize" = true.
Proof. vm_compute. reflexivity. Qed.

(* an abstract thread built from read-only footprints performs no shared write *)
Definition thread_from (evs : list (bool * nat)) : thread :=          (* (is_write, location) on shared memory; writes only if a footprint has one *)
  map (fun p => mkEv (fst p) (snd p) Shared) evs.
Theorem read_only_footprints_give_read_only_threads : forall evs,
  forallb (fun p => negb (fst p)) evs = true -> read_only_thread (thread_from evs).
Proof.
  intros evs H. unfold read_only_thread, thread_from. rewrite Forall_forall. intros e Hin _.
  apply in_map_iff in Hin. destruct Hin as [[w l] [<- Hin]]. cbn.
  rewrite forallb_forall in H. specialize (H (w, l) Hin). cbn in H. destruct w; [discriminate|reflexivity].
Qed.

(* DynExec.v — executable instance of DynModel: the per-level index is IndexModel's PGMIndex. *)
Require Import Base GenLeaf PlaModel IndexModel DynModel.
Local Open Scope Z_scope.

Definition idx_ops (c : cfg) : pgmops index :=
  mkOps index
    (fun keys => build c keys)
    (mkIndex 0 0 [] [])
    (fun ix k => do a <- search c ix k; Ok (a_lo a, a_hi a)).

(* ComposeEfFloat.v — C10 end to end for Floating = float, and the statement covering both Floating types:
   SegmentData::operator() computes the product in Floating arithmetic, so for float the search cannot be
   reduced to PGMIndex::search (whose product is a double).  Instead the position theorem of one level
   is re-proved for an arbitrary evaluation function (EfLevel.g_level_pos) and fed with the rounding
   analysis of the float product (EfFloat.ef_eval_ok_cap_float): the contract holds whenever
   zlen data + eps <= 2^21 - 1 (three float roundings: half the bound of PGMIndex<.., float>). *)
Require Import Base Fp PlaModel PlaSpec PlaCert Greedy PlaComplete PlaSoundGeom PlaSoundInv PlaSound GenLeaf
  IndexModel IndexProofs MappedQueries IdxFed IdxSeg IdxBlock IdxLevel IdxSearch0 IdxRoute IdxChain IdxMain IdxFuel
  FloatOkLemmas FloatOk FloatOkFar FloatOkAll FloatOkCap VariantsModel EfPred ComposeIdx ComposeBuild CmpMono
  BucketTop ComposeBucket EfLevel EfFloat ComposeEf.
From Coq Require Import ZifyBool Reals Lra.
From Flocq Require Import Core BinarySingleNaN.
Local Open Scope Z_scope.

(* the one-level layout with its blocks *)
Definition blk_ok (c : cfg) (eps n : Z) (cs : cseg) (b : list (Z * Z)) : Prop :=
  (seg_rel2 eps cs b /\ line_ok eps cs b /\ pts_ok (c_kt c) eps b) /\ Forall (fun p : Z * Z => snd p <= n) b.

Theorem ef_layout_full c data ix :
  std_width c -> c_epsrec c = 0 -> 1 <= c_par c -> 1 <= c_eps c -> data_ok c data ->
  zlen data + c_eps c < 2 ^ 32 -> build c data = Ok ix ->
  exists css g new T,
    ix = mkIndex (zlen data) (hd 0 data) (new ++ T) [0; zlen (new ++ T)] /\
    concat g = fed_spec (c_kt c) data /\
    Forall2 (blk_ok c (c_eps c) (zlen data)) css g /\ Forall2 (seg_of c) css new /\
    tail_shape c (last_z data) (zlen data) (last new dseg) T /\
    ef_layout_facts c data (new ++ T).
Proof.
  intros W Hrec Hpar Heps Hd Hsm Hb. pose proof Hd as [Hne Hs Hkt Hlast Hn32].
  destruct (std_width_bits c W) as [Hbits _].
  destruct (ef_layout c data ix W Hrec Hpar Heps Hd Hsm Hb) as (L & Eix & Hlay).
  destruct (build0_shape c data ix Hrec Hne Hb) as (segs & ln & E2 & Eix' & Hls).
  rewrite Eix in Eix'. injection Eix' as EL _.
  destruct (build_level_shape _ _ _ _ _ _ _ _ E2) as (css & fed & cnt & new & T & M1 & M2 & Es & HT).
  cbn [app] in Es, HT. rewrite <- EL in Es. clear EL segs E2.
  pose proof (data_key_ok c data Hs Hkt Hlast) as Hko.
  pose proof (key_ok_nowrap _ _ Hbits Hko) as Hw.
  destruct (level_blocks_full _ _ _ _ _ _ _ _ M1 Hbits Hpar Hne Hs Hko ltac:(lia)) as (g & Hcat & He & _ & F).
  pose proof (map_res_Forall2 _ _ _ M2) as F2.
  assert (Hrk : Forall (Forall (fun p : Z * Z => snd p <= zlen data)) g).
  { apply Forall_concat_blocks. rewrite Hcat. apply Forall_forall. intros p Hp.
    apply (spec_only (c_kt c) data Hne Hs Hw) in Hp. apply fed_kind_rank in Hp. lia. }
  exists css, g, new, T. subst L. split; [exact Eix|]. split; [exact Hcat|].
  split; [exact (Forall2_and_r _ _ _ _ F Hrk)|]. split; [exact F2|]. split; [|exact Hlay].
  destruct HT as [(-> & _)|(_ & _ & X & -> & HX)]; [left; reflexivity|right].
  exists X. split; [reflexivity|exact HX].
Qed.

Definition ef_ev (c : cfg) (k : Z) (s : segment) : Z := efseg_eval c (ef_seg s) (sg_key s) k.

Lemma ef_kd_exact c k key : ksigned (c_kt c) = false -> 0 <= k - key < 2 ^ kbits (c_kt c) ->
  (if kbits (c_kt c) >=? 32 then wrapK (c_kt c) (k - key) else k - key) = k - key.
Proof.
  intros Hu H. destruct (kbits (c_kt c) >=? 32); [|reflexivity].
  unfold wrapK. rewrite Hu. unfold wrapU. apply Z.mod_small. exact H.
Qed.

(* one evaluation of one real segment, Floating = float *)
Lemma ef_seg_eval_ok_cap_float c eps n cs b s k T :
  std_width c -> ksigned (c_kt c) = false -> 0 <= eps ->
  blk_ok c eps n cs b -> seg_of c cs s -> sg_key s <= k <= kmax (c_kt c) ->
  c_fdouble c = false -> T <= 2 ^ 21 - 1 -> n + eps < 2 ^ 31 ->
  gev_ok_cap T (ef_ev c k s) (fst (slope_of cs)) (snd (slope_of cs)) s k.
Proof.
  intros W Hu He [(Hrel & Hlo & Hp) Hrk] Hso Hk Hf HT Hsm.
  destruct (std_width_bits c W) as [Hb H64].
  assert (H64' : kbits (c_kt c) <= 64) by (destruct W as [E|[E|[E|E]]]; rewrite E; lia).
  destruct (real_seg_fine c eps n cs b s Hb H64' He Hrel Hlo Hp Hrk Hso) as (Hi & _ & _ & Hks).
  pose proof Hlo as (Hbne & Hfirst & Hdx & Hdy & _). fold (slope_of cs) in Hdx, Hdy.
  pose proof (kspan (c_kt c) Hb) as Hsp.
  assert (Hdk : 0 <= k - sg_key s < 2 ^ kbits (c_kt c)) by lia.
  pose proof (ef_kd_exact c k (sg_key s) Hu Hdk) as Hkd.
  pose proof (seg_of_slope c cs s Hso) as Hsl. unfold ef_ev, ef_seg.
  destruct (one_point cs) eqn:Hop.
  - rewrite (slope_of_one_point cs Hop). cbn [fst snd]. rewrite Hsl.
    rewrite efseg_eval_zero by (rewrite ?Hkd; lia).
    left. left. exists 0. split; [lia|]. split; [lia|]. unfold ev_close. lia.
  - destruct (slope_bounds c eps cs b Hb He Hrel Hp Hop) as [Bx By].
    assert (Hsl' : sg_slope s = slope_to_floating c (fst (slope_of cs), snd (slope_of cs))).
    { rewrite Hsl. rewrite <- surjective_pairing. reflexivity. }
    apply ef_eval_ok_cap_float; try assumption; lia.
Qed.

Lemma ef_ev_inner c k s : ef_ev (einner c) k s = ef_ev c k s.
Proof. reflexivity. Qed.

(* the position EliasFanoPGMIndex<K, Epsilon, float>::search computes *)
Theorem ef_search_pos_float c wl data x q :
  ef_ok c -> c_fdouble c = false -> 0 <= wl -> data_ok c data -> zlen data + c_eps c <= 2 ^ 21 - 1 ->
  ef_index_build c wl data = Ok x -> q < sentinel c ->
  exists pos,
    ef_search c x q = Ok (mkApprox pos (PGM_SUB_EPS pos (c_eps c)) (PGM_ADD_EPS pos (c_eps c) (zlen data))) /\
    lb data q - c_eps c - 2 <= pos <= lb data q + c_eps c /\
    (In q data -> lb data q - c_eps c - 1 <= pos) /\ 0 <= pos.
Proof.
  intros Hok Hfd Hwl Hd Hsm Hbx Hq. pose proof Hok as [Hu W He Hp].
  pose proof Hd as [Hne Hs Hkt Hlast Hn32]. destruct (std_width_bits c W) as [Hbits H64].
  destruct (ef_index_build_inv c wl data x Hne Hbx) as (ix & Hb & ->).
  pose proof (einner_data_ok c data Hd) as Hd'.
  destruct (ef_layout_full (einner c) data ix W eq_refl ltac:(cbn; lia) He Hd' ltac:(cbn; lia) Hb)
    as (css & g & new & T & Eix & Hcat & Fblk & F2 & HT & Hlay).
  cbn [einner c_kt c_eps] in Hcat, Fblk.
  pose proof (einner_build_sz c data ix Hok Hd ltac:(lia) Hb) as H62. rewrite Eix in H62 |- *. cbn [ix_segments] in *.
  set (L := new ++ T) in *.
  pose proof (data_first_nonneg c data Hu Hd) as Hf0.
  assert (Hd0 : hd 0 data <= last_z data).
  { apply (data_le_last data Hne Hs). destruct data; [contradiction|]. left. reflexivity. }
  destruct (ef_search_unfold c wl data L q Hu W Hwl Hlay H62 Hf0 ltac:(lia) ltac:(lia)) as (Es & HJ0 & HJ1 & HJk).
  cbv zeta in Es, HJ0, HJ1, HJk. set (k := Z.max (hd 0 data) q) in *. set (J := ub (map sg_key L) k - 1) in *.
  assert (Hk2 : k < sentinel c) by (unfold k; lia).
  pose proof Hlay as [Hlen Hstrict Hsorted Hhd Hlastk Hfine].
  pose proof (nowrap_data c data Hbits Hne Hs Hkt Hlast) as Hw.
  pose proof (wrap_last c data Hbits Hne Hs Hkt Hlast) as Hwl'.
  assert (HL : Lv (einner c) (c_eps c) (GEvalOKc (ef_ev c k) (zlen data + c_eps c) (einner c) k) css g new).
  { apply Lv_of_Forall2; [eapply Forall2_weaken; [|exact Fblk]; intros a b H; exact (proj1 (proj2 (proj1 H))) | exact F2 |].
    refine (EvL_blocks (einner c) _ (fun _ _ _ => True) _ _ css g new Fblk F2 (EvL_all _ css new (fun _ _ _ => I) F2)).
    intros cs b s rest Hblk Hso _ H1 H2 H3. rewrite <- ef_ev_inner.
    apply (ef_seg_eval_ok_cap_float (einner c) (c_eps c) (zlen data) cs b s k _ W Hu ltac:(lia) Hblk Hso);
      [unfold sentinel in H3; cbn [einner c_kt] in *; lia | exact Hfd | lia | lia]. }
  assert (Hub2 : k < sg_key (nth (Z.to_nat (J + 1)) L dseg)).
  { destruct (ub_spec (map sg_key L) k Hsorted) as [_ U2]. specialize (U2 (J + 1) ltac:(rewrite zlen_map; unfold J; lia)).
    rewrite nth_map_key in U2. exact U2. }
  pose proof (g_level_pos (ef_ev c k) (einner c) (c_eps c) data (last_z data) css g new T k J Hne Hs Hw Hn32 He Hcat HL HT
                Hwl' ltac:(rewrite (lb_last1 c data Hbits Hne Hs Hkt Hlast); lia)) as Hpos.
  fold L in Hpos. specialize (fun Hext => Hpos Hext HJ0 HJ1 HJk Hub2 Hk2). cbv zeta in Hpos.
  assert (Elb : lb data k = lb data q) by (apply lb_clamp_first; assumption). rewrite Elb in Hpos.
  eexists. split; [exact Es|]. unfold ef_ev at 1 in Hpos.
  assert (Hin : In q data -> In k data).
  { intros Hi. unfold k. rewrite Z.max_r by (apply hd_le_In; assumption). exact Hi. }
  assert (Hext : sg_key (extra_seg (einner c) (last_z data) (zlen data)) <= k -> k < sentinel (einner c) ->
          ef_ev c k (extra_seg (einner c) (last_z data) (zlen data)) = sg_icpt (extra_seg (einner c) (last_z data) (zlen data))).
  { intros Hke _. unfold ef_ev, ef_seg. cbn [extra_seg sg_slope sg_icpt sg_key einner c_kt] in Hke |- *.
    pose proof (zlen_ge0 data). rewrite Hwl' in Hke |- *. rewrite (wrapU32_small (zlen data)) by lia.
    assert (Hkm : sentinel c = 2 ^ kbits (c_kt c) - 1) by (unfold sentinel, kmax; rewrite Hu; reflexivity).
    apply efseg_eval_zero; [lia|]. rewrite ef_kd_exact by (try assumption; lia). lia. }
  destruct (Hpos Hext) as (P1 & P2 & P3). split; [exact P1|]. split; [|exact P3].
  intros Hi. apply P2. apply Hin. exact Hi.
Qed.

Theorem ef_search_contract_float c wl data x :
  ef_ok c -> c_fdouble c = false -> 0 <= wl -> data_ok c data -> zlen data + c_eps c <= 2 ^ 21 - 1 ->
  ef_index_build c wl data = Ok x ->
  forall q, q < sentinel c ->
    exists a, ef_search c x q = Ok a /\
      0 <= a_lo a <= lb data q /\ lb data q <= a_hi a <= zlen data /\
      (In q data -> lb data q < a_hi a) /\ a_hi a - a_lo a <= 2 * c_eps c + 2.
Proof.
  intros Hok Hfd Hwl Hd Hsm Hbx q Hq. pose proof Hok as [Hu W He Hp]. pose proof Hd as [Hne Hs Hkt Hlast Hn32].
  destruct (ef_search_pos_float c wl data x q Hok Hfd Hwl Hd Hsm Hbx Hq) as (pos & Es & Hb & Hpres & Hp0).
  eexists. split; [exact Es|]. cbn [a_lo a_hi].
  pose proof (lb_nonneg data q) as Hr0. pose proof (lb_le_len data q) as Hrn.
  pose proof (window_absent (c_eps c) (zlen data) pos (lb data q) ltac:(lia) Hp0 ltac:(lia) Hb) as Hwin.
  cbv zeta in Hwin. repeat split; try lia.
  intros Hin. destruct (present_at_r data Hs q Hin) as [Hr _].
  pose proof (window_present (c_eps c) (zlen data) pos (lb data q) ltac:(lia) Hp0 ltac:(lia)
                ltac:(specialize (Hpres Hin); lia)) as Hwin'.
  cbv zeta in Hwin'. lia.
Qed.

(* EliasFanoPGMIndex<K, Epsilon, float>: the constructor succeeds and every search below the reserved key
   satisfies the contract, for zlen data + Epsilon <= 2^21 - 1; no hypothesis about the floating-point
   evaluation, the built segments or the Elias-Fano low width *)
Theorem ef_contract_total_float c wl data :
  ef_ok c -> c_fdouble c = false -> 0 <= wl -> data_ok c data -> zlen data + c_eps c <= 2 ^ 21 - 1 ->
  exists x, ef_index_build c wl data = Ok x /\
    forall q, q < sentinel c ->
      exists a, ef_search c x q = Ok a /\
        0 <= a_lo a <= lb data q /\ lb data q <= a_hi a <= zlen data /\
        (In q data -> lb data q < a_hi a) /\ a_hi a - a_lo a <= 2 * c_eps c + 2.
Proof.
  intros Hok Hfd Hwl Hd Hsm. destruct (ef_index_build_total c wl data Hok Hd ltac:(lia)) as (x & E).
  exists x. split; [exact E|]. exact (ef_search_contract_float c wl data x Hok Hfd Hwl Hd Hsm E).
Qed.

(* both Floating types in one statement: the size bound is 2^31 for double and 2^21 for float *)
Definition ef_size_ok (c : cfg) (data : list Z) : Prop :=
  if c_fdouble c then zlen data + c_eps c < 2 ^ 31 else zlen data + c_eps c <= 2 ^ 21 - 1.

Theorem ef_search_contract c wl data x :
  ef_ok c -> 0 <= wl -> data_ok c data -> ef_size_ok c data ->
  ef_index_build c wl data = Ok x ->
  forall q, in_ktype (c_kt c) q = true -> q < sentinel c ->
    exists a, ef_search c x q = Ok a /\
      0 <= a_lo a <= lb data q /\ lb data q <= a_hi a <= zlen data /\
      (In q data -> lb data q < a_hi a) /\ a_hi a - a_lo a <= 2 * c_eps c + 2.
Proof.
  intros Hok Hwl Hd Hsz Hbx q _ Hq. unfold ef_size_ok in Hsz. destruct (c_fdouble c) eqn:Ef.
  - exact (ef_search_contract_double c wl data x Hok Ef Hwl Hd Hsz Hbx q Hq).
  - exact (ef_search_contract_float c wl data x Hok Ef Hwl Hd Hsz Hbx q Hq).
Qed.

Theorem ef_contract_total c wl data :
  ef_ok c -> 0 <= wl -> data_ok c data -> ef_size_ok c data ->
  exists x, ef_index_build c wl data = Ok x /\
    forall q, in_ktype (c_kt c) q = true -> q < sentinel c ->
      exists a, ef_search c x q = Ok a /\
        0 <= a_lo a <= lb data q /\ lb data q <= a_hi a <= zlen data /\
        (In q data -> lb data q < a_hi a) /\ a_hi a - a_lo a <= 2 * c_eps c + 2.
Proof.
  intros Hok Hwl Hd Hsz.
  assert (Hsm : zlen data + c_eps c < 2 ^ 31) by (unfold ef_size_ok in Hsz; destruct (c_fdouble c); lia).
  destruct (ef_index_build_total c wl data Hok Hd Hsm) as (x & E).
  exists x. split; [exact E|]. exact (ef_search_contract c wl data x Hok Hwl Hd Hsz E).
Qed.

Print Assumptions ef_search_contract.
Print Assumptions ef_contract_total.

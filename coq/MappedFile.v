(* MappedFile.v — property C12: the file written by serialize_and_map can be read back by the load
   constructor (byte-level round trip), and the three constructors agree. *)
Require Import Base Fp PlaModel GenLeaf IndexModel IndexProofs MappedModel.
From Coq Require Import ZifyBool.
From Flocq Require Import IEEE754.BinarySingleNaN.
Local Open Scope Z_scope.

(* ---- little-endian bytes ---- *)
Lemma le_bytes_nat_length k z : length (le_bytes_nat k z) = k.
Proof. revert z. induction k as [|k IH]; intros z; cbn [le_bytes_nat length]; [reflexivity|]. rewrite IH. reflexivity. Qed.

Lemma le_bytes_length w z : length (le_bytes w z) = Z.to_nat w.
Proof. unfold le_bytes. apply le_bytes_nat_length. Qed.

Lemma le_bytes_zlen w z : 0 <= w -> zlen (le_bytes w z) = w.
Proof. intros Hw. unfold zlen. rewrite le_bytes_length. lia. Qed.

Lemma le_value_le_bytes_nat k z : le_value (le_bytes_nat k z) = z mod 2 ^ (8 * Z.of_nat k).
Proof.
  revert z. induction k as [|k IH]; intros z; cbn [le_bytes_nat le_value].
  - change (2 ^ (8 * Z.of_nat 0)) with 1. rewrite Z.mod_1_r. reflexivity.
  - rewrite IH. replace (8 * Z.of_nat (S k)) with (8 + 8 * Z.of_nat k) by lia.
    rewrite Z.pow_add_r by lia. change (2 ^ 8) with 256.
    rewrite Z.rem_mul_r by lia. reflexivity.
Qed.

Theorem le_value_le_bytes w z : 0 <= w -> le_value (le_bytes w z) = z mod 2 ^ (8 * w).
Proof.
  intros Hw. unfold le_bytes. rewrite le_value_le_bytes_nat.
  rewrite Z2Nat.id by assumption. apply Z.mod_mod. apply Z.pow_nonzero; lia.
Qed.

Lemma firstn_app_exact {A} (l r : list A) k : length l = k -> firstn k (l ++ r) = l.
Proof. intros <-. rewrite firstn_app, Nat.sub_diag, firstn_all. cbn [firstn]. apply app_nil_r. Qed.

Lemma skipn_app_exact {A} (l r : list A) k : length l = k -> skipn k (l ++ r) = r.
Proof. intros <-. rewrite skipn_app, Nat.sub_diag, skipn_all. reflexivity. Qed.

Theorem take_bytes_app w z rest : 0 <= w ->
  take_bytes w (le_bytes w z ++ rest) = Ok (z mod 2 ^ (8 * w), rest).
Proof.
  intros Hw. unfold take_bytes.
  assert (Hlen : zlen (le_bytes w z ++ rest) >= w).
  { unfold zlen. rewrite app_length, le_bytes_length. lia. }
  destruct (zlen (le_bytes w z ++ rest) <? w) eqn:E; [lia|].
  rewrite firstn_app_exact, skipn_app_exact by apply le_bytes_length.
  rewrite le_value_le_bytes by assumption. reflexivity.
Qed.

(* ---- read_many over a flat_map of fixed-format records ---- *)
Lemma read_many_flat_map {A B} (f : list Z -> res (A * list Z)) (enc : B -> list Z) (dec : B -> A)
      (P : B -> Prop) (l : list B) rest :
  (forall b r, P b -> f (enc b ++ r) = Ok (dec b, r)) -> Forall P l ->
  read_many f (length l) (flat_map enc l ++ rest) = Ok (map dec l, rest).
Proof.
  intros Hf. induction l as [|b t IH]; intros HP; cbn [length read_many flat_map map app]; [reflexivity|].
  inversion HP as [|b' t' Hb Ht]; subst.
  rewrite <- app_assoc, (Hf b _ Hb). cbn [bind fst snd]. rewrite (IH Ht). reflexivity.
Qed.

Lemma flat_map_length_const {B} (enc : B -> list Z) (w : nat) (l : list B) :
  (forall b, length (enc b) = w) -> length (flat_map enc l) = (length l * w)%nat.
Proof.
  intros He. induction l as [|b t IH]; cbn [flat_map length]; [reflexivity|].
  rewrite app_length, He, IH. lia.
Qed.

Lemma map_id_on {A} (f : A -> A) (l : list A) : Forall (fun a => f a = a) l -> map f l = l.
Proof. induction 1 as [|a t Ha _ IH]; cbn [map]; [reflexivity|]. rewrite Ha, IH. reflexivity. Qed.

(* ---- key type: a key within the type survives bytes -> as_key ---- *)
Definition kbits_ok (c : cfg) : Prop :=
  kbits (c_kt c) = 8 \/ kbits (c_kt c) = 16 \/ kbits (c_kt c) = 32 \/ kbits (c_kt c) = 64.

Lemma key_bytes_bits c : kbits_ok c -> 8 * key_bytes c = kbits (c_kt c) /\ 0 < key_bytes c.
Proof. unfold kbits_ok, key_bytes. intros [H|[H|[H|H]]]; rewrite H; cbn; lia. Qed.

Lemma wrapK_mod_id kt k : 0 < kbits kt -> in_ktype kt k = true -> wrapK kt (k mod 2 ^ kbits kt) = k.
Proof.
  intros Hb Hin. unfold in_ktype, kmin, kmax in Hin. unfold wrapK, wrapS, wrapU.
  assert (Hp : 0 < 2 ^ kbits kt) by (apply Z.pow_pos_nonneg; lia).
  assert (Hh : 2 ^ kbits kt = 2 * 2 ^ (kbits kt - 1)).
  { replace (kbits kt) with (1 + (kbits kt - 1)) at 1 by lia. rewrite Z.pow_add_r by lia. reflexivity. }
  destruct (ksigned kt).
  - rewrite Zplus_mod_idemp_l. rewrite Z.mod_small by lia. lia.
  - rewrite Z.mod_mod by lia. apply Z.mod_small. lia.
Qed.

Definition wf_keys (c : cfg) (keys : list Z) : Prop := Forall (fun k => in_ktype (c_kt c) k = true) keys.

Definition read_key (c : cfg) (bs : list Z) : res (Z * list Z) :=
  do r <- take_bytes (key_bytes c) bs; Ok (as_key c (fst r), snd r).

Lemma read_key_app c k rest : kbits_ok c -> in_ktype (c_kt c) k = true ->
  read_key c (le_bytes (key_bytes c) k ++ rest) = Ok (k, rest).
Proof.
  intros Hkb Hin. destruct (key_bytes_bits c Hkb) as [H8 Hpos].
  unfold read_key. rewrite take_bytes_app by lia. cbn [bind fst snd]. unfold as_key.
  rewrite H8, wrapK_mod_id by (assumption || lia). reflexivity.
Qed.

Lemma read_keys_app c keys rest : kbits_ok c -> wf_keys c keys ->
  read_many (read_key c) (length keys) (flat_map (le_bytes (key_bytes c)) keys ++ rest) = Ok (keys, rest).
Proof.
  intros Hkb Hwf.
  rewrite (read_many_flat_map (read_key c) (le_bytes (key_bytes c)) (fun k => k)
             (fun k => in_ktype (c_kt c) k = true) keys rest); [rewrite map_id; reflexivity| |exact Hwf].
  intros b r Hb. apply read_key_app; assumption.
Qed.

(* ---- offsets and segments ---- *)
Definition u64 (z : Z) : Prop := 0 <= z < 2 ^ 64.

Lemma read_u64s_app (l : list Z) rest : Forall u64 l ->
  read_many (take_bytes 8) (length l) (flat_map (le_bytes 8) l ++ rest) = Ok (l, rest).
Proof.
  intros Hl.
  rewrite (read_many_flat_map (take_bytes 8) (le_bytes 8) (fun z => z) u64 l rest);
    [rewrite map_id; reflexivity| |exact Hl].
  intros b r Hb. rewrite take_bytes_app by lia. unfold u64 in Hb. change (8 * 8) with 64.
  rewrite Z.mod_small by lia. reflexivity.
Qed.

(* the slope survives the file: its bit pattern fits the field, and decoding then re-encoding the
   pattern gives the pattern back (MappedSlopes.v, slope_ok_finite: every finite slope) *)
Definition slope_ok (c : cfg) (x : f64) : Prop :=
  0 <= slope_bits c x < 2 ^ (8 * slope_bytes c) /\
  slope_bits c (bits_slope c (slope_bits c x)) = slope_bits c x.

Definition wf_segment (c : cfg) (s : segment) : Prop :=
  in_ktype (c_kt c) (sg_key s) = true /\ 0 <= sg_icpt s < 2 ^ 32 /\ slope_ok c (sg_slope s).

Definition reread_segment (c : cfg) (s : segment) : segment :=
  mkSeg (sg_key s) (bits_slope c (slope_bits c (sg_slope s))) (sg_icpt s).

Lemma slope_bytes_pos c : 0 < slope_bytes c.
Proof. unfold slope_bytes. destruct (c_fdouble c); lia. Qed.

Lemma read_segment_app c s rest : kbits_ok c -> wf_segment c s ->
  read_segment c (segment_image c s ++ rest) = Ok (reread_segment c s, rest).
Proof.
  intros Hkb (Hk & Hi & Hr & _). destruct (key_bytes_bits c Hkb) as [H8 Hpos].
  pose proof (slope_bytes_pos c) as Hsb.
  unfold read_segment, segment_image. rewrite <- !app_assoc.
  rewrite take_bytes_app by lia. cbn [bind fst snd].
  rewrite take_bytes_app by lia. cbn [bind fst snd].
  rewrite take_bytes_app by lia. cbn [bind fst snd].
  unfold reread_segment, as_key. rewrite H8, wrapK_mod_id by (assumption || lia).
  rewrite (Z.mod_small (slope_bits c (sg_slope s))) by lia.
  change (8 * 4) with 32. rewrite (Z.mod_small (sg_icpt s)) by lia. reflexivity.
Qed.

Lemma read_segments_app c segs rest : kbits_ok c -> Forall (wf_segment c) segs ->
  read_many (read_segment c) (length segs) (flat_map (segment_image c) segs ++ rest)
  = Ok (map (reread_segment c) segs, rest).
Proof.
  intros Hkb Hwf.
  apply (read_many_flat_map (read_segment c) (segment_image c) (reread_segment c) (wf_segment c)); [|exact Hwf].
  intros b r Hb. apply read_segment_app; assumption.
Qed.

Lemma segment_image_length c s : kbits_ok c ->
  length (segment_image c s) = Z.to_nat (sizeof_segment c).
Proof.
  intros Hkb. destruct (key_bytes_bits c Hkb) as [H8 Hpos]. pose proof (slope_bytes_pos c) as Hsb.
  unfold segment_image. rewrite !app_length, !le_bytes_length.
  unfold sizeof_segment. fold (key_bytes c). fold (slope_bytes c). lia.
Qed.

(* ---- the header region and its size ---- *)
Definition header_part (c : cfg) (ix : index) : list Z :=
  le_bytes 8 (header_size c ix) ++ le_bytes 8 (ix_n ix) ++ le_bytes (key_bytes c) (ix_first_key ix) ++
  le_bytes 8 (zlen (ix_offsets ix)) ++ flat_map (le_bytes 8) (ix_offsets ix) ++
  le_bytes 8 (zlen (ix_segments ix)) ++ flat_map (segment_image c) (ix_segments ix).

Lemma serialize_split c ix keys :
  serialize c ix keys = header_part c ix ++ flat_map (le_bytes (key_bytes c)) keys.
Proof. unfold serialize, header_part. rewrite <- !app_assoc. reflexivity. Qed.

Lemma header_part_length c ix : kbits_ok c -> length (header_part c ix) = Z.to_nat (header_size c ix).
Proof.
  intros Hkb. destruct (key_bytes_bits c Hkb) as [H8 Hpos].
  assert (Hss : 0 < sizeof_segment c).
  { unfold sizeof_segment. fold (key_bytes c). destruct (c_fdouble c); lia. }
  unfold header_part. rewrite !app_length, !le_bytes_length.
  rewrite (flat_map_length_const (le_bytes 8) 8) by (intros b; apply le_bytes_length).
  rewrite (flat_map_length_const (segment_image c) (Z.to_nat (sizeof_segment c)))
    by (intros b; apply segment_image_length; assumption).
  unfold header_size, zlen. nia.
Qed.

(* ---- well-formed index, equality of indexes as far as the file can tell ---- *)
Record wf_index (c : cfg) (ix : index) : Prop := mkWf {
  wf_kbits : kbits_ok c;
  wf_n : u64 (ix_n ix);
  wf_first : in_ktype (c_kt c) (ix_first_key ix) = true;
  wf_offsets : Forall u64 (ix_offsets ix);
  wf_segments : Forall (wf_segment c) (ix_segments ix);
  (* the header fits a size_t; this bounds both counts (zlen offsets, zlen segments < 2^64) *)
  wf_header : header_size c ix < 2 ^ 64
}.

Definition seg_eq (c : cfg) (s' s : segment) : Prop :=
  sg_key s' = sg_key s /\ sg_icpt s' = sg_icpt s /\ slope_bits c (sg_slope s') = slope_bits c (sg_slope s).

Definition index_eq (c : cfg) (ix' ix : index) : Prop :=
  ix_n ix' = ix_n ix /\ ix_first_key ix' = ix_first_key ix /\ ix_offsets ix' = ix_offsets ix /\
  Forall2 (seg_eq c) (ix_segments ix') (ix_segments ix).

Lemma reread_segments_eq c segs : Forall (wf_segment c) segs ->
  Forall2 (seg_eq c) (map (reread_segment c) segs) segs.
Proof.
  induction 1 as [|s t Hs _ IH]; cbn [map]; constructor; [|exact IH].
  destruct Hs as (_ & _ & _ & Hrt). unfold seg_eq, reread_segment; cbn [sg_key sg_icpt sg_slope]. auto.
Qed.

Lemma header_counts c ix : kbits_ok c -> header_size c ix < 2 ^ 64 ->
  0 <= header_size c ix /\ u64 (zlen (ix_offsets ix)) /\ u64 (zlen (ix_segments ix)).
Proof.
  intros Hkb Hh. destruct (key_bytes_bits c Hkb) as [H8 Hpos].
  assert (Hss : 1 <= sizeof_segment c).
  { unfold sizeof_segment. fold (key_bytes c). destruct (c_fdouble c); lia. }
  unfold header_size, u64, zlen in *. nia.
Qed.

(* ---- C12: load (serialize ix keys) ---- *)
(* the index that load returns, explicitly: only the slopes are re-decoded *)
Definition reread_index (c : cfg) (ix : index) : index :=
  mkIndex (ix_n ix) (ix_first_key ix) (map (reread_segment c) (ix_segments ix)) (ix_offsets ix).

Theorem load_serialize_explicit c ix keys :
  wf_index c ix -> wf_keys c keys -> ix_n ix = zlen keys ->
  load c (serialize c ix keys) = Ok (reread_index c ix, keys) /\ index_eq c (reread_index c ix) ix.
Proof.
  intros [Hkb Hn Hfk Hoffs Hsegs Hhdr] Hkeys Hnk.
  destruct (key_bytes_bits c Hkb) as [H8 Hpos].
  destruct (header_counts c ix Hkb Hhdr) as (Hh0 & Hno & Hns).
  split.
  - unfold load, reread_index.
    assert (Hskip : skipn (Z.to_nat (header_size c ix)) (serialize c ix keys)
                    = flat_map (le_bytes (key_bytes c)) keys).
    { rewrite serialize_split. apply skipn_app_exact. apply header_part_length. assumption. }
    unfold serialize at 1.
    rewrite take_bytes_app by lia. cbn [bind fst snd].
    rewrite take_bytes_app by lia. cbn [bind fst snd].
    rewrite take_bytes_app by lia. cbn [bind fst snd].
    rewrite take_bytes_app by lia. cbn [bind fst snd].
    change (8 * 8) with 64. unfold u64 in Hn, Hno, Hns.
    rewrite (Z.mod_small (zlen (ix_offsets ix))) by lia.
    unfold zlen at 1. rewrite Nat2Z.id.
    rewrite read_u64s_app by assumption. cbn [bind fst snd].
    rewrite take_bytes_app by lia. cbn [bind fst snd]. change (8 * 8) with 64.
    rewrite (Z.mod_small (zlen (ix_segments ix))) by lia.
    unfold zlen at 1. rewrite Nat2Z.id.
    rewrite read_segments_app by assumption. cbn [bind fst snd].
    rewrite (Z.mod_small (header_size c ix)) by lia. rewrite Hskip.
    rewrite (Z.mod_small (ix_n ix)) by lia. rewrite Hnk. unfold zlen at 1. rewrite Nat2Z.id.
    change (fun bs : list Z => do r <- take_bytes (key_bytes c) bs; Ok (as_key c (fst r), snd r)) with (read_key c).
    rewrite <- (app_nil_r (flat_map (le_bytes (key_bytes c)) keys)).
    rewrite read_keys_app by assumption. cbn [bind fst snd].
    unfold as_key. rewrite H8, wrapK_mod_id by (assumption || lia). reflexivity.
  - unfold index_eq, reread_index; cbn [ix_n ix_first_key ix_offsets ix_segments].
    repeat split. apply reread_segments_eq. assumption.
Qed.

Theorem load_serialize c ix keys :
  wf_index c ix -> wf_keys c keys -> ix_n ix = zlen keys ->
  exists ix', load c (serialize c ix keys) = Ok (ix', keys) /\ index_eq c ix' ix.
Proof. intros Hwf Hk Hn. exists (reread_index c ix). apply load_serialize_explicit; assumption. Qed.

(* ---- the three constructors ---- *)
Lemma build_n c data ix : build c data = Ok ix -> ix_n ix = zlen data.
Proof.
  unfold build. destruct (zlen data =? 0) eqn:E0.
  - intros H. injection H as <-. cbn [ix_n]. lia.
  - destruct (last_z data =? sentinel c); [discriminate|].
    destruct (build_level c (c_eps c) data (zlen data) (last_z data) []) as [[segs last_n]|e]; cbn [bind]; [|discriminate].
    destruct (build_upper c (length data + 2) (last_z data) segs [0; zlen segs] last_n) as [r2|e]; cbn [bind]; [|discriminate].
    intros H. injection H as <-. reflexivity.
Qed.

Theorem reopen_from_range c data m :
  from_range c data = Ok m -> wf_index c (mp_ix m) -> wf_keys c data ->
  exists m', reopen c (mp_file m) = Ok m' /\ mp_data m' = mp_data m /\ mp_data m' = data /\
             mp_file m' = mp_file m /\ index_eq c (mp_ix m') (mp_ix m).
Proof.
  unfold from_range. destruct (build c data) as [ix|e] eqn:Eb; cbn [bind]; [|discriminate].
  intros H Hwf Hk. injection H as <-. cbn [mp_ix mp_data mp_file] in *.
  pose proof (build_n c data ix Eb) as Hn.
  destruct (load_serialize_explicit c ix data Hwf Hk Hn) as [Hl He].
  exists (mkMapped (reread_index c ix) data (serialize c ix data)).
  unfold reopen. rewrite Hl. cbn [bind fst snd mp_ix mp_data mp_file]. do 4 (split; [reflexivity|]). exact He.
Qed.

Lemma raw_file_length c data : kbits_ok c -> zlen (raw_file c data) = zlen data * key_bytes c.
Proof.
  intros Hkb. destruct (key_bytes_bits c Hkb) as [H8 Hpos]. unfold raw_file, zlen.
  rewrite (flat_map_length_const (le_bytes (key_bytes c)) (Z.to_nat (key_bytes c)))
    by (intros b; apply le_bytes_length). lia.
Qed.

Theorem from_raw_raw_file c data : kbits_ok c -> wf_keys c data ->
  from_raw c (raw_file c data) = from_range c data.
Proof.
  intros Hkb Hk. destruct (key_bytes_bits c Hkb) as [H8 Hpos].
  unfold from_raw, from_range. cbn zeta. rewrite raw_file_length by assumption.
  rewrite Z.rem_mul by lia. cbn [Z.eqb negb]. rewrite Z.div_mul by lia.
  unfold zlen. rewrite Nat2Z.id.
  change (fun bs : list Z => do r <- take_bytes (key_bytes c) bs; Ok (as_key c (fst r), snd r)) with (read_key c).
  unfold raw_file. rewrite <- (app_nil_r (flat_map (le_bytes (key_bytes c)) data)).
  rewrite read_keys_app by assumption. cbn [bind fst snd]. reflexivity.
Qed.

(* ---- slopes: when does a value survive float_bits -> bits_float -> float_bits ---- *)
(* integer content of Flocq's `bounded` *)
Lemma bounded_facts prec emax m e : 0 < prec -> SpecFloat.bounded prec emax m e = true ->
  Zpos m < 2 ^ prec /\ 3 - emax - prec <= e <= emax - prec /\
  (Zpos m < 2 ^ (prec - 1) -> e = 3 - emax - prec).
Proof.
  intros Hp Hb. unfold SpecFloat.bounded in Hb. apply andb_prop in Hb. destruct Hb as [Hc He].
  unfold SpecFloat.canonical_mantissa in Hc. apply Zeq_bool_eq in Hc.
  unfold SpecFloat.fexp, SpecFloat.emin in Hc.
  rewrite Digits.Zpos_digits2_pos in Hc.
  pose proof (Digits.Zdigits_correct Zaux.radix2 (Zpos m)) as Hd.
  set (d := Digits.Zdigits Zaux.radix2 (Z.pos m)) in *.
  change (Z.abs (Z.pos m)) with (Z.pos m) in Hd. cbn [Zaux.radix_val Zaux.radix2] in Hd.
  assert (Hd0 : 0 < d).
  { destruct (Z_lt_le_dec 0 d) as [H|H]; [exact H|]. exfalso.
    destruct Hd as [_ Hd]. assert (2 ^ d <= 2 ^ 0) by (destruct (Z.eq_dec d 0) as [->|]; [lia|rewrite Z.pow_neg_r by lia; cbn; lia]).
    change (2 ^ 0) with 1 in *. lia. }
  split; [|split].
  - assert (2 ^ d <= 2 ^ prec) by (apply Z.pow_le_mono_r; lia). lia.
  - lia.
  - intros Hm. assert (Hdp : d - 1 < prec - 1).
    { apply (Z.pow_lt_mono_r_iff 2); lia. }
    lia.
Qed.

(* splitting a pattern sign | exponent field | mantissa field *)
Lemma decode_fields (W P : Z) (s : bool) ef mf :
  0 < P -> 0 <= mf < P -> 0 <= ef -> ef * P + mf < W ->
  let b := (if s then W else 0) + ef * P + mf in
  (b / W =? 1) = s /\ (b mod W) / P = ef /\ (b mod W) mod P = mf.
Proof.
  intros HP Hmf Hef HW b.
  assert (Hrest : 0 <= ef * P + mf < W) by nia.
  assert (Hq : b / W = if s then 1 else 0).
  { symmetry. apply (Z.div_unique b W _ (ef * P + mf)); [left; exact Hrest|]. subst b. destruct s; lia. }
  assert (Hr : b mod W = ef * P + mf).
  { symmetry. apply (Z.mod_unique b W (if s then 1 else 0) _); [left; exact Hrest|]. subst b. destruct s; lia. }
  rewrite Hq, Hr. split; [destruct s; reflexivity|]. split.
  - symmetry. apply (Z.div_unique _ P ef mf); [left; exact Hmf|lia].
  - symmetry. apply (Z.mod_unique _ P ef mf); [left; exact Hmf|lia].
Qed.

Lemma float_bits_finite_fields prec emax w s m e (H : SpecFloat.bounded prec emax m e = true) :
  1 < prec < w -> 0 < emax -> 2 * emax <= 2 ^ (w - prec) ->
  exists ef mf,
    float_bits prec emax w (B754_finite s m e H : binary_float prec emax)
      = (if s then 2 ^ (w - 1) else 0) + ef * 2 ^ (prec - 1) + mf /\
    0 <= mf < 2 ^ (prec - 1) /\ 0 <= ef /\ ef * 2 ^ (prec - 1) + mf < 2 ^ (w - 1) /\
    (if ef =? 0 then mf else mf + 2 ^ (prec - 1)) = Zpos m /\
    (if ef =? 0 then 3 - emax - prec else ef - (emax - 1) - (prec - 1)) = e.
Proof.
  intros Hp Hemax Hfmt.
  destruct (bounded_facts prec emax m e ltac:(lia) H) as (Hm & He & Hsub).
  assert (HP : 0 < 2 ^ (prec - 1)) by (apply Z.pow_pos_nonneg; lia).
  assert (H2P : 2 ^ prec = 2 * 2 ^ (prec - 1)).
  { replace prec with (1 + (prec - 1)) at 1 by lia. rewrite Z.pow_add_r by lia. reflexivity. }
  assert (HW : 2 ^ (w - 1) = 2 ^ (w - prec) * 2 ^ (prec - 1)).
  { rewrite <- Z.pow_add_r by lia. f_equal. lia. }
  cbn [float_bits]. destruct (Z.pos m <? 2 ^ (prec - 1)) eqn:E.
  - exists 0, (Zpos m). cbn [Z.eqb]. specialize (Hsub ltac:(lia)).
    repeat split; try lia. nia.
  - exists (e + (emax - 1) + (prec - 1)), (Zpos m - 2 ^ (prec - 1)).
    assert (Hef : 1 <= e + (emax - 1) + (prec - 1) <= 2 * emax - 2) by lia.
    destruct (e + (emax - 1) + (prec - 1) =? 0) eqn:E0; [lia|].
    repeat split; try lia. nia.
Qed.

Lemma bits_float_finite prec emax w s m e (H : SpecFloat.bounded prec emax m e = true) :
  1 < prec < w -> 0 < emax -> 2 * emax <= 2 ^ (w - prec) ->
  bits_float prec emax w (float_bits prec emax w (B754_finite s m e H : binary_float prec emax))
  = Fp.conv (binary_normalize 53 1024 p53 e53 mode_NE (SpecFloat.cond_Zopp s (Zpos m)) e s) 53 1024 p53 e53.
Proof.
  intros Hp Hemax Hfmt.
  destruct (float_bits_finite_fields prec emax w s m e H Hp Hemax Hfmt) as (ef & mf & Hb & Hmf & Hef & HW & Hz & He).
  rewrite Hb. clear Hb.
  assert (HP : 0 < 2 ^ (prec - 1)) by (apply Z.pow_pos_nonneg; lia).
  destruct (decode_fields (2 ^ (w - 1)) (2 ^ (prec - 1)) s ef mf HP Hmf Hef HW) as (D1 & D2 & D3).
  cbn zeta in D1, D2, D3. unfold bits_float. cbn zeta.
  rewrite D1, D2, D3, Hz, He. unfold SpecFloat.cond_Zopp. destruct s; reflexivity.
Qed.

Lemma bits_float_zero prec emax w s : 1 < prec < w ->
  bits_float prec emax w (float_bits prec emax w (B754_zero s : binary_float prec emax)) = B754_zero s.
Proof.
  intros Hp. cbn [float_bits].
  assert (HP : 0 < 2 ^ (prec - 1)) by (apply Z.pow_pos_nonneg; lia).
  assert (HW : 0 < 2 ^ (w - 1)) by (apply Z.pow_pos_nonneg; lia).
  pose proof (decode_fields (2 ^ (w - 1)) (2 ^ (prec - 1)) s 0 0 HP ltac:(lia) ltac:(lia) ltac:(lia)) as D.
  cbn zeta in D.
  replace ((if s then 2 ^ (w - 1) else 0) + 0 * 2 ^ (prec - 1) + 0) with (if s then 2 ^ (w - 1) else 0) in D by lia.
  destruct D as (D1 & D2 & D3).
  unfold bits_float. cbn zeta. rewrite D1, D2, D3. cbn [Z.eqb]. destruct s; reflexivity.
Qed.

(* decoding the pattern of a finite value = re-rounding it to double twice (both exact, see MappedSlopes.v) *)
Lemma bits_float_float_bits prec emax w (x : binary_float prec emax) :
  1 < prec < w -> 0 < emax -> 2 * emax <= 2 ^ (w - prec) -> is_finite x = true ->
  bits_float prec emax w (float_bits prec emax w x) = Fp.conv (Fp.conv x 53 1024 p53 e53) 53 1024 p53 e53.
Proof.
  intros Hp Hemax Hfmt Hfin. destruct x as [s| | |s m e H]; try discriminate.
  - rewrite bits_float_zero by assumption. reflexivity.
  - rewrite bits_float_finite by assumption. reflexivity.
Qed.

Lemma float_bits_range prec emax w (x : binary_float prec emax) :
  1 < prec < w -> 0 < emax -> 2 * emax <= 2 ^ (w - prec) -> is_finite x = true ->
  0 <= float_bits prec emax w x < 2 ^ w.
Proof.
  intros Hp Hemax Hfmt Hfin.
  assert (HW : 0 < 2 ^ (w - 1)) by (apply Z.pow_pos_nonneg; lia).
  assert (H2W : 2 ^ w = 2 * 2 ^ (w - 1)).
  { replace w with (1 + (w - 1)) at 1 by lia. rewrite Z.pow_add_r by lia. reflexivity. }
  destruct x as [s| | |s m e H]; try discriminate.
  - cbn [float_bits]. destruct s; lia.
  - destruct (float_bits_finite_fields prec emax w s m e H Hp Hemax Hfmt) as (ef & mf & Hb & Hmf & Hef & HWl & _).
    rewrite Hb. assert (0 <= ef * 2 ^ (prec - 1)) by (apply Z.mul_nonneg_nonneg; lia).
    destruct s; lia.
Qed.

(* finite slopes (in the Floating type of the configuration) *)
Definition slope_finite (c : cfg) (x : f64) : bool :=
  if c_fdouble c then is_finite x else is_finite (f64_to_f32 x).

Lemma slope_bits_range c x : slope_finite c x = true -> 0 <= slope_bits c x < 2 ^ (8 * slope_bytes c).
Proof.
  unfold slope_finite, slope_bits, slope_bytes. destruct (c_fdouble c); intros Hf.
  - apply (float_bits_range 53 1024 64 x); [lia|lia|cbn; lia|exact Hf].
  - apply (float_bits_range 24 128 32 (f64_to_f32 x)); [lia|lia|cbn; lia|exact Hf].
Qed.

(* Byte-level lemmas: closed.  load/serialize themselves mention Flocq operations (slope_bits uses
   f64_to_f32 = binary_normalize, whose DEFINITION carries proofs about reals), so every statement about
   them lists the four axioms of Coq's Reals library; no proof in this file uses a real-number lemma. *)
Print Assumptions le_value_le_bytes.
Print Assumptions take_bytes_app.
Print Assumptions read_many_flat_map.
Print Assumptions read_keys_app.
Print Assumptions read_u64s_app.
Print Assumptions decode_fields.
Print Assumptions bounded_facts.
Print Assumptions serialize.
Print Assumptions load_serialize_explicit.
Print Assumptions load_serialize.
Print Assumptions reopen_from_range.
Print Assumptions from_raw_raw_file.

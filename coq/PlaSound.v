(* PlaSound.v — soundness of OptimalPiecewiseLinearModel::add_point / get_segment:
   both extreme lines of the reported segment are within the band of every fed point. *)
Require Import Base PlaModel PlaSpec PlaCert Greedy PlaComplete PlaSoundGeom PlaSoundInv.
Local Open Scope Z_scope.

Lemma pt_eqb_refl : forall a, pt_eqb a a = true.
Proof. intros [x y]. unfold pt_eqb. cbn [fst snd]. rewrite !Z.eqb_refl. reflexivity. Qed.

Lemma lines_in_band : forall eps (o : pt) (s : slp) cur,
  Forall (fun q => lev o s q <= 0) (lows eps cur) ->
  Forall (fun u => 0 <= lev o s u) (ups eps cur) ->
  Forall (line_in_band eps (fst o) (snd o) (fst s) (snd s)) cur.
Proof.
  intros eps o s cur HL HU. unfold lows in HL. unfold ups in HU.
  rewrite Forall_map in HL, HU. rewrite Forall_forall in HL, HU. apply Forall_forall.
  intros [x y] Hp. pose proof (HL _ Hp) as A. pose proof (HU _ Hp) as B.
  cbn beta in A, B. unfold line_in_band. unfold lev in A, B. cbn [fst snd] in A, B. lia.
Qed.

Lemma sinv_feasible : forall eps cur s,
  cur <> [] -> rect_inv eps cur s -> sinv eps cur s ->
  max_line_feasible eps (get_segment s) cur /\ min_line_feasible eps (get_segment s) cur.
Proof.
  intros eps cur s Hne (He & Hn & _) (S1 & S2 & _).
  assert (Hlen : 1 <= zlen cur).
  { destruct cur; [contradiction|]. unfold zlen. cbn [length]. lia. }
  unfold get_segment. destruct (p_n s =? 1) eqn:E.
  - unfold max_line_feasible, min_line_feasible, one_point. cbn [c_r0 c_r1 c_r2 c_r3].
    rewrite !pt_eqb_refl. cbn [andb]. split; exact I.
  - apply Z.eqb_neq in E. assert (H2 : 2 <= p_n s) by lia.
    pose proof (S2 H2) as HI. destruct HI.
    unfold max_line_feasible, min_line_feasible.
    destruct (one_point _); [split; exact I|]. cbn [c_r0 c_r1 c_r2 c_r3].
    split; (split; [assumption|]); apply lines_in_band; assumption.
Qed.

Theorem feed_all_sound :
  forall eps pts s0 s,
    0 <= eps -> pla_init eps = Ok s0 -> pts <> [] -> xs_increasing pts -> ranks_ok eps pts ->
    feed_all y_size_t s0 pts = Ok s ->
    max_line_feasible eps (get_segment s) pts /\ min_line_feasible eps (get_segment s) pts.
Proof.
  intros eps pts s0 s Heps Hinit Hne _ Hr Hfeed.
  destruct (rect_inv_init eps s0 Hinit) as [Hrect0 _].
  pose proof (sinv_init eps s0 Hinit) as Hs0.
  destruct (feed_all_sinv eps pts [] s0 s Heps Hr Hrect0 Hs0 Hfeed) as [Hrect Hs].
  cbn [app] in Hrect, Hs.
  apply sinv_feasible; assumption.
Qed.


(* ====================== the reported line ====================== *)
Ltac Zify.zify_post_hook ::= Z.quot_rem_to_equations.

Lemma round_div_half' : forall n d, 0 < d -> 2 * Z.abs (d * round_div n d - n) <= d.
Proof.
  intros n d Hd. unfold round_div.
  destruct (n <? 0) eqn:Hn; destruct (d <? 0) eqn:Hd'; try lia; cbn [xorb]; nia.
Qed.

Lemma quot2_between : forall a b, a <= b -> a <= Z.quot (b + a) 2 <= b.
Proof. intros a b H. lia. Qed.

Ltac Zify.zify_post_hook ::= idtac.

Lemma band_hi_le : forall eps y, band_hi eps y <= y + eps.
Proof.
  intros eps y. unfold band_hi, band, y_size_t. cbn [fst ymax].
  destruct (y >=? 2 ^ 64 - 1 - eps) eqn:E; [|lia]. apply Z.geb_le in E. lia.
Qed.
Lemma band_lo_ge : forall eps y, y - eps <= band_lo eps y.
Proof.
  intros eps y. destruct (band_lo_cases eps y) as [[H E] | [H E]]; rewrite E; lia.
Qed.

Theorem reported_line_sound : forall eps c pts,
  one_point c = false -> max_line_feasible eps c pts -> Forall (reported_line_close eps c) pts.
Proof.
  intros eps c pts Hop H. unfold max_line_feasible in H. rewrite Hop in H. destruct H as [Hd Hall].
  eapply Forall_impl; [|exact Hall]. intros [x y] Hb.
  unfold reported_line_close, cseg_line. rewrite Hop. cbn [fst snd].
  split; [exact Hd|].
  unfold line_in_band in Hb.
  set (dx := fst (psub (c_r3 c) (c_r1 c))) in *.
  set (dy := snd (psub (c_r3 c) (c_r1 c))) in *.
  set (n := dy * (c_first c - fst (c_r1 c))).
  pose proof (round_div_half' n dx Hd) as Hr.
  pose proof (band_hi_le eps y) as Hhi. pose proof (band_lo_ge eps y) as Hlo.
  assert (A1 : (y - eps) * dx <= band_lo eps y * dx) by (apply Z.mul_le_mono_nonneg_r; lia).
  assert (A2 : band_hi eps y * dx <= (y + eps) * dx) by (apply Z.mul_le_mono_nonneg_r; lia).
  assert (E : dy * (x - c_first c) + (round_div n dx + snd (c_r1 c) - y) * dx =
              (snd (c_r1 c) * dx + dy * (x - fst (c_r1 c))) - y * dx + (dx * round_div n dx - n))
    by (unfold n; ring).
  rewrite E. lia.
Qed.

(* the one-point segment reported after a single point *)
Lemma one_point_line_close : forall eps x0 y0 first,
  band_lo eps y0 <= band_hi eps y0 -> 0 <= eps ->
  reported_line_close eps
    (mkCseg (x0, band_hi eps y0) (x0, band_lo eps y0) (x0, band_hi eps y0) (x0, band_lo eps y0) first)
    (x0, y0).
Proof.
  intros eps x0 y0 first Hb Heps. unfold reported_line_close, cseg_line, one_point.
  cbn [c_r0 c_r1 c_r2 c_r3 c_first]. rewrite !pt_eqb_refl. cbn [andb fst snd].
  split; [lia|].
  pose proof (quot2_between _ _ Hb) as Hq.
  pose proof (band_hi_le eps y0). pose proof (band_lo_ge eps y0). lia.
Qed.

Definition seg_rel (eps : Z) (c : cseg) (b : list (Z * Z)) : Prop :=
  c_first c = fst (hd (0, 0) b) /\ Forall (reported_line_close eps c) b /\
  max_line_feasible eps c b /\ min_line_feasible eps c b.

Lemma pt_eqb_x_neq : forall a b, fst a < fst b -> pt_eqb a b = false.
Proof.
  intros [ax ay] [bx b_y] H. cbn [fst] in H. unfold pt_eqb. cbn [fst snd].
  destruct (ax =? bx) eqn:E; [apply Z.eqb_eq in E; lia | reflexivity].
Qed.

Theorem sinv_seg_rel : forall eps cur s,
  0 <= eps -> cur <> [] -> rect_inv eps cur s -> sinv eps cur s -> seg_rel eps (get_segment s) cur.
Proof.
  intros eps cur s Heps Hne Hrect Hs.
  destruct (sinv_feasible eps cur s Hne Hrect Hs) as [Hmax Hmin].
  destruct Hrect as (He & Hn & _ & I2 & _). destruct Hs as (S1 & S2 & S3).
  assert (Hlen : 1 <= zlen cur).
  { destruct cur; [contradiction|]. unfold zlen. cbn [length]. lia. }
  unfold seg_rel. split; [|split; [|split; assumption]].
  - unfold get_segment. destruct (p_n s =? 1); cbn [c_first]; apply S3; lia.
  - unfold get_segment in *. destruct (p_n s =? 1) eqn:E.
    + apply Z.eqb_eq in E. destruct (S1 E) as (x0 & y0 & -> & _ & _ & -> & -> & Hb).
      constructor; [|constructor]. apply one_point_line_close; assumption.
    + apply Z.eqb_neq in E. assert (H2 : 2 <= p_n s) by lia.
      destruct (I2 H2) as (_ & _ & H02 & _).
      apply reported_line_sound; [|exact Hmax].
      unfold one_point. cbn [c_r0 c_r2]. rewrite (pt_eqb_x_neq _ _ H02). reflexivity.
Qed.

(* ====================== lifting to the segmentation drivers ====================== *)
Lemma feasible_of_max_line : forall eps c pts,
  one_point c = false -> max_line_feasible eps c pts -> feasible eps pts.
Proof.
  intros eps c pts Hop H. unfold max_line_feasible in H. rewrite Hop in H. destruct H as [Hd Hall].
  set (dx := fst (psub (c_r3 c) (c_r1 c))) in *.
  set (dy := snd (psub (c_r3 c) (c_r1 c))) in *.
  exists dy, dx, (snd (c_r1 c) * dx - dy * fst (c_r1 c)), dx.
  split; [exact Hd|]. split; [exact Hd|].
  eapply Forall_impl; [|exact Hall]. intros [x y] Hb.
  unfold line_in_band in Hb. unfold qline_in_band.
  assert (E : dy * x * dx + (snd (c_r1 c) * dx - dy * fst (c_r1 c)) * dx =
              (snd (c_r1 c) * dx + dy * (x - fst (c_r1 c))) * dx) by ring.
  rewrite E. destruct Hb as [Hb1 Hb2].
  split; apply Z.mul_le_mono_nonneg_r; lia.
Qed.

Lemma sinv_feasible_block : forall eps cur s,
  cur <> [] -> rect_inv eps cur s -> sinv eps cur s -> feasible eps cur.
Proof.
  intros eps cur s Hne Hrect Hs.
  destruct (sinv_feasible eps cur s Hne Hrect Hs) as [Hmax _].
  destruct Hrect as (He & Hn & _ & I2 & _). destruct Hs as (S1 & S2 & S3).
  assert (Hlen : 1 <= zlen cur).
  { destruct cur; [contradiction|]. unfold zlen. cbn [length]. lia. }
  destruct (Z.eq_dec (p_n s) 1) as [E | E].
  - destruct (S1 E) as (x0 & y0 & -> & _ & _ & _ & _ & Hb).
    exists 0, 1, (band_lo eps y0), 1. split; [lia|]. split; [lia|].
    constructor; [|constructor]. unfold qline_in_band. lia.
  - assert (H2 : 2 <= p_n s) by lia. destruct (I2 H2) as (_ & _ & H02 & _).
    apply (feasible_of_max_line eps (get_segment s)); [|exact Hmax].
    unfold get_segment. destruct (p_n s =? 1) eqn:E1; [apply Z.eqb_eq in E1; lia|].
    unfold one_point. cbn [c_r0 c_r2]. rewrite (pt_eqb_x_neq _ _ H02). reflexivity.
Qed.

Lemma reject_same_segment : forall s x y s',
  add_point y_size_t s x y = Ok (false, s') -> get_segment s' = get_segment s.
Proof.
  intros s x y s' H. destruct (add_point_reject_state _ _ _ _ _ H) as (N0 & N1 & ->).
  unfold get_segment. cbn [p_n p_r0 p_r1 p_r2 p_r3 p_first_x].
  destruct (p_n s =? 1) eqn:E; [apply Z.eqb_eq in E; contradiction | reflexivity].
Qed.

Section Premises.
  Variable eps : Z.
  Hypothesis Heps : 0 <= eps.

  Lemma P_first : forall s x y s',
    p_n s = 0 -> p_eps s = eps -> rank_ok eps y ->
    add_point y_size_t s x y = Ok (true, s') -> sinv eps [(x, y)] s'.
  Proof. intros s x y s' Hn He Hrk H. apply (sinv_first eps s x y s'); assumption. Qed.

  Lemma P_step : forall cur s x y s',
    cur <> [] -> rect_inv eps cur s -> sinv eps cur s -> rank_ok eps y ->
    add_point y_size_t s x y = Ok (true, s') -> sinv eps (cur ++ [(x, y)]) s'.
  Proof. intros cur s x y s' _ Hr Hs Hrk H. apply (sinv_step eps cur s x y s'); assumption. Qed.

  Lemma P_ok : forall cur s, cur <> [] -> rect_inv eps cur s -> sinv eps cur s -> feasible eps cur.
  Proof. intros cur s. apply sinv_feasible_block. Qed.

  Lemma P_R : forall cur s,
    cur <> [] -> rect_inv eps cur s -> sinv eps cur s -> seg_rel eps (get_segment s) cur.
  Proof. intros cur s. apply sinv_seg_rel. exact Heps. Qed.

  Lemma P_R_reject : forall cur s x y s',
    cur <> [] -> rect_inv eps cur s -> sinv eps cur s ->
    add_point y_size_t s x y = Ok (false, s') -> seg_rel eps (get_segment s') cur.
  Proof.
    intros cur s x y s' Hne Hr Hs H. rewrite (reject_same_segment s x y s' H).
    apply sinv_seg_rel; assumption.
  Qed.
End Premises.

Lemma blocks_ok_of_Forall2 : forall eps segs g,
  Forall (fun b => b <> [] /\ feasible eps b) g -> Forall2 (seg_rel eps) segs g ->
  blocks_ok eps segs g.
Proof.
  intros eps segs g Hg HR. induction HR as [|c b cs bs Hcb _ IH]; [exact I|].
  inversion Hg as [|b0 bs0 [Hne _] Hg']; subst.
  destruct Hcb as (Hf & Hcl & Hmax & Hmin).
  cbn [blocks_ok]. repeat split; try assumption. apply IH. exact Hg'.
Qed.

Lemma chunk_Err_neg_eps : forall kt n start eps chunk rest r,
  eps < 0 -> make_segmentation_chunk kt n start eps chunk rest = Ok r -> False.
Proof.
  intros kt n start eps chunk rest r He H. unfold make_segmentation_chunk, pla_init in H.
  assert (E : (eps <? 0) = true) by (apply Z.ltb_lt; exact He). rewrite E in H.
  cbn [bind] in H. discriminate H.
Qed.

Lemma eps_nonneg_of_chunk : forall kt n start eps chunk rest r,
  make_segmentation_chunk kt n start eps chunk rest = Ok r -> 0 <= eps.
Proof.
  intros kt n start eps chunk rest r H. destruct (Z_lt_ge_dec eps 0) as [Hl | Hg]; [|lia].
  exfalso. exact (chunk_Err_neg_eps _ _ _ _ _ _ _ Hl H).
Qed.

(* one chunk: the emitted segments correspond one-to-one, in order, to the consecutive non-empty
   blocks of a greedy partition of the fed points; each block is within eps + 1/2 of its segment's
   reported line and within eps of both extreme lines *)
Theorem make_segmentation_chunk_sound : forall kt n start eps chunk rest segs fed count,
  make_segmentation_chunk kt n start eps chunk rest = Ok (segs, fed, count) ->
  0 <= start -> start + zlen chunk <= n -> n + eps < 2 ^ 64 - 1 ->
  exists g, is_partition (feasible eps) fed g /\ greedy (feasible eps) g /\ zlen g = count /\
            blocks_ok eps segs g /\
            (forall p, is_partition (feasible eps) fed p -> count <= zlen p).
Proof.
  intros kt n start eps chunk rest segs fed count H Hs He Hn.
  pose proof (eps_nonneg_of_chunk _ _ _ _ _ _ _ H) as Heps.
  destruct (make_segmentation_chunk_optimal eps (seg_rel eps) (sinv eps)
              (P_first eps Heps) (P_step eps Heps) (P_ok eps) (P_R eps Heps) (P_R_reject eps Heps)
              kt n start chunk rest segs fed count H Hs He Hn) as [(g & G1 & G2 & G3 & G4) Hopt].
  exists g. split; [exact G1|]. split; [exact G2|]. split; [exact G3|]. split; [|exact Hopt].
  destruct G1 as [_ G1]. apply blocks_ok_of_Forall2; assumption.
Qed.

Theorem make_segmentation_sound : forall kt n eps data segs fed count,
  make_segmentation kt n eps data = Ok (segs, fed, count) ->
  zlen data <= n -> n + eps < 2 ^ 64 - 1 ->
  exists g, is_partition (feasible eps) fed g /\ greedy (feasible eps) g /\ zlen g = count /\
            blocks_ok eps segs g /\
            (forall p, is_partition (feasible eps) fed p -> count <= zlen p).
Proof.
  intros kt n eps data segs fed count H Hd Hn. unfold make_segmentation in H.
  apply (make_segmentation_chunk_sound kt n 0 eps data [] segs fed count H); lia.
Qed.

(* the optimality theorem of PlaComplete.v, now without hypotheses on the builder *)
Theorem make_segmentation_optimal_closed : forall kt n eps data segs fed count,
  make_segmentation kt n eps data = Ok (segs, fed, count) ->
  zlen data <= n -> n + eps < 2 ^ 64 - 1 ->
  forall p, is_partition (feasible eps) fed p -> count <= zlen p.
Proof.
  intros kt n eps data segs fed count H Hd Hn.
  destruct (make_segmentation_sound kt n eps data segs fed count H Hd Hn) as (g & _ & _ & _ & _ & Hopt).
  exact Hopt.
Qed.

(* ---- the parallel driver ---- *)
Lemma par_chunks_eps_nonneg : forall kt n eps cs par data is_ r,
  par_chunks kt n eps cs par data (0 :: is_) = Ok r -> 0 <= eps.
Proof.
  intros kt n eps cs par data is_ r H.
  destruct (Z_lt_ge_dec eps 0) as [Hl | Hg]; [|lia]. exfalso.
  cbn [par_chunks] in H. rewrite Z.mul_0_l in H.
  change (0 >? 0) with false in H. cbv iota in H.
  match type of H with
  | bind (bind ?e _) _ = _ => destruct e as [v|er] eqn:E
  | bind ?e _ = _ => destruct e as [v|er] eqn:E
  end.
  - exact (chunk_Err_neg_eps _ _ _ _ _ _ _ Hl E).
  - cbn [bind] in H. discriminate H.
Qed.

Lemma chunk_shape_concat : forall eps chunks gs,
  Forall2 (chunk_shape eps (feasible eps)) chunks gs ->
  concat (concat gs) = concat chunks /\
  Forall (fun b => b <> [] /\ feasible eps b) (concat gs).
Proof.
  intros eps chunks gs H. induction H as [|li gi ls gs' [S1 [S2 _]] _ [IH1 IH2]].
  - split; [reflexivity | constructor].
  - cbn [concat]. split.
    + rewrite concat_app, IH1, S1. reflexivity.
    + apply Forall_app. split; assumption.
Qed.

Theorem make_segmentation_par_sound : forall kt threshold par n eps data segs fed count,
  make_segmentation_par kt threshold par n eps data = Ok (segs, fed, count) ->
  1 <= par -> zlen data <= n -> n + eps < 2 ^ 64 - 1 ->
  exists g, is_partition (feasible eps) fed g /\ zlen g = count /\ blocks_ok eps segs g /\
            (forall p, is_partition (feasible eps) fed p -> count <= zlen p + (par - 1)).
Proof.
  intros kt threshold par n eps data segs fed count H Hpar Hd Hn.
  unfold make_segmentation_par in H.
  destruct ((par =? 1) || (n <? threshold)) eqn:Eseq.
  - destruct (make_segmentation_sound kt n eps data segs fed count H Hd Hn)
      as (g & G1 & _ & G3 & G4 & Hopt).
    exists g. split; [exact G1|]. split; [exact G3|]. split; [exact G4|].
    intros p Hp. pose proof (Hopt p Hp). lia.
  - assert (Hz : zseq 0 (Z.to_nat par) = 0 :: zseq (0 + 1) (Z.to_nat par - 1)).
    { destruct (Z.to_nat par) as [|k] eqn:Ek; [lia|]. cbn [zseq]. f_equal. f_equal. lia. }
    assert (Heps : 0 <= eps).
    { rewrite Hz in H. exact (par_chunks_eps_nonneg _ _ _ _ _ _ _ _ H). }
    pose proof (zlen_nonneg _ data) as Hd0.
    assert (Hn0 : 0 <= n) by lia.
    assert (Hcs : 0 <= Z.quot n par) by (apply Z.quot_pos; lia).
    assert (Hmul : par * Z.quot n par <= n) by (apply Z.mul_quot_le; lia).
    destruct (par_chunks_greedy eps (feasible eps) (seg_rel eps) (sinv eps)
                (P_first eps Heps) (P_step eps Heps) (P_ok eps) (P_R eps Heps) (P_R_reject eps Heps)
                kt n (Z.quot n par) par data (zseq 0 (Z.to_nat par)) segs fed count H Hcs Hn)
      as (chunks & gs & C1 & C2 & C3 & C4 & C5).
    { eapply Forall_impl; [|exact (zseq_range (Z.to_nat par) 0)].
      intros i Hi. cbn beta in Hi. split; [lia|].
      assert ((i + 1) * Z.quot n par <= par * Z.quot n par).
      { apply Z.mul_le_mono_nonneg_r; lia. }
      lia. }
    destruct (chunk_shape_concat eps chunks gs C2) as [D1 D2].
    exists (concat gs).
    split; [split; [rewrite D1; exact C1 | exact D2]|].
    split; [exact C4|].
    split; [apply blocks_ok_of_Forall2; assumption|].
    intros p Hp.
    apply (make_segmentation_par_near_optimal eps (seg_rel eps) (sinv eps)
             (P_first eps Heps) (P_step eps Heps) (P_ok eps) (P_R eps Heps) (P_R_reject eps Heps)
             kt threshold par n data segs fed count); try assumption.
    unfold make_segmentation_par. rewrite Eseq. exact H.
Qed.

Theorem make_segmentation_par_near_optimal_closed : forall kt threshold par n eps data segs fed count,
  make_segmentation_par kt threshold par n eps data = Ok (segs, fed, count) ->
  1 <= par -> zlen data <= n -> n + eps < 2 ^ 64 - 1 ->
  forall p, is_partition (feasible eps) fed p -> count <= zlen p + (par - 1).
Proof.
  intros kt threshold par n eps data segs fed count H Hpar Hd Hn.
  destruct (make_segmentation_par_sound kt threshold par n eps data segs fed count H Hpar Hd Hn)
    as (g & _ & _ & _ & Hopt).
  exact Hopt.
Qed.

(* end-to-end form of the reported-line property for one builder *)
Theorem feed_all_reported_line : forall eps pts s0 s,
  0 <= eps -> pla_init eps = Ok s0 -> pts <> [] -> ranks_ok eps pts ->
  feed_all y_size_t s0 pts = Ok s ->
  c_first (get_segment s) = fst (hd (0, 0) pts) /\
  Forall (reported_line_close eps (get_segment s)) pts.
Proof.
  intros eps pts s0 s Heps Hinit Hne Hr Hfeed.
  destruct (rect_inv_init eps s0 Hinit) as [Hrect0 _].
  pose proof (sinv_init eps s0 Hinit) as Hs0.
  destruct (feed_all_sinv eps pts [] s0 s Heps Hr Hrect0 Hs0 Hfeed) as [Hrect Hs].
  cbn [app] in Hrect, Hs.
  destruct (sinv_seg_rel eps pts s Heps Hne Hrect Hs) as (A & B & _).
  split; assumption.
Qed.

Print Assumptions feed_all_sound.
Print Assumptions reported_line_sound.
Print Assumptions sinv_seg_rel.
Print Assumptions make_segmentation_chunk_sound.
Print Assumptions make_segmentation_sound.
Print Assumptions make_segmentation_optimal_closed.
Print Assumptions make_segmentation_par_sound.
Print Assumptions make_segmentation_par_near_optimal_closed.
Print Assumptions feed_all_reported_line.

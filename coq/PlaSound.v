(* PlaSound.v — soundness of OptimalPiecewiseLinearModel::add_point / get_segment:
   both extreme lines of the reported segment are within the band of every fed point. *)
Require Import Base PlaModel PlaSpec PlaComplete PlaSoundGeom PlaSoundInv.
Local Open Scope Z_scope.

Lemma pt_eqb_refl : forall a, pt_eqb a a = true.
Proof. intros [x y]. unfold pt_eqb. cbn [fst snd]. rewrite !Z.eqb_refl. reflexivity. Qed.

Lemma lines_in_band : forall eps (o : pt) (s : slp) cur,
  Forall (fun q => lev o s q <= 0) (lows eps cur) ->
  Forall (fun u => 0 <= lev o s u) (ups eps cur) ->
  Forall (line_in_band eps (fst o) (snd o) (fst s) (snd s)) cur.
Proof.
  intros eps o s cur HL HU. unfold lows in HL. unfold ups in HU.
  rewrite Forall_map in HL, HU. rewrite Forall_forall in HL, HU. apply Forall_forall.
  intros [x y] Hp. pose proof (HL _ Hp) as A. pose proof (HU _ Hp) as B.
  cbn beta in A, B. unfold line_in_band. unfold lev in A, B. cbn [fst snd] in A, B. lia.
Qed.

Lemma sinv_feasible : forall eps cur s,
  cur <> [] -> rect_inv eps cur s -> sinv eps cur s ->
  max_line_feasible eps (get_segment s) cur /\ min_line_feasible eps (get_segment s) cur.
Proof.
  intros eps cur s Hne (He & Hn & _) (S1 & S2 & _).
  assert (Hlen : 1 <= zlen cur).
  { destruct cur; [contradiction|]. unfold zlen. cbn [length]. lia. }
  unfold get_segment. destruct (p_n s =? 1) eqn:E.
  - unfold max_line_feasible, min_line_feasible, one_point. cbn [c_r0 c_r1 c_r2 c_r3].
    rewrite !pt_eqb_refl. cbn [andb]. split; exact I.
  - apply Z.eqb_neq in E. assert (H2 : 2 <= p_n s) by lia.
    pose proof (S2 H2) as HI. destruct HI.
    unfold max_line_feasible, min_line_feasible.
    destruct (one_point _); [split; exact I|]. cbn [c_r0 c_r1 c_r2 c_r3].
    split; (split; [assumption|]); apply lines_in_band; assumption.
Qed.

Theorem feed_all_sound :
  forall eps pts s0 s,
    0 <= eps -> pla_init eps = Ok s0 -> pts <> [] -> xs_increasing pts -> ranks_ok eps pts ->
    feed_all y_size_t s0 pts = Ok s ->
    max_line_feasible eps (get_segment s) pts /\ min_line_feasible eps (get_segment s) pts.
Proof.
  intros eps pts s0 s Heps Hinit Hne _ Hr Hfeed.
  destruct (rect_inv_init eps s0 Hinit) as [Hrect0 _].
  pose proof (sinv_init eps s0 Hinit) as Hs0.
  destruct (feed_all_sinv eps pts [] s0 s Heps Hr Hrect0 Hs0 Hfeed) as [Hrect Hs].
  cbn [app] in Hrect, Hs.
  apply sinv_feasible; assumption.
Qed.


(* ====================== the reported line ====================== *)
Ltac Zify.zify_post_hook ::= Z.quot_rem_to_equations.

Lemma round_div_half' : forall n d, 0 < d -> 2 * Z.abs (d * round_div n d - n) <= d.
Proof.
  intros n d Hd. unfold round_div.
  destruct (n <? 0) eqn:Hn; destruct (d <? 0) eqn:Hd'; try lia; cbn [xorb]; nia.
Qed.

Lemma quot2_between : forall a b, a <= b -> a <= Z.quot (b + a) 2 <= b.
Proof. intros a b H. lia. Qed.

Ltac Zify.zify_post_hook ::= idtac.

Lemma band_hi_le : forall eps y, band_hi eps y <= y + eps.
Proof.
  intros eps y. unfold band_hi, band, y_size_t. cbn [fst ymax].
  destruct (y >=? 2 ^ 64 - 1 - eps) eqn:E; [|lia]. apply Z.geb_le in E. lia.
Qed.
Lemma band_lo_ge : forall eps y, y - eps <= band_lo eps y.
Proof.
  intros eps y. destruct (band_lo_cases eps y) as [[H E] | [H E]]; rewrite E; lia.
Qed.

Theorem reported_line_sound : forall eps c pts,
  one_point c = false -> max_line_feasible eps c pts -> Forall (reported_line_close eps c) pts.
Proof.
  intros eps c pts Hop H. unfold max_line_feasible in H. rewrite Hop in H. destruct H as [Hd Hall].
  eapply Forall_impl; [|exact Hall]. intros [x y] Hb.
  unfold reported_line_close, cseg_line. rewrite Hop. cbn [fst snd].
  split; [exact Hd|].
  unfold line_in_band in Hb.
  set (dx := fst (psub (c_r3 c) (c_r1 c))) in *.
  set (dy := snd (psub (c_r3 c) (c_r1 c))) in *.
  set (n := dy * (c_first c - fst (c_r1 c))).
  pose proof (round_div_half' n dx Hd) as Hr.
  pose proof (band_hi_le eps y) as Hhi. pose proof (band_lo_ge eps y) as Hlo.
  assert (A1 : (y - eps) * dx <= band_lo eps y * dx) by (apply Z.mul_le_mono_nonneg_r; lia).
  assert (A2 : band_hi eps y * dx <= (y + eps) * dx) by (apply Z.mul_le_mono_nonneg_r; lia).
  assert (E : dy * (x - c_first c) + (round_div n dx + snd (c_r1 c) - y) * dx =
              (snd (c_r1 c) * dx + dy * (x - fst (c_r1 c))) - y * dx + (dx * round_div n dx - n))
    by (unfold n; ring).
  rewrite E. lia.
Qed.

(* the one-point segment reported after a single point *)
Lemma one_point_line_close : forall eps x0 y0 first,
  band_lo eps y0 <= band_hi eps y0 -> 0 <= eps ->
  reported_line_close eps
    (mkCseg (x0, band_hi eps y0) (x0, band_lo eps y0) (x0, band_hi eps y0) (x0, band_lo eps y0) first)
    (x0, y0).
Proof.
  intros eps x0 y0 first Hb Heps. unfold reported_line_close, cseg_line, one_point.
  cbn [c_r0 c_r1 c_r2 c_r3 c_first]. rewrite !pt_eqb_refl. cbn [andb fst snd].
  split; [lia|].
  pose proof (quot2_between _ _ Hb) as Hq.
  pose proof (band_hi_le eps y0). pose proof (band_lo_ge eps y0). lia.
Qed.

Definition seg_rel (eps : Z) (c : cseg) (b : list (Z * Z)) : Prop :=
  c_first c = fst (hd (0, 0) b) /\ Forall (reported_line_close eps c) b /\
  max_line_feasible eps c b /\ min_line_feasible eps c b.

Lemma pt_eqb_x_neq : forall a b, fst a < fst b -> pt_eqb a b = false.
Proof.
  intros [ax ay] [bx b_y] H. cbn [fst] in H. unfold pt_eqb. cbn [fst snd].
  destruct (ax =? bx) eqn:E; [apply Z.eqb_eq in E; lia | reflexivity].
Qed.

Theorem sinv_seg_rel : forall eps cur s,
  0 <= eps -> cur <> [] -> rect_inv eps cur s -> sinv eps cur s -> seg_rel eps (get_segment s) cur.
Proof.
  intros eps cur s Heps Hne Hrect Hs.
  destruct (sinv_feasible eps cur s Hne Hrect Hs) as [Hmax Hmin].
  destruct Hrect as (He & Hn & _ & I2 & _). destruct Hs as (S1 & S2 & S3).
  assert (Hlen : 1 <= zlen cur).
  { destruct cur; [contradiction|]. unfold zlen. cbn [length]. lia. }
  unfold seg_rel. split; [|split; [|split; assumption]].
  - unfold get_segment. destruct (p_n s =? 1); cbn [c_first]; apply S3; lia.
  - unfold get_segment in *. destruct (p_n s =? 1) eqn:E.
    + apply Z.eqb_eq in E. destruct (S1 E) as (x0 & y0 & -> & _ & _ & -> & -> & Hb).
      constructor; [|constructor]. apply one_point_line_close; assumption.
    + apply Z.eqb_neq in E. assert (H2 : 2 <= p_n s) by lia.
      destruct (I2 H2) as (_ & _ & H02 & _).
      apply reported_line_sound; [|exact Hmax].
      unfold one_point. cbn [c_r0 c_r2]. rewrite (pt_eqb_x_neq _ _ H02). reflexivity.
Qed.
Print Assumptions feed_all_sound.

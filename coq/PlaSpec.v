(* PlaSpec.v — specification vocabulary for the piecewise-linear model (C03, C04).
   Definitions only.  Everything is stated in exact integer arithmetic by cross-multiplication,
   so no rounding enters the statements. *)
Require Import Base PlaModel.
Local Open Scope Z_scope.

(* the band of a rank y as add_point computes it for Y = size_t *)
Definition band_lo (eps y : Z) : Z := snd (band y_size_t eps y).
Definition band_hi (eps y : Z) : Z := fst (band y_size_t eps y).

(* A line is given by a point (x0,y0) and a slope dy/dx with dx > 0; its value at x is
   y0 + dy*(x-x0)/dx.  `line_in_band` says band_lo <= value <= band_hi, cross-multiplied by dx. *)
Definition line_in_band (eps : Z) (x0 y0 dx dy : Z) (p : Z * Z) : Prop :=
  let '(x, y) := p in
  band_lo eps y * dx <= y0 * dx + dy * (x - x0) <= band_hi eps y * dx.

Definition line_in_band_b (eps : Z) (x0 y0 dx dy : Z) (p : Z * Z) : bool :=
  let '(x, y) := p in
  (band_lo eps y * dx <=? y0 * dx + dy * (x - x0)) && (y0 * dx + dy * (x - x0) <=? band_hi eps y * dx).

(* the two extreme lines of a canonical segment *)
Definition max_line_feasible (eps : Z) (c : cseg) (pts : list (Z * Z)) : Prop :=
  if one_point c then True
  else
    let s := psub (c_r3 c) (c_r1 c) in
    0 < fst s /\ Forall (line_in_band eps (fst (c_r1 c)) (snd (c_r1 c)) (fst s) (snd s)) pts.
Definition min_line_feasible (eps : Z) (c : cseg) (pts : list (Z * Z)) : Prop :=
  if one_point c then True
  else
    let s := psub (c_r2 c) (c_r0 c) in
    0 < fst s /\ Forall (line_in_band eps (fst (c_r0 c)) (snd (c_r0 c)) (fst s) (snd s)) pts.

(* feeding a list of points to one builder, all accepted *)
Fixpoint feed_all (yt : ytype) (s : pla) (pts : list (Z * Z)) : res pla :=
  match pts with
  | [] => Ok s
  | (x, y) :: tl =>
      do r <- add_point yt s x y;
      if fst r then feed_all yt (snd r) tl else Err OutOfFuel    (* "rejected": not a normal value *)
  end.

Fixpoint xs_increasing (pts : list (Z * Z)) : Prop :=
  match pts with
  | a :: ((b :: _) as tl) => fst a < fst b /\ xs_increasing tl
  | _ => True
  end.

(* ranks are size_t values far from the top of the type: 0 <= y and y + eps <= 2^64 - 2 *)
Definition ranks_ok (eps : Z) (pts : list (Z * Z)) : Prop :=
  Forall (fun p => 0 <= snd p /\ snd p + eps < 2 ^ 64 - 1) pts.

(* ---- the reported line (get_floating_point_segment, integer branch) ---- *)
(* |slope*(x - origin) + intercept - y| <= eps + 1/2, with slope = dy/dx exact, multiplied by 2*dx *)
Definition reported_line_close (eps : Z) (c : cseg) (p : Z * Z) : Prop :=
  let '(sl, icpt) := cseg_line c (c_first c) in
  let '(x, y) := p in
  0 < fst sl /\
  2 * Z.abs (snd sl * (x - c_first c) + (icpt - y) * fst sl) <= (2 * eps + 1) * fst sl.

Definition reported_line_close_b (eps : Z) (c : cseg) (p : Z * Z) : bool :=
  let '(sl, icpt) := cseg_line c (c_first c) in
  let '(x, y) := p in
  (0 <? fst sl) &&
  (2 * Z.abs (snd sl * (x - c_first c) + (icpt - y) * fst sl) <=? (2 * eps + 1) * fst sl).

(* ---- partition of the fed points into the emitted segments ---- *)
(* blocks: consecutive non-empty blocks of the fed list, one per segment, each starting at the segment's first key *)
Fixpoint blocks_ok (eps : Z) (segs : list cseg) (blocks : list (list (Z * Z))) : Prop :=
  match segs, blocks with
  | [], [] => True
  | c :: cs, b :: bs =>
      b <> [] /\ c_first c = fst (hd (0, 0) b) /\
      Forall (reported_line_close eps c) b /\ max_line_feasible eps c b /\ min_line_feasible eps c b /\
      blocks_ok eps cs bs
  | _, _ => False
  end.

(* ---- feasibility of an arbitrary rational line a/ad * x + b/bd (ad, bd > 0): C04 ---- *)
Definition qline_in_band (eps : Z) (an ad bn bd : Z) (p : Z * Z) : Prop :=
  let '(x, y) := p in
  band_lo eps y * ad * bd <= an * x * bd + bn * ad <= band_hi eps y * ad * bd.
Definition feasible (eps : Z) (pts : list (Z * Z)) : Prop :=
  exists an ad bn bd, 0 < ad /\ 0 < bd /\ Forall (qline_in_band eps an ad bn bd) pts.

Definition qline_in_band_b (eps : Z) (an ad bn bd : Z) (p : Z * Z) : bool :=
  let '(x, y) := p in
  (band_lo eps y * ad * bd <=? an * x * bd + bn * ad) && (an * x * bd + bn * ad <=? band_hi eps y * ad * bd).
Definition line_ok_b (eps : Z) (an ad bn bd : Z) (pts : list (Z * Z)) : bool :=
  (0 <? ad) && (0 <? bd) && forallb (qline_in_band_b eps an ad bn bd) pts.

(* four-point infeasibility certificate: points i<j force slope >= (lo_j - hi_i)/(xj - xi) and
   points k<l force slope <= (hi_l - lo_k)/(xl - xk); infeasible when the former exceeds the latter *)
Definition cert4_b (eps : Z) (pi pj pk pl : Z * Z) : bool :=
  let '(xi, yi) := pi in let '(xj, yj) := pj in let '(xk, yk) := pk in let '(xl, yl) := pl in
  (xi <? xj) && (xk <? xl) &&
  ((band_hi eps yl - band_lo eps yk) * (xj - xi) <? (band_lo eps yj - band_hi eps yi) * (xl - xk)).

(* judge for C03 on the implementation's own (exact rectangle slope, reported intercept) *)
Definition line_close_b (eps dx dy first icpt : Z) (p : Z * Z) : bool :=
  let '(x, y) := p in
  (0 <? dx) && (2 * Z.abs (dy * (x - first) + (icpt - y) * dx) <=? (2 * eps + 1) * dx).
